import DaeVerif.Common.RuleScan
/-!
# C04 — rule normalisation: executable model

Mirrors, function by function,

* `component/routing/optimizer.go`: `AliasOptimizer`, `DatReaderOptimizer` (the geodata files are a
  parameter `Geo`), `MergeAndSortRulesOptimizer` (stable sorts, `sameOutbound`, the merge loop that
  only joins neighbouring non-negated singleton rules), `DeduplicateParamsOptimizer`;
* `component/routing/matcher_builder.go`: `RulesBuilder.Apply` + `groupParamValuesByKey` (one match
  set per key group, groups chained by OR, functions by AND, the rule's outbound on the last set; a
  function without parameters is a build error);
* `component/dns/request_rule_split.go`: `classifyRequestRule` / `SplitRequestRules`;
* `component/daedns/router.go`: `compileMatcher` + `wrapNotPredicate` (internal selectors; no match
  sets, a zero-parameter selector is a catch-all).

The match-set scan itself (`RoutingMatcher.Match`, `RequestMatcher.Match`, `ResponseMatcher.Match`)
is `RuleScan.scanAux` from `Common/RuleScan.lean`.

What one value of one function means for one packet/question (`atom`) is a parameter: C04 is about
the rule *structure*; leaf matching is C01/C11/C12.  Core-only (the driver links this file).
-/
namespace DaeVerif.C04
open DaeVerif.RuleScan

/-! ## The rule AST (`pkg/config_parser/section.go`) -/

structure Param where
  key : String
  val : String
deriving DecidableEq, Repr, Inhabited, Hashable

/-- `config_parser.Function`; also used for a rule's outbound (`proxy(must, mark: 1)`). -/
structure Func where
  name : String
  neg : Bool
  params : List Param
deriving DecidableEq, Repr, Inhabited

structure Rule where
  funcs : List Func
  out : Func
deriving DecidableEq, Repr, Inhabited

abbrev Prog := List Rule

/-! ## AliasOptimizer -/

def aliasName (n : String) : String :=
  if n = "dport" then "port" else if n = "dip" then "ip" else n

def aliasKey (k : String) : String :=
  if k = "" ∨ k = "domain" then "suffix" else if k = "contains" then "keyword" else k

/-- the name is rewritten first; the key rewrite applies when the (rewritten) name is `domain`. -/
def aliasParams (n : String) (ps : List Param) : List Param :=
  if n = "domain" then ps.map fun p => { p with key := aliasKey p.key } else ps

def aliasFunc (f : Func) : Func :=
  { name := aliasName f.name, neg := f.neg, params := aliasParams (aliasName f.name) f.params }

def aliasRule (r : Rule) : Rule := { r with funcs := r.funcs.map aliasFunc }

def aliasOpt (rs : Prog) : Prog := rs.map aliasRule

/-! ## DatReaderOptimizer -/

/-- The geodata files as the optimizer sees them: `site file code` / `ip file code` give the
parameter list `loadGeoSite` / `loadGeoIp` return, `none` = load error. -/
structure Geo where
  site : String → String → Option (List Param)
  ip : String → String → Option (List Param)

/-- `strings.SplitN(val, ":", 2)`; a value without a colon is a configuration error (`fix:` c54c420). -/
def cutColon (s : String) : Option (String × String) :=
  match s.splitOn ":" with
  | a :: b :: rest => some (a, ":".intercalate (b :: rest))
  | _ => none

def datParam (g : Geo) (fname : String) (p : Param) : Option (List Param) :=
  if p.key = "geosite" then g.site "geosite" p.val
  else if p.key = "geoip" then g.ip "geoip" p.val
  else if p.key = "ext" then
    match cutColon p.val with
    | none => none
    | some (file, code) =>
      if fname = "domain" ∨ fname = "qname" then g.site file code
      else if fname = "ip" then g.ip file code
      else none
  else some [p]

def datParams (g : Geo) (fname : String) : List Param → Option (List Param)
  | [] => some []
  | p :: ps =>
    match datParam g fname p, datParams g fname ps with
    | some a, some b => some (a ++ b)
    | _, _ => none

/-- one function: every parameter is replaced by its expansion; a function that HAD parameters and is
left with none (empty category, `@attr` filter that hits nothing) is a configuration error. -/
def datFunc (g : Geo) (f : Func) : Option Func :=
  match datParams g f.name f.params with
  | some ps => if !f.params.isEmpty && ps.isEmpty then none else some { f with params := ps }
  | none => none

def datFuncs (g : Geo) : List Func → Option (List Func)
  | [] => some []
  | f :: fs =>
    match datFunc g f, datFuncs g fs with
    | some a, some b => some (a :: b)
    | _, _ => none

def datRule (g : Geo) (r : Rule) : Option Rule :=
  match datFuncs g r.funcs with
  | some fs => some { r with funcs := fs }
  | none => none

def datOpt (g : Geo) : Prog → Option Prog
  | [] => some []
  | r :: rs =>
    match datRule g r, datOpt g rs with
    | some a, some b => some (a :: b)
    | _, _ => none

/-! ## MergeAndSortRulesOptimizer -/

/-- `sort.SliceStable` with comparator `lt`: the stable sort is unique, insertion sort computes it
(an element moves left only past strictly greater ones). -/
def insertBy {α : Type} (lt : α → α → Bool) (x : α) : List α → List α
  | [] => [x]
  | y :: ys => if lt y x then y :: insertBy lt x ys else x :: y :: ys

def stableSort {α : Type} (lt : α → α → Bool) (l : List α) : List α := l.foldr (insertBy lt) []

def funcLt (a b : Func) : Bool := decide (a.name < b.name)

/-- generic parameter order: by key, then value. -/
def kvLt (a b : Param) : Bool :=
  if a.key = b.key then decide (a.val < b.val) else decide (a.key < b.key)

def ipVer (p : Param) : Nat := if p.val.toList.contains ':' then 6 else 4

/-- `ip` / `sip`: IPv4 before IPv6, then by value (keys are not looked at). -/
def ipLt (a b : Param) : Bool :=
  if ipVer a = ipVer b then decide (a.val < b.val) else decide (ipVer a < ipVer b)

def sortParams (f : Func) : Func :=
  { f with params := if f.name = "ip" ∨ f.name = "sip" then stableSort ipLt f.params
                     else stableSort kvLt f.params }

def sortFuncsRule (r : Rule) : Rule := { r with funcs := stableSort funcLt r.funcs }

def sortParamsRule (r : Rule) : Rule := { r with funcs := r.funcs.map sortParams }

/-- The merge condition.  `negOk = false` is the code (after `fix: do not merge neighbouring negated
singleton rules`); `negOk = true` is the previous behaviour (equal negation was enough), kept only
to state that the check is necessary.  Outbounds are compared with `sameOutbound`: name, negation and every parameter. -/
def mergeableG (negOk : Bool) (a b : Rule) : Bool :=
  match a.funcs, b.funcs with
  | [fa], [fb] =>
    fa.name == fb.name && (if negOk then fa.neg == fb.neg else (!fa.neg && !fb.neg)) &&
      decide (b.out = a.out)
  | _, _ => false

/-- `mergingRule.AndFunctions[0].Params = append(…, rules[i].AndFunctions[0].Params...)` -/
def absorb (a b : Rule) : Rule :=
  match a.funcs, b.funcs with
  | [fa], [fb] => { a with funcs := [{ fa with params := fa.params ++ fb.params }] }
  | _, _ => a

def mergeLoopG (negOk : Bool) (cur : Rule) : List Rule → List Rule
  | [] => [cur]
  | r :: rs =>
    if mergeableG negOk cur r then mergeLoopG negOk (absorb cur r) rs
    else cur :: mergeLoopG negOk r rs

def mergeRulesG (negOk : Bool) : Prog → Prog
  | [] => []
  | r :: rs => mergeLoopG negOk r rs

def mergeRules : Prog → Prog := mergeRulesG false

def mergeSortOptG (negOk : Bool) (rs : Prog) : Prog :=
  (mergeRulesG negOk (rs.map sortFuncsRule)).map sortParamsRule

def mergeSortOpt : Prog → Prog := mergeSortOptG false

/-! ## DeduplicateParamsOptimizer -/

/-- keep the first occurrence of every (key, value) pair (`map[paramKey{key, val}]`). -/
def dedupAux (seen : List Param) : List Param → List Param
  | [] => []
  | p :: ps => if seen.contains p then dedupAux seen ps else p :: dedupAux (p :: seen) ps

def dedupParams (ps : List Param) : List Param := dedupAux [] ps

def dedupFunc (f : Func) : Func := { f with params := dedupParams f.params }

def dedupRule (r : Rule) : Rule := { r with funcs := r.funcs.map dedupFunc }

def dedupOpt (rs : Prog) : Prog := rs.map dedupRule

/-! ## The three pipelines (`control_plane.go`, `dns.go`, `daedns/router.go`) -/

/-- the optimizer lists as written at the three call sites (checked against the source on every run) -/
def trafficStages : List String :=
  ["AliasOptimizer", "DatReaderOptimizer", "MergeAndSortRulesOptimizer", "DeduplicateParamsOptimizer"]

def dnsStages : List String :=
  ["DatReaderOptimizer", "MergeAndSortRulesOptimizer", "DeduplicateParamsOptimizer"]

/-! ### `config.patchMustOutbound` (runs inside `config.New`, before the traffic call site) -/

/-- `-> must_X` is shorthand for `-> X(…, must)`; `must_rules` is reserved. -/
def patchOut (o : Func) : Func :=
  if o.name.toList.take 5 = "must_".toList ∧ o.name ≠ "must_rules" then
    { o with name := String.ofList (o.name.toList.drop 5), params := o.params ++ [⟨"", "must"⟩] }
  else o

def patchMustOpt (rs : Prog) : Prog := rs.map fun r => { r with out := patchOut r.out }

/-- traffic routing: (config: must_ shorthand) → alias → dat → merge-and-sort → dedup -/
def trafficPipeline (g : Geo) (rs : Prog) : Option Prog :=
  (datOpt g (aliasOpt (patchMustOpt rs))).map fun e => dedupOpt (mergeSortOpt e)

/-- DNS request and response routing: dat → merge-and-sort → dedup -/
def dnsPipeline (g : Geo) (rs : Prog) : Option Prog :=
  (datOpt g rs).map fun e => dedupOpt (mergeSortOpt e)

/-! ## What a program means -/

/-- `δ` is what a rule decides (outbound id, mark, must / upstream id …). -/
structure Sem (δ : Type) where
  /-- does the packet / question satisfy this one value of function `name`? -/
  atom : String → Param → Bool
  /-- a per-function condition outside the negation (`subnode`: the node comes from a subscription;
  category filter of `SplitRequestRules`); `true` for the match-set backends. -/
  guard : String → Bool
  /-- value of a call with no parameters, before negation: `true` for the internal selectors
  (`sub()` is a catch-all), `false` (empty disjunction) otherwise. -/
  emptyVal : String → Bool
  /-- `ParseOutbound` + name → id: what the outbound of a rule decides. -/
  parseOut : Func → RuleOut δ
  /-- lowering shape: does the builder of this function emit one match set per *value* (`addPort`,
  `addSourcePort`, `addProcessName`, `addDscp`, `addQType`, `addUpstream`) or one per key group
  (`addDomain`, `addIp`, `addSourceIp`, `addSourceMac`, `addL4Proto`, `addIpVersion`, `addQName`)?
  Irrelevant for the meaning; the compiled form is proved correct for every choice. -/
  perValue : String → Bool := fun _ => false
  /-- `consts.MaxMatchSetLen`, the size of the domain matcher's per-set tables (read from the code under
  test by the harness; the theorems hold for every value). -/
  maxMatchSets : Nat := 1024

/-- one function call: its values are alternatives, `!` negates the disjunction. -/
def holdsF {δ : Type} (S : Sem δ) (f : Func) : Bool :=
  S.guard f.name &&
    ((if f.params.isEmpty then S.emptyVal f.name else f.params.any (S.atom f.name)) != f.neg)

/-- a rule: the conjunction of its function calls. -/
def holdsR {δ : Type} (S : Sem δ) (r : Rule) : Bool := r.funcs.all (holdsF S)

/-- first rule, top to bottom, that holds; `must_rules` only sets the flag; else the fallback. -/
def firstMatchAst {δ : Type} (S : Sem δ) : Prog → δ → Bool → δ × Bool
  | [], fb, must => (fb, must)
  | r :: rs, fb, must =>
    if holdsR S r then
      match S.parseOut r.out with
      | .final o => (o, must)
      | .mustRules => firstMatchAst S rs fb true
    else firstMatchAst S rs fb must

/-- the function name the user-level name stands for (`aliasing` = the pipeline has an alias stage). -/
def preName (aliasing : Bool) (n : String) : String := if aliasing then aliasName n else n

/-- the parameter a user-level parameter of function `n` (canonical name) stands for. -/
def preParam (aliasing : Bool) (n : String) (p : Param) : Param :=
  if aliasing ∧ n = "domain" then { p with key := aliasKey p.key } else p

/-- The meaning of one value *as the user wrote it*: `dport`/`dip` are `port`/`ip`, `domain` keys
`""`/`domain`/`contains` are `suffix`/`suffix`/`keyword`, and a geodata reference stands for the
alternatives the file lists. -/
def userAtom {δ : Type} (S : Sem δ) (g : Geo) (aliasing : Bool) (fname : String) (p : Param) : Bool :=
  match datParam g (preName aliasing fname) (preParam aliasing (preName aliasing fname) p) with
  | some ps => ps.any (S.atom (preName aliasing fname))
  | none => false

def userSem {δ : Type} (S : Sem δ) (g : Geo) (aliasing : Bool) : Sem δ :=
  { atom := userAtom S g aliasing
    guard := fun n => S.guard (preName aliasing n)
    emptyVal := fun n => S.emptyVal (preName aliasing n)
    parseOut := S.parseOut
    perValue := S.perValue
    maxMatchSets := S.maxMatchSets }

/-! ## Equality of programs up to the order and multiplicity of values and the order of conditions

Used by the check when the real optimizers produce a *different AST* than the model: if the two
programs are `nfEqP`, they mean the same (`Props.same_normal_form_same_meaning`), so a change of a
sort order or of which duplicate is kept is not reported as a divergence. -/

def sameParams (a b : List Param) : Bool := a.all b.contains && b.all a.contains

def nfEqF (f f' : Func) : Bool := f.name == f'.name && f.neg == f'.neg && sameParams f.params f'.params

def nfEqR (r r' : Rule) : Bool :=
  r.funcs.all (fun f => r'.funcs.any (nfEqF f)) && r'.funcs.all (fun f' => r.funcs.any (fun f => nfEqF f f')) &&
    decide (r.out = r'.out)

def nfEqP : Prog → Prog → Bool
  | [], [] => true
  | r :: rs, r' :: rs' => nfEqR r r' && nfEqP rs rs'
  | _, _ => false

/-! ## Side conditions that appear in the property statements -/

/-- What `config_parser` guarantees of every rule list it produces: every rule has at least one
function and every function at least one parameter (`f()` is "empty parameter list is not
supported", a rule without a function is a syntax error; the harness re-checks both on every run). -/
def ParserWF (rs : Prog) : Prop := ∀ r ∈ rs, r.funcs ≠ [] ∧ ∀ f ∈ r.funcs, f.params ≠ []

instance (rs : Prog) : Decidable (ParserWF rs) := by unfold ParserWF; infer_instance

/-- every function of the rule either has a parameter or a call without parameters is read as the
empty disjunction (`false`) by the backend. -/
def emptyOkR {δ : Type} (S : Sem δ) (r : Rule) : Bool :=
  r.funcs.all fun f => !f.params.isEmpty || !S.emptyVal f.name

def emptyOk {δ : Type} (S : Sem δ) (p : Prog) : Bool := p.all (emptyOkR S)

/-- The backends built on `RulesBuilder` (traffic, DNS request, DNS response): no per-function guard,
and a call without parameters never reaches the matcher (it is a build error), so reading it as the
empty disjunction is vacuous. -/
structure MatchSetSem {δ : Type} (S : Sem δ) : Prop where
  guard : ∀ n, S.guard n = true
  emptyVal : ∀ n, S.emptyVal n = false

/-- traffic rules as the user wrote them: additionally `must_X` outbounds mean `X(…, must)`. -/
def userSemTraffic {δ : Type} (S : Sem δ) (g : Geo) : Sem δ :=
  { userSem S g true with parseOut := fun o => S.parseOut (patchOut o) }

/-! ## `RulesBuilder.Apply`: lowering to match sets -/

/-- one match set: function name, key, the values of that key group. -/
abbrev Group := String × String × List String

/-- `groupParamValuesByKey`: groups in order of first appearance, values in order. -/
def insertGroup (k v : String) : List (String × List String) → List (String × List String)
  | [] => [(k, [v])]
  | (k', vs) :: gs => if k' = k then (k', vs ++ [v]) :: gs else (k', vs) :: insertGroup k v gs

def groupByKey (ps : List Param) : List (String × List String) :=
  ps.foldl (fun gs p => insertGroup p.key p.val gs) []

/-- the match sets of one key group: one set holding all its values, or one set per value. -/
def groupSets (perValue : Bool) (n : String) (g : String × List String) : List (Option Group) :=
  if perValue then g.2.map fun v => some (n, g.1, [v]) else [some (n, g.1, g.2)]

/-- a function call as a `RuleScan.Cond` (its match sets, chained by OR); `none` = "function has no
parameters" (build error). -/
def toCond (pv : String → Bool) (f : Func) : Option (Cond (Option Group)) :=
  match (groupByKey f.params).flatMap (groupSets (pv f.name) f.name) with
  | [] => none
  | a :: as => some ⟨f.neg, a, as⟩

def toConds (pv : String → Bool) : List Func → Option (List (Cond (Option Group)))
  | [] => some []
  | f :: fs =>
    match toCond pv f, toConds pv fs with
    | some c, some cs => some (c :: cs)
    | _, _ => none

/-- the match sets of one rule (a rule without functions emits nothing). -/
def lowerRuleAst {δ : Type} (pv : String → Bool) (P : Func → RuleOut δ) (r : Rule) :
    Option (List (Entry (Option Group) δ)) :=
  match toConds pv r.funcs with
  | none => none
  | some [] => some []
  | some (c :: cs) => some (lowerConds (outTail (P r.out)) c cs)

def lowerProg {δ : Type} (pv : String → Bool) (P : Func → RuleOut δ) :
    Prog → Option (List (Entry (Option Group) δ))
  | [] => some []
  | r :: rs =>
    match lowerRuleAst pv P r, lowerProg pv P rs with
    | some a, some b => some (a ++ b)
    | _, _ => none

/-- how a match set is evaluated: any of its values; `none` is the fallback set (always true). -/
def evGroup {δ : Type} (S : Sem δ) : Option Group → Bool
  | none => true
  | some (n, k, vs) => vs.any fun v => S.atom n ⟨k, v⟩

def isDomainSet : Option Group → Bool
  | some (n, _, _) => n == "domain" || n == "qname"
  | none => false

/-- a domain match set at an index ≥ `limit` is a build error (`AhocorasickSlimtrie.AddSet`). -/
def domainSetTooFar {δ : Type} (limit : Nat) (es : List (Entry (Option Group) δ)) : Bool :=
  (es.zipIdx).any fun (e, i) => isDomainSet e.cond && decide (limit ≤ i)

/-- the compiled program run on one packet: `Apply`, `addFallback`, the matcher build, then the scan. -/
def compiledDecision {δ : Type} (S : Sem δ) (p : Prog) (fb : δ) (must : Bool) : Option (δ × Bool) :=
  match lowerProg S.perValue S.parseOut p with
  | none => none
  | some es =>
    if domainSetTooFar S.maxMatchSets es then none
    else scanAux (evGroup S) (es ++ [⟨none, false, .final fb⟩]) false false must

/-! ## `daedns.compileMatcher`: the compiled internal-selector matcher -/

/-- `compile{Subscription,Node,SubNode}Predicate` + `wrapNotPredicate`: a list of conditions — the
catch-all when the selector has no parameters, then one condition per key group
(`groupParamValuesByKey`) that holds when any value of the group matches; the selector holds when any
condition does, negated by `!`; `subnode` additionally requires a subscription node (the guard). -/
def selPredicate {δ : Type} (S : Sem δ) (f : Func) : Bool :=
  let conditions : List Bool :=
    (if f.params.isEmpty then [S.emptyVal f.name] else []) ++
      (groupByKey f.params).map fun g => g.2.any fun v => S.atom f.name ⟨g.1, v⟩
  S.guard f.name && (conditions.any id != f.neg)

/-- `compiledMatcher.Match`: the first rule all of whose predicates hold. -/
def selCompiled {δ : Type} (S : Sem δ) : Prog → δ → Bool → δ × Bool
  | [], fb, must => (fb, must)
  | r :: rs, fb, must =>
    if r.funcs.all (selPredicate S) then
      match S.parseOut r.out with
      | .final o => (o, must)
      | .mustRules => selCompiled S rs fb true
    else selCompiled S rs fb must

/-- first hit wins -/
def orElseLookup {υ : Type} (a b : Option υ) : Option υ :=
  match a with
  | some u => some u
  | none => b

/-- `Router.MatchNodeUpstream`: a node that comes from a subscription is first looked up in the
`subnode` rules, and only without a hit there (or for a manual node) in the `node` rules. `δ = Option υ`:
`none` = no rule matched. -/
def nodeLookup {υ : Type} (S : Sem (Option υ)) (tagged : Bool) (subnodeRules nodeRules : Prog) : Option υ :=
  orElseLookup (if tagged then (selCompiled S subnodeRules none false).1 else none)
    (selCompiled S nodeRules none false).1

/-- the same `Sem` with `δ = Option υ` (`none` = no rule matched), as `nodeLookup` needs it -/
def optSem {υ : Type} (S : Sem υ) : Sem (Option υ) :=
  { atom := S.atom, guard := S.guard, emptyVal := S.emptyVal, perValue := S.perValue, maxMatchSets := S.maxMatchSets
    parseOut := fun o => match S.parseOut o with
      | .final d => .final (some d)
      | .mustRules => .mustRules }

/-! ### dae's own lookups: `WrapNodeDialer` / `WrapSubscriptionDialer` + `selectUpstream`

What production does when it resolves the host of a node or of a subscription link
(`component/outbound/dialer/register.go` → `Router.WrapNodeDialer`, `cmd/run.go` →
`Router.WrapSubscriptionDialer`, then `resolvingDialer.lookupIPAddr` → `Router.LookupIPAddr` →
`Router.selectUpstream` once per question type):

* the dialer is given the upstream *name* chosen by the internal selectors — for a node `subnode` rules
  first (subscription nodes only), then `node` rules (the precedence is written out a second time in
  `WrapNodeDialer`; `MatchNodeUpstream` is not on this path); for a subscription the `sub` rules;
* `selectUpstream` uses that upstream when there is one and otherwise asks the **request matcher**
  (compiled from the ordinary `qname`/`qtype` rules of the *same* normalised program) about the question
  (host, qtype); the fallback of the request section is the matcher's fallback set.

`T` reads the selectors (node / subscription at hand), `S` the question.  `none` = a build error. -/
def ownNodeLookup {υ : Type} (S : Sem υ) (T : Sem (Option υ)) (tagged : Bool)
    (subnodeRules nodeRules dnsRules : Prog) (fb : υ) : Option υ :=
  match nodeLookup T tagged subnodeRules nodeRules with
  | some u => some u
  | none => (compiledDecision S dnsRules fb false).map (·.1)

def ownSubLookup {υ : Type} (S : Sem υ) (T : Sem (Option υ)) (subRules dnsRules : Prog) (fb : υ) : Option υ :=
  match (selCompiled T subRules none false).1 with
  | some u => some u
  | none => (compiledDecision S dnsRules fb false).map (·.1)

/-! ## `SplitRequestRules` -/

inductive Cat where
  | dns | sub | node | subnode
deriving DecidableEq, Repr

def internalCat (n : String) : Option Cat :=
  if n = "sub" then some .sub else if n = "node" then some .node
  else if n = "subnode" then some .subnode else none

/-- state of the loop in `classifyRequestRule`. -/
structure ClsState where
  internal : Option Cat
  hasDns : Bool
  other : Bool

def classifyStep (s : ClsState) (f : Func) : Option ClsState :=
  if f.name = "qname" ∨ f.name = "qtype" then
    if s.internal.isSome then none else some { s with hasDns := true }
  else match internalCat f.name with
    | some c =>
      if s.hasDns then none
      else if s.other then none
      else match s.internal with
        | none => some { s with internal := some c }
        | some c' => if c' = c then some s else none
    | none => if s.internal.isSome then none else some { s with other := true }

def classifyFuncs : ClsState → List Func → Option ClsState
  | s, [] => some s
  | s, f :: fs =>
    match classifyStep s f with
    | some s' => classifyFuncs s' fs
    | none => none

/-- `classifyRequestRule`: `none` = "cannot mix …" error. -/
def classify (r : Rule) : Option Cat :=
  match classifyFuncs ⟨none, false, false⟩ r.funcs with
  | some s => some (s.internal.getD .dns)
  | none => none

def classifyAll : Prog → Option (List Cat)
  | [] => some []
  | r :: rs =>
    match classify r, classifyAll rs with
    | some c, some cs => some (c :: cs)
    | _, _ => none

/-- the rules of one category, in order (`none` = a rule could not be classified). -/
def splitCat (c : Cat) (rs : Prog) : Option Prog :=
  match classifyAll rs with
  | some _ => some (rs.filter fun r => classify r = some c)
  | none => none

/-- the category filter as a per-function guard. -/
def catOfName (n : String) : Cat := (internalCat n).getD .dns

def withCat {δ : Type} (S : Sem δ) (c : Cat) : Sem δ :=
  { S with guard := fun n => decide (catOfName n = c) && S.guard n }

/-! ## The `DatReaderOptimizer` as it is: a cache in front of the files, filled by a pool of workers

`datOpt` above reads the geodata through the pure function `Geo`.  The code does not: `loadGeoSite` /
`loadGeoIp` look into a per-optimizer cache first (two maps, one per kind, keyed
`<file>.dat:<lower-case code>`), load the file on a miss and store the result; `Optimize` runs one
goroutine per rule (four at a time), each of which performs these look-ups and stores, and collects the
results by rule index in whatever order they arrive.  Modelled here:

* `cachedLoad` / `datOptC`: the optimizer with its cache, executed by the driver on the *history* of rule
  lists one long-lived optimizer has served (one schedule of the pool: rule after rule);
* `CacheEv` / `applyEv`: the only thing a worker ever does to the shared cache — store the content of a
  file under that file's key;
* `collect`: the collector loop.

`Cache.lean` proves that for **every** history, **every** interleaving of the workers' cache accesses
and **every** arrival order the result is `datOpt`. -/

/-- `if !strings.HasSuffix(filename, ".dat") { filename += ".dat" }` -/
def datFile (f : String) : String :=
  if f.toList.reverse.take 4 = ".dat".toList.reverse then f else f ++ ".dat"

/-- `filename + ":" + strings.ToLower(code)` (the code includes a possible `@attr`; ASCII folding). -/
def cacheKey (file code : String) : String :=
  datFile file ++ ":" ++ String.ofList (code.toList.map Char.toLower)

abbrev Tbl := List (String × List Param)

/-- `geoSiteCache` / `geoIpCache` -/
structure DatCache where
  site : Tbl := []
  ip : Tbl := []
deriving Repr, Inhabited

/-- `loadGeoSite` / `loadGeoIp` around the file access `load`: a hit returns the cached list, a miss
loads and (only when the load succeeded) stores. -/
def cachedLoad (load : String → String → Option (List Param)) (t : Tbl) (file code : String) :
    Option (List Param) × Tbl :=
  match t.lookup (cacheKey file code) with
  | some ps => (some ps, t)
  | none =>
    match load file code with
    | some ps => (some ps, (cacheKey file code, ps) :: t)
    | none => (none, t)

def viaSite (g : Geo) (c : DatCache) (file code : String) : Option (List Param) × DatCache :=
  let r := cachedLoad g.site c.site file code
  (r.1, { c with site := r.2 })

def viaIp (g : Geo) (c : DatCache) (file code : String) : Option (List Param) × DatCache :=
  let r := cachedLoad g.ip c.ip file code
  (r.1, { c with ip := r.2 })

/-- `datParam` with the cache in front. -/
def datParamC (g : Geo) (c : DatCache) (fname : String) (p : Param) : Option (List Param) × DatCache :=
  if p.key = "geosite" then viaSite g c "geosite" p.val
  else if p.key = "geoip" then viaIp g c "geoip" p.val
  else if p.key = "ext" then
    match cutColon p.val with
    | none => (none, c)
    | some (file, code) =>
      if fname = "domain" ∨ fname = "qname" then viaSite g c file code
      else if fname = "ip" then viaIp g c file code
      else (none, c)
  else (some [p], c)

/-- run `f` over a list threading the state; stop at the first error (the worker returns). -/
def threadOpt {α β σ : Type} (f : σ → α → Option β × σ) : σ → List α → Option (List β) × σ
  | s, [] => (some [], s)
  | s, a :: as =>
    match f s a with
    | (some b, s1) =>
      match threadOpt f s1 as with
      | (some bs, s2) => (some (b :: bs), s2)
      | (none, s2) => (none, s2)
    | (none, s1) => (none, s1)

def datFuncC (g : Geo) (c : DatCache) (f : Func) : Option Func × DatCache :=
  match threadOpt (fun c p => datParamC g c f.name p) c f.params with
  | (some pss, c') =>
    let ps := pss.flatten
    (if !f.params.isEmpty && ps.isEmpty then none else some { f with params := ps }, c')
  | (none, c') => (none, c')

def datRuleC (g : Geo) (c : DatCache) (r : Rule) : Option Rule × DatCache :=
  match threadOpt (datFuncC g) c r.funcs with
  | (some fs, c') => (some { r with funcs := fs }, c')
  | (none, c') => (none, c')

/-- one `Optimize` call of an optimizer whose cache is `c`; returns the cache it leaves behind. -/
def datOptC (g : Geo) (c : DatCache) (rs : Prog) : Option Prog × DatCache := threadOpt (datRuleC g) c rs

/-- what a worker does to the shared cache: having missed, it loaded `file:code` (no lock held) and now
stores the list under the key (a map assignment: an earlier entry of the key is replaced); nothing is
stored after a load error. -/
inductive CacheEv where
  | storeSite (file code : String)
  | storeIp (file code : String)

def applyEv (g : Geo) (c : DatCache) : CacheEv → DatCache
  | .storeSite f k =>
    match g.site f k with
    | some ps => { c with site := (cacheKey f k, ps) :: c.site }
    | none => c
  | .storeIp f k =>
    match g.ip f k with
    | some ps => { c with ip := (cacheKey f k, ps) :: c.ip }
    | none => c

/-- the collector loop of `Optimize`: `newRules := make([]*Rule, n)`; results are taken off the channel
in arrival order, the first error ends the call, a rule goes to the slot of its index. -/
def collect (n : Nat) (arrivals : List (Nat × Option Rule)) : Option (List (Option Rule)) :=
  arrivals.foldl (fun acc a =>
    match acc, a.2 with
    | some slots, some r => some (slots.set a.1 (some r))
    | _, _ => none) (some (List.replicate n none))

end DaeVerif.C04
