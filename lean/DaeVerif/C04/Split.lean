import DaeVerif.C04.Lower
import DaeVerif.C04.NfEq
/-!
# C04 — `SplitRequestRules`: taking the rules of one category = guarding every function by its category
-/
namespace DaeVerif.C04
open DaeVerif.RuleScan

variable {δ : Type}

theorem internalCat_qname : internalCat "qname" = none := by decide
theorem internalCat_qtype : internalCat "qtype" = none := by decide

/-- invariant of the loop in `classifyRequestRule` over the functions seen so far. -/
structure ClsInv (s : ClsState) (done : List Func) : Prop where
  plain : ∀ f ∈ done, internalCat f.name = none → (s.hasDns = true ∨ s.other = true)
  intern : ∀ f ∈ done, ∀ c, internalCat f.name = some c → s.internal = some c
  excl : s.internal.isSome = true → s.hasDns = false ∧ s.other = false

theorem classifyStep_inv (s s' : ClsState) (f : Func) (done : List Func) (h : classifyStep s f = some s')
    (inv : ClsInv s done) : ClsInv s' (f :: done) := by
  unfold classifyStep at h
  split at h
  next hq =>
    have hf : internalCat f.name = none := by
      rcases hq with hq | hq <;> rw [hq]
      · exact internalCat_qname
      · exact internalCat_qtype
    split at h
    · exact absurd h (by simp)
    next hi =>
      simp only [Option.some.injEq] at h
      subst h
      refine ⟨?_, ?_, ?_⟩
      · intro f' _ _; exact Or.inl rfl
      · intro f' hf' c hc
        simp only [List.mem_cons] at hf'
        rcases hf' with rfl | hf'
        · rw [hf] at hc; exact absurd hc (by simp)
        · exact inv.intern f' hf' c hc
      · intro hs; exact absurd hs hi
  next hq =>
    split at h
    next c hc =>
      split at h
      · exact absurd h (by simp)
      next hd =>
        split at h
        · exact absurd h (by simp)
        next ho =>
          have hd' : s.hasDns = false := by simpa using hd
          have ho' : s.other = false := by simpa using ho
          split at h
          next hi =>
            simp only [Option.some.injEq] at h
            subst h
            refine ⟨?_, ?_, ?_⟩
            · intro f' hf' hn
              simp only [List.mem_cons] at hf'
              rcases hf' with rfl | hf'
              · rw [hc] at hn; exact absurd hn (by simp)
              · rcases inv.plain f' hf' hn with h1 | h1
                · rw [hd'] at h1; exact absurd h1 (by simp)
                · rw [ho'] at h1; exact absurd h1 (by simp)
            · intro f' hf' c' hc'
              simp only [List.mem_cons] at hf'
              rcases hf' with rfl | hf'
              · rw [hc] at hc'; simpa using hc'
              · have := inv.intern f' hf' c' hc'
                rw [hi] at this; exact absurd this (by simp)
            · intro _; exact ⟨hd', ho'⟩
          next c' hi =>
            split at h
            next hcc =>
              simp only [Option.some.injEq] at h
              subst h
              subst hcc
              refine ⟨?_, ?_, inv.excl⟩
              · intro f' hf' hn
                simp only [List.mem_cons] at hf'
                rcases hf' with rfl | hf'
                · rw [hc] at hn; exact absurd hn (by simp)
                · exact inv.plain f' hf' hn
              · intro f' hf' c'' hc''
                simp only [List.mem_cons] at hf'
                rcases hf' with rfl | hf'
                · rw [hc] at hc''; rw [hi]; simpa using hc''
                · exact inv.intern f' hf' c'' hc''
            · exact absurd h (by simp)
    next hc =>
      split at h
      · exact absurd h (by simp)
      next hi =>
        simp only [Option.some.injEq] at h
        subst h
        refine ⟨?_, ?_, ?_⟩
        · intro f' _ _; exact Or.inr rfl
        · intro f' hf' c hc'
          simp only [List.mem_cons] at hf'
          rcases hf' with rfl | hf'
          · rw [hc] at hc'; exact absurd hc' (by simp)
          · exact inv.intern f' hf' c hc'
        · intro hs; exact absurd hs hi

theorem classifyFuncs_inv : ∀ (fs : List Func) (s s' : ClsState) (done : List Func),
    classifyFuncs s fs = some s' → ClsInv s done → ∃ all, ClsInv s' all ∧ ∀ f, f ∈ all ↔ (f ∈ fs ∨ f ∈ done) := by
  intro fs
  induction fs with
  | nil =>
    intro s s' done h inv
    simp only [classifyFuncs, Option.some.injEq] at h
    subst h
    exact ⟨done, inv, by simp⟩
  | cons f fs ih =>
    intro s s' done h inv
    simp only [classifyFuncs] at h
    cases h1 : classifyStep s f with
    | none => simp [h1] at h
    | some s1 =>
      simp only [h1] at h
      obtain ⟨all, hall, hmem⟩ := ih s1 s' (f :: done) h (classifyStep_inv s s1 f done h1 inv)
      refine ⟨all, hall, fun f' => ?_⟩
      rw [hmem f']
      simp only [List.mem_cons]
      constructor
      · rintro (h | h | h)
        · exact Or.inl (Or.inr h)
        · exact Or.inl (Or.inl h)
        · exact Or.inr h
      · rintro ((h | h) | h)
        · exact Or.inr (Or.inl h)
        · exact Or.inl h
        · exact Or.inr (Or.inr h)

/-- a rule that can be classified has all its functions in that one category. -/
theorem classify_homogeneous (r : Rule) (c : Cat) (h : classify r = some c) :
    ∀ f ∈ r.funcs, catOfName f.name = c := by
  unfold classify at h
  cases h1 : classifyFuncs ⟨none, false, false⟩ r.funcs with
  | none => simp [h1] at h
  | some s' =>
    simp only [h1, Option.some.injEq] at h
    have inv0 : ClsInv ⟨none, false, false⟩ [] := ⟨by simp, by simp, by simp⟩
    obtain ⟨all, inv, hmem⟩ := classifyFuncs_inv r.funcs _ s' [] h1 inv0
    intro f hf
    have hfa : f ∈ all := (hmem f).mpr (Or.inl hf)
    unfold catOfName
    cases hi : s'.internal with
    | none =>
      rw [hi] at h
      simp only [Option.getD_none] at h
      subst h
      cases hic : internalCat f.name with
      | none => rfl
      | some c1 =>
        have := inv.intern f hfa c1 hic
        rw [hi] at this; exact absurd this (by simp)
    | some c0 =>
      rw [hi] at h
      simp only [Option.getD_some] at h
      subst h
      cases hic : internalCat f.name with
      | none =>
        have hex := inv.excl (by rw [hi]; rfl)
        rcases inv.plain f hfa hic with h1 | h1
        · rw [hex.1] at h1; exact absurd h1 (by simp)
        · rw [hex.2] at h1; exact absurd h1 (by simp)
      | some c1 =>
        have := inv.intern f hfa c1 hic
        rw [hi] at this
        simp only [Option.some.injEq] at this
        simp [this]

theorem all_congr_mem {α : Type} (p q : α → Bool) : ∀ l : List α, (∀ x ∈ l, p x = q x) → l.all p = l.all q := by
  intro l
  induction l with
  | nil => intro _; rfl
  | cons x xs ih =>
    intro h
    simp only [List.all_cons, h x (by simp), ih (fun y hy => h y (by simp [hy]))]

theorem holdsR_withCat_same (S : Sem δ) (c : Cat) (r : Rule) (h : ∀ f ∈ r.funcs, catOfName f.name = c) :
    holdsR (withCat S c) r = holdsR S r := by
  unfold holdsR
  apply all_congr_mem
  intro f hf
  simp [holdsF, withCat, h f hf]

theorem holdsR_withCat_other (S : Sem δ) (c c' : Cat) (r : Rule) (hne : neR r = true) (hc : c' ≠ c)
    (h : ∀ f ∈ r.funcs, catOfName f.name = c') : holdsR (withCat S c) r = false := by
  unfold holdsR
  cases hf : r.funcs with
  | nil => simp [neR, hf] at hne
  | cons f fs =>
    have := h f (by simp [hf])
    simp [holdsF, withCat, this, hc]

theorem classifyAll_spec : ∀ (p : Prog) (cs : List Cat), classifyAll p = some cs →
    ∀ r ∈ p, ∃ c, classify r = some c := by
  intro p
  induction p with
  | nil => intro cs _ r hr; simp at hr
  | cons r0 rs ih =>
    intro cs h r hr
    cases h1 : classify r0 with
    | none => simp [classifyAll, h1] at h
    | some c0 =>
      cases h2 : classifyAll rs with
      | none => simp [classifyAll, h1, h2] at h
      | some cs' =>
        simp only [List.mem_cons] at hr
        rcases hr with rfl | hr
        · exact ⟨c0, h1⟩
        · exact ih cs' h2 r hr

theorem firstMatchAst_filter (S : Sem δ) (c : Cat) :
    ∀ p : Prog, (∀ r ∈ p, ∃ c', classify r = some c') → neP p = true → ∀ fb must,
      firstMatchAst S (p.filter fun r => classify r = some c) fb must =
        firstMatchAst (withCat S c) p fb must := by
  intro p
  induction p with
  | nil => intro _ _ fb must; rfl
  | cons r rs ih =>
    intro hcls hne fb must
    simp only [neP, List.all_cons, Bool.and_eq_true] at hne
    obtain ⟨c', hc'⟩ := hcls r (by simp)
    have hhom := classify_homogeneous r c' hc'
    have ih' := ih (fun r' hr' => hcls r' (by simp [hr'])) hne.2
    by_cases hcc : c' = c
    · subst hcc
      simp only [List.filter_cons, hc', decide_true, if_true, firstMatchAst,
        holdsR_withCat_same S c' r hhom, ih']
      rfl
    · have hdec : decide (classify r = some c) = false := by
        rw [hc']; simp [hcc]
      simp only [List.filter_cons, hdec, Bool.false_eq_true, if_false, firstMatchAst,
        holdsR_withCat_other S c c' r hne.1 hcc hhom, ih']

theorem splitCat_spec (S : Sem δ) (c : Cat) (p q : Prog) (h : splitCat c p = some q) (hne : neP p = true) :
    (∀ fb must, firstMatchAst S q fb must = firstMatchAst (withCat S c) p fb must) ∧ neP q = true := by
  unfold splitCat at h
  cases h1 : classifyAll p with
  | none => simp [h1] at h
  | some cs =>
    simp only [h1, Option.some.injEq] at h
    subst h
    refine ⟨firstMatchAst_filter S c p (classifyAll_spec p cs h1) hne, ?_⟩
    simp only [neP, List.all_eq_true] at hne ⊢
    intro r hr
    exact hne r (List.mem_filter.mp hr).1

end DaeVerif.C04

namespace DaeVerif.C04
open DaeVerif.RuleScan
variable {δ : Type}

/-- alias/dat, merge-and-sort, dedup: the normalised program means what the written one means, and
every rule still has a function. -/
theorem pipeline_core (S : Sem δ) (g : Geo) (aliasing : Bool) (rs out : Prog) (hwf : ParserWF rs)
    (hp : (datOpt g (preOpt aliasing rs)).map (fun e => dedupOpt (mergeSortOpt e)) = some out) :
    (∀ fb must, firstMatchAst S out fb must = firstMatchAst (userSem S g aliasing) rs fb must) ∧
      neP out = true := by
  cases hE : datOpt g (preOpt aliasing rs) with
  | none => simp [hE] at hp
  | some E =>
    simp only [hE, Option.map_some, Option.some.injEq] at hp
    subst hp
    have hexp := firstMatchAst_expand S g aliasing rs E hwf hE
    have hokE := emptyOk_of_paramsOk S E hexp.2.2
    refine ⟨fun fb must => ?_, ?_⟩
    · rw [firstMatchAst_dedupOpt, firstMatchAst_mergeSortOpt S E hokE, hexp.1]
    · rw [neP_dedupOpt]; exact neP_mergeSortOpt E hexp.2.1

end DaeVerif.C04
