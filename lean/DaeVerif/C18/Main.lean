import DaeVerif.C18.Model
import DaeVerif.C18.Conn
import DaeVerif.Common.Proto
/-! Line-protocol driver for C18 (op grammar: see harness/overlay/control/c18_test.go).
Strings travel hex-encoded (`-` = empty string). The driver is stateful: it threads the `World`. -/
open DaeVerif DaeVerif.C18 DaeVerif.Proto

def strOfHex? (tok : String) : Option Str :=
  if tok = "-" then some [] else (hexToBytes? tok).map (·.map Char.ofNat)

def hexOfStr (s : Str) : String := if s.isEmpty then "-" else bytesToHex (s.map Char.toNat)

/-- `4:<8 hex>:<port>` or `6:<32 hex>:<port>` -/
def parseDst? (tok : String) : Option Dst :=
  match tok.splitOn ":" with
  | ["4", h, p] => do let a ← hexToNat? h; let q ← p.toNat?; pure ⟨true, a, q⟩
  | ["6", h, p] => do let a ← hexToNat? h; let q ← p.toNat?; pure ⟨false, a, q⟩
  | _ => none

def parseMode? : String → Option Mode
  | "ip" => some .ip | "domain" => some .domain | "domain+" => some .domainPlus
  | "domain++" => some .domainCao | _ => none

def parseAns? (tok : String) : Option Ans :=
  match tok.toList with
  | [a, b, c, d] => some ⟨a == '1', b == '1', c == '1', d == '1'⟩
  | ['T'] => some ⟨false, false, true, true⟩   -- the resolver let the probe's context time out
  | _ => none

def parseInt? (tok : String) : Option Int :=
  if tok.startsWith "-" then (tok.drop 1).toNat?.map fun n => -(n : Int) else tok.toNat?.map fun n => (n : Int)

/-- apply the probe that `ChooseDialTarget` started (the harness waits for the goroutine). -/
def afterProbe (pend : List Str) (w : World) (pr : Option Str) (answers : List Ans) : World × Nat :=
  match pr with
  | none => (w, 0)
  | some d =>
    -- a probe of this name is blocked in its resolver call: the new trigger joins it (singleflight)
    if pend.contains d then (w, 0) else (probe w d answers, probeCalls w answers)

/-- `m=<name>/<mark of the kernel tuple>/<mark of the routing answer>` -/
def parseMeta (tok : String) : String × Option (Nat × Nat) :=
  match (String.ofList (tok.toList.drop 2)).splitOn "/" with
  | [n, a, b] => match a.toNat?, b.toNat? with
    | some a, some b => (n, some (a, b))
    | _, _ => (n, none)
  | n :: _ => (n, none)
  | [] => ("", none)

/-- the attempts of one `routeDial`, printed as the harness prints what the node dialers saw. -/
def fmtDials (outs : List DialOut) (mk : Option Nat) (probed : Bool) (at? : Option Int) (showIp : Bool := true) : String :=
  let n := outs.length
  let fmt (io : Nat × DialOut) : String :=
    match io.2.outbound with
    | none => "err"
    | some ob =>
      s!"ob={ob} t={hexOfStr io.2.target}" ++
        (if io.1 + 1 = n then (if showIp then s!" ip={boolStr io.2.dialIp}" else "") ++
          (match mk with | some m => s!" mk={m}" | none => "") else "")
  let isErr := match outs.getLast? with | some o => o.outbound.isNone | none => true
  " ; ".intercalate ((List.range n).zip outs |>.map fmt) ++
    (if isErr then "" else s!" probe={boolStr probed}") ++
    (match at? with | some t => s!" at={t}" | none => "")

/-- driver state: the world with its probes in flight, the sniff negative cache, tunables -/
structure Drv where
  s : Sys := {}
  sn : SniffNeg := []
  cfg : SniffCfg := {}
  soMark : Nat := 0
  /-- total delay of the routing-tuple lookup retries in `handleConn` (ns) -/
  retryNs : Nat := 0
  /-- clock at the start of the last `conn` op -/
  connStart : Int := 0

def parsePayload? (kind : String) (raw : Str) : Option Payload :=
  match kind with
  | "silent" => some .silent
  | "opaque" => some .opaque
  | "http" => some (.http (some raw))
  | "httpnohost" => some (.http none)
  | "tls" => some (.tls (some raw))
  | "tlsnosni" => some (.tls none)
  | _ => none

/-- one `routeDial` as the harness observes it: the attempts, the socket mark of the last one,
whether some attempt made the probe call a resolver. `fail` = "1": the node fails the first dial
with network-unreachable (forced unavailable, one retry); "2": with an error that is not — `routeDial`
gives up after that one dial. -/
def runDial (soMark : Nat) (pend : List Str) (w : World) (ob : Nat) (dst : Dst) (d : Str)
    (route : Str → Option Nat) (nOut : Nat) (fail : String) (marks : Option (Nat × (Str → Nat)))
    (ans : List Ans) : World × List DialOut × Option Nat × Bool :=
  let settle : World → Option Str → World := fun w pr => (afterProbe pend w pr ans).1
  let (w2, outs) :=
    if fail == "2" then
      let (wr, o1) := chooseProxyDialer w ob dst d route nOut
      let wr := settle wr o1.probeReq
      (wr, if o1.outbound.isNone then [o1] else [o1, { o1 with outbound := none }])
    else routeDial w ob dst d route nOut (fail == "1") settle
  -- did any attempt make the probe call a resolver?
  let (wa, o1) := chooseProxyDialer w ob dst d route nOut
  let p1 := (afterProbe pend wa o1.probeReq ans).2 > 0
  let wb := settle wa o1.probeReq
  let p2 := if outs.length > 1 then
      let (wc, o2) := chooseProxyDialer wb ob dst d route nOut
      (afterProbe pend wc o2.probeReq ans).2 > 0
    else false
  let mk := marks.map fun (pm, rmF) =>
    if outs.length > 1 then dialMark wb ob dst d pm soMark rmF else dialMark w ob dst d pm soMark rmF
  (w2, outs, mk, p1 || p2)

def handleW (st : Drv) (pend : List Str) (w : World) (line : String) : World × String :=
  match words line with
  | ["mode", m] =>
    match parseMode? m with
    | some m => (step w (.setMode m), "ok")
    | none => (w, "bad-op")
  | ["boot", n] =>
    match n.toNat? with
    | some n => (step w (.setBoot n), "ok")
    | none => (w, "bad-op")
  | ["adv", n] =>
    match n.toNat? with
    | some n => (step w (.advance n), "ok")
    | none => (w, "bad-op")
  | ["dns", h, q, ttl, key] =>
    match strOfHex? h, q.toNat?, parseInt? ttl, strOfHex? key with
    | some h, some q, some ttl, some key =>
      let r := dnsUpdate w h q ttl key
      (r.1, if r.2 then "ok" else "bypass")
    | _, _, _, _ => (w, "bad-op")
  | ["dns", h, q, ttl, key, fault] =>
    -- fault injection: f1 = the NewCache hook fails (nothing is stored); f2 = the cache-access callback
    -- (BatchUpdateDomainRouting) fails AFTER the entry was stored and remembered
    match strOfHex? h, q.toNat?, parseInt? ttl, strOfHex? key with
    | some h, some q, some ttl, some key =>
      let r := dnsUpdateF w h q ttl key (if fault == "f1" then .newCache else .accessCallback)
      (r.1, if r.2.2 then "err" else "bypass")
    | _, _, _, _ => (w, "bad-op")
  | ["dnsresp", resp, hasq, rok, h, q, ttl, key, fault] =>
    match strOfHex? h, q.toNat?, strOfHex? key with
    | some h, some q, some key =>
      let t : List Nat := if ttl = "-" then [] else (ttl.splitOn ",").filterMap (·.toNat?)
      let gate := resp == "1" && hasq == "1" && rok == "1"
      let r := dnsResp w (resp == "1") (hasq == "1") (rok == "1") h q t key
      if !gate then (w, "skip") else if !r.2 then (w, "bypass") else if fault == "f1" then (w, "err") else (r.1, "err")
    | _, _, _ => (w, "bad-op")
  | ["dnsresp", resp, hasq, rok, h, q, ttl, key] =>
    match strOfHex? h, q.toNat?, strOfHex? key with
    | some h, some q, some key =>
      let t : List Nat := if ttl = "-" then [] else (ttl.splitOn ",").filterMap (·.toNat?)
      let gate := resp == "1" && hasq == "1" && rok == "1"
      let r := dnsResp w (resp == "1") (hasq == "1") (rok == "1") h q t key
      (r.1, if !gate then "skip" else if r.2 then "ok" else "bypass")
    | _, _, _ => (w, "bad-op")
  | ["rmf", k] =>
    match strOfHex? k with
    | some k => (step w (.dnsRemoveFamily k), "ok")
    | none => (w, "bad-op")
  | ["evict", k] =>
    match strOfHex? k with
    | some k => (dnsEvict w k, "ok")
    | none => (w, "bad-op")
  | ["reload", _fault] =>
    -- the cache-access callback fails for every restored entry: logged, the entry stays stored and remembered
    (step (step w .dnsClose) (.dnsRestore w.cache), s!"restored={w.cache.length}")
  | ["reload"] =>
    -- CloneCacheForReload of the old store, RestoreReloadCache into a fresh one
    (step (step w .dnsClose) (.dnsRestore w.cache), s!"restored={w.cache.length}")
  | ["close"] => (step w .dnsClose, "ok")
  | ["rm", k] =>
    match strOfHex? k with
    | some k => (dnsRemove w k, "ok")
    | none => (w, "bad-op")
  | ["has", n, f] =>
    match strOfHex? n with
    | some n => let r := hasKnowledge w (cacheKey n (f == "4")); (r.1, boolStr r.2)
    | none => (w, "bad-op")
  | ["look", d] =>
    match strOfHex? d with
    | some d => let r := lookupReal w d; (r.1, s!"known={boolStr r.2.1} real={boolStr r.2.2}")
    | none => (w, "bad-op")
  | "cdt" :: ob :: dst :: d :: ans =>
    match ob.toNat?, parseDst? dst, strOfHex? d, ans.mapM parseAns? with
    | some ob, some dst, some d, some ans =>
      let (w1, c) := chooseDialTarget w ob dst d
      let (w2, calls) := afterProbe pend w1 c.probeReq ans
      (w2, s!"t={hexOfStr c.target} rr={boolStr c.reroute} ip={boolStr c.dialIp} probe={boolStr (calls > 0)}")
    | _, _, _, _ => (w, "bad-op")
  | "cdt2" :: ob :: dst :: d :: ans =>
    -- a second ChooseDialTarget for the same flow parameters while the probe of the first is in flight
    match ob.toNat?, parseDst? dst, strOfHex? d, ans.mapM parseAns? with
    | some ob, some dst, some d, some ans =>
      let (w1, c1) := chooseDialTarget w ob dst d
      let (w2, c2) := chooseDialTarget w1 ob dst d
      let (w3, calls) := afterProbe pend w2 c1.probeReq ans
      let f (c : Choice) := s!"t={hexOfStr c.target} rr={boolStr c.reroute} ip={boolStr c.dialIp}"
      (w3, s!"{f c1} ; {f c2} probe={boolStr (calls > 0)}")
    | _, _, _, _ => (w, "bad-op")
  | "evicted" :: ks =>
    -- the keys one run of the cache janitor (evictExpiredDnsCache: time-based + LRU) removed
    match ks.mapM strOfHex? with
    | some ks => (ks.foldl dnsEvict w, "ok")
    | none => (w, "bad-op")
  | ["cfg", v] =>
    match (if v = "absent" then some none else (strOfHex? v).map some) with
    | some v =>
      match parseDialMode v with
      | some .ip => (w, "mode=ip")
      | some .domain => (w, "mode=domain")
      | some .domainPlus => (w, "mode=domain+")
      | some .domainCao => (w, "mode=domain++")
      | none => (w, "err")
    | none => (w, "bad-op")
  | "dial" :: ob :: dst :: d :: rt :: nOut :: fail :: mta :: ans =>
    match ob.toNat?, parseDst? dst, strOfHex? d, nOut.toNat?, ans.mapM parseAns? with
    | some ob, some dst, some d, some nOut, some ans =>
      let route : Str → Option Nat := fun _ => rt.toNat?
      let marks := (parseMeta mta).2.map fun (pm, rm) => (pm, fun (_ : Str) => rm)
      let (w2, outs, mk, probed) := runDial st.soMark pend w ob dst d route nOut fail marks ans
      (w2, fmtDials outs mk probed none)
    | _, _, _, _, _ => (w, "bad-op")
  | ["norm", r] =>
    match strOfHex? r with
    | some r => (w, hexOfStr (normalizeDomain r))
    | none => (w, "bad-op")
  | ["pa", s] =>
    match strOfHex? s with
    | some s => (w, boolStr (parseAddrOk s))
    | none => (w, "bad-op")
  | ["shp", s] =>
    match strOfHex? s with
    | some s =>
      match splitHostPort s with
      | some (h, p) => (w, s!"h={hexOfStr h} p={hexOfStr p}")
      | none => (w, "none")
    | none => (w, "bad-op")
  | ["jhp", h, p] =>
    match strOfHex? h, strOfHex? p with
    | some h, some p => (w, hexOfStr (joinHostPort h p))
    | _, _ => (w, "bad-op")
  | ["iplike", s] =>
    match strOfHex? s with
    | some s => (w, boolStr (isIPLike s))
    | none => (w, "bad-op")
  | ["canon", s] =>
    match strOfHex? s with
    | some s => (w, hexOfStr (canonicalName s))
    | none => (w, "bad-op")
  | ["ap", d] =>
    match parseDst? d with
    | some d => (w, hexOfStr (fmtAddrPort d))
    | none => (w, "bad-op")
  | ["resv", n] =>
    match n.toNat? with
    | some n => (w, boolStr (isReserved n))
    | none => (w, "bad-op")
  | ["nt", d, p] =>
    match strOfHex? d, p.toNat? with
    | some d, some p => let r := nameTarget d p; (w, s!"t={hexOfStr r.1} ip={boolStr r.2}")
    | _, _ => (w, "bad-op")
  | ["sat", n] =>
    -- saturation episode: n distinct names verified by positive probes on a fresh world
    match n.toNat? with
    | some n =>
      let pos : List Ans := [⟨true, false, false, false⟩]
      let r := (List.range n).foldl (fun (acc : World × Bool × Nat) i =>
        let (w, ok, clears) := acc
        let w' := step w (.probeDone ("sat-".toList ++ itoa i ++ ".test".toList) pos)
        (w', ok && decide (w'.realSet.length ≤ realCap) && decide (w'.realAdds ≤ realCap),
         if w'.realAdds < w.realAdds + 1 then clears + 1 else clears)) (({ mode := .domain } : World), true, 0)
      (w, s!"bounded={boolStr r.2.1} clears={r.2.2}")
    | none => (w, "bad-op")
  | ["reset"] => ({}, "ok")
  | ["reset", negttl, minttl] =>
    -- tunables of the running code that the property does not fix
    match negttl.toNat?, minttl.toNat? with
    | some n, some m => ({ negTtl := (n : Int), minTtl := m }, "ok")
    | _, _ => (w, "bad-op")
  | "pick" :: ob :: dst :: d :: rt :: nOut :: _meta :: ans =>
    -- chooseProxyDialer alone (what the UDP path uses: the datagram target stays the IP, the outbound
    -- and the strict-family flag come from here)
    match ob.toNat?, parseDst? dst, strOfHex? d, nOut.toNat?, ans.mapM parseAns? with
    | some ob, some dst, some d, some nOut, some ans =>
      let route : Str → Option Nat := fun _ => rt.toNat?
      let (w1, o) := chooseProxyDialer w ob dst d route nOut
      let (w2, calls) := afterProbe pend w1 o.probeReq ans
      match o.outbound with
      | none => (w2, "err")
      | some ob => (w2, s!"ob={ob} t={hexOfStr o.target} ip={boolStr o.dialIp} probe={boolStr (calls > 0)}")
    | _, _, _, _, _ => (w, "bad-op")
  | _ => (w, "bad-op")

def setW (st : Drv) (w : World) : Drv := { st with s := { st.s with w := w } }

def handle (st : Drv) (line : String) : Drv × String :=
  let w := st.s.w
  let pend := st.s.pending.map (·.1)
  match words line with
  | ["reset", negttl, minttl] =>
    match negttl.toNat?, minttl.toNat? with
    | some n, some m =>
      ({ st with s := { w := { negTtl := (n : Int), minTtl := m }, pending := [] }, sn := [], connStart := 0 }, "ok")
    | _, _ => (st, "bad-op")
  | ["reset"] => ({ st with s := {}, sn := [], connStart := 0 }, "ok")
  | ["tun", thr, ttl, ports, somark, retry] =>
    -- tunables of the running code that the property does not fix
    match thr.toNat?, ttl.toNat?, (ports.splitOn ",").mapM (·.toNat?), somark.toNat?, retry.toNat? with
    | some thr, some ttl, some ports, some sm, some rt =>
      ({ st with cfg := { thr := thr, ttl := (ttl : Int), excluded := ports }, soMark := sm, retryNs := rt }, "ok")
    | _, _, _, _, _ => (st, "bad-op")
  | ["cdth", ob, dst, d] =>
    -- ChooseDialTarget while the resolvers of this name do not answer yet: the probe stays in flight
    match ob.toNat?, parseDst? dst, strOfHex? d with
    | some ob, some dst, some d =>
      let (s1, c) := Sys.choose st.s ob dst d
      let started := s1.pending.length > st.s.pending.length
      ({ st with s := s1 }, s!"t={hexOfStr c.target} rr={boolStr c.reroute} ip={boolStr c.dialIp} started={boolStr started}")
    | _, _, _ => (st, "bad-op")
  | "rel" :: d :: ans =>
    match strOfHex? d, ans.mapM parseAns? with
    | some d, some ans => ({ st with s := Sys.finish st.s d ans }, "ok")
    | _, _ => (st, "bad-op")
  | ["relx", d] =>
    -- the probe's context expired (realDomainProbeTimeout) or was cancelled: both lookups failed
    match strOfHex? d with
    | some d => ({ st with s := Sys.finish st.s d (List.replicate st.s.w.nboot ⟨false, false, true, true⟩) }, "ok")
    | none => (st, "bad-op")
  | ["gen", m, n, how] =>
    -- reload: a new ControlPlane generation; the old generation's context is cancelled
    match parseMode? m, n.toNat? with
    | some m, some n =>
      let s0 := Sys.cancelAll st.s
      let w1 := step s0.w (.newGeneration m n)
      let w2 := if how == "restore" then step (step w1 .dnsClose) (.dnsRestore w1.cache) else w1
      ({ st with s := { s0 with w := w2 }, sn := [] }, "ok")
    | _, _ => (st, "bad-op")
  | ["negclean"] =>
    let w1 := step w .negCleanup
    let sn1 := sniffCleanup st.sn w.now
    ({ setW st w1 with sn := sn1 }, s!"neg={w1.neg.length} sn={sn1.length}")
  | ["sneg", dst, mta] =>
    match parseDst? dst with
    | some dst =>
      let key := fmtAddrPort (converge dst) ++ '/' :: (parseMeta mta).1.toList
      match st.sn.get key with
      | some (f, e) => (st, if e ≤ w.now then "none" else s!"f={f}")
      | none => (st, "none")
    | none => (st, "bad-op")
  | "conn" :: kob :: loc :: kind :: raw :: tmo :: rt0 :: rt1 :: rm0 :: rm1 :: nOut :: fail :: mta :: ans =>
    match parseDst? loc, strOfHex? raw, tmo.toNat?, rm0.toNat?, rm1.toNat?, nOut.toNat?, ans.mapM parseAns? with
    | some loc, some raw, some tmo, some rm0, some rm1, some nOut, some ans =>
      match parsePayload? kind raw with
      | none => (st, "bad-op")
      | some pl =>
        let (mname, mk) := parseMeta mta
        let pm := match mk with | some (a, _) => a | none => 0
        let kobN := kob.toNat?
        let ob := kobN.getD outboundControlPlaneRouting
        let dst := converge loc
        let key := fmtAddrPort dst ++ '/' :: mname.toList
        -- the routing-tuple lookup is retried when the tuple is missing
        let pre : Int := if kobN.isNone then (st.retryNs : Int) else 0
        let w0 := { w with now := w.now + pre }
        let (sn1, d) := connDomain st.cfg w0 st.sn (tmo > 0) ob dst key pl
        -- a silent client makes the prefetch wait for the whole sniffing timeout
        let tried := shouldTryTcpSniff st.cfg w0 (tmo > 0) ob dst.port && !(sniffSkip st.cfg st.sn key w0.now).2
        let wait : Int := if tried && pl == .silent then (tmo : Int) else 0
        let w1 := { w0 with now := w0.now + wait }
        let route : Str → Option Nat := fun n => if n = [] then rt0.toNat? else rt1.toNat?
        let rmF : Str → Nat := fun n => if n = [] then rm0 else rm1
        let (w2, outs, mark, probed) := runDial st.soMark pend w1 ob dst d route nOut fail (some (pm, rmF)) ans
        let dialed := outs.any (·.outbound.isSome)
        ({ setW st w2 with sn := sn1, connStart := w.now },
         fmtDials outs mark probed (if dialed then some (pre + wait) else none) false)
    | _, _, _, _, _, _, _ => (st, "bad-op")
  | ["connend", ns] =>
    match ns.toNat? with
    | some ns => (setW st { w with now := st.connStart + (ns : Int) }, "ok")
    | none => (st, "bad-op")
  | _ =>
    let (w1, out) := handleW st pend w line
    (setW st w1, out)

def main : IO Unit := lineLoopS ({} : Drv) handle
