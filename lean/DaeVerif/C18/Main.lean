import DaeVerif.C18.Model
import DaeVerif.Common.Proto
/-! Line-protocol driver for C18 (op grammar: see harness/overlay/control/c18_test.go).
Strings travel hex-encoded (`-` = empty string). The driver is stateful: it threads the `World`. -/
open DaeVerif DaeVerif.C18 DaeVerif.Proto

def strOfHex? (tok : String) : Option Str :=
  if tok = "-" then some [] else (hexToBytes? tok).map (·.map Char.ofNat)

def hexOfStr (s : Str) : String := if s.isEmpty then "-" else bytesToHex (s.map Char.toNat)

/-- `4:<8 hex>:<port>` or `6:<32 hex>:<port>` -/
def parseDst? (tok : String) : Option Dst :=
  match tok.splitOn ":" with
  | ["4", h, p] => do let a ← hexToNat? h; let q ← p.toNat?; pure ⟨true, a, q⟩
  | ["6", h, p] => do let a ← hexToNat? h; let q ← p.toNat?; pure ⟨false, a, q⟩
  | _ => none

def parseMode? : String → Option Mode
  | "ip" => some .ip | "domain" => some .domain | "domain+" => some .domainPlus
  | "domain++" => some .domainCao | _ => none

def parseAns? (tok : String) : Option Ans :=
  match tok.toList with
  | [a, b, c, d] => some ⟨a == '1', b == '1', c == '1', d == '1'⟩
  | ['T'] => some ⟨false, false, true, true⟩   -- the resolver let the probe's context time out
  | _ => none

def parseInt? (tok : String) : Option Int :=
  if tok.startsWith "-" then (tok.drop 1).toNat?.map fun n => -(n : Int) else tok.toNat?.map fun n => (n : Int)

/-- apply the probe that `ChooseDialTarget` started (the harness waits for the goroutine). -/
def afterProbe (w : World) (pr : Option Str) (answers : List Ans) : World × Nat :=
  match pr with
  | none => (w, 0)
  | some d => (probe w d answers, probeCalls w answers)

def handle (w : World) (line : String) : World × String :=
  match words line with
  | ["mode", m] =>
    match parseMode? m with
    | some m => (step w (.setMode m), "ok")
    | none => (w, "bad-op")
  | ["boot", n] =>
    match n.toNat? with
    | some n => (step w (.setBoot n), "ok")
    | none => (w, "bad-op")
  | ["adv", n] =>
    match n.toNat? with
    | some n => (step w (.advance n), "ok")
    | none => (w, "bad-op")
  | ["dns", h, q, ttl, key] =>
    match strOfHex? h, q.toNat?, parseInt? ttl, strOfHex? key with
    | some h, some q, some ttl, some key =>
      let r := dnsUpdate w h q ttl key
      (r.1, if r.2 then "ok" else "bypass")
    | _, _, _, _ => (w, "bad-op")
  | ["dnsresp", resp, hasq, rok, h, q, ttl, key] =>
    match strOfHex? h, q.toNat?, strOfHex? key with
    | some h, some q, some key =>
      let t : List Nat := if ttl = "-" then [] else (ttl.splitOn ",").filterMap (·.toNat?)
      let gate := resp == "1" && hasq == "1" && rok == "1"
      let r := dnsResp w (resp == "1") (hasq == "1") (rok == "1") h q t key
      (r.1, if !gate then "skip" else if r.2 then "ok" else "bypass")
    | _, _, _ => (w, "bad-op")
  | ["rmf", k] =>
    match strOfHex? k with
    | some k => (step w (.dnsRemoveFamily k), "ok")
    | none => (w, "bad-op")
  | ["evict", k] =>
    match strOfHex? k with
    | some k => (dnsEvict w k, "ok")
    | none => (w, "bad-op")
  | ["reload"] =>
    -- CloneCacheForReload of the old store, RestoreReloadCache into a fresh one
    (step (step w .dnsClose) (.dnsRestore w.cache), s!"restored={w.cache.length}")
  | ["close"] => (step w .dnsClose, "ok")
  | ["rm", k] =>
    match strOfHex? k with
    | some k => (dnsRemove w k, "ok")
    | none => (w, "bad-op")
  | ["has", n, f] =>
    match strOfHex? n with
    | some n => let r := hasKnowledge w (cacheKey n (f == "4")); (r.1, boolStr r.2)
    | none => (w, "bad-op")
  | ["look", d] =>
    match strOfHex? d with
    | some d => let r := lookupReal w d; (r.1, s!"known={boolStr r.2.1} real={boolStr r.2.2}")
    | none => (w, "bad-op")
  | "cdt" :: ob :: dst :: d :: ans =>
    match ob.toNat?, parseDst? dst, strOfHex? d, ans.mapM parseAns? with
    | some ob, some dst, some d, some ans =>
      let (w1, c) := chooseDialTarget w ob dst d
      let (w2, calls) := afterProbe w1 c.probeReq ans
      (w2, s!"t={hexOfStr c.target} rr={boolStr c.reroute} ip={boolStr c.dialIp} probe={boolStr (calls > 0)}")
    | _, _, _, _ => (w, "bad-op")
  | "cdt2" :: ob :: dst :: d :: ans =>
    -- a second ChooseDialTarget for the same flow parameters while the probe of the first is in flight
    match ob.toNat?, parseDst? dst, strOfHex? d, ans.mapM parseAns? with
    | some ob, some dst, some d, some ans =>
      let (w1, c1) := chooseDialTarget w ob dst d
      let (w2, c2) := chooseDialTarget w1 ob dst d
      let (w3, calls) := afterProbe w2 c1.probeReq ans
      let f (c : Choice) := s!"t={hexOfStr c.target} rr={boolStr c.reroute} ip={boolStr c.dialIp}"
      (w3, s!"{f c1} ; {f c2} probe={boolStr (calls > 0)}")
    | _, _, _, _ => (w, "bad-op")
  | "evicted" :: ks =>
    -- the keys one run of the cache janitor (evictExpiredDnsCache: time-based + LRU) removed
    match ks.mapM strOfHex? with
    | some ks => (ks.foldl dnsEvict w, "ok")
    | none => (w, "bad-op")
  | ["cfg", v] =>
    match (if v = "absent" then some none else (strOfHex? v).map some) with
    | some v =>
      match parseDialMode v with
      | some .ip => (w, "mode=ip")
      | some .domain => (w, "mode=domain")
      | some .domainPlus => (w, "mode=domain+")
      | some .domainCao => (w, "mode=domain++")
      | none => (w, "err")
    | none => (w, "bad-op")
  | "dial" :: ob :: dst :: d :: rt :: nOut :: fail :: _meta :: ans =>
    match ob.toNat?, parseDst? dst, strOfHex? d, nOut.toNat?, ans.mapM parseAns? with
    | some ob, some dst, some d, some nOut, some ans =>
      let route : Str → Option Nat := fun _ => rt.toNat?
      let settle : World → Option Str → World := fun w pr => (afterProbe w pr ans).1
      -- fail = 2: the node refuses the first dial with an error that is NOT network-unreachable /
      -- address-not-suitable: routeDial gives up after that one dial (no retry, no fallback)
      let (w2, outs) :=
        if fail == "2" then
          let (wr, o1) := chooseProxyDialer w ob dst d route nOut
          let wr := settle wr o1.probeReq
          (wr, if o1.outbound.isNone then [o1] else [o1, { o1 with outbound := none }])
        else routeDial w ob dst d route nOut (fail == "1") settle
      -- did any attempt make the probe call a resolver?
      let (wa, o1) := chooseProxyDialer w ob dst d route nOut
      let p1 := (afterProbe wa o1.probeReq ans).2 > 0
      let p2 := if outs.length > 1 then
          let wb := settle wa o1.probeReq
          let (wc, o2) := chooseProxyDialer wb ob dst d route nOut
          (afterProbe wc o2.probeReq ans).2 > 0
        else false
      let n := outs.length
      let fmt (io : Nat × DialOut) : String :=
        match io.2.outbound with
        | none => "err"
        | some ob =>
          s!"ob={ob} t={hexOfStr io.2.target}" ++ (if io.1 + 1 = n then s!" ip={boolStr io.2.dialIp}" else "")
      let isErr := match outs.getLast? with | some o => o.outbound.isNone | none => true
      -- whether a probe was started is not compared when the dial fails anyway
      (w2, " ; ".intercalate ((List.range n).zip outs |>.map fmt) ++ (if isErr then "" else s!" probe={boolStr (p1 || p2)}"))
    | _, _, _, _, _ => (w, "bad-op")
  | ["norm", r] =>
    match strOfHex? r with
    | some r => (w, hexOfStr (normalizeDomain r))
    | none => (w, "bad-op")
  | ["pa", s] =>
    match strOfHex? s with
    | some s => (w, boolStr (parseAddrOk s))
    | none => (w, "bad-op")
  | ["shp", s] =>
    match strOfHex? s with
    | some s =>
      match splitHostPort s with
      | some (h, p) => (w, s!"h={hexOfStr h} p={hexOfStr p}")
      | none => (w, "none")
    | none => (w, "bad-op")
  | ["jhp", h, p] =>
    match strOfHex? h, strOfHex? p with
    | some h, some p => (w, hexOfStr (joinHostPort h p))
    | _, _ => (w, "bad-op")
  | ["iplike", s] =>
    match strOfHex? s with
    | some s => (w, boolStr (isIPLike s))
    | none => (w, "bad-op")
  | ["canon", s] =>
    match strOfHex? s with
    | some s => (w, hexOfStr (canonicalName s))
    | none => (w, "bad-op")
  | ["ap", d] =>
    match parseDst? d with
    | some d => (w, hexOfStr (fmtAddrPort d))
    | none => (w, "bad-op")
  | ["resv", n] =>
    match n.toNat? with
    | some n => (w, boolStr (isReserved n))
    | none => (w, "bad-op")
  | ["nt", d, p] =>
    match strOfHex? d, p.toNat? with
    | some d, some p => let r := nameTarget d p; (w, s!"t={hexOfStr r.1} ip={boolStr r.2}")
    | _, _ => (w, "bad-op")
  | ["sat", n] =>
    -- saturation episode: n distinct names verified by positive probes on a fresh world
    match n.toNat? with
    | some n =>
      let pos : List Ans := [⟨true, false, false, false⟩]
      let r := (List.range n).foldl (fun (acc : World × Bool × Nat) i =>
        let (w, ok, clears) := acc
        let w' := step w (.probeDone ("sat-".toList ++ itoa i ++ ".test".toList) pos)
        (w', ok && decide (w'.realSet.length ≤ realCap) && decide (w'.realAdds ≤ realCap),
         if w'.realAdds < w.realAdds + 1 then clears + 1 else clears)) (({ mode := .domain } : World), true, 0)
      (w, s!"bounded={boolStr r.2.1} clears={r.2.2}")
    | none => (w, "bad-op")
  | ["reset"] => ({}, "ok")
  | ["reset", negttl, minttl] =>
    -- tunables of the running code that the property does not fix
    match negttl.toNat?, minttl.toNat? with
    | some n, some m => ({ negTtl := (n : Int), minTtl := m }, "ok")
    | _, _ => (w, "bad-op")
  | "pick" :: ob :: dst :: d :: rt :: nOut :: _meta :: ans =>
    -- chooseProxyDialer alone (what the UDP path uses: the datagram target stays the IP, the outbound
    -- and the strict-family flag come from here)
    match ob.toNat?, parseDst? dst, strOfHex? d, nOut.toNat?, ans.mapM parseAns? with
    | some ob, some dst, some d, some nOut, some ans =>
      let route : Str → Option Nat := fun _ => rt.toNat?
      let (w1, o) := chooseProxyDialer w ob dst d route nOut
      let (w2, calls) := afterProbe w1 o.probeReq ans
      match o.outbound with
      | none => (w2, "err")
      | some ob => (w2, s!"ob={ob} t={hexOfStr o.target} ip={boolStr o.dialIp} probe={boolStr (calls > 0)}")
    | _, _, _, _, _ => (w, "bad-op")
  | _ => (w, "bad-op")

def main : IO Unit := lineLoopS ({} : World) handle
