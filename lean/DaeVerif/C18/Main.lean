import DaeVerif.C18.Model
import DaeVerif.Common.Proto
/-! Line-protocol driver for C18 (op grammar: see harness/overlay/control/c18_test.go).
Strings travel hex-encoded (`-` = empty string). The driver is stateful: it threads the `World`. -/
open DaeVerif DaeVerif.C18 DaeVerif.Proto

def strOfHex? (tok : String) : Option Str :=
  if tok = "-" then some [] else (hexToBytes? tok).map (·.map Char.ofNat)

def hexOfStr (s : Str) : String := if s.isEmpty then "-" else bytesToHex (s.map Char.toNat)

/-- `4:<8 hex>:<port>` or `6:<32 hex>:<port>` -/
def parseDst? (tok : String) : Option Dst :=
  match tok.splitOn ":" with
  | ["4", h, p] => do let a ← hexToNat? h; let q ← p.toNat?; pure ⟨true, a, q⟩
  | ["6", h, p] => do let a ← hexToNat? h; let q ← p.toNat?; pure ⟨false, a, q⟩
  | _ => none

def parseMode? : String → Option Mode
  | "ip" => some .ip | "domain" => some .domain | "domain+" => some .domainPlus
  | "domain++" => some .domainCao | _ => none

def parseAns? (tok : String) : Option Ans :=
  match tok.toList with
  | [a, b, c, d] => some ⟨a == '1', b == '1', c == '1', d == '1'⟩
  | _ => none

def parseInt? (tok : String) : Option Int :=
  if tok.startsWith "-" then (tok.drop 1).toNat?.map fun n => -(n : Int) else tok.toNat?.map fun n => (n : Int)

/-- apply the probe that `ChooseDialTarget` started (the harness waits for the goroutine). -/
def afterProbe (w : World) (pr : Option Str) (answers : List Ans) : World × Nat :=
  match pr with
  | none => (w, 0)
  | some d => (probe w d answers, probeCalls w answers)

def handle (w : World) (line : String) : World × String :=
  match words line with
  | ["mode", m] =>
    match parseMode? m with
    | some m => (step w (.setMode m), "ok")
    | none => (w, "bad-op")
  | ["boot", n] =>
    match n.toNat? with
    | some n => (step w (.setBoot n), "ok")
    | none => (w, "bad-op")
  | ["adv", n] =>
    match n.toNat? with
    | some n => (step w (.advance n), "ok")
    | none => (w, "bad-op")
  | ["dns", h, f, ttl, key] =>
    match strOfHex? h, parseInt? ttl, strOfHex? key with
    | some h, some ttl, some key =>
      let r := dnsUpdate w h (f == "4") ttl key
      (r.1, if r.2 then "ok" else "bypass")
    | _, _, _ => (w, "bad-op")
  | ["rm", k] =>
    match strOfHex? k with
    | some k => (dnsRemove w k, "ok")
    | none => (w, "bad-op")
  | ["has", n, f] =>
    match strOfHex? n with
    | some n => let r := hasKnowledge w (cacheKey n (f == "4")); (r.1, boolStr r.2)
    | none => (w, "bad-op")
  | ["look", d] =>
    match strOfHex? d with
    | some d => let r := lookupReal w d; (r.1, s!"known={boolStr r.2.1} real={boolStr r.2.2}")
    | none => (w, "bad-op")
  | "cdt" :: ob :: dst :: d :: ans =>
    match ob.toNat?, parseDst? dst, strOfHex? d, ans.mapM parseAns? with
    | some ob, some dst, some d, some ans =>
      let (w1, c) := chooseDialTarget w ob dst d
      let (w2, calls) := afterProbe w1 c.probeReq ans
      (w2, s!"t={hexOfStr c.target} rr={boolStr c.reroute} ip={boolStr c.dialIp} calls={calls}")
    | _, _, _, _ => (w, "bad-op")
  | "dial" :: ob :: dst :: d :: rt :: nOut :: ans =>
    match ob.toNat?, parseDst? dst, strOfHex? d, nOut.toNat?, ans.mapM parseAns? with
    | some ob, some dst, some d, some nOut, some ans =>
      let route : Str → Option Nat := fun _ => rt.toNat?
      let (w1, o) := chooseProxyDialer w ob dst d route nOut
      let (w2, calls) := afterProbe w1 o.probeReq ans
      match o.outbound with
      | none => (w2, s!"err calls={calls}")
      | some ob => (w2, s!"ob={ob} t={hexOfStr o.target} ip={boolStr o.dialIp} calls={calls}")
    | _, _, _, _, _ => (w, "bad-op")
  | ["norm", r] =>
    match strOfHex? r with
    | some r => (w, hexOfStr (normalizeDomain r))
    | none => (w, "bad-op")
  | ["pa", s] =>
    match strOfHex? s with
    | some s => (w, boolStr (parseAddrOk s))
    | none => (w, "bad-op")
  | ["shp", s] =>
    match strOfHex? s with
    | some s =>
      match splitHostPort s with
      | some (h, p) => (w, s!"h={hexOfStr h} p={hexOfStr p}")
      | none => (w, "none")
    | none => (w, "bad-op")
  | ["jhp", h, p] =>
    match strOfHex? h, strOfHex? p with
    | some h, some p => (w, hexOfStr (joinHostPort h p))
    | _, _ => (w, "bad-op")
  | ["iplike", s] =>
    match strOfHex? s with
    | some s => (w, boolStr (isIPLike s))
    | none => (w, "bad-op")
  | ["canon", s] =>
    match strOfHex? s with
    | some s => (w, hexOfStr (canonicalName s))
    | none => (w, "bad-op")
  | ["ap", d] =>
    match parseDst? d with
    | some d => (w, hexOfStr (fmtAddrPort d))
    | none => (w, "bad-op")
  | ["resv", n] =>
    match n.toNat? with
    | some n => (w, boolStr (isReserved n))
    | none => (w, "bad-op")
  | ["nt", d, p] =>
    match strOfHex? d, p.toNat? with
    | some d, some p => let r := nameTarget d p; (w, s!"t={hexOfStr r.1} ip={boolStr r.2}")
    | _, _ => (w, "bad-op")
  | ["reset"] => ({}, "ok")
  | _ => (w, "bad-op")

def main : IO Unit := lineLoopS ({} : World) handle
