import DaeVerif.C18.Proofs
import DaeVerif.C18.Names
/-! History invariant for C18: every knowledge entry stems from a resolution through dae (with its
original deadline), every member of the verified set from a positive probe. -/
namespace DaeVerif.C18

/-- the worlds in which the events of a history were applied -/
def trace (w : World) : List Event → List (World × Event)
  | [] => []
  | e :: es => (w, e) :: trace (step w e) es

theorem run_cons (w : World) (e : Event) (es : List Event) : run w (e :: es) = run (step w e) es := rfl

/-- `x` stored a DNS cache entry under cache key `ck` with original deadline `od`: a (non-bypassed)
resolution through dae (`od` = time of the event + TTL), or an entry carried over from the previous
generation by `RestoreReloadCache` (with the original deadline it had there). -/
def Stored (x : World × Event) (ck : Str) (od : Int) : Prop :=
  (∃ h q ttl key, x.2 = .dnsUpdate h q ttl key ∧ (dnsUpdate x.1 h q ttl key).2 = true ∧
    updateKey h q key = ck ∧ od = x.1.now + ttl) ∨
  -- … or an entry carried over from the previous generation by `RestoreReloadCache`
  (∃ es, x.2 = .dnsRestore es ∧ (ck, od) ∈ es)

/-- what the probe got back, as `probeAndUpdateRealDomain` reads it -/
def probeResult (w : World) (ans : List Ans) : Ans := resolveAll (ans.take w.nboot) none

/-- `x` is a completed probe of `d` in which some bootstrap resolver returned an address (and not
both lookups failed). -/
def IsPositiveProbe (x : World × Event) (d : Str) : Prop :=
  ∃ ans, (x.2 = .probeDone d ans ∨ ∃ t0, x.2 = .probeFinish d t0 ans) ∧ x.1.nboot ≠ 0 ∧
    ((probeResult x.1 ans).ip4 || (probeResult x.1 ans).ip6) = true ∧
    ((probeResult x.1 ans).err4 && (probeResult x.1 ans).err6) = false

structure Inv (T : List (World × Event)) (w : World) : Prop where
  cache : ∀ ck od, (ck, od) ∈ w.cache → ∃ x ∈ T, Stored x ck od ∧ x.1.now ≤ w.now
  know : ∀ bk e, (bk, e) ∈ w.know → ∃ x ∈ T, ∃ ck, Stored x ck e ∧ baseKeyOf ck = bk ∧ x.1.now ≤ w.now
  real : ∀ d, d ∈ w.realSet → ∃ x ∈ T, IsPositiveProbe x d

/-- `w'` has no new cache / knowledge / verified entries and a clock not earlier than `w`. -/
structure Shrinks (w w' : World) : Prop where
  cache : ∀ x, x ∈ w'.cache → x ∈ w.cache
  know : ∀ x, x ∈ w'.know → x ∈ w.know
  real : ∀ x, x ∈ w'.realSet → x ∈ w.realSet
  now : w.now ≤ w'.now

theorem Shrinks.refl (w : World) : Shrinks w w := ⟨fun _ h => h, fun _ h => h, fun _ h => h, Int.le_refl _⟩

theorem Shrinks.trans {a b c : World} (h1 : Shrinks a b) (h2 : Shrinks b c) : Shrinks a c :=
  ⟨fun x h => h1.cache x (h2.cache x h), fun x h => h1.know x (h2.know x h),
   fun x h => h1.real x (h2.real x h), Int.le_trans h1.now h2.now⟩

theorem Inv.of_shrinks {T T' : List (World × Event)} {w w' : World} (h : Inv T w) (s : Shrinks w w')
    (hT : ∀ x, x ∈ T → x ∈ T') : Inv T' w' where
  cache ck od hm := by
    obtain ⟨x, hx, hu, hn⟩ := h.cache ck od (s.cache _ hm)
    exact ⟨x, hT x hx, hu, Int.le_trans hn s.now⟩
  know bk e hm := by
    obtain ⟨x, hx, ck, hu, hb, hn⟩ := h.know bk e (s.know _ hm)
    exact ⟨x, hT x hx, ck, hu, hb, Int.le_trans hn s.now⟩
  real d hm := by
    obtain ⟨x, hx, hp⟩ := h.real d (s.real _ hm)
    exact ⟨x, hT x hx, hp⟩

theorem hasKnowledge_shrinks (w : World) (k : Str) : Shrinks w (hasKnowledge w k).1 := by
  unfold hasKnowledge
  split
  · exact Shrinks.refl w
  · split
    · exact Shrinks.refl w
    · split
      · exact ⟨fun _ h => h, fun _ h => Assoc.mem_del h, fun _ h => h, Int.le_refl _⟩
      · exact Shrinks.refl w

theorem lookupReal_shrinks (w : World) (d : Str) : Shrinks w (lookupReal w d).1 := by
  unfold lookupReal
  split
  · exact Shrinks.refl w
  · split
    · split
      · exact Shrinks.refl w
      · exact ⟨fun _ h => h, fun _ h => h, fun _ h => h, Int.le_refl _⟩
    · exact Shrinks.refl w

theorem decideMode_shrinks (w : World) (ob : Nat) (dst : Dst) (d : Str) :
    Shrinks w (decideMode w ob dst d).1 := by
  unfold decideMode
  split
  · split
    · exact Shrinks.refl w
    · split
      · exact Shrinks.refl w
      · have s1 := hasKnowledge_shrinks w (cacheKey d dst.is4)
        rcases hk : hasKnowledge w (cacheKey d dst.is4) with ⟨w1, k⟩
        rw [hk] at s1
        simp only []
        split
        · exact s1
        · have s2 := lookupReal_shrinks w1 d
          rcases hl : lookupReal w1 d with ⟨w2, known, real⟩
          rw [hl] at s2
          simp only []
          split
          · split <;> exact s1.trans s2
          · exact s1.trans s2
    · exact Shrinks.refl w
    · exact Shrinks.refl w
  · exact Shrinks.refl w

theorem chooseDialTarget_shrinks (w : World) (ob : Nat) (dst : Dst) (d : Str) :
    Shrinks w (chooseDialTarget w ob dst d).1 := by
  rw [chooseDialTarget_eq]
  simp only []
  split <;> exact decideMode_shrinks w ob dst d

/-- `remember` adds at most the entry `(bk, e)`. -/
theorem remember_know (w : World) (bk : Str) (e : Int) :
    (∀ x, x ∈ (remember w bk e).know → x = (bk, e) ∨ x ∈ w.know) ∧
    (remember w bk e).cache = w.cache ∧ (remember w bk e).realSet = w.realSet ∧ (remember w bk e).now = w.now := by
  unfold remember
  split
  · exact ⟨fun _ h => Or.inr h, rfl, rfl, rfl⟩
  · split
    · exact ⟨fun _ h => Assoc.mem_put h, rfl, rfl, rfl⟩
    · split
      · exact ⟨fun _ h => Assoc.mem_put h, rfl, rfl, rfl⟩
      · exact ⟨fun _ h => Or.inr h, rfl, rfl, rfl⟩

/-- `syncKnow` adds at most `(bk, od)` for the deadline `od` of a cache entry of the family. -/
theorem syncKnow_know (w : World) (bk : Str) :
    (∀ x, x ∈ (syncKnow w bk).know → (∃ ck, x.1 = bk ∧ (ck, x.2) ∈ w.cache ∧ baseKeyOf ck = bk) ∨ x ∈ w.know) ∧
    (syncKnow w bk).cache = w.cache ∧ (syncKnow w bk).realSet = w.realSet ∧ (syncKnow w bk).now = w.now := by
  unfold syncKnow
  simp only []
  split
  · exact ⟨fun _ h => Or.inr (Assoc.mem_del h), rfl, rfl, rfl⟩
  · rename_i x xs hl
    refine ⟨fun y h => ?_, rfl, rfl, rfl⟩
    rcases Assoc.mem_put h with h | h
    · left
      have hm : xs.foldl max x ∈ (w.cache.filter fun e => baseKeyOf e.1 = bk ∧ e.2 > w.now).map (·.2) := by
        rw [hl]; exact foldl_max_mem x xs
      obtain ⟨e, he, hv⟩ := List.mem_map.1 hm
      have hf := List.mem_filter.1 he
      refine ⟨e.1, by rw [h], ?_, ?_⟩
      · rw [h]; simp only []; rw [← hv]; exact hf.1
      · have := hf.2; simp at this; exact this.1
    · exact Or.inr h

theorem forget_know (w : World) (ck0 : Str) (dl : Int) :
    (∀ x, x ∈ (forget w ck0 dl).know →
        (∃ ck, (ck, x.2) ∈ w.cache ∧ baseKeyOf ck = x.1) ∨ x ∈ w.know) ∧
    (forget w ck0 dl).cache = w.cache ∧ (forget w ck0 dl).realSet = w.realSet ∧ (forget w ck0 dl).now = w.now := by
  unfold forget
  simp only []
  split
  · exact ⟨fun _ h => Or.inr h, rfl, rfl, rfl⟩
  · split
    · exact ⟨fun _ h => Or.inr h, rfl, rfl, rfl⟩
    · split
      · exact ⟨fun _ h => Or.inr h, rfl, rfl, rfl⟩
      · obtain ⟨a, b, c, d⟩ := syncKnow_know w (baseKeyOf ck0)
        refine ⟨fun x h => ?_, b, c, d⟩
        rcases a x h with ⟨ck, h1, h2, h3⟩ | h
        · exact Or.inl ⟨ck, h2, by rw [h3, h1]⟩
        · exact Or.inr h

/-- the name tested by the "pure IP" bypass of `__updateDnsCacheDeadline` -/
def hostNoDot (host : Str) : Str := if host.getLast? = some '.' then host.dropLast else host

theorem dnsUpdate_eq (w : World) (host : Str) (is4 : Nat) (ttl : Int) (key : Str) :
    dnsUpdate w host is4 ttl key =
      if parseAddrOk (hostNoDot host) then (w, false)
      else (remember { w with cache := w.cache.put (updateKey host is4 key) (w.now + ttl) }
              (baseKeyOf (updateKey host is4 key)) (w.now + ttl), true) := rfl

theorem addVerified_spec (w : World) (d : Str) :
    (addVerified w d).cache = w.cache ∧ (addVerified w d).know = w.know ∧ (addVerified w d).now = w.now ∧
    (∀ x, x ∈ (addVerified w d).realSet → x = d ∨ x ∈ w.realSet) := by
  unfold addVerified
  split
  · exact ⟨rfl, rfl, rfl, fun x h => Or.inl (by simpa using h)⟩
  · exact ⟨rfl, rfl, rfl, fun x h => by simpa using h⟩

theorem mem_weaken {T : List (World × Event)} {x y : World × Event} (h : x ∈ T) : x ∈ T ++ [y] :=
  List.mem_append_left _ h

theorem mem_last {T : List (World × Event)} {y : World × Event} : y ∈ T ++ [y] := by simp

/-- one step preserves the invariant, the trace growing by the event just applied. -/
theorem Inv.step {T : List (World × Event)} {w : World} (h : Inv T w) (e : Event) :
    Inv (T ++ [(w, e)]) (step w e) := by
  cases e with
  | setMode m => exact h.of_shrinks ⟨fun _ h => h, fun _ h => h, fun _ h => h, Int.le_refl _⟩ (fun _ => mem_weaken)
  | setBoot n => exact h.of_shrinks ⟨fun _ h => h, fun _ h => h, fun _ h => h, Int.le_refl _⟩ (fun _ => mem_weaken)
  | advance ns =>
    exact h.of_shrinks ⟨fun _ h => h, fun _ h => h, fun _ h => h, by show w.now ≤ w.now + (ns : Int); omega⟩ (fun _ => mem_weaken)
  | hasKnow n is4 => exact h.of_shrinks (hasKnowledge_shrinks w _) (fun _ => mem_weaken)
  | choose ob dst d => exact h.of_shrinks (chooseDialTarget_shrinks w ob dst d) (fun _ => mem_weaken)
  | dnsUpdate host is4 ttl key =>
    have hw := h.of_shrinks (Shrinks.refl w) (fun x => @mem_weaken T x (w, Event.dnsUpdate host is4 ttl key))
    show Inv _ (dnsUpdate w host is4 ttl key).1
    cases hb : (dnsUpdate w host is4 ttl key).2 with
    | false =>
      have : (dnsUpdate w host is4 ttl key).1 = w := by
        rw [dnsUpdate_eq] at hb ⊢
        split
        · rfl
        · rename_i hp; rw [if_neg hp] at hb; simp at hb
      rw [this]; exact hw
    | true =>
      have hu : Stored (w, Event.dnsUpdate host is4 ttl key) (updateKey host is4 key) (w.now + ttl) :=
        Or.inl ⟨host, is4, ttl, key, rfl, hb, rfl, rfl⟩
      have e1 : (dnsUpdate w host is4 ttl key).1 =
          remember { w with cache := w.cache.put (updateKey host is4 key) (w.now + ttl) }
            (baseKeyOf (updateKey host is4 key)) (w.now + ttl) := by
        rw [dnsUpdate_eq] at hb ⊢
        split
        · rename_i hp; rw [if_pos hp] at hb; simp at hb
        · rfl
      rw [e1]
      obtain ⟨rk, rc, rr, rn⟩ := remember_know { w with cache := w.cache.put (updateKey host is4 key) (w.now + ttl) }
        (baseKeyOf (updateKey host is4 key)) (w.now + ttl)
      refine ⟨fun ck od hm => ?_, fun bk e hm => ?_, fun d hm => ?_⟩
      · rw [rc] at hm
        rw [rn]
        rcases Assoc.mem_put hm with hm | hm
        · simp only [Prod.mk.injEq] at hm
          exact ⟨_, mem_last, by rw [hm.1, hm.2]; exact hu, Int.le_refl _⟩
        · exact hw.cache ck od hm
      · rw [rn]
        rcases rk _ hm with hm | hm
        · simp only [Prod.mk.injEq] at hm
          exact ⟨_, mem_last, _, by rw [hm.2]; exact hu, hm.1.symm, Int.le_refl _⟩
        · exact hw.know bk e hm
      · rw [rr] at hm; exact hw.real d hm
  | dnsRemove ck =>
    have hw := h.of_shrinks (Shrinks.refl w) (fun x => @mem_weaken T x (w, Event.dnsRemove ck))
    show Inv _ (dnsRemove w ck)
    unfold dnsRemove
    split
    · exact hw
    · rename_i od hg
      have hw1 : Inv (T ++ [(w, Event.dnsRemove ck)]) { w with cache := w.cache.del ck } :=
        hw.of_shrinks ⟨fun _ h => Assoc.mem_del h, fun _ h => h, fun _ h => h, Int.le_refl _⟩ (fun _ h => h)
      obtain ⟨fk, fc, fr, fn⟩ := forget_know { w with cache := w.cache.del ck } ck od
      refine ⟨fun ck' od' hm => ?_, fun bk e hm => ?_, fun d hm => ?_⟩
      · rw [fc] at hm; rw [fn]; exact hw1.cache ck' od' hm
      · rw [fn]
        rcases fk _ hm with ⟨ck', h1, h2⟩ | hm
        · obtain ⟨x, hx, hu, hn⟩ := hw1.cache ck' e h1
          exact ⟨x, hx, ck', hu, h2, hn⟩
        · exact hw1.know bk e hm
      · rw [fr] at hm; exact hw1.real d hm
  | dnsClose =>
    exact h.of_shrinks (w' := dnsClose w) ⟨fun _ h => by simp [dnsClose] at h, fun _ h => by simp [dnsClose] at h,
      fun _ h => h, Int.le_refl _⟩ (fun _ => mem_weaken)
  | dnsRemoveFamily bk =>
    have hw := h.of_shrinks (Shrinks.refl w) (fun x => @mem_weaken T x (w, Event.dnsRemoveFamily bk))
    show Inv _ (dnsRemoveFamily w bk)
    unfold dnsRemoveFamily
    split
    · exact hw
    · have hw1 : Inv (T ++ [(w, Event.dnsRemoveFamily bk)])
          { w with cache := w.cache.filter fun e => baseKeyOf e.1 ≠ bk } :=
        hw.of_shrinks ⟨fun _ h => (List.mem_filter.1 h).1, fun _ h => h, fun _ h => h, Int.le_refl _⟩ (fun _ h => h)
      obtain ⟨fk, fc, fr, fn⟩ := syncKnow_know { w with cache := w.cache.filter fun e => baseKeyOf e.1 ≠ bk } bk
      refine ⟨fun ck' od' hm => ?_, fun bk' e hm => ?_, fun d hm => ?_⟩
      · rw [fc] at hm; rw [fn]; exact hw1.cache ck' od' hm
      · rw [fn]
        rcases fk _ hm with ⟨ck', h0, h1, h2⟩ | hm
        · obtain ⟨x, hx, hu, hn⟩ := hw1.cache ck' e h1
          exact ⟨x, hx, ck', hu, by rw [h2]; exact h0.symm, hn⟩
        · exact hw1.know bk' e hm
      · rw [fr] at hm; exact hw1.real d hm
  | dnsRestore es =>
    show Inv _ (dnsRestore w es)
    -- generalise: restoring a suffix `es'` of `es` from any world satisfying the invariant
    have key : ∀ (es' : List (Str × Int)) (w' : World), (∀ x, x ∈ es' → x ∈ es) → w'.now = w.now →
        Inv (T ++ [(w, Event.dnsRestore es)]) w' → Inv (T ++ [(w, Event.dnsRestore es)]) (dnsRestore w' es') := by
      intro es'
      induction es' with
      | nil => intro w' _ _ hi; exact hi
      | cons e es' ih =>
        intro w' hsub hnow hi
        rcases e with ⟨ck, od⟩
        show Inv _ (dnsRestore (remember { w' with cache := w'.cache.put ck od } (baseKeyOf ck) od) es')
        have hsrc : Stored (w, Event.dnsRestore es) ck od := Or.inr ⟨es, rfl, hsub _ (by simp)⟩
        obtain ⟨rk, rc, rr, rn⟩ := remember_know { w' with cache := w'.cache.put ck od } (baseKeyOf ck) od
        apply ih _ (fun x hx => hsub x (List.mem_cons_of_mem _ hx)) (by rw [rn]; exact hnow)
        refine ⟨fun ck' od' hm => ?_, fun bk e hm => ?_, fun d hm => ?_⟩
        · rw [rc] at hm; rw [rn]
          rcases Assoc.mem_put hm with hm | hm
          · simp only [Prod.mk.injEq] at hm
            exact ⟨_, mem_last, by rw [hm.1, hm.2]; exact hsrc, by show w.now ≤ w'.now; omega⟩
          · exact hi.cache ck' od' hm
        · rw [rn]
          rcases rk _ hm with hm | hm
          · simp only [Prod.mk.injEq] at hm
            exact ⟨_, mem_last, _, by rw [hm.2]; exact hsrc, hm.1.symm, by show w.now ≤ w'.now; omega⟩
          · exact hi.know bk e hm
        · rw [rr] at hm; exact hi.real d hm
    exact key es w (fun _ h => h) rfl
      (h.of_shrinks (Shrinks.refl w) (fun x => @mem_weaken T x (w, Event.dnsRestore es)))
  | probeDone d ans =>
    have hw := h.of_shrinks (Shrinks.refl w) (fun x => @mem_weaken T x (w, Event.probeDone d ans))
    show Inv _ (probe w d ans)
    unfold probe
    have s1 := lookupReal_shrinks w d
    rcases hl : lookupReal w d with ⟨w1, known, real⟩
    rw [hl] at s1
    have hw1 := hw.of_shrinks s1 (fun _ h => h)
    simp only []
    split
    · exact hw1
    · split
      · exact hw1
      · rename_i hnb
        split
        · exact hw1
        · rename_i herr
          split
          · exact hw1.of_shrinks ⟨fun _ h => h, fun _ h => h, fun _ h => h, Int.le_refl _⟩ (fun _ h => h)
          · rename_i hip
            -- positive: `d` enters the verified set, witnessed by this very event.
            -- `lookupReal` leaves `nboot` unchanged
            have hnb1 : w1.nboot = w.nboot := by
              have : (lookupReal w d).1.nboot = w.nboot := by
                unfold lookupReal; split
                · rfl
                · split
                  · split <;> rfl
                  · rfl
              rw [hl] at this; exact this
            obtain ⟨ac, ak, an, ar⟩ := addVerified_spec w1 d
            refine ⟨fun ck od hm => by rw [ac] at hm; rw [an]; exact hw1.cache ck od hm,
              fun bk e hm => by rw [ak] at hm; rw [an]; exact hw1.know bk e hm, fun d' hm => ?_⟩
            rcases ar d' hm with rfl | hm
            · refine ⟨_, mem_last, ans, Or.inl rfl, by rw [← hnb1]; exact hnb, ?_, ?_⟩
              · simp only [probeResult, ← hnb1]
                have b2 : ∀ a b : Bool, ¬((!a && !b) = true) → (a || b) = true := by decide
                exact b2 _ _ hip
              · simp only [probeResult, ← hnb1]
                simpa using herr
            · exact hw1.real d' hm
  | probeStart d => exact h.of_shrinks (lookupReal_shrinks w d) (fun _ => mem_weaken)
  | negCleanup =>
    exact h.of_shrinks (w' := negCleanup w) ⟨fun _ h => h, fun _ h => h, fun _ h => h, Int.le_refl _⟩ (fun _ => mem_weaken)
  | newGeneration m n =>
    exact h.of_shrinks (w' := newGeneration w m n) ⟨fun _ h => h, fun _ h => h, fun _ h => by simp [newGeneration] at h,
      Int.le_refl _⟩ (fun _ => mem_weaken)
  | probeFinish d t0 ans =>
    have hw := h.of_shrinks (Shrinks.refl w) (fun x => @mem_weaken T x (w, Event.probeFinish d t0 ans))
    show Inv _ (probeFinish w d t0 ans)
    unfold probeFinish
    split
    · exact hw
    · rename_i hnb
      simp only []
      split
      · exact hw
      · rename_i herr
        split
        · exact hw.of_shrinks ⟨fun _ h => h, fun _ h => h, fun _ h => h, Int.le_refl _⟩ (fun _ h => h)
        · rename_i hip
          obtain ⟨ac, ak, an, ar⟩ := addVerified_spec w d
          refine ⟨fun ck od hm => by rw [ac] at hm; rw [an]; exact hw.cache ck od hm,
            fun bk e hm => by rw [ak] at hm; rw [an]; exact hw.know bk e hm, fun d' hm => ?_⟩
          rcases ar d' hm with rfl | hm
          · refine ⟨_, mem_last, ans, Or.inr ⟨t0, rfl⟩, hnb, ?_, ?_⟩
            · simp only [probeResult]
              have b2 : ∀ a b : Bool, ¬((!a && !b) = true) → (a || b) = true := by decide
              exact b2 _ _ hip
            · simp only [probeResult]
              simpa using herr
          · exact hw.real d' hm

theorem Inv.run {T : List (World × Event)} {w : World} (h : Inv T w) (es : List Event) :
    Inv (T ++ trace w es) (run w es) := by
  induction es generalizing T w with
  | nil => simp only [trace, List.append_nil]; exact h
  | cons e es ih =>
    have := ih (h.step e)
    simpa [trace, run_cons, List.append_assoc] using this

/-- the empty caches satisfy the invariant. -/
theorem Inv.init (w : World) (hc : w.cache = []) (hk : w.know = []) (hr : w.realSet = []) : Inv [] w :=
  ⟨fun _ _ h => by simp [hc] at h, fun _ _ h => by simp [hk] at h, fun _ h => by simp [hr] at h⟩

/-! ## knowledge persists until the original TTL -/

/-- `Holds w bk od`: the knowledge entry of `bk` is at least `od`, or `od` has passed. -/
def Holds (w : World) (bk : Str) (od : Int) : Prop :=
  (∃ e, w.know.get bk = some e ∧ od ≤ e) ∨ od ≤ w.now

/-- events that cannot lower the entry of `bk`: all but removals inside the family of `bk`. -/
def keepsFamily (bk : Str) : Event → Prop
  | .dnsRemove ck => baseKeyOf ck ≠ bk
  | .dnsRemoveFamily bk' => bk' ≠ bk
  | .dnsClose => False
  | _ => True

theorem Holds.of_same {w w' : World} {bk : Str} {od : Int} (h : Holds w bk od)
    (hk : w'.know.get bk = w.know.get bk) (hn : w.now ≤ w'.now) : Holds w' bk od := by
  rcases h with ⟨e, he, hle⟩ | h
  · exact Or.inl ⟨e, by rw [hk]; exact he, hle⟩
  · exact Or.inr (Int.le_trans h hn)

theorem hasKnowledge_holds {w : World} {bk : Str} {od : Int} (h : Holds w bk od) (k : Str) :
    Holds (hasKnowledge w k).1 bk od := by
  unfold hasKnowledge
  split
  · exact h
  · split
    · exact h
    · rename_i e hg
      split
      · rename_i hexp
        by_cases hk : k = bk
        · subst hk
          rcases h with ⟨e', he', hle⟩ | h
          · rw [hg] at he'; simp at he'; subst he'
            exact Or.inr (Int.le_trans hle hexp)
          · exact Or.inr h
        · exact h.of_same (Assoc.get_del_ne _ hk) (Int.le_refl _)
      · exact h

theorem lookupReal_know (w : World) (d : Str) :
    (lookupReal w d).1.know = w.know ∧ (lookupReal w d).1.now = w.now := by
  unfold lookupReal
  split
  · exact ⟨rfl, rfl⟩
  · split
    · split <;> exact ⟨rfl, rfl⟩
    · exact ⟨rfl, rfl⟩

theorem decideMode_holds {w : World} {bk : Str} {od : Int} (h : Holds w bk od) (ob : Nat) (dst : Dst) (d : Str) :
    Holds (decideMode w ob dst d).1 bk od := by
  unfold decideMode
  split
  · split
    · exact h
    · split
      · exact h
      · have s1 := hasKnowledge_holds h (cacheKey d dst.is4)
        rcases hk : hasKnowledge w (cacheKey d dst.is4) with ⟨w1, k⟩
        rw [hk] at s1
        simp only []
        split
        · exact s1
        · have s2 := lookupReal_know w1 d
          rcases hl : lookupReal w1 d with ⟨w2, known, real⟩
          rw [hl] at s2
          have s3 : Holds w2 bk od := s1.of_same (by rw [s2.1]) (by rw [s2.2]; exact Int.le_refl _)
          simp only []
          split
          · split <;> exact s3
          · exact s3
    · exact h
    · exact h
  · exact h

theorem remember_holds {w : World} {bk : Str} {od : Int} (h : Holds w bk od) (bk' : Str) (e' : Int) :
    Holds (remember w bk' e') bk od := by
  unfold remember
  split
  · exact h
  · by_cases hk : bk' = bk
    · subst hk
      split
      · rename_i hg
        rcases h with ⟨e, he, _⟩ | h
        · rw [hg] at he; simp at he
        · exact Or.inr h
      · rename_i cur hg
        split
        · rename_i hlt
          rcases h with ⟨e, he, hle⟩ | h
          · rw [hg] at he; simp at he; subst he
            exact Or.inl ⟨e', Assoc.get_put_self _ _ _, by omega⟩
          · exact Or.inr h
        · exact h
    · split
      · exact h.of_same (Assoc.get_put_ne _ _ hk) (Int.le_refl _)
      · split
        · exact h.of_same (Assoc.get_put_ne _ _ hk) (Int.le_refl _)
        · exact h

theorem syncKnow_get_ne (w : World) {bk bk' : Str} (hk : bk' ≠ bk) :
    (syncKnow w bk').know.get bk = w.know.get bk ∧ (syncKnow w bk').now = w.now := by
  unfold syncKnow
  simp only []
  split
  · exact ⟨Assoc.get_del_ne _ hk, rfl⟩
  · exact ⟨Assoc.get_put_ne _ _ hk, rfl⟩

theorem forget_holds {w : World} {bk : Str} {od : Int} (h : Holds w bk od) (ck : Str) (dl : Int)
    (hk : baseKeyOf ck ≠ bk) : Holds (forget w ck dl) bk od := by
  unfold forget
  simp only []
  split
  · exact h
  · split
    · exact h
    · split
      · exact h
      · have := syncKnow_get_ne w hk
        exact h.of_same this.1 (by rw [this.2]; exact Int.le_refl _)

theorem probe_know (w : World) (d : Str) (ans : List Ans) :
    (probe w d ans).know = w.know ∧ (probe w d ans).now = w.now := by
  unfold probe
  have s := lookupReal_know w d
  rcases hl : lookupReal w d with ⟨w1, known, real⟩
  rw [hl] at s
  simp only [] at s ⊢
  split
  · exact s
  · split
    · exact s
    · split
      · exact s
      · split
        · exact s
        · obtain ⟨_, ak, an, _⟩ := addVerified_spec w1 d
          exact ⟨by rw [ak]; exact s.1, by rw [an]; exact s.2⟩

theorem probeFinish_know (w : World) (d : Str) (t0 : Int) (ans : List Ans) :
    (probeFinish w d t0 ans).know = w.know ∧ (probeFinish w d t0 ans).now = w.now := by
  unfold probeFinish
  split
  · exact ⟨rfl, rfl⟩
  · simp only []
    split
    · exact ⟨rfl, rfl⟩
    · split
      · exact ⟨rfl, rfl⟩
      · obtain ⟨_, ak, an, _⟩ := addVerified_spec w d
        exact ⟨ak, an⟩

theorem Holds.step {w : World} {bk : Str} {od : Int} (h : Holds w bk od) (e : Event)
    (hk : keepsFamily bk e) : Holds (step w e) bk od := by
  cases e with
  | setMode m => exact h
  | setBoot n => exact h
  | advance ns => exact h.of_same rfl (by show w.now ≤ w.now + (ns : Int); omega)
  | hasKnow n is4 => exact hasKnowledge_holds h _
  | choose ob dst d =>
    show Holds (chooseDialTarget w ob dst d).1 bk od
    rw [chooseDialTarget_eq]
    simp only []
    split <;> exact decideMode_holds h ob dst d
  | dnsUpdate host is4 ttl key =>
    show Holds (dnsUpdate w host is4 ttl key).1 bk od
    rw [dnsUpdate_eq]
    split
    · exact h
    · apply remember_holds
      exact h.of_same rfl (Int.le_refl _)
  | dnsRemove ck =>
    show Holds (dnsRemove w ck) bk od
    unfold dnsRemove
    split
    · exact h
    · apply forget_holds _ _ _ hk
      exact h.of_same rfl (Int.le_refl _)
  | dnsClose => exact absurd hk (by simp [keepsFamily])
  | dnsRemoveFamily bk' =>
    show Holds (dnsRemoveFamily w bk') bk od
    unfold dnsRemoveFamily
    split
    · exact h
    · have := syncKnow_get_ne { w with cache := w.cache.filter fun e => baseKeyOf e.1 ≠ bk' } (bk := bk) hk
      exact h.of_same this.1 (by rw [this.2]; exact Int.le_refl _)
  | dnsRestore es =>
    show Holds (dnsRestore w es) bk od
    have key : ∀ (es' : List (Str × Int)) (w' : World), Holds w' bk od → Holds (dnsRestore w' es') bk od := by
      intro es'
      induction es' with
      | nil => intro w' h'; exact h'
      | cons e es' ih =>
        intro w' h'
        rcases e with ⟨ck, od'⟩
        have h2 : Holds { w' with cache := w'.cache.put ck od' } bk od := h'.of_same rfl (Int.le_refl _)
        exact ih _ (remember_holds h2 _ _)
    exact key es w h
  | probeDone d ans =>
    have := probe_know w d ans
    show Holds (probe w d ans) bk od
    exact h.of_same (by rw [this.1]) (by rw [this.2]; exact Int.le_refl _)
  | probeStart d =>
    have := lookupReal_know w d
    exact h.of_same (w' := (lookupReal w d).1) (by rw [this.1]) (by rw [this.2]; exact Int.le_refl _)
  | negCleanup => exact h.of_same (w' := negCleanup w) rfl (Int.le_refl _)
  | newGeneration m n => exact h.of_same (w' := newGeneration w m n) rfl (Int.le_refl _)
  | probeFinish d t0 ans =>
    have := probeFinish_know w d t0 ans
    show Holds (probeFinish w d t0 ans) bk od
    exact h.of_same (by rw [this.1]) (by rw [this.2]; exact Int.le_refl _)

theorem Holds.run {w : World} {bk : Str} {od : Int} (h : Holds w bk od) (es : List Event)
    (hk : ∀ e ∈ es, keepsFamily bk e) : Holds (run w es) bk od := by
  induction es generalizing w with
  | nil => exact h
  | cons e es ih =>
    rw [run_cons]
    exact ih (h.step e (hk e (by simp))) (fun e' he' => hk e' (by simp [he']))

/-- right after a (non-bypassed) resolution the entry is at least its original deadline. -/
theorem dnsUpdate_holds (w : World) (host : Str) (is4 : Nat) (ttl : Int) (key : Str)
    (hu : (dnsUpdate w host is4 ttl key).2 = true) (hne : baseKeyOf (updateKey host is4 key) ≠ []) :
    Holds (dnsUpdate w host is4 ttl key).1 (baseKeyOf (updateKey host is4 key)) (w.now + ttl) := by
  rw [dnsUpdate_eq] at hu ⊢
  split
  · rename_i hp; rw [if_pos hp] at hu; simp at hu
  · unfold remember
    rw [if_neg hne]
    simp only []
    split
    · exact Or.inl ⟨_, Assoc.get_put_self _ _ _, Int.le_refl _⟩
    · rename_i cur hg
      split
      · exact Or.inl ⟨_, Assoc.get_put_self _ _ _, Int.le_refl _⟩
      · rename_i hlt
        exact Or.inl ⟨cur, hg, by omega⟩

/-! ## the verified set never holds more names than the filter is sized for -/

/-- same verified set and insertion counter -/
def SameReal (w w' : World) : Prop := w'.realSet = w.realSet ∧ w'.realAdds = w.realAdds

theorem SameReal.trans {a b c : World} (h1 : SameReal a b) (h2 : SameReal b c) : SameReal a c :=
  ⟨h2.1.trans h1.1, h2.2.trans h1.2⟩

theorem hasKnowledge_sameReal (w : World) (k : Str) : SameReal w (hasKnowledge w k).1 := by
  unfold hasKnowledge; split
  · exact ⟨rfl, rfl⟩
  · split
    · exact ⟨rfl, rfl⟩
    · split <;> exact ⟨rfl, rfl⟩

theorem lookupReal_sameReal (w : World) (d : Str) : SameReal w (lookupReal w d).1 := by
  unfold lookupReal; split
  · exact ⟨rfl, rfl⟩
  · split
    · split <;> exact ⟨rfl, rfl⟩
    · exact ⟨rfl, rfl⟩

theorem decideMode_sameReal (w : World) (ob : Nat) (dst : Dst) (d : Str) : SameReal w (decideMode w ob dst d).1 := by
  unfold decideMode
  split
  · split
    · exact ⟨rfl, rfl⟩
    · split
      · exact ⟨rfl, rfl⟩
      · have s1 := hasKnowledge_sameReal w (cacheKey d dst.is4)
        rcases hk : hasKnowledge w (cacheKey d dst.is4) with ⟨w1, k⟩
        rw [hk] at s1
        simp only []
        split
        · exact s1
        · have s2 := lookupReal_sameReal w1 d
          rcases hl : lookupReal w1 d with ⟨w2, known, real⟩
          rw [hl] at s2
          simp only []
          split
          · split <;> exact s1.trans s2
          · exact s1.trans s2
    · exact ⟨rfl, rfl⟩
    · exact ⟨rfl, rfl⟩
  · exact ⟨rfl, rfl⟩

theorem remember_sameReal (w : World) (bk : Str) (e : Int) : SameReal w (remember w bk e) := by
  unfold remember; split
  · exact ⟨rfl, rfl⟩
  · split
    · exact ⟨rfl, rfl⟩
    · split <;> exact ⟨rfl, rfl⟩

theorem syncKnow_sameReal (w : World) (bk : Str) : SameReal w (syncKnow w bk) := by
  unfold syncKnow; simp only []; split <;> exact ⟨rfl, rfl⟩

theorem forget_sameReal (w : World) (ck : Str) (dl : Int) : SameReal w (forget w ck dl) := by
  unfold forget; simp only []; split
  · exact ⟨rfl, rfl⟩
  · split
    · exact ⟨rfl, rfl⟩
    · split
      · exact ⟨rfl, rfl⟩
      · exact syncKnow_sameReal w _

theorem dnsRestore_sameReal : ∀ (es : List (Str × Int)) (w : World), SameReal w (dnsRestore w es)
  | [], _ => ⟨rfl, rfl⟩
  | (ck, od) :: es, w => by
    show SameReal w (dnsRestore (remember { w with cache := w.cache.put ck od } (baseKeyOf ck) od) es)
    have a : SameReal w { w with cache := w.cache.put ck od } := ⟨rfl, rfl⟩
    exact (a.trans (remember_sameReal _ _ _)).trans (dnsRestore_sameReal es _)

/-- the size bound of the verified set -/
def Bounded (w : World) : Prop := w.realSet.length ≤ w.realAdds ∧ w.realAdds ≤ realCap

theorem Bounded.of_same {w w' : World} (h : Bounded w) (s : SameReal w w') : Bounded w' := by
  unfold Bounded; rw [s.1, s.2]; exact h

theorem addVerified_bounded {w : World} (h : Bounded w) (d : Str) : Bounded (addVerified w d) := by
  unfold addVerified Bounded at *
  split
  · simp [realCap]
  · rename_i hlt
    simp only [List.length_cons]
    omega

theorem Bounded.step {w : World} (h : Bounded w) (e : Event) : Bounded (step w e) := by
  cases e with
  | setMode m => exact h.of_same ⟨rfl, rfl⟩
  | setBoot n => exact h.of_same ⟨rfl, rfl⟩
  | advance ns => exact h.of_same ⟨rfl, rfl⟩
  | hasKnow n is4 => exact h.of_same (hasKnowledge_sameReal w _)
  | choose ob dst d =>
    show Bounded (chooseDialTarget w ob dst d).1
    rw [chooseDialTarget_eq]; simp only []
    split <;> exact h.of_same (decideMode_sameReal w ob dst d)
  | dnsUpdate host q ttl key =>
    show Bounded (dnsUpdate w host q ttl key).1
    rw [dnsUpdate_eq]
    split
    · exact h
    · exact h.of_same (SameReal.trans (b := { w with cache := w.cache.put (updateKey host q key) (w.now + ttl) })
        ⟨rfl, rfl⟩ (remember_sameReal _ _ _))
  | dnsRemove ck =>
    show Bounded (dnsRemove w ck)
    unfold dnsRemove
    split
    · exact h
    · exact h.of_same (SameReal.trans (b := { w with cache := w.cache.del ck }) ⟨rfl, rfl⟩ (forget_sameReal _ _ _))
  | dnsRemoveFamily bk =>
    show Bounded (dnsRemoveFamily w bk)
    unfold dnsRemoveFamily
    split
    · exact h
    · exact h.of_same (SameReal.trans (b := { w with cache := w.cache.filter fun e => baseKeyOf e.1 ≠ bk })
        ⟨rfl, rfl⟩ (syncKnow_sameReal _ _))
  | dnsRestore es => exact h.of_same (dnsRestore_sameReal es w)
  | dnsClose => exact h.of_same ⟨rfl, rfl⟩
  | probeDone d ans =>
    show Bounded (probe w d ans)
    unfold probe
    have s1 := lookupReal_sameReal w d
    rcases hl : lookupReal w d with ⟨w1, known, real⟩
    rw [hl] at s1
    have h1 : Bounded w1 := h.of_same s1
    simp only []
    split
    · exact h1
    · split
      · exact h1
      · split
        · exact h1
        · split
          · exact h1.of_same ⟨rfl, rfl⟩
          · exact addVerified_bounded h1 d
  | probeStart d => exact h.of_same (lookupReal_sameReal w d)
  | negCleanup => exact h.of_same (w' := negCleanup w) ⟨rfl, rfl⟩
  | newGeneration m n =>
    show Bounded (newGeneration w m n)
    unfold Bounded newGeneration; simp
  | probeFinish d t0 ans =>
    show Bounded (probeFinish w d t0 ans)
    unfold probeFinish
    split
    · exact h
    · simp only []
      split
      · exact h
      · split
        · exact h.of_same ⟨rfl, rfl⟩
        · exact addVerified_bounded h d

theorem Bounded.run {w : World} (h : Bounded w) (es : List Event) : Bounded (run w es) := by
  induction es generalizing w with
  | nil => exact h
  | cons e es ih => rw [run_cons]; exact ih (h.step e)

/-! ## a name about which nothing is known -/

theorem Assoc.get_del_self {α} (m : Assoc α) (k : Str) : (m.del k).get k = none := by
  unfold Assoc.get Assoc.del
  have : (m.filter (fun x => decide (x.1 ≠ k))).find? (fun x => decide (x.1 = k)) = none := by
    rw [List.find?_eq_none]
    intro x hx
    have := (List.mem_filter.1 hx).2
    simpa using this
  rw [this]; rfl

/-- the lazy deletion `HasDnsKnowledge` performs on an expired entry -/
def dropExpiredKnow (w : World) (k : Str) : World :=
  match w.know.get k with
  | some e => if e ≤ w.now then { w with know := w.know.del k } else w
  | none => w

/-- the lazy deletion `lookupRealDomainCache` performs on an expired negative entry -/
def dropExpiredNeg (w : World) (d : Str) : World :=
  match w.neg.get d with
  | some e => if w.now < e then w else { w with neg := w.neg.del d }
  | none => w

theorem hasKnowledge_of_not_live (w : World) (k : Str) (hk : k ≠ [])
    (h : ∀ e, w.know.get k = some e → e ≤ w.now) :
    hasKnowledge w k = (dropExpiredKnow w k, false) := by
  unfold hasKnowledge dropExpiredKnow
  rw [if_neg hk]
  cases hg : w.know.get k with
  | none => rfl
  | some e => simp only [if_pos (h e hg)]

theorem lookupReal_of_unknown (w : World) (d : Str) (hrs : w.realSet.contains d = false)
    (h : ∀ e, w.neg.get d = some e → e ≤ w.now) :
    lookupReal w d = (dropExpiredNeg w d, false, false) := by
  unfold lookupReal dropExpiredNeg
  rw [if_neg (by rw [hrs]; simp)]
  cases hg : w.neg.get d with
  | none => rfl
  | some e =>
    have : ¬ w.now < e := by have := h e hg; omega
    simp only [if_neg this]

/-- the world `ChooseDialTarget` leaves behind for an unknown name: only the two lazy deletions. -/
def cleaned (w : World) (k d : Str) : World := dropExpiredNeg (dropExpiredKnow w k) d

theorem dropExpiredKnow_frame (w : World) (k : Str) :
    (dropExpiredKnow w k).mode = w.mode ∧ (dropExpiredKnow w k).now = w.now ∧
    (dropExpiredKnow w k).realSet = w.realSet ∧ (dropExpiredKnow w k).neg = w.neg ∧
    (dropExpiredKnow w k).cache = w.cache ∧ (dropExpiredKnow w k).realAdds = w.realAdds ∧
    (dropExpiredKnow w k).nboot = w.nboot := by
  unfold dropExpiredKnow
  cases w.know.get k with
  | none => exact ⟨rfl, rfl, rfl, rfl, rfl, rfl, rfl⟩
  | some e => simp only []; split <;> exact ⟨rfl, rfl, rfl, rfl, rfl, rfl, rfl⟩

theorem dropExpiredNeg_frame (w : World) (d : Str) :
    (dropExpiredNeg w d).mode = w.mode ∧ (dropExpiredNeg w d).now = w.now ∧
    (dropExpiredNeg w d).realSet = w.realSet ∧ (dropExpiredNeg w d).know = w.know ∧
    (dropExpiredNeg w d).cache = w.cache ∧ (dropExpiredNeg w d).realAdds = w.realAdds ∧
    (dropExpiredNeg w d).nboot = w.nboot := by
  unfold dropExpiredNeg
  cases w.neg.get d with
  | none => exact ⟨rfl, rfl, rfl, rfl, rfl, rfl, rfl⟩
  | some e => simp only []; split <;> exact ⟨rfl, rfl, rfl, rfl, rfl, rfl, rfl⟩

theorem dropExpiredKnow_get (w : World) (k : Str) (h : ∀ e, w.know.get k = some e → e ≤ w.now) :
    (dropExpiredKnow w k).know.get k = none := by
  unfold dropExpiredKnow
  cases hg : w.know.get k with
  | none => simp only []; exact hg
  | some e => simp only [if_pos (h e hg)]; exact Assoc.get_del_self _ _

theorem dropExpiredNeg_get (w : World) (d : Str) (h : ∀ e, w.neg.get d = some e → e ≤ w.now) :
    (dropExpiredNeg w d).neg.get d = none := by
  unfold dropExpiredNeg
  cases hg : w.neg.get d with
  | none => simp only []; exact hg
  | some e =>
    have : ¬ w.now < e := by have := h e hg; omega
    simp only [if_neg this]; exact Assoc.get_del_self _ _

/-- domain mode, user outbound, a name that is neither IP-like nor known in any of the three
caches: `decideMode` answers "IP, no re-route, start a probe for this name" and leaves the world
unchanged up to the two lazy deletions. -/
theorem decideMode_unknown (w : World) (ob : Nat) (dst : Dst) (d : Str)
    (hm : w.mode = .domain) (hr : isReserved ob = false) (hd : d ≠ []) (hi : isIPLike d = false)
    (hk : ∀ e, w.know.get (cacheKey d dst.is4) = some e → e ≤ w.now)
    (hrs : w.realSet.contains d = false)
    (hn : ∀ e, w.neg.get d = some e → e ≤ w.now) :
    decideMode w ob dst d = (cleaned w (cacheKey d dst.is4) d, false, false, some d) := by
  have ne : cacheKey d dst.is4 ≠ [] := by unfold cacheKey qtypeStr; cases dst.is4 <;> simp
  rw [decideMode_domain w ob dst d hm hr hd, hi]
  simp only [Bool.false_eq_true, if_false]
  rw [hasKnowledge_of_not_live w _ ne hk]
  simp only [Bool.false_eq_true, if_false]
  obtain ⟨_, f2, f3, f4, _⟩ := dropExpiredKnow_frame w (cacheKey d dst.is4)
  rw [lookupReal_of_unknown _ d (by rw [f3]; exact hrs) (by rw [f4, f2]; exact hn)]
  rfl

/-! ## well-keyed histories -/

/-- the FQDN `__updateDnsCacheDeadline` derives from its `host` argument -/
def fqdnOf (host : Str) : Str := if host.getLast? = some '.' then host.map lowerAscii else canonicalName host

theorem updateKey_eq (h : Str) (q : Nat) (key : Str) :
    updateKey h q key = if key = [] then cacheKeyQ (fqdnOf h) q else key := rfl

/-- the key an update is stored under belongs to the family of ITS OWN question (name, type). True
of every production caller (`ProductionKeyed`, `wellKeyed_of_production`). -/
def WellKeyed : Event → Prop
  | .dnsUpdate h q _ key => baseKeyOf (updateKey h q key) = cacheKeyQ (fqdnOf h) q
  | _ => True

theorem baseKeyOf_noBar {s : Str} (h : hasChar '|' s = false) : baseKeyOf s = s := by
  unfold baseKeyOf; rw [splitFirst_none h]

theorem baseKeyOf_scoped {a sc : Str} (h : hasChar '|' a = false) : baseKeyOf (a ++ '|' :: sc) = a := by
  unfold baseKeyOf; rw [splitFirst_append a sc h]

theorem cacheKeyQ_noBar (n : Str) (q : Nat) : hasChar '|' (cacheKeyQ n q) = false := by
  unfold cacheKeyQ
  rw [hasChar_append, escBar_noBar]
  have : hasChar '|' (itoa q) = false := by
    rw [hasChar_false_iff]
    intro c hc
    have := itoa_digits q c hc
    rintro rfl
    simp [Char.isDigit] at this
  simp [this]

/-- the two key shapes of the production callers (`__updateDnsCacheDeadline` with `""`,
`responseCacheKey(questionCacheKey(q), …)` = question key, optionally `|scope`): the key computed
from the event's own question, or that key followed by `|` and a scope. -/
def ProductionKeyed : Event → Prop
  | .dnsUpdate h q _ key => key = [] ∨ key = cacheKeyQ (fqdnOf h) q ∨ ∃ sc, key = cacheKeyQ (fqdnOf h) q ++ '|' :: sc
  | _ => True

theorem wellKeyed_of_production (e : Event) (hp : ProductionKeyed e) : WellKeyed e := by
  cases e with
  | dnsUpdate h q ttl key =>
    have hbar := cacheKeyQ_noBar (fqdnOf h) q
    show baseKeyOf (updateKey h q key) = cacheKeyQ (fqdnOf h) q
    rw [updateKey_eq]
    rcases hp with rfl | rfl | ⟨sc, rfl⟩
    · simp only [if_true]; exact baseKeyOf_noBar hbar
    · split
      · exact baseKeyOf_noBar hbar
      · exact baseKeyOf_noBar hbar
    · have : cacheKeyQ (fqdnOf h) q ++ '|' :: sc ≠ [] := by simp
      rw [if_neg this]; exact baseKeyOf_scoped hbar
  | _ => trivial

theorem mem_trace_event (w : World) (es : List Event) (x : World × Event) (h : x ∈ trace w es) : x.2 ∈ es := by
  induction es generalizing w with
  | nil => simp [trace] at h
  | cons e es ih =>
    simp only [trace, List.mem_cons] at h
    rcases h with rfl | h
    · simp
    · exact List.mem_cons_of_mem _ (ih _ h)

end DaeVerif.C18
