/-!
# C18 — the dial target follows `dial_mode`

Executable model (core-only) of

* `control.(*ControlPlane).ChooseDialTarget` (control/control_plane.go) with everything it calls:
  `isIPLikeDomain`, `lookupRealDomainCache`, `triggerRealDomainProbe`/`probeAndUpdateRealDomain`,
  `DnsController.cacheKey`/`HasDnsKnowledge` (control/dns_control.go), `OutboundIndex.IsReserved`;
* the knowledge bookkeeping `rememberDnsKnowledge` / `forgetDnsKnowledge` / `syncDnsKnowledgeLocked`
  as driven by `__updateDnsCacheDeadline` and `RemoveDnsRespCache`;
* the re-routing step of `chooseProxyDialer` (control/dial.go);
* `sniffing.NormalizeDomain` (component/sniffing/sniffing.go);
* the pieces of the Go standard library / miekg-dns the above are built from, modelled exactly on
  byte strings: `net.SplitHostPort`, `net.JoinHostPort`, `netip.ParseAddr` (success only, the value
  is discarded by the callers), `netip.AddrPort.String`, `strconv.Itoa`, `dns.CanonicalName`.

A Go `string` is a `List Char` whose characters are the bytes (code points 0..255).
-/
namespace DaeVerif.C18

abbrev Str := List Char

/-! ## byte-string helpers -/

/-- `strings.Cut(s, c)`: split at the FIRST occurrence of `c`. -/
def splitFirst (c : Char) : Str → Option (Str × Str)
  | [] => none
  | x :: xs =>
    if x = c then some ([], xs)
    else match splitFirst c xs with
      | some (a, b) => some (x :: a, b)
      | none => none

/-- split at the LAST occurrence of `c` (`LastIndexByte`): `(s[:i], s[i+1:])`. -/
def splitLast (c : Char) : Str → Option (Str × Str)
  | [] => none
  | x :: xs =>
    match splitLast c xs with
    | some (a, b) => some (x :: a, b)
    | none => if x = c then some ([], xs) else none

def hasChar (c : Char) (s : Str) : Bool := s.any (· == c)

/-- `strings.HasPrefix(s,"[") && strings.HasSuffix(s,"]")` then `s[1:len(s)-1]`. -/
def stripBrackets (s : Str) : Str :=
  if s.head? = some '[' ∧ s.getLast? = some ']' then (s.drop 1).dropLast else s

/-- `strconv.Itoa` of a non-negative number. -/
def itoa (n : Nat) : Str := Nat.toDigits 10 n

/-! ## `net.SplitHostPort` / `net.JoinHostPort` -/

/-- `net.SplitHostPort`, success case only (`none` = any of its errors). -/
def splitHostPort (hp : Str) : Option (Str × Str) :=
  match splitLast ':' hp with
  | none => none                                  -- missing port
  | some (pre, port) =>
    if hp.head? = some '[' then
      match splitFirst ']' hp with
      | none => none                              -- missing ']'
      | some (a, b) =>
        -- `end+1 == i`: the first ']' sits just before the last ':'
        if b.length = port.length + 1 then
          if hasChar '[' (hp.drop 1) then none    -- unexpected '['
          else if hasChar ']' b then none         -- unexpected ']'
          else some (a.drop 1, port)
        else none
    else
      if hasChar ':' pre then none                -- too many colons
      else if hasChar '[' hp then none
      else if hasChar ']' hp then none
      else some (pre, port)

/-- `net.JoinHostPort`. -/
def joinHostPort (host port : Str) : Str :=
  if hasChar ':' host then '[' :: host ++ ']' :: ':' :: port else host ++ ':' :: port

/-! ## `netip.ParseAddr` (success only) -/

def isDigit (c : Char) : Bool := '0' ≤ c && c ≤ '9'
def isHex (c : Char) : Bool := isDigit c || ('a' ≤ c && c ≤ 'f') || ('A' ≤ c && c ≤ 'F')

/-- the loop of `parseIPv4Fields`; `i0` = "this is index 0", `prevDot` = `s[i-1] == '.'`. -/
def v4Loop : Str → (val digLen pos : Nat) → (i0 prevDot : Bool) → Bool
  | [], _, _, pos, _, _ => decide (3 ≤ pos)       -- `pos < 3` → too short
  | c :: rest, val, digLen, pos, i0, prevDot =>
    if isDigit c then
      if digLen = 1 ∧ val = 0 then false          -- leading zero
      else
        let val' := val * 10 + (c.toNat - '0'.toNat)
        if val' > 255 then false else v4Loop rest val' (digLen + 1) pos false false
    else if c = '.' then
      if i0 || rest.isEmpty || prevDot then false -- field must have at least one digit
      else if pos = 3 then false                  -- too long
      else v4Loop rest 0 0 (pos + 1) false true
    else false

def parseV4Ok (s : Str) : Bool := v4Loop s 0 0 0 true false

/-- the main loop of `parseIPv6` after the zone and a leading `::` have been removed;
`i` = bytes filled, `ell` = an ellipsis has been seen. Returns success of the whole parse. -/
def v6Loop : Nat → Str → Nat → Bool → Bool
  | 0, _, _, _ => false                            -- unreachable (fuel)
  | fuel + 1, s, i, ell =>
    if 16 ≤ i then
      -- loop exits: must have used the entire string; `::` must expand to at least one group
      s.isEmpty && !ell
    else
      let hexes := s.takeWhile isHex
      if hexes.length > 4 then false               -- more than 4 digits in a group
      else if hexes.length = 0 then false          -- no digits
      else
        let rest := s.dropWhile isHex
        if rest.head? = some '.' then
          -- embedded IPv4 at the end
          if !ell && i != 12 then false
          else if i + 4 > 16 then false
          else if !parseV4Ok s then false
          else
            -- s = "", i += 4, break
            if i + 4 < 16 then ell else !ell
        else
          let i := i + 2
          match rest with
          | [] => if i < 16 then ell else !ell    -- stop at end of string
          | c :: rest1 =>
            if c ≠ ':' then false                  -- want colon
            else match rest1 with
              | [] => false                        -- colon must be followed by more
              | c1 :: rest2 =>
                if c1 = ':' then
                  if ell then false                -- multiple ::
                  else match rest2 with
                    | [] => if i < 16 then true else false  -- `::` at end
                    | _ => v6Loop fuel rest2 i true
                else v6Loop fuel rest1 i ell

def parseV6Ok (inp : Str) : Bool :=
  let sz : Option Str :=
    match splitFirst '%' inp with
    | none => some inp
    | some (a, zone) => if zone.isEmpty then none else some a
  match sz with
  | none => false
  | some s =>
    match s with
    | ':' :: ':' :: r => if r.isEmpty then true else v6Loop 10 r 0 true
    | _ => v6Loop 10 s 0 false

/-- `netip.ParseAddr(s)` returns no error. The dispatch is on the first of `.`, `:`, `%`. -/
def parseAddrOk (s : Str) : Bool :=
  match s.find? (fun c => c = '.' ∨ c = ':' ∨ c = '%') with
  | some '.' => parseV4Ok s
  | some ':' => parseV6Ok s
  | _ => false

/-! ## `netip.AddrPort.String` -/

/-- A destination as `netip.AddrPort`: `is4` = `Addr().Is4()`; `addr` = the big-endian value of the
4 (`is4`) or 16 address bytes; no zone (destinations come from packet headers). -/
structure Dst where
  is4 : Bool
  addr : Nat
  port : Nat
deriving DecidableEq, Repr, Inhabited

def Dst.WF (d : Dst) : Prop := d.port < 65536 ∧ (if d.is4 then d.addr < 2 ^ 32 else d.addr < 2 ^ 128)

def intercal (sep : Str) : List Str → Str
  | [] => []
  | [a] => a
  | a :: b :: r => a ++ sep ++ intercal sep (b :: r)

/-- `appendTo4` of the low 32 bits. -/
def fmtV4 (a : Nat) : Str :=
  intercal ['.'] [itoa (a / 2 ^ 24 % 256), itoa (a / 2 ^ 16 % 256), itoa (a / 2 ^ 8 % 256), itoa (a % 256)]

/-- `appendHex`. -/
def hex16 (x : Nat) : Str :=
  (if x ≥ 0x1000 then [Nat.digitChar (x / 0x1000 % 16)] else []) ++
  (if x ≥ 0x100 then [Nat.digitChar (x / 0x100 % 16)] else []) ++
  (if x ≥ 0x10 then [Nat.digitChar (x / 0x10 % 16)] else []) ++
  [Nat.digitChar (x % 16)]

def groups16 (a : Nat) : List Nat := (List.range 8).map fun i => a / 2 ^ (16 * (7 - i)) % 65536

/-- first loop of `appendTo6`: the longest run (length ≥ 2, leftmost wins) of zero groups. -/
def bestZeroRun (g : List Nat) : Option (Nat × Nat) :=
  (List.range g.length).foldl (fun best i =>
    let l := ((g.drop i).takeWhile (· == 0)).length
    let cur := match best with | none => 0 | some (s, e) => e - s
    if l ≥ 2 ∧ l > cur then some (i, i + l) else best) none

/-- `appendTo6` without zone. -/
def fmtV6 (a : Nat) : Str :=
  let g := groups16 a
  match bestZeroRun g with
  | none => intercal [':'] (g.map hex16)
  | some (s, e) => intercal [':'] ((g.take s).map hex16) ++ [':', ':'] ++ intercal [':'] ((g.drop e).map hex16)

def is4In6 (a : Nat) : Bool := a / 2 ^ 32 == 0xffff

/-- `netip.AddrPort.String()`. -/
def fmtAddrPort (d : Dst) : Str :=
  if d.is4 then fmtV4 d.addr ++ ':' :: itoa d.port
  else if is4In6 d.addr then "[::ffff:".toList ++ fmtV4 (d.addr % 2 ^ 32) ++ ']' :: ':' :: itoa d.port
  else '[' :: fmtV6 d.addr ++ ']' :: ':' :: itoa d.port

/-! ## `dns.CanonicalName`, `DnsController.cacheKey` -/

def lowerAscii (c : Char) : Char := if 'A' ≤ c ∧ c ≤ 'Z' then Char.ofNat (c.toNat + 32) else c

/-- `dns.IsFqdn` (bytes < 0x80): a trailing dot that is not escaped by an odd number of `\`. -/
def isFqdn (s : Str) : Bool :=
  if s.getLast? = some '.' then
    let t := s.dropLast
    if t.getLast? = some '\\' then
      ((t.reverse.takeWhile (· == '\\')).length + 1) % 2 != 0
    else true
  else false

def canonicalName (s : Str) : Str := (if isFqdn s then s else s ++ ['.']).map lowerAscii

/-- `common.AddrToDnsType`: A for `Is4()`, AAAA otherwise (an IPv4-mapped destination asks AAAA). -/
def qtypeStr (is4 : Bool) : Str := if is4 then ['1'] else ['2', '8']

/-- `cacheKey` spells a `|` of the name as `\124` (the presentation-format escape of that byte; fix
`4e63a53`): `|` separates the question part of a key from the response scope (`baseKeyOf`). -/
def escBar (s : Str) : Str := s.flatMap fun c => if c = '|' then ['\\', '1', '2', '4'] else [c]

def cacheKey (name : Str) (is4 : Bool) : Str := escBar (canonicalName name) ++ qtypeStr is4

/-- `DnsController.cacheKey(qname, qtype)` for an arbitrary query type (decimal type number;
`cacheKeyQ n 1 = cacheKey n true`, `cacheKeyQ n 28 = cacheKey n false`). -/
def cacheKeyQ (name : Str) (qtype : Nat) : Str := escBar (canonicalName name) ++ itoa qtype

/-- `dnsCacheBaseKey`: the part before the first `|`. -/
def baseKeyOf (ck : Str) : Str := match splitFirst '|' ck with | some (a, _) => a | none => ck

/-! ## `sniffing.NormalizeDomain` (ASCII input) -/

def isAsciiSpace (c : Char) : Bool :=
  c = ' ' || c = '\t' || c = '\n' || c = '\x0b' || c = '\x0c' || c = '\r'

def trimSpace (s : Str) : Str := ((s.dropWhile isAsciiSpace).reverse.dropWhile isAsciiSpace).reverse

def isBracket (c : Char) : Bool := c = '[' || c = ']'

/-- `strings.Trim(s, "[]")`. -/
def trimBrackets (s : Str) : Str := ((s.dropWhile isBracket).reverse.dropWhile isBracket).reverse

def normalizeDomain (raw : Str) : Str :=
  let host := (trimSpace raw).map lowerAscii
  if host.getLast? = some ']' then trimBrackets host
  else match splitHostPort host with
    | some (h, _) => h
    | none => if host.getLast? = some '.' then host.dropLast else host

/-! ## the control plane state that `ChooseDialTarget` reads -/

inductive Mode | ip | domain | domainPlus | domainCao
deriving DecidableEq, Repr, Inhabited

/-- `consts.ParseDialMode` applied to `global.dial_mode` (config default `"domain"` when the key is
absent); `none` = the control plane refuses to start. -/
def parseDialMode (v : Option Str) : Option Mode :=
  let s := match v with | none => "domain".toList | some s => s
  if s = "ip".toList then some .ip
  else if s = "domain".toList then some .domain
  else if s = "domain+".toList then some .domainPlus
  else if s = "domain++".toList then some .domainCao
  else none

/-- `OutboundIndex.IsReserved`: `String()` is not of the form `<index: n>`. -/
def isReserved (ob : Nat) : Bool :=
  ob == 0 || ob == 1 || ob == 0xFC || ob == 0xFD || ob == 0xFE || ob == 0xFF

def outboundControlPlaneRouting : Nat := 0xFD

abbrev Assoc (α : Type) := List (Str × α)

def Assoc.get {α} (m : Assoc α) (k : Str) : Option α := (m.find? (·.1 = k)).map (·.2)
def Assoc.del {α} (m : Assoc α) (k : Str) : Assoc α := m.filter (·.1 ≠ k)
def Assoc.put {α} (m : Assoc α) (k : Str) (v : α) : Assoc α := (k, v) :: m.del k

/-- Times are nanoseconds relative to an arbitrary origin (only comparisons are used by the code;
the one absolute test, `maxExpiresAt == 0` in `syncDnsKnowledgeLocked`, means "no live entry"). -/
structure World where
  mode : Mode := .ip
  now : Int := 0
  /-- `len(c.bootstrapResolvers)` -/
  nboot : Nat := 1
  /-- `realDomainNegativeCacheTTL` in ns (a tunable of the code, not of the property: the driver
  takes the running code's value from the `reset` line) -/
  negTtl : Int := 10000000000
  /-- `minFirefoxCacheTtl` in s (likewise) -/
  minTtl : Nat := 120
  /-- `dnsCache`: cache key ↦ `OriginalDeadline` -/
  cache : Assoc Int := []
  /-- `dnsKnowledge`: base key ↦ expiresAt -/
  know : Assoc Int := []
  /-- `realDomainSet`: the names added since the filter was last cleared (the Bloom filter is
  modelled as an exact set; within its design capacity its false-positive rate is ≤ 0.001) -/
  realSet : List Str := []
  /-- `realDomainSetAdds` -/
  realAdds : Nat := 0
  /-- `realDomainNegSet` -/
  neg : Assoc Int := []
deriving Repr, Inhabited

/-! ### DNS knowledge -/

/-- `rememberDnsKnowledge` (the deadline is never the zero `time.Time` here). -/
def remember (w : World) (baseKey : Str) (expiresAt : Int) : World :=
  if baseKey = [] then w else
  match w.know.get baseKey with
  | none => { w with know := w.know.put baseKey expiresAt }
  | some cur => if cur < expiresAt then { w with know := w.know.put baseKey expiresAt } else w

/-- `syncDnsKnowledgeLocked`: recompute from the live cache entries of the family. -/
def syncKnow (w : World) (baseKey : Str) : World :=
  let live := (w.cache.filter fun e => baseKeyOf e.1 = baseKey ∧ e.2 > w.now).map (·.2)
  match live with
  | [] => { w with know := w.know.del baseKey }
  | x :: xs => { w with know := w.know.put baseKey (xs.foldl max x) }

/-- `forgetDnsKnowledge(cacheKey, cache)` after the entry has been removed from `dnsCache`. -/
def forget (w : World) (ck : Str) (deletedExpiresAt : Int) : World :=
  let bk := baseKeyOf ck
  if bk = [] then w else
  match w.know.get bk with
  | none => w
  | some cur => if deletedExpiresAt < cur then w else syncKnow w bk

/-- `HasDnsKnowledge` (with its lazy deletion of an expired entry). -/
def hasKnowledge (w : World) (baseKey : Str) : World × Bool :=
  if baseKey = [] then (w, false) else
  match w.know.get baseKey with
  | none => (w, false)
  | some e => if e ≤ w.now then ({ w with know := w.know.del baseKey }, false) else (w, true)

/-- `__updateDnsCacheDeadline(cacheKey, host, qtype, …)` with `originalDeadline = now + ttl`
(`UpdateDnsCacheTtl[WithKey]`, no fixed-TTL override). `key = ""` is `UpdateDnsCacheTtl` (the key is
computed); production passes scoped keys `cacheKey(qname, qtype) ++ "|" ++ scope`
(`responseCacheKey`). Returns `false` for the "pure IP" bypass. -/
def updateKey (host : Str) (qtype : Nat) (key : Str) : Str :=
  let fqdn := if host.getLast? = some '.' then host.map lowerAscii else canonicalName host
  if key = [] then cacheKeyQ fqdn qtype else key

def dnsUpdate (w : World) (host : Str) (qtype : Nat) (ttlNs : Int) (key : Str) : World × Bool :=
  let host' := if host.getLast? = some '.' then host.dropLast else host
  if parseAddrOk host' then (w, false) else
  let ck := updateKey host qtype key
  let od := w.now + ttlNs
  let w1 := { w with cache := w.cache.put ck od }
  (remember w1 (baseKeyOf ck) od, true)

/-- where an injected failure hits `__updateDnsCacheDeadline` -/
inductive DnsFault
  | none
  /-- the `NewCache` hook returns an error: before anything is stored -/
  | newCache
  /-- the cache-access callback (production: `BatchUpdateDomainRouting`, a kernel map batch update)
  returns an error: AFTER the entry was stored and its knowledge remembered -/
  | accessCallback
deriving DecidableEq, Repr

/-- `__updateDnsCacheDeadline` with a failing hook: `(world, stored?, error returned?)`. The "pure IP"
bypass returns before either hook runs. -/
def dnsUpdateF (w : World) (host : Str) (qtype : Nat) (ttlNs : Int) (key : Str) (f : DnsFault) :
    World × Bool × Bool :=
  let r := dnsUpdate w host qtype ttlNs key
  if !r.2 then (w, false, false)
  else match f with
    | .none => (r.1, true, false)
    | .newCache => (w, false, true)
    | .accessCallback => (r.1, true, true)

/-- `RemoveDnsRespCache(cacheKey)`. -/
def dnsRemove (w : World) (ck : Str) : World :=
  match w.cache.get ck with
  | none => w
  | some od => forget { w with cache := w.cache.del ck } ck od

/-- `evictDnsRespCacheIfSame(cacheKey, cache)` (janitor / LRU eviction of the entry currently
stored under the key): the same delete-then-forget as `RemoveDnsRespCache`. -/
def dnsEvict (w : World) (ck : Str) : World := dnsRemove w ck

/-- `RemoveDnsRespCacheFamily(baseKey)` (a DNS answer rejected by response routing): every entry of
the family is deleted, then `syncDnsKnowledge(baseKey)`. -/
def dnsRemoveFamily (w : World) (bk : Str) : World :=
  if bk = [] then w else
  syncKnow { w with cache := w.cache.filter fun e => baseKeyOf e.1 ≠ bk } bk

/-- `RestoreReloadCache(entries, …)`: every carried-over entry is stored and remembered with its
ORIGINAL deadline. -/
def dnsRestore (w : World) : List (Str × Int) → World
  | [] => w
  | (ck, od) :: rest => dnsRestore (remember { w with cache := w.cache.put ck od } (baseKeyOf ck) od) rest

/-- `DnsController.Close` (store teardown): cache and knowledge are emptied. -/
def dnsClose (w : World) : World := { w with cache := [], know := [] }

/-- `NormalizeAndCacheDnsResp_(msg, key)`: only a response with a question and rcode NOERROR is
cached — with the TTL of its shortest-lived answer record (fix `2726f40`), or `minFirefoxCacheTtl` (`w.minTtl`) for an EMPTY answer section
(NODATA counts as a resolution), clamped to one year. -/
def dnsResp (w : World) (isResponse hasQuestion rcodeOk : Bool) (qname : Str) (qtype : Nat)
    (answerTtls : List Nat) (key : Str) : World × Bool :=
  if !isResponse || !hasQuestion || !rcodeOk then (w, false) else
  let ttl : Nat := match answerTtls with | t :: ts => ts.foldl min t | [] => w.minTtl
  let ttl : Nat := if ttl > 31536000 then 31536000 else ttl
  dnsUpdate w qname qtype ((ttl : Int) * 1000000000) key

/-! ### real-domain caches and the probe -/

/-- `realDomainSetCapacity`: the filter is cleared before it takes more names than it is sized for. -/
def realCap : Nat := 2048

/-- `lookupRealDomainCache` → `(known, real)`; deletes an expired negative entry. -/
def lookupReal (w : World) (d : Str) : World × Bool × Bool :=
  if w.realSet.contains d then (w, true, true) else
  match w.neg.get d with
  | some e => if w.now < e then (w, true, false) else ({ w with neg := w.neg.del d }, false, false)
  | none => (w, false, false)

/-- `isIPLikeDomain`. -/
def isIPLike (d : Str) : Bool :=
  if d = [] then false else
  let d1 := stripBrackets d
  if parseAddrOk d1 then true else
  match splitHostPort d1 with
  | some (h, _) => parseAddrOk (stripBrackets h)
  | none => false

/-- What one bootstrap resolver answered to the probe: valid A / AAAA, and the two errors. -/
structure Ans where
  ip4 : Bool
  ip6 : Bool
  err4 : Bool
  err6 : Bool
deriving DecidableEq, Repr, Inhabited

/-- `resolveIp46WithBootstrapResolvers` (non-empty resolver list), reduced to what the probe reads. -/
def resolveAll : List Ans → (lastNoRec : Option Ans) → Ans
  | [], some nr => { ip4 := false, ip6 := false, err4 := nr.err4, err6 := nr.err6 }
  | [], none => { ip4 := false, ip6 := false, err4 := true, err6 := true }
  | a :: rest, nr =>
    if a.ip4 || a.ip6 then a
    else if !a.err4 || !a.err6 then resolveAll rest (some a)
    else resolveAll rest nr

/-- the positive outcome of a probe: `ClearAll()` first when the filter has taken
`realDomainSetCapacity` names (every earlier name is dropped and will be probed again), then add. -/
def addVerified (w : World) (d : Str) : World :=
  if w.realAdds ≥ realCap then { w with realSet := [d], realAdds := 1, neg := w.neg.del d }
  else { w with realSet := d :: w.realSet, realAdds := w.realAdds + 1, neg := w.neg.del d }

/-- `probeAndUpdateRealDomain(domain)`; `answers` has one entry per bootstrap resolver. -/
def probe (w : World) (d : Str) (answers : List Ans) : World :=
  let (w, known, _) := lookupReal w d
  if known then w
  else if w.nboot = 0 then w                       -- fail closed
  else
    let r := resolveAll (answers.take w.nboot) none
    if r.err4 && r.err6 then w                     -- probe failed for both families
    else if !r.ip4 && !r.ip6 then { w with neg := w.neg.put d (w.now + w.negTtl) }
    else addVerified w d

/-- The part of `probeAndUpdateRealDomain` that runs AFTER the bootstrap resolvers answered (the
function blocks in `resolveIp46WithBootstrapResolvers` for up to `realDomainProbeTimeout`; anything can
happen in between): `start` is the `now := time.Now()` taken before the lookups — a negative entry
is stamped from it, not from the completion time — and there is no second look at the caches. -/
def probeFinish (w : World) (d : Str) (start : Int) (answers : List Ans) : World :=
  if w.nboot = 0 then w
  else
    let r := resolveAll (answers.take w.nboot) none
    if r.err4 && r.err6 then w
    else if !r.ip4 && !r.ip6 then { w with neg := w.neg.put d (start + w.negTtl) }
    else addVerified w d

/-- `cleanupNegativeCaches` (datapath janitor tick), step 1: expired negative entries are dropped. -/
def negCleanup (w : World) : World := { w with neg := w.neg.filter fun e => w.now < e.2 }

/-- A reload builds a new `ControlPlane` generation: fresh (empty) verified-name filter and negative
set, dial mode and bootstrap resolvers from the new configuration. What happens to the DNS cache is a
separate step (`dnsClose`+`dnsRestore` when a new controller restores the cloned cache; nothing when
the store is shared through `ReuseForReload`). -/
def newGeneration (w : World) (m : Mode) (nboot : Nat) : World :=
  { w with mode := m, nboot := nboot, realSet := [], realAdds := 0, neg := [] }

/-- how many times the probe calls `resolveIp46ForRealDomainProbe` (observable in the harness). -/
def probeCalls (w : World) (answers : List Ans) : Nat :=
  if w.nboot = 0 then 0 else
  let as := answers.take w.nboot
  match as.findIdx? (fun a => a.ip4 || a.ip6) with
  | some i => i + 1
  | none => as.length

/-! ### `ChooseDialTarget` -/

structure Choice where
  target : Str
  reroute : Bool
  dialIp : Bool
  /-- `triggerRealDomainProbe` started an asynchronous probe for this name -/
  probeReq : Option Str := none
deriving DecidableEq, Repr, Inhabited

/-- the first `switch`: does the name branch apply (`dialMode = Domain`), should the flow be
re-routed, and was a probe requested. -/
def decideMode (w : World) (ob : Nat) (dst : Dst) (d : Str) : World × Bool × Bool × Option Str :=
  if !isReserved ob && d ≠ [] then
    match w.mode with
    | .ip => (w, false, false, none)
    | .domain =>
      if isIPLike d then (w, false, false, none)
      else
        let (w, k) := hasKnowledge w (cacheKey d dst.is4)
        if k then (w, true, true, none)
        else
          let (w, known, real) := lookupReal w d
          if known then (if real then (w, true, true, none) else (w, false, false, none))
          else
            -- triggerRealDomainProbe: d ≠ "", not IP-like, not known (second lookup sees the same)
            (w, false, false, some d)
    | .domainCao => (w, true, true, none)
    | .domainPlus => (w, true, false, none)
  else (w, false, false, none)

/-- the second `switch`, `case DialMode_Domain`: the target built from the sniffed value. -/
def nameTarget (d : Str) (port : Nat) : Str × Bool :=
  let d := stripBrackets d
  if parseAddrOk d then (joinHostPort d (itoa port), true)
  else if (splitHostPort d).isSome then (d, false)
  else (joinHostPort d (itoa port), false)

def chooseDialTarget (w : World) (ob : Nat) (dst : Dst) (d : Str) : World × Choice :=
  let (w, useName, reroute, pr) := decideMode w ob dst d
  if useName then
    let (t, ip) := nameTarget d dst.port
    (w, { target := t, reroute := reroute, dialIp := ip, probeReq := pr })
  else
    (w, { target := fmtAddrPort dst, reroute := reroute, dialIp := true, probeReq := pr })

/-! ### `chooseProxyDialer` up to the choice of outbound and target -/

structure DialOut where
  /-- `none` = the function returned an error before selecting a dialer -/
  outbound : Option Nat
  target : Str
  dialIp : Bool
  probeReq : Option Str
deriving DecidableEq, Repr, Inhabited

/-- `route name` stands for `c.Route(src, dst, name, proto, routingResult)` with everything but
the name fixed (`none` = error); `nOut` = `len(c.outbounds)`. -/
def chooseProxyDialer (w : World) (ob : Nat) (dst : Dst) (d : Str) (route : Str → Option Nat)
    (nOut : Nat) : World × DialOut :=
  let (w, c1) := chooseDialTarget w ob dst d
  let ob1 := if c1.reroute then outboundControlPlaneRouting else ob
  let fin (w : World) (ob : Nat) (c : Choice) (pr : Option Str) : World × DialOut :=
    if ob ≥ nOut then (w, { outbound := none, target := [], dialIp := false, probeReq := pr })
    else (w, { outbound := some ob, target := c.target, dialIp := c.dialIp, probeReq := pr })
  if ob1 = outboundControlPlaneRouting then
    match route d with
    | none => (w, { outbound := none, target := [], dialIp := false, probeReq := c1.probeReq })
    | some ob2 =>
      let (w, c2) := chooseDialTarget w ob2 dst d
      fin w ob2 c2 (c1.probeReq <|> c2.probeReq)
  else fin w ob1 c1 c1.probeReq

/-- `routeDial`: at most two attempts. `failFirst` = the node dialer failed the first dial with an
error for which `shouldForceMarkUnavailableOnProxyDialError` holds (the dialer is then marked
unavailable and `chooseProxyDialer` runs again with the SAME parameters). `settle` is what happens
between the attempts (the asynchronous probe completing). Returns the dials made, in order. -/
def routeDial (w : World) (ob : Nat) (dst : Dst) (d : Str) (route : Str → Option Nat) (nOut : Nat)
    (failFirst : Bool) (settle : World → Option Str → World) : World × List DialOut :=
  let (w1, o1) := chooseProxyDialer w ob dst d route nOut
  let w1 := settle w1 o1.probeReq
  if o1.outbound.isNone || !failFirst then (w1, [o1])
  else
    let (w2, o2) := chooseProxyDialer w1 ob dst d route nOut
    (settle w2 o2.probeReq, [o1, o2])

/-! ### events (for the history theorems and the stateful driver) -/

inductive Event
  | setMode (m : Mode)
  | setBoot (n : Nat)
  | advance (ns : Nat)
  | dnsUpdate (host : Str) (qtype : Nat) (ttlNs : Int) (key : Str)
  | dnsRemove (ck : Str)
  | dnsRemoveFamily (bk : Str)
  | dnsRestore (entries : List (Str × Int))
  | dnsClose
  | hasKnow (name : Str) (is4 : Bool)
  | choose (ob : Nat) (dst : Dst) (d : Str)
  | probeDone (d : Str) (answers : List Ans)
  /-- the probe goroutine up to its resolver call (`lookupRealDomainCache` at its start) -/
  | probeStart (d : Str)
  /-- … and its completion, any number of events later -/
  | probeFinish (d : Str) (start : Int) (answers : List Ans)
  | negCleanup
  | newGeneration (m : Mode) (nboot : Nat)
deriving Repr

def step (w : World) : Event → World
  | .setMode m => { w with mode := m }
  | .setBoot n => { w with nboot := n }
  | .advance ns => { w with now := w.now + ns }
  | .dnsUpdate h q ttl sc => (dnsUpdate w h q ttl sc).1
  | .dnsRemove ck => dnsRemove w ck
  | .dnsRemoveFamily bk => dnsRemoveFamily w bk
  | .dnsRestore es => dnsRestore w es
  | .dnsClose => dnsClose w
  | .hasKnow n is4 => (hasKnowledge w (cacheKey n is4)).1
  | .choose ob dst d => (chooseDialTarget w ob dst d).1
  | .probeDone d a => probe w d a
  | .probeStart d => (lookupReal w d).1
  | .probeFinish d t0 a => probeFinish w d t0 a
  | .negCleanup => negCleanup w
  | .newGeneration m n => newGeneration w m n

def run (w : World) (es : List Event) : World := es.foldl step w

/-! ### the asynchronous probe as a transition system

`triggerRealDomainProbe` starts a goroutine that goes through `singleflight.Do(name, …)`; the probe
then blocks in the resolvers while connections, DNS answers, janitor ticks and reloads go on.
`Sys.pending` = the probes blocked in their resolver call, with the `now` each took at its start. -/

structure Sys where
  w : World := {}
  pending : List (Str × Int) := []
deriving Repr, Inhabited

/-- the probe goroutine up to the resolver call. A name already in flight joins that call
(singleflight); a name the caches know by now, or a generation without bootstrap resolver, ends the
probe at once. -/
def Sys.start (s : Sys) (d : Str) : Sys :=
  if s.pending.any (·.1 = d) then s
  else
    let (w1, known, _) := lookupReal s.w d
    if known then { s with w := w1 }
    else if w1.nboot = 0 then { s with w := w1 }
    else { w := w1, pending := s.pending ++ [(d, w1.now)] }

/-- the resolvers of the probe of `d` answered. -/
def Sys.finish (s : Sys) (d : Str) (answers : List Ans) : Sys :=
  match s.pending.find? (·.1 = d) with
  | none => s
  | some (_, t0) => { w := probeFinish s.w d t0 answers, pending := s.pending.filter (·.1 ≠ d) }

/-- the generation's context is cancelled (reload / shutdown): every resolver call in flight fails
for both families, which changes nothing. -/
def Sys.cancelAll (s : Sys) : Sys := { s with pending := [] }

/-- `ChooseDialTarget` followed by the goroutine it may have started. -/
def Sys.choose (s : Sys) (ob : Nat) (dst : Dst) (d : Str) : Sys × Choice :=
  let (w1, c) := chooseDialTarget s.w ob dst d
  match c.probeReq with
  | none => ({ s with w := w1 }, c)
  | some n => (Sys.start { s with w := w1 } n, c)

/-- what can happen to the system, in any order -/
inductive SysEv
  | choose (ob : Nat) (dst : Dst) (d : Str)
  | finish (d : Str) (answers : List Ans)
  | cancelAll
  /-- anything else: DNS traffic, janitors, clock, reload … -/
  | world (e : Event)
deriving Repr

def Sys.step (s : Sys) : SysEv → Sys
  | .choose ob dst d => (s.choose ob dst d).1
  | .finish d a => s.finish d a
  | .cancelAll => s.cancelAll
  | .world e => { s with w := DaeVerif.C18.step s.w e }

def Sys.run (s : Sys) (es : List SysEv) : Sys := es.foldl Sys.step s

end DaeVerif.C18
