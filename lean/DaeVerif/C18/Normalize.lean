import DaeVerif.C18.Proofs
/-! `NormalizeDomain` on every bracket-free input: no port is left, and the target built from the
normalised value is `JoinHostPort(value, destination port)`. -/
namespace DaeVerif.C18

/-- on bracket-free strings `SplitHostPort` is: split at the last colon, reject if the host part
has another colon. -/
theorem splitHostPort_noBr {s : Str} (hb : NoBr s) :
    splitHostPort s =
      match splitLast ':' s with
      | none => none
      | some (pre, port) => if hasChar ':' pre then none else some (pre, port) := by
  have hd : s.head? ≠ some '[' := by
    intro e
    cases s with
    | nil => simp at e
    | cons x s => simp at e; subst e; have := hb.1; simp at this
  unfold splitHostPort
  cases hs : splitLast ':' s with
  | none => rfl
  | some p =>
    rcases p with ⟨pre, port⟩
    simp only [if_neg hd, hb.1, hb.2]
    cases hasChar ':' pre <;> simp

theorem splitLast_snoc_ne {c x : Char} (hx : x ≠ c) : ∀ t : Str,
    splitLast c (t ++ [x]) = (splitLast c t).map (fun p => (p.1, p.2 ++ [x]))
  | [] => by simp [splitLast, hx]
  | y :: t => by
    have ih := splitLast_snoc_ne hx t
    simp only [List.cons_append, splitLast, ih]
    cases splitLast c t with
    | none => by_cases hy : y = c <;> simp [hy]
    | some p => simp

/-- dropping a trailing dot does not change whether a bracket-free string has a port. -/
theorem splitHostPort_dropDot {t : Str} (hb : NoBr (t ++ ['.'])) (h : splitHostPort (t ++ ['.']) = none) :
    splitHostPort t = none := by
  have hbt : NoBr t := by
    have h1 := hb.1; have h2 := hb.2
    simp at h1 h2
    exact ⟨h1, h2⟩
  rw [splitHostPort_noBr hb, splitLast_snoc_ne (by decide : '.' ≠ ':')] at h
  rw [splitHostPort_noBr hbt]
  cases hs : splitLast ':' t with
  | none => rfl
  | some p =>
    rcases p with ⟨pre, port⟩
    rw [hs] at h
    simp only [Option.map_some] at h
    cases hc : hasChar ':' pre with
    | true => simp [hc]
    | false => simp [hc] at h

theorem noBr_of_subset {a b : Str} (hb : NoBr b) (h : ∀ c, c ∈ a → c ∈ b) : NoBr a :=
  noBr_of_forall fun c hc =>
    ⟨(hasChar_false_iff _ _).1 hb.1 c (h c hc), (hasChar_false_iff _ _).1 hb.2 c (h c hc)⟩

/-- **After `NormalizeDomain` no port and no bracket is left**, for every raw value that is
bracket-free once trimmed and lower-cased. -/
theorem normalize_leaves_no_port {raw : Str} (hb : NoBr (preNorm raw)) :
    splitHostPort (normalizeDomain raw) = none ∧ NoBr (normalizeDomain raw) := by
  have hl : (preNorm raw).getLast? ≠ some ']' := getLast?_ne_of_hasChar hb.2
  rw [normalizeDomain_eq, if_neg hl]
  cases hs : splitHostPort (preNorm raw) with
  | some p =>
    rcases p with ⟨h, q⟩
    simp only []
    rw [splitHostPort_noBr hb] at hs
    cases hl2 : splitLast ':' (preNorm raw) with
    | none => rw [hl2] at hs; simp at hs
    | some p2 =>
      rcases p2 with ⟨pre, port⟩
      rw [hl2] at hs
      cases hc : hasChar ':' pre with
      | true => simp [hc] at hs
      | false =>
        simp [hc] at hs
        obtain ⟨rfl, rfl⟩ := hs
        obtain ⟨e, _⟩ := splitLast_some hl2
        have hbp : NoBr pre := noBr_of_subset hb (fun c hc => by rw [e]; simp [hc])
        refine ⟨?_, hbp⟩
        rw [splitHostPort_noBr hbp, splitLast_none hc]
  | none =>
    simp only []
    split
    · rename_i hdot
      obtain ⟨t, ht⟩ := List.getLast?_eq_some_iff.1 hdot
      rw [ht] at hb hs ⊢
      simp only [List.dropLast_concat]
      have hbt : NoBr t := noBr_of_subset hb (fun c hc => by simp [hc])
      exact ⟨splitHostPort_dropDot hb hs, hbt⟩
    · exact ⟨hs, hb⟩

/-- the target built from a sniffer-normalised, bracket-free value: `JoinHostPort(value, port)`,
an IP dial exactly for literals, and it splits back into (value, port). -/
theorem normalized_target {raw : Str} (p : Nat) (hb : NoBr (preNorm raw)) :
    nameTarget (normalizeDomain raw) p =
      (joinHostPort (normalizeDomain raw) (itoa p), parseAddrOk (normalizeDomain raw)) ∧
    splitHostPort (nameTarget (normalizeDomain raw) p).1 = some (normalizeDomain raw, itoa p) := by
  obtain ⟨hs, hn⟩ := normalize_leaves_no_port hb
  have sb : stripBrackets (normalizeDomain raw) = normalizeDomain raw := stripBrackets_of_no_open hn.1
  have e : nameTarget (normalizeDomain raw) p =
      (joinHostPort (normalizeDomain raw) (itoa p), parseAddrOk (normalizeDomain raw)) := by
    unfold nameTarget
    simp only [sb, hs]
    cases parseAddrOk (normalizeDomain raw) <;> simp
  have pp := itoa_plain p
  exact ⟨e, by rw [e]; exact joinHostPort_wellFormed _ _ hn.1 hn.2 pp.1 pp.2.1 pp.2.2⟩

end DaeVerif.C18
