import DaeVerif.C18.Proofs
namespace DaeVerif.C18.Props
theorem placeholder : True := trivial
end DaeVerif.C18.Props
