import DaeVerif.C18.Proofs
import DaeVerif.C18.History
import DaeVerif.C18.Names
/-!
# C18 — property theorems

"For every proxied connection the address sent to the proxy node is the original destination IP and
port when dial_mode is ip, when no name was sniffed, or when the outbound is a built-in one; in
domain mode it is the sniffed name only if that name is known to be genuine (resolved through dae or
verified), otherwise the IP; in domain+ it is the sniffed name unconditionally, and in domain++
additionally the flow is routed again using that name. A sniffed value that is an IP literal (with
or without brackets) or already carries a port is normalised and never produces a malformed target."

All theorems are about the definitions of `Model.lean` that the driver `c18drv` executes.
-/
namespace DaeVerif.C18.Props
open DaeVerif.C18

/-! ## row 1: ip mode, no name, built-in outbound -/

theorem ip_target_when_ip_mode_or_no_name_or_reserved (w : World) (ob : Nat) (dst : Dst) (d : Str)
    (h : w.mode = .ip ∨ d = [] ∨ isReserved ob = true) :
    chooseDialTarget w ob dst d =
      (w, { target := fmtAddrPort dst, reroute := false, dialIp := true, probeReq := none }) := by
  rw [chooseDialTarget_eq, decideMode_ip w ob dst d h]
  rfl

example : (chooseDialTarget { mode := .domainCao } 0 ⟨true, 0x01020304, 443⟩ "evil.example".toList).2.target
    = "1.2.3.4:443".toList := by decide
example : (chooseDialTarget { mode := .ip } 2 ⟨false, 0x20010db8000000000000000000000001, 443⟩ "evil.example".toList).2.target
    = "[2001:db8::1]:443".toList := by decide

/-! ## row 2: domain mode -/

/-- domain mode: the sniffed name is used exactly when it is genuine; otherwise the IP. (The
re-route flag equals `genuine` too: the code re-routes a genuine name in domain mode; the property
statement does not constrain that, it is recorded here as the code has it.) -/
theorem domain_mode_name_iff_genuine (w : World) (ob : Nat) (dst : Dst) (d : Str)
    (hm : w.mode = .domain) (hr : isReserved ob = false) (hd : d ≠ []) :
    (chooseDialTarget w ob dst d).2.target =
        (if genuine w dst d then (nameTarget d dst.port).1 else fmtAddrPort dst) ∧
    (chooseDialTarget w ob dst d).2.dialIp =
        (if genuine w dst d then (nameTarget d dst.port).2 else true) ∧
    (chooseDialTarget w ob dst d).2.reroute = genuine w dst d := by
  obtain ⟨f1, f2⟩ := decideMode_domain_flags w ob dst d hm hr hd
  rw [chooseDialTarget_eq]
  unfold genuine
  simp only []
  rw [f1, f2]
  generalize (!isIPLike d && ((hasKnowledge w (cacheKey d dst.is4)).2 || w.realSet.contains d)) = g
  cases g <;> simp

/-- domain mode, not genuine (unknown, negatively cached, IP-like, expired knowledge …): the
destination IP and port, no re-route. -/
theorem domain_mode_otherwise_ip (w : World) (ob : Nat) (dst : Dst) (d : Str)
    (hm : w.mode = .domain) (hg : genuine w dst d = false) :
    (chooseDialTarget w ob dst d).2.target = fmtAddrPort dst ∧
    (chooseDialTarget w ob dst d).2.dialIp = true ∧
    (chooseDialTarget w ob dst d).2.reroute = false := by
  by_cases h : d = [] ∨ isReserved ob = true
  · rw [ip_target_when_ip_mode_or_no_name_or_reserved w ob dst d (Or.inr h)]; simp
  · have hd : d ≠ [] := fun e => h (Or.inl e)
    have hr : isReserved ob = false := by cases hh : isReserved ob <;> simp_all
    have := domain_mode_name_iff_genuine w ob dst d hm hr hd
    simpa [hg] using this

/-- `genuine` spelled out: knowledge entry not yet expired, or verified by a probe. -/
theorem genuine_iff (w : World) (dst : Dst) (d : Str) :
    genuine w dst d = true ↔
      isIPLike d = false ∧
      ((∃ e, w.know.get (cacheKey d dst.is4) = some e ∧ w.now < e) ∨ d ∈ w.realSet) := by
  unfold genuine
  have hk := hasKnowledge_true_iff w (cacheKey d dst.is4)
  have ne : cacheKey d dst.is4 ≠ [] := by
    unfold cacheKey qtypeStr; cases dst.is4 <;> simp
  simp only [Bool.and_eq_true, Bool.not_eq_true', Bool.or_eq_true, hk, List.contains_iff_mem]
  constructor
  · rintro ⟨a, (⟨_, b⟩ | b)⟩
    · exact ⟨a, Or.inl b⟩
    · exact ⟨a, Or.inr b⟩
  · rintro ⟨a, (b | b)⟩
    · exact ⟨a, Or.inl ⟨ne, b⟩⟩
    · exact ⟨a, Or.inr b⟩

-- non-vacuity: a genuine name (knowledge) and a non-genuine one in the same world
example :
    let w : World := { mode := .domain, now := 5, know := [("a.test.1".toList, 9)] }
    genuine w ⟨true, 0x01020304, 443⟩ "a.test".toList = true ∧
    genuine w ⟨true, 0x01020304, 443⟩ "b.test".toList = false ∧
    genuine w ⟨false, 1, 443⟩ "a.test".toList = false ∧   -- other family: no knowledge
    (chooseDialTarget w 2 ⟨true, 0x01020304, 443⟩ "a.test".toList).2.target = "a.test:443".toList ∧
    (chooseDialTarget w 2 ⟨true, 0x01020304, 443⟩ "b.test".toList).2.target = "1.2.3.4:443".toList ∧
    (chooseDialTarget { w with now := 9 } 2 ⟨true, 0x01020304, 443⟩ "a.test".toList).2.target = "1.2.3.4:443".toList := by
  decide

/-! ## rows 3 and 4: domain+ and domain++ -/

theorem domain_plus_name_unconditionally (w : World) (ob : Nat) (dst : Dst) (d : Str)
    (hm : w.mode = .domainPlus) (hr : isReserved ob = false) (hd : d ≠ []) :
    chooseDialTarget w ob dst d =
      (w, { target := (nameTarget d dst.port).1, reroute := false, dialIp := (nameTarget d dst.port).2,
            probeReq := none }) := by
  rw [chooseDialTarget_eq, decideMode_plus w ob dst d hm hr hd]
  rfl

theorem domain_cao_name_and_reroute (w : World) (ob : Nat) (dst : Dst) (d : Str)
    (hm : w.mode = .domainCao) (hr : isReserved ob = false) (hd : d ≠ []) :
    chooseDialTarget w ob dst d =
      (w, { target := (nameTarget d dst.port).1, reroute := true, dialIp := (nameTarget d dst.port).2,
            probeReq := none }) := by
  rw [chooseDialTarget_eq, decideMode_cao w ob dst d hm hr hd]
  rfl

example : (chooseDialTarget { mode := .domainPlus } 2 ⟨true, 0x01020304, 443⟩ "never.seen".toList).2
    = { target := "never.seen:443".toList, reroute := false, dialIp := false } := by decide
example : (chooseDialTarget { mode := .domainCao } 2 ⟨true, 0x01020304, 443⟩ "never.seen".toList).2
    = { target := "never.seen:443".toList, reroute := true, dialIp := false } := by decide

/-- domain++ "additionally the flow is routed again using that name": the outbound finally used is
the answer of the routing function for the sniffed name (not the kernel's outbound), and the target
is recomputed for that outbound — the name again for a user outbound, the IP for a built-in one. -/
theorem domain_cao_routed_again_with_name (w : World) (ob ob2 nOut : Nat) (dst : Dst) (d : Str)
    (route : Str → Option Nat)
    (hm : w.mode = .domainCao) (hr : isReserved ob = false) (hd : d ≠ [])
    (hrt : route d = some ob2) (hlt : ob2 < nOut) :
    chooseProxyDialer w ob dst d route nOut =
      (w, { outbound := some ob2,
            target := if isReserved ob2 then fmtAddrPort dst else (nameTarget d dst.port).1,
            dialIp := if isReserved ob2 then true else (nameTarget d dst.port).2,
            probeReq := none }) := by
  unfold chooseProxyDialer
  rw [domain_cao_name_and_reroute w ob dst d hm hr hd]
  simp only [if_true, hrt]
  cases h2 : isReserved ob2 with
  | true =>
    rw [ip_target_when_ip_mode_or_no_name_or_reserved w ob2 dst d (Or.inr (Or.inr h2))]
    simp [Nat.not_le.mpr hlt]
  | false =>
    rw [domain_cao_name_and_reroute w ob2 dst d hm h2 hd]
    simp [Nat.not_le.mpr hlt]

/-- … and if routing by name fails, or names an outbound that does not exist, no connection is made. -/
theorem domain_cao_route_failure (w : World) (ob nOut : Nat) (dst : Dst) (d : Str)
    (route : Str → Option Nat)
    (hm : w.mode = .domainCao) (hr : isReserved ob = false) (hd : d ≠ [])
    (hrt : route d = none ∨ ∃ ob2, route d = some ob2 ∧ nOut ≤ ob2) :
    (chooseProxyDialer w ob dst d route nOut).2.outbound = none := by
  unfold chooseProxyDialer
  rw [domain_cao_name_and_reroute w ob dst d hm hr hd]
  rcases hrt with h | ⟨ob2, h, hge⟩
  · simp [h]
  · simp only [if_true, h]
    cases h2 : isReserved ob2 with
    | true =>
      rw [ip_target_when_ip_mode_or_no_name_or_reserved w ob2 dst d (Or.inr (Or.inr h2))]
      simp [hge]
    | false =>
      rw [domain_cao_name_and_reroute w ob2 dst d hm h2 hd]
      simp [hge]

/-- the routing function is consulted at the sniffed name only. -/
theorem route_consulted_at_name_only (w : World) (ob nOut : Nat) (dst : Dst) (d : Str)
    (r1 r2 : Str → Option Nat) (h : r1 d = r2 d) :
    chooseProxyDialer w ob dst d r1 nOut = chooseProxyDialer w ob dst d r2 nOut := by
  unfold chooseProxyDialer
  rw [h]

/-- without a re-route request (ip mode, domain+, a non-genuine name in domain mode, no name …) and
unless the kernel asked for control-plane routing, the kernel's outbound and the first target stand. -/
theorem no_reroute_keeps_outbound (w : World) (ob nOut : Nat) (dst : Dst) (d : Str)
    (route : Str → Option Nat)
    (hrr : (chooseDialTarget w ob dst d).2.reroute = false) (hob : ob ≠ outboundControlPlaneRouting)
    (hlt : ob < nOut) :
    (chooseProxyDialer w ob dst d route nOut).2.outbound = some ob ∧
    (chooseProxyDialer w ob dst d route nOut).2.target = (chooseDialTarget w ob dst d).2.target ∧
    (chooseProxyDialer w ob dst d route nOut).2.dialIp = (chooseDialTarget w ob dst d).2.dialIp := by
  unfold chooseProxyDialer
  rcases hc : chooseDialTarget w ob dst d with ⟨w1, c1⟩
  rw [hc] at hrr
  simp only [] at hrr
  simp [hrr, hob, Nat.not_le.mpr hlt]

example :
    let route : Str → Option Nat := fun n => if n = "re.test".toList then some 3 else some 0
    (chooseProxyDialer { mode := .domainCao } 2 ⟨true, 0x01020304, 443⟩ "re.test".toList route 5).2
      = { outbound := some 3, target := "re.test:443".toList, dialIp := false, probeReq := none } ∧
    (chooseProxyDialer { mode := .domainCao } 2 ⟨true, 0x01020304, 443⟩ "x.test".toList route 5).2
      = { outbound := some 0, target := "1.2.3.4:443".toList, dialIp := true, probeReq := none } ∧
    (chooseProxyDialer { mode := .domainPlus } 2 ⟨true, 0x01020304, 443⟩ "re.test".toList route 5).2
      = { outbound := some 2, target := "re.test:443".toList, dialIp := false, probeReq := none } := by
  decide

/-! ## normalisation of the sniffed value

`(nameTarget d port).1` is the target the name rows above produce, `.2` the `dialIp` flag. -/

/-- An IP literal, bare or in brackets: target = `JoinHostPort(literal, dst port)` (brackets added
exactly when the literal contains `:`), and the dial is treated as an IP dial. -/
theorem ip_literal_normalised (d : Str) (p : Nat) (h : parseAddrOk (stripBrackets d) = true) :
    nameTarget d p = (joinHostPort (stripBrackets d) (itoa p), true) ∧
    (hasChar ':' (stripBrackets d) = false →
        (nameTarget d p).1 = stripBrackets d ++ ':' :: itoa p) ∧
    (hasChar ':' (stripBrackets d) = true →
        (nameTarget d p).1 = '[' :: (stripBrackets d ++ ']' :: ':' :: itoa p)) := by
  have e : nameTarget d p = (joinHostPort (stripBrackets d) (itoa p), true) := by
    unfold nameTarget; simp [h]
  refine ⟨e, ?_, ?_⟩ <;> intro hc <;> simp [e, joinHostPort, hc]

/-- the bracketed spelling gives the same target as the bare literal. -/
theorem bracketed_literal_same_as_bare (x : Str) (p : Nat) (hx : hasChar '[' x = false) :
    nameTarget ('[' :: (x ++ [']'])) p = nameTarget x p := by
  unfold nameTarget
  rw [stripBrackets_bracketed, stripBrackets_of_no_open hx]

/-- A value that already carries a port (and is not a literal): sent as it is, port included. -/
theorem carried_port_kept (d h q : Str) (p : Nat) (hn : parseAddrOk (stripBrackets d) = false)
    (hs : splitHostPort (stripBrackets d) = some (h, q)) :
    nameTarget d p = (stripBrackets d, false) ∧ splitHostPort (nameTarget d p).1 = some (h, q) := by
  have e : nameTarget d p = (stripBrackets d, false) := by
    unfold nameTarget; simp [hn, hs]
  exact ⟨e, by rw [e]; exact hs⟩

/-- Anything else: `JoinHostPort(name, dst port)`. -/
theorem plain_name_joined (d : Str) (p : Nat) (hn : parseAddrOk (stripBrackets d) = false)
    (hs : splitHostPort (stripBrackets d) = none) :
    nameTarget d p = (joinHostPort (stripBrackets d) (itoa p), false) := by
  unfold nameTarget; simp [hn, hs]

/-- **Never a malformed target**: whenever the sniffed value (after removing one enclosing pair of
brackets) contains no `[` or `]`, the target parses back with `net.SplitHostPort` — to exactly
(value, destination port), or, when the value carried its own port, to that host and port. -/
theorem name_target_well_formed (d : Str) (p : Nat)
    (hb : hasChar '[' (stripBrackets d) = false ∧ hasChar ']' (stripBrackets d) = false) :
    splitHostPort (nameTarget d p).1 = some (stripBrackets d, itoa p) ∨
    ((nameTarget d p).1 = stripBrackets d ∧ (splitHostPort (stripBrackets d)).isSome = true) :=
  nameTarget_wellFormed d p hb

/-- every zone-less IP literal is bracket-free, hence covered by `name_target_well_formed`:
the target of a literal `lit` (bare or `[lit]`) splits back into `(lit, dst port)`. -/
theorem ip_literal_target_well_formed (d : Str) (p : Nat) (h : parseAddrOk (stripBrackets d) = true)
    (hz : hasChar '%' (stripBrackets d) = false) :
    splitHostPort (nameTarget d p).1 = some (stripBrackets d, itoa p) ∧ (nameTarget d p).2 = true := by
  have nb := parseAddrOk_noBr h hz
  have e := (ip_literal_normalised d p h).1
  rw [e]
  have pp := itoa_plain p
  exact ⟨joinHostPort_wellFormed _ _ nb.1 nb.2 pp.1 pp.2.1 pp.2.2, rfl⟩

/-- the IP rows: `dst.String()` always parses back into (address text, port). -/
theorem ip_target_well_formed (dst : Dst) :
    splitHostPort (fmtAddrPort dst) = some (fmtAddr dst, itoa dst.port) :=
  fmtAddrPort_wellFormed dst

example : (nameTarget "[2606:4700:20::681a:d1f]".toList 443) = ("[2606:4700:20::681a:d1f]:443".toList, true) := by decide
example : (nameTarget "2606:4700:20::681a:d1f".toList 443) = ("[2606:4700:20::681a:d1f]:443".toList, true) := by decide
example : (nameTarget "1.2.3.4".toList 80) = ("1.2.3.4:80".toList, true) := by decide
example : (nameTarget "[1.2.3.4]".toList 80) = ("1.2.3.4:80".toList, true) := by decide
example : (nameTarget "Example.COM.".toList 80) = ("Example.COM.:80".toList, false) := by decide
example : (nameTarget "example.com:8443".toList 80) = ("example.com:8443".toList, false) := by decide
example : (nameTarget "[::1]:8443".toList 80) = ("[::1]:8443".toList, false) := by decide
example : (nameTarget "a:b:c".toList 80) = ("[a:b:c]:80".toList, false) := by decide
-- the hypothesis of `name_target_well_formed` is needed: an inner bracket gives a target that
-- `net.SplitHostPort` rejects (see design note: zone identifiers / garbage with brackets)
example : splitHostPort (nameTarget "fe80::1%]x".toList 80).1 = none := by decide
example : parseAddrOk "fe80::1%]x".toList = true := by decide

/-! ### the sniffer's own normalisation (`sniffing.NormalizeDomain`), end to end -/

/-- plain names: lower-cased, surrounding space and one trailing dot removed — and then the
target is `name:port`. -/
theorem sniffed_plain_name (raw : Str) (p : Nat) (hp : Plain (preNorm raw)) :
    normalizeDomain raw =
      (if (preNorm raw).getLast? = some '.' then (preNorm raw).dropLast else preNorm raw) ∧
    splitHostPort (nameTarget (normalizeDomain raw) p).1 = some (normalizeDomain raw, itoa p) := by
  have n := normalize_plain hp
  refine ⟨n, ?_⟩
  -- the normalised name is a sub-list of a plain string, hence plain
  have hpl : Plain (normalizeDomain raw) := by
    rw [n]
    split
    · apply plain_of_forall
      intro c hc
      have hc' : c ∈ preNorm raw := List.dropLast_subset _ hc
      exact ⟨(hasChar_false_iff _ _).1 hp.1 c hc', (hasChar_false_iff _ _).1 hp.2.1 c hc',
             (hasChar_false_iff _ _).1 hp.2.2 c hc'⟩
    · exact hp
  have sb : stripBrackets (normalizeDomain raw) = normalizeDomain raw := stripBrackets_of_no_open hpl.2.1
  have hs : splitHostPort (normalizeDomain raw) = none := by unfold splitHostPort; rw [splitLast_none hpl.1]
  rcases nameTarget_wellFormed (normalizeDomain raw) p (by rw [sb]; exact hpl.noBr) with w | ⟨_, w⟩
  · rw [sb] at w; exact w
  · rw [sb, hs] at w; simp at w

/-- `name:port` and `v4:port`: the port is dropped by the sniffer, the destination port is used. -/
theorem sniffed_host_port (raw h q : Str) (p : Nat) (e : preNorm raw = h ++ ':' :: q)
    (hh : Plain h) (hq : Plain q) :
    normalizeDomain raw = h ∧
    splitHostPort (nameTarget (normalizeDomain raw) p).1 = some (h, itoa p) := by
  have n := normalize_host_port e hh hq
  refine ⟨n, ?_⟩
  rw [n]
  have sb : stripBrackets h = h := stripBrackets_of_no_open hh.2.1
  have hs : splitHostPort h = none := by unfold splitHostPort; rw [splitLast_none hh.1]
  rcases nameTarget_wellFormed h p (by rw [sb]; exact hh.noBr) with w | ⟨_, w⟩
  · rw [sb] at w; exact w
  · rw [sb, hs] at w; simp at w

/-- `[literal]` and `[literal]:port`: the sniffer hands over the bare literal; the target is
`JoinHostPort(literal, dst port)` and the dial is an IP dial. -/
theorem sniffed_bracketed_literal (raw x q : Str) (p : Nat)
    (e : preNorm raw = '[' :: (x ++ [']']) ∨ (preNorm raw = '[' :: (x ++ ']' :: ':' :: q) ∧ Plain q))
    (hx : parseAddrOk x = true) (hz : hasChar '%' x = false) :
    normalizeDomain raw = x ∧
    nameTarget (normalizeDomain raw) p = (joinHostPort x (itoa p), true) ∧
    splitHostPort (joinHostPort x (itoa p)) = some (x, itoa p) := by
  have nb := parseAddrOk_noBr hx hz
  have hne : x ≠ [] := by rintro rfl; simp [parseAddrOk] at hx
  have n : normalizeDomain raw = x := by
    rcases e with e | ⟨e, hq⟩
    · exact normalize_bracketed e nb hne
    · exact normalize_bracketed_port e nb hq
  have sb : stripBrackets x = x := stripBrackets_of_no_open nb.1
  have l := ip_literal_normalised x p (by rw [sb]; exact hx)
  have pp := itoa_plain p
  rw [n]
  refine ⟨rfl, ?_, joinHostPort_wellFormed _ _ nb.1 nb.2 pp.1 pp.2.1 pp.2.2⟩
  rw [l.1, sb]

example : normalizeDomain " WWW.Example.COM. ".toList = "www.example.com".toList := by decide
example : normalizeDomain "Example.com:8443".toList = "example.com".toList := by decide
example : normalizeDomain "[2606:4700::1111]:443".toList = "2606:4700::1111".toList := by decide
example : normalizeDomain "[2606:4700::1111]".toList = "2606:4700::1111".toList := by decide
example : normalizeDomain "2606:4700::1111".toList = "2606:4700::1111".toList := by decide

/-! ## "known to be genuine": where knowledge and the verified set come from

Histories are lists of `Event`s (mode / resolver-count changes, clock advances, resolutions through
dae, cache removals, knowledge queries, `ChooseDialTarget` calls, completed probes) applied by
`run`; `trace w es` pairs every event with the world it was applied in. -/

/-- `HasDnsKnowledge` answers true **only** between a resolution through dae of that (name, type)
family and the original deadline (`now + ttl` at the time) of that resolution. -/
theorem knowledge_only_from_resolution_within_ttl (w0 : World)
    (hc : w0.cache = []) (hk : w0.know = []) (hr : w0.realSet = []) (es : List Event)
    (name : Str) (is4 : Bool)
    (h : (hasKnowledge (run w0 es) (cacheKey name is4)).2 = true) :
    ∃ x ∈ trace w0 es, ∃ host f ttl key,
      x.2 = .dnsUpdate host f ttl key ∧ (dnsUpdate x.1 host f ttl key).2 = true ∧
      baseKeyOf (updateKey host f key) = cacheKey name is4 ∧
      x.1.now ≤ (run w0 es).now ∧ (run w0 es).now < x.1.now + ttl := by
  obtain ⟨_, e, he, hlt⟩ := (hasKnowledge_true_iff _ _).1 h
  have inv := (Inv.init w0 hc hk hr).run es
  simp only [List.nil_append] at inv
  obtain ⟨x, hx, ck, ⟨host, f, ttl, key, h1, h2, h3, h4⟩, hb, hn⟩ := inv.know _ _ (Assoc.mem_of_get he)
  exact ⟨x, hx, host, f, ttl, key, h1, h2, by rw [h3]; exact hb, hn, by rw [← h4]; exact hlt⟩

/-- Conversely, after a resolution through dae the answer stays true until the original deadline,
whatever else happens — except removals of cache entries of the same family (those recompute the
entry from the remaining scoped entries, `syncDnsKnowledgeLocked`). -/
theorem knowledge_holds_until_original_ttl (w : World) (host : Str) (is4 : Bool) (ttl : Int) (key : Str)
    (es : List Event)
    (hu : (dnsUpdate w host is4 ttl key).2 = true)
    (hne : baseKeyOf (updateKey host is4 key) ≠ [])
    (hes : ∀ e ∈ es, keepsFamily (baseKeyOf (updateKey host is4 key)) e)
    (hnow : (run (dnsUpdate w host is4 ttl key).1 es).now < w.now + ttl) :
    (hasKnowledge (run (dnsUpdate w host is4 ttl key).1 es) (baseKeyOf (updateKey host is4 key))).2 = true := by
  have hh := (dnsUpdate_holds w host is4 ttl key hu hne).run es hes
  rcases hh with ⟨e, he, hle⟩ | hh
  · exact (hasKnowledge_true_iff _ _).2 ⟨hne, e, he, by omega⟩
  · omega

-- the key under which `ChooseDialTarget` asks is the key under which `UpdateDnsCacheTtl` remembers
example : baseKeyOf (updateKey "Example.COM".toList true []) = cacheKey "example.com".toList true := by decide
example : baseKeyOf (updateKey "example.com.".toList false ("example.com.28|asis@1.1.1.1:53".toList))
    = cacheKey "EXAMPLE.com".toList false := by decide
-- non-vacuity of both theorems on a concrete history
example :
    let es := [Event.dnsUpdate "a.test".toList true 2000000000 [], Event.advance 1999999999]
    (hasKnowledge (run {} es) (cacheKey "a.test".toList true)).2 = true ∧
    (hasKnowledge (run {} (es ++ [Event.advance 1])) (cacheKey "a.test".toList true)).2 = false := by decide

/-- upper case: the knowledge key ignores ASCII case (the verified set is case-sensitive, but the
sniffers lower-case before `ChooseDialTarget` sees the name). -/
theorem knowledge_key_ignores_case (d : Str) (is4 : Bool) (w : World) :
    cacheKey (d.map lowerAscii) is4 = cacheKey d is4 ∧
    (hasKnowledge w (cacheKey (d.map lowerAscii) is4)).2 = (hasKnowledge w (cacheKey d is4)).2 := by
  have e : cacheKey (d.map lowerAscii) is4 = cacheKey d is4 := by
    unfold cacheKey; rw [canonicalName_lower]
  exact ⟨e, by rw [e]⟩

example : cacheKey "WWW.Example.COM".toList true = cacheKey "www.example.com".toList true := by decide
-- trailing dot: same key with and without it
example : cacheKey "www.example.com.".toList false = cacheKey "www.example.com".toList false := by decide

/-- the verified set only ever contains names for which a probe completed with an address from
some bootstrap resolver. -/
theorem real_set_only_from_positive_probe (w0 : World)
    (hc : w0.cache = []) (hk : w0.know = []) (hr : w0.realSet = []) (es : List Event) (d : Str)
    (h : d ∈ (run w0 es).realSet) :
    ∃ x ∈ trace w0 es, ∃ ans, x.2 = .probeDone d ans ∧ x.1.nboot ≠ 0 ∧
      ((probeResult x.1 ans).ip4 || (probeResult x.1 ans).ip6) = true ∧
      ((probeResult x.1 ans).err4 && (probeResult x.1 ans).err6) = false := by
  have inv := (Inv.init w0 hc hk hr).run es
  simp only [List.nil_append] at inv
  obtain ⟨x, hx, hp⟩ := inv.real d h
  exact ⟨x, hx, hp⟩

/-- Putting it together: in domain mode a name is sent to the proxy only if, earlier in the
history, it was resolved through dae (same family as the destination, original TTL not yet over)
or verified by a positive probe. -/
theorem genuine_name_has_witness (w0 : World)
    (hc : w0.cache = []) (hk : w0.know = []) (hr : w0.realSet = []) (es : List Event)
    (dst : Dst) (d : Str) (h : genuine (run w0 es) dst d = true) :
    isIPLike d = false ∧
    ((∃ x ∈ trace w0 es, ∃ host f ttl key,
        x.2 = .dnsUpdate host f ttl key ∧ (dnsUpdate x.1 host f ttl key).2 = true ∧
        baseKeyOf (updateKey host f key) = cacheKey d dst.is4 ∧
        x.1.now ≤ (run w0 es).now ∧ (run w0 es).now < x.1.now + ttl) ∨
     (∃ x ∈ trace w0 es, ∃ ans, x.2 = .probeDone d ans ∧ x.1.nboot ≠ 0 ∧
        ((probeResult x.1 ans).ip4 || (probeResult x.1 ans).ip6) = true ∧
        ((probeResult x.1 ans).err4 && (probeResult x.1 ans).err6) = false)) := by
  unfold genuine at h
  simp only [Bool.and_eq_true, Bool.not_eq_true', Bool.or_eq_true] at h
  refine ⟨h.1, ?_⟩
  rcases h.2 with hkn | hrs
  · exact Or.inl (knowledge_only_from_resolution_within_ttl w0 hc hk hr es d dst.is4 hkn)
  · exact Or.inr (real_set_only_from_positive_probe w0 hc hk hr es d (by simpa using hrs))

/-- a negatively cached name (probe said "no such name", entry not yet expired) is neither used
nor probed again. -/
theorem negative_cached_name_not_used (w : World) (ob : Nat) (dst : Dst) (d : Str) (e : Int)
    (hm : w.mode = .domain) (hg : genuine w dst d = false)
    (hneg : w.neg.get d = some e) (hlive : w.now < e) :
    (chooseDialTarget w ob dst d).2.target = fmtAddrPort dst ∧
    (chooseDialTarget w ob dst d).2.probeReq = none := by
  refine ⟨(domain_mode_otherwise_ip w ob dst d hm hg).1, ?_⟩
  by_cases h : d = [] ∨ isReserved ob = true
  · rw [ip_target_when_ip_mode_or_no_name_or_reserved w ob dst d (Or.inr h)]
  · have hd : d ≠ [] := fun e => h (Or.inl e)
    have hr : isReserved ob = false := by cases hh : isReserved ob <;> simp_all
    rw [chooseDialTarget_eq, decideMode_domain w ob dst d hm hr hd]
    unfold genuine at hg
    cases hi : isIPLike d with
    | true => simp
    | false =>
      rw [hi] at hg
      simp only [Bool.not_false, Bool.true_and, Bool.or_eq_false_iff] at hg
      -- the negative entry survives `hasKnowledge` and is found by `lookupReal`
      have hnegk : (hasKnowledge w (cacheKey d dst.is4)).1.neg = w.neg ∧
          (hasKnowledge w (cacheKey d dst.is4)).1.now = w.now := by
        unfold hasKnowledge; split
        · exact ⟨rfl, rfl⟩
        · split
          · exact ⟨rfl, rfl⟩
          · split <;> exact ⟨rfl, rfl⟩
      have hrs := hasKnowledge_realSet w (cacheKey d dst.is4)
      have hl : (lookupReal (hasKnowledge w (cacheKey d dst.is4)).1 d).2.1 = true ∧
          (lookupReal (hasKnowledge w (cacheKey d dst.is4)).1 d).2.2 = false := by
        unfold lookupReal
        rw [hrs, hnegk.1, hnegk.2, hg.2, hneg]
        simp [hlive]
      simp [hg.1, hl.1, hl.2]

example :
    let w : World := { mode := .domain, now := 5, neg := [("nx.test".toList, 9)] }
    (chooseDialTarget w 2 ⟨true, 0x01020304, 443⟩ "nx.test".toList).2 =
      { target := "1.2.3.4:443".toList, reroute := false, dialIp := true, probeReq := none } ∧
    -- once the negative entry expired the name is probed again
    (chooseDialTarget { w with now := 9 } 2 ⟨true, 0x01020304, 443⟩ "nx.test".toList).2.probeReq
      = some "nx.test".toList := by decide

end DaeVerif.C18.Props
