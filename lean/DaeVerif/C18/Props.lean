import DaeVerif.C18.Proofs
/-!
# C18 — property theorems

"For every proxied connection the address sent to the proxy node is the original destination IP and
port when dial_mode is ip, when no name was sniffed, or when the outbound is a built-in one; in
domain mode it is the sniffed name only if that name is known to be genuine (resolved through dae or
verified), otherwise the IP; in domain+ it is the sniffed name unconditionally, and in domain++
additionally the flow is routed again using that name. A sniffed value that is an IP literal (with
or without brackets) or already carries a port is normalised and never produces a malformed target."

All theorems are about the definitions of `Model.lean` that the driver `c18drv` executes.
-/
namespace DaeVerif.C18.Props
open DaeVerif.C18

/-- "known to be genuine" as the code decides it in domain mode: not an IP-like value, and either
an unexpired knowledge entry for `(name, family of dst)` or membership in the verified set. -/
def genuine (w : World) (dst : Dst) (d : Str) : Bool :=
  !isIPLike d && ((hasKnowledge w (cacheKey d dst.is4)).2 || w.realSet.contains d)

/-! ## row 1: ip mode, no name, built-in outbound -/

theorem ip_target_when_ip_mode_or_no_name_or_reserved (w : World) (ob : Nat) (dst : Dst) (d : Str)
    (h : w.mode = .ip ∨ d = [] ∨ isReserved ob = true) :
    chooseDialTarget w ob dst d =
      (w, { target := fmtAddrPort dst, reroute := false, dialIp := true, probeReq := none }) := by
  rw [chooseDialTarget_eq, decideMode_ip w ob dst d h]
  rfl

example : (chooseDialTarget { mode := .domainCao } 0 ⟨true, 0x01020304, 443⟩ "evil.example".toList).2.target
    = "1.2.3.4:443".toList := by decide
example : (chooseDialTarget { mode := .ip } 2 ⟨false, 0x20010db8000000000000000000000001, 443⟩ "evil.example".toList).2.target
    = "[2001:db8::1]:443".toList := by decide

/-! ## row 2: domain mode -/

/-- domain mode: the sniffed name is used exactly when it is genuine; otherwise the IP. (The
re-route flag equals `genuine` too: the code re-routes a genuine name in domain mode; the property
statement does not constrain that, it is recorded here as the code has it.) -/
theorem domain_mode_name_iff_genuine (w : World) (ob : Nat) (dst : Dst) (d : Str)
    (hm : w.mode = .domain) (hr : isReserved ob = false) (hd : d ≠ []) :
    (chooseDialTarget w ob dst d).2.target =
        (if genuine w dst d then (nameTarget d dst.port).1 else fmtAddrPort dst) ∧
    (chooseDialTarget w ob dst d).2.dialIp =
        (if genuine w dst d then (nameTarget d dst.port).2 else true) ∧
    (chooseDialTarget w ob dst d).2.reroute = genuine w dst d := by
  obtain ⟨f1, f2⟩ := decideMode_domain_flags w ob dst d hm hr hd
  rw [chooseDialTarget_eq]
  unfold genuine
  simp only []
  rw [f1, f2]
  generalize (!isIPLike d && ((hasKnowledge w (cacheKey d dst.is4)).2 || w.realSet.contains d)) = g
  cases g <;> simp

/-- domain mode, not genuine (unknown, negatively cached, IP-like, expired knowledge …): the
destination IP and port, no re-route. -/
theorem domain_mode_otherwise_ip (w : World) (ob : Nat) (dst : Dst) (d : Str)
    (hm : w.mode = .domain) (hg : genuine w dst d = false) :
    (chooseDialTarget w ob dst d).2.target = fmtAddrPort dst ∧
    (chooseDialTarget w ob dst d).2.dialIp = true ∧
    (chooseDialTarget w ob dst d).2.reroute = false := by
  by_cases h : d = [] ∨ isReserved ob = true
  · rw [ip_target_when_ip_mode_or_no_name_or_reserved w ob dst d (Or.inr h)]; simp
  · have hd : d ≠ [] := fun e => h (Or.inl e)
    have hr : isReserved ob = false := by cases hh : isReserved ob <;> simp_all
    have := domain_mode_name_iff_genuine w ob dst d hm hr hd
    simpa [hg] using this

/-- `genuine` spelled out: knowledge entry not yet expired, or verified by a probe. -/
theorem genuine_iff (w : World) (dst : Dst) (d : Str) :
    genuine w dst d = true ↔
      isIPLike d = false ∧
      ((∃ e, w.know.get (cacheKey d dst.is4) = some e ∧ w.now < e) ∨ d ∈ w.realSet) := by
  unfold genuine
  have hk := hasKnowledge_true_iff w (cacheKey d dst.is4)
  have ne : cacheKey d dst.is4 ≠ [] := by
    unfold cacheKey qtypeStr; cases dst.is4 <;> simp
  simp only [Bool.and_eq_true, Bool.not_eq_true', Bool.or_eq_true, hk, List.contains_iff_mem]
  constructor
  · rintro ⟨a, (⟨_, b⟩ | b)⟩
    · exact ⟨a, Or.inl b⟩
    · exact ⟨a, Or.inr b⟩
  · rintro ⟨a, (b | b)⟩
    · exact ⟨a, Or.inl ⟨ne, b⟩⟩
    · exact ⟨a, Or.inr b⟩

-- non-vacuity: a genuine name (knowledge) and a non-genuine one in the same world
example :
    let w : World := { mode := .domain, now := 5, know := [("a.test.1".toList, 9)] }
    genuine w ⟨true, 0x01020304, 443⟩ "a.test".toList = true ∧
    genuine w ⟨true, 0x01020304, 443⟩ "b.test".toList = false ∧
    genuine w ⟨false, 1, 443⟩ "a.test".toList = false ∧   -- other family: no knowledge
    (chooseDialTarget w 2 ⟨true, 0x01020304, 443⟩ "a.test".toList).2.target = "a.test:443".toList ∧
    (chooseDialTarget w 2 ⟨true, 0x01020304, 443⟩ "b.test".toList).2.target = "1.2.3.4:443".toList ∧
    (chooseDialTarget { w with now := 9 } 2 ⟨true, 0x01020304, 443⟩ "a.test".toList).2.target = "1.2.3.4:443".toList := by
  decide

/-! ## rows 3 and 4: domain+ and domain++ -/

theorem domain_plus_name_unconditionally (w : World) (ob : Nat) (dst : Dst) (d : Str)
    (hm : w.mode = .domainPlus) (hr : isReserved ob = false) (hd : d ≠ []) :
    chooseDialTarget w ob dst d =
      (w, { target := (nameTarget d dst.port).1, reroute := false, dialIp := (nameTarget d dst.port).2,
            probeReq := none }) := by
  rw [chooseDialTarget_eq, decideMode_plus w ob dst d hm hr hd]
  rfl

theorem domain_cao_name_and_reroute (w : World) (ob : Nat) (dst : Dst) (d : Str)
    (hm : w.mode = .domainCao) (hr : isReserved ob = false) (hd : d ≠ []) :
    chooseDialTarget w ob dst d =
      (w, { target := (nameTarget d dst.port).1, reroute := true, dialIp := (nameTarget d dst.port).2,
            probeReq := none }) := by
  rw [chooseDialTarget_eq, decideMode_cao w ob dst d hm hr hd]
  rfl

example : (chooseDialTarget { mode := .domainPlus } 2 ⟨true, 0x01020304, 443⟩ "never.seen".toList).2
    = { target := "never.seen:443".toList, reroute := false, dialIp := false } := by decide
example : (chooseDialTarget { mode := .domainCao } 2 ⟨true, 0x01020304, 443⟩ "never.seen".toList).2
    = { target := "never.seen:443".toList, reroute := true, dialIp := false } := by decide

/-- domain++ "additionally the flow is routed again using that name": the outbound finally used is
the answer of the routing function for the sniffed name (not the kernel's outbound), and the target
is recomputed for that outbound — the name again for a user outbound, the IP for a built-in one. -/
theorem domain_cao_routed_again_with_name (w : World) (ob ob2 nOut : Nat) (dst : Dst) (d : Str)
    (route : Str → Option Nat)
    (hm : w.mode = .domainCao) (hr : isReserved ob = false) (hd : d ≠ [])
    (hrt : route d = some ob2) (hlt : ob2 < nOut) :
    chooseProxyDialer w ob dst d route nOut =
      (w, { outbound := some ob2,
            target := if isReserved ob2 then fmtAddrPort dst else (nameTarget d dst.port).1,
            dialIp := if isReserved ob2 then true else (nameTarget d dst.port).2,
            probeReq := none }) := by
  unfold chooseProxyDialer
  rw [domain_cao_name_and_reroute w ob dst d hm hr hd]
  simp only [if_true, hrt]
  cases h2 : isReserved ob2 with
  | true =>
    rw [ip_target_when_ip_mode_or_no_name_or_reserved w ob2 dst d (Or.inr (Or.inr h2))]
    simp [Nat.not_le.mpr hlt]
  | false =>
    rw [domain_cao_name_and_reroute w ob2 dst d hm h2 hd]
    simp [Nat.not_le.mpr hlt]

/-- … and if routing by name fails, or names an outbound that does not exist, no connection is made. -/
theorem domain_cao_route_failure (w : World) (ob nOut : Nat) (dst : Dst) (d : Str)
    (route : Str → Option Nat)
    (hm : w.mode = .domainCao) (hr : isReserved ob = false) (hd : d ≠ [])
    (hrt : route d = none ∨ ∃ ob2, route d = some ob2 ∧ nOut ≤ ob2) :
    (chooseProxyDialer w ob dst d route nOut).2.outbound = none := by
  unfold chooseProxyDialer
  rw [domain_cao_name_and_reroute w ob dst d hm hr hd]
  rcases hrt with h | ⟨ob2, h, hge⟩
  · simp [h]
  · simp only [if_true, h]
    cases h2 : isReserved ob2 with
    | true =>
      rw [ip_target_when_ip_mode_or_no_name_or_reserved w ob2 dst d (Or.inr (Or.inr h2))]
      simp [hge]
    | false =>
      rw [domain_cao_name_and_reroute w ob2 dst d hm h2 hd]
      simp [hge]

/-- the routing function is consulted at the sniffed name only. -/
theorem route_consulted_at_name_only (w : World) (ob nOut : Nat) (dst : Dst) (d : Str)
    (r1 r2 : Str → Option Nat) (h : r1 d = r2 d) :
    chooseProxyDialer w ob dst d r1 nOut = chooseProxyDialer w ob dst d r2 nOut := by
  unfold chooseProxyDialer
  rw [h]

/-- without a re-route request (ip mode, domain+, a non-genuine name in domain mode, no name …) and
unless the kernel asked for control-plane routing, the kernel's outbound and the first target stand. -/
theorem no_reroute_keeps_outbound (w : World) (ob nOut : Nat) (dst : Dst) (d : Str)
    (route : Str → Option Nat)
    (hrr : (chooseDialTarget w ob dst d).2.reroute = false) (hob : ob ≠ outboundControlPlaneRouting)
    (hlt : ob < nOut) :
    (chooseProxyDialer w ob dst d route nOut).2.outbound = some ob ∧
    (chooseProxyDialer w ob dst d route nOut).2.target = (chooseDialTarget w ob dst d).2.target ∧
    (chooseProxyDialer w ob dst d route nOut).2.dialIp = (chooseDialTarget w ob dst d).2.dialIp := by
  unfold chooseProxyDialer
  rcases hc : chooseDialTarget w ob dst d with ⟨w1, c1⟩
  rw [hc] at hrr
  simp only [] at hrr
  simp [hrr, hob, Nat.not_le.mpr hlt]

example :
    let route : Str → Option Nat := fun n => if n = "re.test".toList then some 3 else some 0
    (chooseProxyDialer { mode := .domainCao } 2 ⟨true, 0x01020304, 443⟩ "re.test".toList route 5).2
      = { outbound := some 3, target := "re.test:443".toList, dialIp := false, probeReq := none } ∧
    (chooseProxyDialer { mode := .domainCao } 2 ⟨true, 0x01020304, 443⟩ "x.test".toList route 5).2
      = { outbound := some 0, target := "1.2.3.4:443".toList, dialIp := true, probeReq := none } ∧
    (chooseProxyDialer { mode := .domainPlus } 2 ⟨true, 0x01020304, 443⟩ "re.test".toList route 5).2
      = { outbound := some 2, target := "re.test:443".toList, dialIp := false, probeReq := none } := by
  decide

end DaeVerif.C18.Props
