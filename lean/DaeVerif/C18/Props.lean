import DaeVerif.C18.Proofs
import DaeVerif.C18.History
import DaeVerif.C18.Names
import DaeVerif.C18.Normalize
import DaeVerif.C18.ConnProofs
/-!
# C18 — property theorems

"For every proxied connection the address sent to the proxy node is the original destination IP and
port when dial_mode is ip, when no name was sniffed, or when the outbound is a built-in one; in
domain mode it is the sniffed name only if that name is known to be genuine (resolved through dae or
verified), otherwise the IP; in domain+ it is the sniffed name unconditionally, and in domain++
additionally the flow is routed again using that name. A sniffed value that is an IP literal (with
or without brackets) or already carries a port is normalised and never produces a malformed target."

All theorems are about the definitions of `Model.lean` that the driver `c18drv` executes.
-/
namespace DaeVerif.C18.Props
open DaeVerif.C18

/-! ## row 1: ip mode, no name, built-in outbound -/

theorem ip_target_when_ip_mode_or_no_name_or_reserved (w : World) (ob : Nat) (dst : Dst) (d : Str)
    (h : w.mode = .ip ∨ d = [] ∨ isReserved ob = true) :
    chooseDialTarget w ob dst d =
      (w, { target := fmtAddrPort dst, reroute := false, dialIp := true, probeReq := none }) := by
  rw [chooseDialTarget_eq, decideMode_ip w ob dst d h]
  rfl

example : (chooseDialTarget { mode := .domainCao } 0 ⟨true, 0x01020304, 443⟩ "evil.example".toList).2.target
    = "1.2.3.4:443".toList := by decide
example : (chooseDialTarget { mode := .ip } 2 ⟨false, 0x20010db8000000000000000000000001, 443⟩ "evil.example".toList).2.target
    = "[2001:db8::1]:443".toList := by decide

/-! ## row 2: domain mode -/

/-- domain mode: the sniffed name is used exactly when it is genuine; otherwise the IP. (The
re-route flag equals `genuine` too: the code re-routes a genuine name in domain mode; the property
statement does not constrain that, it is recorded here as the code has it.) -/
theorem domain_mode_name_iff_genuine (w : World) (ob : Nat) (dst : Dst) (d : Str)
    (hm : w.mode = .domain) (hr : isReserved ob = false) (hd : d ≠ []) :
    (chooseDialTarget w ob dst d).2.target =
        (if genuine w dst d then (nameTarget d dst.port).1 else fmtAddrPort dst) ∧
    (chooseDialTarget w ob dst d).2.dialIp =
        (if genuine w dst d then (nameTarget d dst.port).2 else true) ∧
    (chooseDialTarget w ob dst d).2.reroute = genuine w dst d := by
  obtain ⟨f1, f2⟩ := decideMode_domain_flags w ob dst d hm hr hd
  rw [chooseDialTarget_eq]
  unfold genuine
  simp only []
  rw [f1, f2]
  generalize (!isIPLike d && ((hasKnowledge w (cacheKey d dst.is4)).2 || w.realSet.contains d)) = g
  cases g <;> simp

/-- domain mode, not genuine (unknown, negatively cached, IP-like, expired knowledge …): the
destination IP and port, no re-route. -/
theorem domain_mode_otherwise_ip (w : World) (ob : Nat) (dst : Dst) (d : Str)
    (hm : w.mode = .domain) (hg : genuine w dst d = false) :
    (chooseDialTarget w ob dst d).2.target = fmtAddrPort dst ∧
    (chooseDialTarget w ob dst d).2.dialIp = true ∧
    (chooseDialTarget w ob dst d).2.reroute = false := by
  by_cases h : d = [] ∨ isReserved ob = true
  · rw [ip_target_when_ip_mode_or_no_name_or_reserved w ob dst d (Or.inr h)]; simp
  · have hd : d ≠ [] := fun e => h (Or.inl e)
    have hr : isReserved ob = false := by cases hh : isReserved ob <;> simp_all
    have := domain_mode_name_iff_genuine w ob dst d hm hr hd
    simpa [hg] using this

/-- `genuine` spelled out: knowledge entry not yet expired, or verified by a probe. -/
theorem genuine_iff (w : World) (dst : Dst) (d : Str) :
    genuine w dst d = true ↔
      isIPLike d = false ∧
      ((∃ e, w.know.get (cacheKey d dst.is4) = some e ∧ w.now < e) ∨ d ∈ w.realSet) := by
  unfold genuine
  have hk := hasKnowledge_true_iff w (cacheKey d dst.is4)
  have ne : cacheKey d dst.is4 ≠ [] := by
    unfold cacheKey qtypeStr; cases dst.is4 <;> simp
  simp only [Bool.and_eq_true, Bool.not_eq_true', Bool.or_eq_true, hk, List.contains_iff_mem]
  constructor
  · rintro ⟨a, (⟨_, b⟩ | b)⟩
    · exact ⟨a, Or.inl b⟩
    · exact ⟨a, Or.inr b⟩
  · rintro ⟨a, (b | b)⟩
    · exact ⟨a, Or.inl ⟨ne, b⟩⟩
    · exact ⟨a, Or.inr b⟩

-- non-vacuity: a genuine name (knowledge) and a non-genuine one in the same world
example :
    let w : World := { mode := .domain, now := 5, know := [("a.test.1".toList, 9)] }
    genuine w ⟨true, 0x01020304, 443⟩ "a.test".toList = true ∧
    genuine w ⟨true, 0x01020304, 443⟩ "b.test".toList = false ∧
    genuine w ⟨false, 1, 443⟩ "a.test".toList = false ∧   -- other family: no knowledge
    (chooseDialTarget w 2 ⟨true, 0x01020304, 443⟩ "a.test".toList).2.target = "a.test:443".toList ∧
    (chooseDialTarget w 2 ⟨true, 0x01020304, 443⟩ "b.test".toList).2.target = "1.2.3.4:443".toList ∧
    (chooseDialTarget { w with now := 9 } 2 ⟨true, 0x01020304, 443⟩ "a.test".toList).2.target = "1.2.3.4:443".toList := by
  decide

/-! ## rows 3 and 4: domain+ and domain++ -/

theorem domain_plus_name_unconditionally (w : World) (ob : Nat) (dst : Dst) (d : Str)
    (hm : w.mode = .domainPlus) (hr : isReserved ob = false) (hd : d ≠ []) :
    chooseDialTarget w ob dst d =
      (w, { target := (nameTarget d dst.port).1, reroute := false, dialIp := (nameTarget d dst.port).2,
            probeReq := none }) := by
  rw [chooseDialTarget_eq, decideMode_plus w ob dst d hm hr hd]
  rfl

theorem domain_cao_name_and_reroute (w : World) (ob : Nat) (dst : Dst) (d : Str)
    (hm : w.mode = .domainCao) (hr : isReserved ob = false) (hd : d ≠ []) :
    chooseDialTarget w ob dst d =
      (w, { target := (nameTarget d dst.port).1, reroute := true, dialIp := (nameTarget d dst.port).2,
            probeReq := none }) := by
  rw [chooseDialTarget_eq, decideMode_cao w ob dst d hm hr hd]
  rfl

example : (chooseDialTarget { mode := .domainPlus } 2 ⟨true, 0x01020304, 443⟩ "never.seen".toList).2
    = { target := "never.seen:443".toList, reroute := false, dialIp := false } := by decide
example : (chooseDialTarget { mode := .domainCao } 2 ⟨true, 0x01020304, 443⟩ "never.seen".toList).2
    = { target := "never.seen:443".toList, reroute := true, dialIp := false } := by decide

/-- domain++ "additionally the flow is routed again using that name": the outbound finally used is
the answer of the routing function for the sniffed name (not the kernel's outbound), and the target
is recomputed for that outbound — the name again for a user outbound, the IP for a built-in one. -/
theorem domain_cao_routed_again_with_name (w : World) (ob ob2 nOut : Nat) (dst : Dst) (d : Str)
    (route : Str → Option Nat)
    (hm : w.mode = .domainCao) (hr : isReserved ob = false) (hd : d ≠ [])
    (hrt : route d = some ob2) (hlt : ob2 < nOut) :
    chooseProxyDialer w ob dst d route nOut =
      (w, { outbound := some ob2,
            target := if isReserved ob2 then fmtAddrPort dst else (nameTarget d dst.port).1,
            dialIp := if isReserved ob2 then true else (nameTarget d dst.port).2,
            probeReq := none }) := by
  unfold chooseProxyDialer
  rw [domain_cao_name_and_reroute w ob dst d hm hr hd]
  simp only [if_true, hrt]
  cases h2 : isReserved ob2 with
  | true =>
    rw [ip_target_when_ip_mode_or_no_name_or_reserved w ob2 dst d (Or.inr (Or.inr h2))]
    simp [Nat.not_le.mpr hlt]
  | false =>
    rw [domain_cao_name_and_reroute w ob2 dst d hm h2 hd]
    simp [Nat.not_le.mpr hlt]

/-- … and if routing by name fails, or names an outbound that does not exist, no connection is made. -/
theorem domain_cao_route_failure (w : World) (ob nOut : Nat) (dst : Dst) (d : Str)
    (route : Str → Option Nat)
    (hm : w.mode = .domainCao) (hr : isReserved ob = false) (hd : d ≠ [])
    (hrt : route d = none ∨ ∃ ob2, route d = some ob2 ∧ nOut ≤ ob2) :
    (chooseProxyDialer w ob dst d route nOut).2.outbound = none := by
  unfold chooseProxyDialer
  rw [domain_cao_name_and_reroute w ob dst d hm hr hd]
  rcases hrt with h | ⟨ob2, h, hge⟩
  · simp [h]
  · simp only [if_true, h]
    cases h2 : isReserved ob2 with
    | true =>
      rw [ip_target_when_ip_mode_or_no_name_or_reserved w ob2 dst d (Or.inr (Or.inr h2))]
      simp [hge]
    | false =>
      rw [domain_cao_name_and_reroute w ob2 dst d hm h2 hd]
      simp [hge]

/-- the routing function is consulted at the sniffed name only. -/
theorem route_consulted_at_name_only (w : World) (ob nOut : Nat) (dst : Dst) (d : Str)
    (r1 r2 : Str → Option Nat) (h : r1 d = r2 d) :
    chooseProxyDialer w ob dst d r1 nOut = chooseProxyDialer w ob dst d r2 nOut := by
  unfold chooseProxyDialer
  rw [h]

/-- without a re-route request (ip mode, domain+, a non-genuine name in domain mode, no name …) and
unless the kernel asked for control-plane routing, the kernel's outbound and the first target stand. -/
theorem no_reroute_keeps_outbound (w : World) (ob nOut : Nat) (dst : Dst) (d : Str)
    (route : Str → Option Nat)
    (hrr : (chooseDialTarget w ob dst d).2.reroute = false) (hob : ob ≠ outboundControlPlaneRouting)
    (hlt : ob < nOut) :
    (chooseProxyDialer w ob dst d route nOut).2.outbound = some ob ∧
    (chooseProxyDialer w ob dst d route nOut).2.target = (chooseDialTarget w ob dst d).2.target ∧
    (chooseProxyDialer w ob dst d route nOut).2.dialIp = (chooseDialTarget w ob dst d).2.dialIp := by
  unfold chooseProxyDialer
  rcases hc : chooseDialTarget w ob dst d with ⟨w1, c1⟩
  rw [hc] at hrr
  simp only [] at hrr
  simp [hrr, hob, Nat.not_le.mpr hlt]

/-- **Re-route ⇒ the target is chosen again for the outbound userspace routing returned.**
Whenever `chooseProxyDialer` re-routes — because `ChooseDialTarget` asked for it (domain++ always,
domain mode for a genuine name) or because the kernel handed the flow over
(`OutboundControlPlaneRouting`) — the outbound used is `route name`, and target and `dialIp` are what
a second `ChooseDialTarget` answers for THAT outbound (in the world the first call left): in
particular the destination IP and port, as an IP dial, when routing returned a built-in outbound
(direct, block, …), whatever the first call had chosen. Any mode, any world. -/
theorem reroute_rechooses_target (w : World) (ob ob2 nOut : Nat) (dst : Dst) (d : Str)
    (route : Str → Option Nat)
    (h : (chooseDialTarget w ob dst d).2.reroute = true ∨ ob = outboundControlPlaneRouting)
    (hrt : route d = some ob2) (hlt : ob2 < nOut) :
    (chooseProxyDialer w ob dst d route nOut).2.outbound = some ob2 ∧
    (chooseProxyDialer w ob dst d route nOut).2.target =
      (chooseDialTarget (chooseDialTarget w ob dst d).1 ob2 dst d).2.target ∧
    (chooseProxyDialer w ob dst d route nOut).2.dialIp =
      (chooseDialTarget (chooseDialTarget w ob dst d).1 ob2 dst d).2.dialIp ∧
    (isReserved ob2 = true →
      (chooseProxyDialer w ob dst d route nOut).2.target = fmtAddrPort dst ∧
      (chooseProxyDialer w ob dst d route nOut).2.dialIp = true) := by
  unfold chooseProxyDialer
  rcases hc : chooseDialTarget w ob dst d with ⟨w1, c1⟩
  rw [hc] at h
  simp only [] at h ⊢
  have hob : (if c1.reroute = true then outboundControlPlaneRouting else ob) = outboundControlPlaneRouting := by
    rcases h with h | h
    · rw [if_pos h]
    · split
      · rfl
      · exact h
  rw [if_pos hob, hrt]
  simp only []
  refine ⟨?_, ?_, ?_, ?_⟩
  · simp [Nat.not_le.mpr hlt]
  · simp [Nat.not_le.mpr hlt]
  · simp [Nat.not_le.mpr hlt]
  · intro hres
    rw [ip_target_when_ip_mode_or_no_name_or_reserved w1 ob2 dst d (Or.inr (Or.inr hres))]
    simp [Nat.not_le.mpr hlt]

/-- … and when routing by the name fails or names an outbound that does not exist, nothing is dialled. -/
theorem reroute_failure_no_dial (w : World) (ob nOut : Nat) (dst : Dst) (d : Str) (route : Str → Option Nat)
    (h : (chooseDialTarget w ob dst d).2.reroute = true ∨ ob = outboundControlPlaneRouting)
    (hrt : route d = none ∨ ∃ ob2, route d = some ob2 ∧ nOut ≤ ob2) :
    (chooseProxyDialer w ob dst d route nOut).2.outbound = none := by
  unfold chooseProxyDialer
  rcases hc : chooseDialTarget w ob dst d with ⟨w1, c1⟩
  rw [hc] at h
  simp only [] at h ⊢
  have hob : (if c1.reroute = true then outboundControlPlaneRouting else ob) = outboundControlPlaneRouting := by
    rcases h with h | h
    · rw [if_pos h]
    · split
      · rfl
      · exact h
  rw [if_pos hob]
  rcases hrt with hn | ⟨ob2, hs, hge⟩
  · rw [hn]
  · rw [hs]; simp [hge]

example :
    -- domain mode, genuine name (knowledge), routing sends the name to `direct` (0): IP target
    let w : World := { mode := .domain, now := 5, know := [("re.test.1".toList, 9)] }
    let route : Str → Option Nat := fun n => if n = "re.test".toList then some 0 else some 4
    (chooseDialTarget w 2 ⟨true, 0x01020304, 443⟩ "re.test".toList).2.target = "re.test:443".toList ∧
    (chooseProxyDialer w 2 ⟨true, 0x01020304, 443⟩ "re.test".toList route 5).2
      = { outbound := some 0, target := "1.2.3.4:443".toList, dialIp := true, probeReq := none } := by decide

/-- a kernel verdict "route in the control plane" (`OutboundControlPlaneRouting`, also the fallback
when the routing result is missing), in EVERY mode: the outbound is the routing answer for the
sniffed name and the target is what `ChooseDialTarget` says for that outbound. -/
theorem control_plane_routing_dial (w : World) (nOut : Nat) (dst : Dst) (d : Str) (route : Str → Option Nat) :
    chooseProxyDialer w outboundControlPlaneRouting dst d route nOut =
      match route d with
      | none => (w, { outbound := none, target := [], dialIp := false, probeReq := none })
      | some ob2 =>
        let r := chooseDialTarget w ob2 dst d
        if ob2 ≥ nOut then (r.1, { outbound := none, target := [], dialIp := false, probeReq := r.2.probeReq })
        else (r.1, { outbound := some ob2, target := r.2.target, dialIp := r.2.dialIp, probeReq := r.2.probeReq }) := by
  unfold chooseProxyDialer
  rw [ip_target_when_ip_mode_or_no_name_or_reserved w outboundControlPlaneRouting dst d (Or.inr (Or.inr (by decide)))]
  simp only [Bool.false_eq_true, if_false, if_true]
  cases route d with
  | none => rfl
  | some ob2 =>
    simp only []
    rcases chooseDialTarget w ob2 dst d with ⟨w2, c2⟩
    have : (none <|> c2.probeReq) = c2.probeReq := by cases c2.probeReq <;> rfl
    simp only [this]

/-- a genuine name stays genuine for the second `ChooseDialTarget` of the same dial. -/
theorem genuine_stable (w : World) (ob : Nat) (dst : Dst) (d : Str) (hg : genuine w dst d = true) :
    genuine (chooseDialTarget w ob dst d).1 dst d = true := by
  have sh := chooseDialTarget_shrinks w ob dst d
  have sr := by
    have := decideMode_sameReal w ob dst d
    exact this
  have e1 : (chooseDialTarget w ob dst d).1 = (decideMode w ob dst d).1 := by
    rw [chooseDialTarget_eq]; simp only []; split <;> rfl
  rw [e1]
  rw [genuine_iff] at hg ⊢
  refine ⟨hg.1, ?_⟩
  rcases hg.2 with ⟨e, he, hlt⟩ | hr
  · -- a live knowledge entry is never deleted by the lazy deletions
    left
    have hh : Holds w (cacheKey d dst.is4) e := Or.inl ⟨e, he, Int.le_refl _⟩
    have hnow : (decideMode w ob dst d).1.now = w.now := by
      have a := decideMode_shrinks w ob dst d
      have b := decideMode_holds (bk := cacheKey d dst.is4) (od := w.now) (Or.inr (Int.le_refl _)) ob dst d
      -- time is not changed by `decideMode`
      unfold decideMode
      split
      · split
        · rfl
        · split
          · rfl
          · have k1 : (hasKnowledge w (cacheKey d dst.is4)).1.now = w.now := by
              unfold hasKnowledge; split
              · rfl
              · split
                · rfl
                · split <;> rfl
            rcases hk : hasKnowledge w (cacheKey d dst.is4) with ⟨w1, k⟩
            rw [hk] at k1
            simp only []
            split
            · exact k1
            · have k2 := (lookupReal_know w1 d).2
              rcases hl : lookupReal w1 d with ⟨w2, kn, re⟩
              rw [hl] at k2
              simp only []
              split
              · split <;> exact k2.trans k1
              · exact k2.trans k1
        · rfl
        · rfl
      · rfl
    rcases decideMode_holds hh ob dst d with ⟨e', he', hle⟩ | hpast
    · exact ⟨e', he', by rw [hnow]; omega⟩
    · rw [hnow] at hpast; omega
  · right
    rw [sr.1]; exact hr

/-- domain mode, genuine name, user outbound: the flow is re-routed by the name (the code does this
in domain mode too), and the target is the name again for a user outbound, the IP for a built-in one. -/
theorem domain_mode_genuine_dial (w : World) (ob ob2 nOut : Nat) (dst : Dst) (d : Str)
    (route : Str → Option Nat)
    (hm : w.mode = .domain) (hr : isReserved ob = false) (hd : d ≠ []) (hg : genuine w dst d = true)
    (hrt : route d = some ob2) (hlt : ob2 < nOut) :
    (chooseProxyDialer w ob dst d route nOut).2.outbound = some ob2 ∧
    (chooseProxyDialer w ob dst d route nOut).2.target =
      (if isReserved ob2 then fmtAddrPort dst else (nameTarget d dst.port).1) ∧
    (chooseProxyDialer w ob dst d route nOut).2.dialIp =
      (if isReserved ob2 then true else (nameTarget d dst.port).2) := by
  have first := domain_mode_name_iff_genuine w ob dst d hm hr hd
  have hg1 := genuine_stable w ob dst d hg
  have hm1 : (chooseDialTarget w ob dst d).1.mode = .domain := by
    have e1 : (chooseDialTarget w ob dst d).1 = (decideMode w ob dst d).1 := by
      rw [chooseDialTarget_eq]; simp only []; split <;> rfl
    rw [e1, decideMode_domain w ob dst d hm hr hd]
    have k1 : (hasKnowledge w (cacheKey d dst.is4)).1.mode = w.mode := by
      unfold hasKnowledge; split
      · rfl
      · split
        · rfl
        · split <;> rfl
    have k2 : ∀ w1 : World, (lookupReal w1 d).1.mode = w1.mode := by
      intro w1; unfold lookupReal; split
      · rfl
      · split
        · split <;> rfl
        · rfl
    simp only []
    split
    · exact hm
    · split
      · rw [k1]; exact hm
      · split
        · split <;> (rw [k2, k1]; exact hm)
        · rw [k2, k1]; exact hm
  unfold chooseProxyDialer
  rcases hc : chooseDialTarget w ob dst d with ⟨w1, c1⟩
  rw [hc] at first hg1 hm1
  simp only [hg, if_true] at first
  simp only [] at hg1 hm1
  have hrr : c1.reroute = true := first.2.2
  simp only [hrr, if_true, hrt]
  cases h2 : isReserved ob2 with
  | true =>
    rw [ip_target_when_ip_mode_or_no_name_or_reserved w1 ob2 dst d (Or.inr (Or.inr h2))]
    simp [Nat.not_le.mpr hlt]
  | false =>
    have second := domain_mode_name_iff_genuine w1 ob2 dst d hm1 h2 hd
    rcases hc2 : chooseDialTarget w1 ob2 dst d with ⟨w2, c2⟩
    rw [hc2] at second
    simp only [hg1, if_true] at second
    simp [Nat.not_le.mpr hlt, second.1, second.2.1]

/-- `routeDial` retry (the node refused the first dial with "network unreachable" / "address not
suitable"): outside domain mode the second attempt makes exactly the same decision — same outbound,
same target. (In domain mode the second attempt re-reads the caches, which the probe started by the
first attempt may have filled in the meantime.) -/
theorem retry_makes_same_decision (w : World) (ob nOut : Nat) (dst : Dst) (d : Str)
    (route : Str → Option Nat) (settle : World → Option Str → World)
    (hm : w.mode ≠ .domain) (hs : ∀ w', settle w' none = w') :
    routeDial w ob dst d route nOut true settle =
      (w, if (chooseProxyDialer w ob dst d route nOut).2.outbound.isNone
          then [(chooseProxyDialer w ob dst d route nOut).2]
          else [(chooseProxyDialer w ob dst d route nOut).2, (chooseProxyDialer w ob dst d route nOut).2]) := by
  -- outside domain mode `ChooseDialTarget` neither changes the world nor requests a probe
  have cdt : ∀ ob', (chooseDialTarget w ob' dst d).1 = w ∧ (chooseDialTarget w ob' dst d).2.probeReq = none := by
    intro ob'
    by_cases h : w.mode = .ip ∨ d = [] ∨ isReserved ob' = true
    · rw [ip_target_when_ip_mode_or_no_name_or_reserved w ob' dst d h]; exact ⟨rfl, rfl⟩
    · have hd : d ≠ [] := fun e => h (Or.inr (Or.inl e))
      have hr : isReserved ob' = false := by cases hh : isReserved ob' <;> simp_all
      cases hmode : w.mode with
      | ip => exact absurd (Or.inl hmode) h
      | domain => exact absurd hmode hm
      | domainPlus => rw [domain_plus_name_unconditionally w ob' dst d hmode hr hd]; exact ⟨rfl, rfl⟩
      | domainCao => rw [domain_cao_name_and_reroute w ob' dst d hmode hr hd]; exact ⟨rfl, rfl⟩
  have fin : ∀ (ob' : Nat) (c : Choice), c.probeReq = none →
      (if ob' ≥ nOut then (w, ({ outbound := none, target := [], dialIp := false, probeReq := c.probeReq } : DialOut))
       else (w, { outbound := some ob', target := c.target, dialIp := c.dialIp, probeReq := c.probeReq })).1 = w ∧
      (if ob' ≥ nOut then (w, ({ outbound := none, target := [], dialIp := false, probeReq := c.probeReq } : DialOut))
       else (w, { outbound := some ob', target := c.target, dialIp := c.dialIp, probeReq := c.probeReq })).2.probeReq = none := by
    intro ob' c hp
    split <;> exact ⟨rfl, hp⟩
  have cpd : (chooseProxyDialer w ob dst d route nOut).1 = w ∧
      (chooseProxyDialer w ob dst d route nOut).2.probeReq = none := by
    unfold chooseProxyDialer
    have c1 := cdt ob
    rcases hc : chooseDialTarget w ob dst d with ⟨w1, c1'⟩
    rw [hc] at c1
    simp only [] at c1
    obtain ⟨rfl, hp1⟩ := c1
    simp only []
    by_cases hre : (if c1'.reroute = true then outboundControlPlaneRouting else ob) = outboundControlPlaneRouting
    · rw [if_pos hre]
      cases hrt : route d with
      | none => exact ⟨rfl, hp1⟩
      | some ob2 =>
        have c2 := cdt ob2
        simp only [hp1, c2.1, c2.2]
        split <;> exact ⟨rfl, rfl⟩
    · rw [if_neg hre]
      exact fin _ c1' hp1
  unfold routeDial
  rcases hcp : chooseProxyDialer w ob dst d route nOut with ⟨w1, o1⟩
  rw [hcp] at cpd
  simp only [] at cpd
  obtain ⟨rfl, hp⟩ := cpd
  simp only [hp, hs, Bool.not_true, Bool.or_false]
  cases ho : o1.outbound.isNone with
  | true => simp
  | false => simp [hcp, hp, hs]

example :
    let route : Str → Option Nat := fun n => if n = "re.test".toList then some 3 else some 0
    (chooseProxyDialer { mode := .domainCao } 2 ⟨true, 0x01020304, 443⟩ "re.test".toList route 5).2
      = { outbound := some 3, target := "re.test:443".toList, dialIp := false, probeReq := none } ∧
    (chooseProxyDialer { mode := .domainCao } 2 ⟨true, 0x01020304, 443⟩ "x.test".toList route 5).2
      = { outbound := some 0, target := "1.2.3.4:443".toList, dialIp := true, probeReq := none } ∧
    (chooseProxyDialer { mode := .domainPlus } 2 ⟨true, 0x01020304, 443⟩ "re.test".toList route 5).2
      = { outbound := some 2, target := "re.test:443".toList, dialIp := false, probeReq := none } := by
  decide

/-! ## normalisation of the sniffed value

`(nameTarget d port).1` is the target the name rows above produce, `.2` the `dialIp` flag. -/

/-- An IP literal, bare or in brackets: target = `JoinHostPort(literal, dst port)` (brackets added
exactly when the literal contains `:`), and the dial is treated as an IP dial. -/
theorem ip_literal_normalised (d : Str) (p : Nat) (h : parseAddrOk (stripBrackets d) = true) :
    nameTarget d p = (joinHostPort (stripBrackets d) (itoa p), true) ∧
    (hasChar ':' (stripBrackets d) = false →
        (nameTarget d p).1 = stripBrackets d ++ ':' :: itoa p) ∧
    (hasChar ':' (stripBrackets d) = true →
        (nameTarget d p).1 = '[' :: (stripBrackets d ++ ']' :: ':' :: itoa p)) := by
  have e : nameTarget d p = (joinHostPort (stripBrackets d) (itoa p), true) := by
    unfold nameTarget; simp [h]
  refine ⟨e, ?_, ?_⟩ <;> intro hc <;> simp [e, joinHostPort, hc]

/-- the bracketed spelling gives the same target as the bare literal. -/
theorem bracketed_literal_same_as_bare (x : Str) (p : Nat) (hx : hasChar '[' x = false) :
    nameTarget ('[' :: (x ++ [']'])) p = nameTarget x p := by
  unfold nameTarget
  rw [stripBrackets_bracketed, stripBrackets_of_no_open hx]

/-- A value that already carries a port (and is not a literal): sent as it is, port included. -/
theorem carried_port_kept (d h q : Str) (p : Nat) (hn : parseAddrOk (stripBrackets d) = false)
    (hs : splitHostPort (stripBrackets d) = some (h, q)) :
    nameTarget d p = (stripBrackets d, false) ∧ splitHostPort (nameTarget d p).1 = some (h, q) := by
  have e : nameTarget d p = (stripBrackets d, false) := by
    unfold nameTarget; simp [hn, hs]
  exact ⟨e, by rw [e]; exact hs⟩

/-- Anything else: `JoinHostPort(name, dst port)`. -/
theorem plain_name_joined (d : Str) (p : Nat) (hn : parseAddrOk (stripBrackets d) = false)
    (hs : splitHostPort (stripBrackets d) = none) :
    nameTarget d p = (joinHostPort (stripBrackets d) (itoa p), false) := by
  unfold nameTarget; simp [hn, hs]

/-- **Never a malformed target**: whenever the sniffed value (after removing one enclosing pair of
brackets) contains no `[` or `]`, the target parses back with `net.SplitHostPort` — to exactly
(value, destination port), or, when the value carried its own port, to that host and port. -/
theorem name_target_well_formed (d : Str) (p : Nat)
    (hb : hasChar '[' (stripBrackets d) = false ∧ hasChar ']' (stripBrackets d) = false) :
    splitHostPort (nameTarget d p).1 = some (stripBrackets d, itoa p) ∨
    ((nameTarget d p).1 = stripBrackets d ∧ (splitHostPort (stripBrackets d)).isSome = true) :=
  nameTarget_wellFormed d p hb

/-- every zone-less IP literal is bracket-free, hence covered by `name_target_well_formed`:
the target of a literal `lit` (bare or `[lit]`) splits back into `(lit, dst port)`. -/
theorem ip_literal_target_well_formed (d : Str) (p : Nat) (h : parseAddrOk (stripBrackets d) = true)
    (hz : hasChar '%' (stripBrackets d) = false) :
    splitHostPort (nameTarget d p).1 = some (stripBrackets d, itoa p) ∧ (nameTarget d p).2 = true := by
  have nb := parseAddrOk_noBr h hz
  have e := (ip_literal_normalised d p h).1
  rw [e]
  have pp := itoa_plain p
  exact ⟨joinHostPort_wellFormed _ _ nb.1 nb.2 pp.1 pp.2.1 pp.2.2, rfl⟩

/-- the IP rows: `dst.String()` always parses back into (address text, port). -/
theorem ip_target_well_formed (dst : Dst) :
    splitHostPort (fmtAddrPort dst) = some (fmtAddr dst, itoa dst.port) :=
  fmtAddrPort_wellFormed dst

example : (nameTarget "[2606:4700:20::681a:d1f]".toList 443) = ("[2606:4700:20::681a:d1f]:443".toList, true) := by decide
example : (nameTarget "2606:4700:20::681a:d1f".toList 443) = ("[2606:4700:20::681a:d1f]:443".toList, true) := by decide
example : (nameTarget "1.2.3.4".toList 80) = ("1.2.3.4:80".toList, true) := by decide
example : (nameTarget "[1.2.3.4]".toList 80) = ("1.2.3.4:80".toList, true) := by decide
example : (nameTarget "Example.COM.".toList 80) = ("Example.COM.:80".toList, false) := by decide
example : (nameTarget "example.com:8443".toList 80) = ("example.com:8443".toList, false) := by decide
example : (nameTarget "[::1]:8443".toList 80) = ("[::1]:8443".toList, false) := by decide
example : (nameTarget "a:b:c".toList 80) = ("[a:b:c]:80".toList, false) := by decide
-- the hypothesis of `name_target_well_formed` is needed: an inner bracket gives a target that
-- `net.SplitHostPort` rejects (see design note: zone identifiers / garbage with brackets)
example : splitHostPort (nameTarget "fe80::1%]x".toList 80).1 = none := by decide
example : parseAddrOk "fe80::1%]x".toList = true := by decide

/-! ### the sniffer's own normalisation (`sniffing.NormalizeDomain`), end to end -/

/-- **Every** bracket-free raw value (names in any case, `name:port`, `name.:port`, IPv4, bare or
zoned IPv6 literals, garbage with any number of colons …): after `NormalizeDomain` no port and no
bracket is left. -/
theorem sniffed_value_no_port_left (raw : Str)
    (hb : hasChar '[' (preNorm raw) = false ∧ hasChar ']' (preNorm raw) = false) :
    splitHostPort (normalizeDomain raw) = none ∧
    hasChar '[' (normalizeDomain raw) = false ∧ hasChar ']' (normalizeDomain raw) = false :=
  normalize_leaves_no_port hb

/-- … hence the target built from it is exactly `JoinHostPort(value, destination port)`: the host
part is the (non-empty, when the name row applies) normalised value itself, the port part is the
decimal destination port; the dial is an IP dial exactly when the value is an IP literal. The
carried-port branch of `nameTarget` (host and port unchecked) is unreachable for sniffer-produced
values; it serves callers that pass an un-normalised value (`RouteDialTcp`). -/
theorem sniffed_value_target (raw : Str) (p : Nat)
    (hb : hasChar '[' (preNorm raw) = false ∧ hasChar ']' (preNorm raw) = false) :
    nameTarget (normalizeDomain raw) p =
      (joinHostPort (normalizeDomain raw) (itoa p), parseAddrOk (normalizeDomain raw)) ∧
    splitHostPort (nameTarget (normalizeDomain raw) p).1 = some (normalizeDomain raw, itoa p) :=
  normalized_target p hb

example : normalizeDomain "2606:4700::1111%ETH0".toList = "2606:4700::1111%eth0".toList ∧
    (nameTarget (normalizeDomain "2606:4700::1111%ETH0".toList) 443) = ("[2606:4700::1111%eth0]:443".toList, true) := by decide
example : normalizeDomain "A.Test.:81".toList = "a.test.".toList := by decide
-- with brackets inside the claim fails: a port survives
example : normalizeDomain "[a.test:81]:80".toList = "a.test:81".toList := by decide

/-- plain names: lower-cased, surrounding space and one trailing dot removed — and then the
target is `name:port`. -/
theorem sniffed_plain_name (raw : Str) (p : Nat) (hp : Plain (preNorm raw)) :
    normalizeDomain raw =
      (if (preNorm raw).getLast? = some '.' then (preNorm raw).dropLast else preNorm raw) ∧
    splitHostPort (nameTarget (normalizeDomain raw) p).1 = some (normalizeDomain raw, itoa p) := by
  have n := normalize_plain hp
  refine ⟨n, ?_⟩
  -- the normalised name is a sub-list of a plain string, hence plain
  have hpl : Plain (normalizeDomain raw) := by
    rw [n]
    split
    · apply plain_of_forall
      intro c hc
      have hc' : c ∈ preNorm raw := List.dropLast_subset _ hc
      exact ⟨(hasChar_false_iff _ _).1 hp.1 c hc', (hasChar_false_iff _ _).1 hp.2.1 c hc',
             (hasChar_false_iff _ _).1 hp.2.2 c hc'⟩
    · exact hp
  have sb : stripBrackets (normalizeDomain raw) = normalizeDomain raw := stripBrackets_of_no_open hpl.2.1
  have hs : splitHostPort (normalizeDomain raw) = none := by unfold splitHostPort; rw [splitLast_none hpl.1]
  rcases nameTarget_wellFormed (normalizeDomain raw) p (by rw [sb]; exact hpl.noBr) with w | ⟨_, w⟩
  · rw [sb] at w; exact w
  · rw [sb, hs] at w; simp at w

/-- `name:port` and `v4:port`: the port is dropped by the sniffer, the destination port is used. -/
theorem sniffed_host_port (raw h q : Str) (p : Nat) (e : preNorm raw = h ++ ':' :: q)
    (hh : Plain h) (hq : Plain q) :
    normalizeDomain raw = h ∧
    splitHostPort (nameTarget (normalizeDomain raw) p).1 = some (h, itoa p) := by
  have n := normalize_host_port e hh hq
  refine ⟨n, ?_⟩
  rw [n]
  have sb : stripBrackets h = h := stripBrackets_of_no_open hh.2.1
  have hs : splitHostPort h = none := by unfold splitHostPort; rw [splitLast_none hh.1]
  rcases nameTarget_wellFormed h p (by rw [sb]; exact hh.noBr) with w | ⟨_, w⟩
  · rw [sb] at w; exact w
  · rw [sb, hs] at w; simp at w

/-- `[literal]` and `[literal]:port`: the sniffer hands over the bare literal; the target is
`JoinHostPort(literal, dst port)` and the dial is an IP dial. -/
theorem sniffed_bracketed_literal (raw x q : Str) (p : Nat)
    (e : preNorm raw = '[' :: (x ++ [']']) ∨ (preNorm raw = '[' :: (x ++ ']' :: ':' :: q) ∧ Plain q))
    (hx : parseAddrOk x = true) (hz : hasChar '%' x = false) :
    normalizeDomain raw = x ∧
    nameTarget (normalizeDomain raw) p = (joinHostPort x (itoa p), true) ∧
    splitHostPort (joinHostPort x (itoa p)) = some (x, itoa p) := by
  have nb := parseAddrOk_noBr hx hz
  have hne : x ≠ [] := by rintro rfl; simp [parseAddrOk] at hx
  have n : normalizeDomain raw = x := by
    rcases e with e | ⟨e, hq⟩
    · exact normalize_bracketed e nb hne
    · exact normalize_bracketed_port e nb hq
  have sb : stripBrackets x = x := stripBrackets_of_no_open nb.1
  have l := ip_literal_normalised x p (by rw [sb]; exact hx)
  have pp := itoa_plain p
  rw [n]
  refine ⟨rfl, ?_, joinHostPort_wellFormed _ _ nb.1 nb.2 pp.1 pp.2.1 pp.2.2⟩
  rw [l.1, sb]

example : normalizeDomain " WWW.Example.COM. ".toList = "www.example.com".toList := by decide
example : normalizeDomain "Example.com:8443".toList = "example.com".toList := by decide
example : normalizeDomain "[2606:4700::1111]:443".toList = "2606:4700::1111".toList := by decide
example : normalizeDomain "[2606:4700::1111]".toList = "2606:4700::1111".toList := by decide
example : normalizeDomain "2606:4700::1111".toList = "2606:4700::1111".toList := by decide

/-! ## "known to be genuine": where knowledge and the verified set come from

Histories are lists of `Event`s (mode / resolver-count changes, clock advances, resolutions through
dae, cache removals, knowledge queries, `ChooseDialTarget` calls, completed probes) applied by
`run`; `trace w es` pairs every event with the world it was applied in. -/

/-- `HasDnsKnowledge` answers true **only** between an event that stored a cache entry of that key
family — a resolution through dae (original deadline = its time + TTL) or an entry carried over by
`RestoreReloadCache` with its original deadline — and that original deadline. Holds for every
history over the full writer alphabet (updates, removals, evictions, family removals, restores,
store close). -/
theorem knowledge_only_from_resolution_within_ttl (w0 : World)
    (hc : w0.cache = []) (hk : w0.know = []) (hr : w0.realSet = []) (es : List Event)
    (name : Str) (is4 : Bool)
    (h : (hasKnowledge (run w0 es) (cacheKey name is4)).2 = true) :
    ∃ x ∈ trace w0 es, ∃ ck od, Stored x ck od ∧ baseKeyOf ck = cacheKey name is4 ∧
      x.1.now ≤ (run w0 es).now ∧ (run w0 es).now < od := by
  obtain ⟨_, e, he, hlt⟩ := (hasKnowledge_true_iff _ _).1 h
  have inv := (Inv.init w0 hc hk hr).run es
  simp only [List.nil_append] at inv
  obtain ⟨x, hx, ck, hs, hb, hn⟩ := inv.know _ _ (Assoc.mem_of_get he)
  exact ⟨x, hx, ck, e, hs, hb, hn, hlt⟩

/-- … and when every update carries one of the key shapes of the production callers
(`ProductionKeyed`: the key computed from its own question, optionally followed by `|scope`) and
nothing was restored, the witness is a resolution **of that very name and address family**: same
canonical (lower-cased, fully qualified, `|` escaped) name, query type A for an IPv4 destination and
AAAA otherwise. No side condition on the characters of the names: since fix `4e63a53` a `|` inside a
question name is escaped in the key, so a question for `victim.1|x.zone.` no longer lands in the
family of (`victim`, A) (example below). For callers of `UpdateDnsCacheTtlWithKey` that pass a key
unrelated to the host the statement is false (second example). -/
theorem knowledge_names_the_resolved_name (w0 : World)
    (hc : w0.cache = []) (hk : w0.know = []) (hr : w0.realSet = []) (es : List Event)
    (hpk : ∀ e ∈ es, ProductionKeyed e) (hnr : ∀ e ∈ es, ∀ l, e ≠ .dnsRestore l)
    (name : Str) (is4 : Bool)
    (h : (hasKnowledge (run w0 es) (cacheKey name is4)).2 = true) :
    ∃ x ∈ trace w0 es, ∃ host q ttl key,
      x.2 = .dnsUpdate host q ttl key ∧ (dnsUpdate x.1 host q ttl key).2 = true ∧
      escBar (canonicalName (fqdnOf host)) = escBar (canonicalName name) ∧ itoa q = qtypeStr is4 ∧
      x.1.now ≤ (run w0 es).now ∧ (run w0 es).now < x.1.now + ttl := by
  obtain ⟨x, hx, ck, od, hs, hb, hn, hlt⟩ :=
    knowledge_only_from_resolution_within_ttl w0 hc hk hr es name is4 h
  have hev := mem_trace_event w0 es x hx
  rcases hs with ⟨host, q, ttl, key, h1, h2, h3, h4⟩ | ⟨l, h1, _⟩
  · have wk := wellKeyed_of_production _ (hpk _ hev)
    rw [h1] at wk
    have wk' : baseKeyOf (updateKey host q key) = cacheKeyQ (fqdnOf host) q := wk
    rw [h3, hb] at wk'
    obtain ⟨e1, e2⟩ := cacheKeyQ_eq_cacheKey (fqdnOf host) name q is4 wk'.symm
    exact ⟨x, hx, host, q, ttl, key, h1, h2, e1, e2, hn, by rw [← h4]; exact hlt⟩
  · exact absurd h1 (hnr _ hev l)

-- the defect fixed by 4e63a53: a question name containing `|` does not create knowledge for the
-- name in front of the `|` any more (unscoped and scoped key) …
example :
    let q := "victim.test.1|x.attacker.example.".toList
    (hasKnowledge (run {} [Event.dnsUpdate q 1 600000000000 []]) (cacheKey "victim.test".toList true)).2 = false ∧
    (hasKnowledge (run {} [Event.dnsUpdate q 1 600000000000 (cacheKeyQ q 1 ++ "|asis@8.8.8.8:53".toList)])
      (cacheKey "victim.test".toList true)).2 = false ∧
    -- … while the name itself is known under its own (escaped) key
    (hasKnowledge (run {} [Event.dnsUpdate q 1 600000000000 []]) (cacheKey "victim.test.1|x.attacker.example".toList true)).2 = true := by
  decide

/-- Conversely, after a resolution through dae the answer stays true until the original deadline,
whatever else happens — except removals of cache entries of the same family (those recompute the
entry from the remaining scoped entries, `syncDnsKnowledgeLocked`). -/
theorem knowledge_holds_until_original_ttl (w : World) (host : Str) (is4 : Nat) (ttl : Int) (key : Str)
    (es : List Event)
    (hu : (dnsUpdate w host is4 ttl key).2 = true)
    (hne : baseKeyOf (updateKey host is4 key) ≠ [])
    (hes : ∀ e ∈ es, keepsFamily (baseKeyOf (updateKey host is4 key)) e)
    (hnow : (run (dnsUpdate w host is4 ttl key).1 es).now < w.now + ttl) :
    (hasKnowledge (run (dnsUpdate w host is4 ttl key).1 es) (baseKeyOf (updateKey host is4 key))).2 = true := by
  have hh := (dnsUpdate_holds w host is4 ttl key hu hne).run es hes
  rcases hh with ⟨e, he, hle⟩ | hh
  · exact (hasKnowledge_true_iff _ _).2 ⟨hne, e, he, by omega⟩
  · omega

-- the key under which `ChooseDialTarget` asks is the key under which `UpdateDnsCacheTtl` remembers
example : baseKeyOf (updateKey "Example.COM".toList 1 []) = cacheKey "example.com".toList true := by decide
example : baseKeyOf (updateKey "example.com.".toList 28 ("example.com.28|asis@1.1.1.1:53".toList))
    = cacheKey "EXAMPLE.com".toList false := by decide
-- why `ProductionKeyed` is needed: a caller passing a key unrelated to the host
example : (hasKnowledge (run {} [Event.dnsUpdate "evil.test".toList 1 600000000000 "victim.test.1|x".toList])
    (cacheKey "victim.test".toList true)).2 = true := by decide
-- non-vacuity of both theorems on a concrete history
example :
    let es := [Event.dnsUpdate "a.test".toList 1 2000000000 [], Event.advance 1999999999]
    (hasKnowledge (run {} es) (cacheKey "a.test".toList true)).2 = true ∧
    (hasKnowledge (run {} (es ++ [Event.advance 1])) (cacheKey "a.test".toList true)).2 = false := by decide

/-- upper case: the knowledge key ignores ASCII case (the verified set is case-sensitive, but the
sniffers lower-case before `ChooseDialTarget` sees the name). -/
theorem knowledge_key_ignores_case (d : Str) (is4 : Bool) (w : World) :
    cacheKey (d.map lowerAscii) is4 = cacheKey d is4 ∧
    (hasKnowledge w (cacheKey (d.map lowerAscii) is4)).2 = (hasKnowledge w (cacheKey d is4)).2 := by
  have e : cacheKey (d.map lowerAscii) is4 = cacheKey d is4 := by
    unfold cacheKey; rw [canonicalName_lower]
  exact ⟨e, by rw [e]⟩

example : cacheKey "WWW.Example.COM".toList true = cacheKey "www.example.com".toList true := by decide
-- trailing dot: same key with and without it
example : cacheKey "www.example.com.".toList false = cacheKey "www.example.com".toList false := by decide

/-! ### which DNS messages count as "resolved through dae" (`NormalizeAndCacheDnsResp_`) -/

/-- a message that is not a response, has no question, or whose rcode is not NOERROR leaves cache
and knowledge untouched. -/
theorem dns_response_ignored_unless_noerror (w : World) (isResp hasQ rcodeOk : Bool) (qname : Str) (qtype : Nat)
    (ttl : List Nat) (key : Str) (h : isResp = false ∨ hasQ = false ∨ rcodeOk = false) :
    dnsResp w isResp hasQ rcodeOk qname qtype ttl key = (w, false) := by
  unfold dnsResp
  rcases h with h | h | h <;> simp [h]

/-- a NOERROR response is a resolution with the TTL of its shortest-lived answer — and a NOERROR response
with an EMPTY answer section (NODATA) also is one, for `minFirefoxCacheTtl` (`w.minTtl`, 120 s in the code) (the code's
comment "Has A/AAAA records. It is a real domain." is not what is tested). Recorded as the code has it. -/
theorem dns_noerror_is_a_resolution (w : World) (qname : Str) (qtype : Nat) (key : Str) :
    (∀ (t : Nat) (ts : List Nat), ts.foldl min t ≤ 31536000 →
      dnsResp w true true true qname qtype (t :: ts) key =
        dnsUpdate w qname qtype ((ts.foldl min t : Nat) * 1000000000) key) ∧
    (w.minTtl ≤ 31536000 →
      dnsResp w true true true qname qtype [] key = dnsUpdate w qname qtype ((w.minTtl : Int) * 1000000000) key) := by
  unfold dnsResp
  refine ⟨fun t ts ht => ?_, ?_⟩
  · have : ¬ (31536000 < ts.foldl min t) := by omega
    simp [this]
  · intro hm
    have : ¬ (31536000 < w.minTtl) := by omega
    simp [this]

example : (hasKnowledge (dnsResp {} true true true "nodata.test.".toList 1 [] []).1 (cacheKey "nodata.test".toList true)).2 = true := by decide
example : (hasKnowledge (dnsResp {} true true false "nx.test.".toList 1 [] []).1 (cacheKey "nx.test".toList true)).2 = false := by decide

/-- the verified set only ever contains names for which a probe completed with an address from
some bootstrap resolver. -/
theorem real_set_only_from_positive_probe (w0 : World)
    (hc : w0.cache = []) (hk : w0.know = []) (hr : w0.realSet = []) (es : List Event) (d : Str)
    (h : d ∈ (run w0 es).realSet) :
    ∃ x ∈ trace w0 es, ∃ ans, (x.2 = .probeDone d ans ∨ ∃ t0, x.2 = .probeFinish d t0 ans) ∧ x.1.nboot ≠ 0 ∧
      ((probeResult x.1 ans).ip4 || (probeResult x.1 ans).ip6) = true ∧
      ((probeResult x.1 ans).err4 && (probeResult x.1 ans).err6) = false := by
  have inv := (Inv.init w0 hc hk hr).run es
  simp only [List.nil_append] at inv
  obtain ⟨x, hx, hp⟩ := inv.real d h
  exact ⟨x, hx, hp⟩

/-- the verified set never holds more names than the filter behind it is sized for
(`realDomainSetCapacity`): within that capacity the Bloom filter's false-positive rate is its design
rate (≤ 0.001), which is the one approximation between `realSet` and the code. -/
theorem real_set_bounded (w0 : World) (hr : w0.realSet = []) (ha : w0.realAdds = 0) (es : List Event) :
    (run w0 es).realSet.length ≤ (run w0 es).realAdds ∧ (run w0 es).realAdds ≤ realCap := by
  have : Bounded w0 := by unfold Bounded; rw [hr, ha]; simp [realCap]
  exact this.run es

/-- Putting it together: in domain mode a name is sent to the proxy only if, earlier in the
history, an entry of its (name, family) key was stored by a resolution through dae or carried over
by a reload, original deadline not yet over — or the name was verified by a positive probe. -/
theorem genuine_name_has_witness (w0 : World)
    (hc : w0.cache = []) (hk : w0.know = []) (hr : w0.realSet = []) (es : List Event)
    (dst : Dst) (d : Str) (h : genuine (run w0 es) dst d = true) :
    isIPLike d = false ∧
    ((∃ x ∈ trace w0 es, ∃ ck od, Stored x ck od ∧ baseKeyOf ck = cacheKey d dst.is4 ∧
        x.1.now ≤ (run w0 es).now ∧ (run w0 es).now < od) ∨
     (∃ x ∈ trace w0 es, ∃ ans, (x.2 = .probeDone d ans ∨ ∃ t0, x.2 = .probeFinish d t0 ans) ∧ x.1.nboot ≠ 0 ∧
        ((probeResult x.1 ans).ip4 || (probeResult x.1 ans).ip6) = true ∧
        ((probeResult x.1 ans).err4 && (probeResult x.1 ans).err6) = false)) := by
  unfold genuine at h
  simp only [Bool.and_eq_true, Bool.not_eq_true', Bool.or_eq_true] at h
  refine ⟨h.1, ?_⟩
  rcases h.2 with hkn | hrs
  · exact Or.inl (knowledge_only_from_resolution_within_ttl w0 hc hk hr es d dst.is4 hkn)
  · exact Or.inr (real_set_only_from_positive_probe w0 hc hk hr es d (by simpa using hrs))

/-! ### the probe: when it is started and what it changes -/

/-- domain mode, user outbound, a name that is not IP-like, has no live knowledge for the
destination's family, is not in the verified set and has no live negative entry: the flow gets the
destination IP (no re-route), **a probe of exactly this name is requested**, and the world is
unchanged up to the two lazy deletions of expired entries (`cleaned`). A second call made while the
probe is still in flight decides the same and changes nothing more. -/
theorem unknown_name_requests_probe (w : World) (ob : Nat) (dst : Dst) (d : Str)
    (hm : w.mode = .domain) (hr : isReserved ob = false) (hd : d ≠ []) (hi : isIPLike d = false)
    (hk : ∀ e, w.know.get (cacheKey d dst.is4) = some e → e ≤ w.now)
    (hrs : w.realSet.contains d = false)
    (hn : ∀ e, w.neg.get d = some e → e ≤ w.now) :
    chooseDialTarget w ob dst d =
      (cleaned w (cacheKey d dst.is4) d,
       { target := fmtAddrPort dst, reroute := false, dialIp := true, probeReq := some d }) ∧
    chooseDialTarget (cleaned w (cacheKey d dst.is4) d) ob dst d =
      (cleaned w (cacheKey d dst.is4) d,
       { target := fmtAddrPort dst, reroute := false, dialIp := true, probeReq := some d }) := by
  have first : ∀ w' : World, w'.mode = .domain →
      (∀ e, w'.know.get (cacheKey d dst.is4) = some e → e ≤ w'.now) → w'.realSet.contains d = false →
      (∀ e, w'.neg.get d = some e → e ≤ w'.now) →
      chooseDialTarget w' ob dst d =
        (cleaned w' (cacheKey d dst.is4) d,
         { target := fmtAddrPort dst, reroute := false, dialIp := true, probeReq := some d }) := by
    intro w' hm' hk' hrs' hn'
    rw [chooseDialTarget_eq, decideMode_unknown w' ob dst d hm' hr hd hi hk' hrs' hn']
    rfl
  refine ⟨first w hm hk hrs hn, ?_⟩
  -- the cleaned world satisfies the same hypotheses and is a fixed point of `cleaned`
  obtain ⟨k1, k2, k3, k4, _⟩ := dropExpiredKnow_frame w (cacheKey d dst.is4)
  obtain ⟨n1, n2, n3, n4, _⟩ := dropExpiredNeg_frame (dropExpiredKnow w (cacheKey d dst.is4)) d
  have gk : (cleaned w (cacheKey d dst.is4) d).know.get (cacheKey d dst.is4) = none := by
    unfold cleaned; rw [n4]; exact dropExpiredKnow_get w _ hk
  have gn : (cleaned w (cacheKey d dst.is4) d).neg.get d = none := by
    unfold cleaned
    exact dropExpiredNeg_get _ d (by rw [k4, k2]; exact hn)
  have step2 := first (cleaned w (cacheKey d dst.is4) d)
    (by unfold cleaned; rw [n1, k1]; exact hm)
    (by intro e he; rw [gk] at he; cases he)
    (by unfold cleaned; rw [n3, k3]; exact hrs)
    (by intro e he; rw [gn] at he; cases he)
  rw [step2]
  have fix : cleaned (cleaned w (cacheKey d dst.is4) d) (cacheKey d dst.is4) d = cleaned w (cacheKey d dst.is4) d := by
    have a : dropExpiredKnow (cleaned w (cacheKey d dst.is4) d) (cacheKey d dst.is4) = cleaned w (cacheKey d dst.is4) d := by
      unfold dropExpiredKnow; rw [gk]
    show dropExpiredNeg (dropExpiredKnow (cleaned w (cacheKey d dst.is4) d) (cacheKey d dst.is4)) d = _
    rw [a]
    unfold dropExpiredNeg; rw [gn]
  rw [fix]

/-- what a completed probe of a not-yet-known name changes: nothing without a bootstrap resolver
(fail closed) or when both lookups failed (timeout included); a negative entry for
`realDomainNegativeCacheTTL` when the resolvers answered without an address; the name joins the
verified set when some resolver returned an address. -/
theorem probe_outcomes (w : World) (d : Str) (ans : List Ans)
    (hrs : w.realSet.contains d = false) (hn : ∀ e, w.neg.get d = some e → e ≤ w.now) :
    let w1 := dropExpiredNeg w d
    let r := probeResult w ans
    probe w d ans =
      if w.nboot = 0 then w1
      else if r.err4 && r.err6 then w1
      else if !r.ip4 && !r.ip6 then { w1 with neg := w1.neg.put d (w1.now + w1.negTtl) }
      else addVerified w1 d := by
  obtain ⟨_, _, _, _, _, _, nb⟩ := dropExpiredNeg_frame w d
  unfold probe probeResult
  rw [lookupReal_of_unknown w d hrs hn]
  simp only [Bool.false_eq_true, if_false, nb]

/-- two flows probing the same name: once the first completion made the name verified, a second
completion (whatever it was answered) changes nothing. -/
theorem second_probe_is_noop (w : World) (d : Str) (ans : List Ans) (h : d ∈ w.realSet) :
    probe w d ans = w := by
  unfold probe lookupReal
  have : w.realSet.contains d = true := by simpa using h
  rw [if_pos this]
  rfl

example :
    let w : World := { mode := .domain, nboot := 2 }
    let d := "new.test".toList
    -- first sight: IP + probe; positive completion; second sight: the name
    (chooseDialTarget w 2 ⟨true, 0x01020304, 443⟩ d).2.probeReq = some d ∧
    (chooseDialTarget (probe w d [⟨false, false, true, true⟩, ⟨true, false, false, false⟩]) 2 ⟨true, 0x01020304, 443⟩ d).2.target
      = "new.test:443".toList ∧
    -- both lookups of every resolver failed (e.g. timeout): nothing is cached, probed again next time
    (probe w d [⟨false, false, true, true⟩, ⟨false, false, true, true⟩]).neg = [] ∧
    (probe w d [⟨false, false, true, true⟩, ⟨false, false, true, true⟩]).realSet = [] ∧
    -- no address, no error: negative entry for 10 s
    (probe w d [⟨false, false, false, false⟩]).neg = [(d, 10000000000)] := by decide

/-- a negatively cached name (probe said "no such name", entry not yet expired) is neither used
nor probed again. -/
theorem negative_cached_name_not_used (w : World) (ob : Nat) (dst : Dst) (d : Str) (e : Int)
    (hm : w.mode = .domain) (hg : genuine w dst d = false)
    (hneg : w.neg.get d = some e) (hlive : w.now < e) :
    (chooseDialTarget w ob dst d).2.target = fmtAddrPort dst ∧
    (chooseDialTarget w ob dst d).2.probeReq = none := by
  refine ⟨(domain_mode_otherwise_ip w ob dst d hm hg).1, ?_⟩
  by_cases h : d = [] ∨ isReserved ob = true
  · rw [ip_target_when_ip_mode_or_no_name_or_reserved w ob dst d (Or.inr h)]
  · have hd : d ≠ [] := fun e => h (Or.inl e)
    have hr : isReserved ob = false := by cases hh : isReserved ob <;> simp_all
    rw [chooseDialTarget_eq, decideMode_domain w ob dst d hm hr hd]
    unfold genuine at hg
    cases hi : isIPLike d with
    | true => simp
    | false =>
      rw [hi] at hg
      simp only [Bool.not_false, Bool.true_and, Bool.or_eq_false_iff] at hg
      -- the negative entry survives `hasKnowledge` and is found by `lookupReal`
      have hnegk : (hasKnowledge w (cacheKey d dst.is4)).1.neg = w.neg ∧
          (hasKnowledge w (cacheKey d dst.is4)).1.now = w.now := by
        unfold hasKnowledge; split
        · exact ⟨rfl, rfl⟩
        · split
          · exact ⟨rfl, rfl⟩
          · split <;> exact ⟨rfl, rfl⟩
      have hrs := hasKnowledge_realSet w (cacheKey d dst.is4)
      have hl : (lookupReal (hasKnowledge w (cacheKey d dst.is4)).1 d).2.1 = true ∧
          (lookupReal (hasKnowledge w (cacheKey d dst.is4)).1 d).2.2 = false := by
        unfold lookupReal
        rw [hrs, hnegk.1, hnegk.2, hg.2, hneg]
        simp [hlive]
      simp [hg.1, hl.1, hl.2]

example :
    let w : World := { mode := .domain, now := 5, neg := [("nx.test".toList, 9)] }
    (chooseDialTarget w 2 ⟨true, 0x01020304, 443⟩ "nx.test".toList).2 =
      { target := "1.2.3.4:443".toList, reroute := false, dialIp := true, probeReq := none } ∧
    -- once the negative entry expired the name is probed again
    (chooseDialTarget { w with now := 9 } 2 ⟨true, 0x01020304, 443⟩ "nx.test".toList).2.probeReq
      = some "nx.test".toList := by decide

/-! ## phase 3 — the probe is asynchronous

`probeAndUpdateRealDomain` blocks in the resolvers; connections, DNS answers, janitor ticks and reloads go
on meanwhile. The history theorems above (`knowledge_*`, `real_set_*`, `genuine_name_has_witness`) are over
the extended alphabet: `probeStart`/`probeFinish` anywhere in the history, `negCleanup`, `newGeneration`. -/

/-- the synchronous probe of the earlier phases is "start, then finish at once". -/
theorem probe_is_start_then_finish (w : World) (d : Str) (ans : List Ans) :
    probe w d ans =
      if (lookupReal w d).2.1 then (lookupReal w d).1
      else probeFinish (lookupReal w d).1 d (lookupReal w d).1.now ans := by
  unfold probe probeFinish
  rcases lookupReal w d with ⟨w1, known, real⟩
  cases known <;> rfl

/-- "no such name" is remembered from the probe's START (`now := time.Now()` is taken before the
lookups): the negative entry ends `realDomainNegativeCacheTTL` after the start, however long the
resolvers took — and until then the name is neither used nor probed again. -/
theorem negative_entry_stamped_from_probe_start (w : World) (d : Str) (t0 t : Int) (ans : List Ans)
    (hb : w.nboot ≠ 0)
    (he : ((probeResult w ans).err4 && (probeResult w ans).err6) = false)
    (hn : (!(probeResult w ans).ip4 && !(probeResult w ans).ip6) = true)
    (hrs : w.realSet.contains d = false) :
    probeFinish w d t0 ans = { w with neg := w.neg.put d (t0 + w.negTtl) } ∧
    (lookupReal { probeFinish w d t0 ans with now := t } d).2 = (decide (t < t0 + w.negTtl), false) := by
  have e1 : probeFinish w d t0 ans = { w with neg := w.neg.put d (t0 + w.negTtl) } := by
    unfold probeFinish probeResult at *
    rw [if_neg hb]
    simp only [he, hn, Bool.false_eq_true, if_false, if_true]
  refine ⟨e1, ?_⟩
  rw [e1]
  unfold lookupReal
  simp only [hrs, Bool.false_eq_true, if_false, Assoc.get_put_self]
  by_cases hl : t < t0 + w.negTtl <;> simp [hl]

example :
    let w : World := { mode := .domain, nboot := 1, now := 500000000 }
    -- started at 0.4 s, the resolver said "no such name" at 0.5 s: gone at 10.4 s, not at 10.5 s
    (lookupReal { probeFinish w "nx.test".toList 400000000 [⟨false, false, false, false⟩] with now := 10399999999 } "nx.test".toList).2 = (true, false) ∧
    (lookupReal { probeFinish w "nx.test".toList 400000000 [⟨false, false, false, false⟩] with now := 10400000000 } "nx.test".toList).2 = (false, false) := by
  decide

/-- **singleflight, over all interleavings**: whatever sequence of connections, probe completions,
cancellations, DNS traffic, janitor ticks, clock steps and reloads happens, there is never more than one
probe of a name in flight … -/
theorem one_probe_in_flight_per_name (es : List SysEv) :
    ((Sys.run {} es).pending.map (·.1)).Nodup :=
  Sys.run_nodup (s := {}) (by simp [Sys.NodupPending]) es

/-- … because a trigger for a name whose probe is in flight joins that probe and changes nothing. -/
theorem trigger_joins_probe_in_flight (s : Sys) (d : Str) (t0 : Int) (h : (d, t0) ∈ s.pending) :
    s.start d = s := by
  unfold Sys.start
  rw [if_pos (List.any_eq_true.2 ⟨(d, t0), h, by simp⟩)]

example :
    let s0 : Sys := { w := { mode := .domain, nboot := 1 } }
    let s1 := (s0.choose 2 ⟨true, 0x01020304, 443⟩ "new.test".toList).1
    let s2 := (s1.choose 3 ⟨true, 0x01020305, 443⟩ "new.test".toList).1
    s1.pending = [("new.test".toList, 0)] ∧ s2.pending = s1.pending ∧
    -- a positive completion verifies the name for both flows
    ((s2.finish "new.test".toList [⟨true, false, false, false⟩]).choose 2 ⟨true, 0x01020304, 443⟩ "new.test".toList).2.target
      = "new.test:443".toList := by decide

/-! ### the janitor's sweep (`cleanupNegativeCaches`) -/

/-- the negative set never holds two entries of one name (in every reachable world) … -/
theorem negative_set_has_one_entry_per_name (w0 : World) (h0 : w0.neg = []) (es : List Event) :
    ((run w0 es).neg.map (·.1)).Nodup :=
  run_negNodup (w := w0) (by rw [h0]; exact Assoc.nodup_nil) es

/-- … hence the sweep is invisible: `ChooseDialTarget` (target, re-route flag, IP flag, probe request)
and `lookupRealDomainCache` answer the same before and after it, for every name. -/
theorem neg_cleanup_invisible (w : World) (hnd : (w.neg.map (·.1)).Nodup) (ob : Nat) (dst : Dst) (d : Str) :
    (chooseDialTarget (negCleanup w) ob dst d).2 = (chooseDialTarget w ob dst d).2 ∧
    (lookupReal (negCleanup w) d).2 = (lookupReal w d).2 := by
  refine ⟨?_, (lookupReal_negCleanup hnd d).1⟩
  rw [chooseDialTarget_eq, chooseDialTarget_eq]
  have := (decideMode_negCleanup hnd ob dst d).1
  simp only []
  rw [this]
  split <;> rfl

example :
    let w : World := { mode := .domain, now := 20, neg := [("old.test".toList, 9), ("nx.test".toList, 30)] }
    (negCleanup w).neg = [("nx.test".toList, 30)] ∧
    (chooseDialTarget (negCleanup w) 2 ⟨true, 1, 443⟩ "old.test".toList).2.probeReq = some "old.test".toList ∧
    (chooseDialTarget (negCleanup w) 2 ⟨true, 1, 443⟩ "nx.test".toList).2.probeReq = none := by decide

/-! ### reloads -/

/-- a new generation starts with an empty verified set and an empty negative set: right after a
reload only DNS knowledge (carried over by the DNS store) makes a name genuine. -/
theorem new_generation_keeps_only_dns_knowledge (w : World) (m : Mode) (n : Nat) (dst : Dst) (d : Str)
    (h : genuine (newGeneration w m n) dst d = true) :
    (hasKnowledge w (cacheKey d dst.is4)).2 = true ∧ (newGeneration w m n).neg = [] ∧
    (newGeneration w m n).realSet = [] := by
  unfold genuine at h
  simp only [Bool.and_eq_true, Bool.not_eq_true', Bool.or_eq_true] at h
  refine ⟨?_, rfl, rfl⟩
  rcases h.2 with hk | hr
  · have e1 := (hasKnowledge_true_iff (newGeneration w m n) (cacheKey d dst.is4)).1 hk
    exact (hasKnowledge_true_iff w (cacheKey d dst.is4)).2 e1
  · simp [newGeneration] at hr

example :
    let w : World := { mode := .domain, now := 5, realSet := ["v.test".toList], realAdds := 1, know := [("k.test.1".toList, 9)] }
    genuine w ⟨true, 1, 443⟩ "v.test".toList = true ∧
    genuine (newGeneration w .domain 1) ⟨true, 1, 443⟩ "v.test".toList = false ∧
    genuine (newGeneration w .domain 1) ⟨true, 1, 443⟩ "k.test".toList = true := by decide

/-! ### a failing hook inside `__updateDnsCacheDeadline` -/

/-- fault at either hook of a DNS cache update: all or nothing. A failing `NewCache` leaves cache and
knowledge untouched; a failing cache-access callback (the kernel map batch update) is reported, but the
answer has been stored and its knowledge remembered — the client got that answer, the name counts as
resolved through dae. -/
theorem dns_update_fault_all_or_nothing (w : World) (host : Str) (q : Nat) (ttl : Int) (key : Str) :
    (dnsUpdateF w host q ttl key .newCache).1 = w ∧
    (dnsUpdateF w host q ttl key .accessCallback).1 = (dnsUpdate w host q ttl key).1 ∧
    (dnsUpdateF w host q ttl key .none).1 = (dnsUpdate w host q ttl key).1 := by
  have hb : (dnsUpdate w host q ttl key).2 = false → (dnsUpdate w host q ttl key).1 = w := by
    intro hf
    rw [dnsUpdate_eq] at hf ⊢
    split
    · rfl
    · rename_i hp; rw [if_neg hp] at hf; simp at hf
  cases h : (dnsUpdate w host q ttl key).2 with
  | true => simp [dnsUpdateF, h]
  | false => simp [dnsUpdateF, h, hb h]

example :
    (hasKnowledge (dnsUpdateF {} "a.test".toList 1 600000000000 [] .accessCallback).1 (cacheKey "a.test".toList true)).2 = true ∧
    (dnsUpdateF {} "a.test".toList 1 600000000000 [] .accessCallback).2 = (true, true) ∧
    (hasKnowledge (dnsUpdateF {} "a.test".toList 1 600000000000 [] .newCache).1 (cacheKey "a.test".toList true)).2 = false := by decide

/-! ## phase 3 — from the accepted connection to the dial (`handleConn`) -/

/-- `shouldTryTcpSniff` spelled out. -/
theorem sniff_policy (cfg : SniffCfg) (w : World) (tp : Bool) (ob port : Nat) :
    shouldTryTcpSniff cfg w tp ob port = false ↔
      (tp = false ∨ w.mode = .ip ∨ ob = 0 ∨ ob = 1 ∨ port ∈ cfg.excluded) := by
  unfold shouldTryTcpSniff
  cases tp <;> cases hm : w.mode <;> by_cases h0 : ob = 0 <;> by_cases h1 : ob = 1 <;>
    by_cases hp : port ∈ cfg.excluded <;> simp [h0, h1, hp]

/-- **A connection that is not sniffed dials the destination IP**: sniffing disabled (what the
constructor sets for `dial_mode: ip`), dial mode ip, kernel verdict direct or block, or a destination
port on the exclusion list — whatever the client sends, in every dial mode, the sniff negative cache is
not touched, no name reaches the dial decision, and every dial `routeDial` makes (first attempt and
retry, kernel outbound or the one userspace routing picks) goes to the converged original destination
as an IP dial. -/
theorem conn_not_sniffed_dials_ip (cfg : SniffCfg) (w : World) (s : SniffNeg) (tp : Bool) (kob : Option Nat)
    (loc : Dst) (key : Str) (p : Payload) (route : Str → Option Nat) (nOut : Nat) (ff : Bool)
    (settle : World → Option Str → World) (hs : ∀ w', settle w' none = w')
    (h : tp = false ∨ w.mode = .ip ∨ kob = some 0 ∨ kob = some 1 ∨ (converge loc).port ∈ cfg.excluded) :
    (handleConn cfg w s tp kob loc key p route nOut ff settle).1 = w ∧
    (handleConn cfg w s tp kob loc key p route nOut ff settle).2.1 = s ∧
    (handleConn cfg w s tp kob loc key p route nOut ff settle).2.2.1 = [] ∧
    ∀ o ∈ (handleConn cfg w s tp kob loc key p route nOut ff settle).2.2.2, o.outbound.isSome = true →
      o.target = fmtAddrPort (converge loc) ∧ o.dialIp = true := by
  have hpol : shouldTryTcpSniff cfg w tp (kob.getD outboundControlPlaneRouting) (converge loc).port = false := by
    rw [sniff_policy]
    rcases h with h | h | h | h | h
    · exact Or.inl h
    · exact Or.inr (Or.inl h)
    · exact Or.inr (Or.inr (Or.inl (by rw [h]; rfl)))
    · exact Or.inr (Or.inr (Or.inr (Or.inl (by rw [h]; rfl))))
    · exact Or.inr (Or.inr (Or.inr (Or.inr h)))
  have hd : connDomain cfg w s tp (kob.getD outboundControlPlaneRouting) (converge loc) key p = (s, []) := by
    rw [connDomain_eq, if_pos hpol]
  have hr := routeDial_ipRow w (kob.getD outboundControlPlaneRouting) (converge loc) [] route nOut ff settle hs (Or.inr rfl)
  rw [handleConn_eq, hd]
  exact ⟨hr.1, rfl, rfl, hr.2⟩

/-- the same when sniffing is suppressed for the flow signature by the negative cache. -/
theorem conn_suppressed_dials_ip (cfg : SniffCfg) (w : World) (s : SniffNeg) (tp : Bool) (kob : Option Nat)
    (loc : Dst) (key : Str) (p : Payload) (route : Str → Option Nat) (nOut : Nat) (ff : Bool)
    (settle : World → Option Str → World) (hs : ∀ w', settle w' none = w')
    (h : (sniffSkip cfg s key w.now).2 = true) :
    (handleConn cfg w s tp kob loc key p route nOut ff settle).2.2.1 = [] ∧
    ∀ o ∈ (handleConn cfg w s tp kob loc key p route nOut ff settle).2.2.2, o.outbound.isSome = true →
      o.target = fmtAddrPort (converge loc) ∧ o.dialIp = true := by
  have hd : (connDomain cfg w s tp (kob.getD outboundControlPlaneRouting) (converge loc) key p).2 = [] := by
    rw [connDomain_eq]
    split
    · rfl
    · rfl
  have hr := routeDial_ipRow w (kob.getD outboundControlPlaneRouting) (converge loc) [] route nOut ff settle hs (Or.inr rfl)
  rw [handleConn_eq, hd]
  exact ⟨rfl, hr.2⟩

/-- **A sniffed connection is dialled by the table**: sniffing applies, is not suppressed, and the
sniffer found `d` — then `handleConn` is `routeDial` for the kernel's outbound (userspace routing when
the tuple is missing), the converged destination and exactly that `d`; the flow signature's failure
count is cleared. All theorems about `routeDial` / `chooseProxyDialer` / `ChooseDialTarget` apply. -/
theorem conn_sniffed_is_dialled_by_the_table (cfg : SniffCfg) (w : World) (s : SniffNeg) (tp : Bool)
    (kob : Option Nat) (loc : Dst) (key : Str) (p : Payload) (d : Str) (route : Str → Option Nat) (nOut : Nat)
    (ff : Bool) (settle : World → Option Str → World)
    (hpol : shouldTryTcpSniff cfg w tp (kob.getD outboundControlPlaneRouting) (converge loc).port = true)
    (hskip : (sniffSkip cfg s key w.now).2 = false) (hout : sniffOutcome p = some d) :
    handleConn cfg w s tp kob loc key p route nOut ff settle =
      ((routeDial w (kob.getD outboundControlPlaneRouting) (converge loc) d route nOut ff settle).1,
       (sniffSkip cfg s key w.now).1.del key, d,
       (routeDial w (kob.getD outboundControlPlaneRouting) (converge loc) d route nOut ff settle).2) := by
  have hd : connDomain cfg w s tp (kob.getD outboundControlPlaneRouting) (converge loc) key p =
      ((sniffSkip cfg s key w.now).1.del key, d) := by
    rw [connDomain_eq, hpol, hskip, hout]
    simp
  rw [handleConn_eq, hd]

/-- what the sniffers hand over for a Host header value / a TLS server name, and the dial target
built from it when it is bracket-free: `JoinHostPort(normalised value, destination port)`. -/
theorem sniffed_host_value_target (raw : Str) (port : Nat) :
    (trimSpace raw ≠ [] → sniffOutcome (.http (some raw)) = some (normalizeDomain (trimSpace raw))) ∧
    (trimSpace raw = [] → sniffOutcome (.http (some raw)) = none) ∧
    sniffOutcome (.tls (some raw)) = some (normalizeDomain (dropDot raw)) ∧
    (∀ v, (v = trimSpace raw ∨ v = dropDot raw) →
      hasChar '[' (preNorm v) = false ∧ hasChar ']' (preNorm v) = false →
      splitHostPort (nameTarget (normalizeDomain v) port).1 = some (normalizeDomain v, itoa port)) := by
  refine ⟨fun h => ?_, fun h => ?_, rfl, fun v _ hb => (sniffed_value_target v port hb).2⟩
  · simp [sniffOutcome, h]
  · simp [sniffOutcome, h]

example : sniffOutcome (.http (some " Example.COM:8080 ".toList)) = some "example.com".toList ∧
    sniffOutcome (.http (some "  ".toList)) = none ∧ sniffOutcome (.http none) = none ∧
    sniffOutcome (.tls (some "Example.com.".toList)) = some "example.com".toList ∧
    sniffOutcome (.http (some "[2001:db8::1]:8080".toList)) = some "2001:db8::1".toList ∧
    sniffOutcome .silent = none := by decide

/-- the routing tuple is missing (handed over too early, expired …): the flow is routed in the control
plane — in every dial mode the outbound is the routing answer for the sniffed name. -/
theorem conn_missing_tuple_routes_in_userspace (cfg : SniffCfg) (w : World) (s : SniffNeg) (tp : Bool)
    (loc : Dst) (key : Str) (p : Payload) (route : Str → Option Nat) (nOut : Nat)
    (settle : World → Option Str → World) :
    let d := (connDomain cfg w s tp outboundControlPlaneRouting (converge loc) key p).2
    (handleConn cfg w s tp none loc key p route nOut false settle).2.2.2 =
      [(chooseProxyDialer w outboundControlPlaneRouting (converge loc) d route nOut).2] ∧
    ((chooseProxyDialer w outboundControlPlaneRouting (converge loc) d route nOut).2.outbound.isSome = true →
      (chooseProxyDialer w outboundControlPlaneRouting (converge loc) d route nOut).2.outbound = route d) := by
  intro d
  refine ⟨?_, ?_⟩
  · rw [handleConn_eq]
    simp only [Option.getD_none]
    unfold routeDial
    simp only [Bool.not_false, Bool.or_true, if_true]
    rfl
  · rw [control_plane_routing_dial]
    cases route d with
    | none => intro h; simp at h
    | some ob2 =>
      simp only []
      split
      · intro h; simp at h
      · intro _; rfl

example :
    let w : World := { mode := .domainPlus }
    let route : Str → Option Nat := fun n => if n = "re.test".toList then some 2 else some 4
    -- no tuple, TLS hello for re.test: routed by the name to group 2, the name is the target (domain+)
    (handleConn {} w [] true none ⟨false, 0xffff01020304, 443⟩ "k".toList (.tls (some "Re.Test.".toList)) route 5 false (fun w _ => w)).2.2
      = ("re.test".toList, [{ outbound := some 2, target := "re.test:443".toList, dialIp := false, probeReq := none }]) ∧
    -- kernel verdict direct: not sniffed, the (converged) IP
    (handleConn {} w [] true (some 0) ⟨false, 0xffff01020304, 443⟩ "k".toList (.tls (some "re.test".toList)) route 5 false (fun w _ => w)).2.2
      = ([], [{ outbound := some 0, target := "1.2.3.4:443".toList, dialIp := true, probeReq := none }]) := by decide

/-- the socket mark that accompanies the dial: the routing answer's after a re-route, the kernel
tuple's otherwise; `so_mark_from_dae` when that is zero. -/
theorem dial_mark_follows_reroute (w : World) (ob : Nat) (dst : Dst) (d : Str) (pm sm : Nat) (rm : Str → Nat) :
    (((chooseDialTarget w ob dst d).2.reroute = true ∨ ob = outboundControlPlaneRouting) →
      dialMark w ob dst d pm sm rm = if rm d = 0 then sm else rm d) ∧
    (((chooseDialTarget w ob dst d).2.reroute = false ∧ ob ≠ outboundControlPlaneRouting) →
      dialMark w ob dst d pm sm rm = if pm = 0 then sm else pm) := by
  unfold dialMark
  refine ⟨fun h => ?_, fun h => ?_⟩
  · have : ((chooseDialTarget w ob dst d).2.reroute || ob == outboundControlPlaneRouting) = true := by
      rcases h with h | h
      · simp [h]
      · simp [h]
    simp only [this, if_true]
  · have : ((chooseDialTarget w ob dst d).2.reroute || ob == outboundControlPlaneRouting) = false := by
      simp [h.1, h.2]
    simp only [this, Bool.false_eq_true, if_false]

example : dialMark { mode := .domainCao } 2 ⟨true, 1, 443⟩ "re.test".toList 5 256 (fun _ => 119) = 119 ∧
    dialMark { mode := .domainPlus } 2 ⟨true, 1, 443⟩ "re.test".toList 5 256 (fun _ => 119) = 5 ∧
    dialMark { mode := .domainPlus } 2 ⟨true, 1, 443⟩ "re.test".toList 0 256 (fun _ => 119) = 256 := by decide

/-! ### the sniff negative cache, over all histories -/

/-- **Sniffing is suppressed for a flow signature only after `tcpSniffFailureThreshold` failed sniffs
of that signature, the last of them less than `tcpSniffNegativeCacheTTL` ago** — for every history of
sniff attempts (all signatures interleaved), starting from the empty cache. In particular a single
failed sniff never withholds the name from later connections. -/
theorem sniff_suppression_needs_threshold_failures (cfg : SniffCfg) (hthr : 0 < cfg.thr) (es : List SniffEv)
    (key : Str) (now : Int) (h : (sniffSkip cfg (sniffRun cfg [] es) key now).2 = true) :
    cfg.thr ≤ countFails key es ∧ ∃ t, SniffEv.fail key t ∈ es ∧ now < t + cfg.ttl := by
  have inv := SniffInv.run hthr es (SniffInv.init cfg)
  simp only [List.nil_append] at inv
  unfold sniffSkip at h
  split at h
  · simp at h
  · split at h
    · simp at h
    · rename_i f e hg
      split at h
      · simp at h
      · rename_i hlive
        simp only [decide_eq_true_eq] at h
        obtain ⟨_, _, hc, hm⟩ := inv key f e hg
        exact ⟨by omega, e - cfg.ttl, hm, by omega⟩

/-- a successful sniff clears the signature's count; an entry stops suppressing at its expiry. -/
theorem sniff_success_clears_and_entries_expire (cfg : SniffCfg) (s : SniffNeg) (key : Str) (now : Int) :
    ((sniffSkip cfg s key now).2 = false → (sniffStep cfg s (.ok key now)).get key = none) ∧
    (∀ f e, s.get key = some (f, e) → e ≤ now → (sniffSkip cfg s key now).2 = false) := by
  refine ⟨fun h => ?_, fun f e hg he => ?_⟩
  · show (if (sniffSkip cfg s key now).2 = true then (sniffSkip cfg s key now).1
        else (sniffSkip cfg s key now).1.del key).get key = none
    rw [h]
    simp only [Bool.false_eq_true, if_false]
    exact Assoc.get_del_self _ _
  · unfold sniffSkip
    split
    · rfl
    · rw [hg]; simp only [he, if_true]

example :
    let cfg : SniffCfg := {}
    let k := "203.0.113.9:443/-".toList
    -- two failures: still sniffed; the third suppresses; a success in between starts over
    (sniffSkip cfg (sniffRun cfg [] [.fail k 0, .fail k 1]) k 2).2 = false ∧
    (sniffSkip cfg (sniffRun cfg [] [.fail k 0, .fail k 1, .fail k 2]) k 3).2 = true ∧
    (sniffSkip cfg (sniffRun cfg [] [.fail k 0, .fail k 1, .ok k 2, .fail k 3, .fail k 4]) k 5).2 = false ∧
    -- suppression ends tcpSniffNegativeCacheTTL after the last failure
    (sniffSkip cfg (sniffRun cfg [] [.fail k 0, .fail k 1, .fail k 2]) k 600000000002).2 = false := by decide

end DaeVerif.C18.Props
