import DaeVerif.C18.Model
/-! Helper lemmas for C18: the string functions (`splitFirst`/`splitLast`/`splitHostPort`), the
character classes of the formatters, association lists, and the history invariant. -/
namespace DaeVerif.C18

/-- "known to be genuine" as the code decides it in domain mode: not an IP-like value, and either
an unexpired knowledge entry for `(name, family of dst)` or membership in the verified set
(spelled out by `Props.genuine_iff`, traced back to events by `Props.genuine_name_has_witness`). -/
def genuine (w : World) (dst : Dst) (d : Str) : Bool :=
  !isIPLike d && ((hasKnowledge w (cacheKey d dst.is4)).2 || w.realSet.contains d)

/-! ## `hasChar` -/

@[simp] theorem hasChar_nil (c : Char) : hasChar c [] = false := rfl

@[simp] theorem hasChar_cons (c x : Char) (s : Str) : hasChar c (x :: s) = (x == c || hasChar c s) := by
  simp [hasChar]

@[simp] theorem hasChar_append (c : Char) (a b : Str) : hasChar c (a ++ b) = (hasChar c a || hasChar c b) := by
  simp [hasChar]

theorem hasChar_false_iff (c : Char) (s : Str) : hasChar c s = false ↔ ∀ x ∈ s, x ≠ c := by
  induction s with
  | nil => simp
  | cons x s ih => simp [ih]

theorem hasChar_true_iff (c : Char) (s : Str) : hasChar c s = true ↔ c ∈ s := by
  induction s with
  | nil => simp
  | cons x s ih =>
    simp only [hasChar_cons, Bool.or_eq_true, beq_iff_eq, ih, List.mem_cons]
    constructor
    · rintro (h | h); exact Or.inl h.symm; exact Or.inr h
    · rintro (h | h); exact Or.inl h.symm; exact Or.inr h

/-! ## `splitFirst` / `splitLast` -/

theorem splitLast_none {c : Char} {s : Str} (h : hasChar c s = false) : splitLast c s = none := by
  induction s with
  | nil => rfl
  | cons x s ih =>
    simp at h
    simp [splitLast, ih h.2, h.1]

theorem splitFirst_none {c : Char} {s : Str} (h : hasChar c s = false) : splitFirst c s = none := by
  induction s with
  | nil => rfl
  | cons x s ih =>
    simp at h
    simp [splitFirst, ih h.2, h.1]

/-- the last `c` of `a ++ c :: q` is the displayed one when `q` has none. -/
theorem splitLast_append {c : Char} (a q : Str) (hq : hasChar c q = false) :
    splitLast c (a ++ c :: q) = some (a, q) := by
  induction a with
  | nil => simp [splitLast, splitLast_none hq]
  | cons x a ih => simp [splitLast, ih]

/-- the first `c` of `a ++ c :: b` is the displayed one when `a` has none. -/
theorem splitFirst_append {c : Char} (a b : Str) (ha : hasChar c a = false) :
    splitFirst c (a ++ c :: b) = some (a, b) := by
  induction a with
  | nil => simp [splitFirst]
  | cons x a ih =>
    simp at ha
    simp [splitFirst, ih ha.2, ha.1]

theorem splitFirst_some {c : Char} {s a b : Str} (h : splitFirst c s = some (a, b)) :
    s = a ++ c :: b ∧ hasChar c a = false := by
  induction s generalizing a with
  | nil => simp [splitFirst] at h
  | cons x s ih =>
    unfold splitFirst at h
    split at h
    · rename_i hx; simp at h; obtain ⟨rfl, rfl⟩ := h; simp [hx]
    · rename_i hx
      split at h
      · rename_i a' b' h'
        simp at h; obtain ⟨rfl, rfl⟩ := h
        obtain ⟨e, hn⟩ := ih h'
        simp [e, hn, hx]
      · simp at h

theorem splitLast_some {c : Char} {s a b : Str} (h : splitLast c s = some (a, b)) :
    s = a ++ c :: b ∧ hasChar c b = false := by
  induction s generalizing a with
  | nil => simp [splitLast] at h
  | cons x s ih =>
    unfold splitLast at h
    split at h
    · rename_i a' b' h'
      simp at h; obtain ⟨rfl, rfl⟩ := h
      obtain ⟨e, hn⟩ := ih h'
      simp [e, hn]
    · rename_i h'
      split at h
      · rename_i hx
        simp at h; obtain ⟨rfl, rfl⟩ := h
        cases hc : hasChar c s with
        | false => simp [hx]
        | true =>
          exfalso
          -- a `c` in `s` would have made `splitLast c s` succeed
          have : ∀ t : Str, hasChar c t = true → splitLast c t ≠ none := by
            intro t; induction t with
            | nil => simp
            | cons y t iht =>
              intro hy; simp at hy
              unfold splitLast
              cases ht : splitLast c t with
              | some p => simp
              | none =>
                cases hy with
                | inl e => simp [e]
                | inr e => exact absurd ht (iht e)
          exact this s hc h'
      · simp at h

/-! ## `splitHostPort` on the two shapes `JoinHostPort` produces -/

/-- `host:port` with a host free of `:[]` and a port free of `:[]`. -/
theorem splitHostPort_plain (h q : Str)
    (h1 : hasChar ':' h = false) (h2 : hasChar '[' h = false) (h3 : hasChar ']' h = false)
    (q1 : hasChar ':' q = false) (q2 : hasChar '[' q = false) (q3 : hasChar ']' q = false) :
    splitHostPort (h ++ ':' :: q) = some (h, q) := by
  have hd : (h ++ ':' :: q).head? ≠ some '[' := by
    cases h with
    | nil => simp
    | cons x h => simp at h2; simp [h2.1]
  unfold splitHostPort
  simp only [splitLast_append h q q1, if_neg hd]
  simp [h1, h2, h3, q2, q3]

/-- `[host]:port` with a host free of `[]` and a port free of `:[]`. -/
theorem splitHostPort_bracketed (h q : Str)
    (h2 : hasChar '[' h = false) (h3 : hasChar ']' h = false)
    (q1 : hasChar ':' q = false) (q2 : hasChar '[' q = false) (q3 : hasChar ']' q = false) :
    splitHostPort ('[' :: (h ++ ']' :: ':' :: q)) = some (h, q) := by
  unfold splitHostPort
  have l : splitLast ':' ('[' :: (h ++ ']' :: ':' :: q)) = some ('[' :: (h ++ [']']), q) := by
    simpa using splitLast_append (c := ':') ('[' :: (h ++ [']'])) q q1
  have f : splitFirst ']' ('[' :: (h ++ ']' :: ':' :: q)) = some ('[' :: h, ':' :: q) := by
    simpa using splitFirst_append (c := ']') ('[' :: h) (':' :: q) (by simp [h3])
  rw [l]
  simp [f, h2, q2, q3]

theorem joinHostPort_wellFormed (h q : Str)
    (h2 : hasChar '[' h = false) (h3 : hasChar ']' h = false)
    (q1 : hasChar ':' q = false) (q2 : hasChar '[' q = false) (q3 : hasChar ']' q = false) :
    splitHostPort (joinHostPort h q) = some (h, q) := by
  unfold joinHostPort
  cases hc : hasChar ':' h with
  | true => simpa using splitHostPort_bracketed h q h2 h3 q1 q2 q3
  | false => simpa using splitHostPort_plain h q hc h2 h3 q1 q2 q3

/-! ## character classes of the formatters -/

/-- free of `:`, `[`, `]` -/
def Plain (s : Str) : Prop := hasChar ':' s = false ∧ hasChar '[' s = false ∧ hasChar ']' s = false
/-- free of `[`, `]` -/
def NoBr (s : Str) : Prop := hasChar '[' s = false ∧ hasChar ']' s = false

theorem Plain.noBr {s : Str} (h : Plain s) : NoBr s := ⟨h.2.1, h.2.2⟩

theorem plain_of_forall {s : Str} (h : ∀ c ∈ s, c ≠ ':' ∧ c ≠ '[' ∧ c ≠ ']') : Plain s :=
  ⟨(hasChar_false_iff _ _).2 fun c hc => (h c hc).1, (hasChar_false_iff _ _).2 fun c hc => (h c hc).2.1,
   (hasChar_false_iff _ _).2 fun c hc => (h c hc).2.2⟩

theorem noBr_of_forall {s : Str} (h : ∀ c ∈ s, c ≠ '[' ∧ c ≠ ']') : NoBr s :=
  ⟨(hasChar_false_iff _ _).2 fun c hc => (h c hc).1, (hasChar_false_iff _ _).2 fun c hc => (h c hc).2⟩

theorem noBr_append {a b : Str} (ha : NoBr a) (hb : NoBr b) : NoBr (a ++ b) := by
  simp [NoBr, ha.1, ha.2, hb.1, hb.2]

theorem itoa_digits (n : Nat) : ∀ c ∈ itoa n, c.isDigit = true := fun _ hc =>
  Nat.isDigit_of_mem_toDigits (by decide) (by decide) hc

theorem itoa_plain (n : Nat) : Plain (itoa n) := by
  apply plain_of_forall
  intro c hc
  have := itoa_digits n c hc
  refine ⟨?_, ?_, ?_⟩ <;> (rintro rfl; simp [Char.isDigit] at this)

theorem mem_intercal (sep : Str) : ∀ (l : List Str) (c : Char), c ∈ intercal sep l → c ∈ sep ∨ ∃ x ∈ l, c ∈ x
  | [], c, h => by simp [intercal] at h
  | [a], c, h => by simp only [intercal] at h; exact Or.inr ⟨a, by simp, h⟩
  | a :: b :: r, c, h => by
    simp only [intercal, List.mem_append] at h
    rcases h with (h | h) | h
    · exact Or.inr ⟨a, by simp, h⟩
    · exact Or.inl h
    · rcases mem_intercal sep (b :: r) c h with h | ⟨x, hx, hc⟩
      · exact Or.inl h
      · exact Or.inr ⟨x, List.mem_cons_of_mem _ hx, hc⟩

/-- chars of a dotted quad: digits and `.` -/
theorem fmtV4_plain (a : Nat) : Plain (fmtV4 a) := by
  apply plain_of_forall
  intro c hc
  rcases mem_intercal _ _ c hc with h | ⟨x, hx, h⟩
  · simp at h; subst h; decide
  · have : ∃ n, x = itoa n := by
      simp only [List.mem_cons, List.not_mem_nil, or_false] at hx
      rcases hx with rfl | rfl | rfl | rfl <;> exact ⟨_, rfl⟩
    obtain ⟨n, rfl⟩ := this
    have p := itoa_plain n
    exact ⟨(hasChar_false_iff _ _).1 p.1 c h, (hasChar_false_iff _ _).1 p.2.1 c h, (hasChar_false_iff _ _).1 p.2.2 c h⟩

theorem digitChar_noBr (n : Nat) : Nat.digitChar n ≠ '[' ∧ Nat.digitChar n ≠ ']' :=
  ⟨Nat.digitChar_ne '[' (by decide), Nat.digitChar_ne ']' (by decide)⟩

theorem hex16_noBr (x : Nat) : NoBr (hex16 x) := by
  apply noBr_of_forall
  intro c hc
  simp only [hex16, List.mem_append, List.mem_singleton] at hc
  rcases hc with ((h | h) | h) | h
  · split at h
    · simp at h; subst h; exact digitChar_noBr _
    · simp at h
  · split at h
    · simp at h; subst h; exact digitChar_noBr _
    · simp at h
  · split at h
    · simp at h; subst h; exact digitChar_noBr _
    · simp at h
  · subst h; exact digitChar_noBr _

theorem intercal_noBr (sep : Str) (hs : NoBr sep) : ∀ l : List Str, (∀ x ∈ l, NoBr x) → NoBr (intercal sep l)
  | [], _ => by simp [intercal, NoBr]
  | [a], h => by simpa [intercal] using h a (by simp)
  | a :: b :: r, h => by
    have ih := intercal_noBr sep hs (b :: r) (fun x hx => h x (by simp [hx]))
    have ha := h a (by simp)
    simpa [intercal] using noBr_append ha (noBr_append hs ih)

theorem fmtV6_noBr (a : Nat) : NoBr (fmtV6 a) := by
  have colon : NoBr [':'] := by simp [NoBr]
  have hx : ∀ l : List Nat, ∀ x ∈ l.map hex16, NoBr x := by
    intro l x hx
    simp only [List.mem_map] at hx
    obtain ⟨y, _, rfl⟩ := hx
    exact hex16_noBr y
  unfold fmtV6
  simp only []
  split
  · exact intercal_noBr _ colon _ (hx _)
  · exact noBr_append (noBr_append (intercal_noBr _ colon _ (hx _)) (by simp [NoBr])) (intercal_noBr _ colon _ (hx _))

/-- the address part of `AddrPort.String()` -/
def fmtAddr (d : Dst) : Str :=
  if d.is4 then fmtV4 d.addr
  else if is4In6 d.addr then "::ffff:".toList ++ fmtV4 (d.addr % 2 ^ 32)
  else fmtV6 d.addr

theorem fmtAddrPort_wellFormed (d : Dst) :
    splitHostPort (fmtAddrPort d) = some (fmtAddr d, itoa d.port) := by
  have pp := itoa_plain d.port
  unfold fmtAddrPort fmtAddr
  split
  · have p4 := fmtV4_plain d.addr
    exact splitHostPort_plain _ _ p4.1 p4.2.1 p4.2.2 pp.1 pp.2.1 pp.2.2
  · split
    · have p4 := (fmtV4_plain (d.addr % 2 ^ 32)).noBr
      have nb : NoBr ("::ffff:".toList ++ fmtV4 (d.addr % 2 ^ 32)) := noBr_append ⟨by decide, by decide⟩ p4
      have := splitHostPort_bracketed _ (itoa d.port) nb.1 nb.2 pp.1 pp.2.1 pp.2.2
      simpa using this
    · have nb := fmtV6_noBr d.addr
      have := splitHostPort_bracketed _ (itoa d.port) nb.1 nb.2 pp.1 pp.2.1 pp.2.2
      simpa using this

/-! ## `nameTarget` -/

theorem nameTarget_wellFormed (d : Str) (p : Nat) (hb : NoBr (stripBrackets d)) :
    splitHostPort (nameTarget d p).1 = some (stripBrackets d, itoa p) ∨
    ((nameTarget d p).1 = stripBrackets d ∧ (splitHostPort (stripBrackets d)).isSome = true) := by
  have pp := itoa_plain p
  have j := joinHostPort_wellFormed (stripBrackets d) (itoa p) hb.1 hb.2 pp.1 pp.2.1 pp.2.2
  unfold nameTarget
  simp only []
  split
  · exact Or.inl j
  · split
    · rename_i h; exact Or.inr ⟨rfl, h⟩
    · exact Or.inl j

/-! ## knowledge -/

theorem hasKnowledge_true_iff (w : World) (k : Str) :
    (hasKnowledge w k).2 = true ↔ k ≠ [] ∧ ∃ e, w.know.get k = some e ∧ w.now < e := by
  unfold hasKnowledge
  split
  · rename_i h; simp [h]
  · rename_i h
    cases hg : w.know.get k with
    | none => simp
    | some e =>
      simp only []
      split
      · rename_i he; simp [h]; omega
      · rename_i he; simp [h]; omega

theorem hasKnowledge_realSet (w : World) (k : Str) : (hasKnowledge w k).1.realSet = w.realSet := by
  unfold hasKnowledge
  split
  · rfl
  · split
    · rfl
    · split <;> rfl

theorem lookupReal_real (w : World) (d : Str) : (lookupReal w d).2.2 = w.realSet.contains d := by
  unfold lookupReal
  split
  · rename_i h; simp only [h]
  · rename_i h
    have h' : w.realSet.contains d = false := by simpa using h
    split
    · split <;> simp only [h']
    · simp only [h']

theorem lookupReal_known_of_real (w : World) (d : Str) (h : (lookupReal w d).2.2 = true) :
    (lookupReal w d).2.1 = true := by
  unfold lookupReal at *
  split
  · rfl
  · rename_i hc
    rw [if_neg hc] at h
    split at h <;> (try split at h) <;> simp at h

/-- `decideMode` in domain mode, for a user outbound and a non-empty name, as one expression. -/
theorem decideMode_domain (w : World) (ob : Nat) (dst : Dst) (d : Str)
    (hm : w.mode = .domain) (hr : isReserved ob = false) (hd : d ≠ []) :
    decideMode w ob dst d =
      if isIPLike d then (w, false, false, none)
      else
        let r := hasKnowledge w (cacheKey d dst.is4)
        if r.2 then (r.1, true, true, none)
        else
          let l := lookupReal r.1 d
          if l.2.1 then (if l.2.2 then (l.1, true, true, none) else (l.1, false, false, none))
          else (l.1, false, false, some d) := by
  have hc : (!isReserved ob && decide (d ≠ [])) = true := by simp [hr, hd]
  rw [decideMode, if_pos hc]
  simp only [hm]

/-- domain mode: both the "use the name" flag and the re-route flag equal "genuine". -/
theorem decideMode_domain_flags (w : World) (ob : Nat) (dst : Dst) (d : Str)
    (hm : w.mode = .domain) (hr : isReserved ob = false) (hd : d ≠ []) :
    (decideMode w ob dst d).2.1 =
        (!isIPLike d && ((hasKnowledge w (cacheKey d dst.is4)).2 || w.realSet.contains d)) ∧
    (decideMode w ob dst d).2.2.1 =
        (!isIPLike d && ((hasKnowledge w (cacheKey d dst.is4)).2 || w.realSet.contains d)) := by
  rw [decideMode_domain w ob dst d hm hr hd]
  simp only []
  cases hi : isIPLike d with
  | true => simp
  | false =>
    cases hk : (hasKnowledge w (cacheKey d dst.is4)).2 with
    | true => simp
    | false =>
      have e := lookupReal_real (hasKnowledge w (cacheKey d dst.is4)).1 d
      rw [hasKnowledge_realSet] at e
      cases hc : w.realSet.contains d with
      | true =>
        rw [hc] at e
        have k := lookupReal_known_of_real _ _ e
        simp [e, k]
      | false =>
        rw [hc] at e
        cases hkn : (lookupReal (hasKnowledge w (cacheKey d dst.is4)).1 d).2.1 <;> simp [e]

theorem decideMode_plus (w : World) (ob : Nat) (dst : Dst) (d : Str)
    (hm : w.mode = .domainPlus) (hr : isReserved ob = false) (hd : d ≠ []) :
    decideMode w ob dst d = (w, true, false, none) := by
  have hc : (!isReserved ob && decide (d ≠ [])) = true := by simp [hr, hd]
  rw [decideMode, if_pos hc]
  simp only [hm]

theorem decideMode_cao (w : World) (ob : Nat) (dst : Dst) (d : Str)
    (hm : w.mode = .domainCao) (hr : isReserved ob = false) (hd : d ≠ []) :
    decideMode w ob dst d = (w, true, true, none) := by
  have hc : (!isReserved ob && decide (d ≠ [])) = true := by simp [hr, hd]
  rw [decideMode, if_pos hc]
  simp only [hm]

theorem decideMode_ip (w : World) (ob : Nat) (dst : Dst) (d : Str)
    (h : w.mode = .ip ∨ d = [] ∨ isReserved ob = true) :
    decideMode w ob dst d = (w, false, false, none) := by
  unfold decideMode
  split
  · rename_i hc
    simp only [Bool.and_eq_true, Bool.not_eq_true', decide_eq_true_eq] at hc
    rcases h with h | h | h
    · simp only [h]
    · exact absurd h hc.2
    · rw [hc.1] at h; cases h
  · rfl

theorem chooseDialTarget_eq (w : World) (ob : Nat) (dst : Dst) (d : Str) :
    chooseDialTarget w ob dst d =
      let r := decideMode w ob dst d
      if r.2.1 then
        (r.1, { target := (nameTarget d dst.port).1, reroute := r.2.2.1, dialIp := (nameTarget d dst.port).2, probeReq := r.2.2.2 })
      else (r.1, { target := fmtAddrPort dst, reroute := r.2.2.1, dialIp := true, probeReq := r.2.2.2 }) := by
  unfold chooseDialTarget
  rcases decideMode w ob dst d with ⟨w1, u, rr, pr⟩
  simp only []

/-! ## what a successful `ParseAddr` says about the characters -/

/-- hex digit, `:` or `.` — the alphabet of a zone-less IP literal -/
def isLitChar (c : Char) : Bool := isHex c || c = ':' || c = '.'

theorem isDigit_isHex {c : Char} (h : isDigit c = true) : isHex c = true := by simp [isHex, h]

theorem v4Loop_chars : ∀ (s : Str) (val digLen pos : Nat) (i0 prevDot : Bool),
    v4Loop s val digLen pos i0 prevDot = true → ∀ c ∈ s, isDigit c = true ∨ c = '.'
  | [], _, _, _, _, _, _ => by simp
  | c :: rest, val, digLen, pos, i0, prevDot, h => by
    unfold v4Loop at h
    intro x hx
    split at h
    · rename_i hd
      split at h
      · simp at h
      · simp only [] at h
        split at h
        · simp at h
        · rcases List.mem_cons.1 hx with rfl | hx
          · exact Or.inl hd
          · exact v4Loop_chars rest _ _ _ _ _ h x hx
    · split at h
      · rename_i hdot
        split at h
        · simp at h
        · split at h
          · simp at h
          · rcases List.mem_cons.1 hx with rfl | hx
            · exact Or.inr hdot
            · exact v4Loop_chars rest _ _ _ _ _ h x hx
      · simp at h

theorem parseV4Ok_chars {s : Str} (h : parseV4Ok s = true) : ∀ c ∈ s, isLitChar c = true := by
  intro c hc
  rcases v4Loop_chars s 0 0 0 true false h c hc with h | h
  · simp [isLitChar, isDigit_isHex h]
  · simp [isLitChar, h]

theorem mem_takeWhile_imp' {p : Char → Bool} : ∀ {l : Str} {c : Char}, c ∈ l.takeWhile p → p c = true
  | [], _, h => by simp at h
  | x :: l, c, h => by
    rw [List.takeWhile_cons] at h
    split at h
    · rename_i hx
      rcases List.mem_cons.1 h with rfl | h
      · exact hx
      · exact mem_takeWhile_imp' h
    · simp at h

theorem v6Loop_chars : ∀ (fuel : Nat) (s : Str) (i : Nat) (ell : Bool),
    v6Loop fuel s i ell = true → ∀ c ∈ s, isLitChar c = true
  | 0, _, _, _, h => by simp [v6Loop] at h
  | fuel + 1, s, i, ell, h => by
    unfold v6Loop at h
    split at h
    · -- i ≥ 16: s is empty
      simp only [Bool.and_eq_true, List.isEmpty_iff] at h
      simp [h.1]
    · simp only [] at h
      split at h
      · simp at h
      · split at h
        · simp at h
        · have hs : s = s.takeWhile isHex ++ s.dropWhile isHex := List.takeWhile_append_dropWhile.symm
          have hhex : ∀ c ∈ s.takeWhile isHex, isLitChar c = true := by
            intro c hc
            have := mem_takeWhile_imp' hc
            simp [isLitChar, this]
          split at h
          · -- embedded IPv4: the whole rest parses as IPv4
            split at h
            · simp at h
            · split at h
              · simp at h
              · split at h
                · simp at h
                · rename_i h4
                  have h4' : parseV4Ok s = true := by simpa using h4
                  exact parseV4Ok_chars h4'
          · split at h
            · -- rest = []
              rename_i hr
              intro c hc; rw [hs, hr] at hc; simp at hc; exact hhex c hc
            · rename_i c0 rest1 hr
              split at h
              · simp at h
              · rename_i hc0
                have hc0' : c0 = ':' := by simpa using hc0
                split at h
                · simp at h
                · rename_i c1 rest2
                  split at h
                  · rename_i hc1
                    split at h
                    · simp at h
                    · split at h
                      · -- `::` at the end
                        intro c hc; rw [hs, hr] at hc
                        simp only [List.mem_append, List.mem_cons, List.not_mem_nil, or_false] at hc
                        rcases hc with hc | rfl | rfl
                        · exact hhex c hc
                        · simp [isLitChar, hc0']
                        · simp [isLitChar, hc1]
                      · have ih := v6Loop_chars fuel _ _ _ h
                        intro c hc; rw [hs, hr] at hc
                        simp only [List.mem_append, List.mem_cons] at hc
                        rcases hc with hc | rfl | rfl | hc
                        · exact hhex c hc
                        · simp [isLitChar, hc0']
                        · simp [isLitChar, hc1]
                        · exact ih c hc
                  · have ih := v6Loop_chars fuel _ _ _ h
                    intro c hc; rw [hs, hr] at hc
                    simp only [List.mem_append, List.mem_cons] at hc
                    rcases hc with hc | rfl | hc
                    · exact hhex c hc
                    · simp [isLitChar, hc0']
                    · exact ih c (by simpa using hc)

theorem isLitChar_noBr {c : Char} (h : isLitChar c = true) : c ≠ '[' ∧ c ≠ ']' ∧ c ≠ '%' := by
  refine ⟨?_, ?_, ?_⟩ <;> (rintro rfl; revert h; decide)

/-- A string accepted by `netip.ParseAddr` that has no zone consists of hex digits, `:` and `.`. -/
theorem parseAddrOk_chars {s : Str} (h : parseAddrOk s = true) (hz : hasChar '%' s = false) :
    ∀ c ∈ s, isLitChar c = true := by
  unfold parseAddrOk at h
  split at h
  · exact parseV4Ok_chars h
  · unfold parseV6Ok at h
    rw [splitFirst_none hz] at h
    simp only [] at h
    split at h
    · rename_i r
      split at h
      · rename_i hr
        simp only [List.isEmpty_iff] at hr
        subst hr
        intro c hc; simp at hc; rcases hc with rfl | rfl <;> decide
      · have ih := v6Loop_chars _ _ _ _ h
        intro c hc
        simp only [List.mem_cons] at hc
        rcases hc with rfl | rfl | hc
        · decide
        · decide
        · exact ih c hc
    · exact v6Loop_chars _ _ _ _ h
  · simp at h

theorem parseAddrOk_noBr {s : Str} (h : parseAddrOk s = true) (hz : hasChar '%' s = false) : NoBr s :=
  noBr_of_forall fun c hc => let ⟨a, b, _⟩ := isLitChar_noBr (parseAddrOk_chars h hz c hc); ⟨a, b⟩

/-! ## `stripBrackets` -/

theorem stripBrackets_of_no_open {s : Str} (h : hasChar '[' s = false) : stripBrackets s = s := by
  unfold stripBrackets
  have : s.head? ≠ some '[' := by
    intro e
    cases s with
    | nil => simp at e
    | cons x s => simp at e; subst e; simp at h
  simp [this]

theorem stripBrackets_bracketed (x : Str) : stripBrackets ('[' :: (x ++ [']'])) = x := by
  unfold stripBrackets
  have e : ('[' :: (x ++ [']'])) = ('[' :: x) ++ [']'] := by simp
  have g : ('[' :: (x ++ [']'])).getLast? = some ']' := by rw [e]; exact List.getLast?_concat
  rw [if_pos ⟨by simp, g⟩]
  simp

/-! ## `NormalizeDomain` -/

/-- the lower-cased, space-trimmed input on which `NormalizeDomain` branches -/
def preNorm (raw : Str) : Str := (trimSpace raw).map lowerAscii

theorem normalizeDomain_eq (raw : Str) :
    normalizeDomain raw =
      if (preNorm raw).getLast? = some ']' then trimBrackets (preNorm raw)
      else match splitHostPort (preNorm raw) with
        | some (h, _) => h
        | none => if (preNorm raw).getLast? = some '.' then (preNorm raw).dropLast else preNorm raw := rfl

theorem getLast?_ne_of_hasChar {c : Char} {s : Str} (h : hasChar c s = false) : s.getLast? ≠ some c := by
  intro e
  exact (hasChar_false_iff c s).1 h c (List.mem_of_getLast? e) rfl

/-- a plain name (no `:`, `[`, `]`): only a trailing dot is removed. -/
theorem normalize_plain {raw : Str} (hp : Plain (preNorm raw)) :
    normalizeDomain raw =
      if (preNorm raw).getLast? = some '.' then (preNorm raw).dropLast else preNorm raw := by
  rw [normalizeDomain_eq, if_neg (getLast?_ne_of_hasChar hp.2.2)]
  have : splitHostPort (preNorm raw) = none := by
    unfold splitHostPort; rw [splitLast_none hp.1]
  rw [this]

/-- `name:port` / `v4:port`: the port is cut off. -/
theorem normalize_host_port {raw h q : Str} (e : preNorm raw = h ++ ':' :: q) (hh : Plain h) (hq : Plain q) :
    normalizeDomain raw = h := by
  have hl : (preNorm raw).getLast? ≠ some ']' := by
    apply getLast?_ne_of_hasChar
    rw [e]; simp [hh.2.2, hq.2.2]
  rw [normalizeDomain_eq, if_neg hl, e, splitHostPort_plain h q hh.1 hh.2.1 hh.2.2 hq.1 hq.2.1 hq.2.2]

/-- `[literal]:port`: brackets and port are cut off. -/
theorem normalize_bracketed_port {raw x q : Str} (e : preNorm raw = '[' :: (x ++ ']' :: ':' :: q))
    (hx : NoBr x) (hq : Plain q) : normalizeDomain raw = x := by
  have hl : (preNorm raw).getLast? ≠ some ']' := by
    rw [e]
    have e2 : ('[' :: (x ++ ']' :: ':' :: q)) = ('[' :: (x ++ [']'])) ++ (':' :: q) := by simp
    rw [e2, List.getLast?_append]
    cases q with
    | nil => simp
    | cons y q =>
      have : (':' :: y :: q).getLast? = (y :: q).getLast? := by simp [List.getLast?_cons]
      rw [this]
      intro h
      have hne := getLast?_ne_of_hasChar hq.2.2
      cases hg : (y :: q).getLast? with
      | none => simp at hg
      | some z => rw [hg] at h; simp at h; exact hne (by rw [hg, h])
  rw [normalizeDomain_eq, if_neg hl, e, splitHostPort_bracketed x q hx.1 hx.2 hq.1 hq.2.1 hq.2.2]

theorem dropWhile_isBracket_noBr {x : Str} (hx : NoBr x) (y : Str) (hne : x ≠ []) :
    (x ++ y).dropWhile isBracket = x ++ y := by
  cases x with
  | nil => exact absurd rfl hne
  | cons c x =>
    have : isBracket c = false := by
      have h1 := hx.1; have h2 := hx.2
      simp at h1 h2
      simp [isBracket, h1.1, h2.1]
    simp [List.dropWhile_cons, this]

/-- `[literal]` (what the HTTP Host header of an IPv6 literal looks like): brackets removed. -/
theorem normalize_bracketed {raw x : Str} (e : preNorm raw = '[' :: (x ++ [']'])) (hx : NoBr x) (hne : x ≠ []) :
    normalizeDomain raw = x := by
  have e2 : ('[' :: (x ++ [']'])) = ('[' :: x) ++ [']'] := by simp
  have hl : (preNorm raw).getLast? = some ']' := by rw [e, e2]; exact List.getLast?_concat
  rw [normalizeDomain_eq, if_pos hl, e]
  unfold trimBrackets
  have d1 : ('[' :: (x ++ [']'])).dropWhile isBracket = x ++ [']'] := by
    rw [List.dropWhile_cons_of_pos (by decide)]
    exact dropWhile_isBracket_noBr hx _ hne
  rw [d1]
  have r : (x ++ [']']).reverse = ']' :: x.reverse := by simp
  rw [r, List.dropWhile_cons_of_pos (by decide)]
  have hxr : NoBr x.reverse := by
    apply noBr_of_forall
    intro c hc
    have hc' : c ∈ x := by simpa using hc
    exact ⟨(hasChar_false_iff _ _).1 hx.1 c hc', (hasChar_false_iff _ _).1 hx.2 c hc'⟩
  have := dropWhile_isBracket_noBr hxr [] (by simpa using hne)
  simp only [List.append_nil] at this
  rw [this]
  simp

/-! ## association lists -/

theorem Assoc.mem_of_get {α} {m : Assoc α} {k : Str} {v : α} (h : m.get k = some v) : (k, v) ∈ m := by
  unfold Assoc.get at h
  cases hf : m.find? (·.1 = k) with
  | none => simp [hf] at h
  | some e =>
    simp [hf] at h
    have hm := List.mem_of_find?_eq_some hf
    have hk := List.find?_some hf
    simp at hk
    cases e with
    | mk a b => simp at h hk; subst h; subst hk; exact hm

theorem Assoc.mem_del {α} {m : Assoc α} {k : Str} {x : Str × α} (h : x ∈ m.del k) : x ∈ m := by
  unfold Assoc.del at h; exact (List.mem_filter.1 h).1

theorem Assoc.mem_put {α} {m : Assoc α} {k : Str} {v : α} {x : Str × α} (h : x ∈ m.put k v) :
    x = (k, v) ∨ x ∈ m := by
  unfold Assoc.put at h
  rcases List.mem_cons.1 h with h | h
  · exact Or.inl h
  · exact Or.inr (Assoc.mem_del h)

theorem Assoc.get_put_self {α} (m : Assoc α) (k : Str) (v : α) : (m.put k v).get k = some v := by
  simp [Assoc.put, Assoc.get]

theorem find_filter_ne {α} (m : List (Str × α)) {k k' : Str} (h : k' ≠ k) :
    (m.filter (fun x => decide (x.1 ≠ k'))).find? (fun x => decide (x.1 = k)) =
      m.find? (fun x => decide (x.1 = k)) := by
  induction m with
  | nil => rfl
  | cons e m ih =>
    rw [List.filter_cons]
    by_cases he : e.1 = k'
    · have hk : ¬ e.1 = k := fun e' => h (he ▸ e')
      rw [if_neg (by simp [he]), List.find?_cons_of_neg (by simp [hk]), ih]
    · rw [if_pos (by simp [he])]
      by_cases hk : e.1 = k
      · rw [List.find?_cons_of_pos (by simp [hk]), List.find?_cons_of_pos (by simp [hk])]
      · rw [List.find?_cons_of_neg (by simp [hk]), List.find?_cons_of_neg (by simp [hk]), ih]

theorem Assoc.get_del_ne {α} (m : Assoc α) {k k' : Str} (h : k' ≠ k) : (m.del k').get k = m.get k := by
  unfold Assoc.get Assoc.del
  rw [find_filter_ne m h]

theorem Assoc.get_put_ne {α} (m : Assoc α) {k k' : Str} (v : α) (h : k' ≠ k) : (m.put k' v).get k = m.get k := by
  have : Assoc.get ((k', v) :: m.del k') k = (m.del k').get k := by
    unfold Assoc.get
    rw [List.find?_cons_of_neg (by simp [h])]
  unfold Assoc.put
  rw [this, Assoc.get_del_ne m h]

theorem foldl_max_mem (x : Int) (xs : List Int) : xs.foldl max x ∈ x :: xs := by
  induction xs generalizing x with
  | nil => simp
  | cons y ys ih =>
    simp only [List.foldl_cons]
    have := ih (max x y)
    rcases List.mem_cons.1 this with h | h
    · rw [h]
      by_cases hxy : x ≤ y
      · simp [Int.max_eq_right hxy]
      · simp [Int.max_eq_left (Int.le_of_lt (Int.lt_of_not_ge hxy))]
    · simp [h]

end DaeVerif.C18
