import DaeVerif.C18.Model
/-! Helper lemmas for C18: the string functions (`splitFirst`/`splitLast`/`splitHostPort`), the
character classes of the formatters, association lists, and the history invariant. -/
namespace DaeVerif.C18

/-! ## `hasChar` -/

@[simp] theorem hasChar_nil (c : Char) : hasChar c [] = false := rfl

@[simp] theorem hasChar_cons (c x : Char) (s : Str) : hasChar c (x :: s) = (x == c || hasChar c s) := by
  simp [hasChar]

@[simp] theorem hasChar_append (c : Char) (a b : Str) : hasChar c (a ++ b) = (hasChar c a || hasChar c b) := by
  simp [hasChar]

theorem hasChar_false_iff (c : Char) (s : Str) : hasChar c s = false ↔ ∀ x ∈ s, x ≠ c := by
  induction s with
  | nil => simp
  | cons x s ih => simp [ih]

theorem hasChar_true_iff (c : Char) (s : Str) : hasChar c s = true ↔ c ∈ s := by
  induction s with
  | nil => simp
  | cons x s ih =>
    simp only [hasChar_cons, Bool.or_eq_true, beq_iff_eq, ih, List.mem_cons]
    constructor
    · rintro (h | h); exact Or.inl h.symm; exact Or.inr h
    · rintro (h | h); exact Or.inl h.symm; exact Or.inr h

/-! ## `splitFirst` / `splitLast` -/

theorem splitLast_none {c : Char} {s : Str} (h : hasChar c s = false) : splitLast c s = none := by
  induction s with
  | nil => rfl
  | cons x s ih =>
    simp at h
    simp [splitLast, ih h.2, h.1]

theorem splitFirst_none {c : Char} {s : Str} (h : hasChar c s = false) : splitFirst c s = none := by
  induction s with
  | nil => rfl
  | cons x s ih =>
    simp at h
    simp [splitFirst, ih h.2, h.1]

/-- the last `c` of `a ++ c :: q` is the displayed one when `q` has none. -/
theorem splitLast_append {c : Char} (a q : Str) (hq : hasChar c q = false) :
    splitLast c (a ++ c :: q) = some (a, q) := by
  induction a with
  | nil => simp [splitLast, splitLast_none hq]
  | cons x a ih => simp [splitLast, ih]

/-- the first `c` of `a ++ c :: b` is the displayed one when `a` has none. -/
theorem splitFirst_append {c : Char} (a b : Str) (ha : hasChar c a = false) :
    splitFirst c (a ++ c :: b) = some (a, b) := by
  induction a with
  | nil => simp [splitFirst]
  | cons x a ih =>
    simp at ha
    simp [splitFirst, ih ha.2, ha.1]

theorem splitFirst_some {c : Char} {s a b : Str} (h : splitFirst c s = some (a, b)) :
    s = a ++ c :: b ∧ hasChar c a = false := by
  induction s generalizing a with
  | nil => simp [splitFirst] at h
  | cons x s ih =>
    unfold splitFirst at h
    split at h
    · rename_i hx; simp at h; obtain ⟨rfl, rfl⟩ := h; simp [hx]
    · rename_i hx
      split at h
      · rename_i a' b' h'
        simp at h; obtain ⟨rfl, rfl⟩ := h
        obtain ⟨e, hn⟩ := ih h'
        simp [e, hn, hx]
      · simp at h

theorem splitLast_some {c : Char} {s a b : Str} (h : splitLast c s = some (a, b)) :
    s = a ++ c :: b ∧ hasChar c b = false := by
  induction s generalizing a with
  | nil => simp [splitLast] at h
  | cons x s ih =>
    unfold splitLast at h
    split at h
    · rename_i a' b' h'
      simp at h; obtain ⟨rfl, rfl⟩ := h
      obtain ⟨e, hn⟩ := ih h'
      simp [e, hn]
    · rename_i h'
      split at h
      · rename_i hx
        simp at h; obtain ⟨rfl, rfl⟩ := h
        cases hc : hasChar c s with
        | false => simp [hx]
        | true =>
          exfalso
          -- a `c` in `s` would have made `splitLast c s` succeed
          have : ∀ t : Str, hasChar c t = true → splitLast c t ≠ none := by
            intro t; induction t with
            | nil => simp
            | cons y t iht =>
              intro hy; simp at hy
              unfold splitLast
              cases ht : splitLast c t with
              | some p => simp
              | none =>
                cases hy with
                | inl e => simp [e]
                | inr e => exact absurd ht (iht e)
          exact this s hc h'
      · simp at h

/-! ## `splitHostPort` on the two shapes `JoinHostPort` produces -/

/-- `host:port` with a host free of `:[]` and a port free of `:[]`. -/
theorem splitHostPort_plain (h q : Str)
    (h1 : hasChar ':' h = false) (h2 : hasChar '[' h = false) (h3 : hasChar ']' h = false)
    (q1 : hasChar ':' q = false) (q2 : hasChar '[' q = false) (q3 : hasChar ']' q = false) :
    splitHostPort (h ++ ':' :: q) = some (h, q) := by
  have hd : (h ++ ':' :: q).head? ≠ some '[' := by
    cases h with
    | nil => simp
    | cons x h => simp at h2; simp [h2.1]
  unfold splitHostPort
  simp only [splitLast_append h q q1, if_neg hd]
  simp [h1, h2, h3, q2, q3]

/-- `[host]:port` with a host free of `[]` and a port free of `:[]`. -/
theorem splitHostPort_bracketed (h q : Str)
    (h2 : hasChar '[' h = false) (h3 : hasChar ']' h = false)
    (q1 : hasChar ':' q = false) (q2 : hasChar '[' q = false) (q3 : hasChar ']' q = false) :
    splitHostPort ('[' :: (h ++ ']' :: ':' :: q)) = some (h, q) := by
  unfold splitHostPort
  have l : splitLast ':' ('[' :: (h ++ ']' :: ':' :: q)) = some ('[' :: (h ++ [']']), q) := by
    simpa using splitLast_append (c := ':') ('[' :: (h ++ [']'])) q q1
  have f : splitFirst ']' ('[' :: (h ++ ']' :: ':' :: q)) = some ('[' :: h, ':' :: q) := by
    simpa using splitFirst_append (c := ']') ('[' :: h) (':' :: q) (by simp [h3])
  rw [l]
  simp [f, h2, q2, q3]

theorem joinHostPort_wellFormed (h q : Str)
    (h2 : hasChar '[' h = false) (h3 : hasChar ']' h = false)
    (q1 : hasChar ':' q = false) (q2 : hasChar '[' q = false) (q3 : hasChar ']' q = false) :
    splitHostPort (joinHostPort h q) = some (h, q) := by
  unfold joinHostPort
  cases hc : hasChar ':' h with
  | true => simpa using splitHostPort_bracketed h q h2 h3 q1 q2 q3
  | false => simpa using splitHostPort_plain h q hc h2 h3 q1 q2 q3

/-! ## character classes of the formatters -/

/-- free of `:`, `[`, `]` -/
def Plain (s : Str) : Prop := hasChar ':' s = false ∧ hasChar '[' s = false ∧ hasChar ']' s = false
/-- free of `[`, `]` -/
def NoBr (s : Str) : Prop := hasChar '[' s = false ∧ hasChar ']' s = false

theorem Plain.noBr {s : Str} (h : Plain s) : NoBr s := ⟨h.2.1, h.2.2⟩

theorem plain_of_forall {s : Str} (h : ∀ c ∈ s, c ≠ ':' ∧ c ≠ '[' ∧ c ≠ ']') : Plain s :=
  ⟨(hasChar_false_iff _ _).2 fun c hc => (h c hc).1, (hasChar_false_iff _ _).2 fun c hc => (h c hc).2.1,
   (hasChar_false_iff _ _).2 fun c hc => (h c hc).2.2⟩

theorem noBr_of_forall {s : Str} (h : ∀ c ∈ s, c ≠ '[' ∧ c ≠ ']') : NoBr s :=
  ⟨(hasChar_false_iff _ _).2 fun c hc => (h c hc).1, (hasChar_false_iff _ _).2 fun c hc => (h c hc).2⟩

theorem noBr_append {a b : Str} (ha : NoBr a) (hb : NoBr b) : NoBr (a ++ b) := by
  simp [NoBr, ha.1, ha.2, hb.1, hb.2]

theorem itoa_digits (n : Nat) : ∀ c ∈ itoa n, c.isDigit = true := fun _ hc =>
  Nat.isDigit_of_mem_toDigits (by decide) (by decide) hc

theorem itoa_plain (n : Nat) : Plain (itoa n) := by
  apply plain_of_forall
  intro c hc
  have := itoa_digits n c hc
  refine ⟨?_, ?_, ?_⟩ <;> (rintro rfl; simp [Char.isDigit] at this)

theorem mem_intercal (sep : Str) : ∀ (l : List Str) (c : Char), c ∈ intercal sep l → c ∈ sep ∨ ∃ x ∈ l, c ∈ x
  | [], c, h => by simp [intercal] at h
  | [a], c, h => by simp only [intercal] at h; exact Or.inr ⟨a, by simp, h⟩
  | a :: b :: r, c, h => by
    simp only [intercal, List.mem_append] at h
    rcases h with (h | h) | h
    · exact Or.inr ⟨a, by simp, h⟩
    · exact Or.inl h
    · rcases mem_intercal sep (b :: r) c h with h | ⟨x, hx, hc⟩
      · exact Or.inl h
      · exact Or.inr ⟨x, List.mem_cons_of_mem _ hx, hc⟩

/-- chars of a dotted quad: digits and `.` -/
theorem fmtV4_plain (a : Nat) : Plain (fmtV4 a) := by
  apply plain_of_forall
  intro c hc
  rcases mem_intercal _ _ c hc with h | ⟨x, hx, h⟩
  · simp at h; subst h; decide
  · have : ∃ n, x = itoa n := by
      simp only [List.mem_cons, List.not_mem_nil, or_false] at hx
      rcases hx with rfl | rfl | rfl | rfl <;> exact ⟨_, rfl⟩
    obtain ⟨n, rfl⟩ := this
    have p := itoa_plain n
    exact ⟨(hasChar_false_iff _ _).1 p.1 c h, (hasChar_false_iff _ _).1 p.2.1 c h, (hasChar_false_iff _ _).1 p.2.2 c h⟩

theorem digitChar_noBr (n : Nat) : Nat.digitChar n ≠ '[' ∧ Nat.digitChar n ≠ ']' :=
  ⟨Nat.digitChar_ne '[' (by decide), Nat.digitChar_ne ']' (by decide)⟩

theorem hex16_noBr (x : Nat) : NoBr (hex16 x) := by
  apply noBr_of_forall
  intro c hc
  simp only [hex16, List.mem_append, List.mem_singleton] at hc
  rcases hc with ((h | h) | h) | h
  · split at h
    · simp at h; subst h; exact digitChar_noBr _
    · simp at h
  · split at h
    · simp at h; subst h; exact digitChar_noBr _
    · simp at h
  · split at h
    · simp at h; subst h; exact digitChar_noBr _
    · simp at h
  · subst h; exact digitChar_noBr _

theorem intercal_noBr (sep : Str) (hs : NoBr sep) : ∀ l : List Str, (∀ x ∈ l, NoBr x) → NoBr (intercal sep l)
  | [], _ => by simp [intercal, NoBr]
  | [a], h => by simpa [intercal] using h a (by simp)
  | a :: b :: r, h => by
    have ih := intercal_noBr sep hs (b :: r) (fun x hx => h x (by simp [hx]))
    have ha := h a (by simp)
    simpa [intercal] using noBr_append ha (noBr_append hs ih)

theorem fmtV6_noBr (a : Nat) : NoBr (fmtV6 a) := by
  have colon : NoBr [':'] := by simp [NoBr]
  have hx : ∀ l : List Nat, ∀ x ∈ l.map hex16, NoBr x := by
    intro l x hx
    simp only [List.mem_map] at hx
    obtain ⟨y, _, rfl⟩ := hx
    exact hex16_noBr y
  unfold fmtV6
  simp only []
  split
  · exact intercal_noBr _ colon _ (hx _)
  · exact noBr_append (noBr_append (intercal_noBr _ colon _ (hx _)) (by simp [NoBr])) (intercal_noBr _ colon _ (hx _))

/-- the address part of `AddrPort.String()` -/
def fmtAddr (d : Dst) : Str :=
  if d.is4 then fmtV4 d.addr
  else if is4In6 d.addr then "::ffff:".toList ++ fmtV4 (d.addr % 2 ^ 32)
  else fmtV6 d.addr

theorem fmtAddrPort_wellFormed (d : Dst) :
    splitHostPort (fmtAddrPort d) = some (fmtAddr d, itoa d.port) := by
  have pp := itoa_plain d.port
  unfold fmtAddrPort fmtAddr
  split
  · have p4 := fmtV4_plain d.addr
    exact splitHostPort_plain _ _ p4.1 p4.2.1 p4.2.2 pp.1 pp.2.1 pp.2.2
  · split
    · have p4 := (fmtV4_plain (d.addr % 2 ^ 32)).noBr
      have nb : NoBr ("::ffff:".toList ++ fmtV4 (d.addr % 2 ^ 32)) := noBr_append ⟨by decide, by decide⟩ p4
      have := splitHostPort_bracketed _ (itoa d.port) nb.1 nb.2 pp.1 pp.2.1 pp.2.2
      simpa using this
    · have nb := fmtV6_noBr d.addr
      have := splitHostPort_bracketed _ (itoa d.port) nb.1 nb.2 pp.1 pp.2.1 pp.2.2
      simpa using this

/-! ## `nameTarget` -/

theorem nameTarget_wellFormed (d : Str) (p : Nat) (hb : NoBr (stripBrackets d)) :
    splitHostPort (nameTarget d p).1 = some (stripBrackets d, itoa p) ∨
    ((nameTarget d p).1 = stripBrackets d ∧ (splitHostPort (stripBrackets d)).isSome = true) := by
  have pp := itoa_plain p
  have j := joinHostPort_wellFormed (stripBrackets d) (itoa p) hb.1 hb.2 pp.1 pp.2.1 pp.2.2
  unfold nameTarget
  simp only []
  split
  · exact Or.inl j
  · split
    · rename_i h; exact Or.inr ⟨rfl, h⟩
    · exact Or.inl j

/-! ## knowledge -/

theorem hasKnowledge_true_iff (w : World) (k : Str) :
    (hasKnowledge w k).2 = true ↔ k ≠ [] ∧ ∃ e, w.know.get k = some e ∧ w.now < e := by
  unfold hasKnowledge
  split
  · rename_i h; simp [h]
  · rename_i h
    cases hg : w.know.get k with
    | none => simp
    | some e =>
      simp only []
      split
      · rename_i he; simp [h]; omega
      · rename_i he; simp [h]; omega

theorem hasKnowledge_realSet (w : World) (k : Str) : (hasKnowledge w k).1.realSet = w.realSet := by
  unfold hasKnowledge
  split
  · rfl
  · split
    · rfl
    · split <;> rfl

theorem lookupReal_real (w : World) (d : Str) : (lookupReal w d).2.2 = w.realSet.contains d := by
  unfold lookupReal
  split
  · rename_i h; simp only [h]
  · rename_i h
    have h' : w.realSet.contains d = false := by simpa using h
    split
    · split <;> simp only [h']
    · simp only [h']

theorem lookupReal_known_of_real (w : World) (d : Str) (h : (lookupReal w d).2.2 = true) :
    (lookupReal w d).2.1 = true := by
  unfold lookupReal at *
  split
  · rfl
  · rename_i hc
    rw [if_neg hc] at h
    split at h <;> (try split at h) <;> simp at h

/-- `decideMode` in domain mode, for a user outbound and a non-empty name, as one expression. -/
theorem decideMode_domain (w : World) (ob : Nat) (dst : Dst) (d : Str)
    (hm : w.mode = .domain) (hr : isReserved ob = false) (hd : d ≠ []) :
    decideMode w ob dst d =
      if isIPLike d then (w, false, false, none)
      else
        let r := hasKnowledge w (cacheKey d dst.is4)
        if r.2 then (r.1, true, true, none)
        else
          let l := lookupReal r.1 d
          if l.2.1 then (if l.2.2 then (l.1, true, true, none) else (l.1, false, false, none))
          else (l.1, false, false, some d) := by
  have hc : (!isReserved ob && decide (d ≠ [])) = true := by simp [hr, hd]
  rw [decideMode, if_pos hc]
  simp only [hm]

/-- domain mode: both the "use the name" flag and the re-route flag equal "genuine". -/
theorem decideMode_domain_flags (w : World) (ob : Nat) (dst : Dst) (d : Str)
    (hm : w.mode = .domain) (hr : isReserved ob = false) (hd : d ≠ []) :
    (decideMode w ob dst d).2.1 =
        (!isIPLike d && ((hasKnowledge w (cacheKey d dst.is4)).2 || w.realSet.contains d)) ∧
    (decideMode w ob dst d).2.2.1 =
        (!isIPLike d && ((hasKnowledge w (cacheKey d dst.is4)).2 || w.realSet.contains d)) := by
  rw [decideMode_domain w ob dst d hm hr hd]
  simp only []
  cases hi : isIPLike d with
  | true => simp
  | false =>
    cases hk : (hasKnowledge w (cacheKey d dst.is4)).2 with
    | true => simp
    | false =>
      have e := lookupReal_real (hasKnowledge w (cacheKey d dst.is4)).1 d
      rw [hasKnowledge_realSet] at e
      cases hc : w.realSet.contains d with
      | true =>
        rw [hc] at e
        have k := lookupReal_known_of_real _ _ e
        simp [e, k]
      | false =>
        rw [hc] at e
        cases hkn : (lookupReal (hasKnowledge w (cacheKey d dst.is4)).1 d).2.1 <;> simp [e]

theorem decideMode_plus (w : World) (ob : Nat) (dst : Dst) (d : Str)
    (hm : w.mode = .domainPlus) (hr : isReserved ob = false) (hd : d ≠ []) :
    decideMode w ob dst d = (w, true, false, none) := by
  have hc : (!isReserved ob && decide (d ≠ [])) = true := by simp [hr, hd]
  rw [decideMode, if_pos hc]
  simp only [hm]

theorem decideMode_cao (w : World) (ob : Nat) (dst : Dst) (d : Str)
    (hm : w.mode = .domainCao) (hr : isReserved ob = false) (hd : d ≠ []) :
    decideMode w ob dst d = (w, true, true, none) := by
  have hc : (!isReserved ob && decide (d ≠ [])) = true := by simp [hr, hd]
  rw [decideMode, if_pos hc]
  simp only [hm]

theorem decideMode_ip (w : World) (ob : Nat) (dst : Dst) (d : Str)
    (h : w.mode = .ip ∨ d = [] ∨ isReserved ob = true) :
    decideMode w ob dst d = (w, false, false, none) := by
  unfold decideMode
  split
  · rename_i hc
    simp only [Bool.and_eq_true, Bool.not_eq_true', decide_eq_true_eq] at hc
    rcases h with h | h | h
    · simp only [h]
    · exact absurd h hc.2
    · rw [hc.1] at h; cases h
  · rfl

theorem chooseDialTarget_eq (w : World) (ob : Nat) (dst : Dst) (d : Str) :
    chooseDialTarget w ob dst d =
      let r := decideMode w ob dst d
      if r.2.1 then
        (r.1, { target := (nameTarget d dst.port).1, reroute := r.2.2.1, dialIp := (nameTarget d dst.port).2, probeReq := r.2.2.2 })
      else (r.1, { target := fmtAddrPort dst, reroute := r.2.2.1, dialIp := true, probeReq := r.2.2.2 }) := by
  unfold chooseDialTarget
  rcases decideMode w ob dst d with ⟨w1, u, rr, pr⟩
  simp only []

end DaeVerif.C18
