import DaeVerif.C18.Model
/-! Helper lemmas for C18: the string functions (`splitFirst`/`splitLast`/`splitHostPort`), the
character classes of the formatters, association lists, and the history invariant. -/
namespace DaeVerif.C18

/-! ## `hasChar` -/

@[simp] theorem hasChar_nil (c : Char) : hasChar c [] = false := rfl

@[simp] theorem hasChar_cons (c x : Char) (s : Str) : hasChar c (x :: s) = (x == c || hasChar c s) := by
  simp [hasChar]

@[simp] theorem hasChar_append (c : Char) (a b : Str) : hasChar c (a ++ b) = (hasChar c a || hasChar c b) := by
  simp [hasChar]

theorem hasChar_false_iff (c : Char) (s : Str) : hasChar c s = false ↔ ∀ x ∈ s, x ≠ c := by
  induction s with
  | nil => simp
  | cons x s ih => simp [ih]

theorem hasChar_true_iff (c : Char) (s : Str) : hasChar c s = true ↔ c ∈ s := by
  induction s with
  | nil => simp
  | cons x s ih =>
    simp only [hasChar_cons, Bool.or_eq_true, beq_iff_eq, ih, List.mem_cons]
    constructor
    · rintro (h | h); exact Or.inl h.symm; exact Or.inr h
    · rintro (h | h); exact Or.inl h.symm; exact Or.inr h

/-! ## `splitFirst` / `splitLast` -/

theorem splitLast_none {c : Char} {s : Str} (h : hasChar c s = false) : splitLast c s = none := by
  induction s with
  | nil => rfl
  | cons x s ih =>
    simp at h
    simp [splitLast, ih h.2, h.1]

theorem splitFirst_none {c : Char} {s : Str} (h : hasChar c s = false) : splitFirst c s = none := by
  induction s with
  | nil => rfl
  | cons x s ih =>
    simp at h
    simp [splitFirst, ih h.2, h.1]

/-- the last `c` of `a ++ c :: q` is the displayed one when `q` has none. -/
theorem splitLast_append {c : Char} (a q : Str) (hq : hasChar c q = false) :
    splitLast c (a ++ c :: q) = some (a, q) := by
  induction a with
  | nil => simp [splitLast, splitLast_none hq]
  | cons x a ih => simp [splitLast, ih]

/-- the first `c` of `a ++ c :: b` is the displayed one when `a` has none. -/
theorem splitFirst_append {c : Char} (a b : Str) (ha : hasChar c a = false) :
    splitFirst c (a ++ c :: b) = some (a, b) := by
  induction a with
  | nil => simp [splitFirst]
  | cons x a ih =>
    simp at ha
    simp [splitFirst, ih ha.2, ha.1]

theorem splitFirst_some {c : Char} {s a b : Str} (h : splitFirst c s = some (a, b)) :
    s = a ++ c :: b ∧ hasChar c a = false := by
  induction s generalizing a with
  | nil => simp [splitFirst] at h
  | cons x s ih =>
    unfold splitFirst at h
    split at h
    · rename_i hx; simp at h; obtain ⟨rfl, rfl⟩ := h; simp [hx]
    · rename_i hx
      split at h
      · rename_i a' b' h'
        simp at h; obtain ⟨rfl, rfl⟩ := h
        obtain ⟨e, hn⟩ := ih h'
        simp [e, hn, hx]
      · simp at h

theorem splitLast_some {c : Char} {s a b : Str} (h : splitLast c s = some (a, b)) :
    s = a ++ c :: b ∧ hasChar c b = false := by
  induction s generalizing a with
  | nil => simp [splitLast] at h
  | cons x s ih =>
    unfold splitLast at h
    split at h
    · rename_i a' b' h'
      simp at h; obtain ⟨rfl, rfl⟩ := h
      obtain ⟨e, hn⟩ := ih h'
      simp [e, hn]
    · rename_i h'
      split at h
      · rename_i hx
        simp at h; obtain ⟨rfl, rfl⟩ := h
        cases hc : hasChar c s with
        | false => simp [hx]
        | true =>
          exfalso
          -- a `c` in `s` would have made `splitLast c s` succeed
          have : ∀ t : Str, hasChar c t = true → splitLast c t ≠ none := by
            intro t; induction t with
            | nil => simp
            | cons y t iht =>
              intro hy; simp at hy
              unfold splitLast
              cases ht : splitLast c t with
              | some p => simp
              | none =>
                cases hy with
                | inl e => simp [e]
                | inr e => exact absurd ht (iht e)
          exact this s hc h'
      · simp at h

/-! ## `splitHostPort` on the two shapes `JoinHostPort` produces -/

/-- `host:port` with a host free of `:[]` and a port free of `:[]`. -/
theorem splitHostPort_plain (h q : Str)
    (h1 : hasChar ':' h = false) (h2 : hasChar '[' h = false) (h3 : hasChar ']' h = false)
    (q1 : hasChar ':' q = false) (q2 : hasChar '[' q = false) (q3 : hasChar ']' q = false) :
    splitHostPort (h ++ ':' :: q) = some (h, q) := by
  have hd : (h ++ ':' :: q).head? ≠ some '[' := by
    cases h with
    | nil => simp
    | cons x h => simp at h2; simp [h2.1]
  unfold splitHostPort
  simp only [splitLast_append h q q1, if_neg hd]
  simp [h1, h2, h3, q2, q3]

/-- `[host]:port` with a host free of `[]` and a port free of `:[]`. -/
theorem splitHostPort_bracketed (h q : Str)
    (h2 : hasChar '[' h = false) (h3 : hasChar ']' h = false)
    (q1 : hasChar ':' q = false) (q2 : hasChar '[' q = false) (q3 : hasChar ']' q = false) :
    splitHostPort ('[' :: (h ++ ']' :: ':' :: q)) = some (h, q) := by
  unfold splitHostPort
  have l : splitLast ':' ('[' :: (h ++ ']' :: ':' :: q)) = some ('[' :: (h ++ [']']), q) := by
    simpa using splitLast_append (c := ':') ('[' :: (h ++ [']'])) q q1
  have f : splitFirst ']' ('[' :: (h ++ ']' :: ':' :: q)) = some ('[' :: h, ':' :: q) := by
    simpa using splitFirst_append (c := ']') ('[' :: h) (':' :: q) (by simp [h3])
  rw [l]
  simp [f, h2, q2, q3]

theorem joinHostPort_wellFormed (h q : Str)
    (h2 : hasChar '[' h = false) (h3 : hasChar ']' h = false)
    (q1 : hasChar ':' q = false) (q2 : hasChar '[' q = false) (q3 : hasChar ']' q = false) :
    splitHostPort (joinHostPort h q) = some (h, q) := by
  unfold joinHostPort
  cases hc : hasChar ':' h with
  | true => simpa using splitHostPort_bracketed h q h2 h3 q1 q2 q3
  | false => simpa using splitHostPort_plain h q hc h2 h3 q1 q2 q3

end DaeVerif.C18
