import DaeVerif.C18.Proofs
/-! ASCII case folding does not change the DNS knowledge key (`dns.CanonicalName` lower-cases). -/
namespace DaeVerif.C18

theorem ofNat_lower_ne : ∀ n, n ≤ 90 → 65 ≤ n → Char.ofNat (n + 32) ≠ '.' ∧ Char.ofNat (n + 32) ≠ '\\' ∧
    ¬ ('A' ≤ Char.ofNat (n + 32) ∧ Char.ofNat (n + 32) ≤ 'Z') := by decide

theorem lowerAscii_cases (c : Char) : lowerAscii c = c ∨
    (lowerAscii c ≠ '.' ∧ lowerAscii c ≠ '\\' ∧ c ≠ '.' ∧ c ≠ '\\' ∧ lowerAscii (lowerAscii c) = lowerAscii c) := by
  unfold lowerAscii
  split
  · rename_i h
    right
    have h1 : 65 ≤ c.toNat := h.1
    have h2 : c.toNat ≤ 90 := h.2
    obtain ⟨a, b, d⟩ := ofNat_lower_ne c.toNat h2 h1
    refine ⟨a, b, ?_, ?_, ?_⟩
    · rintro rfl; revert h1; decide
    · rintro rfl; revert h2; decide
    · rw [if_neg d]
  · left; rfl

theorem lowerAscii_idem (c : Char) : lowerAscii (lowerAscii c) = lowerAscii c := by
  rcases lowerAscii_cases c with h | h
  · rw [h, h]
  · exact h.2.2.2.2

theorem lowerAscii_eq_dot (c : Char) : (lowerAscii c = '.') ↔ c = '.' := by
  rcases lowerAscii_cases c with h | h
  · rw [h]
  · exact ⟨fun e => absurd e h.1, fun e => absurd e h.2.2.1⟩

theorem lowerAscii_eq_bs (c : Char) : (lowerAscii c = '\\') ↔ c = '\\' := by
  rcases lowerAscii_cases c with h | h
  · rw [h]
  · exact ⟨fun e => absurd e h.2.1, fun e => absurd e h.2.2.2.1⟩

theorem getLast?_map_lower (s : Str) (c : Char) (hc : ∀ x, lowerAscii x = c ↔ x = c) :
    ((s.map lowerAscii).getLast? = some c) ↔ (s.getLast? = some c) := by
  rw [List.getLast?_map]
  cases s.getLast? with
  | none => simp
  | some x => simp [hc]

theorem isFqdn_lower (s : Str) : isFqdn (s.map lowerAscii) = isFqdn s := by
  unfold isFqdn
  have h1 := getLast?_map_lower s '.' lowerAscii_eq_dot
  by_cases hd : s.getLast? = some '.'
  · rw [if_pos hd, if_pos (h1.2 hd)]
    have e : (s.map lowerAscii).dropLast = s.dropLast.map lowerAscii := by simp [List.map_dropLast]
    simp only [e]
    have h2 := getLast?_map_lower s.dropLast '\\' lowerAscii_eq_bs
    by_cases hb : s.dropLast.getLast? = some '\\'
    · rw [if_pos hb, if_pos (h2.2 hb)]
      have : ((s.dropLast.map lowerAscii).reverse.takeWhile (· == '\\')).length =
          (s.dropLast.reverse.takeWhile (· == '\\')).length := by
        rw [← List.map_reverse, List.takeWhile_map, List.length_map]
        congr 2
        funext x
        simp only [Function.comp]
        by_cases hx : x = '\\'
        · subst hx; decide
        · have : lowerAscii x ≠ '\\' := fun e => hx ((lowerAscii_eq_bs x).1 e)
          show (lowerAscii x == '\\') = (x == '\\')
          rw [beq_eq_false_iff_ne.2 this, beq_eq_false_iff_ne.2 hx]
      rw [this]
    · rw [if_neg hb, if_neg (fun h => hb (h2.1 h))]
  · rw [if_neg hd, if_neg (fun h => hd (h1.1 h))]

theorem canonicalName_lower (s : Str) : canonicalName (s.map lowerAscii) = canonicalName s := by
  unfold canonicalName
  rw [isFqdn_lower]
  split <;> simp [List.map_map, Function.comp_def, lowerAscii_idem]

end DaeVerif.C18

namespace DaeVerif.C18

/-! ## the knowledge key determines the canonical name and the query type -/

theorem isFqdn_getLast {s : Str} (h : isFqdn s = true) : s.getLast? = some '.' := by
  unfold isFqdn at h
  split at h
  · assumption
  · simp at h

theorem canonicalName_ends_dot (s : Str) : ∃ t, canonicalName s = t ++ ['.'] := by
  unfold canonicalName
  split
  · rename_i h
    obtain ⟨t, ht⟩ := List.getLast?_eq_some_iff.1 (isFqdn_getLast h)
    refine ⟨t.map lowerAscii, ?_⟩
    rw [ht, List.map_append]
    simp [lowerAscii]
  · refine ⟨s.map lowerAscii, ?_⟩
    rw [List.map_append]
    simp [lowerAscii]

theorem escBar_append (a b : Str) : escBar (a ++ b) = escBar a ++ escBar b := by
  simp [escBar]

theorem escBar_noBar (s : Str) : hasChar '|' (escBar s) = false := by
  induction s with
  | nil => rfl
  | cons c s ih =>
    have e : escBar (c :: s) = (if c = '|' then ['\\', '1', '2', '4'] else [c]) ++ escBar s := by simp [escBar]
    rw [e, hasChar_append, ih]
    by_cases hc : c = '|'
    · rw [if_pos hc]; decide
    · rw [if_neg hc]; simp [hc]

/-- a key `canonicalName n ++ q` with a dot-free suffix `q` splits at its last dot into the name
(without the final dot) and `q`. -/
theorem key_splitLast (n q : Str) (hq : hasChar '.' q = false) :
    ∃ t, escBar (canonicalName n) = t ++ ['.'] ∧ splitLast '.' (escBar (canonicalName n) ++ q) = some (t, q) := by
  obtain ⟨t0, ht⟩ := canonicalName_ends_dot n
  have e : escBar (canonicalName n) = escBar t0 ++ ['.'] := by
    rw [ht, escBar_append]; rfl
  refine ⟨escBar t0, e, ?_⟩
  rw [e]
  have : escBar t0 ++ ['.'] ++ q = escBar t0 ++ '.' :: q := by simp
  rw [this]
  exact splitLast_append _ q hq

theorem key_inj (a b qa qb : Str) (ha : hasChar '.' qa = false) (hb : hasChar '.' qb = false)
    (h : escBar (canonicalName a) ++ qa = escBar (canonicalName b) ++ qb) :
    escBar (canonicalName a) = escBar (canonicalName b) ∧ qa = qb := by
  obtain ⟨ta, ea, sa⟩ := key_splitLast a qa ha
  obtain ⟨tb, eb, sb⟩ := key_splitLast b qb hb
  rw [h, sb] at sa
  simp only [Option.some.injEq, Prod.mk.injEq] at sa
  exact ⟨by rw [ea, eb, sa.1], sa.2.symm⟩

theorem itoa_noDot (n : Nat) : hasChar '.' (itoa n) = false := by
  rw [hasChar_false_iff]
  intro c hc
  have := itoa_digits n c hc
  rintro rfl
  simp [Char.isDigit] at this

theorem qtypeStr_noDot (b : Bool) : hasChar '.' (qtypeStr b) = false := by cases b <;> decide

/-- `cacheKey` is injective up to the canonical form of the name. -/
theorem cacheKey_inj (a b : Str) (x y : Bool) (h : cacheKey a x = cacheKey b y) :
    escBar (canonicalName a) = escBar (canonicalName b) ∧ x = y := by
  obtain ⟨h1, h2⟩ := key_inj a b _ _ (qtypeStr_noDot x) (qtypeStr_noDot y) h
  refine ⟨h1, ?_⟩
  cases x <;> cases y <;> simp [qtypeStr] at h2 <;> rfl

/-- a general-type key equal to an A/AAAA key: same canonical name, and the type is A resp. AAAA. -/
theorem cacheKeyQ_eq_cacheKey (a b : Str) (q : Nat) (x : Bool) (h : cacheKeyQ a q = cacheKey b x) :
    escBar (canonicalName a) = escBar (canonicalName b) ∧ itoa q = qtypeStr x :=
  key_inj a b _ _ (itoa_noDot q) (qtypeStr_noDot x) h

end DaeVerif.C18
