import DaeVerif.C18.Proofs
/-! ASCII case folding does not change the DNS knowledge key (`dns.CanonicalName` lower-cases). -/
namespace DaeVerif.C18

theorem ofNat_lower_ne : ∀ n, n ≤ 90 → 65 ≤ n → Char.ofNat (n + 32) ≠ '.' ∧ Char.ofNat (n + 32) ≠ '\\' ∧
    ¬ ('A' ≤ Char.ofNat (n + 32) ∧ Char.ofNat (n + 32) ≤ 'Z') := by decide

theorem lowerAscii_cases (c : Char) : lowerAscii c = c ∨
    (lowerAscii c ≠ '.' ∧ lowerAscii c ≠ '\\' ∧ c ≠ '.' ∧ c ≠ '\\' ∧ lowerAscii (lowerAscii c) = lowerAscii c) := by
  unfold lowerAscii
  split
  · rename_i h
    right
    have h1 : 65 ≤ c.toNat := h.1
    have h2 : c.toNat ≤ 90 := h.2
    obtain ⟨a, b, d⟩ := ofNat_lower_ne c.toNat h2 h1
    refine ⟨a, b, ?_, ?_, ?_⟩
    · rintro rfl; revert h1; decide
    · rintro rfl; revert h2; decide
    · rw [if_neg d]
  · left; rfl

theorem lowerAscii_idem (c : Char) : lowerAscii (lowerAscii c) = lowerAscii c := by
  rcases lowerAscii_cases c with h | h
  · rw [h, h]
  · exact h.2.2.2.2

theorem lowerAscii_eq_dot (c : Char) : (lowerAscii c = '.') ↔ c = '.' := by
  rcases lowerAscii_cases c with h | h
  · rw [h]
  · exact ⟨fun e => absurd e h.1, fun e => absurd e h.2.2.1⟩

theorem lowerAscii_eq_bs (c : Char) : (lowerAscii c = '\\') ↔ c = '\\' := by
  rcases lowerAscii_cases c with h | h
  · rw [h]
  · exact ⟨fun e => absurd e h.2.1, fun e => absurd e h.2.2.2.1⟩

theorem getLast?_map_lower (s : Str) (c : Char) (hc : ∀ x, lowerAscii x = c ↔ x = c) :
    ((s.map lowerAscii).getLast? = some c) ↔ (s.getLast? = some c) := by
  rw [List.getLast?_map]
  cases s.getLast? with
  | none => simp
  | some x => simp [hc]

theorem isFqdn_lower (s : Str) : isFqdn (s.map lowerAscii) = isFqdn s := by
  unfold isFqdn
  have h1 := getLast?_map_lower s '.' lowerAscii_eq_dot
  by_cases hd : s.getLast? = some '.'
  · rw [if_pos hd, if_pos (h1.2 hd)]
    have e : (s.map lowerAscii).dropLast = s.dropLast.map lowerAscii := by simp [List.map_dropLast]
    simp only [e]
    have h2 := getLast?_map_lower s.dropLast '\\' lowerAscii_eq_bs
    by_cases hb : s.dropLast.getLast? = some '\\'
    · rw [if_pos hb, if_pos (h2.2 hb)]
      have : ((s.dropLast.map lowerAscii).reverse.takeWhile (· == '\\')).length =
          (s.dropLast.reverse.takeWhile (· == '\\')).length := by
        rw [← List.map_reverse, List.takeWhile_map, List.length_map]
        congr 2
        funext x
        simp only [Function.comp]
        by_cases hx : x = '\\'
        · subst hx; decide
        · have : lowerAscii x ≠ '\\' := fun e => hx ((lowerAscii_eq_bs x).1 e)
          show (lowerAscii x == '\\') = (x == '\\')
          rw [beq_eq_false_iff_ne.2 this, beq_eq_false_iff_ne.2 hx]
      rw [this]
    · rw [if_neg hb, if_neg (fun h => hb (h2.1 h))]
  · rw [if_neg hd, if_neg (fun h => hd (h1.1 h))]

theorem canonicalName_lower (s : Str) : canonicalName (s.map lowerAscii) = canonicalName s := by
  unfold canonicalName
  rw [isFqdn_lower]
  split <;> simp [List.map_map, Function.comp_def, lowerAscii_idem]

end DaeVerif.C18
