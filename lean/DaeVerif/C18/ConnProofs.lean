import DaeVerif.C18.Conn
import DaeVerif.C18.History
/-! Helper lemmas for the phase-3 theorems of C18 (asynchronous probe, janitor sweep, generations,
`handleConn`, sniff negative cache). -/
namespace DaeVerif.C18

/-! ## association lists with distinct keys -/

def NodupKeys {α} (m : Assoc α) : Prop := (m.map (·.1)).Nodup

theorem Assoc.nodup_nil {α} : NodupKeys ([] : Assoc α) := by simp [NodupKeys]

theorem Assoc.nodup_filter {α} {m : Assoc α} (h : NodupKeys m) (p : Str × α → Bool) : NodupKeys (m.filter p) := by
  unfold NodupKeys at *
  induction m with
  | nil => simp
  | cons x xs ih =>
    simp only [List.map_cons, List.nodup_cons] at h
    by_cases hp : p x = true
    · rw [List.filter_cons_of_pos hp]
      simp only [List.map_cons, List.nodup_cons]
      refine ⟨?_, ih h.2⟩
      intro hm
      apply h.1
      obtain ⟨y, hy, e⟩ := List.mem_map.1 hm
      exact List.mem_map.2 ⟨y, (List.mem_filter.1 hy).1, e⟩
    · rw [List.filter_cons_of_neg hp]
      exact ih h.2

theorem Assoc.nodup_del {α} {m : Assoc α} (h : NodupKeys m) (k : Str) : NodupKeys (m.del k) :=
  Assoc.nodup_filter h _

theorem Assoc.not_mem_keys_del {α} (m : Assoc α) (k : Str) : k ∉ (m.del k).map (·.1) := by
  intro hm
  obtain ⟨y, hy, e⟩ := List.mem_map.1 hm
  have := (List.mem_filter.1 hy).2
  simp at this
  exact this e

theorem Assoc.nodup_put {α} {m : Assoc α} (h : NodupKeys m) (k : Str) (v : α) : NodupKeys (m.put k v) := by
  unfold Assoc.put
  show NodupKeys ((k, v) :: m.del k)
  unfold NodupKeys
  simp only [List.map_cons, List.nodup_cons]
  exact ⟨Assoc.not_mem_keys_del m k, Assoc.nodup_del h k⟩

/-- with distinct keys, `get` after a filter is `get` before it, kept or dropped as a whole. -/
theorem Assoc.get_filter {α} {m : Assoc α} (h : NodupKeys m) (p : Str × α → Bool) (k : Str) :
    Assoc.get (m.filter p) k = match m.get k with
      | some v => if p (k, v) then some v else none
      | none => none := by
  unfold NodupKeys at h
  unfold Assoc.get
  induction m with
  | nil => simp
  | cons x xs ih =>
    simp only [List.map_cons, List.nodup_cons] at h
    by_cases hk : x.1 = k
    · -- the head is the entry of `k`; no other entry has that key
      have hnone : xs.find? (fun y => decide (y.1 = k)) = none := by
        rw [List.find?_eq_none]
        intro y hy
        have : y.1 ≠ x.1 := fun e => h.1 (List.mem_map.2 ⟨y, hy, e⟩)
        simp [hk ▸ this]
      have hx : x = (k, x.2) := by cases x; simp_all
      by_cases hp : p x = true
      · rw [List.filter_cons_of_pos hp]
        simp only [List.find?_cons, hk, decide_true, Option.map_some]
        rw [hx] at hp
        simp [hp]
      · rw [List.filter_cons_of_neg hp]
        have hnone' : (xs.filter p).find? (fun y => decide (y.1 = k)) = none := by
          rw [List.find?_eq_none]
          intro y hy
          have := List.find?_eq_none.1 hnone y (List.mem_filter.1 hy).1
          exact this
        simp only [List.find?_cons, hk, decide_true, Option.map_some, hnone', Option.map_none]
        rw [hx] at hp
        simp [hp]
    · have hd : decide (x.1 = k) = false := by simp [hk]
      by_cases hp : p x = true
      · rw [List.filter_cons_of_pos hp]
        simp only [List.find?_cons, hd]
        exact ih h.2
      · rw [List.filter_cons_of_neg hp]
        simp only [List.find?_cons, hd]
        exact ih h.2

/-! ## the negative set has distinct keys in every reachable world -/

theorem hasKnowledge_neg (w : World) (k : Str) : (hasKnowledge w k).1.neg = w.neg := by
  unfold hasKnowledge; split
  · rfl
  · split
    · rfl
    · split <;> rfl

theorem lookupReal_negNodup {w : World} (h : NodupKeys w.neg) (d : Str) : NodupKeys (lookupReal w d).1.neg := by
  unfold lookupReal; split
  · exact h
  · split
    · split
      · exact h
      · exact Assoc.nodup_del h d
    · exact h

theorem decideMode_negNodup {w : World} (h : NodupKeys w.neg) (ob : Nat) (dst : Dst) (d : Str) :
    NodupKeys (decideMode w ob dst d).1.neg := by
  unfold decideMode
  split
  · split
    · exact h
    · split
      · exact h
      · have s1 := hasKnowledge_neg w (cacheKey d dst.is4)
        rcases hk : hasKnowledge w (cacheKey d dst.is4) with ⟨w1, k⟩
        rw [hk] at s1
        simp only [] at s1 ⊢
        have h1 : NodupKeys w1.neg := by rw [s1]; exact h
        split
        · exact h1
        · have s2 := lookupReal_negNodup h1 d
          rcases hl : lookupReal w1 d with ⟨w2, known, real⟩
          rw [hl] at s2
          simp only [] at s2 ⊢
          split
          · split <;> exact s2
          · exact s2
    · exact h
    · exact h
  · exact h

theorem remember_neg (w : World) (bk : Str) (e : Int) : (remember w bk e).neg = w.neg := by
  unfold remember; split
  · rfl
  · split
    · rfl
    · split <;> rfl

theorem syncKnow_neg (w : World) (bk : Str) : (syncKnow w bk).neg = w.neg := by
  unfold syncKnow; simp only []; split <;> rfl

theorem forget_neg (w : World) (ck : Str) (dl : Int) : (forget w ck dl).neg = w.neg := by
  unfold forget; simp only []; split
  · rfl
  · split
    · rfl
    · split
      · rfl
      · exact syncKnow_neg w _

theorem dnsRestore_neg : ∀ (es : List (Str × Int)) (w : World), (dnsRestore w es).neg = w.neg
  | [], _ => rfl
  | (ck, od) :: es, w => by
    show (dnsRestore (remember { w with cache := w.cache.put ck od } (baseKeyOf ck) od) es).neg = w.neg
    rw [dnsRestore_neg es, remember_neg]

theorem addVerified_negNodup {w : World} (h : NodupKeys w.neg) (d : Str) : NodupKeys (addVerified w d).neg := by
  unfold addVerified; split <;> exact Assoc.nodup_del h d

theorem probeFinish_negNodup {w : World} (h : NodupKeys w.neg) (d : Str) (t0 : Int) (ans : List Ans) :
    NodupKeys (probeFinish w d t0 ans).neg := by
  unfold probeFinish
  split
  · exact h
  · simp only []
    split
    · exact h
    · split
      · exact Assoc.nodup_put h _ _
      · exact addVerified_negNodup h d

theorem step_negNodup {w : World} (h : NodupKeys w.neg) (e : Event) : NodupKeys (step w e).neg := by
  cases e with
  | setMode m => exact h
  | setBoot n => exact h
  | advance ns => exact h
  | hasKnow n is4 => show NodupKeys (hasKnowledge w _).1.neg; rw [hasKnowledge_neg]; exact h
  | choose ob dst d =>
    show NodupKeys (chooseDialTarget w ob dst d).1.neg
    rw [chooseDialTarget_eq]; simp only []
    split <;> exact decideMode_negNodup h ob dst d
  | dnsUpdate host q ttl key =>
    show NodupKeys (dnsUpdate w host q ttl key).1.neg
    rw [dnsUpdate_eq]
    split
    · exact h
    · rw [remember_neg]; exact h
  | dnsRemove ck =>
    show NodupKeys (dnsRemove w ck).neg
    unfold dnsRemove
    split
    · exact h
    · rw [forget_neg]; exact h
  | dnsRemoveFamily bk =>
    show NodupKeys (dnsRemoveFamily w bk).neg
    unfold dnsRemoveFamily
    split
    · exact h
    · rw [syncKnow_neg]; exact h
  | dnsRestore es => show NodupKeys (dnsRestore w es).neg; rw [dnsRestore_neg]; exact h
  | dnsClose => exact h
  | probeDone d ans =>
    show NodupKeys (probe w d ans).neg
    unfold probe
    have s1 := lookupReal_negNodup h d
    rcases hl : lookupReal w d with ⟨w1, known, real⟩
    rw [hl] at s1
    simp only [] at s1 ⊢
    split
    · exact s1
    · split
      · exact s1
      · split
        · exact s1
        · split
          · exact Assoc.nodup_put s1 _ _
          · exact addVerified_negNodup s1 d
  | probeStart d => exact lookupReal_negNodup h d
  | probeFinish d t0 ans => exact probeFinish_negNodup h d t0 ans
  | negCleanup => exact Assoc.nodup_filter h _
  | newGeneration m n => exact Assoc.nodup_nil

theorem run_negNodup {w : World} (h : NodupKeys w.neg) (es : List Event) : NodupKeys (run w es).neg := by
  induction es generalizing w with
  | nil => exact h
  | cons e es ih => rw [run_cons]; exact ih (step_negNodup h e)

/-! ## the janitor's sweep of the negative set is invisible -/

theorem hasKnowledge_negCleanup (w : World) (k : Str) :
    hasKnowledge (negCleanup w) k = (negCleanup (hasKnowledge w k).1, (hasKnowledge w k).2) := by
  unfold hasKnowledge negCleanup
  simp only []
  split
  · rfl
  · split
    · rfl
    · split <;> rfl

theorem Assoc.get_of_mem_nodup {α} {m : Assoc α} (h : NodupKeys m) {k : Str} {v : α} (hm : (k, v) ∈ m) :
    m.get k = some v := by
  unfold NodupKeys at h
  unfold Assoc.get
  induction m with
  | nil => cases hm
  | cons y ys ih =>
    simp only [List.map_cons, List.nodup_cons] at h
    rcases List.mem_cons.1 hm with e | hm'
    · simp [← e]
    · have hy : y.1 ≠ k := fun e => h.1 (List.mem_map.2 ⟨(k, v), hm', e.symm⟩)
      simp only [List.find?_cons, hy, decide_false]
      exact ih h.2 hm'

/-- deleting an expired entry and sweeping commute -/
theorem negCleanup_del {w : World} (h : NodupKeys w.neg) (d : Str) (e : Int) (hge : w.neg.get d = some e)
    (hl : ¬ w.now < e) : negCleanup w = negCleanup { w with neg := w.neg.del d } := by
  unfold negCleanup
  simp only []
  congr 1
  unfold Assoc.del
  rw [List.filter_filter]
  apply List.filter_congr
  intro x hx
  by_cases hxd : x.1 = d
  · have hx' : (d, x.2) ∈ w.neg := by rw [← hxd]; exact hx
    have := Assoc.get_of_mem_nodup h hx'
    rw [hge] at this
    simp only [Option.some.injEq] at this
    have hnl : ¬ w.now < x.2 := by rw [← this]; exact hl
    simp [hxd, hnl]
  · simp [hxd]

/-- what `lookupRealDomainCache` answers is the same before and after the sweep. -/
theorem lookupReal_negCleanup {w : World} (h : NodupKeys w.neg) (d : Str) :
    (lookupReal (negCleanup w) d).2 = (lookupReal w d).2 ∧
    (lookupReal (negCleanup w) d).1 = negCleanup (lookupReal w d).1 := by
  have hg := Assoc.get_filter h (fun e => decide (w.now < e.2)) d
  have hneg : (negCleanup w).neg = w.neg.filter (fun e => decide (w.now < e.2)) := rfl
  rw [← hneg] at hg
  by_cases hr : w.realSet.contains d = true
  · have hr' : (negCleanup w).realSet.contains d = true := hr
    unfold lookupReal
    rw [if_pos hr', if_pos hr]
    exact ⟨rfl, rfl⟩
  · have hr' : ¬ (negCleanup w).realSet.contains d = true := hr
    cases hge : w.neg.get d with
    | none =>
      rw [hge] at hg
      unfold lookupReal
      rw [if_neg hr', if_neg hr, hg, hge]
      exact ⟨rfl, rfl⟩
    | some e =>
      rw [hge] at hg
      simp only [] at hg
      by_cases hl : w.now < e
      · rw [if_pos (by simpa using hl)] at hg
        have hl' : (negCleanup w).now < e := hl
        unfold lookupReal
        rw [if_neg hr', if_neg hr, hg, hge]
        simp only [hl, hl', if_true]
        exact ⟨trivial, trivial⟩
      · rw [if_neg (by simpa using hl)] at hg
        unfold lookupReal
        rw [if_neg hr', if_neg hr, hg, hge]
        simp only [hl, if_false]
        exact ⟨trivial, negCleanup_del h d e hge hl⟩

/-- `ChooseDialTarget`'s decision (use the name? re-route? start a probe?) is the same before and
after the sweep, and the worlds it leaves differ by the sweep only. -/
theorem decideMode_negCleanup {w : World} (h : NodupKeys w.neg) (ob : Nat) (dst : Dst) (d : Str) :
    (decideMode (negCleanup w) ob dst d).2 = (decideMode w ob dst d).2 ∧
    (decideMode (negCleanup w) ob dst d).1 = negCleanup (decideMode w ob dst d).1 := by
  by_cases hrd : isReserved ob = false ∧ d ≠ []
  · obtain ⟨hr, hd⟩ := hrd
    cases hm : w.mode with
    | ip =>
      rw [decideMode_ip w ob dst d (Or.inl hm), decideMode_ip (negCleanup w) ob dst d (Or.inl hm)]
      exact ⟨rfl, rfl⟩
    | domainPlus =>
      rw [decideMode_plus w ob dst d hm hr hd, decideMode_plus (negCleanup w) ob dst d hm hr hd]
      exact ⟨rfl, rfl⟩
    | domainCao =>
      rw [decideMode_cao w ob dst d hm hr hd, decideMode_cao (negCleanup w) ob dst d hm hr hd]
      exact ⟨rfl, rfl⟩
    | domain =>
      rw [decideMode_domain w ob dst d hm hr hd, decideMode_domain (negCleanup w) ob dst d hm hr hd]
      cases hi : isIPLike d with
      | true => simp only [if_true]; refine ⟨?_, ?_⟩ <;> first | rfl | trivial
      | false =>
        simp only [Bool.false_eq_true, if_false]
        rw [hasKnowledge_negCleanup]
        simp only []
        cases hk : (hasKnowledge w (cacheKey d dst.is4)).2 with
        | true => simp only [if_true]; refine ⟨?_, ?_⟩ <;> first | rfl | trivial
        | false =>
          simp only [Bool.false_eq_true, if_false]
          have h1 : NodupKeys (hasKnowledge w (cacheKey d dst.is4)).1.neg := by rw [hasKnowledge_neg]; exact h
          obtain ⟨l2, l1⟩ := lookupReal_negCleanup h1 d
          rw [l1]
          have l21 : (lookupReal (negCleanup (hasKnowledge w (cacheKey d dst.is4)).1) d).2.1 =
              (lookupReal (hasKnowledge w (cacheKey d dst.is4)).1 d).2.1 := by rw [l2]
          have l22 : (lookupReal (negCleanup (hasKnowledge w (cacheKey d dst.is4)).1) d).2.2 =
              (lookupReal (hasKnowledge w (cacheKey d dst.is4)).1 d).2.2 := by rw [l2]
          rw [l21, l22]
          split
          · split <;> exact ⟨rfl, rfl⟩
          · exact ⟨rfl, rfl⟩
  · have hx : w.mode = .ip ∨ d = [] ∨ isReserved ob = true := by
      by_cases hd : d = []
      · exact Or.inr (Or.inl hd)
      · right; right
        cases hr : isReserved ob with
        | true => rfl
        | false => exact absurd ⟨hr, hd⟩ hrd
    have hx' : (negCleanup w).mode = .ip ∨ d = [] ∨ isReserved ob = true := hx
    rw [decideMode_ip w ob dst d hx, decideMode_ip (negCleanup w) ob dst d hx']
    exact ⟨rfl, rfl⟩

/-! ## the sniff negative cache over all histories -/

/-- failed sniffs of flow signature `key` in a history -/
def countFails (key : Str) : List SniffEv → Nat
  | [] => 0
  | .fail k _ :: es => (if k = key then 1 else 0) + countFails key es
  | .ok _ _ :: es => countFails key es

theorem countFails_append (key : Str) (a b : List SniffEv) :
    countFails key (a ++ b) = countFails key a + countFails key b := by
  induction a with
  | nil => simp [countFails]
  | cons e es ih =>
    cases e with
    | fail k t => simp only [List.cons_append, countFails, ih]; omega
    | ok k t => simp only [List.cons_append, countFails, ih]

/-- every entry of the negative cache counts at most the failed sniffs that happened, never more
than the threshold, and expires `ttl` after a failed sniff that is in the history. -/
def SniffInv (cfg : SniffCfg) (s : SniffNeg) (hist : List SniffEv) : Prop :=
  ∀ key f e, s.get key = some (f, e) →
    1 ≤ f ∧ f ≤ cfg.thr ∧ f ≤ countFails key hist ∧ SniffEv.fail key (e - cfg.ttl) ∈ hist

theorem SniffInv.mono {cfg : SniffCfg} {s : SniffNeg} {hist : List SniffEv} (h : SniffInv cfg s hist)
    (ev : SniffEv) : SniffInv cfg s (hist ++ [ev]) := by
  intro key f e hg
  obtain ⟨a, b, c, d⟩ := h key f e hg
  refine ⟨a, b, ?_, List.mem_append_left _ d⟩
  rw [countFails_append]; omega

theorem SniffInv.del {cfg : SniffCfg} {s : SniffNeg} {hist : List SniffEv} (h : SniffInv cfg s hist)
    (k : Str) : SniffInv cfg (s.del k) hist := by
  intro key f e hg
  by_cases hk : k = key
  · subst hk; rw [Assoc.get_del_self] at hg; cases hg
  · rw [Assoc.get_del_ne _ hk] at hg; exact h key f e hg

theorem sniffSkip_inv {cfg : SniffCfg} {s : SniffNeg} {hist : List SniffEv} (h : SniffInv cfg s hist)
    (key : Str) (now : Int) : SniffInv cfg (sniffSkip cfg s key now).1 hist := by
  unfold sniffSkip
  split
  · exact h
  · split
    · exact h
    · split
      · exact h.del key
      · exact h

theorem SniffInv.step {cfg : SniffCfg} {s : SniffNeg} {hist : List SniffEv} (hpos : 0 < cfg.thr)
    (h : SniffInv cfg s hist) (ev : SniffEv) : SniffInv cfg (sniffStep cfg s ev) (hist ++ [ev]) := by
  cases ev with
  | ok key now =>
    have h1 := (sniffSkip_inv h key now).mono (.ok key now)
    show SniffInv cfg (if (sniffSkip cfg s key now).2 = true then (sniffSkip cfg s key now).1
      else (sniffSkip cfg s key now).1.del key) _
    split
    · exact h1
    · exact h1.del key
  | fail key now =>
    have h0 := sniffSkip_inv h key now
    have h1 := h0.mono (.fail key now)
    show SniffInv cfg (if (sniffSkip cfg s key now).2 = true then (sniffSkip cfg s key now).1
      else sniffNote cfg (sniffSkip cfg s key now).1 key now) _
    split
    · exact h1
    · unfold sniffNote
      split
      · exact h1
      · intro k f e hg
        by_cases hk : key = k
        · subst hk
          rw [Assoc.get_put_self] at hg
          simp only [Option.some.injEq, Prod.mk.injEq] at hg
          obtain ⟨hf, he⟩ := hg
          have hmem : SniffEv.fail key (e - cfg.ttl) ∈ hist ++ [SniffEv.fail key now] := by
            have : e - cfg.ttl = now := by omega
            rw [this]; simp
          have hcnt : countFails key (hist ++ [SniffEv.fail key now]) = countFails key hist + 1 := by
            rw [countFails_append]; simp [countFails]
          -- the previous count is bounded by the failures so far
          have hprev : (match (sniffSkip cfg s key now).1.get key with
              | some (f, e) => if e ≤ now then 0 else f
              | none => 0) ≤ countFails key hist := by
            cases hg0 : (sniffSkip cfg s key now).1.get key with
            | none => simp
            | some fe =>
              rcases fe with ⟨f0, e0⟩
              simp only []
              split
              · omega
              · exact (h0 key f0 e0 hg0).2.2.1
          have arith : ∀ X : Nat, X ≤ countFails key hist → min (X + 1) cfg.thr = f →
              1 ≤ f ∧ f ≤ cfg.thr ∧ f ≤ countFails key hist + 1 := by
            intro X hX hm; omega
          obtain ⟨a1, a2, a3⟩ := arith _ hprev hf
          exact ⟨a1, a2, by rw [hcnt]; exact a3, hmem⟩
        · rw [Assoc.get_put_ne _ _ hk] at hg
          exact h1 k f e hg

theorem SniffInv.run {cfg : SniffCfg} (hpos : 0 < cfg.thr) :
    ∀ (es : List SniffEv) {s : SniffNeg} {hist : List SniffEv}, SniffInv cfg s hist →
      SniffInv cfg (sniffRun cfg s es) (hist ++ es)
  | [], _, _, h => by simpa [sniffRun] using h
  | e :: es, s, hist, h => by
    have := SniffInv.run hpos es (h.step hpos e)
    simpa [sniffRun, List.append_assoc] using this

theorem SniffInv.init (cfg : SniffCfg) : SniffInv cfg [] [] := by
  intro key f e hg
  simp [Assoc.get] at hg

/-! ## `handleConn` / `connDomain` in projection form -/

theorem handleConn_eq (cfg : SniffCfg) (w : World) (s : SniffNeg) (tp : Bool) (kob : Option Nat)
    (loc : Dst) (key : Str) (p : Payload) (route : Str → Option Nat) (nOut : Nat) (ff : Bool)
    (settle : World → Option Str → World) :
    handleConn cfg w s tp kob loc key p route nOut ff settle =
      ((routeDial w (kob.getD outboundControlPlaneRouting) (converge loc)
          (connDomain cfg w s tp (kob.getD outboundControlPlaneRouting) (converge loc) key p).2 route nOut ff settle).1,
       (connDomain cfg w s tp (kob.getD outboundControlPlaneRouting) (converge loc) key p).1,
       (connDomain cfg w s tp (kob.getD outboundControlPlaneRouting) (converge loc) key p).2,
       (routeDial w (kob.getD outboundControlPlaneRouting) (converge loc)
          (connDomain cfg w s tp (kob.getD outboundControlPlaneRouting) (converge loc) key p).2 route nOut ff settle).2) := by
  simp only [handleConn]

theorem connDomain_eq (cfg : SniffCfg) (w : World) (s : SniffNeg) (tp : Bool) (ob : Nat) (dst : Dst)
    (key : Str) (p : Payload) :
    connDomain cfg w s tp ob dst key p =
      if shouldTryTcpSniff cfg w tp ob dst.port = false then (s, [])
      else if (sniffSkip cfg s key w.now).2 = true then ((sniffSkip cfg s key w.now).1, [])
      else match sniffOutcome p with
        | none => (sniffNote cfg (sniffSkip cfg s key w.now).1 key w.now, [])
        | some d => ((sniffSkip cfg s key w.now).1.del key, d) := by
  unfold connDomain
  cases shouldTryTcpSniff cfg w tp ob dst.port with
  | false => rfl
  | true =>
    simp only [Bool.not_true, Bool.false_eq_true, if_false]
    rcases sniffSkip cfg s key w.now with ⟨s1, sk⟩
    rfl

/-! ## probes in flight: at most one per name (singleflight) -/

def Sys.NodupPending (s : Sys) : Prop := (s.pending.map (·.1)).Nodup

theorem Sys.start_nodup {s : Sys} (h : s.NodupPending) (d : Str) : (s.start d).NodupPending := by
  unfold Sys.start
  split
  · exact h
  · rename_i hany
    rcases lookupReal s.w d with ⟨w1, known, real⟩
    simp only []
    split
    · exact h
    · split
      · exact h
      · unfold Sys.NodupPending at *
        simp only [List.map_append, List.map_cons, List.map_nil]
        rw [List.nodup_append]
        refine ⟨h, by simp, ?_⟩
        intro a ha b hb
        simp only [List.mem_singleton] at hb
        subst hb
        intro e
        subst e
        apply hany
        obtain ⟨y, hy, e⟩ := List.mem_map.1 ha
        exact List.any_eq_true.2 ⟨y, hy, by simp [e]⟩

theorem Sys.finish_nodup {s : Sys} (h : s.NodupPending) (d : Str) (ans : List Ans) : (s.finish d ans).NodupPending := by
  unfold Sys.finish
  split
  · exact h
  · unfold Sys.NodupPending at *
    simp only []
    exact (List.Sublist.map _ (List.filter_sublist)).nodup h

theorem Sys.step_nodup {s : Sys} (h : s.NodupPending) (e : SysEv) : (s.step e).NodupPending := by
  cases e with
  | choose ob dst d =>
    show (s.choose ob dst d).1.NodupPending
    unfold Sys.choose
    rcases chooseDialTarget s.w ob dst d with ⟨w1, c⟩
    simp only []
    cases c.probeReq with
    | none => exact h
    | some n => exact Sys.start_nodup (s := { s with w := w1 }) h n
  | finish d a => exact Sys.finish_nodup h d a
  | cancelAll => show (List.map (·.1) ([] : List (Str × Int))).Nodup; simp
  | world e => exact h

theorem Sys.run_nodup {s : Sys} (h : s.NodupPending) (es : List SysEv) : (s.run es).NodupPending := by
  induction es generalizing s with
  | nil => exact h
  | cons e es ih => exact ih (Sys.step_nodup h e)

/-! ## a flow without a usable name dials the IP, whatever the outbound -/

theorem chooseDialTarget_ipRow (w : World) (ob : Nat) (dst : Dst) (d : Str) (h : w.mode = .ip ∨ d = []) :
    chooseDialTarget w ob dst d =
      (w, { target := fmtAddrPort dst, reroute := false, dialIp := true, probeReq := none }) := by
  have h' : w.mode = .ip ∨ d = [] ∨ isReserved ob = true := by
    rcases h with h | h
    · exact Or.inl h
    · exact Or.inr (Or.inl h)
  rw [chooseDialTarget_eq, decideMode_ip w ob dst d h']
  rfl

theorem chooseProxyDialer_ipRow (w : World) (ob : Nat) (dst : Dst) (d : Str) (route : Str → Option Nat)
    (nOut : Nat) (h : w.mode = .ip ∨ d = []) :
    (chooseProxyDialer w ob dst d route nOut).1 = w ∧
    (chooseProxyDialer w ob dst d route nOut).2.probeReq = none ∧
    ((chooseProxyDialer w ob dst d route nOut).2.outbound.isSome = true →
      (chooseProxyDialer w ob dst d route nOut).2.target = fmtAddrPort dst ∧
      (chooseProxyDialer w ob dst d route nOut).2.dialIp = true) := by
  unfold chooseProxyDialer
  rw [chooseDialTarget_ipRow w ob dst d h]
  simp only [Bool.false_eq_true, if_false]
  by_cases hob : ob = outboundControlPlaneRouting
  · rw [if_pos hob]
    cases hrt : route d with
    | none => exact ⟨rfl, rfl, fun hh => by simp at hh⟩
    | some ob2 =>
      simp only []
      rw [chooseDialTarget_ipRow w ob2 dst d h]
      simp only []
      split
      · exact ⟨rfl, rfl, fun hh => by simp at hh⟩
      · exact ⟨rfl, rfl, fun _ => ⟨rfl, rfl⟩⟩
  · rw [if_neg hob]
    split
    · exact ⟨rfl, rfl, fun hh => by simp at hh⟩
    · exact ⟨rfl, rfl, fun _ => ⟨rfl, rfl⟩⟩

theorem routeDial_ipRow (w : World) (ob : Nat) (dst : Dst) (d : Str) (route : Str → Option Nat) (nOut : Nat)
    (failFirst : Bool) (settle : World → Option Str → World) (hs : ∀ w', settle w' none = w')
    (h : w.mode = .ip ∨ d = []) :
    (routeDial w ob dst d route nOut failFirst settle).1 = w ∧
    ∀ o ∈ (routeDial w ob dst d route nOut failFirst settle).2, o.outbound.isSome = true →
      o.target = fmtAddrPort dst ∧ o.dialIp = true := by
  obtain ⟨c1, c2, c3⟩ := chooseProxyDialer_ipRow w ob dst d route nOut h
  unfold routeDial
  rcases hc : chooseProxyDialer w ob dst d route nOut with ⟨w1, o1⟩
  rw [hc] at c1 c2 c3
  simp only [] at c1 c2 c3 ⊢
  subst c1
  rw [c2, hs]
  split
  · refine ⟨rfl, ?_⟩
    intro o ho hsome
    simp only [List.mem_singleton] at ho
    subst ho
    exact c3 hsome
  · rw [hc]
    simp only [c2, hs]
    refine ⟨trivial, ?_⟩
    intro o ho hsome
    simp only [List.mem_cons, List.not_mem_nil, or_false] at ho
    rcases ho with rfl | rfl <;> exact c3 hsome

end DaeVerif.C18
