import DaeVerif.C18.Model
/-!
# C18 — from the accepted connection to the dial (`ControlPlane.handleConn`, control/tcp.go)

What `handleConn` contributes to the dial decision before it calls `routeDial` (core-only,
executable; `c18drv` runs these definitions on the `conn` ops):

* the kernel's routing tuple, or `OutboundControlPlaneRouting` when it is missing;
* `common.ConvergeAddrPort` of the socket's local address (the original destination);
* **whether the connection is sniffed at all** — `shouldTryTcpSniff` (sniffing timeout, dial mode,
  built-in outbound, excluded ports) and the per-flow-signature negative cache
  (`shouldSkipTcpSniffByNegativeCache` / `noteTcpSniffFailure` / `clearTcpSniffNegative`,
  control/tcp_sniff_policy.go);
* what the sniffers hand over for a given HTTP `Host` value / TLS server name
  (`sniffHTTPHostHeader`: `bytes.TrimSpace`, empty = not found; `findSniExtension`: one trailing dot
  removed; then `sniffGroup` applies `NormalizeDomain`) — the byte-level extraction is C06's subject,
  here the value carried is an input;
* the socket mark that accompanies the dial (`chooseProxyDialer`: the routing answer's mark after a
  re-route, the kernel's otherwise, `so_mark_from_dae` when zero).
-/
namespace DaeVerif.C18

/-- tunables of control/tcp_sniff_policy.go; the driver takes the running code's values. -/
structure SniffCfg where
  /-- `tcpSniffFailureThreshold` -/
  thr : Nat := 3
  /-- `tcpSniffNegativeCacheTTL` (ns) -/
  ttl : Int := 600000000000
  /-- `tcpSniffingExcludedPorts` -/
  excluded : List Nat := [20, 21, 22, 25, 53, 119, 123, 161, 3306, 5432, 6379, 9200, 27017, 11211]
deriving Repr, Inhabited

/-- `shouldTryTcpSniff`; `timeoutPos` = `c.sniffingTimeout > 0`. -/
def shouldTryTcpSniff (cfg : SniffCfg) (w : World) (timeoutPos : Bool) (ob port : Nat) : Bool :=
  timeoutPos && (w.mode != Mode.ip) && (ob != 0) && (ob != 1) && !cfg.excluded.contains port

/-- `tcpSniffNegSet`: flow signature ↦ (consecutive failures, expiry). Times as in `World`
(expiries are `now + ttl > 0`, so the code's `expiresAtUnixNano <= 0` test never fires). -/
abbrev SniffNeg := Assoc (Nat × Int)

/-- `shouldSkipTcpSniffByNegativeCache` (with its lazy deletion of an expired entry). -/
def sniffSkip (cfg : SniffCfg) (s : SniffNeg) (key : Str) (now : Int) : SniffNeg × Bool :=
  if cfg.thr = 0 ∨ cfg.ttl ≤ 0 then (s, false) else
  match s.get key with
  | none => (s, false)
  | some (f, e) => if e ≤ now then (s.del key, false) else (s, decide (cfg.thr ≤ f))

/-- `noteTcpSniffFailure`. -/
def sniffNote (cfg : SniffCfg) (s : SniffNeg) (key : Str) (now : Int) : SniffNeg :=
  if cfg.thr = 0 ∨ cfg.ttl ≤ 0 then s else
  let f0 : Nat := match s.get key with
    | some (f, e) => if e ≤ now then 0 else f
    | none => 0
  s.put key (min (f0 + 1) cfg.thr, now + cfg.ttl)

/-- `cleanupTcpSniffNegative` (datapath janitor tick, step 3 of `cleanupNegativeCaches`). -/
def sniffCleanup (s : SniffNeg) (now : Int) : SniffNeg := s.filter fun e => now < e.2.2

/-- what the client sends first -/
inductive Payload
  /-- nothing within the sniffing timeout -/
  | silent
  /-- bytes that are neither an HTTP method nor a TLS handshake record -/
  | opaque
  /-- one HTTP/1 request head; `host` = the value of its Host header as written (`none`: no such header) -/
  | http (host : Option Str)
  /-- a TLS ClientHello; `sni` = its server name as written (`none`: no server_name extension) -/
  | tls (sni : Option Str)
deriving Repr, DecidableEq

def dropDot (s : Str) : Str := if s.getLast? = some '.' then s.dropLast else s

/-- `sniffer.SniffTcp()`: `none` = any sniffing error (the failure is noted, the flow goes on without
a name), `some d` = success (`d` may be empty). -/
def sniffOutcome : Payload → Option Str
  | .silent => none
  | .opaque => none
  | .http none => none
  | .http (some raw) =>
    let h := trimSpace raw
    if h = [] then none else some (normalizeDomain h)
  | .tls none => none
  | .tls (some raw) => some (normalizeDomain (dropDot raw))

/-- the `domain` `handleConn` puts into `proxyDialParam`, and the negative cache afterwards. -/
def connDomain (cfg : SniffCfg) (w : World) (s : SniffNeg) (timeoutPos : Bool) (ob : Nat) (dst : Dst)
    (key : Str) (p : Payload) : SniffNeg × Str :=
  if !shouldTryTcpSniff cfg w timeoutPos ob dst.port then (s, [])
  else
    let (s1, skip) := sniffSkip cfg s key w.now
    if skip then (s1, [])
    else match sniffOutcome p with
      | none => (sniffNote cfg s1 key w.now, [])
      | some d => (s1.del key, d)

/-- `common.ConvergeAddrPort`: an IPv4-mapped IPv6 address becomes the IPv4 address. -/
def converge (d : Dst) : Dst :=
  if !d.is4 && is4In6 d.addr then { is4 := true, addr := d.addr % 2 ^ 32, port := d.port } else d

/-- `handleConn` up to and including `routeDial`. `kob` = the outbound of the kernel's routing tuple
(`none`: the tuple is missing after the retries — userspace routing decides). `local` = the
socket's local address. -/
def handleConn (cfg : SniffCfg) (w : World) (s : SniffNeg) (timeoutPos : Bool) (kob : Option Nat)
    (localAddr : Dst) (key : Str) (p : Payload) (route : Str → Option Nat) (nOut : Nat) (failFirst : Bool)
    (settle : World → Option Str → World) : World × SniffNeg × Str × List DialOut :=
  let ob := kob.getD outboundControlPlaneRouting
  let dst := converge localAddr
  let (s1, d) := connDomain cfg w s timeoutPos ob dst key p
  let (w1, outs) := routeDial w ob dst d route nOut failFirst settle
  (w1, s1, d, outs)

/-- the socket mark of the dial: after a re-route (requested by `ChooseDialTarget` or by the kernel
verdict `OutboundControlPlaneRouting`) the mark of the routing answer, otherwise the mark of the
kernel's routing tuple; `so_mark_from_dae` when that is zero. -/
def dialMark (w : World) (ob : Nat) (dst : Dst) (d : Str) (pMark soMark : Nat) (routeMark : Str → Nat) : Nat :=
  let c1 := (chooseDialTarget w ob dst d).2
  let m := if c1.reroute || ob == outboundControlPlaneRouting then routeMark d else pMark
  if m = 0 then soMark else m

/-! ### histories of the sniff negative cache -/

inductive SniffEv
  /-- a connection of flow signature `key` was sniffed at time `now` and the sniff failed -/
  | fail (key : Str) (now : Int)
  /-- … and succeeded -/
  | ok (key : Str) (now : Int)
deriving Repr

/-- one sniffable connection (policy says "try") at a time: skip test first, then the outcome. -/
def sniffStep (cfg : SniffCfg) (s : SniffNeg) : SniffEv → SniffNeg
  | .fail key now =>
    let (s1, skip) := sniffSkip cfg s key now
    if skip then s1 else sniffNote cfg s1 key now
  | .ok key now =>
    let (s1, skip) := sniffSkip cfg s key now
    if skip then s1 else s1.del key

def sniffRun (cfg : SniffCfg) (s : SniffNeg) (es : List SniffEv) : SniffNeg := es.foldl (sniffStep cfg) s

end DaeVerif.C18
