import DaeVerif.C02.Proofs
namespace DaeVerif.C02.Props
open DaeVerif.C02
theorem placeholder_ring (s i : Nat) : ringSlot s i < MaxMatchSetLen := by
  unfold ringSlot MaxMatchSetLen; omega
end DaeVerif.C02.Props
