import DaeVerif.C02.Proofs
import DaeVerif.C02.Reload
import DaeVerif.C01.Props
/-!
# C02 — property theorems: the kernel routing program and the userspace matcher decide identically

Reading guide.  `routeK` is the model of the kernel `route()` over raw bytes (Model.lean), `matchU`
the userspace `RoutingMatcher.Match` over the typed array, `expectedK pk r` = the packed result the
kernel must return when userspace decides `r` (`pack ∘ dnsAdjust`, `-EPERM` for "no match set hit").
`Installed m start kp tries` = what one `buildRoutingKernspace` leaves in the maps; `installGen` is
that function, applied on top of ARBITRARY previous map contents.  Hypotheses are named:

* **H1** (LPM contract, discharged): C12's `kernel_userspace_same_set` — used inside the proof;
* **H2** `domain`: the bitmap installed for the destination equals userspace's `MatchDomainBitmap`
  (C10 / C11's subject);
* **H3** `PktOK.lanNoPname`: LAN packets carry no process name (the LAN hook leaves `flag[2..5]`
  zero). Since the kernel tests `is_wan && pname[0] != 0 && equal16` (fix C02.fix1) nothing is
  assumed about rules any more: a rule for the empty process name matches on neither side
  (`empty_pname_rule_agrees`); `lan_pname_hypothesis_needed` shows what H3 still excludes.
-/
namespace DaeVerif.C02.Props
open DaeVerif.RuleScan DaeVerif.C12 DaeVerif.C01 DaeVerif.C02

/-! ## non-vacuity fixtures -/

/-- `dip(10.0.0.0/8) && !dport(80, 443) -> g5(mark 0x800)` · `pname(curl) -> must_rules` ·
`domain(..) && l4proto(udp) -> block` · `mac(02:42:ac:11:00:02) && dscp(46) && ipversion(4) -> g7(must)` ·
fallback `g2` -/
def exKp : List KEntry := [
  ⟨.ipSet 0, false, OB_And, false, 0x800⟩, ⟨.port 80 80, true, OB_Or, false, 0x800⟩, ⟨.port 443 443, true, 5, false, 0x800⟩,
  ⟨.processName [0x63, 0x75, 0x72, 0x6c, 0, 0, 0, 0, 0, 0, 0, 0, 0, 0, 0, 0], false, OB_MustRules, false, 0⟩,
  ⟨.domainSet, false, OB_And, false, 0⟩, ⟨.l4Proto 2, false, 1, false, 0⟩,
  ⟨.macSet 1, false, OB_And, true, 0⟩, ⟨.dscp 46, false, OB_And, true, 0⟩, ⟨.ipVersion 1, false, 7, true, 0⟩,
  ⟨.fallback, false, 2, false, 0xffffffff⟩]
def exTries : List (List Prefix) := [[⟨true, mapped4 0x0a000000, 8⟩], [macPrefix 0x0242ac110002]]
/-- UDP/53 from `curl` on WAN to 10.1.2.3, no domain -/
def exPkt : PktK := ⟨2, 1, [0x63, 0x75, 0x72, 0x6c, 0, 0, 0, 0, 0, 0, 0, 0, 0, 0, 0, 0], 0, 1, 40000, 53,
  mapped4 0xc0a80002, mapped4 0x0a010203, 0x0242ac110002⟩
/-- maps after two earlier generations (stale rules beyond the active length, stale LPM slots) -/
def exOld : KMaps := installGen .little 1000 (exKp ++ exKp) (exTries ++ exTries) KMaps.empty
def exMaps : KMaps := installGen .little 1023 exKp exTries exOld

theorem exEntriesOK : ∀ k ∈ exKp, EntryOK exTries.length k := by
  intro k hk
  simp only [exKp, List.mem_cons, List.not_mem_nil, or_false] at hk
  rcases hk with rfl | rfl | rfl | rfl | rfl | rfl | rfl | rfl | rfl | rfl <;>
    exact ⟨by decide, by decide, by decide⟩
theorem exTriesWF : ∀ t ∈ exTries, ∀ p ∈ t, p.WF := by decide
theorem exPktOK : PktOK exPkt := ⟨by decide, by decide, by decide, by decide, by decide, by decide, by decide⟩

/-! ## 1. the kernel program returns what the userspace matcher decides -/

/-- A rule image that differs from the encoders' image only in bytes the kernel never reads is as good as
the encoders' image: `Installed` constrains exactly the fields `route()` reads (`readsAs`). -/
theorem installed_by_encoders (start : Nat) (kp : List KEntry) (tries : List (List Prefix)) (m0 : KMaps)
    (rulesFit : kp.length ≤ MaxMatchSetLen) (triesFit : tries.length ≤ MaxMatchSetLen)
    (entriesOK : ∀ k ∈ kp, EntryOK tries.length k) : Installed (installGen .little start kp tries m0) start kp tries :=
  installGen_installed start kp tries m0 rulesFit triesFit entriesOK

-- bytes the kernel never reads are free: the unused `Value` bytes of a port set may hold anything
example : readsAs ([80, 0, 80, 0, 9, 9, 9, 9, 9, 9, 9, 9, 9, 9, 9, 9] ++ [0, 3, 1, 0, 0, 0, 0, 0]) ⟨.port 80 80, false, 1, false, 0⟩ = true := by decide

/-- **Headline.** For every installed program (typed array `kp`, LPM sets `tries`, ring start
`start`), whatever else the maps contain, and every packet: the kernel `route()`, run over the raw
byte images of the match sets, the LPM slots and the per-address domain bitmap, returns exactly
`pack (dnsAdjust (userspace Match))` — same outbound, mark and must, except that a DNS query not
covered by a must rule is handed to the control plane — and `-EPERM` when userspace finds no hit. -/
theorem routeK_eq_userspace (m : KMaps) (pk : PktK) (start : Nat) (kp : List KEntry)
    (tries : List (List Prefix)) (ubm : List Nat)
    (installed : Installed m start kp tries)
    (triesWF : ∀ t ∈ tries, ∀ p ∈ t, p.WF)
    (pktOK : PktOK pk)
    (domain : ∀ w, m.domainWord pk.daddr w = ubm.getD w 0)
    (entriesOK : ∀ k ∈ kp, EntryOK tries.length k) :
    routeK .little m pk = expectedK pk (matchU kp tries ubm pk) :=
  routeK_main m pk start kp tries ubm installed triesWF pktOK domain entriesOK

-- the hypotheses are satisfiable by a non-trivial state (ring wrap-around at 1023 → 0, stale
-- generations underneath), and the decision there is a DNS hand-over carrying the hit rule's mark
example : Installed exMaps 1023 exKp exTries ∧ (∀ w, exMaps.domainWord exPkt.daddr w = ([] : List Nat).getD w 0) ∧
    matchU exKp exTries [] exPkt = some ⟨5, 0x800, false⟩ ∧
    routeK .little exMaps exPkt = pack OB_ControlPlane 0x800 false := by
  refine ⟨installGen_installed _ _ _ _ (by decide) (by decide) exEntriesOK, fun w => rfl, by decide, ?_⟩
  rw [routeK_eq_userspace exMaps exPkt 1023 exKp exTries [] (installGen_installed _ _ _ _ (by decide) (by decide) exEntriesOK)
    exTriesWF exPktOK (fun w => rfl) exEntriesOK]
  decide

/-- **After any history of reloads.** One `buildRoutingKernspace` (LPM slots at the ring offsets
`(start + i) % 1024`, rewritten rules, active length) on top of ARBITRARY previous map contents
`m0`, followed by `InheritLpmIndices` for an ARBITRARY set `old` of superseded slots (deleted unless
the new generation reuses them — overlapping generations included) and by arbitrary updates of the
domain map, leaves the kernel deciding like userspace: stale rules beyond the active length and
stale LPM slots are never consulted, and no slot of the live generation is deleted. -/
theorem routeK_after_any_reload_history (m0 : KMaps) (old : List Nat) (dom : List (Nat × List Nat)) (start : Nat)
    (kp : List KEntry) (tries : List (List Prefix)) (pk : PktK) (ubm : List Nat)
    (rulesFit : kp.length ≤ MaxMatchSetLen) (triesFit : tries.length ≤ MaxMatchSetLen)
    (triesWF : ∀ t ∈ tries, ∀ p ∈ t, p.WF) (pktOK : PktOK pk)
    (domain : ∀ w, ({ inheritSlots (installGen .little start kp tries m0) old (genSlots start tries.length)
        with domain := dom } : KMaps).domainWord pk.daddr w = ubm.getD w 0)
    (entriesOK : ∀ k ∈ kp, EntryOK tries.length k) :
    routeK .little { inheritSlots (installGen .little start kp tries m0) old (genSlots start tries.length)
        with domain := dom } pk = expectedK pk (matchU kp tries ubm pk) :=
  routeK_main _ pk start kp tries ubm
    ((inherit_installed _ start kp tries old (installGen_installed start kp tries m0 rulesFit triesFit entriesOK)).with_domain dom)
    triesWF pktOK domain entriesOK

/-- `InheritLpmIndices` keeps the live generation installed (the reused-slot skip at work). -/
theorem inherit_keeps_generation_installed (m : KMaps) (start : Nat) (kp : List KEntry) (tries : List (List Prefix))
    (old : List Nat) (h : Installed m start kp tries) :
    Installed (inheritSlots m old (genSlots start tries.length)) start kp tries :=
  inherit_installed m start kp tries old h

/-- … and the skip is needed: deleting a slot the live generation uses (what `InheritLpmIndices`
would do without the `reused` test when two generations overlap, cf. `ring_overlap_when_too_many`)
turns every packet that reaches the rule into `-EPERM` while userspace still decides `block`. -/
theorem deleting_a_live_slot_breaks_routing :
    routeK .little ((installGen .little 5 [⟨.ipSet 0, false, 1, false, 0⟩, ⟨.fallback, false, 0, false, 0⟩]
        [[⟨true, mapped4 0x0a000000, 8⟩]] KMaps.empty).delSlots [ringSlot 5 0])
      ⟨1, 1, List.replicate 16 0, 0, 0, 40000, 443, mapped4 1, mapped4 0x0a010203, 0⟩ = -EPERM ∧
    matchU [⟨.ipSet 0, false, 1, false, 0⟩, ⟨.fallback, false, 0, false, 0⟩] [[⟨true, mapped4 0x0a000000, 8⟩]] []
      ⟨1, 1, List.replicate 16 0, 0, 0, 40000, 443, mapped4 1, mapped4 0x0a010203, 0⟩ = some ⟨1, 0, false⟩ := by decide

/-- The driver's executable check on the maps dumped from the real kernel after a real reload
implies the theorems' hypothesis `Installed` (LPM slots compared up to trie-node identity). -/
theorem installed_check_sound (m : KMaps) (start : Nat) (kp : List KEntry) (tries : List (List Prefix))
    (h : installedB m start kp tries = true) : Installed m start kp tries := installedB_sound m start kp tries h

example : installedB exMaps 1023 exKp exTries = true := by decide

example : exKp.length ≤ MaxMatchSetLen ∧ exTries.length ≤ MaxMatchSetLen := by decide

/-- The decision the callers extract (`outbound = r & 0xff`, `mark = r >> 8`, `must = (r >> 40) & 1`)
is userspace's decision after the DNS adjustment. -/
theorem kernel_decision (m : KMaps) (pk : PktK) (start : Nat) (kp : List KEntry)
    (tries : List (List Prefix)) (ubm : List Nat) (installed : Installed m start kp tries)
    (triesWF : ∀ t ∈ tries, ∀ p ∈ t, p.WF) (pktOK : PktOK pk)
    (domain : ∀ w, m.domainWord pk.daddr w = ubm.getD w 0)
    (entriesOK : ∀ k ∈ kp, EntryOK tries.length k) (o : Out) (hu : matchU kp tries ubm pk = some o) :
    unpack (routeK .little m pk).toNat = dnsAdjust pk o := by
  rw [routeK_eq_userspace m pk start kp tries ubm installed triesWF pktOK domain entriesOK, hu]
  obtain ⟨h1, h2⟩ := matchU_some_bounds kp tries ubm pk o (fun k hk => ⟨(entriesOK k hk).ob, (entriesOK k hk).mark⟩) hu
  unfold expectedK dnsAdjust
  simp only
  split
  · exact unpack_pack _ _ _ (by simp [OB_ControlPlane]) h2
  · exact unpack_pack _ _ _ h1 h2

/-- The one intended difference: a DNS query (destination port 53, TCP or UDP) not covered by a
must rule is handed to the control plane, keeping the hit rule's mark. -/
theorem dns_query_goes_to_control_plane (pk : PktK) (o : Out) (hd : isDnsQuery pk = true) (hm : o.must = false) :
    dnsAdjust pk o = ⟨OB_ControlPlane, o.mark, false⟩ := by
  unfold dnsAdjust; simp [hd, hm]

/-- … and in every other case (not a DNS query, or a must rule / must outbound hit) the kernel's
outbound, mark and must are exactly userspace's. -/
theorem non_dns_or_must_same_decision (pk : PktK) (o : Out) (h : isDnsQuery pk = false ∨ o.must = true) :
    dnsAdjust pk o = o := by
  unfold dnsAdjust; rcases h with h | h <;> simp [h]

example : isDnsQuery exPkt = true ∧ isDnsQuery { exPkt with dport := 54 } = false := by decide

/-- "No match set hit" (an error in `Match`) is `-EPERM` in the kernel: both sides refuse. -/
theorem no_hit_is_error_on_both_sides (pk : PktK) : expectedK pk none = -EPERM := rfl

/-! ## 2. the chain kernel = userspace = first-match specification (C01) -/

/-- The typed array the builder emits for C01's compiled program (one LPM slot per address set,
domain sets found by position) makes `Match` compute C01's `matchM`. -/
theorem userspace_typed_eq_C01_matchM (es : List (Entry MCond Out)) (p : C01.Pkt) (wan : Bool) (ubm : List Nat)
    (outboundsOK : ∀ e ∈ es, OutOK e) (domainPositions : DomOK ubm p 0 es) :
    matchU (assignFrom 0 es).1 (assignFrom 0 es).2 ubm (toK p wan) = matchM es p := by
  unfold matchU matchM
  have := assign_scan p wan ubm es 0 0 [] false false false rfl outboundsOK domainPositions
  simp only [List.nil_append] at this
  rw [this]

/-- The same for the array the REAL builder emits: `ip()`/`sip()` sets share LPM tries through
`lpmDedup` (any hash function, collisions included), `mac()` sets never do. -/
theorem userspace_shared_eq_C01_matchM (hash : List Prefix → Nat) (es : List (Entry MCond Out)) (p : C01.Pkt) (wan : Bool)
    (ubm : List Nat) (outboundsOK : ∀ e ∈ es, OutOK e) (domainPositions : DomOK ubm p 0 es) :
    matchU (assignShare hash Builder.empty es).1 (assignShare hash Builder.empty es).2.tries ubm (toK p wan) = matchM es p := by
  unfold matchU matchM
  rw [(assignShare_scan hash p wan ubm es Builder.empty 0 Builder.inv_empty outboundsOK domainPositions).2.2
    _ [] (by simp) false false false]

/-- **Chain.** For every rule list as written (C01's well-formedness plus the ranges the Go types
enforce: 16-bit ports, 8-bit DSCP, user outbounds below the sentinels, 32-bit marks), the kernel
program run over the byte images installed for the builder's typed array (with trie sharing)
returns the packed decision of the first matching rule (C01's specification), DNS-adjusted.
Remaining hypotheses: the program fits the maps (= the builder accepts it), the packet ranges, H2,
and the position bookkeeping of the domain bitmap (`DomOK`: bit `i` is the truth of the key group
whose match set sits at index `i` — `addDomain`'s `RuleIndex: len(b.rules)`, C01 `Position` / C11). -/
theorem kernel_eq_first_match_spec (hash : List Prefix → Nat) (rules : List SRule) (fb : Out) (p : C01.Pkt) (wan : Bool)
    (ubm : List Nat) (m0 : KMaps) (old : List Nat) (dom : List (Nat × List Nat)) (start : Nat)
    (hp : p.WF) (hr : ∀ r ∈ rules, r.WF) (ranges : ∀ r ∈ rules, ruleRanges r)
    (fallbackOK : fb.outbound < OB_MustRules ∧ fb.mark < 2 ^ 32)
    (domainPositions : DomOK ubm p 0 (compileProgram rules fb))
    (rulesFit : (assignShare hash Builder.empty (compileProgram rules fb)).1.length ≤ MaxMatchSetLen)
    (triesFit : (assignShare hash Builder.empty (compileProgram rules fb)).2.tries.length ≤ MaxMatchSetLen)
    (pktOK : PktOK (toK p wan))
    (domain : ∀ w, ({ inheritSlots (installGen .little start (assignShare hash Builder.empty (compileProgram rules fb)).1
        (assignShare hash Builder.empty (compileProgram rules fb)).2.tries m0) old
        (genSlots start (assignShare hash Builder.empty (compileProgram rules fb)).2.tries.length)
        with domain := dom } : KMaps).domainWord (toK p wan).daddr w = ubm.getD w 0) :
    routeK .little { inheritSlots (installGen .little start (assignShare hash Builder.empty (compileProgram rules fb)).1
        (assignShare hash Builder.empty (compileProgram rules fb)).2.tries m0) old
        (genSlots start (assignShare hash Builder.empty (compileProgram rules fb)).2.tries.length)
        with domain := dom } (toK p wan) =
      expectedK (toK p wan) (some (firstMatchS p rules fb false)) := by
  have ok := compileProgram_ok rules fb hr ranges fallbackOK
  have outs : ∀ e ∈ compileProgram rules fb, OutOK e := fun e he => outOK_of_tailOK e (ok e he).2
  obtain ⟨tw, _, eok⟩ := assignShare_ok hash (compileProgram rules fb) Builder.empty Builder.inv_empty
    (by intro t ht; simp [Builder.empty] at ht) ok
  rw [routeK_after_any_reload_history m0 old dom start _ _ (toK p wan) ubm rulesFit triesFit tw pktOK domain eok,
    userspace_shared_eq_C01_matchM hash _ p wan ubm outs domainPositions,
    C01.Props.match_is_first_match rules fb p hp hr]

-- the chain's hypotheses hold for C01's own example program
example : (∀ e ∈ compileProgram C01.Props.exRules ⟨0, 0, false⟩, OutOK e) ∧
    DomOK [] C01.Props.exPkt 0 (compileProgram C01.Props.exRules ⟨0, 0, false⟩) ∧
    (assignFrom 0 (compileProgram C01.Props.exRules ⟨0, 0, false⟩)).1.length ≤ MaxMatchSetLen ∧
    (assignFrom 0 (compileProgram C01.Props.exRules ⟨0, 0, false⟩)).2.length = 2 ∧
    (∀ k ∈ (assignFrom 0 (compileProgram C01.Props.exRules ⟨0, 0, false⟩)).1, EntryOK 2 k) ∧
    PktOK (toK C01.Props.exPkt true) := by
  refine ⟨by decide, by decide, by decide, by decide, by decide, ?_⟩
  exact ⟨by decide, by decide, by decide, by decide, by decide, by decide, by decide⟩

-- sharing really happens: two equal `dip` sets in different rules get ONE trie, the `mac` set its own
example : (assignShare (fun _ => 7) Builder.empty
    [⟨.ipSet [⟨true, mapped4 0x0a000000, 8⟩], false, .final ⟨2, 0, false⟩⟩, ⟨.srcIpSet [⟨true, mapped4 0x0a000000, 8⟩], false, .final ⟨3, 0, false⟩⟩,
     ⟨.macSet [macPrefix 1], false, .final ⟨4, 0, false⟩⟩, ⟨.fallback, false, .final ⟨0, 0, false⟩⟩]).1.map (·.cond) =
    [.ipSet 0, .srcIpSet 0, .macSet 1, .fallback] := by decide

/-! ## 3. the byte encodings the control plane writes are the ones the kernel reads -/

/-- **Little-endian hosts** (amd64, arm64, riscv64, …): every field the kernel reads from the
24-byte image — type, not, outbound, must, mark; set index; port range; protocol / version mask
through the int-sized enum member; the 16 process-name bytes; DSCP — is the value the builder
wrote, for all 2³² indices and marks, all ports, masks, DSCPs and names. -/
theorem decode_encode_little (k : KEntry) (hc : k.cond.WF (2 ^ 32)) (hob : k.outbound < 256)
    (hmk : k.mark < 2 ^ 32) : FieldsAgree .little k := fieldsAgree_little k hc hob hmk

example : (KEntry.mk (.port 1024 65535) true OB_Or true 0xffffffff).cond.WF (2 ^ 32) := by decide

/-- **Big-endian hosts** (dae ships mips, ppc64, s390x builds): set index, port range and the enum
masks are written with explicit little-endian puts but read natively, so they do NOT round-trip
(finding candidate #11; model-level, not executable in the sandbox). -/
theorem decode_encode_bigendian_fails :
    ¬ FieldsAgree .big ⟨.ipSet 1, false, 0, false, 0⟩ ∧
    ¬ FieldsAgree .big ⟨.port 80 80, false, 0, false, 0⟩ ∧
    ¬ FieldsAgree .big ⟨.l4Proto 1, false, 0, false, 0⟩ := by decide

/-- … while the natively written `Mark` field does (so the defect is confined to the `Value` union). -/
theorem bigendian_mark_agrees (k : KEntry) (hmk : k.mark < 2 ^ 32) : msMark .big (encodeGo .big k) = k.mark :=
  msMark_enc_big k hmk

/-- On a big-endian target the disagreement reaches the routing decision: `dport(80) -> block`,
fallback `direct`, a TCP packet to port 80 is blocked by userspace and sent direct by the kernel. -/
theorem bigendian_routes_differently :
    routeK .big (installGen .big 0 [⟨.port 80 80, false, 1, false, 0⟩, ⟨.fallback, false, 0, false, 0⟩] [] KMaps.empty)
        ⟨1, 1, List.replicate 16 0, 0, 0, 40000, 80, 1, 2, 0⟩ = pack 0 0 false ∧
    matchU [⟨.port 80 80, false, 1, false, 0⟩, ⟨.fallback, false, 0, false, 0⟩] [] []
        ⟨1, 1, List.replicate 16 0, 0, 0, 40000, 80, 1, 2, 0⟩ = some ⟨1, 0, false⟩ := by decide

/-- Prefix keys: the kernel LPM keys `cidrToBpfLpmKey` writes for a set, looked up with a /128
probe, describe the same address set as the userspace trie (H1; C12). -/
theorem lpm_key_same_set (t : List Prefix) (a : Nat) (ht : ∀ p ∈ t, p.WF) (ha : a < 2 ^ 128) :
    lpmLookup (t.map cidrToKey) a = trieMatch t a := C12.Props.kernel_userspace_same_set t a ht ha

/-- Bitmaps: with the same 32 words on both sides (H2), the kernel's cached-word test
`(word >> (index % 32)) & 1` is userspace's `bitmap[i/32] >> (i%32) & 1 > 0` with its length guard. -/
theorem domain_bit_same (ubm : List Nat) (word : Nat → Nat) (h : ∀ w, word w = ubm.getD w 0) (i : Nat) :
    ((word (i / 32) >>> (i % 32)) &&& 1 != 0) = bitmapBit ubm i := by
  rw [h]
  unfold bitmapBit
  by_cases hl : i / 32 < ubm.length
  · rw [show decide (i / 32 < ubm.length) = true from decide_eq_true hl, Bool.true_and]
    generalize ((ubm.getD (i / 32) 0 >>> (i % 32)) &&& 1) = x
    by_cases hx : x = 0
    · subst hx; rfl
    · have : x > 0 := Nat.pos_of_ne_zero hx
      simp [hx, this]
  · have h0 : ubm.getD (i / 32) 0 = 0 := by
      rw [List.getD_eq_getElem?_getD, List.getElem?_eq_none (by omega : ubm.length ≤ i / 32)]; rfl
    rw [h0, show decide (i / 32 < ubm.length) = false from decide_eq_false hl]; simp

/-! ## 4. the packed result -/

/-- `outbound | mark << 8 | must << 40` and the callers' `r & 0xff`, `(u32)(r >> 8)`, `(r >> 40) & 1`
are inverse for every outbound byte, every 32-bit mark and both must values. -/
theorem pack_unpack (ob mark : Nat) (must : Bool) (h1 : ob < 256) (h2 : mark < 2 ^ 32) :
    unpack (pack ob mark must).toNat = ⟨ob, mark, must⟩ := unpack_pack ob mark must h1 h2

/-- The packed value is a non-negative `__s64` (below 2⁴¹): it can never be taken for an error. -/
theorem pack_nonneg_fits_s64 (ob mark : Nat) (must : Bool) (h1 : ob < 256) (h2 : mark < 2 ^ 32) :
    0 ≤ pack ob mark must ∧ pack ob mark must < 2 ^ 41 := by
  refine ⟨pack_nonneg _ _ _, ?_⟩
  unfold pack
  rw [pack_arith ob mark must h1 h2]
  have : bpfBool must ≤ 1 := by cases must <;> decide
  have e : ((2 : Int) ^ 41) = ((2 ^ 41 : Nat) : Int) := by norm_cast
  rw [e]
  exact Int.ofNat_lt.mpr (by omega)

example : unpack (pack 251 0xffffffff true).toNat = ⟨251, 0xffffffff, true⟩ := by decide

/-! ## 5. ring slots across reloads -/

/-- Within one generation (`count ≤ 1024` sets) the rewritten slot indices are pairwise distinct. -/
theorem ring_rewrite_injective (start count i j : Nat) (hc : count ≤ MaxMatchSetLen) (hi : i < count)
    (hj : j < count) (h : ringSlot start i = ringSlot start j) : i = j :=
  ringSlot_inj start i j (by omega) (by omega) h

/-- Every rewritten index is a valid key of `lpm_array_map` (`MAX_LPM_NUM = 1032` entries). -/
theorem ring_slot_in_lpm_array (start i : Nat) : ringSlot start i < MaxLpmNum := by
  unfold ringSlot MaxLpmNum MaxMatchSetLen; omega

/-- `rewriteKernRulesWithRingLpmIndex` succeeds exactly by rewriting every set index when all of
them are below the number of tries. -/
theorem rewriteKern_ok (start count : Nat) (kp : List KEntry)
    (h : ∀ k ∈ kp, ∀ i, k.cond.lpmIdx? = some i → i < count) :
    rewriteKern start count kp = some (kp.map (KEntry.rewrite start)) := by
  unfold rewriteKern
  rw [if_pos]
  rw [List.all_eq_true]
  intro k hk
  cases hi : k.cond.lpmIdx? with
  | none => rfl
  | some i => simpa using h k hk i hi

/-- Two consecutive generations (`reserveLpmRingSlots` hands the second the counter the first left)
whose sizes add up to at most 1024 use disjoint slots: the hot-reload overlap window is safe. -/
theorem ring_disjoint_from_previous (c0 n1 n2 s1 c1 s2 c2 : Nat)
    (h1 : reserveRing c0 n1 = some (s1, c1)) (h2 : reserveRing c1 n2 = some (s2, c2))
    (hsum : n1 + n2 ≤ MaxMatchSetLen) (i j : Nat) (hi : i < n1) (hj : j < n2) :
    ringSlot s1 i ≠ ringSlot s2 j := by
  unfold reserveRing at h1 h2
  have hn1 : n1 ≠ 0 := by omega
  have hn2 : n2 ≠ 0 := by omega
  unfold MaxMatchSetLen at *
  simp only [show ¬ n1 > 1024 from by omega, show ¬ n2 > 1024 from by omega, hn1, hn2, if_false,
    Option.some.injEq, Prod.mk.injEq] at h1 h2
  obtain ⟨rfl, rfl⟩ := h1
  obtain ⟨rfl, rfl⟩ := h2
  unfold ringSlot MaxMatchSetLen
  omega

/-- … and the limit is sharp: when the two generations together exceed 1024 sets, the new one
overwrites a slot the old rules still reference (the documented limit of the ring). -/
theorem ring_overlap_when_too_many (c0 n1 n2 s1 c1 s2 c2 : Nat)
    (h1 : reserveRing c0 n1 = some (s1, c1)) (h2 : reserveRing c1 n2 = some (s2, c2))
    (hn1 : 0 < n1) (hn2 : 0 < n2) (hsum : n1 + n2 > MaxMatchSetLen) :
    ∃ i j, i < n1 ∧ j < n2 ∧ ringSlot s1 i = ringSlot s2 j := by
  unfold reserveRing at h1 h2
  have hle1 : ¬ n1 > MaxMatchSetLen := by intro h; simp [h] at h1
  have hle2 : ¬ n2 > MaxMatchSetLen := by intro h; simp [h] at h2
  unfold MaxMatchSetLen at *
  simp only [hle1, hle2, show n1 ≠ 0 from by omega, show n2 ≠ 0 from by omega, if_false,
    Option.some.injEq, Prod.mk.injEq] at h1 h2
  obtain ⟨rfl, rfl⟩ := h1
  obtain ⟨rfl, rfl⟩ := h2
  refine ⟨0, 1024 - n1, hn1, by omega, ?_⟩
  unfold ringSlot MaxMatchSetLen
  omega

example : reserveRing 1000 30 = some (1000, 6) ∧ reserveRing 6 994 = some (6, 1000) := by decide

/-! ## 5b. kernel error paths, program size, the scope of H2 -/

/-- Whatever the maps contain (any byte order), `route()` returns a packed decision or `-EPERM`:
`-EFAULT` / `-EINVAL` / `-ENOEXEC` set inside the loop never escape. -/
theorem routeK_nonneg_or_eperm (e : Endian) (m : KMaps) (pk : PktK) : 0 ≤ routeK e m pk ∨ routeK e m pk = -EPERM := by
  unfold routeK
  simp only
  generalize (bpfLoop (loopCb e m pk) (if m.activeLen ≤ MaxMatchSetLen then m.activeLen else MaxMatchSetLen) 0 _).result = r
  by_cases h : r ≥ 0
  · left; simp [h]
  · right; simp [h]

/-- `active_rules_len` above `MAX_MATCH_SET_LEN` is clamped: the kernel never scans past index 1023. -/
theorem active_len_clamped (e : Endian) (m : KMaps) (pk : PktK) (h : m.activeLen > MaxMatchSetLen) :
    routeK e m pk = routeK e { m with activeLen := MaxMatchSetLen } pk := by
  unfold routeK
  have h1 : ¬ m.activeLen ≤ MaxMatchSetLen := by omega
  simp only [h1, if_false, Nat.le_refl, if_true]
  rfl

/-- An empty program (active length 0) routes nothing: `-EPERM`. -/
theorem nothing_installed_is_error (e : Endian) (m : KMaps) (pk : PktK) (h : m.activeLen = 0) : routeK e m pk = -EPERM := by
  unfold routeK
  simp [h, bpfLoop, ENOEXEC]

/-- The builder (fix 51cbe59) accepts a lowered array, fallback entry included, iff it fits
`routing_map`; a longer one is a build error on both sides before any map is written. -/
def builderAccepts (kp : List KEntry) : Bool := decide (kp.length ≤ MaxMatchSetLen)

/-- … which is exactly the `rulesFit` hypothesis of the theorems, and nothing longer can ever be
`Installed` (the kernel could only scan a prefix of it). -/
theorem builder_accepts_iff_installable (start : Nat) (kp : List KEntry) (tries : List (List Prefix)) (ht : tries.length ≤ MaxMatchSetLen)
    (entriesOK : ∀ k ∈ kp, EntryOK tries.length k) :
    builderAccepts kp = true ↔ ∃ m, Installed m start kp tries := by
  unfold builderAccepts
  rw [decide_eq_true_eq]
  constructor
  · intro h; exact ⟨_, installGen_installed start kp tries KMaps.empty h ht entriesOK⟩
  · rintro ⟨m, hm⟩; exact hm.bound

example : builderAccepts exKp = true := by decide

/-- **H2 is needed** (its scope made explicit): a bitmap left in `domain_routing_map` for the
destination (here bit 0 of word 0) while userspace has no domain for the packet makes the kernel
take the `domain(..) -> block` rule and userspace fall through to `direct`. The control plane clears
the map at every reload and the harness checks on the real kernel map that it does. -/
theorem domain_hypothesis_needed :
    routeK .little { installGen .little 0 [⟨.domainSet, false, 1, false, 0⟩, ⟨.fallback, false, 0, false, 0⟩] [] KMaps.empty
        with domain := [(2, 1 :: List.replicate 31 0)] }
      ⟨1, 1, List.replicate 16 0, 0, 0, 40000, 443, 1, 2, 0⟩ = pack 1 0 false ∧
    matchU [⟨.domainSet, false, 1, false, 0⟩, ⟨.fallback, false, 0, false, 0⟩] [] []
      ⟨1, 1, List.replicate 16 0, 0, 0, 40000, 443, 1, 2, 0⟩ = some ⟨0, 0, false⟩ := by decide

/-- **Observation (inherent to address-keyed learning, no alarm).** Two cached names on one address:
`domain_routing_map` holds the OR of their bitmaps (the tracker's merge), so for a connection to the
second name the kernel takes the first name's rule (`block`) while `Match(domain = second name)`
decides by that name alone (`direct`, mark 7). H2 (installed word = the packet's own bitmap) excludes
this input; the composed theorem (`Compose.KernelDomain`) specifies the kernel side by the
cache-derived domain knowledge of the address, not by `Match(domain)`. -/
theorem shared_address_or_observation :
    routeK .little { installGen .little 0 [⟨.domainSet, false, 1, false, 0⟩, ⟨.domainSet, false, 0, false, 7⟩,
        ⟨.fallback, false, 0, false, 0⟩] [] KMaps.empty with domain := [(2, 3 :: List.replicate 31 0)] }
      ⟨1, 1, List.replicate 16 0, 0, 0, 40000, 443, 1, 2, 0⟩ = pack 1 0 false ∧
    matchU [⟨.domainSet, false, 1, false, 0⟩, ⟨.domainSet, false, 0, false, 7⟩, ⟨.fallback, false, 0, false, 0⟩] []
      (2 :: List.replicate 31 0) ⟨1, 1, List.replicate 16 0, 0, 0, 40000, 443, 1, 2, 0⟩ = some ⟨0, 7, false⟩ := by decide

/-! ## 6. the process name (H3) -/

/-- The former process-name gap (finding #6, repaired by C02.fix1): with the rule `pname('') -> block`
and a WAN packet whose process is unknown (16 zero bytes) the kernel used to block (`is_wan &&
equal16`) while userspace fell through. With the first-byte test both sides fall through to
`direct`. The harness replays this input on both implementations (stream `c02f6`): reverting the fix
is a detected violation. -/
theorem empty_pname_rule_agrees :
    routeK .little (installGen .little 0 [⟨.processName (List.replicate 16 0), false, 1, false, 0⟩, ⟨.fallback, false, 0, false, 0⟩] [] KMaps.empty)
        ⟨1, 1, List.replicate 16 0, 0, 1, 40000, 443, 1, 2, 0⟩ = pack 0 0 false ∧
    matchU [⟨.processName (List.replicate 16 0), false, 1, false, 0⟩, ⟨.fallback, false, 0, false, 0⟩] [] []
        ⟨1, 1, List.replicate 16 0, 0, 1, 40000, 443, 1, 2, 0⟩ = some ⟨0, 0, false⟩ := by decide

/-- The headline WITHOUT hypothesis H3 (nothing assumed about `is_wan` and the process name). -/
def routeK_eq_userspace_without_H3 : Prop :=
  ∀ (m : KMaps) (pk : PktK) (start : Nat) (kp : List KEntry) (tries : List (List Prefix)) (ubm : List Nat),
    Installed m start kp tries → (∀ t ∈ tries, ∀ p ∈ t, p.WF) →
    pk.saddr < 2 ^ 128 → pk.daddr < 2 ^ 128 → pk.mac < 2 ^ 128 → pk.l4w < 256 → pk.ipw < 256 → pk.dscpw < 256 →
    (∀ w, m.domainWord pk.daddr w = ubm.getD w 0) →
    (∀ k ∈ kp, EntryOK tries.length k) →
    routeK .little m pk = expectedK pk (matchU kp tries ubm pk)

/-- What H3 still excludes: a packet handed to `route()` with `is_wan = 0` AND a process name (no
caller does that: the LAN hook never fills `flag[2..5]`). For such an input the kernel ignores the
name and userspace would use it — so H3 cannot be dropped from the statement. -/
theorem lan_pname_hypothesis_needed : ¬ routeK_eq_userspace_without_H3 := by
  intro h
  have := h (installGen .little 0 [⟨.processName (0x63 :: List.replicate 15 0), false, 1, false, 0⟩, ⟨.fallback, false, 0, false, 0⟩] [] KMaps.empty)
    ⟨1, 1, 0x63 :: List.replicate 15 0, 0, 0, 40000, 443, 1, 2, 0⟩ 0
    [⟨.processName (0x63 :: List.replicate 15 0), false, 1, false, 0⟩, ⟨.fallback, false, 0, false, 0⟩] [] []
    (installGen_installed _ _ _ _ (by decide) (by decide) (by decide)) (by decide)
    (by decide) (by decide) (by decide) (by decide) (by decide) (by decide) (fun w => rfl) (by decide)
  revert this
  decide

/-- H3 holds under the datapath's convention "process name known ⇒ WAN". -/
theorem lanNoPname_of_convention (pk : PktK) (h : pk.pname.headD 0 ≠ 0 → pk.wanw % 256 ≠ 0) :
    pk.wanw % 256 = 0 → pk.pname.headD 0 = 0 := by
  intro hw
  by_cases hh : pk.pname.headD 0 = 0
  · exact hh
  · exact absurd hw (h hh)

/-! ## 7. the control plane's own decoder, the domain-map key -/

/-- `compileRoutingMatch` (what `BuildUserspace` falls back to, and what every reader of `b.rules` sees) decodes
from the image the `add*` encoders wrote exactly the typed entry kept in `compiledRules` — all 2³² set indices and
marks, all ports, masks, DSCPs, names; hosts of either byte order. -/
theorem compile_decodes_what_was_encoded (e : Endian) (k : KEntry) (hc : k.cond.WF (2 ^ 32)) (hob : k.outbound < 256)
    (hmk : k.mark < 2 ^ 32) : decodeGo e (encodeGo e k) = some k := decodeGo_encodeGo e k hc hob hmk

example : decodeGo .big (encodeGo .big ⟨.port 1024 65535, true, OB_Or, true, 0xffffffff⟩) =
    some ⟨.port 1024 65535, true, OB_Or, true, 0xffffffff⟩ := by decide

/-- Whatever byte image sits in `routing_map` (also one no encoder wrote): what the control plane decodes from it is
what the kernel reads of it. `compileRoutingMatch` and `route_eval_match`/`route_finalize_match` consult the same
fields of `struct match_set` (little-endian target). -/
theorem userspace_decodes_what_kernel_reads (img : List Nat) (k : KEntry) (hb : byteAt img 0 < 256)
    (h : decodeGo .little img = some k) : readsAs img k = true := readsAs_of_decodeGo img k hb h

example : decodeGo .little ([80, 0, 187, 1, 9, 9, 9, 9, 9, 9, 9, 9, 9, 9, 9, 9] ++ [1, 4, 254, 0, 0, 8, 0, 0]) =
    some ⟨.srcPort 80 443, true, OB_Or, false, 0x800⟩ := by decide

/-- an image of an unknown match type is an error on both sides (`unknown match type` / `-EINVAL`) -/
example : decodeGo .little (zeros 16 ++ [0, 12, 1, 0, 0, 0, 0, 0]) = none := by decide

/-- The array `BuildUserspace` gives the matcher is the builder's typed program, whether it takes `compiledRules`
as is or (slices out of step) decodes the images again. -/
theorem userspace_array_is_typed_program (e : Endian) (kp compiled : List KEntry)
    (hK : ∀ k ∈ kp, k.cond.WF (2 ^ 32) ∧ k.outbound < 256 ∧ k.mark < 2 ^ 32)
    (h : compiled = kp ∨ compiled.length ≠ kp.length) :
    userspaceArray e compiled (kp.map (encodeGo e)) = some kp := by
  have hm : ∀ l : List KEntry, (∀ k ∈ l, k.cond.WF (2 ^ 32) ∧ k.outbound < 256 ∧ k.mark < 2 ^ 32) →
      (l.map (encodeGo e)).mapM (decodeGo e) = some l := by
    intro l
    induction l with
    | nil => intro _; rfl
    | cons k ks ih =>
      intro hl
      obtain ⟨h1, h2, h3⟩ := hl k List.mem_cons_self
      simp only [List.map_cons, List.mapM_cons, decodeGo_encodeGo e k h1 h2 h3,
        ih (fun k' hk' => hl k' (List.mem_cons_of_mem _ hk'))]
      rfl
  unfold userspaceArray
  rcases h with rfl | h
  · simp
  · simp [h, hm kp hK]

example : userspaceArray .little [] (exKp.map (encodeGo .little)) = some exKp := by decide

/-- `Ipv6ByteSliceToUint32Array` + the host-order memory of its four words = the 16 address bytes, on hosts of either
byte order: the key the control plane writes into `domain_routing_map` is the key the kernel looks up. -/
theorem domain_key_is_address_bytes (e : Endian) (bs : List Nat) (hl : bs.length = 16) (hb : ∀ b ∈ bs, b < 256) :
    keyImage e (keyWords e bs) = bs := keyImage_keyWords e bs hl hb

example : keyImage .little (keyWords .little [0, 0, 0, 0, 0, 0, 0, 0, 0, 0, 255, 255, 93, 184, 216, 34]) =
    [0, 0, 0, 0, 0, 0, 0, 0, 0, 0, 255, 255, 93, 184, 216, 34] ∧
    keyWords .little [0, 0, 0, 0, 0, 0, 0, 0, 0, 0, 255, 255, 93, 184, 216, 34] = [0, 0, 0xffff0000, 0x22d8b85d] := by decide

/-! ## 8. every history of reloads, failed installs included -/

/-- **Invariant over all histories.** Start from the first load and apply ANY sequence of: reloads that cut over;
staged reloads whose `buildRoutingKernspace` stopped at ANY point (any subset of the LPM slots written, any prefix
of the rule images, everything but the active length, or everything — the failure then came after the commit),
followed by the reload handler's `Close` of the staged generation and `RebuildReloadDatapath` of the serving one;
self-rebuilds; arbitrary updates of the domain map. In every state reached the serving generation is `Installed`,
the ring counter stands right behind its slots and it owns exactly its slots. -/
theorem reload_histories_keep_generation_installed (kp0 : List KEntry) (tries0 : List (List Prefix)) (ops : List Op)
    (h0 : GenOK ⟨0, kp0, tries0⟩) (hops : ∀ op ∈ ops, op.OK) : ((Sys.boot kp0 tries0).run ops).Good :=
  run_good ops _ (boot_good kp0 tries0 h0) hops

/-- … and therefore the kernel decides like the serving generation's userspace matcher after every such history. -/
theorem reload_histories_keep_kernel_and_userspace_equal (kp0 : List KEntry) (tries0 : List (List Prefix)) (ops : List Op)
    (h0 : GenOK ⟨0, kp0, tries0⟩) (hops : ∀ op ∈ ops, op.OK) (pk : PktK) (ubm : List Nat) (pktOK : PktOK pk)
    (triesWF : ∀ t ∈ ((Sys.boot kp0 tries0).run ops).live.tries, ∀ p ∈ t, p.WF)
    (domain : ∀ w, ((Sys.boot kp0 tries0).run ops).maps.domainWord pk.daddr w = ubm.getD w 0) :
    routeK .little ((Sys.boot kp0 tries0).run ops).maps pk =
      expectedK pk (matchU ((Sys.boot kp0 tries0).run ops).live.kp ((Sys.boot kp0 tries0).run ops).live.tries ubm pk) := by
  have g := reload_histories_keep_generation_installed kp0 tries0 ops h0 hops
  exact routeK_main _ pk _ _ _ ubm g.inst triesWF pktOK domain g.gen.ok

/-- `RebuildReloadDatapath` repairs ANY map state (whatever another generation's partial install and its `Close`
left), as long as the ring counter is in range. -/
theorem rebuild_restores_from_any_maps (s : Sys) (hg : GenOK s.live) (hc : s.counter < MaxMatchSetLen) : s.rebuild.Good :=
  rebuild_good s hg hc

/-- a history with a failed install at each kind of stage, a cut-over and a self-rebuild; the ring wraps -/
def exOps : List Op := [
  .failed [⟨.srcIpSet 0, true, 3, false, 7⟩, ⟨.fallback, false, 0, false, 0⟩] [[⟨true, mapped4 0xc0a80000, 16⟩]] (.lpm [0]),
  .failed [⟨.srcIpSet 0, true, 3, false, 7⟩, ⟨.fallback, false, 0, false, 0⟩] [[⟨true, mapped4 0xc0a80000, 16⟩]] (.rules 1),
  .failed [⟨.fallback, false, 4, false, 0⟩] [] .noLen,
  .failed [⟨.srcIpSet 0, true, 3, false, 7⟩, ⟨.fallback, false, 0, false, 0⟩] [[⟨true, mapped4 0xc0a80000, 16⟩]] .done,
  .dom [(mapped4 0x0a010203, [16])],
  .reload [⟨.ipSet 0, false, 6, true, 1⟩, ⟨.fallback, false, 0, false, 0⟩] [[⟨true, mapped4 0x0a000000, 8⟩]],
  .rebuild]

theorem exOpsOK : ∀ op ∈ exOps, op.OK := by
  intro op hop
  simp only [exOps, List.mem_cons, List.not_mem_nil, or_false] at hop
  rcases hop with rfl | rfl | rfl | rfl | rfl | rfl | rfl
  all_goals first
    | trivial
    | exact ⟨by decide, by decide, by
        intro k hk
        simp only [List.mem_cons, List.not_mem_nil, or_false] at hk
        rcases hk with rfl | rfl <;> exact ⟨by decide, by decide, by decide⟩⟩

example : GenOK ⟨0, exKp, exTries⟩ := ⟨by decide, by decide, exEntriesOK⟩

-- the states reached are not trivial: after the four failed installs the serving generation is still the first
-- program, at ring start 2 + 1 + 2 + 1 + 0 + 2 + 1 + 2 = 11 (every attempt and every rebuild consumed slots), and the
-- executable `Installed` check holds on the model's maps; after the whole history the last program serves
example : ((Sys.boot exKp exTries).run (exOps.take 4)).live.start = 11 ∧
    installedB ((Sys.boot exKp exTries).run (exOps.take 4)).maps 11 exKp exTries = true ∧
    ((Sys.boot exKp exTries).run exOps).live.kp.length = 2 ∧ ((Sys.boot exKp exTries).run exOps).counter = 15 := by decide

/-! ### the hot-reload window -/

/-- **The LPM phase of the next generation's install is invisible to the serving generation.** While
`buildRoutingKernspace` of a staged generation has written any subset of its LPM slots (and nothing else yet), the
kernel still decides exactly like the serving generation's userspace matcher — provided the two generations together
need at most `MAX_MATCH_SET_LEN` slots (the ring hands out disjoint slots). This is what `globalNextLpmIndex` is for. -/
theorem hot_reload_lpm_phase_keeps_old_generation (s : Sys) (g : s.Good) (kp' : List KEntry) (tries' : List (List Prefix))
    (st' c' : Nat) (hr : reserveRing s.counter tries'.length = some (st', c'))
    (hsum : s.live.tries.length + tries'.length ≤ MaxMatchSetLen) (written : List Nat)
    (pk : PktK) (ubm : List Nat) (pktOK : PktOK pk) (triesWF : ∀ t ∈ s.live.tries, ∀ p ∈ t, p.WF)
    (domain : ∀ w, s.maps.domainWord pk.daddr w = ubm.getD w 0) :
    routeK .little (installUpTo (.lpm written) st' kp' tries' s.maps) pk =
      expectedK pk (matchU s.live.kp s.live.tries ubm pk) := by
  have hi := lpmPhase_installed s.maps s.live.start s.live.kp s.live.tries g.inst st' kp' tries' written
    (fun i hi idx hidx => ring_next_disjoint s.live.start s.live.tries.length s.counter tries'.length st' c' g.startLt g.ring hr hsum
      i idx hi hidx)
  exact routeK_main _ pk _ _ _ ubm hi triesWF pktOK domain g.gen.ok

/-- The full window statement: the kernel agrees with the serving generation's matcher at EVERY stage of a staged
install. It does not hold — the rule images and the active length are written by separate, non-atomic updates. -/
def hot_reload_window_full : Prop :=
  ∀ (s : Sys), s.Good → ∀ (kp' : List KEntry) (tries' : List (List Prefix)) (st' c' : Nat) (stage : Stage),
    reserveRing s.counter tries'.length = some (st', c') → s.live.tries.length + tries'.length ≤ MaxMatchSetLen →
    GenOK ⟨0, kp', tries'⟩ → ∀ (pk : PktK), PktOK pk → (∀ w, s.maps.domainWord pk.daddr w = 0) →
    routeK .little (installUpTo stage st' kp' tries' s.maps) pk = expectedK pk (matchU s.live.kp s.live.tries [] pk)

/-- Negative witness: serving `dport(80) -> block; fallback: direct`, staged `fallback: g4`; between the rule-image
update and the active-length update the kernel sends a TCP/80 packet to `g4` while the serving matcher says `block`.
(The reload handler repairs this state with `RebuildReloadDatapath`; the interval itself is outside the property.) -/
theorem hot_reload_window_full_fails : ¬ hot_reload_window_full := by
  intro h
  have g : (Sys.boot [⟨.port 80 80, false, 1, false, 0⟩, ⟨.fallback, false, 0, false, 0⟩] []).Good :=
    boot_good _ _ ⟨by decide, by decide, by
      intro k hk
      simp only [List.mem_cons, List.not_mem_nil, or_false] at hk
      rcases hk with rfl | rfl <;> exact ⟨by decide, by decide, by decide⟩⟩
  have := h _ g [⟨.fallback, false, 4, false, 0⟩] [] 0 0 .noLen (by decide) (by decide)
    ⟨by decide, by decide, by
      intro k hk
      simp only [List.mem_cons, List.not_mem_nil, or_false] at hk
      subst hk; exact ⟨by decide, by decide, by decide⟩⟩
    ⟨1, 1, List.replicate 16 0, 0, 0, 40000, 80, 1, 2, 0⟩
    ⟨by decide, by decide, by decide, by decide, by decide, by decide, by decide⟩ (fun w => rfl)
  revert this
  decide

example : reserveRing 3 2 = some (3, 5) := by decide

/-! ### what `route()` can observe -/

/-- `route()` depends on a map state only through the active length, the fields it reads of the rule images below
it, the tries in the slots those images name and the domain bitmaps: this is the comparison (`obsEqB`) the driver makes
between the model's predicted maps and the maps dumped from the real kernel after every step of a history. -/
theorem route_depends_only_on_observables (a b : KMaps) (h : obsEqB a b = true) (pk : PktK) :
    routeK .little a pk = routeK .little b pk := obsEq_route a b h pk

-- two different map states (stale rule images beyond the active length, stale LPM slots, a different number of
-- inner maps) that `route()` cannot tell apart
example : obsEqB exMaps (installGen .little 1023 exKp exTries KMaps.empty) = true ∧
    exMaps.routing.length ≠ (installGen .little 1023 exKp exTries KMaps.empty).routing.length := by decide

end DaeVerif.C02.Props
