import DaeVerif.C02.Model
import DaeVerif.Common.Proto
/-!
Line-protocol driver for C02.  The SAME op file is read by the native C driver
(`harness/c/c02_driver.c`, which runs the real `route()`); the Go harness
(`harness/overlay/control/c02_test.go`) wrote it while running the real builder / encoders / `Match`.

    ringset <v>                              globalNextLpmIndex := v
    prog <n> {<type>:<not>:<outbound>:<must>:<mark>:<payload>}*n      b.compiledRules (typed)
    tries <T> {<n> prefix*n}*T               b.simulatedLpmTries
    reserve <count> <real start>             reserveLpmRingSlots            -> ok [ring-model-predicted=<s>]
    lpm <slot> <nk> {<plen>:<32hex>}*nk      lpm_array_map[slot] as dumped from the real kernel map
    lpmdel <slot>
    rset <n> {<idx>:<48hex>}*n               routing_map entries as dumped from the real kernel map
    instcheck                                installedB on the dumped maps (fields the kernel reads) -> ok | not-installed …
    meta <n>
    dom <32hex> <256hex> | domdel <32hex>
    pkt <64hex flag> <sport> <dport> <saddr> <daddr> <mac> <ubm 256hex | ->  -> k=<routeK> u=<matchU>[ NEQ]
    kpkt <same fields>                       kernel only (error paths)       -> k=<routeK>
    const <name>                                                             -> =<v> | =-
    decode <48hex>                           compileRoutingMatch on a dumped rule image -> typed token | err
    dkey <32hex>                             Ipv6ByteSliceToUint32Array                 -> w=<4 words>
    sprog / stries                           the STAGED generation's typed program (a reload that does not cut over)
    sysboot <counter>                        Sys := the dumped maps, the current program as serving generation
    sysop reload|rebuild <start> <counter>   Sys.step; the observed ring start / counter are compared with the model's
    sysop stage <stage> <start>              pend := commitUpTo stage … (the staged install stopped at <stage>)
    sysop failed <stage> <startB> <startA'> <counter>   Sys.step (.failed …): stage, Close of the staged generation, rebuild
    syscmp [pend]                            obsEqB (model's predicted maps) (dumped maps)   -> ok | differs …
-/
open DaeVerif DaeVerif.Proto DaeVerif.RuleScan DaeVerif.C12 DaeVerif.C01 DaeVerif.C02

structure St where
  kp : List KEntry := []
  tries : List (List Prefix) := []
  ring : Nat := 0
  start : Nat := 0
  count : Nat := 0
  maps : KMaps := KMaps.empty
  skp : List KEntry := []
  stries : List (List Prefix) := []
  sys : Option Sys := none
  pend : Option KMaps := none

def parsePrefix? (tok : String) : Option Prefix := do
  match tok.splitOn "/" with
  | [l, b] =>
    let bits ← b.toNat?
    match l.splitOn ":" with
    | ["4", h] => let a ← hexToNat? h; pure ⟨true, mapped4 a, bits⟩
    | ["6", h] => let a ← hexToNat? h; pure ⟨false, a, bits⟩
    | _ => none
  | _ => none

def parseEntry? (tok : String) : Option KEntry := do
  match tok.splitOn ":" with
  | [t, n, ob, mu, mk, pl] =>
    let t ← t.toNat?
    let ob ← ob.toNat?
    let mk ← mk.toNat?
    let cond ← (
      if t = MT_DomainSet then some KCond.domainSet
      else if t = MT_Fallback then some KCond.fallback
      else if t = MT_IpSet then pl.toNat?.map KCond.ipSet
      else if t = MT_SourceIpSet then pl.toNat?.map KCond.srcIpSet
      else if t = MT_Mac then pl.toNat?.map KCond.macSet
      else if t = MT_Port ∨ t = MT_SourcePort then
        match pl.splitOn "-" with
        | [a, b] => do
          let lo ← a.toNat?; let hi ← b.toNat?
          pure (if t = MT_Port then KCond.port lo hi else KCond.srcPort lo hi)
        | _ => none
      else if t = MT_L4Proto then pl.toNat?.map KCond.l4Proto
      else if t = MT_IpVersion then pl.toNat?.map KCond.ipVersion
      else if t = MT_ProcessName then (hexToBytes? pl).map KCond.processName
      else if t = MT_Dscp then pl.toNat?.map KCond.dscp
      else none)
    pure ⟨cond, n = "1", ob, mu = "1", mk⟩
  | _ => none

def parseTries : Nat → List String → Option (List (List Prefix))
  | 0, [] => some []
  | 0, _ => none
  | t + 1, n :: rest => do
    let n ← n.toNat?
    if rest.length < n then none else
    let ps ← (rest.take n).mapM parsePrefix?
    let more ← parseTries t (rest.drop n)
    pure (ps :: more)
  | _ + 1, [] => none

def parseKey? (tok : String) : Option LpmKey := do
  match tok.splitOn ":" with
  | [l, h] =>
    if h.length != 32 then none else
    let l ← l.toNat?; let d ← hexToNat? h; pure ⟨l, d⟩
  | _ => none

def wordsLE (bs : List Nat) : Nat → List Nat
  | 0 => []
  | n + 1 => wordsLE bs n ++ [rd32 .little bs (4 * n)]

def parsePkt? (ts : List String) : Option (PktK × List Nat) := do
  match ts with
  | [flag, sp, dp, sa, da, mac, ubm] =>
    let fb ← hexToBytes? flag
    if fb.length != 32 then none else
    let ub ← (if ubm = "-" then some [] else do
      let b ← hexToBytes? ubm
      if b.length != 128 then none else pure (wordsLE b 32))
    let pk : PktK := ⟨rd32 .little fb 0, rd32 .little fb 4, (fb.drop 8).take 16, rd32 .little fb 24,
      rd32 .little fb 28, ← sp.toNat?, ← dp.toNat?, ← hexToNat? sa, ← hexToNat? da, ← hexToNat? mac⟩
    pure (pk, ub)
  | _ => none

def outStr : Option Out → String
  | some o => s!"{o.outbound},{o.mark},{boolStr o.must}"
  | none => "err"

def keyStr (k : LpmKey) : String :=
  s!"{k.prefixLen}:{bytesToHex ((List.range 16).map fun i => (k.data / 2 ^ (8 * (15 - i))) % 256)}"


def entryTok (k : KEntry) : String :=
  let pl := match k.cond with
    | .ipSet i => toString i
    | .srcIpSet i => toString i
    | .macSet i => toString i
    | .port lo hi => s!"{lo}-{hi}"
    | .srcPort lo hi => s!"{lo}-{hi}"
    | .l4Proto m => toString m
    | .ipVersion m => toString m
    | .processName bs => bytesToHex bs
    | .dscp v => toString v
    | _ => "-"
  s!"{k.cond.mtype}:{bpfBool k.not}:{k.outbound}:{bpfBool k.must}:{k.mark}:{pl}"

def parseStage? (tok : String) : Option Stage :=
  match tok.splitOn ":" with
  | ["lpm", l] => if l = "" then some (.lpm []) else ((l.splitOn ",").mapM (fun (x : String) => x.toNat?)).map Stage.lpm
  | ["rules", n] => n.toNat?.map Stage.rules
  | ["nolen"] => some .noLen
  | ["done"] => some .done
  | _ => none

/-- where two map states differ in what `route()` can observe -/
def obsDiff (a b : KMaps) : String :=
  if a.activeLen != b.activeLen then s!"activeLen model={a.activeLen} kernel={b.activeLen}" else
  let n := min a.activeLen MaxMatchSetLen
  match (List.range n).find? (fun i => !sameReads (a.routing.getD i (zeros 24)) (b.routing.getD i (zeros 24))) with
  | some i => s!"rule[{i}] model={bytesToHex (a.routing.getD i (zeros 24))} kernel={bytesToHex (b.routing.getD i (zeros 24))}"
  | none =>
    match (List.range n).find? (fun i =>
        let x := a.routing.getD i (zeros 24)
        isLpmType (msType x) && !sameSlot a b (msIndex .little x)) with
    | some i =>
      let slot := msIndex .little (a.routing.getD i (zeros 24))
      let show_ (o : Option (List LpmKey)) := match o with | some ks => s!"{ks.length} keys" | none => "<empty>"
      s!"lpm slot {slot} (named by rule[{i}]) model={show_ (a.lpmAt slot)} kernel={show_ (b.lpmAt slot)}"
    | none =>
      match (a.domain.map (·.1) ++ b.domain.map (·.1)).find? (fun k => a.domain.lookup k != b.domain.lookup k) with
      | some k => s!"domain[{k}] model={(a.domain.lookup k).isSome} kernel={(b.domain.lookup k).isSome}"
      | none => "?"

def setDom (m : KMaps) (k : Nat) (v : Option (List Nat)) : KMaps :=
  match v with
  | some w => { m with domain := (k, w) :: m.domain.filter (·.1 != k) }
  | none => { m with domain := m.domain.filter (·.1 != k) }

def constTable : List (String × Nat) := [
  ("MatchType_DomainSet", MT_DomainSet), ("MatchType_IpSet", MT_IpSet), ("MatchType_SourceIpSet", MT_SourceIpSet),
  ("MatchType_Port", MT_Port), ("MatchType_SourcePort", MT_SourcePort), ("MatchType_L4Proto", MT_L4Proto),
  ("MatchType_IpVersion", MT_IpVersion), ("MatchType_Mac", MT_Mac), ("MatchType_ProcessName", MT_ProcessName),
  ("MatchType_Dscp", MT_Dscp), ("MatchType_Fallback", MT_Fallback),
  ("OUTBOUND_MUST_RULES", OB_MustRules), ("OUTBOUND_CONTROL_PLANE_ROUTING", OB_ControlPlane),
  ("OUTBOUND_LOGICAL_OR", OB_Or), ("OUTBOUND_LOGICAL_AND", OB_And), ("OUTBOUND_LOGICAL_MASK", OB_Mask),
  ("L4ProtoType_TCP", L4_TCP), ("L4ProtoType_UDP", L4_UDP),
  ("MAX_MATCH_SET_LEN", MaxMatchSetLen), ("MAX_LPM_NUM", MaxLpmNum), ("TASK_COMM_LEN", 16), ("IPV6_BYTE_LENGTH", 16),
  ("sizeof_match_set", 24), ("off_match_set_not", 16), ("off_match_set_type", 17), ("off_match_set_outbound", 18),
  ("off_match_set_must", 19), ("off_match_set_mark", 20), ("sizeof_port_range", 4), ("off_port_range_end", 2),
  ("sizeof_lpm_key", 20), ("off_lpm_key_data", 4), ("sizeof_domain_routing", 4 * (MaxMatchSetLen / 32)),
  ("sizeof_match_type", 1), ("sizeof_l4proto_type", 4),
  ("ENOEXEC", ENOEXEC.toNat), ("EFAULT", EFAULT.toNat), ("EINVAL", EINVAL.toNat), ("EPERM", EPERM.toNat)]

def step (st : St) (line : String) : St × String :=
  match words line with
  | ["ringset", v] =>
    match v.toNat? with
    | some v => ({ st with ring := v }, "ok")
    | none => (st, "bad-op")
  | "prog" :: n :: ts =>
    match n.toNat?, ts.mapM parseEntry? with
    | some n, some es => if es.length = n then ({ st with kp := es }, "ok") else (st, "bad-op")
    | _, _ => (st, "bad-op")
  | "tries" :: t :: ts =>
    match t.toNat? with
    | some t =>
      match parseTries t ts with
      | some tr => ({ st with tries := tr }, "ok")
      | none => (st, "bad-op")
    | none => (st, "bad-op")
  | ["reserve", c, real] =>
    -- the real start slot is an INPUT (the theorems hold for every start); the model's own ring
    -- counter is reported so that the check can tell whether `reserveRing` still mirrors the code
    match c.toNat?, real.toNat? with
    | some c, some real =>
      match reserveRing st.ring c with
      | some (s, nxt) =>
        ({ st with ring := (if s = real then nxt else (real + c) % MaxMatchSetLen), start := real, count := c },
          if s = real then "ok" else s!"ok ring-model-predicted={s}")
      | none => ({ st with start := real, count := c }, "ok ring-model-predicted=err")
    | _, _ => (st, "bad-op")
  | "lpm" :: slot :: nk :: ks =>
    match slot.toNat?, nk.toNat?, ks.mapM parseKey? with
    | some slot, some nk, some keys =>
      if keys.length != nk then (st, "bad-op") else
      ({ st with maps := { st.maps with lpm := (slot, keys) :: st.maps.lpm.filter (·.1 != slot) } }, "ok")
    | _, _, _ => (st, "bad-op")
  | ["lpmdel", slot] =>
    match slot.toNat? with
    | some slot =>
      if (st.maps.lpm.lookup slot).isSome then
        ({ st with maps := { st.maps with lpm := st.maps.lpm.filter (·.1 != slot) } }, "ok")
      else (st, "err=-2")
    | none => (st, "bad-op")
  | "rset" :: n :: es =>
    match n.toNat?, es.mapM (fun (e : String) => match e.splitOn ":" with
        | [i, h] => do let i ← i.toNat?; let b ← hexToBytes? h; pure (i, b)
        | _ => none) with
    | some n, some upd =>
      if upd.length != n then (st, "bad-op") else
      let top := upd.foldl (fun acc p => max acc (p.1 + 1)) st.maps.routing.length
      let padded := st.maps.routing ++ List.replicate (top - st.maps.routing.length) (zeros 24)
      let routing := upd.foldl (fun (r : List (List Nat)) p => r.set p.1 p.2) padded
      ({ st with maps := { st.maps with routing := routing } }, "ok")
    | _, _ => (st, "bad-op")
  | ["instcheck"] =>
    if installedB st.maps st.start st.kp st.tries then (st, "ok")
    else
      -- say which part fails
      let badRule := (List.range st.kp.length).find? fun i =>
        match st.maps.routing[i]?, st.kp[i]? with
        | some img, some k => !readsAs img (k.rewrite st.start)
        | _, _ => true
      let badTrie := (List.range st.tries.length).find? fun idx =>
        match st.maps.lpmAt (ringSlot st.start idx), st.tries[idx]? with
        | some keys, some t => !keysEquiv keys (t.map cidrToKey)
        | _, _ => true
      let r := match badRule with
        | some i => s!" rule[{i}] kernel={bytesToHex (st.maps.routing.getD i [])} model={bytesToHex (((st.kp[i]?).map fun (k : KEntry) => encodeGo .little (k.rewrite st.start)).getD [])}"
        | none => ""
      let t := match badTrie with
        | some idx => s!" trie[{idx}] expected-at-slot={ringSlot st.start idx} kernel={match st.maps.lpmAt (ringSlot st.start idx) with | some ks => " ".intercalate (ks.map keyStr) | none => "<empty slot>"}"
        | none => ""
      (st, s!"not-installed activeLen={st.maps.activeLen} want={st.kp.length}{r}{t}")
  | ["meta", n] =>
    match n.toNat? with
    | some n => ({ st with maps := { st.maps with activeLen := n } }, "ok")
    | none => (st, "bad-op")
  | ["dom", k, bm] =>
    match hexToNat? k, hexToBytes? bm with
    | some k, some b =>
      if b.length != 128 then (st, "bad-op") else
      ({ st with maps := setDom st.maps k (some (wordsLE b 32)),
                 sys := st.sys.map (fun y => { y with maps := setDom y.maps k (some (wordsLE b 32)) }),
                 pend := st.pend.map (fun y => setDom y k (some (wordsLE b 32))) }, "ok")
    | _, _ => (st, "bad-op")
  | ["domdel", k] =>
    match hexToNat? k with
    | some k =>
      if (st.maps.domain.lookup k).isSome then
        ({ st with maps := setDom st.maps k none,
                   sys := st.sys.map (fun y => { y with maps := setDom y.maps k none }),
                   pend := st.pend.map (fun y => setDom y k none) }, "ok")
      else (st, "err=-2")
    | none => (st, "bad-op")
  | "pkt" :: ts =>
    match parsePkt? ts with
    | some (pk, ubm) =>
      let k := routeK .little st.maps pk
      let u := matchU st.kp st.tries ubm pk
      (st, s!"k={k} u={outStr u}" ++ (if k = expectedK pk u then "" else " NEQ"))
    | none => (st, "bad-op")
  | "kpkt" :: ts =>
    match parsePkt? (ts ++ ["-"]) with
    | some (pk, _) => (st, s!"k={routeK .little st.maps pk}")
    | none => (st, "bad-op")
  | ["decode", h] =>
    match hexToBytes? h with
    | some b => if b.length != 24 then (st, "bad-op") else
      (st, match decodeGo .little b with | some k => entryTok k | none => "err")
    | none => (st, "bad-op")
  | ["dkey", h] =>
    match hexToBytes? h with
    | some b => if b.length != 16 then (st, "bad-op") else
      (st, "w=" ++ ",".intercalate ((keyWords .little b).map toString) ++
        (if keyImage .little (keyWords .little b) == b then "" else " IMAGE-DIFFERS"))
    | none => (st, "bad-op")
  | "sprog" :: n :: ts =>
    match n.toNat?, ts.mapM parseEntry? with
    | some n, some es => if es.length = n then ({ st with skp := es }, "ok") else (st, "bad-op")
    | _, _ => (st, "bad-op")
  | "stries" :: t :: ts =>
    match t.toNat? with
    | some t =>
      match parseTries t ts with
      | some tr => ({ st with stries := tr }, "ok")
      | none => (st, "bad-op")
    | none => (st, "bad-op")
  | ["sysboot", c] =>
    match c.toNat? with
    | some c => ({ st with sys := some ⟨st.maps, c, ⟨st.start, st.kp, st.tries⟩, genSlots st.start st.tries.length⟩, pend := none }, "ok")
    | none => (st, "bad-op")
  | ["sysop", "stage", stage, a] =>
    match st.sys, parseStage? stage, a.toNat? with
    | some y, some sg, some obsStart =>
      if y.counter = obsStart then ({ st with pend := some (commitUpTo sg obsStart st.skp st.stries y.maps) }, "ok")
      else ({ st with sys := none, pend := none }, s!"ok ring-model-predicted={y.counter}")
    | none, some _, some _ => (st, "ok ring-model-predicted=desynced")
    | _, _, _ => (st, "bad-op")
  | ["sysop", kind, a, b] =>
    match st.sys, a.toNat?, b.toNat? with
    | some y, some obsStart, some obsCounter =>
      let y' := if kind = "reload" then y.step (.reload st.kp st.tries) else y.step .rebuild
      if kind != "reload" && kind != "rebuild" then (st, "bad-op") else
      if y'.live.start = obsStart && y'.counter = obsCounter then ({ st with sys := some y', pend := none }, "ok")
      else ({ st with sys := none, pend := none }, s!"ok ring-model-predicted={y'.live.start},{y'.counter}")
    | none, some _, some _ => (st, "ok ring-model-predicted=desynced")
    | _, _, _ => (st, "bad-op")
  | ["sysop", "failed", stage, a, b, c] =>
    match st.sys, parseStage? stage, a.toNat?, b.toNat?, c.toNat? with
    | some y, some sg, some obsB, some obsA, some obsCounter =>
      let y' := y.step (.failed st.skp st.stries sg)
      if y.counter = obsB && y'.live.start = obsA && y'.counter = obsCounter then ({ st with sys := some y', pend := none }, "ok")
      else ({ st with sys := none, pend := none }, s!"ok ring-model-predicted={y.counter},{y'.live.start},{y'.counter}")
    | none, some _, some _, some _, some _ => (st, "ok ring-model-predicted=desynced")
    | _, _, _, _, _ => (st, "bad-op")
  | ["syscmp"] =>
    match st.sys with
    | some y => (st, if obsEqB y.maps st.maps then "ok" else "differs: " ++ obsDiff y.maps st.maps)
    | none => (st, "ok ring-model-predicted=desynced")
  | ["syscmp", "pend"] =>
    match st.pend with
    | some m => (st, if obsEqB m st.maps then "ok" else "differs: " ++ obsDiff m st.maps)
    | none => (st, "ok ring-model-predicted=desynced")
  | ["const", name] =>
    match constTable.lookup name with
    | some v => (st, s!"={v}")
    | none => (st, "=-")
  | _ => (st, "bad-op")

def main : IO Unit := lineLoopS ({} : St) step
