import DaeVerif.C01.Model
/-!
# C02 — the kernel routing program and the userspace matcher decide identically

Executable, core-only model of

* the **kernel side**: `route()`, `route_loop_cb`, `route_eval_match`, `route_match_lpm`,
  `route_match_domain_set`, `route_finalize_match` of `control/kern/tproxy.c`, run over the raw
  24-byte images of `struct match_set` in `routing_map`, the `lpm_array_map` slots, the
  `domain_routing_map` bitmaps and `routing_meta_map[0]`; the `route_state` bit field
  (`BAD_RULE|GOOD_SUBRULE|MUST|DNS_QUERY`) is a number manipulated with `|||`/`&&&` as in the C
  source; the union members are read in the target's native byte order (`Endian` parameter);
* the **control-plane side**: the value encoders of `routing_matcher_builder.go`
  (`binary.LittleEndian.PutUint32` set index, `bpfPortRange.Encode`, `[16]byte{byte(mask)}`, process
  name copy, `Value[0] = dscp`, field order of `bpfMatchSet`), `cidrToBpfLpmKey` (C12's `cidrToKey`),
  the ring-slot rewrite `rewriteKernRulesWithRingLpmIndex` / `reserveLpmRingSlots`, the order of map
  updates of `buildRoutingKernspace`, and the userspace `RoutingMatcher.Match` on the typed
  `compiledRoutingMatch` array (stated with the shared `RuleScan.scanAux`, as C01 does).
-/
namespace DaeVerif.C02
open DaeVerif.RuleScan DaeVerif.C12 DaeVerif.C01

/-! ## Constants (`ebpf_sync_defs.h` / `ebpf_generated.go`; compared with both on every run) -/

def MT_DomainSet : Nat := 0
def MT_IpSet : Nat := 1
def MT_SourceIpSet : Nat := 2
def MT_Port : Nat := 3
def MT_SourcePort : Nat := 4
def MT_L4Proto : Nat := 5
def MT_IpVersion : Nat := 6
def MT_Mac : Nat := 7
def MT_ProcessName : Nat := 8
def MT_Dscp : Nat := 9
def MT_Fallback : Nat := 10

def OB_MustRules : Nat := 0xFC
def OB_ControlPlane : Nat := 0xFD
def OB_Or : Nat := 0xFE
def OB_And : Nat := 0xFF
def OB_Mask : Nat := 0xFE

def L4_TCP : Nat := 1
def L4_UDP : Nat := 2

def MaxMatchSetLen : Nat := 1024
def MaxLpmNum : Nat := MaxMatchSetLen + 8

def ENOEXEC : Int := 8
def EFAULT : Int := 14
def EINVAL : Int := 22
def EPERM : Int := 1

/-- `enum route_state_flags` -/
def ST_BAD : Nat := 1
def ST_GOOD : Nat := 2
def ST_MUST : Nat := 4
def ST_DNS : Nat := 8

/-! ## Bytes and byte orders -/

inductive Endian where
  | little | big
deriving DecidableEq, Repr

def byteAt (bs : List Nat) (i : Nat) : Nat := bs.getD i 0

/-- native `__u16` load at byte offset `off` -/
def rd16 (e : Endian) (bs : List Nat) (off : Nat) : Nat :=
  match e with
  | .little => byteAt bs off + 256 * byteAt bs (off + 1)
  | .big => 256 * byteAt bs off + byteAt bs (off + 1)

/-- native `__u32` load at byte offset `off` -/
def rd32 (e : Endian) (bs : List Nat) (off : Nat) : Nat :=
  match e with
  | .little => byteAt bs off + 256 * byteAt bs (off + 1) + 65536 * byteAt bs (off + 2) +
      16777216 * byteAt bs (off + 3)
  | .big => 16777216 * byteAt bs off + 65536 * byteAt bs (off + 1) + 256 * byteAt bs (off + 2) +
      byteAt bs (off + 3)

/-- `binary.LittleEndian.PutUint16` -/
def wr16le (v : Nat) : List Nat := [v % 256, v / 256 % 256]
/-- `binary.LittleEndian.PutUint32` -/
def wr32le (v : Nat) : List Nat := [v % 256, v / 256 % 256, v / 65536 % 256, v / 16777216 % 256]
/-- a `uint32` struct field in host memory -/
def wr32 (e : Endian) (v : Nat) : List Nat :=
  match e with
  | .little => wr32le v
  | .big => [v / 16777216 % 256, v / 65536 % 256, v / 256 % 256, v % 256]

def zeros (n : Nat) : List Nat := List.replicate n 0

/-! ## The control plane's typed match set and its byte image -/

/-- Payload of one match set as the builder's `add*` functions see it (`compiledRoutingMatch`):
address sets carry the index of their LPM trie in `simulatedLpmTries`. The domain set has no
payload: its bit is found by the POSITION of the match set in the array. -/
inductive KCond where
  | domainSet
  | ipSet (idx : Nat)
  | srcIpSet (idx : Nat)
  | macSet (idx : Nat)
  | port (lo hi : Nat)
  | srcPort (lo hi : Nat)
  | l4Proto (mask : Nat)
  | ipVersion (mask : Nat)
  | processName (bytes : List Nat)
  | dscp (v : Nat)
  | fallback
deriving Repr, DecidableEq

structure KEntry where
  cond : KCond
  not : Bool
  outbound : Nat     -- the outbound BYTE: user outbound, or one of the logical sentinels
  must : Bool
  mark : Nat
deriving Repr, DecidableEq

def KCond.mtype : KCond → Nat
  | .domainSet => MT_DomainSet
  | .ipSet _ => MT_IpSet
  | .srcIpSet _ => MT_SourceIpSet
  | .macSet _ => MT_Mac
  | .port _ _ => MT_Port
  | .srcPort _ _ => MT_SourcePort
  | .l4Proto _ => MT_L4Proto
  | .ipVersion _ => MT_IpVersion
  | .processName _ => MT_ProcessName
  | .dscp _ => MT_Dscp
  | .fallback => MT_Fallback

/-- The 16-byte `Value` field as the `add*` functions fill it. Set index and port range are written
with EXPLICIT little-endian puts, whatever the host. -/
def KCond.value : KCond → List Nat
  | .ipSet i => wr32le i ++ zeros 12
  | .srcIpSet i => wr32le i ++ zeros 12
  | .macSet i => wr32le i ++ zeros 12
  | .port lo hi => wr16le lo ++ wr16le hi ++ zeros 12
  | .srcPort lo hi => wr16le lo ++ wr16le hi ++ zeros 12
  | .l4Proto m => (m % 256) :: zeros 15
  | .ipVersion m => (m % 256) :: zeros 15
  | .processName bs => pad16 bs
  | .dscp v => (v % 256) :: zeros 15
  | .domainSet => zeros 16
  | .fallback => zeros 16

def bpfBool (b : Bool) : Nat := if b then 1 else 0

/-- Memory image of Go's `bpfMatchSet{Value, Not, Type, Outbound, Must, Mark}` on a host of byte
order `e` (what cilium/ebpf hands to the kernel for a padding-free struct). -/
def encodeGo (e : Endian) (k : KEntry) : List Nat :=
  k.cond.value ++ ([bpfBool k.not, k.cond.mtype, k.outbound % 256, bpfBool k.must] ++ wr32 e k.mark)

/-! ### Ring slots -/

/-- `reserveLpmRingSlots` / `getNextRingLpmIndex`: returns the start slot and the next counter;
`none` = "too many lpm tries". -/
def reserveRing (counter count : Nat) : Option (Nat × Nat) :=
  if count > MaxMatchSetLen then none
  else if count = 0 then some (counter, counter)
  else some (counter, (counter + count) % MaxMatchSetLen)

def ringSlot (start idx : Nat) : Nat := (start + idx) % MaxMatchSetLen

def KCond.rewrite (start : Nat) : KCond → KCond
  | .ipSet i => .ipSet (ringSlot start i)
  | .srcIpSet i => .srcIpSet (ringSlot start i)
  | .macSet i => .macSet (ringSlot start i)
  | c => c

def KCond.lpmIdx? : KCond → Option Nat
  | .ipSet i => some i
  | .srcIpSet i => some i
  | .macSet i => some i
  | _ => none

def KEntry.rewrite (start : Nat) (k : KEntry) : KEntry := { k with cond := k.cond.rewrite start }

/-- `rewriteKernRulesWithRingLpmIndex`: `none` = "bad lpm index in rule". -/
def rewriteKern (start count : Nat) (kp : List KEntry) : Option (List KEntry) :=
  if kp.all (fun k => match k.cond.lpmIdx? with | some i => decide (i < count) | none => true)
  then some (kp.map (KEntry.rewrite start)) else none

/-! ## Kernel maps -/

structure KMaps where
  /-- `routing_map` (ARRAY of `MAX_MATCH_SET_LEN` zero-initialised `struct match_set`): the images
  written so far; an index that was never written reads as 24 zero bytes. -/
  routing : List (List Nat)
  /-- `routing_meta_map[0]` -/
  activeLen : Nat
  /-- `lpm_array_map` (ARRAY_OF_MAPS): slot ↦ the keys of the inner LPM trie; the FIRST pair of a
  slot is its current content (updates are consed in front). -/
  lpm : List (Nat × List LpmKey)
  /-- `domain_routing_map`: 16-byte address (as its big-endian value) ↦ the 32 bitmap words -/
  domain : List (Nat × List Nat)

def KMaps.empty : KMaps := ⟨[], 0, [], []⟩

def KMaps.routingAt (m : KMaps) (i : Nat) : Option (List Nat) :=
  if i < MaxMatchSetLen then some (m.routing.getD i (zeros 24)) else none

def KMaps.lpmAt (m : KMaps) (slot : Nat) : Option (List LpmKey) :=
  if slot < MaxLpmNum then m.lpm.lookup slot else none

def KMaps.domainWord (m : KMaps) (addr w : Nat) : Nat :=
  match m.domain.lookup addr with
  | some bm => bm.getD w 0
  | none => 0

/-- the slots one generation writes, in the order `buildRoutingKernspace` updates them -/
def lpmEntries (start : Nat) : Nat → List (List Prefix) → List (Nat × List LpmKey)
  | _, [] => []
  | i, t :: ts => (ringSlot start i, t.map cidrToKey) :: lpmEntries start (i + 1) ts

/-- `new ++ old.drop new.length`: `BpfMapBatchUpdate(routing_map, 0..n-1, kernRules)` -/
def overwritePrefix (old new : List (List Nat)) : List (List Nat) := new ++ old.drop new.length

/-- One `buildRoutingKernspace` on top of whatever the maps held before (`m`): LPM slots first
(later updates shadow earlier ones), then the rewritten rules, then the active length. -/
def installGen (e : Endian) (start : Nat) (kp : List KEntry) (tries : List (List Prefix)) (m : KMaps) : KMaps :=
  { routing := overwritePrefix m.routing ((kp.map (KEntry.rewrite start)).map (encodeGo e))
    activeLen := kp.length
    lpm := (lpmEntries start 0 tries).reverse ++ m.lpm
    domain := m.domain }

/-! ### slot deletion (`InheritLpmIndices` / `ReplaceLpmIndices`) and the executable `Installed` check -/

/-- `bpf.LpmArrayMap.Delete(idx)` for every listed slot -/
def KMaps.delSlots (m : KMaps) (slots : List Nat) : KMaps :=
  { m with lpm := m.lpm.filter fun p => !slots.contains p.1 }

/-- `InheritLpmIndices(old)` on a core whose active set is `cur`: superseded slots are deleted,
slots already reused by the current generation are skipped. -/
def inheritSlots (m : KMaps) (old cur : List Nat) : KMaps :=
  m.delSlots (old.filter fun s => !cur.contains s)

/-- the slots one generation occupies (`usedIndices`) -/
def genSlots (start count : Nat) : List Nat := (List.range count).map (ringSlot start)

/-- What a kernel LPM trie retains of a key: the prefix length and the first `prefixLen` bits
(two keys that agree on these are the same trie node). -/
def canonKey (k : LpmKey) : Nat × List Bool := (k.prefixLen, (natBits 128 k.data).take k.prefixLen)

/-- two key lists describe the same trie -/
def keysEquiv (a b : List LpmKey) : Bool :=
  (a.all fun k => (b.map canonKey).contains (canonKey k)) && (b.all fun k => (a.map canonKey).contains (canonKey k))

/-! ## The kernel program -/

/-- The arguments of `route()`: `flag[0]`, `flag[1]`, the 16 bytes of `flag[2..5]`, `flag[6]`,
`flag[7]`; the ports as `bpf_ntohs` returns them; the three 16-byte arrays as big-endian values. -/
structure PktK where
  l4w : Nat
  ipw : Nat
  pname : List Nat
  dscpw : Nat
  wanw : Nat
  sport : Nat
  dport : Nat
  saddr : Nat
  daddr : Nat
  mac : Nat
deriving Repr

/-- the mutable part of `struct route_ctx` -/
structure RCtx where
  state : Nat
  result : Int
  domIdx : Nat
  domBits : Nat
  domCached : Bool
deriving Repr, DecidableEq

def hasBit (s f : Nat) : Bool := s &&& f != 0
/-- `state &= ~f` on a `__u8` -/
def clrBit (s f : Nat) : Nat := s &&& (255 - f)

-- `struct match_set` field reads
def msIndex (e : Endian) (ms : List Nat) : Nat := rd32 e ms 0
def msPortStart (e : Endian) (ms : List Nat) : Nat := rd16 e ms 0
def msPortEnd (e : Endian) (ms : List Nat) : Nat := rd16 e ms 2
/-- `enum L4ProtoType l4proto_type` / `enum IpVersionType ip_version`: int-sized enums -/
def msEnum32 (e : Endian) (ms : List Nat) : Nat := rd32 e ms 0
def msPname (ms : List Nat) : List Nat := (List.range 16).map (byteAt ms)
def msDscp (ms : List Nat) : Nat := byteAt ms 0
def msNot (ms : List Nat) : Nat := byteAt ms 16
def msType (ms : List Nat) : Nat := byteAt ms 17
def msOutbound (ms : List Nat) : Nat := byteAt ms 18
def msMust (ms : List Nat) : Nat := byteAt ms 19
def msMark (e : Endian) (ms : List Nat) : Nat := rd32 e ms 20

/-- `(__s64)outbound | ((__s64)mark << 8) | ((__s64)must << 40)` -/
def pack (outbound mark : Nat) (must : Bool) : Int :=
  Int.ofNat (outbound ||| (mark <<< 8) ||| (bpfBool must <<< 40))

/-- What the kernel READS of a rule image is the typed entry `k`: type / not / outbound / must / mark at
their offsets and the union member `route_eval_match` consults for that match type (little-endian
target). Bytes the kernel never looks at are not constrained. -/
def readsAs (img : List Nat) (k : KEntry) : Bool :=
  msType img == k.cond.mtype && (msNot img != 0) == k.not && msOutbound img == k.outbound &&
  (msMust img != 0) == k.must && msMark .little img == k.mark &&
  match k.cond with
  | .ipSet i => msIndex .little img == i
  | .srcIpSet i => msIndex .little img == i
  | .macSet i => msIndex .little img == i
  | .port lo hi => msPortStart .little img == lo && msPortEnd .little img == hi
  | .srcPort lo hi => msPortStart .little img == lo && msPortEnd .little img == hi
  | .l4Proto mk => msEnum32 .little img % 256 == mk
  | .ipVersion mk => msEnum32 .little img % 256 == mk
  | .processName bs => msPname img == bs
  | .dscp v => msDscp img == v
  | .domainSet => true
  | .fallback => true

/-- Executable form of the theorems' hypothesis `Installed` (used by the driver on the maps dumped
from the real kernel after a real reload): active length, what the kernel reads of every rule image,
every LPM slot (up to trie-node identity). -/
def installedB (m : KMaps) (start : Nat) (kp : List KEntry) (tries : List (List Prefix)) : Bool :=
  m.activeLen == kp.length && decide (kp.length ≤ MaxMatchSetLen) &&
  (List.range kp.length).all (fun i =>
    match m.routing[i]?, kp[i]? with
    | some img, some k => readsAs img (k.rewrite start)
    | _, _ => false) &&
  (List.range tries.length).all (fun idx =>
    match m.lpmAt (ringSlot start idx), tries[idx]? with
    | some keys, some t => keysEquiv keys (t.map cidrToKey)
    | _, _ => false)

/-- `route_match_lpm` -/
def matchLpm (e : Endian) (m : KMaps) (c : RCtx) (ms : List Nat) (probe : Nat) : RCtx × Bool :=
  match m.lpmAt (msIndex e ms) with
  | none => ({ c with result := -EFAULT }, true)
  | some keys => (if lpmLookup keys probe then { c with state := c.state ||| ST_GOOD } else c, false)

/-- `route_match_domain_set` -/
def matchDomainSet (m : KMaps) (pk : PktK) (c : RCtx) (index : Nat) : RCtx × Bool :=
  let w := index / 32
  if w ≥ MaxMatchSetLen / 32 then ({ c with result := -EFAULT }, true)
  else
    let c1 := if !c.domCached || c.domIdx != w then
        { c with domIdx := w, domBits := m.domainWord pk.daddr w, domCached := true }
      else c
    (if (c1.domBits >>> (index % 32)) &&& 1 != 0 then { c1 with state := c1.state ||| ST_GOOD } else c1, false)

/-- `route_eval_match` (second component: the callback returns 1 = stop) -/
def evalMatch (e : Endian) (m : KMaps) (pk : PktK) (c : RCtx) (ms : List Nat) (index : Nat) : RCtx × Bool :=
  let t := msType ms
  if t = MT_Mac ∨ t = MT_IpSet ∨ t = MT_SourceIpSet then
    matchLpm e m c ms (if t = MT_Mac then pk.mac else if t = MT_IpSet then pk.daddr else pk.saddr)
  else if t = MT_Port ∨ t = MT_SourcePort then
    let p := if t = MT_Port then pk.dport else pk.sport
    (if p ≥ msPortStart e ms ∧ p ≤ msPortEnd e ms then { c with state := c.state ||| ST_GOOD } else c, false)
  else if t = MT_L4Proto ∨ t = MT_IpVersion then
    let value := if t = MT_L4Proto then pk.l4w % 256 else pk.ipw % 256
    let mask := msEnum32 e ms % 256
    (if value &&& mask != 0 then { c with state := c.state ||| ST_GOOD } else c, false)
  else if t = MT_DomainSet then matchDomainSet m pk c index
  else if t = MT_ProcessName then
    -- `is_wan && *(const __u8 *)pname != 0 && equal16(match_set->pname, pname)`
    (if pk.wanw % 256 != 0 && pk.pname.headD 0 != 0 && msPname ms == pk.pname then { c with state := c.state ||| ST_GOOD } else c, false)
  else if t = MT_Dscp then
    (if pk.dscpw % 256 == msDscp ms then { c with state := c.state ||| ST_GOOD } else c, false)
  else if t = MT_Fallback then ({ c with state := c.state ||| ST_GOOD }, false)
  else ({ c with result := -EINVAL }, true)

/-- `route_finalize_match` -/
def finalizeMatch (e : Endian) (c : RCtx) (ms : List Nat) : RCtx × Bool :=
  let ob := msOutbound ms
  let matchNot : Bool := msNot ms != 0
  let c1 := if ob != OB_Or then
      let s1 := if hasBit c.state ST_GOOD == matchNot then c.state ||| ST_BAD else c.state
      { c with state := clrBit s1 ST_GOOD }
    else c
  if (ob &&& OB_Mask) != OB_Mask then
    if !hasBit c1.state ST_BAD then
      if ob == OB_MustRules then
        ({ c1 with state := clrBit (c1.state ||| ST_MUST) ST_BAD }, false)
      else
        let must := hasBit c1.state ST_MUST || msMust ms != 0
        if !must && hasBit c1.state ST_DNS then
          ({ c1 with result := pack OB_ControlPlane (msMark e ms) must }, true)
        else ({ c1 with result := pack ob (msMark e ms) must }, true)
    else ({ c1 with state := clrBit c1.state ST_BAD }, false)
  else (c1, false)

/-- `route_loop_cb` -/
def loopCb (e : Endian) (m : KMaps) (pk : PktK) (c : RCtx) (index : Nat) : RCtx × Bool :=
  if index ≥ MaxMatchSetLen then ({ c with result := -EFAULT }, true)
  else
    match m.routingAt index with
    | none => ({ c with result := -EFAULT }, true)
    | some ms =>
      if c.state &&& (ST_BAD ||| ST_GOOD) == 0 then
        let r := evalMatch e m pk c ms index
        if r.2 then (r.1, true) else finalizeMatch e r.1 ms
      else finalizeMatch e c ms

/-- `bpf_loop(n, cb, ctx, 0)` starting at index `i`: stops when the callback returns non-zero. -/
def bpfLoop (f : RCtx → Nat → RCtx × Bool) : Nat → Nat → RCtx → RCtx
  | 0, _, c => c
  | n + 1, i, c =>
    let r := f c i
    if r.2 then r.1 else bpfLoop f n (i + 1) r.1

def isDnsQuery (pk : PktK) : Bool := pk.dport == 53 && (pk.l4w == L4_UDP || pk.l4w == L4_TCP)

/-- `route()`. (`bpf_loop` itself fails only above 8M iterations; `active_rules_len ≤ 1024`.) -/
def routeK (e : Endian) (m : KMaps) (pk : PktK) : Int :=
  let c0 : RCtx := ⟨if isDnsQuery pk then ST_DNS else 0, -ENOEXEC, 0, 0, false⟩
  let n := if m.activeLen ≤ MaxMatchSetLen then m.activeLen else MaxMatchSetLen
  let c := bpfLoop (loopCb e m pk) n 0 c0
  if c.result ≥ 0 then c.result else -EPERM

/-- what the callers extract: `outbound = r & 0xff; mark = r >> 8 (as __u32); must = (r >> 40) & 1` -/
def unpack (r : Nat) : Out := ⟨r &&& 0xff, (r >>> 8) % 2 ^ 32, (r >>> 40) &&& 1 != 0⟩

/-! ## The userspace matcher on the typed array -/

/-- `(domainMatchBitmap[i/32] >> (i%32)) & 1 > 0`, guarded by `i/32 < len` (`nil` = `[]`) -/
def bitmapBit (bm : List Nat) (i : Nat) : Bool :=
  decide (i / 32 < bm.length) && ((bm.getD (i / 32) 0 >>> (i % 32)) &&& 1 > 0)

/-- The `switch match.matchType` of `RoutingMatcher.Match` on `compiledRoutingMatch`; the first
component is the position of the match set in the array. `tries` = `simulatedLpmTries`, `ubm` =
`MatchDomainBitmap(domain)` (`[]` when the domain is empty). A set index outside `tries` is an
error in Go; here it is `false` and excluded by the well-formedness hypothesis of the theorems. -/
def evalU (tries : List (List Prefix)) (ubm : List Nat) (pk : PktK) : Nat × KCond → Bool
  | (_, .ipSet i) => match tries[i]? with | some ps => trieMatch ps pk.daddr | none => false
  | (_, .srcIpSet i) => match tries[i]? with | some ps => trieMatch ps pk.saddr | none => false
  | (_, .macSet i) => match tries[i]? with | some ps => trieMatch ps pk.mac | none => false
  | (pos, .domainSet) => bitmapBit ubm pos
  | (_, .port lo hi) => decide (pk.dport ≥ lo ∧ pk.dport ≤ hi)
  | (_, .srcPort lo hi) => decide (pk.sport ≥ lo ∧ pk.sport ≤ hi)
  | (_, .ipVersion mask) => (pk.ipw &&& mask) > 0
  | (_, .l4Proto mask) => (pk.l4w &&& mask) > 0
  | (_, .processName bs) => pk.pname.headD 0 != 0 && bs == pk.pname
  | (_, .dscp v) => pk.dscpw == v
  | (_, .fallback) => true

/-- role of the outbound byte (`outbound != LogicalOr`, `outbound & LogicalMask != LogicalMask`,
`outbound == MustRules`) -/
def tailOf (k : KEntry) : Tail Out :=
  if k.outbound = OB_Or then .or
  else if k.outbound = OB_And then .and
  else if k.outbound = OB_MustRules then .mustRules
  else .final ⟨k.outbound, k.mark, k.must⟩

def toEntriesFrom : Nat → List KEntry → List (Entry (Nat × KCond) Out)
  | _, [] => []
  | i, k :: ks => ⟨(i, k.cond), k.not, tailOf k⟩ :: toEntriesFrom (i + 1) ks

/-- `RoutingMatcher.Match` -/
def matchU (kp : List KEntry) (tries : List (List Prefix)) (ubm : List Nat) (pk : PktK) : Option Out :=
  (scanAux (evalU tries ubm pk) (toEntriesFrom 0 kp) false false false).map
    fun (o, must) => { o with must := o.must || must }

/-- The one intended difference: a DNS query not covered by a must rule goes to the control plane
(the hit rule's mark is kept). -/
def dnsAdjust (pk : PktK) (o : Out) : Out :=
  if isDnsQuery pk && !o.must then { o with outbound := OB_ControlPlane } else o

/-- what `route()` must return given the userspace decision -/
def expectedK (pk : PktK) : Option Out → Int
  | some o => let a := dnsAdjust pk o; pack a.outbound a.mark a.must
  | none => -EPERM

/-! ## Relation to C01's compiled program (sets inlined) -/

/-- The packet of C01 seen by the kernel; `wan` = the caller is the WAN egress hook. -/
def toK (p : C01.Pkt) (wan : Bool) : PktK :=
  ⟨p.l4, p.ipver, p.pname, p.dscp, bpfBool wan, p.sport, p.dport, p.src, p.dst, p.mac⟩

/-- the outbound byte, mark and must flag the builder stores for a tail -/
def obOf : Tail Out → Nat × Nat × Bool
  | .or => (OB_Or, 0, false)
  | .and => (OB_And, 0, false)
  | .mustRules => (OB_MustRules, 0, false)
  | .final o => (o.outbound, o.mark, o.must)

def mkK (e : Entry MCond Out) (c : KCond) : KEntry :=
  ⟨c, e.neg, (obOf e.tail).1, (obOf e.tail).2.2, (obOf e.tail).2.1⟩

/-- typed payload for a compiled condition; address sets get the LPM index `next` -/
def kcondOf (next : Nat) : MCond → KCond × Option (List Prefix)
  | .ipSet ps => (.ipSet next, some ps)
  | .srcIpSet ps => (.srcIpSet next, some ps)
  | .macSet ps => (.macSet next, some ps)
  | .domainSet _ => (.domainSet, none)
  | .port lo hi => (.port lo hi, none)
  | .srcPort lo hi => (.srcPort lo hi, none)
  | .ipVersion mask => (.ipVersion mask, none)
  | .l4Proto mask => (.l4Proto mask, none)
  | .processName bs => (.processName bs, none)
  | .dscp v => (.dscp v, none)
  | .fallback => (.fallback, none)

/-- Allocate one LPM slot per address set (no sharing; sharing is C12's `share_only_if_equal`),
numbering from `next`: the typed array and the LPM sets the builder emits for C01's compiled
program. -/
def assignFrom : Nat → List (Entry MCond Out) → List KEntry × List (List Prefix)
  | _, [] => ([], [])
  | next, e :: es =>
    match kcondOf next e.cond with
    | (c, some ps) => let r := assignFrom (next + 1) es; (mkK e c :: r.1, ps :: r.2)
    | (c, none) => let r := assignFrom next es; (mkK e c :: r.1, r.2)

/-- typed payload for a compiled condition with the builder's trie SHARING: `ip()`/`sip()` sets go
through `lpmDedup` (C12's `Builder.addSet`, arbitrary hash, collision check), `mac()` sets always get
a trie of their own. -/
def kcondShare (hash : List Prefix → Nat) (b : Builder) : MCond → KCond × Builder
  | .ipSet ps => let r := b.addSet hash ps; (.ipSet r.2, r.1)
  | .srcIpSet ps => let r := b.addSet hash ps; (.srcIpSet r.2, r.1)
  | .macSet ps => (.macSet b.tries.length, ⟨b.tries ++ [ps], b.dedup⟩)
  | c => ((kcondOf 0 c).1, b)

/-- The typed array and the LPM sets the REAL builder emits for C01's compiled program. -/
def assignShare (hash : List Prefix → Nat) : Builder → List (Entry MCond Out) → List KEntry × Builder
  | b, [] => ([], b)
  | b, e :: es =>
    let h := kcondShare hash b e.cond
    let r := assignShare hash h.2 es
    (mkK e h.1 :: r.1, r.2)

/-! ## `compileRoutingMatch`: the control plane's own decoder of a rule image

`BuildUserspace` takes `b.compiledRules` and falls back to `compileRoutingMatches(b.rules)` when the two slices
differ in length; `compileRoutingMatch` reads the set index with `binary.LittleEndian.Uint32`, the port range with
`ParsePortRange` (explicit little-endian), masks / DSCP as `Value[0]`, the process name as the 16 `Value` bytes and
`Mark` as a host-order struct field. -/

/-- `compileRoutingMatch(bpfMatchSet)` on a host of byte order `e`; `none` = "unknown match type". -/
def decodeGo (e : Endian) (img : List Nat) : Option KEntry :=
  let t := msType img
  let mk (c : KCond) : Option KEntry := some ⟨c, msNot img != 0, msOutbound img, msMust img != 0, msMark e img⟩
  if t = MT_IpSet then mk (.ipSet (msIndex .little img))
  else if t = MT_SourceIpSet then mk (.srcIpSet (msIndex .little img))
  else if t = MT_Mac then mk (.macSet (msIndex .little img))
  else if t = MT_Port then mk (.port (msPortStart .little img) (msPortEnd .little img))
  else if t = MT_SourcePort then mk (.srcPort (msPortStart .little img) (msPortEnd .little img))
  else if t = MT_L4Proto then mk (.l4Proto (byteAt img 0))
  else if t = MT_IpVersion then mk (.ipVersion (byteAt img 0))
  else if t = MT_ProcessName then mk (.processName (msPname img))
  else if t = MT_Dscp then mk (.dscp (msDscp img))
  else if t = MT_DomainSet then mk .domainSet
  else if t = MT_Fallback then mk .fallback
  else none

/-- the array `BuildUserspace` hands to the matcher: `b.compiledRules`, or the images decoded again -/
def userspaceArray (e : Endian) (compiled : List KEntry) (rules : List (List Nat)) : Option (List KEntry) :=
  if compiled.length = rules.length then some compiled else rules.mapM (decodeGo e)

/-- `common.Ipv6ByteSliceToUint32Array` (four host-order words) … -/
def keyWords (e : Endian) (bs : List Nat) : List Nat := (List.range 4).map fun j => rd32 e bs (4 * j)
/-- … and the memory image of those words, which is what `bpf(2)` receives as the hash key -/
def keyImage (e : Endian) (ws : List Nat) : List Nat := ws.flatMap (wr32 e)

/-! ## A `buildRoutingKernspace` that stops part-way, and the reload transition system

`buildRoutingKernspace` writes the LPM slots (serially or by up to 8 workers, in any order), then the rule images
(`BpfMapBatchUpdate`, element by element inside the kernel or in the simulated path), then the active length.  A failure
leaves the maps in one of the states below; the reload handler (`cmd/run.go`) then closes the staged generation
(`controlPlaneCore.Close` deletes the slots it owns — it owns some only if `BuildKernspace` returned) and calls
`RebuildReloadDatapath` on the generation that keeps serving. -/

inductive Stage where
  /-- only the LPM slots of the listed tries were written -/
  | lpm (written : List Nat)
  /-- all LPM slots and the first `n` rule images -/
  | rules (n : Nat)
  /-- all LPM slots and all rule images, but not the active length -/
  | noLen
  /-- `BuildKernspace` returned (the failure came later: listener publication, runtime activation) -/
  | done
deriving Repr, DecidableEq

def lpmSome (start : Nat) (tries : List (List Prefix)) (written : List Nat) : List (Nat × List LpmKey) :=
  written.filterMap fun i => (tries[i]?).map fun t => (ringSlot start i, t.map cidrToKey)

def installUpTo (st : Stage) (start : Nat) (kp : List KEntry) (tries : List (List Prefix)) (m : KMaps) : KMaps :=
  match st with
  | .lpm written => { m with lpm := lpmSome start tries written ++ m.lpm }
  | .rules n =>
    { m with lpm := (lpmEntries start 0 tries).reverse ++ m.lpm
             routing := overwritePrefix m.routing (((kp.map (KEntry.rewrite start)).map (encodeGo .little)).take n) }
  | .noLen => { installGen .little start kp tries m with activeLen := m.activeLen }
  | .done => installGen .little start kp tries m

/-- `CommitPreparedDatapath` that stops at `stage`: `BuildKernspace`, and only when it returned
`clearReloadDomainRoutingMap` (the replay of the DNS cache that follows is a domain-map update) -/
def commitUpTo (st : Stage) (start : Nat) (kp : List KEntry) (tries : List (List Prefix)) (m : KMaps) : KMaps :=
  let mB := installUpTo st start kp tries m
  if st = .done then { mB with domain := [] } else mB

/-- one generation: ring start, typed array, LPM sets -/
structure Gen where
  start : Nat
  kp : List KEntry
  tries : List (List Prefix)

/-- The shared datapath and the generation that serves: the kernel maps, `globalNextLpmIndex`, the live
generation (whose userspace matcher answers) and its `core.lpmTrieIndices`. -/
structure Sys where
  maps : KMaps
  counter : Nat
  live : Gen
  owned : List Nat

inductive Op where
  /-- a reload that cuts over: `CommitPreparedDatapath` of the new generation, then `InheritLpmIndices(old.Eject…())` -/
  | reload (kp : List KEntry) (tries : List (List Prefix))
  /-- a staged reload whose commit stopped at `stage`; the staged generation is closed and the serving one runs
  `RebuildReloadDatapath` -/
  | failed (kp : List KEntry) (tries : List (List Prefix)) (stage : Stage)
  /-- `RebuildReloadDatapath` of the serving generation by itself -/
  | rebuild
  /-- any update of `domain_routing_map` (DNS answers, cache replay) -/
  | dom (d : List (Nat × List Nat))

/-- `RebuildReloadDatapath`: `BuildKernspace` of the serving generation's snapshot at fresh ring slots,
`ReplaceLpmIndices`, `clearReloadDomainRoutingMap`. -/
def Sys.rebuild (s : Sys) : Sys :=
  match reserveRing s.counter s.live.tries.length with
  | none => s
  | some (st, c) =>
    let cur := genSlots st s.live.tries.length
    { maps := { inheritSlots (installGen .little st s.live.kp s.live.tries s.maps) s.owned cur with domain := [] }
      counter := c, live := { s.live with start := st }, owned := cur }

/-- a reload that cuts over, the new generation placed at ring start `st` -/
def Sys.cutover (s : Sys) (kp : List KEntry) (tries : List (List Prefix)) (st c : Nat) : Sys :=
  let cur := genSlots st tries.length
  { maps := { inheritSlots (installGen .little st kp tries s.maps) s.owned cur with domain := [] }
    counter := c, live := ⟨st, kp, tries⟩, owned := cur }

/-- a staged reload that stopped at `stage`: the staged generation is closed (it owns slots only when its
`BuildKernspace` returned), the serving generation rebuilds -/
def Sys.abort (s : Sys) (kp : List KEntry) (tries : List (List Prefix)) (stage : Stage) (st c : Nat) : Sys :=
  let mB := commitUpTo stage st kp tries s.maps
  let mC := if stage = .done then mB.delSlots (genSlots st tries.length) else mB
  Sys.rebuild { s with maps := mC, counter := c }

def Sys.step (s : Sys) : Op → Sys
  | .reload kp tries =>
    match reserveRing s.counter tries.length with
    | none => s
    | some (st, c) => s.cutover kp tries st c
  | .failed kp tries stage =>
    match reserveRing s.counter tries.length with
    | none => s
    | some (st, c) => s.abort kp tries stage st c
  | .rebuild => s.rebuild
  | .dom d => { s with maps := { s.maps with domain := d } }

def Sys.run (s : Sys) (ops : List Op) : Sys := ops.foldl Sys.step s

/-- the first load: empty maps, ring counter 0 -/
def Sys.boot (kp : List KEntry) (tries : List (List Prefix)) : Sys :=
  Sys.step ⟨KMaps.empty, 0, ⟨0, [], []⟩, []⟩ (.reload kp tries)

/-! ### what `route()` can observe of a map state -/

/-- the fields `route()` reads of two rule images agree (type-directed: the union member consulted for that type) -/
def sameReads (a b : List Nat) : Bool :=
  msType a == msType b && (msNot a != 0) == (msNot b != 0) && msOutbound a == msOutbound b &&
  (msMust a != 0) == (msMust b != 0) && msMark .little a == msMark .little b &&
  (let t := msType a
   if t = MT_Mac ∨ t = MT_IpSet ∨ t = MT_SourceIpSet then msIndex .little a == msIndex .little b
   else if t = MT_Port ∨ t = MT_SourcePort then
     msPortStart .little a == msPortStart .little b && msPortEnd .little a == msPortEnd .little b
   else if t = MT_L4Proto ∨ t = MT_IpVersion then msEnum32 .little a % 256 == msEnum32 .little b % 256
   else if t = MT_ProcessName then msPname a == msPname b
   else if t = MT_Dscp then msDscp a == msDscp b
   else true)

def isLpmType (t : Nat) : Bool := t == MT_Mac || t == MT_IpSet || t == MT_SourceIpSet

def sameSlot (a b : KMaps) (slot : Nat) : Bool :=
  match a.lpmAt slot, b.lpmAt slot with
  | none, none => true
  | some x, some y => keysEquiv x y
  | _, _ => false

/-- Two map states that `route()` cannot tell apart: same active length, rule images below it that read alike,
the LPM slots those images name hold the same tries (or are both empty), same domain bitmaps.  Slots no live rule
names and images beyond the active length are free. -/
def obsEqB (a b : KMaps) : Bool :=
  a.activeLen == b.activeLen &&
  (List.range (min a.activeLen MaxMatchSetLen)).all (fun i =>
    let x := a.routing.getD i (zeros 24)
    let y := b.routing.getD i (zeros 24)
    sameReads x y && (!isLpmType (msType x) || sameSlot a b (msIndex .little x))) &&
  (a.domain.map (·.1) ++ b.domain.map (·.1)).all (fun k => a.domain.lookup k == b.domain.lookup k)

end DaeVerif.C02
