import DaeVerif.C02.Proofs
/-! Helper lemmas for C02, part 2: the control plane's own decoder (`compileRoutingMatch`), the domain-map key,
the reload transition system with failed installs, and what `route()` can observe of a map state. -/
set_option linter.unusedSimpArgs false
namespace DaeVerif.C02
open DaeVerif.RuleScan DaeVerif.C12 DaeVerif.C01

/-! ## `compileRoutingMatch` -/

theorem msMark_enc (e : Endian) (k : KEntry) (h : k.mark < 2 ^ 32) : msMark e (encodeGo e k) = k.mark := by
  cases e
  · exact msMark_enc_little k h
  · exact msMark_enc_big k h

theorem mtype_lt (c : KCond) : c.mtype ≤ 10 := by
  cases c <;> simp [KCond.mtype, MT_DomainSet, MT_IpSet, MT_SourceIpSet, MT_Port, MT_SourcePort, MT_L4Proto, MT_IpVersion,
    MT_Mac, MT_ProcessName, MT_Dscp, MT_Fallback]

/-- What `compileRoutingMatch` decodes from the image the `add*` encoders wrote is the typed entry the builder
kept in `compiledRules` — on hosts of either byte order (both directions use the same explicit little-endian
puts/gets for the `Value` union and the host order for `Mark`). -/
theorem decodeGo_encodeGo (e : Endian) (k : KEntry) (hc : k.cond.WF (2 ^ 32)) (hob : k.outbound < 256)
    (hmk : k.mark < 2 ^ 32) : decodeGo e (encodeGo e k) = some k := by
  obtain ⟨cond, nt, ob, must, mark⟩ := k
  unfold decodeGo
  simp only [msType_enc, msNot_enc, msOutbound_enc _ _ hob, msMust_enc, msMark_enc _ _ hmk, bpfBool_ne_zero]
  have mts : MT_DomainSet = 0 ∧ MT_IpSet = 1 ∧ MT_SourceIpSet = 2 ∧ MT_Port = 3 ∧ MT_SourcePort = 4 ∧ MT_L4Proto = 5 ∧
      MT_IpVersion = 6 ∧ MT_Mac = 7 ∧ MT_ProcessName = 8 ∧ MT_Dscp = 9 ∧ MT_Fallback = 10 := by decide
  obtain ⟨t0, t1, t2, t3, t4, t5, t6, t7, t8, t9, t10⟩ := mts
  cases cond <;> simp only [KCond.WF] at hc <;> simp only [KCond.mtype, t0, t1, t2, t3, t4, t5, t6, t7, t8, t9, t10]
  case domainSet => simp
  case fallback => simp
  case ipSet i => simp only [msIndex]; rw [rd32_head]; simp [KCond.value, rd32_wr32le _ hc]
  case srcIpSet i => simp only [msIndex]; rw [rd32_head]; simp [KCond.value, rd32_wr32le _ hc]
  case macSet i => simp only [msIndex]; rw [rd32_head]; simp [KCond.value, rd32_wr32le _ hc]
  case port lo hi =>
    have h1 : msPortStart .little (encodeGo e ⟨.port lo hi, nt, ob, must, mark⟩) = lo := by
      unfold msPortStart; rw [rd16_head _ _ _ _ (by decide)]; simp [rd16, KCond.value, wr16le, byteAt]; omega
    have h2 : msPortEnd .little (encodeGo e ⟨.port lo hi, nt, ob, must, mark⟩) = hi := by
      unfold msPortEnd; rw [rd16_head _ _ _ _ (by decide)]; simp [rd16, KCond.value, wr16le, byteAt]; omega
    simp [h1, h2]
  case srcPort lo hi =>
    have h1 : msPortStart .little (encodeGo e ⟨.srcPort lo hi, nt, ob, must, mark⟩) = lo := by
      unfold msPortStart; rw [rd16_head _ _ _ _ (by decide)]; simp [rd16, KCond.value, wr16le, byteAt]; omega
    have h2 : msPortEnd .little (encodeGo e ⟨.srcPort lo hi, nt, ob, must, mark⟩) = hi := by
      unfold msPortEnd; rw [rd16_head _ _ _ _ (by decide)]; simp [rd16, KCond.value, wr16le, byteAt]; omega
    simp [h1, h2]
  case l4Proto mk =>
    have : byteAt (encodeGo e ⟨.l4Proto mk, nt, ob, must, mark⟩) 0 = mk := by
      rw [enc_head _ _ _ (by decide)]; simp [KCond.value, byteAt]; omega
    simp [this]
  case ipVersion mk =>
    have : byteAt (encodeGo e ⟨.ipVersion mk, nt, ob, must, mark⟩) 0 = mk := by
      rw [enc_head _ _ _ (by decide)]; simp [KCond.value, byteAt]; omega
    simp [this]
  case processName bs =>
    have : msPname (encodeGo e ⟨.processName bs, nt, ob, must, mark⟩) = bs := by
      rw [msPname_enc]; simp only [KCond.value]; rw [pad16_of_length bs hc]; exact range16_map_byteAt bs hc
    simp [this]
  case dscp v =>
    have : msDscp (encodeGo e ⟨.dscp v, nt, ob, must, mark⟩) = v := by
      unfold msDscp; rw [enc_head _ _ _ (by decide)]; simp [KCond.value, byteAt]; omega
    simp [this]

theorem rd32_mod256 (img : List Nat) (off : Nat) (h : byteAt img off < 256) : rd32 .little img off % 256 = byteAt img off := by
  simp only [rd32]; omega

/-- What the control plane decodes from an image is what the kernel reads of it (little-endian target):
`compileRoutingMatch` and `route_eval_match` / `route_finalize_match` look at the same fields. -/
theorem readsAs_of_decodeGo (img : List Nat) (k : KEntry) (hb : byteAt img 0 < 256)
    (h : decodeGo .little img = some k) : readsAs img k = true := by
  have hb0 := rd32_mod256 img 0 hb
  unfold decodeGo at h
  simp only at h
  split at h
  · rename_i ht; injection h with h; subst h; unfold readsAs; simp [ht, KCond.mtype, msEnum32, hb0]
  split at h
  · rename_i ht; injection h with h; subst h; unfold readsAs; simp [ht, KCond.mtype, msEnum32, hb0]
  split at h
  · rename_i ht; injection h with h; subst h; unfold readsAs; simp [ht, KCond.mtype, msEnum32, hb0]
  split at h
  · rename_i ht; injection h with h; subst h; unfold readsAs; simp [ht, KCond.mtype, msEnum32, hb0]
  split at h
  · rename_i ht; injection h with h; subst h; unfold readsAs; simp [ht, KCond.mtype, msEnum32, hb0]
  split at h
  · rename_i ht; injection h with h; subst h; unfold readsAs; simp [ht, KCond.mtype, msEnum32, hb0]
  split at h
  · rename_i ht; injection h with h; subst h; unfold readsAs; simp [ht, KCond.mtype, msEnum32, hb0]
  split at h
  · rename_i ht; injection h with h; subst h; unfold readsAs; simp [ht, KCond.mtype, msEnum32, hb0]
  split at h
  · rename_i ht; injection h with h; subst h; unfold readsAs; simp [ht, KCond.mtype, msEnum32, hb0]
  split at h
  · rename_i ht; injection h with h; subst h; unfold readsAs; simp [ht, KCond.mtype, msEnum32, hb0]
  split at h
  · rename_i ht; injection h with h; subst h; unfold readsAs; simp [ht, KCond.mtype, msEnum32, hb0]
  · cases h

/-! ## the key of `domain_routing_map` -/

/-- `Ipv6ByteSliceToUint32Array` reads four host-order words and `bpf(2)` receives their host-order memory: on a host
of either byte order the key bytes are the 16 address bytes — exactly what the kernel program copies out of
`lpm_key_daddr.data` (`__be32 daddr[4]`, network order) before `bpf_map_lookup_elem(&domain_routing_map, daddr)`. -/
theorem keyImage_keyWords (e : Endian) (bs : List Nat) (hl : bs.length = 16) (hb : ∀ b ∈ bs, b < 256) :
    keyImage e (keyWords e bs) = bs := by
  match bs, hl, hb with
  | [b0, b1, b2, b3, b4, b5, b6, b7, b8, b9, b10, b11, b12, b13, b14, b15], _, hb =>
    simp only [List.mem_cons, List.not_mem_nil, or_false, forall_eq_or_imp, forall_eq] at hb
    obtain ⟨h0, h1, h2, h3, h4, h5, h6, h7, h8, h9, h10, h11, h12, h13, h14, h15⟩ := hb
    cases e <;>
      simp [keyWords, keyImage, rd32, wr32, wr32le, byteAt, List.range, List.range.loop, List.flatMap] <;>
      omega

/-! ## the reload transition system -/

structure GenOK (g : Gen) : Prop where
  fitK : g.kp.length ≤ MaxMatchSetLen
  fitT : g.tries.length ≤ MaxMatchSetLen
  ok : ∀ k ∈ g.kp, EntryOK g.tries.length k

/-- The invariant of every quiescent state (no staged install pending): the serving generation is `Installed`, the ring
counter stands right behind its slots, and it owns exactly its slots. -/
structure Sys.Good (s : Sys) : Prop where
  inst : Installed s.maps s.live.start s.live.kp s.live.tries
  gen : GenOK s.live
  startLt : s.live.start < MaxMatchSetLen
  ring : s.counter = (s.live.start + s.live.tries.length) % MaxMatchSetLen
  owned : s.owned = genSlots s.live.start s.live.tries.length

/-- what the builder guarantees about a program it accepts (`rulesFit`, `triesFit`, field ranges) -/
def Op.OK : Op → Prop
  | .reload kp tries => GenOK ⟨0, kp, tries⟩
  | _ => True

theorem reserveRing_spec (c n st c' : Nat) (hc : c < MaxMatchSetLen) (h : reserveRing c n = some (st, c')) :
    st = c ∧ c' = (c + n) % MaxMatchSetLen ∧ n ≤ MaxMatchSetLen := by
  unfold reserveRing at h
  unfold MaxMatchSetLen at *
  by_cases h1 : n > 1024
  · simp [h1] at h
  · by_cases h2 : n = 0
    · subst h2
      simp at h
      obtain ⟨rfl, rfl⟩ := h
      exact ⟨rfl, by omega, by omega⟩
    · simp [h1, h2] at h
      obtain ⟨rfl, rfl⟩ := h
      exact ⟨rfl, rfl, by omega⟩

theorem Sys.counter_lt (s : Sys) (h : s.Good) : s.counter < MaxMatchSetLen := by
  rw [h.ring]; unfold MaxMatchSetLen; omega

/-- `RebuildReloadDatapath` re-establishes the invariant from ANY map contents: whatever a failed install of another
generation and its `Close` left behind. -/
theorem rebuild_good (s : Sys) (hg : GenOK s.live) (hc : s.counter < MaxMatchSetLen) : s.rebuild.Good := by
  unfold Sys.rebuild
  cases hr : reserveRing s.counter s.live.tries.length with
  | none =>
    exfalso
    unfold reserveRing at hr
    have := hg.fitT
    by_cases h2 : s.live.tries.length = 0 <;> simp [h2, Nat.not_lt.mpr this] at hr
  | some p =>
    obtain ⟨st, c⟩ := p
    obtain ⟨rfl, rfl, _⟩ := reserveRing_spec _ _ _ _ hc hr
    simp only
    exact ⟨(inherit_installed _ _ _ _ s.owned (installGen_installed _ _ _ s.maps hg.fitK hg.fitT hg.ok)).with_domain [],
      ⟨hg.fitK, hg.fitT, hg.ok⟩, hc, rfl, rfl⟩

theorem step_good (s : Sys) (op : Op) (h : s.Good) (hop : op.OK) : (s.step op).Good := by
  have hc := s.counter_lt h
  cases op with
  | reload kp tries =>
    have hg : GenOK ⟨0, kp, tries⟩ := hop
    cases hr : reserveRing s.counter tries.length with
    | none => simp only [Sys.step, hr]; exact h
    | some p =>
      obtain ⟨st, c⟩ := p
      obtain ⟨rfl, rfl, _⟩ := reserveRing_spec _ _ _ _ hc hr
      simp only [Sys.step, hr, Sys.cutover]
      exact ⟨(inherit_installed _ _ _ _ s.owned (installGen_installed _ _ _ s.maps hg.fitK hg.fitT hg.ok)).with_domain [],
        ⟨hg.fitK, hg.fitT, hg.ok⟩, hc, rfl, rfl⟩
  | failed kp tries stage =>
    cases hr : reserveRing s.counter tries.length with
    | none => simp only [Sys.step, hr]; exact h
    | some p =>
      obtain ⟨st, c⟩ := p
      obtain ⟨rfl, rfl, _⟩ := reserveRing_spec _ _ _ _ hc hr
      simp only [Sys.step, hr, Sys.abort]
      apply rebuild_good
      · exact h.gen
      · show (s.counter + tries.length) % MaxMatchSetLen < MaxMatchSetLen
        unfold MaxMatchSetLen; omega
  | rebuild => exact rebuild_good s h.gen hc
  | dom d => exact ⟨h.inst.with_domain d, h.gen, h.startLt, h.ring, h.owned⟩

theorem run_good (ops : List Op) : ∀ (s : Sys), s.Good → (∀ op ∈ ops, op.OK) → (s.run ops).Good := by
  induction ops with
  | nil => intro s h _; exact h
  | cons op ops ih =>
    intro s h hok
    unfold Sys.run
    rw [List.foldl_cons]
    exact ih _ (step_good s op h (hok op List.mem_cons_self)) (fun o ho => hok o (List.mem_cons_of_mem _ ho))

theorem boot_good (kp : List KEntry) (tries : List (List Prefix)) (hg : GenOK ⟨0, kp, tries⟩) : (Sys.boot kp tries).Good := by
  unfold Sys.boot
  apply step_good _ (.reload kp tries) _ hg
  refine ⟨⟨rfl, by decide, ?_, ?_⟩, ⟨by decide, by decide, ?_⟩, by decide, rfl, rfl⟩
  · intro i hi; cases hi
  · intro i hi; cases hi
  · intro k hk; cases hk

/-! ### the hot-reload window: the LPM phase of the next generation's install -/

theorem lookup_append_of_not_mem {β : Type} (l old : List (Nat × β)) (k : Nat) (h : ∀ v, (k, v) ∉ l) :
    (l ++ old).lookup k = old.lookup k := by
  induction l with
  | nil => rfl
  | cons a l ih =>
    obtain ⟨k', v⟩ := a
    have hne : (k == k') = false := by
      by_cases hk : k = k'
      · subst hk; exact absurd List.mem_cons_self (h v)
      · simpa using hk
    simp only [List.cons_append, List.lookup_cons, hne]
    exact ih (fun v' hv' => h v' (List.mem_cons_of_mem _ hv'))

theorem mem_lpmSome (start : Nat) (tries : List (List Prefix)) (J : List Nat) (s : Nat) (ks : List LpmKey)
    (h : (s, ks) ∈ lpmSome start tries J) : ∃ i ∈ J, i < tries.length ∧ s = ringSlot start i := by
  unfold lpmSome at h
  rw [List.mem_filterMap] at h
  obtain ⟨i, hi, he⟩ := h
  cases ht : tries[i]? with
  | none => rw [ht] at he; simp at he
  | some t =>
    rw [ht] at he
    simp only [Option.map_some, Option.some.injEq, Prod.mk.injEq] at he
    have hlt : i < tries.length := by
      by_cases hn : i < tries.length
      · exact hn
      · rw [List.getElem?_eq_none (by omega)] at ht
        cases ht
    exact ⟨i, hi, hlt, he.1.symm⟩

/-- Writing LPM slots that the serving generation does not use — any subset, in any order — keeps it `Installed`. -/
theorem lpmPhase_installed (m : KMaps) (start : Nat) (kp : List KEntry) (tries : List (List Prefix))
    (h : Installed m start kp tries) (st' : Nat) (kp' : List KEntry) (tries' : List (List Prefix)) (J : List Nat)
    (hdis : ∀ i, i < tries'.length → ∀ idx, idx < tries.length → ringSlot st' i ≠ ringSlot start idx) :
    Installed (installUpTo (.lpm J) st' kp' tries' m) start kp tries := by
  refine ⟨h.len, h.bound, h.rules, ?_⟩
  intro idx hidx
  obtain ⟨keys, hk, he⟩ := h.lpm idx hidx
  refine ⟨keys, ?_, he⟩
  unfold KMaps.lpmAt installUpTo at *
  by_cases hb : ringSlot start idx < MaxLpmNum
  · simp only [hb, if_true] at hk ⊢
    rw [lookup_append_of_not_mem]
    · exact hk
    · intro v hv
      obtain ⟨i, _, hi, hs⟩ := mem_lpmSome _ _ _ _ _ hv
      exact hdis i hi idx hidx hs.symm
  · simp [hb] at hk

theorem ring_next_disjoint (start n c n' st' c' : Nat) (hs : start < MaxMatchSetLen)
    (hc : c = (start + n) % MaxMatchSetLen) (hr : reserveRing c n' = some (st', c'))
    (hsum : n + n' ≤ MaxMatchSetLen) (i idx : Nat) (hi : i < n') (hidx : idx < n) :
    ringSlot st' i ≠ ringSlot start idx := by
  have hcl : c < MaxMatchSetLen := by rw [hc]; unfold MaxMatchSetLen; omega
  obtain ⟨rfl, _, _⟩ := reserveRing_spec _ _ _ _ hcl hr
  subst hc
  unfold ringSlot MaxMatchSetLen at *
  omega

/-! ### what `route()` can observe of a map state -/

theorem sameReads_fields (a b : List Nat) (h : sameReads a b = true) :
    msType a = msType b ∧ (msNot a != 0) = (msNot b != 0) ∧ msOutbound a = msOutbound b ∧
    (msMust a != 0) = (msMust b != 0) ∧ msMark .little a = msMark .little b := by
  unfold sameReads at h
  simp only [Bool.and_eq_true, beq_iff_eq] at h
  obtain ⟨⟨⟨⟨⟨h1, h2⟩, h3⟩, h4⟩, h5⟩, _⟩ := h
  exact ⟨h1, h2, h3, h4, h5⟩

theorem sameReads_finalize (c : RCtx) (a b : List Nat) (h : sameReads a b = true) :
    finalizeMatch .little c a = finalizeMatch .little c b := by
  obtain ⟨_, h2, h3, h4, h5⟩ := sameReads_fields a b h
  unfold finalizeMatch
  simp only [h2, h3, h4, h5]

theorem sameSlot_lookup (ma mb : KMaps) (slot : Nat) (h : sameSlot ma mb slot = true) (c : RCtx) (ia ib : List Nat)
    (hi : msIndex .little ia = slot) (hj : msIndex .little ib = slot) (probe : Nat) :
    matchLpm .little ma c ia probe = matchLpm .little mb c ib probe := by
  unfold matchLpm
  rw [hi, hj]
  unfold sameSlot at h
  cases ha : ma.lpmAt slot with
  | none =>
    cases hb : mb.lpmAt slot with
    | none => rfl
    | some y => rw [ha, hb] at h; cases h
  | some x =>
    cases hb : mb.lpmAt slot with
    | none => rw [ha, hb] at h; cases h
    | some y =>
      rw [ha, hb] at h
      simp only [keysEquiv_lookup x y h]

theorem sameReads_eval (ma mb : KMaps) (pk : PktK) (c : RCtx) (a b : List Nat) (j : Nat)
    (h : sameReads a b = true) (hl : isLpmType (msType a) = true → sameSlot ma mb (msIndex .little a) = true)
    (hd : ∀ w, ma.domainWord pk.daddr w = mb.domainWord pk.daddr w) :
    evalMatch .little ma pk c a j = evalMatch .little mb pk c b j := by
  obtain ⟨h1, _⟩ := sameReads_fields a b h
  unfold sameReads at h
  simp only [Bool.and_eq_true, beq_iff_eq] at h
  obtain ⟨_, h6⟩ := h
  unfold evalMatch
  simp only [← h1]
  by_cases t1 : msType a = MT_Mac ∨ msType a = MT_IpSet ∨ msType a = MT_SourceIpSet
  · simp only [t1, if_true] at h6 ⊢
    have hi : msIndex .little a = msIndex .little b := by simpa using h6
    have hlpm : isLpmType (msType a) = true := by
      unfold isLpmType; rcases t1 with t | t | t <;> simp [t]
    exact sameSlot_lookup ma mb _ (hl hlpm) c a b rfl hi.symm _
  · simp only [t1, if_false] at h6 ⊢
    by_cases t2 : msType a = MT_Port ∨ msType a = MT_SourcePort
    · simp only [t2, if_true] at h6 ⊢
      simp only [Bool.and_eq_true, beq_iff_eq] at h6
      rw [h6.1, h6.2]
    · simp only [t2, if_false] at h6 ⊢
      by_cases t3 : msType a = MT_L4Proto ∨ msType a = MT_IpVersion
      · simp only [t3, if_true] at h6 ⊢
        have : msEnum32 .little a % 256 = msEnum32 .little b % 256 := by simpa using h6
        rw [this]
      · simp only [t3, if_false] at h6 ⊢
        by_cases t4 : msType a = MT_DomainSet
        · simp only [t4, if_true]
          unfold matchDomainSet
          simp only [hd]
        · simp only [t4, if_false]
          by_cases t5 : msType a = MT_ProcessName
          · simp only [t5, if_true] at h6 ⊢
            have : msPname a = msPname b := by simpa using h6
            rw [this]
          · simp only [t5, if_false] at h6 ⊢
            by_cases t6 : msType a = MT_Dscp
            · simp only [t6, if_true] at h6 ⊢
              have : msDscp a = msDscp b := by simpa using h6
              rw [this]
            · simp only [t6, if_false]

theorem lookup_none_of_not_mem {β : Type} (l : List (Nat × β)) (k : Nat) (h : k ∉ l.map (·.1)) : l.lookup k = none := by
  induction l with
  | nil => rfl
  | cons a l ih =>
    obtain ⟨k', v⟩ := a
    simp only [List.map_cons, List.mem_cons, not_or] at h
    have hne : (k == k') = false := by simpa using h.1
    simp only [List.lookup_cons, hne]
    exact ih h.2

/-- **`route()` depends on a map state only through what `obsEqB` compares**: two states with the same active
length, rule images below it that read alike, equal tries in the slots those images name and equal domain bitmaps
give the same result for every packet. -/
theorem obsEq_route (a b : KMaps) (h : obsEqB a b = true) (pk : PktK) : routeK .little a pk = routeK .little b pk := by
  unfold obsEqB at h
  simp only [Bool.and_eq_true, beq_iff_eq, List.all_eq_true, List.mem_range, List.mem_append, Bool.or_eq_true,
    Bool.not_eq_true'] at h
  obtain ⟨⟨hlen, hrules⟩, hdom⟩ := h
  have hd : ∀ w, a.domainWord pk.daddr w = b.domainWord pk.daddr w := by
    intro w
    unfold KMaps.domainWord
    by_cases hk : pk.daddr ∈ a.domain.map (·.1) ∨ pk.daddr ∈ b.domain.map (·.1)
    · rw [hdom pk.daddr hk]
    · rw [not_or] at hk
      rw [lookup_none_of_not_mem _ _ hk.1, lookup_none_of_not_mem _ _ hk.2]
  unfold routeK
  simp only [← hlen]
  rw [bpfLoop_congr (loopCb .little a pk) (loopCb .little b pk)]
  intro j c' _ hj
  have hjn : j < min a.activeLen MaxMatchSetLen := by
    by_cases hle : a.activeLen ≤ MaxMatchSetLen
    · simp only [hle, if_true] at hj; omega
    · simp only [hle, if_false] at hj; omega
  have hj2 : j < MaxMatchSetLen := by omega
  obtain hr := hrules j hjn
  obtain ⟨hs, hl⟩ := hr
  unfold loopCb KMaps.routingAt
  simp only [Nat.not_le.mpr hj2, if_false, hj2, if_true, ge_iff_le]
  have hl' : isLpmType (msType (a.routing.getD j (zeros 24))) = true →
      sameSlot a b (msIndex .little (a.routing.getD j (zeros 24))) = true := by
    intro ht
    rcases hl with hl | hl
    · rw [ht] at hl; cases hl
    · exact hl
  simp only [sameReads_eval a b pk _ _ _ j hs hl' hd, sameReads_finalize _ _ _ hs]

end DaeVerif.C02
