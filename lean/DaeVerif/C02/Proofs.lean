import DaeVerif.C02.Model
import DaeVerif.C12.Props
/-! Helper lemmas for C02. -/
namespace DaeVerif.C02
open DaeVerif.RuleScan DaeVerif.C12 DaeVerif.C01

/-! ## bytes -/

theorem byteAt_append_left (a b : List Nat) (i : Nat) (h : i < a.length) :
    byteAt (a ++ b) i = byteAt a i := by
  unfold byteAt; simp [List.getD_eq_getElem?_getD, List.getElem?_append_left h]

theorem byteAt_append_right (a b : List Nat) (i : Nat) (h : a.length ≤ i) :
    byteAt (a ++ b) i = byteAt b (i - a.length) := by
  unfold byteAt; simp [List.getD_eq_getElem?_getD, List.getElem?_append_right h]

theorem pad16_length (s : List Nat) : (pad16 s).length = 16 := by
  unfold pad16; simp only [List.length_append, List.length_replicate, List.length_take]; omega

theorem pad16_of_length (s : List Nat) (h : s.length = 16) : pad16 s = s := by
  unfold pad16
  have : List.take 16 s = s := List.take_of_length_le (by omega)
  rw [this, h]; simp

theorem value_length (c : KCond) : c.value.length = 16 := by
  cases c <;> simp [KCond.value, wr32le, wr16le, zeros, pad16_length]

theorem rd32_wr32le (v : Nat) (h : v < 2 ^ 32) (rest : List Nat) : rd32 .little (wr32le v ++ rest) 0 = v := by
  simp [rd32, wr32le, byteAt]; omega

theorem rd16_wr16le (v : Nat) (h : v < 65536) (rest : List Nat) : rd16 .little (wr16le v ++ rest) 0 = v := by
  simp [rd16, wr16le, byteAt]; omega

/-! ### reading the fields of an encoded match set back -/

theorem enc_tail (e : Endian) (k : KEntry) (j : Nat) :
    byteAt (encodeGo e k) (16 + j) = byteAt ([bpfBool k.not, k.cond.mtype, k.outbound % 256, bpfBool k.must] ++ wr32 e k.mark) j := by
  unfold encodeGo
  rw [byteAt_append_right _ _ _ (by rw [value_length]; omega), value_length]
  congr 1; omega

theorem enc_head (e : Endian) (k : KEntry) (j : Nat) (h : j < 16) :
    byteAt (encodeGo e k) j = byteAt k.cond.value j := by
  unfold encodeGo
  exact byteAt_append_left _ _ _ (by rw [value_length]; exact h)

theorem msNot_enc (e : Endian) (k : KEntry) : msNot (encodeGo e k) = bpfBool k.not := by
  unfold msNot; rw [show (16 : Nat) = 16 + 0 from rfl, enc_tail]; simp [byteAt]

theorem msType_enc (e : Endian) (k : KEntry) : msType (encodeGo e k) = k.cond.mtype := by
  unfold msType; rw [show (17 : Nat) = 16 + 1 from rfl, enc_tail]; simp [byteAt]

theorem msOutbound_enc (e : Endian) (k : KEntry) (h : k.outbound < 256) : msOutbound (encodeGo e k) = k.outbound := by
  unfold msOutbound; rw [show (18 : Nat) = 16 + 2 from rfl, enc_tail]; simp [byteAt]; omega

theorem msMust_enc (e : Endian) (k : KEntry) : msMust (encodeGo e k) = bpfBool k.must := by
  unfold msMust; rw [show (19 : Nat) = 16 + 3 from rfl, enc_tail]; simp [byteAt]

theorem msMark_enc_little (k : KEntry) (h : k.mark < 2 ^ 32) : msMark .little (encodeGo .little k) = k.mark := by
  unfold msMark rd32
  rw [show (20 : Nat) = 16 + 4 from rfl, show (16 + 4 + 1 : Nat) = 16 + 5 from rfl,
    show (16 + 4 + 2 : Nat) = 16 + 6 from rfl, show (16 + 4 + 3 : Nat) = 16 + 7 from rfl]
  simp only [enc_tail]
  simp [byteAt, wr32, wr32le]; omega

theorem msMark_enc_big (k : KEntry) (h : k.mark < 2 ^ 32) : msMark .big (encodeGo .big k) = k.mark := by
  unfold msMark rd32
  rw [show (20 : Nat) = 16 + 4 from rfl, show (16 + 4 + 1 : Nat) = 16 + 5 from rfl,
    show (16 + 4 + 2 : Nat) = 16 + 6 from rfl, show (16 + 4 + 3 : Nat) = 16 + 7 from rfl]
  simp only [enc_tail]
  simp [byteAt, wr32]; omega

theorem rd32_head (e e' : Endian) (k : KEntry) : rd32 e (encodeGo e' k) 0 = rd32 e k.cond.value 0 := by
  unfold rd32; cases e <;> simp only [enc_head _ _ _ (by decide : 0 < 16), enc_head _ _ _ (by decide : 0 + 1 < 16),
    enc_head _ _ _ (by decide : 0 + 2 < 16), enc_head _ _ _ (by decide : 0 + 3 < 16)]

theorem rd16_head (e e' : Endian) (k : KEntry) (off : Nat) (h : off + 1 < 16) :
    rd16 e (encodeGo e' k) off = rd16 e k.cond.value off := by
  unfold rd16; cases e <;> simp only [enc_head _ _ _ (by omega : off < 16), enc_head _ _ _ h]

theorem msPname_enc (e : Endian) (k : KEntry) : msPname (encodeGo e k) = (List.range 16).map (byteAt k.cond.value) := by
  unfold msPname
  apply List.map_congr_left
  intro j hj
  exact enc_head e k j (List.mem_range.mp hj)

theorem range16_map_byteAt (l : List Nat) (h : l.length = 16) : (List.range 16).map (byteAt l) = l := by
  apply List.ext_getElem
  · simp [h]
  · intro i h1 h2
    simp [byteAt, List.getD_eq_getElem?_getD]
    have : i < l.length := by simpa using h2
    simp [List.getElem?_eq_getElem this]

/-! ## the `route_state` bit field -/

/-- the bit field holding (good_subrule, bad_rule, must, dns_query) -/
def mkS (g b mu dns : Bool) : Nat := bpfBool b + 2 * bpfBool g + 4 * bpfBool mu + 8 * bpfBool dns

theorem hasBit_good (g b mu dns : Bool) : hasBit (mkS g b mu dns) ST_GOOD = g := by
  cases g <;> cases b <;> cases mu <;> cases dns <;> rfl
theorem hasBit_bad (g b mu dns : Bool) : hasBit (mkS g b mu dns) ST_BAD = b := by
  cases g <;> cases b <;> cases mu <;> cases dns <;> rfl
theorem hasBit_must (g b mu dns : Bool) : hasBit (mkS g b mu dns) ST_MUST = mu := by
  cases g <;> cases b <;> cases mu <;> cases dns <;> rfl
theorem hasBit_dns (g b mu dns : Bool) : hasBit (mkS g b mu dns) ST_DNS = dns := by
  cases g <;> cases b <;> cases mu <;> cases dns <;> rfl
theorem or_good (g b mu dns : Bool) : mkS g b mu dns ||| ST_GOOD = mkS true b mu dns := by
  cases g <;> cases b <;> cases mu <;> cases dns <;> rfl
theorem or_bad (g b mu dns : Bool) : mkS g b mu dns ||| ST_BAD = mkS g true mu dns := by
  cases g <;> cases b <;> cases mu <;> cases dns <;> rfl
theorem or_must (g b mu dns : Bool) : mkS g b mu dns ||| ST_MUST = mkS g b true dns := by
  cases g <;> cases b <;> cases mu <;> cases dns <;> rfl
theorem clr_good (g b mu dns : Bool) : clrBit (mkS g b mu dns) ST_GOOD = mkS false b mu dns := by
  cases g <;> cases b <;> cases mu <;> cases dns <;> rfl
theorem clr_bad (g b mu dns : Bool) : clrBit (mkS g b mu dns) ST_BAD = mkS g false mu dns := by
  cases g <;> cases b <;> cases mu <;> cases dns <;> rfl
theorem skip_test (g b mu dns : Bool) :
    ((mkS g b mu dns &&& (ST_BAD ||| ST_GOOD)) == 0) = (!(b || g)) := by
  cases g <;> cases b <;> cases mu <;> cases dns <;> rfl

set_option maxRecDepth 100000 in
theorem mask_test : ∀ ob, ob < 256 → (((ob &&& OB_Mask) != OB_Mask) = (ob != OB_Or && ob != OB_And)) := by
  decide

end DaeVerif.C02
