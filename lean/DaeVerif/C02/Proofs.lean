import DaeVerif.C02.Model
import DaeVerif.C12.Props
import DaeVerif.C01.Proofs
/-! Helper lemmas for C02. -/
set_option linter.unusedSimpArgs false
namespace DaeVerif.C02
open DaeVerif.RuleScan DaeVerif.C12 DaeVerif.C01

/-! ## bytes -/

theorem byteAt_append_left (a b : List Nat) (i : Nat) (h : i < a.length) :
    byteAt (a ++ b) i = byteAt a i := by
  unfold byteAt; simp [List.getD_eq_getElem?_getD, List.getElem?_append_left h]

theorem byteAt_append_right (a b : List Nat) (i : Nat) (h : a.length ≤ i) :
    byteAt (a ++ b) i = byteAt b (i - a.length) := by
  unfold byteAt; simp [List.getD_eq_getElem?_getD, List.getElem?_append_right h]

theorem pad16_length (s : List Nat) : (pad16 s).length = 16 := by
  unfold pad16; simp only [List.length_append, List.length_replicate, List.length_take]; omega

theorem pad16_of_length (s : List Nat) (h : s.length = 16) : pad16 s = s := by
  unfold pad16
  have : List.take 16 s = s := List.take_of_length_le (by omega)
  rw [this, h]; simp

theorem value_length (c : KCond) : c.value.length = 16 := by
  cases c <;> simp [KCond.value, wr32le, wr16le, zeros, pad16_length]

theorem rd32_wr32le (v : Nat) (h : v < 2 ^ 32) (rest : List Nat) : rd32 .little (wr32le v ++ rest) 0 = v := by
  simp [rd32, wr32le, byteAt]; omega

theorem rd16_wr16le (v : Nat) (h : v < 65536) (rest : List Nat) : rd16 .little (wr16le v ++ rest) 0 = v := by
  simp [rd16, wr16le, byteAt]; omega

/-! ### reading the fields of an encoded match set back -/

theorem enc_tail (e : Endian) (k : KEntry) (j : Nat) :
    byteAt (encodeGo e k) (16 + j) = byteAt ([bpfBool k.not, k.cond.mtype, k.outbound % 256, bpfBool k.must] ++ wr32 e k.mark) j := by
  unfold encodeGo
  rw [byteAt_append_right _ _ _ (by rw [value_length]; omega), value_length]
  congr 1; omega

theorem enc_head (e : Endian) (k : KEntry) (j : Nat) (h : j < 16) :
    byteAt (encodeGo e k) j = byteAt k.cond.value j := by
  unfold encodeGo
  exact byteAt_append_left _ _ _ (by rw [value_length]; exact h)

theorem msNot_enc (e : Endian) (k : KEntry) : msNot (encodeGo e k) = bpfBool k.not := by
  unfold msNot; rw [show (16 : Nat) = 16 + 0 from rfl, enc_tail]; simp [byteAt]

theorem msType_enc (e : Endian) (k : KEntry) : msType (encodeGo e k) = k.cond.mtype := by
  unfold msType; rw [show (17 : Nat) = 16 + 1 from rfl, enc_tail]; simp [byteAt]

theorem msOutbound_enc (e : Endian) (k : KEntry) (h : k.outbound < 256) : msOutbound (encodeGo e k) = k.outbound := by
  unfold msOutbound; rw [show (18 : Nat) = 16 + 2 from rfl, enc_tail]; simp [byteAt]; omega

theorem msMust_enc (e : Endian) (k : KEntry) : msMust (encodeGo e k) = bpfBool k.must := by
  unfold msMust; rw [show (19 : Nat) = 16 + 3 from rfl, enc_tail]; simp [byteAt]

theorem msMark_enc_little (k : KEntry) (h : k.mark < 2 ^ 32) : msMark .little (encodeGo .little k) = k.mark := by
  unfold msMark rd32
  rw [show (20 : Nat) = 16 + 4 from rfl, show (16 + 4 + 1 : Nat) = 16 + 5 from rfl,
    show (16 + 4 + 2 : Nat) = 16 + 6 from rfl, show (16 + 4 + 3 : Nat) = 16 + 7 from rfl]
  simp only [enc_tail]
  simp [byteAt, wr32, wr32le]; omega

theorem msMark_enc_big (k : KEntry) (h : k.mark < 2 ^ 32) : msMark .big (encodeGo .big k) = k.mark := by
  unfold msMark rd32
  rw [show (20 : Nat) = 16 + 4 from rfl, show (16 + 4 + 1 : Nat) = 16 + 5 from rfl,
    show (16 + 4 + 2 : Nat) = 16 + 6 from rfl, show (16 + 4 + 3 : Nat) = 16 + 7 from rfl]
  simp only [enc_tail]
  simp [byteAt, wr32]; omega

theorem rd32_head (e e' : Endian) (k : KEntry) : rd32 e (encodeGo e' k) 0 = rd32 e k.cond.value 0 := by
  unfold rd32; cases e <;> simp only [enc_head _ _ _ (by decide : 0 < 16), enc_head _ _ _ (by decide : 0 + 1 < 16),
    enc_head _ _ _ (by decide : 0 + 2 < 16), enc_head _ _ _ (by decide : 0 + 3 < 16)]

theorem rd16_head (e e' : Endian) (k : KEntry) (off : Nat) (h : off + 1 < 16) :
    rd16 e (encodeGo e' k) off = rd16 e k.cond.value off := by
  unfold rd16; cases e <;> simp only [enc_head _ _ _ (by omega : off < 16), enc_head _ _ _ h]

theorem msPname_enc (e : Endian) (k : KEntry) : msPname (encodeGo e k) = (List.range 16).map (byteAt k.cond.value) := by
  unfold msPname
  apply List.map_congr_left
  intro j hj
  exact enc_head e k j (List.mem_range.mp hj)

theorem range16_map_byteAt (l : List Nat) (h : l.length = 16) : (List.range 16).map (byteAt l) = l := by
  apply List.ext_getElem
  · simp [h]
  · intro i h1 h2
    simp [byteAt, List.getD_eq_getElem?_getD]
    have : i < l.length := by simpa using h2
    simp [List.getElem?_eq_getElem this]

/-! ## the `route_state` bit field -/

/-- the bit field holding (good_subrule, bad_rule, must, dns_query) -/
def mkS (g b mu dns : Bool) : Nat := bpfBool b + 2 * bpfBool g + 4 * bpfBool mu + 8 * bpfBool dns

theorem hasBit_good (g b mu dns : Bool) : hasBit (mkS g b mu dns) ST_GOOD = g := by
  cases g <;> cases b <;> cases mu <;> cases dns <;> rfl
theorem hasBit_bad (g b mu dns : Bool) : hasBit (mkS g b mu dns) ST_BAD = b := by
  cases g <;> cases b <;> cases mu <;> cases dns <;> rfl
theorem hasBit_must (g b mu dns : Bool) : hasBit (mkS g b mu dns) ST_MUST = mu := by
  cases g <;> cases b <;> cases mu <;> cases dns <;> rfl
theorem hasBit_dns (g b mu dns : Bool) : hasBit (mkS g b mu dns) ST_DNS = dns := by
  cases g <;> cases b <;> cases mu <;> cases dns <;> rfl
theorem or_good (g b mu dns : Bool) : mkS g b mu dns ||| ST_GOOD = mkS true b mu dns := by
  cases g <;> cases b <;> cases mu <;> cases dns <;> rfl
theorem or_bad (g b mu dns : Bool) : mkS g b mu dns ||| ST_BAD = mkS g true mu dns := by
  cases g <;> cases b <;> cases mu <;> cases dns <;> rfl
theorem or_must (g b mu dns : Bool) : mkS g b mu dns ||| ST_MUST = mkS g b true dns := by
  cases g <;> cases b <;> cases mu <;> cases dns <;> rfl
theorem clr_good (g b mu dns : Bool) : clrBit (mkS g b mu dns) ST_GOOD = mkS false b mu dns := by
  cases g <;> cases b <;> cases mu <;> cases dns <;> rfl
theorem clr_bad (g b mu dns : Bool) : clrBit (mkS g b mu dns) ST_BAD = mkS g false mu dns := by
  cases g <;> cases b <;> cases mu <;> cases dns <;> rfl
theorem skip_test (g b mu dns : Bool) :
    ((mkS g b mu dns &&& (ST_BAD ||| ST_GOOD)) == 0) = (!(b || g)) := by
  cases g <;> cases b <;> cases mu <;> cases dns <;> rfl

set_option maxRecDepth 100000 in
theorem mask_test : ∀ ob, ob < 256 → (((ob &&& OB_Mask) != OB_Mask) = (ob != OB_Or && ob != OB_And)) := by
  decide


/-! ## `route_finalize_match` -/


theorem bpfBool_ne_zero (x : Bool) : (bpfBool x != 0) = x := by cases x <;> rfl

theorem finalize_spec (k : KEntry) (hob : k.outbound < 256) (hmark : k.mark < 2 ^ 32)
    (g b mu dns : Bool) (r : Int) (di db : Nat) (dc : Bool) :
    finalizeMatch .little ⟨mkS g b mu dns, r, di, db, dc⟩ (encodeGo .little k) =
      match tailOf k with
      | .or => (⟨mkS g b mu dns, r, di, db, dc⟩, false)
      | .and => (⟨mkS false (b || (g == k.not)) mu dns, r, di, db, dc⟩, false)
      | .mustRules =>
        if b || (g == k.not) then (⟨mkS false false mu dns, r, di, db, dc⟩, false)
        else (⟨mkS false false true dns, r, di, db, dc⟩, false)
      | .final _ =>
        if b || (g == k.not) then (⟨mkS false false mu dns, r, di, db, dc⟩, false)
        else (⟨mkS false false mu dns,
          pack (if dns && !(mu || k.must) then OB_ControlPlane else k.outbound) k.mark (mu || k.must), di, db, dc⟩, true) := by
  unfold finalizeMatch tailOf
  simp only [msOutbound_enc _ _ hob, msNot_enc, msMust_enc, msMark_enc_little _ hmark, bpfBool_ne_zero,
    mask_test _ hob]
  by_cases h1 : k.outbound = OB_Or
  · simp [h1, OB_Or, OB_And]
  · by_cases h2 : k.outbound = OB_And
    · simp [h2, OB_Or, OB_And, hasBit_good, or_bad, clr_good]
      cases g <;> cases b <;> cases k.not <;> simp [or_bad, clr_good]
    · by_cases h3 : k.outbound = OB_MustRules
      · simp [h3, OB_Or, OB_And, OB_MustRules, hasBit_good, hasBit_bad, or_bad, clr_good]
        cases g <;> cases b <;> cases k.not <;> simp [or_bad, clr_good, hasBit_bad, or_must, clr_bad]
      · simp [h1, h2, h3, hasBit_good]
        cases g <;> cases b <;> cases k.not <;>
          simp [or_bad, clr_good, hasBit_bad, hasBit_must, hasBit_dns, clr_bad] <;>
          cases mu <;> cases k.must <;> cases dns <;> simp

/-! ## `route_eval_match` -/


def KCond.WF (ntries : Nat) : KCond → Prop
  | .ipSet i => i < ntries
  | .srcIpSet i => i < ntries
  | .macSet i => i < ntries
  | .port lo hi => lo < 65536 ∧ hi < 65536
  | .srcPort lo hi => lo < 65536 ∧ hi < 65536
  | .l4Proto m => m < 256
  | .ipVersion m => m < 256
  | .processName bs => bs.length = 16
  | .dscp v => v < 256
  | _ => True

structure EntryOK (ntries : Nat) (k : KEntry) : Prop where
  cond : k.cond.WF ntries
  ob : k.outbound < 256
  mark : k.mark < 2 ^ 32

structure Hyp (m : KMaps) (pk : PktK) (start : Nat) (tries : List (List Prefix)) (ubm : List Nat) : Prop where
  lpm : ∀ idx (h : idx < tries.length), ∃ keys, m.lpmAt (ringSlot start idx) = some keys ∧
    ∀ a, lpmLookup keys a = lpmLookup (tries[idx].map cidrToKey) a
  triesWF : ∀ t ∈ tries, ∀ p ∈ t, p.WF
  saddr : pk.saddr < 2 ^ 128
  daddr : pk.daddr < 2 ^ 128
  mac : pk.mac < 2 ^ 128
  l4 : pk.l4w < 256
  ipv : pk.ipw < 256
  dscp : pk.dscpw < 256
  lanNoPname : pk.wanw % 256 = 0 → pk.pname.headD 0 = 0
  dom : ∀ w, m.domainWord pk.daddr w = ubm.getD w 0

def bitmapBitW (bm : List Nat) (w s : Nat) : Bool := decide (w < bm.length) && ((bm.getD w 0 >>> s) &&& 1 > 0)

theorem set_good_if (P : Prop) [Decidable P] (mu dns : Bool) (r : Int) (di db : Nat) (dc : Bool) :
    (if P then ({ (⟨mkS false false mu dns, r, di, db, dc⟩ : RCtx) with state := mkS false false mu dns ||| ST_GOOD })
      else ⟨mkS false false mu dns, r, di, db, dc⟩) = ⟨mkS (decide P) false mu dns, r, di, db, dc⟩ := by
  by_cases h : P <;> simp [h, or_good]

theorem ringSlot_lt (s i : Nat) : ringSlot s i < 2 ^ 32 := by unfold ringSlot MaxMatchSetLen; omega

theorem lpm_case (m : KMaps) (pk : PktK) (start : Nat) (tries : List (List Prefix)) (ubm : List Nat)
    (H : Hyp m pk start tries ubm) (idx : Nat) (hidx : idx < tries.length) (probe : Nat) (hp : probe < 2 ^ 128)
    (ms : List Nat) (hms : msIndex .little ms = ringSlot start idx)
    (mu dns : Bool) (r : Int) (di db : Nat) (dc : Bool) :
    matchLpm .little m ⟨mkS false false mu dns, r, di, db, dc⟩ ms probe =
      (⟨mkS (trieMatch tries[idx] probe) false mu dns, r, di, db, dc⟩, false) := by
  unfold matchLpm
  obtain ⟨keys, hkeys, heq⟩ := H.lpm idx hidx
  rw [hms, hkeys]
  simp only
  rw [heq probe, Props.kernel_userspace_same_set _ _ (H.triesWF _ (List.getElem_mem hidx)) hp]
  rw [set_good_if]; simp

theorem eval_spec (m : KMaps) (pk : PktK) (start : Nat) (tries : List (List Prefix)) (ubm : List Nat)
    (H : Hyp m pk start tries ubm) (k : KEntry) (hk : EntryOK tries.length k) (i : Nat) (hi : i < MaxMatchSetLen)
    (mu dns : Bool) (r : Int) (di db : Nat) (dc : Bool) (hc : dc = true → db = m.domainWord pk.daddr di) :
    ∃ di' db' dc', (dc' = true → db' = m.domainWord pk.daddr di') ∧
      evalMatch .little m pk ⟨mkS false false mu dns, r, di, db, dc⟩ (encodeGo .little (k.rewrite start)) i =
        (⟨mkS (evalU tries ubm pk (i, k.cond)) false mu dns, r, di', db', dc'⟩, false) := by
  obtain ⟨cond, nt, ob, must, mark⟩ := k
  have hcw := hk.cond
  cases cond with
  | ipSet idx =>
    refine ⟨di, db, dc, hc, ?_⟩
    simp only [KCond.WF] at hcw
    unfold evalMatch
    simp only [msType_enc, KEntry.rewrite, KCond.rewrite, KCond.mtype, MT_Mac, MT_IpSet, MT_SourceIpSet]
    simp only [show ((1:Nat) = 7 ∨ (1:Nat) = 1 ∨ (1:Nat) = 2) = True from by simp, if_true,
      show ((1:Nat) = 7) = False from by simp, if_false]
    rw [lpm_case m pk start tries ubm H idx hcw pk.daddr H.daddr _ (by
      unfold msIndex; rw [rd32_head]; exact rd32_wr32le _ (ringSlot_lt _ _) _)]
    simp [evalU, List.getElem?_eq_getElem hcw]
  | srcIpSet idx =>
    refine ⟨di, db, dc, hc, ?_⟩
    simp only [KCond.WF] at hcw
    unfold evalMatch
    simp only [msType_enc, KEntry.rewrite, KCond.rewrite, KCond.mtype, MT_Mac, MT_IpSet, MT_SourceIpSet]
    simp only [show ((2:Nat) = 7 ∨ (2:Nat) = 1 ∨ (2:Nat) = 2) = True from by simp, if_true,
      show ((2:Nat) = 7) = False from by simp, show ((2:Nat) = 1) = False from by simp, if_false]
    rw [lpm_case m pk start tries ubm H idx hcw pk.saddr H.saddr _ (by
      unfold msIndex; rw [rd32_head]; exact rd32_wr32le _ (ringSlot_lt _ _) _)]
    simp [evalU, List.getElem?_eq_getElem hcw]
  | macSet idx =>
    refine ⟨di, db, dc, hc, ?_⟩
    simp only [KCond.WF] at hcw
    unfold evalMatch
    simp only [msType_enc, KEntry.rewrite, KCond.rewrite, KCond.mtype, MT_Mac, MT_IpSet, MT_SourceIpSet]
    simp only [show ((7:Nat) = 7 ∨ (7:Nat) = 1 ∨ (7:Nat) = 2) = True from by simp, if_true]
    rw [lpm_case m pk start tries ubm H idx hcw pk.mac H.mac _ (by
      unfold msIndex; rw [rd32_head]; exact rd32_wr32le _ (ringSlot_lt _ _) _)]
    simp [evalU, List.getElem?_eq_getElem hcw]
  | port lo hi =>
    refine ⟨di, db, dc, hc, ?_⟩
    simp only [KCond.WF] at hcw
    unfold evalMatch
    simp only [msType_enc, KEntry.rewrite, KCond.rewrite, KCond.mtype, MT_Mac, MT_IpSet, MT_SourceIpSet, MT_Port, MT_SourcePort]
    simp only [show ((3:Nat) = 7 ∨ (3:Nat) = 1 ∨ (3:Nat) = 2) = False from by simp, if_false,
      show ((3:Nat) = 3 ∨ (3:Nat) = 4) = True from by simp, if_true]
    have h1 : msPortStart .little (encodeGo .little ⟨.port lo hi, nt, ob, must, mark⟩) = lo := by
      unfold msPortStart; rw [rd16_head _ _ _ _ (by decide)]
      simp [rd16, KCond.value, wr16le, byteAt]; omega
    have h2 : msPortEnd .little (encodeGo .little ⟨.port lo hi, nt, ob, must, mark⟩) = hi := by
      unfold msPortEnd; rw [rd16_head _ _ _ _ (by decide)]
      simp [rd16, KCond.value, wr16le, byteAt]; omega
    rw [h1, h2, set_good_if]; simp [evalU]
  | srcPort lo hi =>
    refine ⟨di, db, dc, hc, ?_⟩
    simp only [KCond.WF] at hcw
    unfold evalMatch
    simp only [msType_enc, KEntry.rewrite, KCond.rewrite, KCond.mtype, MT_Mac, MT_IpSet, MT_SourceIpSet, MT_Port, MT_SourcePort]
    simp only [show ((4:Nat) = 7 ∨ (4:Nat) = 1 ∨ (4:Nat) = 2) = False from by simp, if_false,
      show ((4:Nat) = 3 ∨ (4:Nat) = 4) = True from by simp, if_true, show ((4:Nat) = 3) = False from by simp]
    have h1 : msPortStart .little (encodeGo .little ⟨.srcPort lo hi, nt, ob, must, mark⟩) = lo := by
      unfold msPortStart; rw [rd16_head _ _ _ _ (by decide)]
      simp [rd16, KCond.value, wr16le, byteAt]; omega
    have h2 : msPortEnd .little (encodeGo .little ⟨.srcPort lo hi, nt, ob, must, mark⟩) = hi := by
      unfold msPortEnd; rw [rd16_head _ _ _ _ (by decide)]
      simp [rd16, KCond.value, wr16le, byteAt]; omega
    rw [h1, h2, set_good_if]; simp [evalU]
  | l4Proto mk =>
    refine ⟨di, db, dc, hc, ?_⟩
    simp only [KCond.WF] at hcw
    unfold evalMatch
    simp only [msType_enc, KEntry.rewrite, KCond.rewrite, KCond.mtype, MT_Mac, MT_IpSet, MT_SourceIpSet, MT_Port, MT_SourcePort,
      MT_L4Proto, MT_IpVersion]
    simp only [show ((5:Nat) = 7 ∨ (5:Nat) = 1 ∨ (5:Nat) = 2) = False from by simp, if_false,
      show ((5:Nat) = 3 ∨ (5:Nat) = 4) = False from by simp, show ((5:Nat) = 5 ∨ (5:Nat) = 6) = True from by simp, if_true]
    have h1 : msEnum32 .little (encodeGo .little ⟨.l4Proto mk, nt, ob, must, mark⟩) % 256 = mk := by
      unfold msEnum32; rw [rd32_head]
      simp [rd32, KCond.value, zeros, byteAt]; omega
    rw [h1, Nat.mod_eq_of_lt H.l4, set_good_if]
    simp [evalU, Nat.pos_iff_ne_zero]
  | ipVersion mk =>
    refine ⟨di, db, dc, hc, ?_⟩
    simp only [KCond.WF] at hcw
    unfold evalMatch
    simp only [msType_enc, KEntry.rewrite, KCond.rewrite, KCond.mtype, MT_Mac, MT_IpSet, MT_SourceIpSet, MT_Port, MT_SourcePort,
      MT_L4Proto, MT_IpVersion]
    simp only [show ((6:Nat) = 7 ∨ (6:Nat) = 1 ∨ (6:Nat) = 2) = False from by simp, if_false,
      show ((6:Nat) = 3 ∨ (6:Nat) = 4) = False from by simp, show ((6:Nat) = 5 ∨ (6:Nat) = 6) = True from by simp, if_true,
      show ((6:Nat) = 5) = False from by simp]
    have h1 : msEnum32 .little (encodeGo .little ⟨.ipVersion mk, nt, ob, must, mark⟩) % 256 = mk := by
      unfold msEnum32; rw [rd32_head]
      simp [rd32, KCond.value, zeros, byteAt]; omega
    rw [h1, Nat.mod_eq_of_lt H.ipv, set_good_if]
    simp [evalU, Nat.pos_iff_ne_zero]
  | processName bs =>
    refine ⟨di, db, dc, hc, ?_⟩
    simp only [KCond.WF] at hcw
    unfold evalMatch
    simp only [msType_enc, KEntry.rewrite, KCond.rewrite, KCond.mtype, MT_Mac, MT_IpSet, MT_SourceIpSet, MT_Port, MT_SourcePort,
      MT_L4Proto, MT_IpVersion, MT_DomainSet, MT_ProcessName]
    simp only [show ((8:Nat) = 7 ∨ (8:Nat) = 1 ∨ (8:Nat) = 2) = False from by simp, if_false,
      show ((8:Nat) = 3 ∨ (8:Nat) = 4) = False from by simp, show ((8:Nat) = 5 ∨ (8:Nat) = 6) = False from by simp,
      show ((8:Nat) = 0) = False from by simp, if_true]
    have h1 : msPname (encodeGo .little ⟨.processName bs, nt, ob, must, mark⟩) = bs := by
      rw [msPname_enc]; simp only [KCond.value]; rw [pad16_of_length bs hcw]; exact range16_map_byteAt bs hcw
    simp only [h1]
    rw [set_good_if]
    have key : (pk.wanw % 256 != 0 && pk.pname.headD 0 != 0 && bs == pk.pname) = (pk.pname.headD 0 != 0 && bs == pk.pname) := by
      by_cases hw : pk.wanw % 256 = 0
      · rw [hw, H.lanNoPname hw]; rfl
      · have e0 : (pk.wanw % 256 != 0) = true := by rw [bne_iff_ne]; exact hw
        rw [e0, Bool.true_and]
    simp only [evalU, Bool.decide_eq_true]
    rw [key]
  | dscp v =>
    refine ⟨di, db, dc, hc, ?_⟩
    simp only [KCond.WF] at hcw
    unfold evalMatch
    simp only [msType_enc, KEntry.rewrite, KCond.rewrite, KCond.mtype, MT_Mac, MT_IpSet, MT_SourceIpSet, MT_Port, MT_SourcePort,
      MT_L4Proto, MT_IpVersion, MT_DomainSet, MT_ProcessName, MT_Dscp]
    simp only [show ((9:Nat) = 7 ∨ (9:Nat) = 1 ∨ (9:Nat) = 2) = False from by simp, if_false,
      show ((9:Nat) = 3 ∨ (9:Nat) = 4) = False from by simp, show ((9:Nat) = 5 ∨ (9:Nat) = 6) = False from by simp,
      show ((9:Nat) = 0) = False from by simp, show ((9:Nat) = 8) = False from by simp, if_true]
    have h1 : msDscp (encodeGo .little ⟨.dscp v, nt, ob, must, mark⟩) = v := by
      unfold msDscp; rw [enc_head _ _ _ (by decide)]; simp [KCond.value, byteAt]; omega
    simp only [h1, Nat.mod_eq_of_lt H.dscp]
    rw [set_good_if]; simp only [evalU, Bool.decide_eq_true]
  | fallback =>
    refine ⟨di, db, dc, hc, ?_⟩
    unfold evalMatch
    simp only [msType_enc, KEntry.rewrite, KCond.rewrite, KCond.mtype, MT_Mac, MT_IpSet, MT_SourceIpSet, MT_Port, MT_SourcePort,
      MT_L4Proto, MT_IpVersion, MT_DomainSet, MT_ProcessName, MT_Dscp, MT_Fallback]
    simp only [show ((10:Nat) = 7 ∨ (10:Nat) = 1 ∨ (10:Nat) = 2) = False from by simp, if_false,
      show ((10:Nat) = 3 ∨ (10:Nat) = 4) = False from by simp, show ((10:Nat) = 5 ∨ (10:Nat) = 6) = False from by simp,
      show ((10:Nat) = 0) = False from by simp, show ((10:Nat) = 8) = False from by simp, show ((10:Nat) = 9) = False from by simp, if_true]
    simp [evalU, or_good]
  | domainSet =>
    unfold evalMatch
    simp only [msType_enc, KEntry.rewrite, KCond.rewrite, KCond.mtype, MT_Mac, MT_IpSet, MT_SourceIpSet, MT_Port, MT_SourcePort,
      MT_L4Proto, MT_IpVersion, MT_DomainSet]
    simp only [show ((0:Nat) = 7 ∨ (0:Nat) = 1 ∨ (0:Nat) = 2) = False from by simp, if_false,
      show ((0:Nat) = 3 ∨ (0:Nat) = 4) = False from by simp, show ((0:Nat) = 5 ∨ (0:Nat) = 6) = False from by simp, if_true]
    unfold matchDomainSet
    have hw : ¬ (i / 32 ≥ MaxMatchSetLen / 32) := by unfold MaxMatchSetLen at *; omega
    simp only [hw, if_false]
    have hbit : ∀ w s, ((ubm.getD w 0 >>> s) &&& 1 != 0) = bitmapBitW ubm w s := by
      intro w s
      unfold bitmapBitW
      by_cases hl : w < ubm.length
      · rw [show decide (w < ubm.length) = true from decide_eq_true hl, Bool.true_and]
        generalize ((ubm.getD w 0 >>> s) &&& 1) = x
        by_cases hx : x = 0
        · subst hx; rfl
        · have : x > 0 := Nat.pos_of_ne_zero hx
          simp [hx, this]
      · have h0 : ubm.getD w 0 = 0 := by
          rw [List.getD_eq_getElem?_getD, List.getElem?_eq_none (by omega : ubm.length ≤ w)]; rfl
        rw [h0, show decide (w < ubm.length) = false from decide_eq_false hl]; simp
    by_cases hcase : (!dc || di != i / 32) = true
    · refine ⟨i / 32, m.domainWord pk.daddr (i / 32), true, fun _ => rfl, ?_⟩
      simp only [hcase, if_true]
      rw [H.dom, hbit]
      rw [set_good_if]; simp [evalU, bitmapBit, bitmapBitW]
    · refine ⟨di, db, dc, hc, ?_⟩
      simp only [hcase]
      have hdc : dc = true := by cases dc <;> simp_all
      have hdi : di = i / 32 := by
        cases dc <;> simp_all
      simp only [Bool.false_eq_true, if_false]
      rw [hc hdc, hdi, H.dom, hbit]
      rw [set_good_if]; simp [evalU, bitmapBit, bitmapBitW]


/-! ## `route_loop_cb` and the loop -/


theorem rewrite_tail (s : Nat) (k : KEntry) : tailOf (k.rewrite s) = tailOf k := rfl

theorem routingAt_some (m : KMaps) (i : Nat) (x : List Nat) (h : m.routingAt i = some x) : i < MaxMatchSetLen := by
  unfold KMaps.routingAt at h; by_cases hi : i < MaxMatchSetLen
  · exact hi
  · simp [hi] at h

theorem loopCb_spec (m : KMaps) (pk : PktK) (start : Nat) (tries : List (List Prefix)) (ubm : List Nat)
    (H : Hyp m pk start tries ubm) (k : KEntry) (hk : EntryOK tries.length k) (i : Nat)
    (hr : m.routingAt i = some (encodeGo .little (k.rewrite start)))
    (g b mu dns : Bool) (r : Int) (di db : Nat) (dc : Bool) (hc : dc = true → db = m.domainWord pk.daddr di) :
    ∃ di' db' dc', (dc' = true → db' = m.domainWord pk.daddr di') ∧
      loopCb .little m pk ⟨mkS g b mu dns, r, di, db, dc⟩ i =
        match tailOf k with
        | .or => (⟨mkS (if b || g then g else evalU tries ubm pk (i, k.cond)) b mu dns, r, di', db', dc'⟩, false)
        | .and => (⟨mkS false (b || ((if b || g then g else evalU tries ubm pk (i, k.cond)) == k.not)) mu dns, r, di', db', dc'⟩, false)
        | .mustRules =>
          if b || ((if b || g then g else evalU tries ubm pk (i, k.cond)) == k.not) then (⟨mkS false false mu dns, r, di', db', dc'⟩, false)
          else (⟨mkS false false true dns, r, di', db', dc'⟩, false)
        | .final _ =>
          if b || ((if b || g then g else evalU tries ubm pk (i, k.cond)) == k.not) then (⟨mkS false false mu dns, r, di', db', dc'⟩, false)
          else (⟨mkS false false mu dns,
            pack (if dns && !(mu || k.must) then OB_ControlPlane else k.outbound) k.mark (mu || k.must), di', db', dc'⟩, true) := by
  have hi := routingAt_some m i _ hr
  have hob : (k.rewrite start).outbound < 256 := hk.ob
  have hmk : (k.rewrite start).mark < 2 ^ 32 := hk.mark
  unfold loopCb
  simp only [show ¬ (i ≥ MaxMatchSetLen) from by omega, if_false, hr, skip_test]
  by_cases hbg : (b || g) = true
  · refine ⟨di, db, dc, hc, ?_⟩
    simp only [hbg, Bool.not_true, Bool.false_eq_true, if_false, if_true]
    rw [finalize_spec _ hob hmk, rewrite_tail]
    rfl
  · have hbg' : (b || g) = false := by simpa using hbg
    have hb : b = false := by cases b <;> simp_all
    have hg : g = false := by cases g <;> simp_all
    subst hb; subst hg
    obtain ⟨di', db', dc', hc', he⟩ := eval_spec m pk start tries ubm H k hk i hi mu dns r di db dc hc
    refine ⟨di', db', dc', hc', ?_⟩
    simp only [Bool.or_self, Bool.not_false, if_true, he, Bool.false_eq_true, if_false]
    rw [finalize_spec _ hob hmk, rewrite_tail]
    rfl

theorem tailOf_final (k : KEntry) (o : Out) (h : tailOf k = .final o) : o = ⟨k.outbound, k.mark, k.must⟩ := by
  unfold tailOf at h
  split at h
  · cases h
  · split at h
    · cases h
    · split at h
      · cases h
      · cases h; rfl

theorem loop_spec (m : KMaps) (pk : PktK) (start : Nat) (tries : List (List Prefix)) (ubm : List Nat)
    (H : Hyp m pk start tries ubm) (dns : Bool) :
    ∀ (ks : List KEntry) (i : Nat) (g b mu : Bool) (di db : Nat) (dc : Bool),
      (∀ j (h : j < ks.length), m.routingAt (i + j) = some (encodeGo .little ((ks[j]).rewrite start))) →
      (∀ k ∈ ks, EntryOK tries.length k) →
      (dc = true → db = m.domainWord pk.daddr di) →
      (bpfLoop (loopCb .little m pk) ks.length i ⟨mkS g b mu dns, -ENOEXEC, di, db, dc⟩).result =
        match scanAux (evalU tries ubm pk) (toEntriesFrom i ks) g b mu with
        | some (o, mu') => pack (if dns && !(o.must || mu') then OB_ControlPlane else o.outbound) o.mark (o.must || mu')
        | none => -ENOEXEC := by
  intro ks
  induction ks with
  | nil => intro i g b mu di db dc _ _ _; rfl
  | cons k ks ih =>
    intro i g b mu di db dc hr hk hc
    have hr0 : m.routingAt i = some (encodeGo .little (k.rewrite start)) := by
      have := hr 0 (Nat.zero_lt_succ _); simpa using this
    have hrs : ∀ j (h : j < ks.length), m.routingAt (i + 1 + j) = some (encodeGo .little ((ks[j]).rewrite start)) := by
      intro j hj
      have := hr (j + 1) (by simp; omega)
      simpa [Nat.add_assoc, Nat.add_comm 1 j] using this
    have hk0 := hk k (List.mem_cons_self)
    have hks : ∀ k' ∈ ks, EntryOK tries.length k' := fun k' h => hk k' (List.mem_cons_of_mem _ h)
    obtain ⟨di', db', dc', hc', he⟩ := loopCb_spec m pk start tries ubm H k hk0 i hr0 g b mu dns (-ENOEXEC) di db dc hc
    simp only [List.length_cons, bpfLoop, he, toEntriesFrom, scanAux]
    generalize (if (b || g) = true then g else evalU tries ubm pk (i, k.cond)) = g'
    cases ht : tailOf k with
    | or => simp only [Bool.false_eq_true, if_false]; exact ih (i + 1) _ _ _ _ _ _ hrs hks hc'
    | and => simp only [Bool.false_eq_true, if_false]; exact ih (i + 1) _ _ _ _ _ _ hrs hks hc'
    | mustRules =>
      by_cases hcond : (b || (g' == k.not)) = true
      · simp only [hcond, if_true, Bool.false_eq_true, if_false]; exact ih (i + 1) _ _ _ _ _ _ hrs hks hc'
      · simp only [hcond, if_false, Bool.false_eq_true]; exact ih (i + 1) _ _ _ _ _ _ hrs hks hc'
    | final o =>
      have ho := tailOf_final k o ht
      by_cases hcond : (b || (g' == k.not)) = true
      · simp only [hcond, if_true, Bool.false_eq_true, if_false]; exact ih (i + 1) _ _ _ _ _ _ hrs hks hc'
      · subst ho
        simp only [hcond, Bool.false_eq_true, if_false, if_true, Bool.or_comm mu k.must]


/-! ## `route()` on an installed generation -/


/-- Exact form: every rule image IS the Go encoders' image (what `installGen` produces). -/
structure InstalledExact (m : KMaps) (start : Nat) (kp : List KEntry) (tries : List (List Prefix)) : Prop where
  len : m.activeLen = kp.length
  bound : kp.length ≤ MaxMatchSetLen
  rules : ∀ i (h : i < kp.length), m.routing[i]? = some (encodeGo .little (kp[i].rewrite start))
  lpm : ∀ idx (h : idx < tries.length), ∃ keys, m.lpmAt (ringSlot start idx) = some keys ∧
    ∀ a, lpmLookup keys a = lpmLookup (tries[idx].map cidrToKey) a

/-- Ranges of the packet fields (`route()`'s callers pass u8-sized words, 16-byte arrays). -/
structure PktOK (pk : PktK) : Prop where
  saddr : pk.saddr < 2 ^ 128
  daddr : pk.daddr < 2 ^ 128
  mac : pk.mac < 2 ^ 128
  l4 : pk.l4w < 256
  ipv : pk.ipw < 256
  dscp : pk.dscpw < 256
  /-- the LAN hook passes `flag[2..5] = 0` (no process name) -/
  lanNoPname : pk.wanw % 256 = 0 → pk.pname.headD 0 = 0

theorem c0_eq (pk : PktK) : (if isDnsQuery pk then ST_DNS else 0) = mkS false false false (isDnsQuery pk) := by
  cases isDnsQuery pk <;> rfl

theorem pack_nonneg (a b : Nat) (c : Bool) : pack a b c ≥ 0 := by
  unfold pack; exact Int.natCast_nonneg _

theorem routeK_main_exact (m : KMaps) (pk : PktK) (start : Nat) (kp : List KEntry) (tries : List (List Prefix))
    (ubm : List Nat) (hI : InstalledExact m start kp tries) (hT : ∀ t ∈ tries, ∀ p ∈ t, p.WF) (hP : PktOK pk)
    (hD : ∀ w, m.domainWord pk.daddr w = ubm.getD w 0) (hK : ∀ k ∈ kp, EntryOK tries.length k) :
    routeK .little m pk = expectedK pk (matchU kp tries ubm pk) := by
  have H : Hyp m pk start tries ubm := ⟨hI.lpm, hT, hP.saddr, hP.daddr, hP.mac, hP.l4, hP.ipv, hP.dscp, hP.lanNoPname, hD⟩
  have hr : ∀ j (h : j < kp.length), m.routingAt (0 + j) = some (encodeGo .little ((kp[j]).rewrite start)) := by
    intro j hj
    have hb := hI.bound
    unfold KMaps.routingAt
    rw [Nat.zero_add, if_pos (by omega)]
    have := hI.rules j hj
    simp [List.getD_eq_getElem?_getD, this]
  have hl := loop_spec m pk start tries ubm H (isDnsQuery pk) kp 0 false false false 0 0 false hr hK (by simp)
  unfold routeK
  simp only [hI.len, hI.bound, if_true, c0_eq]
  unfold matchU
  cases hs : scanAux (evalU tries ubm pk) (toEntriesFrom 0 kp) false false false with
  | none =>
    rw [hs] at hl
    simp only at hl
    simp only [hl, Option.map_none, expectedK]
    simp [ENOEXEC, EPERM]
  | some x =>
    obtain ⟨o, mu'⟩ := x
    rw [hs] at hl
    simp only at hl
    simp only [hl, Option.map_some, expectedK, dnsAdjust]
    rw [if_pos (pack_nonneg _ _ _)]
    cases hd : (isDnsQuery pk && !(o.must || mu')) <;> simp [hd]


/-! ## one reload on top of any previous map contents -/


theorem lookup_append_of_mem {β : Type} (l old : List (Nat × β)) (k : Nat) (v : β)
    (hmem : (k, v) ∈ l) (huniq : ∀ v', (k, v') ∈ l → v' = v) : (l ++ old).lookup k = some v := by
  induction l with
  | nil => cases hmem
  | cons a l ih =>
    obtain ⟨k', v'⟩ := a
    by_cases hk : k = k'
    · subst hk
      have := huniq v' List.mem_cons_self
      simp [List.lookup_cons, this]
    · have hne : (k == k') = false := by simpa using hk
      simp only [List.cons_append, List.lookup_cons, hne]
      apply ih
      · cases hmem with
        | head => exact absurd rfl hk
        | tail _ h => exact h
      · intro v'' h; exact huniq v'' (List.mem_cons_of_mem _ h)

theorem mem_lpmEntries (start : Nat) : ∀ (ts : List (List Prefix)) (i0 s : Nat) (ks : List LpmKey),
    (s, ks) ∈ lpmEntries start i0 ts ↔ ∃ j, ∃ h : j < ts.length, s = ringSlot start (i0 + j) ∧ ks = ts[j].map cidrToKey := by
  intro ts
  induction ts with
  | nil => intro i0 s ks; simp [lpmEntries]
  | cons t ts ih =>
    intro i0 s ks
    simp only [lpmEntries, List.mem_cons, Prod.mk.injEq, ih]
    constructor
    · rintro (⟨rfl, rfl⟩ | ⟨j, hj, rfl, rfl⟩)
      · exact ⟨0, by simp, by simp, by simp⟩
      · exact ⟨j + 1, by simp; omega, by simp [Nat.add_assoc, Nat.add_comm 1 j], by simp⟩
    · rintro ⟨j, hj, rfl, rfl⟩
      cases j with
      | zero => left; simp
      | succ j =>
        right
        exact ⟨j, by simpa using hj, by simp [Nat.add_assoc, Nat.add_comm 1 j], by simp⟩

theorem ringSlot_inj (start a b : Nat) (ha : a < MaxMatchSetLen) (hb : b < MaxMatchSetLen)
    (h : ringSlot start a = ringSlot start b) : a = b := by
  unfold ringSlot MaxMatchSetLen at *; omega

theorem installGen_exact (start : Nat) (kp : List KEntry) (tries : List (List Prefix)) (m0 : KMaps)
    (hk : kp.length ≤ MaxMatchSetLen) (ht : tries.length ≤ MaxMatchSetLen) :
    InstalledExact (installGen .little start kp tries m0) start kp tries := by
  refine ⟨rfl, hk, ?_, ?_⟩
  · intro i hi
    simp only [installGen, overwritePrefix]
    rw [List.getElem?_append_left (by simpa using hi)]
    simp [hi]
  · intro idx hidx
    refine ⟨tries[idx].map cidrToKey, ?_, fun _ => rfl⟩
    simp only [installGen, KMaps.lpmAt]
    rw [if_pos (by unfold ringSlot MaxLpmNum MaxMatchSetLen; omega)]
    apply lookup_append_of_mem
    · rw [List.mem_reverse, mem_lpmEntries]
      exact ⟨idx, hidx, by simp, rfl⟩
    · intro v' hv'
      rw [List.mem_reverse, mem_lpmEntries] at hv'
      obtain ⟨j, hj, hs, rfl⟩ := hv'
      simp only [Nat.zero_add] at hs
      have := ringSlot_inj start idx j (by omega) (by omega) hs
      subst this; rfl


/-! ## the typed array the builder emits for C01's compiled program -/


/-- a final outbound is not one of the three sentinels the loop gives a logical role to -/
def outOK (e : Entry MCond Out) : Bool :=
  match e.tail with
  | .final o => o.outbound != OB_Or && o.outbound != OB_And && o.outbound != OB_MustRules
  | _ => true
abbrev OutOK (e : Entry MCond Out) : Prop := outOK e = true

/-- position bookkeeping of the domain bitmap: bit `pos` of `MatchDomainBitmap(domain)` is the truth
of the key group that the match set at position `pos` stands for (C01 `Position`, C11). -/
def domOK (ubm : List Nat) (p : C01.Pkt) : Nat → List (Entry MCond Out) → Bool
  | _, [] => true
  | pos, e :: es =>
    (match e.cond with
     | .domainSet j => bitmapBit ubm pos == p.dom.getD j false
     | _ => true) && domOK ubm p (pos + 1) es
abbrev DomOK (ubm : List Nat) (p : C01.Pkt) (pos : Nat) (es : List (Entry MCond Out)) : Prop := domOK ubm p pos es = true

theorem scan_head_congr {κ κ' : Type} (ev : κ → Bool) (ev' : κ' → Bool) (c : κ) (c' : κ') (neg : Bool)
    (tail : Tail Out) (rest : List (Entry κ Out)) (rest' : List (Entry κ' Out)) (h1 : ev c = ev' c')
    (h2 : ∀ g b mu, scanAux ev rest g b mu = scanAux ev' rest' g b mu) (g b mu : Bool) :
    scanAux ev (⟨c, neg, tail⟩ :: rest) g b mu = scanAux ev' (⟨c', neg, tail⟩ :: rest') g b mu := by
  unfold scanAux
  simp only [h1]
  cases tail <;> simp only [h2]

theorem tailOf_mkK (e : Entry MCond Out) (c : KCond) (h : OutOK e) : tailOf (mkK e c) = e.tail := by
  unfold tailOf mkK obOf
  unfold OutOK outOK at h
  cases ht : e.tail with
  | or => simp [OB_Or]
  | and => simp [OB_Or, OB_And]
  | mustRules => simp [OB_Or, OB_And, OB_MustRules]
  | final o =>
    rw [ht] at h
    simp only [Bool.and_eq_true, bne_iff_ne, ne_eq] at h
    obtain ⟨⟨h1, h2⟩, h3⟩ := h
    simp [h1, h2, h3]

theorem kcond_some (p : C01.Pkt) (wan : Bool) (ubm : List Nat) (next pos : Nat) (mc : MCond) (c : KCond) (ps : List Prefix)
    (tries : List (List Prefix)) (h : kcondOf next mc = (c, some ps)) (ht : tries[next]? = some ps) :
    evalU tries ubm (toK p wan) (pos, c) = evalM p mc := by
  cases mc <;> simp [kcondOf] at h <;> obtain ⟨rfl, rfl⟩ := h <;> simp [evalU, evalM, ht, toK]

theorem kcond_none (p : C01.Pkt) (wan : Bool) (ubm : List Nat) (next pos : Nat) (mc : MCond) (c : KCond)
    (tries : List (List Prefix)) (h : kcondOf next mc = (c, none))
    (hd : ∀ j, mc = .domainSet j → bitmapBit ubm pos = p.dom.getD j false) :
    evalU tries ubm (toK p wan) (pos, c) = evalM p mc := by
  cases mc <;> simp [kcondOf] at h <;> subst h <;> simp [evalU, evalM, toK]
  case domainSet j => exact hd j rfl

theorem assign_scan (p : C01.Pkt) (wan : Bool) (ubm : List Nat) :
    ∀ (es : List (Entry MCond Out)) (next pos : Nat) (pre : List (List Prefix)) (g b mu : Bool),
      pre.length = next → (∀ e ∈ es, OutOK e) → DomOK ubm p pos es →
      scanAux (evalU (pre ++ (assignFrom next es).2) ubm (toK p wan)) (toEntriesFrom pos (assignFrom next es).1) g b mu =
        scanAux (evalM p) es g b mu := by
  intro es
  induction es with
  | nil => intro next pos pre g b mu _ _ _; rfl
  | cons e es ih =>
    intro next pos pre g b mu hpre hout hdom
    have he := hout e List.mem_cons_self
    have hes : ∀ e' ∈ es, OutOK e' := fun e' h => hout e' (List.mem_cons_of_mem _ h)
    have hdom' : ((match e.cond with
        | .domainSet j => bitmapBit ubm pos == p.dom.getD j false
        | _ => true) && domOK ubm p (pos + 1) es) = true := hdom
    rw [Bool.and_eq_true] at hdom'
    obtain ⟨hd0', hds⟩ := hdom'
    have hd0 : ∀ j, e.cond = .domainSet j → bitmapBit ubm pos = p.dom.getD j false := by
      intro j hj; rw [hj] at hd0'; simpa using hd0'
    unfold assignFrom
    cases hk : kcondOf next e.cond with
    | mk c o =>
      cases o with
      | some ps =>
        simp only [toEntriesFrom, tailOf_mkK e c he]
        have hassoc : pre ++ ps :: (assignFrom (next + 1) es).2 = (pre ++ [ps]) ++ (assignFrom (next + 1) es).2 := by simp
        obtain ⟨ec, en, et⟩ := e
        apply scan_head_congr
        · apply kcond_some p wan ubm next pos ec c ps _ hk
          rw [List.getElem?_append_right (by omega), hpre]; simp
        · intro g b mu
          rw [hassoc]
          exact ih (next + 1) (pos + 1) (pre ++ [ps]) g b mu (by simp [hpre]) hes hds
      | none =>
        simp only [toEntriesFrom, tailOf_mkK e c he]
        obtain ⟨ec, en, et⟩ := e
        apply scan_head_congr
        · exact kcond_none p wan ubm next pos ec c _ hk hd0
        · intro g b mu
          exact ih next (pos + 1) pre g b mu hpre hes hds


/-! ## the packed result -/


theorem pack_arith (ob mark : Nat) (must : Bool) (h1 : ob < 256) (h2 : mark < 2 ^ 32) :
    (ob ||| (mark <<< 8) ||| (bpfBool must <<< 40)) = bpfBool must * 2 ^ 40 + mark * 256 + ob := by
  have e1 : ob ||| (mark <<< 8) = mark <<< 8 + ob := by
    rw [Nat.or_comm]; exact (Nat.shiftLeft_add_eq_or_of_lt (by simpa using h1) _).symm
  have hlt : mark <<< 8 + ob < 2 ^ 40 := by rw [Nat.shiftLeft_eq]; omega
  rw [e1, Nat.or_comm, ← Nat.shiftLeft_add_eq_or_of_lt hlt, Nat.shiftLeft_eq, Nat.shiftLeft_eq]
  omega

theorem unpack_pack (ob mark : Nat) (must : Bool) (h1 : ob < 256) (h2 : mark < 2 ^ 32) :
    unpack (pack ob mark must).toNat = ⟨ob, mark, must⟩ := by
  unfold pack unpack
  have hto : ∀ n : Nat, (Int.ofNat n).toNat = n := fun n => rfl
  simp only [hto, pack_arith ob mark must h1 h2]
  have a1 : ∀ n : Nat, n &&& 0xff = n % 256 := fun n => Nat.and_two_pow_sub_one_eq_mod n 8
  have a2 : ∀ n : Nat, n &&& 1 = n % 2 := fun n => Nat.and_two_pow_sub_one_eq_mod n 1
  simp only [a1, a2, Nat.shiftRight_eq_div_pow]
  cases must <;> simp [bpfBool] <;> omega

/-! ## provenance of a hit, decidability, field agreement -/

theorem scanAux_some_mem {κ : Type} (ev : κ → Bool) : ∀ (es : List (Entry κ Out)) (g b mu : Bool) (o : Out) (m : Bool),
    scanAux ev es g b mu = some (o, m) → ∃ e ∈ es, e.tail = .final o := by
  intro es
  induction es with
  | nil => intro g b mu o m h; simp [scanAux] at h
  | cons e es ih =>
    intro g b mu o m h
    unfold scanAux at h
    generalize (if (b || g) = true then g else ev e.cond) = g' at h
    have lift : (∃ e' ∈ es, e'.tail = .final o) → ∃ e' ∈ e :: es, e'.tail = .final o := by
      rintro ⟨e', h1, h2⟩; exact ⟨e', List.mem_cons_of_mem _ h1, h2⟩
    cases ht : e.tail with
    | or => simp only [ht] at h; exact lift (ih _ _ _ _ _ h)
    | and => simp only [ht] at h; exact lift (ih _ _ _ _ _ h)
    | mustRules =>
      simp only [ht] at h
      by_cases hc : (b || (g' == e.neg)) = true
      · simp only [hc, if_true] at h; exact lift (ih _ _ _ _ _ h)
      · simp only [hc, Bool.false_eq_true, if_false] at h; exact lift (ih _ _ _ _ _ h)
    | final o' =>
      simp only [ht] at h
      by_cases hc : (b || (g' == e.neg)) = true
      · simp only [hc, if_true] at h; exact lift (ih _ _ _ _ _ h)
      · simp only [hc, Bool.false_eq_true, if_false, Option.some.injEq, Prod.mk.injEq] at h
        exact ⟨e, List.mem_cons_self, by rw [ht, h.1]⟩

theorem mem_toEntriesFrom : ∀ (ks : List KEntry) (i : Nat) (e : Entry (Nat × KCond) Out),
    e ∈ toEntriesFrom i ks → ∃ k ∈ ks, e.tail = tailOf k := by
  intro ks
  induction ks with
  | nil => intro i e h; simp [toEntriesFrom] at h
  | cons k ks ih =>
    intro i e h
    simp only [toEntriesFrom, List.mem_cons] at h
    rcases h with rfl | h
    · exact ⟨k, List.mem_cons_self, rfl⟩
    · obtain ⟨k', h1, h2⟩ := ih _ _ h; exact ⟨k', List.mem_cons_of_mem _ h1, h2⟩

/-- a userspace hit returns the outbound / mark of one of the match sets -/
theorem matchU_some_bounds (kp : List KEntry) (tries : List (List Prefix)) (ubm : List Nat) (pk : PktK) (o : Out)
    (hK : ∀ k ∈ kp, k.outbound < 256 ∧ k.mark < 2 ^ 32) (h : matchU kp tries ubm pk = some o) :
    o.outbound < 256 ∧ o.mark < 2 ^ 32 := by
  unfold matchU at h
  cases hs : scanAux (evalU tries ubm pk) (toEntriesFrom 0 kp) false false false with
  | none => rw [hs] at h; simp at h
  | some x =>
    obtain ⟨o', m⟩ := x
    rw [hs] at h
    simp only [Option.map_some, Option.some.injEq] at h
    obtain ⟨e, he, het⟩ := scanAux_some_mem _ _ _ _ _ _ _ hs
    obtain ⟨k, hk, hkt⟩ := mem_toEntriesFrom _ _ _ he
    have := tailOf_final k o' (by rw [← hkt, het])
    subst this; subst h
    exact hK k hk

instance (n : Nat) (c : KCond) : Decidable (KCond.WF n c) := by
  cases c <;> unfold KCond.WF <;> infer_instance

instance (p : Prefix) : Decidable p.WF := by unfold Prefix.WF; infer_instance

instance (n : Nat) (k : KEntry) : Decidable (EntryOK n k) :=
  decidable_of_iff (k.cond.WF n ∧ k.outbound < 256 ∧ k.mark < 2 ^ 32)
    ⟨fun ⟨a, b, c⟩ => ⟨a, b, c⟩, fun h => ⟨h.cond, h.ob, h.mark⟩⟩

/-- The kernel's field readers, applied to the image the Go encoders write on a host of byte order
`e`, return what the builder meant. -/
def FieldsAgree (e : Endian) (k : KEntry) : Prop :=
  msType (encodeGo e k) = k.cond.mtype ∧ msNot (encodeGo e k) = bpfBool k.not ∧
  msOutbound (encodeGo e k) = k.outbound ∧ msMust (encodeGo e k) = bpfBool k.must ∧
  msMark e (encodeGo e k) = k.mark ∧
  match k.cond with
  | .ipSet i => msIndex e (encodeGo e k) = i
  | .srcIpSet i => msIndex e (encodeGo e k) = i
  | .macSet i => msIndex e (encodeGo e k) = i
  | .port lo hi => msPortStart e (encodeGo e k) = lo ∧ msPortEnd e (encodeGo e k) = hi
  | .srcPort lo hi => msPortStart e (encodeGo e k) = lo ∧ msPortEnd e (encodeGo e k) = hi
  | .l4Proto mk => msEnum32 e (encodeGo e k) % 256 = mk
  | .ipVersion mk => msEnum32 e (encodeGo e k) % 256 = mk
  | .processName bs => msPname (encodeGo e k) = bs
  | .dscp v => msDscp (encodeGo e k) = v
  | .domainSet => True
  | .fallback => True

instance (e : Endian) (k : KEntry) : Decidable (FieldsAgree e k) := by
  unfold FieldsAgree; cases k.cond <;> infer_instance

theorem fieldsAgree_little (k : KEntry) (hc : k.cond.WF (2 ^ 32)) (hob : k.outbound < 256) (hmk : k.mark < 2 ^ 32) :
    FieldsAgree .little k := by
  obtain ⟨cond, nt, ob, must, mark⟩ := k
  refine ⟨msType_enc _ _, msNot_enc _ _, msOutbound_enc _ _ hob, msMust_enc _ _, msMark_enc_little _ hmk, ?_⟩
  cases cond <;> simp only [KCond.WF] at hc <;> simp only
  case ipSet i => unfold msIndex; rw [rd32_head]; exact rd32_wr32le _ hc _
  case srcIpSet i => unfold msIndex; rw [rd32_head]; exact rd32_wr32le _ hc _
  case macSet i => unfold msIndex; rw [rd32_head]; exact rd32_wr32le _ hc _
  case port lo hi =>
    constructor
    · unfold msPortStart; rw [rd16_head _ _ _ _ (by decide)]; simp [rd16, KCond.value, wr16le, byteAt]; omega
    · unfold msPortEnd; rw [rd16_head _ _ _ _ (by decide)]; simp [rd16, KCond.value, wr16le, byteAt]; omega
  case srcPort lo hi =>
    constructor
    · unfold msPortStart; rw [rd16_head _ _ _ _ (by decide)]; simp [rd16, KCond.value, wr16le, byteAt]; omega
    · unfold msPortEnd; rw [rd16_head _ _ _ _ (by decide)]; simp [rd16, KCond.value, wr16le, byteAt]; omega
  case l4Proto mk => unfold msEnum32; rw [rd32_head]; simp [rd32, KCond.value, zeros, byteAt]; omega
  case ipVersion mk => unfold msEnum32; rw [rd32_head]; simp [rd32, KCond.value, zeros, byteAt]; omega
  case processName bs =>
    rw [msPname_enc]; simp only [KCond.value]; rw [pad16_of_length bs hc]; exact range16_map_byteAt bs hc
  case dscp v => unfold msDscp; rw [enc_head _ _ _ (by decide)]; simp [KCond.value, byteAt]; omega


/-! ## key equivalence, the executable `Installed` check, slot deletion -/

/-! ## `Installed`: what the kernel READS of every rule image is the typed entry -/

/-- What one completed `buildRoutingKernspace` leaves in the maps (whatever they held before):
the active length, rule images whose kernel-read fields are the ring-rewritten typed entries, and
LPM slots lookup-equivalent to the sets. -/
structure Installed (m : KMaps) (start : Nat) (kp : List KEntry) (tries : List (List Prefix)) : Prop where
  len : m.activeLen = kp.length
  bound : kp.length ≤ MaxMatchSetLen
  rules : ∀ i (h : i < kp.length), ∃ img, m.routing[i]? = some img ∧ readsAs img (kp[i].rewrite start) = true
  lpm : ∀ idx (h : idx < tries.length), ∃ keys, m.lpmAt (ringSlot start idx) = some keys ∧
    ∀ a, lpmLookup keys a = lpmLookup (tries[idx].map cidrToKey) a

theorem Installed.with_domain {m : KMaps} {start : Nat} {kp : List KEntry} {tries : List (List Prefix)}
    (h : Installed m start kp tries) (dom : List (Nat × List Nat)) : Installed { m with domain := dom } start kp tries :=
  ⟨h.len, h.bound, h.rules, h.lpm⟩


theorem readsAs_encode (k : KEntry) (hc : k.cond.WF (2 ^ 32)) (hob : k.outbound < 256) (hmk : k.mark < 2 ^ 32) :
    readsAs (encodeGo .little k) k = true := by
  obtain ⟨h1, h2, h3, h4, h5, h6⟩ := fieldsAgree_little k hc hob hmk
  unfold readsAs
  rw [h1, h2, h3, h4, h5, bpfBool_ne_zero, bpfBool_ne_zero]
  obtain ⟨cond, nt, ob, must, mark⟩ := k
  cases cond <;> simp only at h6 ⊢ <;> simp [h6]

theorem entryOK_rewrite (n start : Nat) (k : KEntry) (h : EntryOK n k) :
    (k.rewrite start).cond.WF (2 ^ 32) ∧ (k.rewrite start).outbound < 256 ∧ (k.rewrite start).mark < 2 ^ 32 := by
  refine ⟨?_, h.ob, h.mark⟩
  have hc := h.cond
  obtain ⟨cond, nt, ob, must, mark⟩ := k
  cases cond <;> simp only [KEntry.rewrite, KCond.rewrite, KCond.WF] at hc ⊢ <;>
    first | exact ringSlot_lt _ _ | exact hc | trivial

/-- the fields of `readsAs`, as equations -/
theorem readsAs_fields (img : List Nat) (k : KEntry) (h : readsAs img k = true) :
    msType img = k.cond.mtype ∧ (msNot img != 0) = k.not ∧ msOutbound img = k.outbound ∧
    (msMust img != 0) = k.must ∧ msMark .little img = k.mark := by
  unfold readsAs at h
  simp only [Bool.and_eq_true, beq_iff_eq] at h
  obtain ⟨⟨⟨⟨⟨h1, h2⟩, h3⟩, h4⟩, h5⟩, _⟩ := h
  exact ⟨h1, h2, h3, h4, h5⟩

theorem finalize_reads (c : RCtx) (a b : List Nat) (k : KEntry) (ha : readsAs a k = true) (hb : readsAs b k = true) :
    finalizeMatch .little c a = finalizeMatch .little c b := by
  obtain ⟨_, a2, a3, a4, a5⟩ := readsAs_fields a k ha
  obtain ⟨_, b2, b3, b4, b5⟩ := readsAs_fields b k hb
  unfold finalizeMatch
  simp only [a2, a3, a4, a5, b2, b3, b4, b5]

theorem eval_reads (m : KMaps) (pk : PktK) (c : RCtx) (a b : List Nat) (k : KEntry) (j : Nat)
    (ha : readsAs a k = true) (hb : readsAs b k = true) :
    evalMatch .little m pk c a j = evalMatch .little m pk c b j := by
  obtain ⟨a1, _⟩ := readsAs_fields a k ha
  obtain ⟨b1, _⟩ := readsAs_fields b k hb
  unfold readsAs at ha hb
  simp only [Bool.and_eq_true, beq_iff_eq] at ha hb
  obtain ⟨_, ha6⟩ := ha
  obtain ⟨_, hb6⟩ := hb
  obtain ⟨cond, nt, ob, must, mark⟩ := k
  unfold evalMatch matchLpm
  cases cond <;> simp only [Bool.and_eq_true, beq_iff_eq] at ha6 hb6 <;>
    simp [a1, b1, KCond.mtype, MT_Mac, MT_IpSet, MT_SourceIpSet, MT_Port, MT_SourcePort, MT_L4Proto, MT_IpVersion,
      MT_DomainSet, MT_ProcessName, MT_Dscp, MT_Fallback, ha6, hb6]

theorem bpfLoop_congr (f g : RCtx → Nat → RCtx × Bool) : ∀ (n i : Nat) (c : RCtx),
    (∀ j c', i ≤ j → j < i + n → f c' j = g c' j) → bpfLoop f n i c = bpfLoop g n i c := by
  intro n
  induction n with
  | zero => intro i c _; rfl
  | succ n ih =>
    intro i c h
    unfold bpfLoop
    rw [h i c (Nat.le_refl _) (by omega)]
    simp only
    split
    · rfl
    · exact ih (i + 1) _ (fun j c' h1 h2 => h j c' (by omega) (by omega))

theorem loopCb_reads (m : KMaps) (r' : List (List Nat)) (pk : PktK) (c : RCtx) (j : Nat) (a b : List Nat) (k : KEntry)
    (h1 : m.routing[j]? = some a) (h2 : r'[j]? = some b) (ha : readsAs a k = true) (hb : readsAs b k = true) :
    loopCb .little m pk c j = loopCb .little { m with routing := r' } pk c j := by
  unfold loopCb KMaps.routingAt
  by_cases hj : j ≥ MaxMatchSetLen
  · simp [hj]
  · have hlt : j < MaxMatchSetLen := by omega
    simp only [hj, if_false, hlt, if_true, List.getD_eq_getElem?_getD, h1, h2, Option.getD_some]
    have e1 : ∀ c', evalMatch .little { m with routing := r' } pk c' b j = evalMatch .little m pk c' b j := fun _ => rfl
    simp only [e1, eval_reads m pk _ a b k j ha hb, finalize_reads _ a b k ha hb]

theorem routeK_main (m : KMaps) (pk : PktK) (start : Nat) (kp : List KEntry) (tries : List (List Prefix))
    (ubm : List Nat) (hI : Installed m start kp tries) (hT : ∀ t ∈ tries, ∀ p ∈ t, p.WF) (hP : PktOK pk)
    (hD : ∀ w, m.domainWord pk.daddr w = ubm.getD w 0) (hK : ∀ k ∈ kp, EntryOK tries.length k) :
    routeK .little m pk = expectedK pk (matchU kp tries ubm pk) := by
  have hex : InstalledExact { m with routing := (kp.map (KEntry.rewrite start)).map (encodeGo .little) } start kp tries :=
    ⟨hI.len, hI.bound, by intro i hi; simp [hi], hI.lpm⟩
  have hcongr : routeK .little m pk =
      routeK .little { m with routing := (kp.map (KEntry.rewrite start)).map (encodeGo .little) } pk := by
    unfold routeK
    simp only
    have hb := hI.bound
    rw [bpfLoop_congr (loopCb .little m pk)
      (loopCb .little { m with routing := (kp.map (KEntry.rewrite start)).map (encodeGo .little) } pk)]
    intro j c' _ hj
    have hjl : j < kp.length := by
      rw [hI.len] at hj; simp only [hb, if_true] at hj; omega
    obtain ⟨img, hi1, hi2⟩ := hI.rules j hjl
    obtain ⟨w1, w2, w3⟩ := entryOK_rewrite tries.length start kp[j] (hK _ (List.getElem_mem hjl))
    exact loopCb_reads m _ pk c' j img (encodeGo .little (kp[j].rewrite start)) (kp[j].rewrite start) hi1
      (by simp [hjl]) hi2 (readsAs_encode _ w1 w2 w3)
  rw [hcongr]
  exact routeK_main_exact _ pk start kp tries ubm hex hT hP hD hK

theorem InstalledExact.toInstalled {m : KMaps} {start : Nat} {kp : List KEntry} {tries : List (List Prefix)}
    (h : InstalledExact m start kp tries) (hK : ∀ k ∈ kp, EntryOK tries.length k) : Installed m start kp tries := by
  refine ⟨h.len, h.bound, ?_, h.lpm⟩
  intro i hi
  obtain ⟨w1, w2, w3⟩ := entryOK_rewrite tries.length start kp[i] (hK _ (List.getElem_mem hi))
  exact ⟨_, h.rules i hi, readsAs_encode _ w1 w2 w3⟩

theorem installGen_installed (start : Nat) (kp : List KEntry) (tries : List (List Prefix)) (m0 : KMaps)
    (hk : kp.length ≤ MaxMatchSetLen) (ht : tries.length ≤ MaxMatchSetLen) (hK : ∀ k ∈ kp, EntryOK tries.length k) :
    Installed (installGen .little start kp tries m0) start kp tries :=
  (installGen_exact start kp tries m0 hk ht).toInstalled hK

theorem lpmLookup_canon (l : List LpmKey) (x : Nat) :
    lpmLookup l x = (l.map canonKey).any fun c => c.2 == (natBits 128 x).take c.1 := by
  unfold lpmLookup canonKey
  rw [List.any_map]; rfl

theorem any_of_subset {α : Type} [BEq α] [LawfulBEq α] (f : α → Bool) (a b : List α)
    (h : a.all (fun k => b.contains k) = true) (ha : a.any f = true) : b.any f = true := by
  rw [List.any_eq_true] at ha ⊢
  obtain ⟨k, hk, hf⟩ := ha
  rw [List.all_eq_true] at h
  have := h k hk
  exact ⟨k, List.contains_iff_mem.mp this |> fun m => m, hf⟩

theorem keysEquiv_lookup (a b : List LpmKey) (h : keysEquiv a b = true) (x : Nat) :
    lpmLookup a x = lpmLookup b x := by
  unfold keysEquiv at h
  rw [Bool.and_eq_true] at h
  obtain ⟨h1, h2⟩ := h
  have s1 : (a.map canonKey).all (fun k => (b.map canonKey).contains k) = true := by
    rw [List.all_map]; exact h1
  have s2 : (b.map canonKey).all (fun k => (a.map canonKey).contains k) = true := by
    rw [List.all_map]; exact h2
  rw [lpmLookup_canon, lpmLookup_canon, Bool.eq_iff_iff]
  exact ⟨any_of_subset _ _ _ s1, any_of_subset _ _ _ s2⟩

theorem installedB_sound (m : KMaps) (start : Nat) (kp : List KEntry) (tries : List (List Prefix))
    (h : installedB m start kp tries = true) : Installed m start kp tries := by
  unfold installedB at h
  simp only [Bool.and_eq_true, beq_iff_eq, decide_eq_true_eq, List.all_eq_true, List.mem_range] at h
  obtain ⟨⟨⟨h1, h2⟩, h3⟩, h4⟩ := h
  refine ⟨h1, h2, ?_, ?_⟩
  · intro i hi
    have := h3 i hi
    rw [List.getElem?_eq_getElem hi] at this
    cases hr : m.routing[i]? with
    | none => rw [hr] at this; simp at this
    | some img => rw [hr] at this; exact ⟨img, rfl, this⟩
  · intro idx hidx
    have := h4 idx hidx
    rw [List.getElem?_eq_getElem hidx] at this
    cases hl : m.lpmAt (ringSlot start idx) with
    | none => rw [hl] at this; simp at this
    | some keys =>
      rw [hl] at this
      exact ⟨keys, rfl, keysEquiv_lookup _ _ this⟩

theorem lookup_filter_keep {β : Type} (l : List (Nat × β)) (k : Nat) (f : Nat → Bool) (hf : f k = true) :
    (l.filter fun p => f p.1).lookup k = l.lookup k := by
  induction l with
  | nil => rfl
  | cons a l ih =>
    obtain ⟨k', v⟩ := a
    by_cases hk : k = k'
    · subst hk; simp [List.filter_cons, hf, List.lookup_cons]
    · have hne : (k == k') = false := by simpa using hk
      by_cases hfk : f k' = true
      · simp [List.filter_cons, hfk, List.lookup_cons, hne, ih]
      · simp [List.filter_cons, hfk, List.lookup_cons, hne, ih]

/-- Deleting slots that the installed generation does not use keeps it installed. -/
theorem delSlots_installed (m : KMaps) (start : Nat) (kp : List KEntry) (tries : List (List Prefix)) (slots : List Nat)
    (h : Installed m start kp tries) (hs : ∀ idx, idx < tries.length → ringSlot start idx ∉ slots) :
    Installed (m.delSlots slots) start kp tries := by
  refine ⟨h.len, h.bound, h.rules, ?_⟩
  intro idx hidx
  obtain ⟨keys, hk, he⟩ := h.lpm idx hidx
  refine ⟨keys, ?_, he⟩
  unfold KMaps.lpmAt KMaps.delSlots at *
  by_cases hb : ringSlot start idx < MaxLpmNum
  · simp only [hb, if_true] at hk ⊢
    rw [lookup_filter_keep _ _ (fun s => !slots.contains s)]
    · exact hk
    · simpa using hs idx hidx
  · simp [hb] at hk

theorem mem_genSlots (start count s : Nat) : s ∈ genSlots start count ↔ ∃ i, i < count ∧ s = ringSlot start i := by
  unfold genSlots; simp [List.mem_map, List.mem_range, eq_comm]

/-- `InheritLpmIndices`: with the reused-slot skip, the new generation stays installed whatever
the superseded set `old` is — overlapping generations included. -/
theorem inherit_installed (m : KMaps) (start : Nat) (kp : List KEntry) (tries : List (List Prefix)) (old : List Nat)
    (h : Installed m start kp tries) :
    Installed (inheritSlots m old (genSlots start tries.length)) start kp tries := by
  apply delSlots_installed _ _ _ _ _ h
  intro idx hidx hmem
  rw [List.mem_filter] at hmem
  have : ringSlot start idx ∈ genSlots start tries.length := (mem_genSlots _ _ _).mpr ⟨idx, hidx, rfl⟩
  simp [this] at hmem


/-! ## the builder's sharing allocator; ranges derived from the rules as written -/



theorem getElem?_append_ext {α : Type} (l ext : List α) (i : Nat) (x : α) (h : l[i]? = some x) : (l ++ ext)[i]? = some x := by
  rw [List.getElem?_append_left (List.getElem?_eq_some_iff.mp h).1]; exact h

theorem kcondShare_spec (hash : List Prefix → Nat) (b : Builder) (hinv : b.Inv) (mc : MCond)
    (p : C01.Pkt) (wan : Bool) (ubm : List Nat) (pos : Nat)
    (hd : ∀ j, mc = .domainSet j → bitmapBit ubm pos = p.dom.getD j false) :
    (kcondShare hash b mc).2.Inv ∧ (∃ ext, (kcondShare hash b mc).2.tries = b.tries ++ ext) ∧
    ∀ T ext, T = (kcondShare hash b mc).2.tries ++ ext →
      evalU T ubm (toK p wan) (pos, (kcondShare hash b mc).1) = evalM p mc := by
  cases mc with
  | ipSet ps =>
    obtain ⟨h1, h2, h3⟩ := Builder.addSet_spec hash b ps hinv
    refine ⟨h1, h2, ?_⟩
    intro T ext hT
    have hT' : T = (b.addSet hash ps).1.tries ++ ext := hT
    simp only [kcondShare, evalU, evalM, toK]
    rw [hT', getElem?_append_ext _ _ _ _ h3]
    exact C12.Props.canonicalize_same_set ps p.dst
  | srcIpSet ps =>
    obtain ⟨h1, h2, h3⟩ := Builder.addSet_spec hash b ps hinv
    refine ⟨h1, h2, ?_⟩
    intro T ext hT
    have hT' : T = (b.addSet hash ps).1.tries ++ ext := hT
    simp only [kcondShare, evalU, evalM, toK]
    rw [hT', getElem?_append_ext _ _ _ _ h3]
    exact C12.Props.canonicalize_same_set ps p.src
  | macSet ps =>
    refine ⟨?_, ⟨[ps], rfl⟩, ?_⟩
    · intro h e he
      exact getElem?_append_ext _ _ _ _ (hinv h e he)
    · intro T ext hT
      have hT' : T = (b.tries ++ [ps]) ++ ext := hT
      simp only [kcondShare, evalU, evalM, toK]
      rw [hT', List.append_assoc, List.getElem?_append_right (Nat.le_refl _)]
      simp
  | domainSet j =>
    refine ⟨hinv, ⟨[], by simp [kcondShare]⟩, ?_⟩
    intro T ext _
    simp only [kcondShare, kcondOf, evalU, evalM]
    exact hd j rfl
  | port lo hi => exact ⟨hinv, ⟨[], by simp [kcondShare]⟩, fun T ext _ => by simp [kcondShare, kcondOf, evalU, evalM, toK]⟩
  | srcPort lo hi => exact ⟨hinv, ⟨[], by simp [kcondShare]⟩, fun T ext _ => by simp [kcondShare, kcondOf, evalU, evalM, toK]⟩
  | ipVersion mk => exact ⟨hinv, ⟨[], by simp [kcondShare]⟩, fun T ext _ => by simp [kcondShare, kcondOf, evalU, evalM, toK]⟩
  | l4Proto mk => exact ⟨hinv, ⟨[], by simp [kcondShare]⟩, fun T ext _ => by simp [kcondShare, kcondOf, evalU, evalM, toK]⟩
  | processName bs => exact ⟨hinv, ⟨[], by simp [kcondShare]⟩, fun T ext _ => by simp [kcondShare, kcondOf, evalU, evalM, toK]⟩
  | dscp v => exact ⟨hinv, ⟨[], by simp [kcondShare]⟩, fun T ext _ => by simp [kcondShare, kcondOf, evalU, evalM, toK]⟩
  | fallback => exact ⟨hinv, ⟨[], by simp [kcondShare]⟩, fun T ext _ => by simp [kcondShare, kcondOf, evalU, evalM, toK]⟩

theorem assignShare_scan (hash : List Prefix → Nat) (p : C01.Pkt) (wan : Bool) (ubm : List Nat) :
    ∀ (es : List (Entry MCond Out)) (b : Builder) (pos : Nat), b.Inv → (∀ e ∈ es, OutOK e) → DomOK ubm p pos es →
      (assignShare hash b es).2.Inv ∧ (∃ ext, (assignShare hash b es).2.tries = b.tries ++ ext) ∧
      ∀ T ext, T = (assignShare hash b es).2.tries ++ ext → ∀ g bd mu,
        scanAux (evalU T ubm (toK p wan)) (toEntriesFrom pos (assignShare hash b es).1) g bd mu = scanAux (evalM p) es g bd mu := by
  intro es
  induction es with
  | nil =>
    intro b pos hinv _ _
    exact ⟨hinv, ⟨[], by simp [assignShare]⟩, fun _ _ _ _ _ _ => rfl⟩
  | cons e es ih =>
    intro b pos hinv hout hdom
    have he := hout e List.mem_cons_self
    have hes : ∀ e' ∈ es, OutOK e' := fun e' h => hout e' (List.mem_cons_of_mem _ h)
    have hdom' : ((match e.cond with
        | .domainSet j => bitmapBit ubm pos == p.dom.getD j false
        | _ => true) && domOK ubm p (pos + 1) es) = true := hdom
    rw [Bool.and_eq_true] at hdom'
    obtain ⟨hd0', hds⟩ := hdom'
    have hd0 : ∀ j, e.cond = .domainSet j → bitmapBit ubm pos = p.dom.getD j false := by
      intro j hj; rw [hj] at hd0'; simpa using hd0'
    obtain ⟨k1, ⟨ext1, k2⟩, k3⟩ := kcondShare_spec hash b hinv e.cond p wan ubm pos hd0
    obtain ⟨i1, ⟨ext2, i2⟩, i3⟩ := ih (kcondShare hash b e.cond).2 (pos + 1) k1 hes hds
    refine ⟨i1, ⟨ext1 ++ ext2, ?_⟩, ?_⟩
    · show (assignShare hash (kcondShare hash b e.cond).2 es).2.tries = _
      rw [i2, k2, List.append_assoc]
    · intro T ext hT g bd mu
      show scanAux _ (toEntriesFrom pos (mkK e (kcondShare hash b e.cond).1 :: (assignShare hash (kcondShare hash b e.cond).2 es).1)) g bd mu = _
      simp only [toEntriesFrom, tailOf_mkK e _ he]
      have hT' : T = (assignShare hash (kcondShare hash b e.cond).2 es).2.tries ++ ext := hT
      obtain ⟨ec, en, et⟩ := e
      apply scan_head_congr
      · apply k3 T (ext2 ++ ext)
        rw [hT', i2, List.append_assoc]
      · intro g bd mu
        exact i3 T ext hT' g bd mu


/-! ## from the rules as written to the ranges the typed array needs -/

theorem mem_lowerAlts {κ ο : Type} (neg : Bool) (last : Tail ο) : ∀ (ks : List κ) (k : κ) (e : Entry κ ο),
    e ∈ lowerAlts neg last k ks → e.neg = neg ∧ e.cond ∈ k :: ks ∧ (e.tail = .or ∨ e.tail = last) := by
  intro ks
  induction ks with
  | nil => intro k e h; simp only [lowerAlts, List.mem_singleton] at h; subst h; simp
  | cons k' ks ih =>
    intro k e h
    simp only [lowerAlts, List.mem_cons] at h
    rcases h with rfl | h
    · simp
    · obtain ⟨h1, h2, h3⟩ := ih k' e h
      exact ⟨h1, List.mem_cons_of_mem _ h2, h3⟩

theorem mem_lowerConds {κ ο : Type} (out : Tail ο) : ∀ (cs : List (Cond κ)) (c : Cond κ) (e : Entry κ ο),
    e ∈ lowerConds out c cs → ∃ c' ∈ c :: cs, e.neg = c'.neg ∧ e.cond ∈ c'.alts ∧ (e.tail = .or ∨ e.tail = .and ∨ e.tail = out) := by
  intro cs
  induction cs with
  | nil =>
    intro c e h
    simp only [lowerConds, lowerCond] at h
    obtain ⟨h1, h2, h3⟩ := mem_lowerAlts _ _ _ _ _ h
    exact ⟨c, List.mem_cons_self, h1, h2, by rcases h3 with h3 | h3 <;> simp [h3]⟩
  | cons c' cs ih =>
    intro c e h
    simp only [lowerConds, lowerCond, List.mem_append] at h
    rcases h with h | h
    · obtain ⟨h1, h2, h3⟩ := mem_lowerAlts _ _ _ _ _ h
      exact ⟨c, List.mem_cons_self, h1, h2, by rcases h3 with h3 | h3 <;> simp [h3]⟩
    · obtain ⟨c'', hm, h1, h2, h3⟩ := ih c' e h
      exact ⟨c'', List.mem_cons_of_mem _ hm, h1, h2, h3⟩

theorem mem_lower {κ ο : Type} (rs : List (Rule κ ο)) (e : Entry κ ο) (h : e ∈ lower rs) :
    ∃ r ∈ rs, ∃ c ∈ r.conds, e.neg = c.neg ∧ e.cond ∈ c.alts ∧ (e.tail = .or ∨ e.tail = .and ∨ e.tail = outTail r.out) := by
  unfold lower at h
  rw [List.mem_flatMap] at h
  obtain ⟨r, hr, he⟩ := h
  obtain ⟨c, hc, h1, h2, h3⟩ := mem_lowerConds _ _ _ _ he
  exact ⟨r, hr, c, hc, h1, h2, h3⟩

/-- ranges of a compiled condition / tail (what the Go types enforce: `uint16` ports, `uint8` masks
and DSCP, 16-byte names, user outbounds below the sentinels, 32-bit marks) -/
def MCondOK : MCond → Prop
  | .ipSet ps => ∀ p ∈ ps, p.WF
  | .srcIpSet ps => ∀ p ∈ ps, p.WF
  | .macSet ps => ∀ p ∈ ps, p.WF
  | .port lo hi => lo < 65536 ∧ hi < 65536
  | .srcPort lo hi => lo < 65536 ∧ hi < 65536
  | .ipVersion m => m < 256
  | .l4Proto m => m < 256
  | .processName bs => bs.length = 16
  | .dscp v => v < 256
  | _ => True

def TailOK : Tail Out → Prop
  | .final o => o.outbound < OB_MustRules ∧ o.mark < 2 ^ 32
  | _ => True

/-- ranges at the level of the rules as written, on top of C01's `SRule.WF` -/
def bodyRanges : SBody → Prop
  | .port _ gs => ∀ g ∈ gs.toList, ∀ r ∈ g.toList, r.1 < 65536 ∧ r.2 < 65536
  | .dscp gs => ∀ g ∈ gs.toList, ∀ v ∈ g.toList, v < 256
  | _ => True

def outOKsrc : RuleOut Out → Prop
  | .final o => o.outbound < OB_MustRules ∧ o.mark < 2 ^ 32
  | .mustRules => True

def ruleRanges (r : SRule) : Prop := (∀ c ∈ r.first :: r.rest, bodyRanges c.body) ∧ outOKsrc r.out

theorem orMask_lt (l : List Nat) (h : ∀ b ∈ l, b ≤ 2) : orMask l < 4 := by
  induction l with
  | nil => decide
  | cons a t ih =>
    rw [orMask_cons]
    have ha : a < 2 ^ 2 := by have := h a List.mem_cons_self; omega
    have ht : orMask t < 2 ^ 2 := ih (fun b hb => h b (List.mem_cons_of_mem _ hb))
    exact Nat.or_lt_two_pow ha ht

theorem mem_values_flat {α : Type} (gs : NE (NE α)) (v : α) (h : v ∈ gs.head.head :: (gs.head.tail ++ gs.tail.flatMap NE.toList)) :
    ∃ g ∈ gs.toList, v ∈ g.toList := by
  rw [← flat_values] at h
  rw [List.mem_flatMap] at h
  exact h

theorem compileBody_ok (neg : Bool) (b : SBody) (hwf : b.WF) (hr : bodyRanges b) :
    ∀ mc ∈ (compileBody neg b).toList, MCondOK mc := by
  intro mc hmc
  cases b with
  | ip isDst gs =>
    cases isDst <;>
    · simp only [compileBody, NE.toList_map, List.mem_map] at hmc
      obtain ⟨g, hg, rfl⟩ := hmc
      exact fun p hp => hwf g hg p hp
  | mac gs =>
    simp only [compileBody, NE.toList_map, List.mem_map] at hmc
    obtain ⟨g, hg, rfl⟩ := hmc
    intro p hp
    rw [List.mem_map] at hp
    obtain ⟨m, hm, rfl⟩ := hp
    apply macPrefix_WF
    cases neg
    · exact hwf g hg m (by simpa using hm)
    · simp only [if_true, List.mem_append, List.mem_singleton] at hm
      rcases hm with hm | rfl
      · exact hwf g hg m hm
      · decide
  | port isDst gs =>
    cases isDst <;>
    · simp only [compileBody, NE.toList, List.mem_cons, List.mem_map] at hmc
      rcases hmc with rfl | ⟨r, hrm, rfl⟩
      · obtain ⟨g, hg, hv⟩ := mem_values_flat gs gs.head.head List.mem_cons_self
        exact hr g hg _ hv
      · obtain ⟨g, hg, hv⟩ := mem_values_flat gs r (List.mem_cons_of_mem _ hrm)
        exact hr g hg _ hv
  | l4proto gs =>
    simp only [compileBody, NE.toList_map, List.mem_map] at hmc
    obtain ⟨g, hg, rfl⟩ := hmc
    have := orMask_lt g.toList (hwf g hg)
    show orMask g.toList < 256
    omega
  | ipversion gs =>
    simp only [compileBody, NE.toList_map, List.mem_map] at hmc
    obtain ⟨g, hg, rfl⟩ := hmc
    have := orMask_lt g.toList (hwf g hg)
    show orMask g.toList < 256
    omega
  | pname gs =>
    simp only [compileBody, NE.toList, List.mem_cons, List.mem_map] at hmc
    rcases hmc with rfl | ⟨r, _, rfl⟩ <;> exact pad16_length _
  | dscp gs =>
    simp only [compileBody, NE.toList, List.mem_cons, List.mem_map] at hmc
    rcases hmc with rfl | ⟨r, hrm, rfl⟩
    · obtain ⟨g, hg, hv⟩ := mem_values_flat gs gs.head.head List.mem_cons_self
      exact hr g hg _ hv
    · obtain ⟨g, hg, hv⟩ := mem_values_flat gs r (List.mem_cons_of_mem _ hrm)
      exact hr g hg _ hv
  | domain gs =>
    simp only [compileBody, NE.toList_map, List.mem_map] at hmc
    obtain ⟨g, _, rfl⟩ := hmc
    trivial

theorem compileProgram_ok (rules : List SRule) (fb : Out) (hwf : ∀ r ∈ rules, r.WF) (hr : ∀ r ∈ rules, ruleRanges r)
    (hfb : fb.outbound < OB_MustRules ∧ fb.mark < 2 ^ 32) :
    ∀ e ∈ compileProgram rules fb, MCondOK e.cond ∧ TailOK e.tail := by
  intro e he
  unfold compileProgram at he
  rw [List.mem_append, List.mem_singleton] at he
  rcases he with he | rfl
  · obtain ⟨r', hr', c', hc', _, h2, h3⟩ := mem_lower _ _ he
    rw [List.mem_map] at hr'
    obtain ⟨r, hrm, rfl⟩ := hr'
    have hcs : c' ∈ (compileCond r.first) :: r.rest.map compileCond := hc'
    rw [← List.map_cons, List.mem_map] at hcs
    obtain ⟨c, hc, rfl⟩ := hcs
    constructor
    · exact compileBody_ok c.neg c.body (hwf r hrm c hc) ((hr r hrm).1 c hc) e.cond h2
    · rcases h3 with h3 | h3 | h3
      · rw [h3]; trivial
      · rw [h3]; trivial
      · rw [h3]
        have := (hr r hrm).2
        simp only [compileRule]
        cases hro : r.out with
        | final o => rw [hro] at this; exact this
        | mustRules => trivial
  · exact ⟨trivial, hfb⟩

theorem addSet_tries_mem (hash : List Prefix → Nat) (b : Builder) (raw t : List Prefix)
    (h : t ∈ (b.addSet hash raw).1.tries) : t ∈ b.tries ∨ t = canonicalize raw := by
  unfold Builder.addSet at h
  simp only at h
  split at h
  · split at h
    · left; exact h
    · simp only [List.mem_append, List.mem_singleton] at h; exact h
  · simp only [List.mem_append, List.mem_singleton] at h; exact h

theorem KCond.WF_mono (c : KCond) (n m : Nat) (h : c.WF n) (hnm : n ≤ m) : c.WF m := by
  cases c <;> simp only [KCond.WF] at h ⊢ <;> first | omega | exact h

theorem kcondShare_ok (hash : List Prefix → Nat) (b : Builder) (mc : MCond) (hinv : b.Inv)
    (htw : ∀ t ∈ b.tries, ∀ p ∈ t, p.WF) (hm : MCondOK mc) :
    (∀ t ∈ (kcondShare hash b mc).2.tries, ∀ p ∈ t, p.WF) ∧
    (kcondShare hash b mc).1.WF (kcondShare hash b mc).2.tries.length := by
  have shared : ∀ ps : List Prefix, (∀ p ∈ ps, p.WF) →
      (∀ t ∈ (b.addSet hash ps).1.tries, ∀ p ∈ t, p.WF) ∧ (b.addSet hash ps).2 < (b.addSet hash ps).1.tries.length := by
    intro ps hps
    constructor
    · intro t ht p hp
      rcases addSet_tries_mem hash b ps t ht with h | rfl
      · exact htw t h p hp
      · exact hps p ((mem_canonicalize p ps).mp hp)
    · exact (List.getElem?_eq_some_iff.mp (Builder.addSet_spec hash b ps hinv).2.2).1
  cases mc with
  | ipSet ps => exact shared ps hm
  | srcIpSet ps => exact shared ps hm
  | macSet ps =>
    constructor
    · intro t ht p hp
      simp only [kcondShare, List.mem_append, List.mem_singleton] at ht
      rcases ht with ht | rfl
      · exact htw t ht p hp
      · exact hm p hp
    · simp [kcondShare, KCond.WF]
  | domainSet j => exact ⟨htw, trivial⟩
  | port lo hi => exact ⟨htw, hm⟩
  | srcPort lo hi => exact ⟨htw, hm⟩
  | ipVersion mk => exact ⟨htw, hm⟩
  | l4Proto mk => exact ⟨htw, hm⟩
  | processName bs => exact ⟨htw, hm⟩
  | dscp v => exact ⟨htw, hm⟩
  | fallback => exact ⟨htw, trivial⟩

theorem kcondShare_mono (hash : List Prefix → Nat) (b : Builder) (mc : MCond) (hinv : b.Inv) :
    ∃ ext, (kcondShare hash b mc).2.tries = b.tries ++ ext := by
  cases mc with
  | ipSet ps => exact (Builder.addSet_spec hash b ps hinv).2.1
  | srcIpSet ps => exact (Builder.addSet_spec hash b ps hinv).2.1
  | macSet ps => exact ⟨[ps], rfl⟩
  | _ => exact ⟨[], by simp [kcondShare]⟩

theorem kcondShare_inv (hash : List Prefix → Nat) (b : Builder) (mc : MCond) (hinv : b.Inv) : (kcondShare hash b mc).2.Inv := by
  cases mc with
  | ipSet ps => exact (Builder.addSet_spec hash b ps hinv).1
  | srcIpSet ps => exact (Builder.addSet_spec hash b ps hinv).1
  | macSet ps => intro h e he; exact getElem?_append_ext _ _ _ _ (hinv h e he)
  | _ => exact hinv

theorem outOK_of_tailOK (e : Entry MCond Out) (h : TailOK e.tail) : OutOK e := by
  unfold OutOK outOK
  cases ht : e.tail with
  | final o =>
    rw [ht] at h
    obtain ⟨h1, _⟩ := h
    unfold OB_MustRules at h1
    simp only [OB_Or, OB_And, OB_MustRules, Bool.and_eq_true, bne_iff_ne, ne_eq]
    omega
  | _ => rfl

theorem mkK_ranges (e : Entry MCond Out) (c : KCond) (h : TailOK e.tail) : (mkK e c).outbound < 256 ∧ (mkK e c).mark < 2 ^ 32 := by
  unfold mkK obOf
  cases ht : e.tail with
  | final o => rw [ht] at h; obtain ⟨h1, h2⟩ := h; unfold OB_MustRules at h1; exact ⟨by show o.outbound < 256; omega, h2⟩
  | or => exact ⟨by show OB_Or < 256; decide, by show (0 : Nat) < 2 ^ 32; decide⟩
  | and => exact ⟨by show OB_And < 256; decide, by show (0 : Nat) < 2 ^ 32; decide⟩
  | mustRules => exact ⟨by show OB_MustRules < 256; decide, by show (0 : Nat) < 2 ^ 32; decide⟩

theorem assignShare_ok (hash : List Prefix → Nat) : ∀ (es : List (Entry MCond Out)) (b : Builder), b.Inv →
    (∀ t ∈ b.tries, ∀ p ∈ t, p.WF) → (∀ e ∈ es, MCondOK e.cond ∧ TailOK e.tail) →
    (∀ t ∈ (assignShare hash b es).2.tries, ∀ p ∈ t, p.WF) ∧
    b.tries.length ≤ (assignShare hash b es).2.tries.length ∧
    ∀ k ∈ (assignShare hash b es).1, EntryOK (assignShare hash b es).2.tries.length k := by
  intro es
  induction es with
  | nil => intro b _ htw _; exact ⟨htw, Nat.le_refl _, fun k hk => by simp [assignShare] at hk⟩
  | cons e es ih =>
    intro b hinv htw hes
    have he := hes e List.mem_cons_self
    have k1 : (kcondShare hash b e.cond).2.Inv := kcondShare_inv hash b e.cond hinv
    obtain ⟨k2, k3⟩ := kcondShare_ok hash b e.cond hinv htw he.1
    obtain ⟨i1, i2, i3⟩ := ih (kcondShare hash b e.cond).2 k1 k2 (fun e' h => hes e' (List.mem_cons_of_mem _ h))
    have hmono : b.tries.length ≤ (kcondShare hash b e.cond).2.tries.length := by
      obtain ⟨ext, hx⟩ := kcondShare_mono hash b e.cond hinv
      rw [hx]; simp
    refine ⟨i1, Nat.le_trans hmono i2, ?_⟩
    intro k hk
    have hk' : k = mkK e (kcondShare hash b e.cond).1 ∨ k ∈ (assignShare hash (kcondShare hash b e.cond).2 es).1 := by
      simpa [assignShare] using hk
    rcases hk' with rfl | hk'
    · obtain ⟨r1, r2⟩ := mkK_ranges e (kcondShare hash b e.cond).1 he.2
      exact ⟨KCond.WF_mono _ _ _ k3 i2, r1, r2⟩
    · exact i3 k hk'

end DaeVerif.C02
