import DaeVerif.C10.Model
import DaeVerif.Common.Proto
/-! Line-protocol driver for C10 (op grammar: see harness/overlay/control/c10_test.go). -/
open DaeVerif DaeVerif.C10 DaeVerif.Proto

structure DState where
  tk : TK
  cs : CState
  /-- real-loops mode of the harness: which goroutine's batches land on which line is a race there, so the
  bookkeeping part of a line carries no batches and no queue length -/
  real : Bool := false
  /-- tracker stream: capacity of the (real) kernel map of this history, if one is used -/
  cap : Option Nat := none
  /-- tracker stream: the order in which the next update batch was sent (observed) -/
  order : List Ip := []
  /-- schedule stream: the transition system and which goroutines are blocked in `t.mu.Lock()` -/
  sys : Sys := Sys.init [[], [], []]
deriving Inhabited

def ownerOfTok (s : String) : String := if s = "~" then "" else s
def tokOfOwner (s : String) : String := if s = "" then "~" else s

/-- `-` or dot-separated bit indices. -/
def parseBits? (tok : String) : Option Bitmap :=
  if tok = "-" then some 0
  else (tok.splitOn ".").foldl (fun acc t => do
    let a ← acc
    let i ← t.toNat?
    pure (a ||| (1 <<< i))) (some 0)

def bitsStr (b : Bitmap) : String :=
  if b = 0 then "-"
  else ".".intercalate (((List.range (b.log2 + 1)).filter fun i => b.testBit i).map toString)

def parseAns? (tok : String) : Option Ans :=
  if tok = "bad" then some .bad
  else if tok = "x" then some .other
  else match tok.splitOn ":" with
    | ["4", h] => (hexToNat? h).map .a4
    | ["m", h] => (hexToNat? h).map .a4m
    | ["6", h] => (hexToNat? h).map .a6
    | _ => none

def ipStr (ip : Ip) : String := bytesToHex ((List.range 16).map fun i => (ip / 2 ^ (8 * (15 - i))) % 256)

def sortNat (l : List Nat) : List Nat := l.mergeSort (· ≤ ·)
def sortStr (l : List String) : List String := l.mergeSort (· ≤ ·)
def sortByIp {α} (l : List (Ip × α)) : List (Ip × α) := l.mergeSort (fun a b => a.1 ≤ b.1)
def sortByKey {α} (l : List (String × α)) : List (String × α) := l.mergeSort (fun a b => a.1 ≤ b.1)

def mix (h x : UInt64) : UInt64 := (h ^^^ x) * 1099511628211

/-- fold the `limbs` low 64-bit limbs of `n` into the hash -/
def fpNat (h : UInt64) (n limbs : Nat) : UInt64 :=
  (List.range limbs).foldl (fun h j => mix h (n >>> (64 * j)).toUInt64) h

def fpPairs (l : List (Ip × Bitmap)) : UInt64 :=
  (sortByIp l).foldl (fun h p => fpNat (fpNat h p.1 2) p.2 16) 14695981039346656037

def fpIps (l : List Ip) : UInt64 := (sortNat l).foldl (fun h ip => fpNat h ip 2) 14695981039346656037

/-- one `syncOwner` call: sizes and fingerprints of its two batches (bookkeeping part of a line). -/
def emitStr (p : Owner × Emit) : String :=
  "call(" ++ tokOfOwner p.1 ++ "|u:" ++ toString p.2.ups.length ++ ":" ++ toString (fpPairs p.2.ups) ++
    "|d:" ++ toString p.2.dels.length ++ ":" ++ toString (fpIps p.2.dels) ++ ")"

def callsStr (log : List (Owner × Emit)) : String :=
  if log.isEmpty then "calls=none" else "calls=" ++ "".intercalate (log.map emitStr)

def errStr : CoreErr → String
  | .ok => "ok"
  | .bitmapLen => "bitmap-len"
  | .emptyOwner => "empty-owner"
  | .updFailed => "update-failed"
  | .delFailed => "delete-failed"

def errBit : CoreErr → String
  | .ok => "ok"
  | _ => "err"

def trackerStr (t : Tracker) : String :=
  let owners := (sortByKey t.owners).map fun p =>
    tokOfOwner p.1 ++ ":" ++ bitsStr p.2.bitmap ++ ":" ++ ",".intercalate ((sortNat p.2.ips).map ipStr)
  let ips := (sortByIp t.ips).map fun p =>
    ipStr p.1 ++ ":" ++ bitsStr p.2.merged ++ ":" ++
      ",".intercalate ((sortByKey p.2.owners).map fun q => tokOfOwner q.1 ++ "=" ++ bitsStr q.2)
  "owners{" ++ " ".intercalate owners ++ "} ips{" ++ " ".intercalate ips ++ "}"

def kernelStr (K : Kernel) : String :=
  "kernel{" ++ " ".intercalate ((sortByIp K).map fun p => ipStr p.1 ++ "=" ++ bitsStr p.2) ++ "}"

/-- fingerprint of the whole table (FNV-1a style over the sorted entries), compared on every line. -/
def tableFp (K : Kernel) : String := "k=" ++ toString K.length ++ " t=" ++ toString (fpPairs K)

/-- property-relevant part of a cache entry (key, bitmap, listed addresses). -/
def cacheStr (c : List (String × Entry)) : String :=
  "cache{" ++ " ".intercalate ((sortByKey c).map fun p =>
    p.1 ++ ":" ++ bitsStr p.2.bitmap ++ ":" ++ ",".intercalate ((sortNat (ansIps p.2.ans)).map ipStr)) ++ "}"

/-- bookkeeping of the cache entries (deadlines, refresh and LRU stamps). -/
def stampsStr (c : List (String × Entry)) : String :=
  "stamps{" ++ " ".intercalate ((sortByKey c).map fun p =>
    p.1 ++ ":dl=" ++ toString p.2.deadline ++ ":odl=" ++ toString p.2.origDeadline ++ ":sync=" ++ toString p.2.lastSync ++
      ":acc=" ++ toString p.2.lastAccess) ++ "}"

def pendingStr (p : List Task) : String :=
  "pending[" ++ " ".intercalate (p.map fun t => t.key ++ "@" ++ toString t.now) ++ "]"

/-- `strict ## drift`: the left part is what the property speaks about (is the call accepted, the table,
the cache contents, the mirror flag), the right part is bookkeeping (batch shapes, queue, policies). -/
def line (strict drift : String) : String := strict ++ " ## " ++ drift

def cLine (σ : CState) (extra : String := "") (real : Bool := false) : String :=
  line ("n=" ++ toString σ.cache.length ++ " " ++ tableFp σ.tk.K ++ " m=" ++ boolStr (mirrorOk σ.cache σ.tk.K))
    (if real then extra ++ "p=~" else extra ++ "p=" ++ toString σ.pending.length)

def clearLogT (s : TK) : TK := { s with log := [] }
def clearLogC (σ : CState) : CState := { σ with tk := clearLogT σ.tk }

/-- every cache-stream op starts one nanosecond later than the previous one ended (the harness does the
same with the virtual clock), so that no two LRU stamps are equal and runs are reproducible. -/
def tick (σ : CState) : CState := { clearLogC σ with now := σ.now + 1 }

def runC (d : DState) (op : COp) (extra : String := "") (plan : Plan := Plan.ok) : DState × String :=
  let σ := cstepP (tick d.cs) plan op
  ({ d with cs := σ }, cLine σ extra d.real)

/-- leading `!uf:<owner>` / `!df:<owner>` tokens: the batch-syscall behaviour observed for that owner's tracker
call inside the operation that follows. -/
def splitPlan (ws : List String) : List (Owner × Outcome) × List String :=
  match ws with
  | w :: rest =>
    if w.startsWith "!uf:" then let r := splitPlan rest; ((String.ofList (w.toList.drop 4), Outcome.updFail) :: r.1, r.2)
    else if w.startsWith "!df:" then let r := splitPlan rest; ((String.ofList (w.toList.drop 4), Outcome.delFail) :: r.1, r.2)
    else ([], ws)
  | [] => ([], [])

def planOf (l : List (Owner × Outcome)) : Plan := fun o =>
  match alLookup o l with
  | some oc => oc
  | none => .ok

def parseOutcome? : String → Option Outcome
  | "ok" => some .ok
  | "uf" => some .updFail
  | "df" => some .delFail
  | _ => none

def tLine (r : TK × CoreErr) : String :=
  line (tableFp r.1.K) ("e=" ++ errBit r.2 ++ " class=" ++ errStr r.2 ++ " " ++ callsStr r.1.log)

def parseAssign? (toks : List String) : Option (List (String × Bitmap)) :=
  toks.mapM fun t =>
    match t.splitOn "=" with
    | [k, b] => (parseBits? b).map fun bm => (k, bm)
    | _ => none

/-! ### schedule stream: the transition system of `Model.lean` driven to the points where the real goroutines
park (the harness's batch observers are the yield points: a goroutine parks on entry to `BpfMapBatchUpdate` /
`BpfMapBatchDelete`, i.e. before that batch is written) -/

def holderEmit (σ : Sys) (h : Hold) : Emit := emitFor σ.t h.o h.s (affected σ.t h.o h.s)

/-- run the holder forward until it parks before a non-empty batch or releases the mutex. -/
def advance (σ : Sys) : Nat → Sys
  | 0 => σ
  | fuel + 1 =>
    match σ.lock with
    | none => σ
    | some h =>
      let em := holderEmit σ h
      match h.stage with
      | .locked => if em.ups ≠ [] then σ else advance (tstep σ h.tid) fuel
      | .updSent => if em.dels ≠ [] then σ else advance (tstep σ h.tid) fuel
      | .delSent => advance (tstep σ h.tid) fuel

/-- after a release: a goroutine that was blocked in `Lock()` (at most one, the harness guarantees it) takes the
mutex and runs to its first park point. -/
def wakeWaiter (σ : Sys) : Nat → Sys
  | 0 => σ
  | fuel + 1 =>
    match σ.lock with
    | some _ => σ
    | none =>
      match (List.range σ.todo.length).find? (fun i => !(σ.todo.getD i []).isEmpty) with
      | none => σ
      | some i => wakeWaiter (advance (tstep σ i) 4) fuel

def threadStr (σ : Sys) (i : Nat) : String :=
  match σ.lock with
  | some h =>
    if h.tid = i then (match h.stage with | .locked => "pu" | .updSent => "pd" | .delSent => "pd")
    else if (σ.todo.getD i []).isEmpty then "idle" else "blocked"
  | none => if (σ.todo.getD i []).isEmpty then "idle" else "blocked"

def sLine (σ : Sys) : String :=
  line ("T=" ++ ",".intercalate ((List.range σ.todo.length).map (threadStr σ)) ++ " " ++ tableFp σ.K) ""

def handle (d : DState) (line' : String) : DState × String :=
  let (planL, ws) := splitPlan (words line')
  let plan := planOf planL
  match ws with
  | ["tnew"] => ({ d with tk := TK.empty, cap := none, order := [] }, line "ok" "")
  | ["tnew", c] =>
    match c.toNat? with
    | some n => ({ d with tk := TK.empty, cap := some n, order := [] }, line "ok" "")
    | none => (d, "bad-op")
  | "order" :: ks =>
    match ks.mapM hexToNat? with
    | some l => ({ d with order := l }, line "ok" "")
    | none => (d, "bad-op")
  | "tupd" :: oc :: o :: len :: bm :: rest =>
    match parseOutcome? oc, len.toNat?, parseBits? bm, rest.mapM parseAns? with
    | some oc, some n, some b, some ans =>
      let r := match d.cap with
        | none => batchUpdate (clearLogT d.tk) (some ⟨ownerOfTok o, n, b, ans⟩) oc
        | some cap => batchUpdateC (clearLogT d.tk) cap d.order ⟨ownerOfTok o, n, b, ans⟩ oc
      ({ d with tk := r.1, order := [] }, tLine r)
    | _, _, _, _ => (d, "bad-op")
  | ["trm", oc, o] =>
    match parseOutcome? oc with
    | some oc =>
      let r := match d.cap with
        | none => batchRemove (clearLogT d.tk) (some ⟨ownerOfTok o, bitmapWords, 0, []⟩) oc
        | some cap => batchRemoveC (clearLogT d.tk) cap d.order ⟨ownerOfTok o, bitmapWords, 0, []⟩ oc
      ({ d with tk := r.1, order := [] }, tLine r)
    | none => (d, "bad-op")
  | ["tnil", which] =>
    let r := if which = "upd" then batchUpdate (clearLogT d.tk) none else batchRemove (clearLogT d.tk) none
    ({ d with tk := r.1 }, tLine r)
  | "tnomap" :: o :: bm :: rest =>
    match parseBits? bm, rest.mapM parseAns? with
    | some b, some ans =>
      let tk := (clearLogT d.tk).syncNoMap (ownerOfTok o) ⟨b, ansIps ans⟩
      ({ d with tk := tk }, tLine (tk, if ownerOfTok o = "" then .emptyOwner else .ok))
    | _, _ => (d, "bad-op")
  | "tnobpf" :: _ =>
    -- `PeekBpf() == nil`: the call is dropped before the tracker is touched
    (d, tLine (clearLogT d.tk, .ok))
  | ["tclear"] =>
    -- `clearReloadDomainRoutingMap` + `domainRouting.reset()` (what every reload path does with map and tracker)
    ({ d with tk := { d.tk with t := Tracker.empty, K := [], log := [] } }, tLine ({ d.tk with t := Tracker.empty, K := [], log := [] }, .ok))
  | ["tdump"] => (d, line (kernelStr d.tk.K) (trackerStr d.tk.t))
  | ["cnew", en, ttl, mx, real] =>
    match ttl.toNat?, mx.toNat? with
    | some t, some m => ({ d with cs := CState.init ⟨en = "1", t, m⟩, real := real = "1" }, line "ok" "")
    | _, _ => (d, "bad-op")
  | "put" :: "0" :: _ =>
    -- the code decided not to store this answer (observed): only time passes
    let σ := tick d.cs
    ({ d with cs := σ }, cLine σ "" d.real)
  | "put" :: "1" :: key :: fqdn :: qt :: ttl :: fttl :: bm :: rest =>
    match qt.toNat?, ttl.toNat?, parseBits? bm, rest.mapM parseAns? with
    | some q, some t, some b, some ans =>
      if fttl = "-" then runC d (.put (ownerOfTok key) fqdn q t none b ans) "" plan
      else match fttl.toNat? with
        | some f => runC d (.put (ownerOfTok key) fqdn q t (some f) b ans) "" plan
        | none => (d, "bad-op")
    | _, _, _, _ => (d, "bad-op")
  | ["del", key] => runC d (.del key) "" plan
  | "fam" :: base :: order =>
    runC d (.fam base order) ("legal=" ++ boolStr (famLegal (tick d.cs) base order) ++ " ") plan
  | ["look", key, ig, ev, q] =>
    let pred := predictLook (tick d.cs) key (ig = "1")
    runC d (.look key (ev = "1") (q = "1")) ("pred=" ++ boolStr (pred == (decide (ev = "1"), decide (q = "1"))) ++ " ") plan
  | ["hot", key, pk, ev, q] =>
    let pred := predictHot (tick d.cs) key (pk = "1")
    runC d (.hot key (ev = "1") (q = "1")) ("pred=" ++ boolStr (pred == (decide (ev = "1"), decide (q = "1"))) ++ " ") plan
  | "jan" :: order => runC d (.jan order) ("legal=" ++ boolStr (janLegal (tick d.cs) order) ++ " ") plan
  | ["sleep", ns] =>
    match ns.toNat? with
    | some n => runC d (.sleep n)
    | none => (d, "bad-op")
  | ["work"] => runC d .work "" plan
  | ["touch", key] => runC d (.touch key)
  | "reload" :: rest =>
    match parseAssign? rest with
    | some assign => runC d (.reload assign) ("legal=" ++ boolStr (reloadLegal d.cs assign) ++ " ") plan
    | none => (d, "bad-op")
  | "reloadx" :: rest =>
    -- reload WITHOUT controller reuse: the refresh queue dies with the retired controller; in the model its tasks
    -- all point at objects of the previous generation, so running the worker drops them one by one
    match parseAssign? rest with
    | some assign =>
      let r := runC d (.reload assign) ("legal=" ++ boolStr (reloadLegal d.cs assign) ++ " ") plan
      let σ := (List.range r.1.cs.pending.length).foldl (fun σ _ => cstepP σ Plan.ok .work) r.1.cs
      ({ r.1 with cs := σ }, cLine σ ("legal=" ++ boolStr (reloadLegal d.cs assign) ++ " ") d.real)
    | none => (d, "bad-op")
  | ["cdump"] =>
    (d, line (cacheStr d.cs.cache ++ " " ++ kernelStr d.cs.tk.K)
      ("now=" ++ toString d.cs.now ++ " " ++ stampsStr d.cs.cache ++ " " ++ pendingStr d.cs.pending ++ " " ++
        trackerStr d.cs.tk.t))
  | ["snew", n] =>
    match n.toNat? with
    | some n => let σ := Sys.init (List.replicate n []); ({ d with sys := σ }, sLine σ)
    | none => (d, "bad-op")
  | "scall" :: tid :: o :: bm :: rest =>
    -- goroutine `tid` calls BatchUpdateDomainRouting (bits `rm`: BatchRemoveDomainRouting)
    match tid.toNat?, (if bm = "rm" then some 0 else parseBits? bm), rest.mapM parseAns? with
    | some i, some b, some ans =>
      let snap : Snapshot := if bm = "rm" then Snapshot.empty else ⟨b, ansIps ans⟩
      let σ0 := d.sys
      let σ1 : Sys := { σ0 with todo := setNth σ0.todo i ((σ0.todo.getD i []) ++ [(ownerOfTok o, snap)]) }
      let σ2 := match σ1.lock with
        | some _ => σ1                       -- blocked in `t.mu.Lock()`
        | none => advance (tstep σ1 i) 4
      ({ d with sys := σ2 }, sLine σ2)
    | _, _, _ => (d, "bad-op")
  | ["sgo", tid] =>
    match tid.toNat? with
    | some i =>
      let σ1 := wakeWaiter (advance (tstep d.sys i) 4) 8
      ({ d with sys := σ1 }, sLine σ1)
    | none => (d, "bad-op")
  | ["sdump"] => (d, line (kernelStr d.sys.K) (trackerStr d.sys.t))
  | _ => (d, "bad-op")

def main : IO Unit := lineLoopS (default : DState) handle
