import DaeVerif.C10.Model
import DaeVerif.Common.Proto
/-! Line-protocol driver for C10 (op grammar: see harness/overlay/control/c10_test.go). -/
open DaeVerif DaeVerif.C10 DaeVerif.Proto

structure DState where
  tk : TK
  cs : CState
deriving Inhabited

def ownerOfTok (s : String) : String := if s = "~" then "" else s
def tokOfOwner (s : String) : String := if s = "" then "~" else s

/-- `-` or dot-separated bit indices. -/
def parseBits? (tok : String) : Option Bitmap :=
  if tok = "-" then some 0
  else (tok.splitOn ".").foldl (fun acc t => do
    let a ← acc
    let i ← t.toNat?
    pure (a ||| (1 <<< i))) (some 0)

def bitsStr (b : Bitmap) : String :=
  if b = 0 then "-"
  else ".".intercalate (((List.range (b.log2 + 1)).filter fun i => b.testBit i).map toString)

def parseAns? (tok : String) : Option Ans :=
  if tok = "bad" then some .bad
  else if tok = "x" then some .other
  else match tok.splitOn ":" with
    | ["4", h] => (hexToNat? h).map .a4
    | ["m", h] => (hexToNat? h).map .a4m
    | ["6", h] => (hexToNat? h).map .a6
    | _ => none

def ipStr (ip : Ip) : String := bytesToHex ((List.range 16).map fun i => (ip / 2 ^ (8 * (15 - i))) % 256)

def sortNat (l : List Nat) : List Nat := l.mergeSort (· ≤ ·)
def sortStr (l : List String) : List String := l.mergeSort (· ≤ ·)
def sortByIp {α} (l : List (Ip × α)) : List (Ip × α) := l.mergeSort (fun a b => a.1 ≤ b.1)
def sortByKey {α} (l : List (String × α)) : List (String × α) := l.mergeSort (fun a b => a.1 ≤ b.1)

def emitStr (p : Owner × Emit) : String :=
  let ups := (sortByIp p.2.ups).map fun q => ipStr q.1 ++ "=" ++ bitsStr q.2
  let dels := (sortNat p.2.dels).map ipStr
  "call(" ++ tokOfOwner p.1 ++ "|u:" ++ ",".intercalate ups ++ "|d:" ++ ",".intercalate dels ++ ")"

def callsStr (log : List (Owner × Emit)) : String :=
  if log.isEmpty then "calls=none" else "calls=" ++ "".intercalate (log.map emitStr)

def errStr : CoreErr → String
  | .ok => "ok"
  | .bitmapLen => "bitmap-len"
  | .emptyOwner => "empty-owner"

def trackerStr (t : Tracker) : String :=
  let owners := (sortByKey t.owners).map fun p =>
    tokOfOwner p.1 ++ ":" ++ bitsStr p.2.bitmap ++ ":" ++ ",".intercalate ((sortNat p.2.ips).map ipStr)
  let ips := (sortByIp t.ips).map fun p =>
    ipStr p.1 ++ ":" ++ bitsStr p.2.merged ++ ":" ++
      ",".intercalate ((sortByKey p.2.owners).map fun q => tokOfOwner q.1 ++ "=" ++ bitsStr q.2)
  "owners{" ++ " ".intercalate owners ++ "} ips{" ++ " ".intercalate ips ++ "}"

def kernelStr (K : Kernel) : String :=
  "kernel{" ++ " ".intercalate ((sortByIp K).map fun p => ipStr p.1 ++ "=" ++ bitsStr p.2) ++ "}"

def cacheStr (c : List (String × Entry)) : String :=
  "cache{" ++ " ".intercalate ((sortByKey c).map fun p =>
    p.1 ++ ":" ++ bitsStr p.2.bitmap ++ ":" ++ ",".intercalate ((sortNat (ansIps p.2.ans)).map ipStr) ++
      ":dl=" ++ toString p.2.deadline ++ ":odl=" ++ toString p.2.origDeadline ++ ":sync=" ++ toString p.2.lastSync ++
      ":acc=" ++ toString p.2.lastAccess) ++ "}"

def pendingStr (p : List Task) : String :=
  "pending[" ++ " ".intercalate (p.map fun t => t.key ++ "@" ++ toString t.now) ++ "]"

def cSummary (σ : CState) : String :=
  callsStr σ.tk.log ++ " n=" ++ toString σ.cache.length ++ " p=" ++ toString σ.pending.length ++
    " k=" ++ toString σ.tk.K.length ++ " m=" ++ boolStr (mirrorOk σ.cache σ.tk.K)

def clearLogT (s : TK) : TK := { s with log := [] }
def clearLogC (σ : CState) : CState := { σ with tk := clearLogT σ.tk }

def runC (d : DState) (op : COp) (extra : String := "") : DState × String :=
  let σ := cstep (clearLogC d.cs) op
  ({ d with cs := σ }, extra ++ cSummary σ)

def handle (d : DState) (line : String) : DState × String :=
  match words line with
  | ["tnew"] => ({ d with tk := TK.empty }, "ok")
  | "tupd" :: o :: len :: bm :: rest =>
    match len.toNat?, parseBits? bm, rest.mapM parseAns? with
    | some n, some b, some ans =>
      let r := batchUpdate (clearLogT d.tk) (some ⟨ownerOfTok o, n, b, ans⟩)
      ({ d with tk := r.1 }, "e=" ++ errStr r.2 ++ " " ++ callsStr r.1.log)
    | _, _, _ => (d, "bad-op")
  | ["trm", o] =>
    let r := batchRemove (clearLogT d.tk) (some ⟨ownerOfTok o, bitmapWords, 0, []⟩)
    ({ d with tk := r.1 }, "e=" ++ errStr r.2 ++ " " ++ callsStr r.1.log)
  | ["tnil", which] =>
    let r := if which = "upd" then batchUpdate (clearLogT d.tk) none else batchRemove (clearLogT d.tk) none
    ({ d with tk := r.1 }, "e=" ++ errStr r.2 ++ " " ++ callsStr r.1.log)
  | ["tdump"] => (d, trackerStr d.tk.t ++ " " ++ kernelStr d.tk.K)
  | ["cnew", en, ttl, mx] =>
    match ttl.toNat?, mx.toNat? with
    | some t, some m => ({ d with cs := CState.init ⟨en = "1", t, m⟩ }, "ok")
    | _, _ => (d, "bad-op")
  | "put" :: key :: ttl :: fttl :: bm :: rest =>
    match ttl.toNat?, parseBits? bm, rest.mapM parseAns? with
    | some t, some b, some ans =>
      if fttl = "-" then runC d (.put key t none b ans)
      else match fttl.toNat? with
        | some f => runC d (.put key t (some f) b ans)
        | none => (d, "bad-op")
    | _, _, _ => (d, "bad-op")
  | ["del", key] => runC d (.del key)
  | "fam" :: base :: order =>
    runC d (.fam base order) ("legal=" ++ boolStr (famLegal d.cs base order) ++ " ")
  | ["look", key, ig] => runC d (.look key (ig = "1"))
  | "jan" :: order => runC d (.jan order) ("legal=" ++ boolStr (janLegal d.cs order) ++ " ")
  | ["sleep", ns] =>
    match ns.toNat? with
    | some n => runC d (.sleep n)
    | none => (d, "bad-op")
  | ["work"] => runC d .work
  | ["touch", key] => runC d (.touch key)
  | ["hot", key, pk] => runC d (.hot key (pk = "1"))
  | ["cdump"] =>
    (d, "now=" ++ toString d.cs.now ++ " " ++ cacheStr d.cs.cache ++ " " ++ pendingStr d.cs.pending ++ " " ++
      trackerStr d.cs.tk.t ++ " " ++ kernelStr d.cs.tk.K)
  | _ => (d, "bad-op")

def main : IO Unit := lineLoopS (default : DState) handle
