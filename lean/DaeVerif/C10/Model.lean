/-!
# C10 — the kernel's address→domain-bitmap table mirrors the live DNS cache

Executable model (core Lean only) of

* `control/domain_routing_tracker.go` — `domainRoutingTracker` (`owners`, `ips`), `buildDomainRoutingOwnerSnapshot`,
  `desiredBitmapForKeyLocked`, `syncOwner` (the update / delete batches sent to `domain_routing_map`) and
  `applyOwnerSnapshotLocked`;
* `control/control_plane_core.go` — `BatchUpdateDomainRouting` / `BatchRemoveDomainRouting`, `extractIPsFromDnsCache`;
* the part of `control/dns_control.go` that decides *which* of those two calls happen for a cache history:
  `__updateDnsCacheDeadline` (insert / replace), `RemoveDnsRespCache`, `RemoveDnsRespCacheFamily` (request reject),
  `LookupDnsRespCache` (expiry on lookup, refresh trigger), `evictExpiredDnsCache` + `evictLRUIfFull` (janitor),
  `triggerBpfUpdateIfNeeded` / `processBpfUpdateTask` (the deferred refresh worker), with the callbacks wired as in
  `control/control_plane.go: dnsControllerOption` (access → BatchUpdate, delete → BatchRemove, *no* remove callback).

Go maps are association lists here (`alLookup` / `alInsert` / `alErase`); iteration order of a Go map is
unspecified, so everything that is emitted is compared up to order by the harness.
-/
namespace DaeVerif.C10

/-- 128-bit kernel key: the big-endian value of `netip.Addr.As16()`. -/
abbrev Ip := Nat
/-- `bpfDomainRouting.Bitmap` (`[32]uint32`) as the number whose bit `32*w + b` is bit `b` of word `w`. -/
abbrev Bitmap := Nat
/-- `DnsCache.RouteOwnerKey` (= the cache key). -/
abbrev Owner := String

/-! ## association lists -/
section AL
variable {κ : Type} [DecidableEq κ] {ν : Type}

def alLookup (k : κ) : List (κ × ν) → Option ν
  | [] => none
  | (k', v) :: rest => if k' = k then some v else alLookup k rest

/-- `delete(m, k)` -/
def alErase (k : κ) (l : List (κ × ν)) : List (κ × ν) := l.filter fun p => decide (p.1 ≠ k)

/-- `m[k] = v` -/
def alInsert (k : κ) (v : ν) (l : List (κ × ν)) : List (κ × ν) := (k, v) :: alErase k l

end AL

/-- set-like list: drop later duplicates (a Go `map[K]struct{}` built from a slice). -/
def dedup : List Ip → List Ip
  | [] => []
  | a :: l => if l.contains a then dedup l else a :: dedup l

/-- OR of a list of bitmaps (`mergeDomainRoutingOwnerBitmaps`, `orDomainRoutingBitmap`). -/
def orAll : List Bitmap → Bitmap
  | [] => 0
  | b :: l => b ||| orAll l

/-! ## the tracker -/

/-- `domainRoutingOwnerSnapshot` -/
structure Snapshot where
  bitmap : Bitmap
  ips : List Ip
deriving DecidableEq, Repr, Inhabited

def Snapshot.empty : Snapshot := ⟨0, []⟩

/-- `len(snapshot.ips) > 0 && !isZeroDomainRoutingBitmap(snapshot.bitmap)` -/
def Snapshot.effective (s : Snapshot) : Bool := !s.ips.isEmpty && s.bitmap != 0

/-- `domainRoutingIPState` -/
structure IpState where
  owners : List (Owner × Bitmap)
  merged : Bitmap
deriving DecidableEq, Repr, Inhabited

/-- `domainRoutingTracker` -/
structure Tracker where
  owners : List (Owner × Snapshot)
  ips : List (Ip × IpState)
deriving Repr, Inhabited

def Tracker.empty : Tracker := ⟨[], []⟩

/-- the other owners of `key` (the loop of `desiredBitmapForKeyLocked` skips `ownerKey`). -/
def othersOf (t : Tracker) (key : Ip) (o : Owner) : List (Owner × Bitmap) :=
  match alLookup key t.ips with
  | some st => alErase o st.owners
  | none => []

/-- `desiredBitmapForKeyLocked` : (bitmap, present). -/
def desired (t : Tracker) (key : Ip) (o : Owner) (s : Snapshot) : Bitmap × Bool :=
  let others := othersOf t key o
  if s.effective && s.ips.contains key then (orAll (others.map (·.2)) ||| s.bitmap, true)
  else (orAll (others.map (·.2)), !others.isEmpty)

inductive Act where
  | upd (v : Bitmap)
  | del
  | keep
deriving DecidableEq, Repr

/-- the `switch` in `syncOwner`. -/
def classify (t : Tracker) (key : Ip) (o : Owner) (s : Snapshot) : Act :=
  let d := desired t key o s
  match alLookup key t.ips, d.2 with
  | none, false => .keep
  | some _, false => .del
  | none, true => .upd d.1
  | some cur, true => if cur.merged ≠ d.1 then .upd d.1 else .keep

/-- what one `syncOwner` sends to the kernel map: `BpfMapBatchUpdate(keys, values)` then
`BpfMapBatchDelete(keys)`. -/
structure Emit where
  ups : List (Ip × Bitmap)
  dels : List Ip
deriving Repr, Inhabited

def updOf (t : Tracker) (o : Owner) (s : Snapshot) (k : Ip) : Option (Ip × Bitmap) :=
  match classify t k o s with
  | .upd v => some (k, v)
  | _ => none

def isDel (t : Tracker) (o : Owner) (s : Snapshot) (k : Ip) : Bool :=
  match classify t k o s with
  | .del => true
  | _ => false

def emitFor (t : Tracker) (o : Owner) (s : Snapshot) (aff : List Ip) : Emit :=
  ⟨aff.filterMap (updOf t o s), aff.filter (isDel t o s)⟩

/-- first loop of `applyOwnerSnapshotLocked`, one old address. -/
def removeOwnerAt (o : Owner) (ips : List (Ip × IpState)) (key : Ip) : List (Ip × IpState) :=
  match alLookup key ips with
  | none => ips
  | some st =>
    let ow := alErase o st.owners
    if ow.isEmpty then alErase key ips else alInsert key ⟨ow, orAll (ow.map (·.2))⟩ ips

/-- second loop of `applyOwnerSnapshotLocked`, one new address. -/
def addOwnerAt (o : Owner) (b : Bitmap) (ips : List (Ip × IpState)) (key : Ip) : List (Ip × IpState) :=
  let ow := match alLookup key ips with
    | some st => alInsert o b st.owners
    | none => alInsert o b []
  alInsert key ⟨ow, orAll (ow.map (·.2))⟩ ips

/-- `applyOwnerSnapshotLocked`, the `if old, ok := t.owners[ownerKey]; ok { … }` block. -/
def removePhase (t : Tracker) (o : Owner) : Tracker :=
  match alLookup o t.owners with
  | some old => ⟨alErase o t.owners, old.ips.foldl (removeOwnerAt o) t.ips⟩
  | none => t

/-- `applyOwnerSnapshotLocked` -/
def applySnapshot (t : Tracker) (o : Owner) (s : Snapshot) : Tracker :=
  if o = "" then t else
  let t1 : Tracker := removePhase t o
  if !s.effective then t1
  else ⟨alInsert o s t1.owners, s.ips.foldl (addOwnerAt o s.bitmap) t1.ips⟩

/-- `t.owners[ownerKey]` (zero value when absent). -/
def oldSnapshot (t : Tracker) (o : Owner) : Snapshot :=
  match alLookup o t.owners with
  | some x => x
  | none => Snapshot.empty

def affected (t : Tracker) (o : Owner) (s : Snapshot) : List Ip := dedup ((oldSnapshot t o).ips ++ s.ips)

/-- `syncOwner` with a non-nil map whose batch calls succeed: `none` = the "empty owner key" error
(nothing changed), otherwise the new tracker and the batches. -/
def syncOwner (t : Tracker) (o : Owner) (s : Snapshot) : Option (Tracker × Emit) :=
  if o = "" then none
  else some (applySnapshot t o s, emitFor t o s (affected t o s))

/-- the kernel hash map `domain_routing_map`, as the shadow obtained by applying the batches. -/
abbrev Kernel := List (Ip × Bitmap)

def applyEmit (K : Kernel) (e : Emit) : Kernel :=
  e.dels.foldl (fun K k => alErase k K) (e.ups.foldl (fun K p => alInsert p.1 p.2 K) K)

/-- What the datapath reads for an address: the stored bitmap, or nothing (= no domain rule matches). -/
def kernelVal (K : Kernel) (ip : Ip) : Bitmap :=
  match alLookup ip K with
  | some v => v
  | none => 0

/-- tracker + kernel shadow + the log of batches emitted (the log is only read by the driver). -/
structure TK where
  t : Tracker
  K : Kernel
  log : List (Owner × Emit)
deriving Repr, Inhabited

def TK.empty : TK := ⟨Tracker.empty, [], []⟩

def TK.sync (s : TK) (o : Owner) (snap : Snapshot) : TK :=
  match syncOwner s.t o snap with
  | none => s
  | some (t', em) => ⟨t', applyEmit s.K em, s.log ++ [(o, em)]⟩

/-- what the two batch syscalls of one `syncOwner` call do (environment): both succeed, the update batch
fails (atomically: nothing written), or the update batch succeeds and the delete batch fails. A batch that
is not issued (no keys) cannot fail. -/
inductive Outcome where
  | ok | updFail | delFail
deriving DecidableEq, Repr, Inhabited

inductive SyncRes where
  | done        -- both batches sent, snapshot applied
  | rejected    -- empty owner key: nothing happened
  | updFailed   -- "update domain_routing_map: …": returned before the delete batch and before applying
  | delFailed   -- "delete domain_routing_map: …": update batch is in the table, snapshot NOT applied
deriving DecidableEq, Repr, Inhabited

/-- `syncOwner` with a non-nil map whose batch calls behave as `oc` says. The code sends the update batch,
then the delete batch, and applies the owner snapshot only after both succeeded. -/
def TK.syncO (s : TK) (o : Owner) (snap : Snapshot) (oc : Outcome) : TK × SyncRes :=
  match syncOwner s.t o snap with
  | none => (s, .rejected)
  | some (t', em) =>
    if oc = .updFail ∧ em.ups ≠ [] then (s, .updFailed)
    else if oc = .delFail ∧ em.dels ≠ [] then
      (⟨s.t, applyEmit s.K ⟨em.ups, []⟩, if em.ups.isEmpty then s.log else s.log ++ [(o, ⟨em.ups, []⟩)]⟩, .delFailed)
    else (⟨t', applyEmit s.K em, s.log ++ [(o, em)]⟩, .done)

/-- `syncOwner` with `DomainRoutingMap == nil` (no kernel map at all): the snapshot is applied to the tracker,
nothing is sent. Only tied, no theorem speaks about a generation without a map. -/
def TK.syncNoMap (s : TK) (o : Owner) (snap : Snapshot) : TK :=
  match syncOwner s.t o snap with
  | none => s
  | some (t', _) => { s with t := t' }

/-! ## histories of `syncOwner` calls and what they denote (specification side) -/

/-- the owner map after `syncOwner o s`: the owner's entry is replaced by `s`, or dropped when `s` has
no addresses or a zero bitmap. -/
def setOwner (L : Owner → Option Snapshot) (o : Owner) (s : Snapshot) : Owner → Option Snapshot :=
  fun x => if x = o then (if s.effective then some s else none) else L x

/-- run a history of `syncOwner` calls. -/
def runSync (s : TK) (h : List (Owner × Snapshot)) : TK := h.foldl (fun s p => s.sync p.1 p.2) s

/-- the owner map a history denotes: the last snapshot synced for each owner (calls with the empty owner
key are rejected by the code and change nothing). -/
def liveAfter (L : Owner → Option Snapshot) (h : List (Owner × Snapshot)) : Owner → Option Snapshot :=
  h.foldl (fun L p => if p.1 = "" then L else setOwner L p.1 p.2) L

/-- a history of `syncOwner` calls with the behaviour of the batch syscalls of each; second component: the
owner map denoted by the calls that completed. -/
def runSyncO (s : TK) (L : Owner → Option Snapshot) (h : List (Owner × Snapshot × Outcome)) :
    TK × (Owner → Option Snapshot) :=
  h.foldl (fun st p =>
    let r := st.1.syncO p.1 p.2.1 p.2.2
    (r.1, if r.2 = .done then setOwner st.2 p.1 p.2.1 else st.2)) (s, L)

/-! ## `DnsCache` answers → snapshot -/

/-- one resource record of `DnsCache.Answer`, as far as `dnsAnswerIP` can tell them apart. -/
inductive Ans where
  | a4 (v : Nat)    -- `*dns.A` whose `net.IP` has 4 bytes
  | a4m (v : Nat)   -- `*dns.A` whose `net.IP` is the 16-byte `::ffff:a.b.c.d` form
  | a6 (v : Nat)    -- `*dns.AAAA`, 16 bytes
  | bad             -- `*dns.A` / `*dns.AAAA` whose `net.IP` has an invalid length (`AddrFromSlice` fails)
  | other           -- any other record type
deriving DecidableEq, Repr, Inhabited

def mapped4 (v : Nat) : Ip := 0xffff * 2 ^ 32 + v

/-- `dnsAnswerIP` + `!ip.IsUnspecified()` + `As16` (`netip`: `0.0.0.0` and `::` are unspecified,
`::ffff:0.0.0.0` is not). -/
def Ans.key? : Ans → Option Ip
  | .a4 v => if v = 0 then none else some (mapped4 v)
  | .a4m v => some (mapped4 v)
  | .a6 v => if v = 0 then none else some v
  | .bad => none
  | .other => none

/-- the set of kernel keys an answer section lists (`extractIPsFromDnsCache` into a Go map). -/
def ansIps (ans : List Ans) : List Ip := dedup (ans.filterMap Ans.key?)

/-- `len(bpfDomainRouting{}.Bitmap)` -/
def bitmapWords : Nat := 32

/-- what `BatchUpdateDomainRouting` / `BatchRemoveDomainRouting` read of a `*DnsCache`. -/
structure CacheView where
  owner : Owner
  bmLen : Nat          -- `len(cache.DomainBitmap)`
  bitmap : Bitmap
  ans : List Ans
deriving Repr, Inhabited

inductive CoreErr where
  | ok | bitmapLen | emptyOwner | updFailed | delFailed
deriving DecidableEq, Repr

def CoreErr.ofRes : SyncRes → CoreErr
  | .done => .ok
  | .rejected => .emptyOwner
  | .updFailed => .updFailed
  | .delFailed => .delFailed

/-- `BatchUpdateDomainRouting(cache)` (`none` = nil cache). -/
def batchUpdate (s : TK) (c : Option CacheView) (oc : Outcome := .ok) : TK × CoreErr :=
  match c with
  | none => (s, .ok)
  | some c =>
    if c.bmLen ≠ bitmapWords then (s, .bitmapLen)
    else
      let r := s.syncO c.owner ⟨c.bitmap, ansIps c.ans⟩ oc
      (r.1, CoreErr.ofRes r.2)

/-- `BatchRemoveDomainRouting(cache)` -/
def batchRemove (s : TK) (c : Option CacheView) (oc : Outcome := .ok) : TK × CoreErr :=
  match c with
  | none => (s, .ok)
  | some c =>
    let r := s.syncO c.owner Snapshot.empty oc
    (r.1, CoreErr.ofRes r.2)

/-! ## the DNS cache layer -/

structure Entry where
  id : Nat              -- identity of the `*DnsCache` object
  bitmap : Bitmap
  ans : List Ans
  deadline : Nat        -- ns of virtual time
  origDeadline : Nat
  lastSync : Nat        -- `lastRouteSyncNano`
  lastAccess : Nat      -- `lastAccessNano`
deriving DecidableEq, Repr, Inhabited

def Entry.snap (e : Entry) : Snapshot := ⟨e.bitmap, ansIps e.ans⟩

/-- a queued `bpfUpdateTask`: the entry object it points to (its immutable payload) and `task.now`. -/
structure Task where
  id : Nat
  key : String
  snap : Snapshot
  now : Nat
deriving Repr, Inhabited

structure Cfg where
  optEnabled : Bool
  optTtl : Nat
  maxSize : Nat
deriving Repr, Inhabited

/-- `normalizeDnsRuntimeBehavior` -/
def Cfg.normalize (c : Cfg) : Cfg :=
  if c.optTtl = 0 ∧ c.maxSize = 0 then { c with optTtl := 60 } else c

structure CState where
  cfg : Cfg
  now : Nat
  nextId : Nat
  cache : List (String × Entry)
  pending : List Task
  tk : TK
  /-- GHOST (no counterpart in the code): the cache keys whose latest tracker call did not complete because
  a batch syscall failed. Only the theorems read it. -/
  dirty : List String
deriving Repr, Inhabited

def CState.init (cfg : Cfg) : CState :=
  { cfg := cfg.normalize, now := 0, nextId := 1, cache := [], pending := [], tk := TK.empty, dirty := [] }

/-- What the batch syscalls of the tracker calls of ONE cache operation do, per owner (an operation syncs an
owner at most once). Environment: the theorems quantify over every plan. -/
abbrev Plan := Owner → Outcome

def Plan.ok : Plan := fun _ => .ok

def SyncRes.failed : SyncRes → Bool
  | .updFailed => true
  | .delFailed => true
  | _ => false

/-- ghost bookkeeping: `key`'s call failed (a batch syscall returned an error) / did not fail. -/
def markDirty (res : SyncRes) (key : String) (d : List String) : List String :=
  if res.failed then key :: d.filter (· ≠ key) else d.filter (· ≠ key)

def sec : Nat := 1000000000

inductive COp where
  /-- `UpdateDnsCacheTtlWithKey(key, …)` / `UpdateDnsCacheTtl(…)` (`key = ""`: the key is derived from the
  canonical name and the query type). -/
  | put (key fqdn : String) (qtype ttl : Nat) (fixedTtl : Option Nat) (bitmap : Bitmap) (ans : List Ans)
  | del (key : String)
  | fam (base : String) (order : List String)
  /-- `LookupDnsRespCache`: what it did is *observed* (entry evicted as expired / refresh task queued);
  the expiry and refresh policies are outside the property, see `predictLook`. -/
  | look (key : String) (evicted queued : Bool)
  | jan (order : List String)
  | sleep (ns : Nat)
  | work
  | touch (key : String)
  /-- `LookupDnsRespCache_` (DNS hot path), outcome observed likewise. -/
  | hot (key : String) (evicted queued : Bool)
  /-- reload: new generation (fresh tracker, `clearReloadDomainRoutingMap`), `CloneCacheForReload` +
  `RestoreReloadCache`; `assign` = the observed restore order with the bitmap the new generation's domain
  matcher gives each entry. -/
  | reload (assign : List (String × Bitmap))
deriving Repr, Inhabited

/-- `dnsCacheBaseKey` -/
def baseKey (key : String) : String :=
  match key.splitOn "|" with
  | b :: _ => b
  | [] => key

/-- `LoadAndDelete`/`CompareAndDelete` succeeded + `invokeCacheDeleteCallback` (→ `BatchRemoveDomainRouting`). -/
def CState.evictP (σ : CState) (plan : Plan) (key : String) : CState :=
  if key = "" then σ else
  match alLookup key σ.cache with
  | none => σ
  | some _ =>
    -- the callback's error is only logged: the entry is gone from the cache either way
    let r := σ.tk.syncO key Snapshot.empty (plan key)
    { σ with cache := alErase key σ.cache, tk := r.1, dirty := markDirty r.2 key σ.dirty }

def CState.evict (σ : CState) (key : String) : CState := σ.evictP Plan.ok key

/-- `NeedsBpfUpdate` for an entry created by `__updateDnsCacheDeadline` / restored on reload (its data hash
equals the marked one, so only the 60 s maximum interval triggers). Bookkeeping prediction only. -/
def needsUpdate (e : Entry) (now : Nat) : Bool := e.lastSync == 0 || decide (now - e.lastSync ≥ 60 * sec)

/-- `triggerBpfUpdateIfNeeded` when it does queue a task: the CAS stamps `lastRouteSyncNano`, the task
points at the cached object. -/
def CState.queueRefresh (σ : CState) (key : String) : CState :=
  match alLookup key σ.cache with
  | none => σ
  | some e =>
    { σ with cache := alInsert key { e with lastSync := σ.now } σ.cache,
             pending := σ.pending ++ [⟨e.id, key, e.snap, σ.now⟩] }

/-- `dnsCache.Store(key, entry)` of a fresh object + `cacheAccessCallback(entry)` (→ `BatchUpdateDomainRouting`). -/
def CState.storeP (σ : CState) (plan : Plan) (key : String) (e : Entry) : CState :=
  -- the entry is stored BEFORE the callback runs and stays cached when the callback fails; `MarkBpfUpdated`
  -- is skipped then, so `lastRouteSyncNano` of the fresh object stays 0 and the next lookup queues a refresh
  let r := σ.tk.syncO key e.snap (plan key)
  { σ with nextId := σ.nextId + 1,
           cache := alInsert key { e with id := σ.nextId, lastSync := if r.2 = .done then e.lastSync else 0 } σ.cache,
           tk := r.1, dirty := markDirty r.2 key σ.dirty }

def CState.store (σ : CState) (key : String) (e : Entry) : CState := σ.storeP Plan.ok key e

/-- `processBpfUpdateTask` for a task taken from the queue (code after the fix "a queued domain-routing
refresh is dropped when its DNS cache entry was replaced or removed meanwhile"): the task is applied only
when the object it points to is still the one cached under its key (`cur == task.cache`, pointer identity
= `id`); then `cacheAccessCallback(task.cache)` and `task.cache.MarkBpfUpdated(task.now)`. Otherwise it is
dropped. (Unpublished objects with an empty `RouteOwnerKey` are never queued in this model.) -/
def CState.applyTaskP (σ : CState) (plan : Plan) (t : Task) : CState :=
  match alLookup t.key σ.cache with
  | some e =>
    if e.id = t.id then
      -- a failing callback is logged, `MarkBpfUpdated` skipped (the stamp claimed when queueing stays)
      let r := σ.tk.syncO t.key t.snap (plan t.key)
      { σ with cache := if r.2 = .done then alInsert t.key { e with lastSync := t.now } σ.cache else σ.cache,
               tk := r.1, dirty := markDirty r.2 t.key σ.dirty }
    else σ
  | none => σ

def CState.applyTask (σ : CState) (t : Task) : CState := σ.applyTaskP Plan.ok t

/-- `processBpfUpdateTask` as it was BEFORE that fix (revert witness only): the task is applied
unconditionally; `MarkBpfUpdated` touches the task's own object, visible only while still cached. -/
def CState.applyTaskUnguarded (σ : CState) (t : Task) : CState :=
  let cache' := match alLookup t.key σ.cache with
    | some e => if e.id = t.id then alInsert t.key { e with lastSync := t.now } σ.cache else σ.cache
    | none => σ.cache
  { σ with cache := cache', tk := σ.tk.sync t.key t.snap }

/-- `c.cacheKey(fqdn, qtype)` for an empty `cacheKey` argument. -/
def effKey (key fqdn : String) (qtype : Nat) : String := if key = "" then fqdn ++ toString qtype else key

/-- one cache operation whose tracker calls meet the batch-syscall behaviour `plan`. -/
def cstepP (σ : CState) (plan : Plan) : COp → CState
  | .put key fqdn qtype ttl fixedTtl bitmap ans =>
    let k := effKey key fqdn qtype
    if k = "" then σ else   -- cannot happen: `CanonicalName` never returns the empty string
    let dl := match fixedTtl with
      | some f => σ.now + f * sec
      | none => σ.now + ttl * sec
    -- a stored answer counts as used now (lastAccess)
    σ.storeP plan k ⟨0, bitmap, ans, dl, σ.now + ttl * sec, σ.now, σ.now⟩
  | .del key => σ.evictP plan key
  | .fam base order =>
    if base = "" then σ else
    order.foldl (fun σ k => if baseKey k = base then σ.evictP plan k else σ) σ
  | .look key evicted queued =>
    if evicted then σ.evictP plan key else if queued then σ.queueRefresh key else σ
  | .jan order => order.foldl (fun σ k => σ.evictP plan k) σ
  | .sleep ns => { σ with now := σ.now + ns }
  | .work =>
    match σ.pending with
    | [] => σ
    | t :: rest => ({ σ with pending := rest } : CState).applyTaskP plan t
  | .touch key =>
    match alLookup key σ.cache with
    | none => σ
    | some e => { σ with cache := alInsert key { e with lastAccess := σ.now } σ.cache }
  | .hot key evicted queued =>
    match alLookup key σ.cache with
    | none => σ
    | some e =>
      let σ1 : CState := { σ with cache := alInsert key { e with lastAccess := σ.now } σ.cache }
      if evicted then σ1.evictP plan key else if queued then σ1.queueRefresh key else σ1
  | .reload assign =>
    let old := σ.cache
    let order := assign ++ (old.filter fun p => (alLookup p.1 assign).isNone).map (fun p => (p.1, p.2.bitmap))
    order.foldl (fun σ p =>
      match alLookup p.1 old with
      | some e => if p.1 = "" then σ else σ.storeP plan p.1 { e with bitmap := p.2, lastSync := σ.now }
      | none => σ) { σ with cache := [], tk := ⟨Tracker.empty, [], σ.tk.log⟩, dirty := [] }

/-- one cache operation whose batch syscalls all succeed. -/
def cstep (σ : CState) (op : COp) : CState := cstepP σ Plan.ok op

def crunP (σ : CState) (ops : List (Plan × COp)) : CState := ops.foldl (fun σ p => cstepP σ p.1 p.2) σ

def crun (σ : CState) (ops : List COp) : CState := ops.foldl cstep σ

/-- the same machine with the pre-fix worker (revert witness only; nothing else uses it). -/
def cstepUnguarded (σ : CState) : COp → CState
  | .work =>
    match σ.pending with
    | [] => σ
    | t :: rest => ({ σ with pending := rest } : CState).applyTaskUnguarded t
  | op => cstep σ op

def crunUnguarded (σ : CState) (ops : List COp) : CState := ops.foldl cstepUnguarded σ

/-! ## legality of the nondeterministic choices the driver is told about -/

def isPerm (a b : List String) : Bool :=
  a.length == b.length && a.all (fun x => a.count x == b.count x) && b.all (fun x => a.contains x)

/-- `RemoveDnsRespCacheFamily`: the keys removed are exactly the cached keys of that base key. -/
def famLegal (σ : CState) (base : String) (order : List String) : Bool :=
  isPerm order ((σ.cache.filter fun p => baseKey p.1 == base).map (·.1))

/-- effective deadline of `evictExpiredDnsCache`. -/
def effDeadline (cfg : Cfg) (e : Entry) : Nat :=
  if cfg.optEnabled && decide (cfg.optTtl > 0) then e.deadline + cfg.optTtl * sec else e.deadline

def timeVictims (σ : CState) : List String :=
  if σ.cfg.optTtl > 0 ∨ (σ.cfg.optTtl = 0 ∧ σ.cfg.maxSize = 0) then
    (σ.cache.filter fun p => decide (effDeadline σ.cfg p.2 ≤ σ.now)).map (·.1)
  else []

/-- `evictExpiredDnsCache(now)`: first every expired key (any order), then `count - maxSize`
least-recently-accessed keys (any order, ties broken arbitrarily). -/
def janLegal (σ : CState) (order : List String) : Bool :=
  let tv := timeVictims σ
  let first := order.filter fun k => tv.contains k
  let rest := order.filter fun k => !tv.contains k
  let remaining := σ.cache.filter fun p => !tv.contains p.1
  let need := if σ.cfg.maxSize > 0 then remaining.length - σ.cfg.maxSize else 0
  let victims := remaining.filter fun p => rest.contains p.1
  let survivors := remaining.filter fun p => !rest.contains p.1
  isPerm first tv && rest.length == need && victims.length == need &&
    victims.all (fun v => survivors.all fun s => decide (v.2.lastAccess ≤ s.2.lastAccess))

/-- `RestoreReloadCache`: every cached key is restored exactly once. -/
def reloadLegal (σ : CState) (assign : List (String × Bitmap)) : Bool :=
  isPerm (assign.map (·.1)) (σ.cache.map (·.1))

/-! ## bookkeeping predictions (expiry / refresh policy; outside the property, reported as drift only) -/

/-- what `LookupDnsRespCache(key, ignoreFixed)` is expected to do: (evicted, queued). -/
def predictLook (σ : CState) (key : String) (ignoreFixed : Bool) : Bool × Bool :=
  match alLookup key σ.cache with
  | none => (false, false)
  | some e =>
    let dl := if ignoreFixed then e.origDeadline else e.deadline
    if dl ≤ σ.now then (true, false) else (false, needsUpdate e σ.now)

/-- what `LookupDnsRespCache_(msg, key, false)` is expected to do, given whether a pre-packed response is
available (C08's subject): (evicted, queued). -/
def predictHot (σ : CState) (key : String) (packed : Bool) : Bool × Bool :=
  match alLookup key σ.cache with
  | none => (false, false)
  | some e =>
    if σ.now < e.deadline then (false, packed && needsUpdate e σ.now)
    else if σ.cfg.optEnabled && packed &&
        (σ.cfg.optTtl == 0 || decide (σ.now ≤ e.deadline + σ.cfg.optTtl * sec)) then (false, false)
    else (true, false)

/-! ## the executable specification (what the property says the table must hold) -/

/-- union of the bitmaps of the cache entries that list `ip`. -/
def specOr (cache : List (String × Entry)) (ip : Ip) : Bitmap :=
  orAll ((cache.filter fun p => (ansIps p.2.ans).contains ip).map (·.2.bitmap))

/-- the table equals the specification on every address that occurs anywhere, and stores no zero value. -/
def mirrorOk (cache : List (String × Entry)) (K : Kernel) : Bool :=
  let addrs := K.map (·.1) ++ cache.flatMap (fun p => ansIps p.2.ans)
  addrs.all (fun ip => kernelVal K ip == specOr cache ip) && K.all (fun p => kernelVal K p.1 != 0)

/-! ## the kernel hash map has a capacity: partial application of a failing update batch

`domain_routing_map` is a `BPF_MAP_TYPE_HASH` with `BPF_F_NO_PREALLOC` and `max_entries = 65536`. The kernel's
`BPF_MAP_UPDATE_BATCH` applies the pairs in the order given and stops at the first pair that fails: inserting a
NEW key into a full map fails with `E2BIG`, replacing an existing key never does. The prefix before the failing
pair stays applied. `syncOwner` then returns before the delete batch and before applying the snapshot. -/

/-- `BPF_MAP_UPDATE_BATCH` on a hash map of at most `cap` elements: the table afterwards and whether the whole
batch was applied. -/
def batchUpdCap (cap : Nat) : Kernel → List (Ip × Bitmap) → Kernel × Bool
  | K, [] => (K, true)
  | K, p :: rest =>
    if (alLookup p.1 K).isSome || decide (K.length < cap) then batchUpdCap cap (alInsert p.1 p.2 K) rest
    else (K, false)

/-- the update batch in the order the implementation sent it (`keysToUpdate` is filled by ranging over a Go
map, so the order is unspecified: it is observed and told to the model). Keys the observation does not
mention keep the model's order, at the end. -/
def reorder (ups : List (Ip × Bitmap)) (order : List Ip) : List (Ip × Bitmap) :=
  order.filterMap (fun k => (alLookup k ups).map fun v => (k, v)) ++ ups.filter (fun p => !order.contains p.1)

/-- `syncOwner` against a map of capacity `cap` (plus the injected behaviours of `TK.syncO`). -/
def TK.syncCap (s : TK) (cap : Nat) (order : List Ip) (o : Owner) (snap : Snapshot) (oc : Outcome) : TK × SyncRes :=
  match syncOwner s.t o snap with
  | none => (s, .rejected)
  | some (t', em) =>
    if oc = .updFail ∧ em.ups ≠ [] then (s, .updFailed)
    else
      let r := batchUpdCap cap s.K (reorder em.ups order)
      if !r.2 then (⟨s.t, r.1, s.log⟩, .updFailed)
      else if oc = .delFail ∧ em.dels ≠ [] then
        (⟨s.t, r.1, if em.ups.isEmpty then s.log else s.log ++ [(o, ⟨em.ups, []⟩)]⟩, .delFailed)
      else (⟨t', em.dels.foldl (fun K k => alErase k K) r.1, s.log ++ [(o, em)]⟩, .done)

/-- `BatchUpdateDomainRouting(cache)` against a map of capacity `cap`, the update batch sent in `order`. -/
def batchUpdateC (s : TK) (cap : Nat) (order : List Ip) (c : CacheView) (oc : Outcome) : TK × CoreErr :=
  if c.bmLen ≠ bitmapWords then (s, .bitmapLen)
  else
    let r := s.syncCap cap order c.owner ⟨c.bitmap, ansIps c.ans⟩ oc
    (r.1, CoreErr.ofRes r.2)

/-- `BatchRemoveDomainRouting(cache)` against a map of capacity `cap`. -/
def batchRemoveC (s : TK) (cap : Nat) (order : List Ip) (c : CacheView) (oc : Outcome) : TK × CoreErr :=
  let r := s.syncCap cap order c.owner Snapshot.empty oc
  (r.1, CoreErr.ofRes r.2)

/-- a batch of which only SOME entries reached the table (any subset, in any order): what a failing batch
syscall may leave behind. -/
def applySome (K : Kernel) (ups : List (Ip × Bitmap)) (dels : List Ip) : Kernel :=
  dels.foldl (fun K k => alErase k K) (ups.foldl (fun K p => alInsert p.1 p.2 K) K)

/-! ## `syncOwner` as a transition system: the tracker mutex and the two batch syscalls as separate steps

`syncOwner` takes `t.mu`, computes the two batches from the tracker, sends the update batch, sends the delete
batch, applies the snapshot to the tracker and releases `t.mu` (deferred unlock). Several goroutines (DNS
request handlers, the refresh worker, the janitor) call it concurrently. -/

inductive Stage where
  | locked    -- holds `t.mu`; batches computed, nothing sent yet
  | updSent   -- the update batch is in the table
  | delSent   -- the delete batch is in the table too; the snapshot is not applied yet
deriving DecidableEq, Repr, Inhabited

/-- who holds `t.mu` and how far its call has got. -/
structure Hold where
  tid : Nat
  o : Owner
  s : Snapshot
  stage : Stage
deriving Repr, Inhabited

/-- the tracker, the table, the mutex, each goroutine's remaining calls, and (ghost) the calls in the order
they committed. -/
structure Sys where
  t : Tracker
  K : Kernel
  lock : Option Hold
  todo : List (List (Owner × Snapshot))
  done : List (Owner × Snapshot)
deriving Repr, Inhabited

def Sys.init (progs : List (List (Owner × Snapshot))) : Sys := ⟨Tracker.empty, [], none, progs, []⟩

def setNth {α} : List α → Nat → α → List α
  | [], _, _ => []
  | _ :: l, 0, a => a :: l
  | b :: l, n + 1, a => b :: setNth l n a

/-- one step of goroutine `i` (a step that is not enabled leaves the state unchanged). -/
def tstep (σ : Sys) (i : Nat) : Sys :=
  match σ.lock with
  | none =>
    -- `t.mu.Lock()` succeeds only when nobody holds the mutex
    match σ.todo[i]? with
    | some ((o, s) :: rest) =>
      if o = "" then { σ with todo := setNth σ.todo i rest }   -- rejected before the lock is taken
      else { σ with lock := some ⟨i, o, s, .locked⟩, todo := setNth σ.todo i rest }
    | _ => σ
  | some h =>
    if h.tid ≠ i then σ   -- everybody else is blocked in `t.mu.Lock()`
    else
      let em := emitFor σ.t h.o h.s (affected σ.t h.o h.s)
      match h.stage with
      | .locked => { σ with K := em.ups.foldl (fun K p => alInsert p.1 p.2 K) σ.K, lock := some { h with stage := .updSent } }
      | .updSent => { σ with K := em.dels.foldl (fun K k => alErase k K) σ.K, lock := some { h with stage := .delSent } }
      | .delSent => { σ with t := applySnapshot σ.t h.o h.s, lock := none, done := σ.done ++ [(h.o, h.s)] }

/-- a schedule = which goroutine moves next. -/
def srun (σ : Sys) (sched : List Nat) : Sys := sched.foldl tstep σ

/-- every goroutine has finished its program and nobody holds the mutex. -/
def Sys.finished (σ : Sys) : Bool := σ.lock.isNone && σ.todo.all (·.isEmpty)

/-! ### the same with the snapshot applied and the mutex released BEFORE the syscalls (negative witness only) -/

structure HoldE where
  tid : Nat
  ups : List (Ip × Bitmap)
  dels : List Ip
deriving Repr, Inhabited

structure SysE where
  t : Tracker
  K : Kernel
  inflight : List HoldE   -- calls that have released the mutex and still owe their batches
  todo : List (List (Owner × Snapshot))
deriving Repr, Inhabited

def tstepE (σ : SysE) (i : Nat) : SysE :=
  match σ.inflight.find? (·.tid = i) with
  | some h =>
    let others := σ.inflight.filter (·.tid ≠ i)
    if h.ups ≠ [] then
      { σ with K := h.ups.foldl (fun K p => alInsert p.1 p.2 K) σ.K,
               inflight := if h.dels = [] then others else ⟨i, [], h.dels⟩ :: others }
    else { σ with K := h.dels.foldl (fun K k => alErase k K) σ.K, inflight := others }
  | none =>
    match σ.todo[i]? with
    | some ((o, s) :: rest) =>
      if o = "" then { σ with todo := setNth σ.todo i rest }
      else
        let em := emitFor σ.t o s (affected σ.t o s)
        { σ with t := applySnapshot σ.t o s, todo := setNth σ.todo i rest,
                 inflight := if em.ups = [] ∧ em.dels = [] then σ.inflight else ⟨i, em.ups, em.dels⟩ :: σ.inflight }
    | _ => σ

def srunE (σ : SysE) (sched : List Nat) : SysE := sched.foldl tstepE σ

end DaeVerif.C10
