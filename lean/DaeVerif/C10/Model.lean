/-!
# C10 — the kernel's address→domain-bitmap table mirrors the live DNS cache

Executable model (core Lean only) of

* `control/domain_routing_tracker.go` — `domainRoutingTracker` (`owners`, `ips`), `buildDomainRoutingOwnerSnapshot`,
  `desiredBitmapForKeyLocked`, `syncOwner` (the update / delete batches sent to `domain_routing_map`) and
  `applyOwnerSnapshotLocked`;
* `control/control_plane_core.go` — `BatchUpdateDomainRouting` / `BatchRemoveDomainRouting`, `extractIPsFromDnsCache`;
* the part of `control/dns_control.go` that decides *which* of those two calls happen for a cache history:
  `__updateDnsCacheDeadline` (insert / replace), `RemoveDnsRespCache`, `RemoveDnsRespCacheFamily` (request reject),
  `LookupDnsRespCache` (expiry on lookup, refresh trigger), `evictExpiredDnsCache` + `evictLRUIfFull` (janitor),
  `triggerBpfUpdateIfNeeded` / `processBpfUpdateTask` (the deferred refresh worker), with the callbacks wired as in
  `control/control_plane.go: dnsControllerOption` (access → BatchUpdate, delete → BatchRemove, *no* remove callback).

Go maps are association lists here (`alLookup` / `alInsert` / `alErase`); iteration order of a Go map is
unspecified, so everything that is emitted is compared up to order by the harness.
-/
namespace DaeVerif.C10

/-- 128-bit kernel key: the big-endian value of `netip.Addr.As16()`. -/
abbrev Ip := Nat
/-- `bpfDomainRouting.Bitmap` (`[32]uint32`) as the number whose bit `32*w + b` is bit `b` of word `w`. -/
abbrev Bitmap := Nat
/-- `DnsCache.RouteOwnerKey` (= the cache key). -/
abbrev Owner := String

/-! ## association lists -/
section AL
variable {κ : Type} [DecidableEq κ] {ν : Type}

def alLookup (k : κ) : List (κ × ν) → Option ν
  | [] => none
  | (k', v) :: rest => if k' = k then some v else alLookup k rest

/-- `delete(m, k)` -/
def alErase (k : κ) (l : List (κ × ν)) : List (κ × ν) := l.filter fun p => decide (p.1 ≠ k)

/-- `m[k] = v` -/
def alInsert (k : κ) (v : ν) (l : List (κ × ν)) : List (κ × ν) := (k, v) :: alErase k l

end AL

/-- set-like list: drop later duplicates (a Go `map[K]struct{}` built from a slice). -/
def dedup : List Ip → List Ip
  | [] => []
  | a :: l => if l.contains a then dedup l else a :: dedup l

/-- OR of a list of bitmaps (`mergeDomainRoutingOwnerBitmaps`, `orDomainRoutingBitmap`). -/
def orAll : List Bitmap → Bitmap
  | [] => 0
  | b :: l => b ||| orAll l

/-! ## the tracker -/

/-- `domainRoutingOwnerSnapshot` -/
structure Snapshot where
  bitmap : Bitmap
  ips : List Ip
deriving DecidableEq, Repr, Inhabited

def Snapshot.empty : Snapshot := ⟨0, []⟩

/-- `len(snapshot.ips) > 0 && !isZeroDomainRoutingBitmap(snapshot.bitmap)` -/
def Snapshot.effective (s : Snapshot) : Bool := !s.ips.isEmpty && s.bitmap != 0

/-- `domainRoutingIPState` -/
structure IpState where
  owners : List (Owner × Bitmap)
  merged : Bitmap
deriving DecidableEq, Repr, Inhabited

/-- `domainRoutingTracker` -/
structure Tracker where
  owners : List (Owner × Snapshot)
  ips : List (Ip × IpState)
deriving Repr, Inhabited

def Tracker.empty : Tracker := ⟨[], []⟩

/-- the other owners of `key` (the loop of `desiredBitmapForKeyLocked` skips `ownerKey`). -/
def othersOf (t : Tracker) (key : Ip) (o : Owner) : List (Owner × Bitmap) :=
  match alLookup key t.ips with
  | some st => alErase o st.owners
  | none => []

/-- `desiredBitmapForKeyLocked` : (bitmap, present). -/
def desired (t : Tracker) (key : Ip) (o : Owner) (s : Snapshot) : Bitmap × Bool :=
  let others := othersOf t key o
  if s.effective && s.ips.contains key then (orAll (others.map (·.2)) ||| s.bitmap, true)
  else (orAll (others.map (·.2)), !others.isEmpty)

inductive Act where
  | upd (v : Bitmap)
  | del
  | keep
deriving DecidableEq, Repr

/-- the `switch` in `syncOwner`. -/
def classify (t : Tracker) (key : Ip) (o : Owner) (s : Snapshot) : Act :=
  let d := desired t key o s
  match alLookup key t.ips, d.2 with
  | none, false => .keep
  | some _, false => .del
  | none, true => .upd d.1
  | some cur, true => if cur.merged ≠ d.1 then .upd d.1 else .keep

/-- what one `syncOwner` sends to the kernel map: `BpfMapBatchUpdate(keys, values)` then
`BpfMapBatchDelete(keys)`. -/
structure Emit where
  ups : List (Ip × Bitmap)
  dels : List Ip
deriving Repr, Inhabited

def updOf (t : Tracker) (o : Owner) (s : Snapshot) (k : Ip) : Option (Ip × Bitmap) :=
  match classify t k o s with
  | .upd v => some (k, v)
  | _ => none

def isDel (t : Tracker) (o : Owner) (s : Snapshot) (k : Ip) : Bool :=
  match classify t k o s with
  | .del => true
  | _ => false

def emitFor (t : Tracker) (o : Owner) (s : Snapshot) (aff : List Ip) : Emit :=
  ⟨aff.filterMap (updOf t o s), aff.filter (isDel t o s)⟩

/-- first loop of `applyOwnerSnapshotLocked`, one old address. -/
def removeOwnerAt (o : Owner) (ips : List (Ip × IpState)) (key : Ip) : List (Ip × IpState) :=
  match alLookup key ips with
  | none => ips
  | some st =>
    let ow := alErase o st.owners
    if ow.isEmpty then alErase key ips else alInsert key ⟨ow, orAll (ow.map (·.2))⟩ ips

/-- second loop of `applyOwnerSnapshotLocked`, one new address. -/
def addOwnerAt (o : Owner) (b : Bitmap) (ips : List (Ip × IpState)) (key : Ip) : List (Ip × IpState) :=
  let ow := match alLookup key ips with
    | some st => alInsert o b st.owners
    | none => alInsert o b []
  alInsert key ⟨ow, orAll (ow.map (·.2))⟩ ips

/-- `applyOwnerSnapshotLocked`, the `if old, ok := t.owners[ownerKey]; ok { … }` block. -/
def removePhase (t : Tracker) (o : Owner) : Tracker :=
  match alLookup o t.owners with
  | some old => ⟨alErase o t.owners, old.ips.foldl (removeOwnerAt o) t.ips⟩
  | none => t

/-- `applyOwnerSnapshotLocked` -/
def applySnapshot (t : Tracker) (o : Owner) (s : Snapshot) : Tracker :=
  if o = "" then t else
  let t1 : Tracker := removePhase t o
  if !s.effective then t1
  else ⟨alInsert o s t1.owners, s.ips.foldl (addOwnerAt o s.bitmap) t1.ips⟩

/-- `t.owners[ownerKey]` (zero value when absent). -/
def oldSnapshot (t : Tracker) (o : Owner) : Snapshot :=
  match alLookup o t.owners with
  | some x => x
  | none => Snapshot.empty

def affected (t : Tracker) (o : Owner) (s : Snapshot) : List Ip := dedup ((oldSnapshot t o).ips ++ s.ips)

/-- `syncOwner` with a non-nil map whose batch calls succeed: `none` = the "empty owner key" error
(nothing changed), otherwise the new tracker and the batches. -/
def syncOwner (t : Tracker) (o : Owner) (s : Snapshot) : Option (Tracker × Emit) :=
  if o = "" then none
  else some (applySnapshot t o s, emitFor t o s (affected t o s))

/-- the kernel hash map `domain_routing_map`, as the shadow obtained by applying the batches. -/
abbrev Kernel := List (Ip × Bitmap)

def applyEmit (K : Kernel) (e : Emit) : Kernel :=
  e.dels.foldl (fun K k => alErase k K) (e.ups.foldl (fun K p => alInsert p.1 p.2 K) K)

/-- What the datapath reads for an address: the stored bitmap, or nothing (= no domain rule matches). -/
def kernelVal (K : Kernel) (ip : Ip) : Bitmap :=
  match alLookup ip K with
  | some v => v
  | none => 0

/-- tracker + kernel shadow + the log of batches emitted (the log is only read by the driver). -/
structure TK where
  t : Tracker
  K : Kernel
  log : List (Owner × Emit)
deriving Repr, Inhabited

def TK.empty : TK := ⟨Tracker.empty, [], []⟩

def TK.sync (s : TK) (o : Owner) (snap : Snapshot) : TK :=
  match syncOwner s.t o snap with
  | none => s
  | some (t', em) => ⟨t', applyEmit s.K em, s.log ++ [(o, em)]⟩

/-- what the two batch syscalls of one `syncOwner` call do (environment): both succeed, the update batch
fails (atomically: nothing written), or the update batch succeeds and the delete batch fails. A batch that
is not issued (no keys) cannot fail. -/
inductive Outcome where
  | ok | updFail | delFail
deriving DecidableEq, Repr, Inhabited

inductive SyncRes where
  | done        -- both batches sent, snapshot applied
  | rejected    -- empty owner key: nothing happened
  | updFailed   -- "update domain_routing_map: …": returned before the delete batch and before applying
  | delFailed   -- "delete domain_routing_map: …": update batch is in the table, snapshot NOT applied
deriving DecidableEq, Repr, Inhabited

/-- `syncOwner` with a non-nil map whose batch calls behave as `oc` says. The code sends the update batch,
then the delete batch, and applies the owner snapshot only after both succeeded. -/
def TK.syncO (s : TK) (o : Owner) (snap : Snapshot) (oc : Outcome) : TK × SyncRes :=
  match syncOwner s.t o snap with
  | none => (s, .rejected)
  | some (t', em) =>
    if oc = .updFail ∧ em.ups ≠ [] then (s, .updFailed)
    else if oc = .delFail ∧ em.dels ≠ [] then
      (⟨s.t, applyEmit s.K ⟨em.ups, []⟩, if em.ups.isEmpty then s.log else s.log ++ [(o, ⟨em.ups, []⟩)]⟩, .delFailed)
    else (⟨t', applyEmit s.K em, s.log ++ [(o, em)]⟩, .done)

/-- `syncOwner` with `DomainRoutingMap == nil` (no kernel map at all): the snapshot is applied to the tracker,
nothing is sent. Only tied, no theorem speaks about a generation without a map. -/
def TK.syncNoMap (s : TK) (o : Owner) (snap : Snapshot) : TK :=
  match syncOwner s.t o snap with
  | none => s
  | some (t', _) => { s with t := t' }

/-! ## histories of `syncOwner` calls and what they denote (specification side) -/

/-- the owner map after `syncOwner o s`: the owner's entry is replaced by `s`, or dropped when `s` has
no addresses or a zero bitmap. -/
def setOwner (L : Owner → Option Snapshot) (o : Owner) (s : Snapshot) : Owner → Option Snapshot :=
  fun x => if x = o then (if s.effective then some s else none) else L x

/-- run a history of `syncOwner` calls. -/
def runSync (s : TK) (h : List (Owner × Snapshot)) : TK := h.foldl (fun s p => s.sync p.1 p.2) s

/-- the owner map a history denotes: the last snapshot synced for each owner (calls with the empty owner
key are rejected by the code and change nothing). -/
def liveAfter (L : Owner → Option Snapshot) (h : List (Owner × Snapshot)) : Owner → Option Snapshot :=
  h.foldl (fun L p => if p.1 = "" then L else setOwner L p.1 p.2) L

/-- a history of `syncOwner` calls with the behaviour of the batch syscalls of each; second component: the
owner map denoted by the calls that completed. -/
def runSyncO (s : TK) (L : Owner → Option Snapshot) (h : List (Owner × Snapshot × Outcome)) :
    TK × (Owner → Option Snapshot) :=
  h.foldl (fun st p =>
    let r := st.1.syncO p.1 p.2.1 p.2.2
    (r.1, if r.2 = .done then setOwner st.2 p.1 p.2.1 else st.2)) (s, L)

/-! ## `DnsCache` answers → snapshot -/

/-- one resource record of `DnsCache.Answer`, as far as `dnsAnswerIP` can tell them apart. -/
inductive Ans where
  | a4 (v : Nat)    -- `*dns.A` whose `net.IP` has 4 bytes
  | a4m (v : Nat)   -- `*dns.A` whose `net.IP` is the 16-byte `::ffff:a.b.c.d` form
  | a6 (v : Nat)    -- `*dns.AAAA`, 16 bytes
  | bad             -- `*dns.A` / `*dns.AAAA` whose `net.IP` has an invalid length (`AddrFromSlice` fails)
  | other           -- any other record type
deriving DecidableEq, Repr, Inhabited

def mapped4 (v : Nat) : Ip := 0xffff * 2 ^ 32 + v

/-- `dnsAnswerIP` + `!ip.IsUnspecified()` + `As16` (`netip`: `0.0.0.0` and `::` are unspecified,
`::ffff:0.0.0.0` is not). -/
def Ans.key? : Ans → Option Ip
  | .a4 v => if v = 0 then none else some (mapped4 v)
  | .a4m v => some (mapped4 v)
  | .a6 v => if v = 0 then none else some v
  | .bad => none
  | .other => none

/-- the set of kernel keys an answer section lists (`extractIPsFromDnsCache` into a Go map). -/
def ansIps (ans : List Ans) : List Ip := dedup (ans.filterMap Ans.key?)

/-- `len(bpfDomainRouting{}.Bitmap)` -/
def bitmapWords : Nat := 32

/-- what `BatchUpdateDomainRouting` / `BatchRemoveDomainRouting` read of a `*DnsCache`. -/
structure CacheView where
  owner : Owner
  bmLen : Nat          -- `len(cache.DomainBitmap)`
  bitmap : Bitmap
  ans : List Ans
deriving Repr, Inhabited

inductive CoreErr where
  | ok | bitmapLen | emptyOwner | updFailed | delFailed
deriving DecidableEq, Repr

def CoreErr.ofRes : SyncRes → CoreErr
  | .done => .ok
  | .rejected => .emptyOwner
  | .updFailed => .updFailed
  | .delFailed => .delFailed

/-- `BatchUpdateDomainRouting(cache)` (`none` = nil cache). -/
def batchUpdate (s : TK) (c : Option CacheView) (oc : Outcome := .ok) : TK × CoreErr :=
  match c with
  | none => (s, .ok)
  | some c =>
    if c.bmLen ≠ bitmapWords then (s, .bitmapLen)
    else
      let r := s.syncO c.owner ⟨c.bitmap, ansIps c.ans⟩ oc
      (r.1, CoreErr.ofRes r.2)

/-- `BatchRemoveDomainRouting(cache)` -/
def batchRemove (s : TK) (c : Option CacheView) (oc : Outcome := .ok) : TK × CoreErr :=
  match c with
  | none => (s, .ok)
  | some c =>
    let r := s.syncO c.owner Snapshot.empty oc
    (r.1, CoreErr.ofRes r.2)

/-! ## the DNS cache layer -/

structure Entry where
  id : Nat              -- identity of the `*DnsCache` object
  bitmap : Bitmap
  ans : List Ans
  deadline : Nat        -- ns of virtual time
  origDeadline : Nat
  lastSync : Nat        -- `lastRouteSyncNano`
  lastAccess : Nat      -- `lastAccessNano`
deriving DecidableEq, Repr, Inhabited

def Entry.snap (e : Entry) : Snapshot := ⟨e.bitmap, ansIps e.ans⟩

/-- a queued `bpfUpdateTask`: the entry object it points to (its immutable payload) and `task.now`. -/
structure Task where
  id : Nat
  key : String
  snap : Snapshot
  now : Nat
deriving Repr, Inhabited

structure Cfg where
  optEnabled : Bool
  optTtl : Nat
  maxSize : Nat
deriving Repr, Inhabited

/-- `normalizeDnsRuntimeBehavior` -/
def Cfg.normalize (c : Cfg) : Cfg :=
  if c.optTtl = 0 ∧ c.maxSize = 0 then { c with optTtl := 60 } else c

structure CState where
  cfg : Cfg
  now : Nat
  nextId : Nat
  cache : List (String × Entry)
  pending : List Task
  tk : TK
deriving Repr, Inhabited

def CState.init (cfg : Cfg) : CState := ⟨cfg.normalize, 0, 1, [], [], TK.empty⟩

def sec : Nat := 1000000000

inductive COp where
  /-- `UpdateDnsCacheTtlWithKey(key, …)` / `UpdateDnsCacheTtl(…)` (`key = ""`: the key is derived from the
  canonical name and the query type). -/
  | put (key fqdn : String) (qtype ttl : Nat) (fixedTtl : Option Nat) (bitmap : Bitmap) (ans : List Ans)
  | del (key : String)
  | fam (base : String) (order : List String)
  /-- `LookupDnsRespCache`: what it did is *observed* (entry evicted as expired / refresh task queued);
  the expiry and refresh policies are outside the property, see `predictLook`. -/
  | look (key : String) (evicted queued : Bool)
  | jan (order : List String)
  | sleep (ns : Nat)
  | work
  | touch (key : String)
  /-- `LookupDnsRespCache_` (DNS hot path), outcome observed likewise. -/
  | hot (key : String) (evicted queued : Bool)
  /-- reload: new generation (fresh tracker, `clearReloadDomainRoutingMap`), `CloneCacheForReload` +
  `RestoreReloadCache`; `assign` = the observed restore order with the bitmap the new generation's domain
  matcher gives each entry. -/
  | reload (assign : List (String × Bitmap))
deriving Repr, Inhabited

/-- `dnsCacheBaseKey` -/
def baseKey (key : String) : String :=
  match key.splitOn "|" with
  | b :: _ => b
  | [] => key

/-- `LoadAndDelete`/`CompareAndDelete` succeeded + `invokeCacheDeleteCallback` (→ `BatchRemoveDomainRouting`). -/
def CState.evict (σ : CState) (key : String) : CState :=
  if key = "" then σ else
  match alLookup key σ.cache with
  | none => σ
  | some _ => { σ with cache := alErase key σ.cache, tk := σ.tk.sync key Snapshot.empty }

/-- `NeedsBpfUpdate` for an entry created by `__updateDnsCacheDeadline` / restored on reload (its data hash
equals the marked one, so only the 60 s maximum interval triggers). Bookkeeping prediction only. -/
def needsUpdate (e : Entry) (now : Nat) : Bool := e.lastSync == 0 || decide (now - e.lastSync ≥ 60 * sec)

/-- `triggerBpfUpdateIfNeeded` when it does queue a task: the CAS stamps `lastRouteSyncNano`, the task
points at the cached object. -/
def CState.queueRefresh (σ : CState) (key : String) : CState :=
  match alLookup key σ.cache with
  | none => σ
  | some e =>
    { σ with cache := alInsert key { e with lastSync := σ.now } σ.cache,
             pending := σ.pending ++ [⟨e.id, key, e.snap, σ.now⟩] }

/-- `dnsCache.Store(key, entry)` of a fresh object + `cacheAccessCallback(entry)` (→ `BatchUpdateDomainRouting`). -/
def CState.store (σ : CState) (key : String) (e : Entry) : CState :=
  { σ with nextId := σ.nextId + 1, cache := alInsert key { e with id := σ.nextId } σ.cache,
           tk := σ.tk.sync key e.snap }

/-- `processBpfUpdateTask` for a task taken from the queue (code after the fix "a queued domain-routing
refresh is dropped when its DNS cache entry was replaced or removed meanwhile"): the task is applied only
when the object it points to is still the one cached under its key (`cur == task.cache`, pointer identity
= `id`); then `cacheAccessCallback(task.cache)` and `task.cache.MarkBpfUpdated(task.now)`. Otherwise it is
dropped. (Unpublished objects with an empty `RouteOwnerKey` are never queued in this model.) -/
def CState.applyTask (σ : CState) (t : Task) : CState :=
  match alLookup t.key σ.cache with
  | some e =>
    if e.id = t.id then
      { σ with cache := alInsert t.key { e with lastSync := t.now } σ.cache, tk := σ.tk.sync t.key t.snap }
    else σ
  | none => σ

/-- `processBpfUpdateTask` as it was BEFORE that fix (revert witness only): the task is applied
unconditionally; `MarkBpfUpdated` touches the task's own object, visible only while still cached. -/
def CState.applyTaskUnguarded (σ : CState) (t : Task) : CState :=
  let cache' := match alLookup t.key σ.cache with
    | some e => if e.id = t.id then alInsert t.key { e with lastSync := t.now } σ.cache else σ.cache
    | none => σ.cache
  { σ with cache := cache', tk := σ.tk.sync t.key t.snap }

/-- `c.cacheKey(fqdn, qtype)` for an empty `cacheKey` argument. -/
def effKey (key fqdn : String) (qtype : Nat) : String := if key = "" then fqdn ++ toString qtype else key

def cstep (σ : CState) : COp → CState
  | .put key fqdn qtype ttl fixedTtl bitmap ans =>
    let k := effKey key fqdn qtype
    if k = "" then σ else   -- cannot happen: `CanonicalName` never returns the empty string
    let dl := match fixedTtl with
      | some f => σ.now + f * sec
      | none => σ.now + ttl * sec
    -- a stored answer counts as used now (lastAccess)
    σ.store k ⟨0, bitmap, ans, dl, σ.now + ttl * sec, σ.now, σ.now⟩
  | .del key => σ.evict key
  | .fam base order =>
    if base = "" then σ else
    order.foldl (fun σ k => if baseKey k = base then σ.evict k else σ) σ
  | .look key evicted queued =>
    if evicted then σ.evict key else if queued then σ.queueRefresh key else σ
  | .jan order => order.foldl (fun σ k => σ.evict k) σ
  | .sleep ns => { σ with now := σ.now + ns }
  | .work =>
    match σ.pending with
    | [] => σ
    | t :: rest => ({ σ with pending := rest } : CState).applyTask t
  | .touch key =>
    match alLookup key σ.cache with
    | none => σ
    | some e => { σ with cache := alInsert key { e with lastAccess := σ.now } σ.cache }
  | .hot key evicted queued =>
    match alLookup key σ.cache with
    | none => σ
    | some e =>
      let σ1 : CState := { σ with cache := alInsert key { e with lastAccess := σ.now } σ.cache }
      if evicted then σ1.evict key else if queued then σ1.queueRefresh key else σ1
  | .reload assign =>
    let old := σ.cache
    let order := assign ++ (old.filter fun p => (alLookup p.1 assign).isNone).map (fun p => (p.1, p.2.bitmap))
    order.foldl (fun σ p =>
      match alLookup p.1 old with
      | some e => if p.1 = "" then σ else σ.store p.1 { e with bitmap := p.2, lastSync := σ.now }
      | none => σ) { σ with cache := [], tk := ⟨Tracker.empty, [], σ.tk.log⟩ }

def crun (σ : CState) (ops : List COp) : CState := ops.foldl cstep σ

/-! ### a put whose synchronous publish fails (environment: failing batch syscall) -/

/-- `__updateDnsCacheDeadline` when `cacheAccessCallback` returns an error (the update batch of its
`syncOwner` failed): the entry has already been stored, tracker and table are untouched, `MarkBpfUpdated` is
skipped so `lastRouteSyncNano` stays 0 and the next lookup queues a refresh. -/
def CState.storeUnsynced (σ : CState) (key : String) (e : Entry) : CState :=
  { σ with nextId := σ.nextId + 1, cache := alInsert key { e with id := σ.nextId, lastSync := 0 } σ.cache }

/-- cache operations plus the failing put. -/
inductive FOp where
  | op (o : COp)
  | putFail (key fqdn : String) (qtype ttl : Nat) (fixedTtl : Option Nat) (bitmap : Bitmap) (ans : List Ans)
deriving Repr, Inhabited

def cstepF (σ : CState) : FOp → CState
  | .op o => cstep σ o
  | .putFail key fqdn qtype ttl fixedTtl bitmap ans =>
    let k := effKey key fqdn qtype
    if k = "" then σ else
    let dl := match fixedTtl with
      | some f => σ.now + f * sec
      | none => σ.now + ttl * sec
    σ.storeUnsynced k ⟨0, bitmap, ans, dl, σ.now + ttl * sec, 0, σ.now⟩

def crunF (σ : CState) (ops : List FOp) : CState := ops.foldl cstepF σ

/-- the same machine with the pre-fix worker (revert witness only; nothing else uses it). -/
def cstepUnguarded (σ : CState) : COp → CState
  | .work =>
    match σ.pending with
    | [] => σ
    | t :: rest => ({ σ with pending := rest } : CState).applyTaskUnguarded t
  | op => cstep σ op

def crunUnguarded (σ : CState) (ops : List COp) : CState := ops.foldl cstepUnguarded σ

/-! ## legality of the nondeterministic choices the driver is told about -/

def isPerm (a b : List String) : Bool :=
  a.length == b.length && a.all (fun x => a.count x == b.count x) && b.all (fun x => a.contains x)

/-- `RemoveDnsRespCacheFamily`: the keys removed are exactly the cached keys of that base key. -/
def famLegal (σ : CState) (base : String) (order : List String) : Bool :=
  isPerm order ((σ.cache.filter fun p => baseKey p.1 == base).map (·.1))

/-- effective deadline of `evictExpiredDnsCache`. -/
def effDeadline (cfg : Cfg) (e : Entry) : Nat :=
  if cfg.optEnabled && decide (cfg.optTtl > 0) then e.deadline + cfg.optTtl * sec else e.deadline

def timeVictims (σ : CState) : List String :=
  if σ.cfg.optTtl > 0 ∨ (σ.cfg.optTtl = 0 ∧ σ.cfg.maxSize = 0) then
    (σ.cache.filter fun p => decide (effDeadline σ.cfg p.2 ≤ σ.now)).map (·.1)
  else []

/-- `evictExpiredDnsCache(now)`: first every expired key (any order), then `count - maxSize`
least-recently-accessed keys (any order, ties broken arbitrarily). -/
def janLegal (σ : CState) (order : List String) : Bool :=
  let tv := timeVictims σ
  let first := order.filter fun k => tv.contains k
  let rest := order.filter fun k => !tv.contains k
  let remaining := σ.cache.filter fun p => !tv.contains p.1
  let need := if σ.cfg.maxSize > 0 then remaining.length - σ.cfg.maxSize else 0
  let victims := remaining.filter fun p => rest.contains p.1
  let survivors := remaining.filter fun p => !rest.contains p.1
  isPerm first tv && rest.length == need && victims.length == need &&
    victims.all (fun v => survivors.all fun s => decide (v.2.lastAccess ≤ s.2.lastAccess))

/-- `RestoreReloadCache`: every cached key is restored exactly once. -/
def reloadLegal (σ : CState) (assign : List (String × Bitmap)) : Bool :=
  isPerm (assign.map (·.1)) (σ.cache.map (·.1))

/-! ## bookkeeping predictions (expiry / refresh policy; outside the property, reported as drift only) -/

/-- what `LookupDnsRespCache(key, ignoreFixed)` is expected to do: (evicted, queued). -/
def predictLook (σ : CState) (key : String) (ignoreFixed : Bool) : Bool × Bool :=
  match alLookup key σ.cache with
  | none => (false, false)
  | some e =>
    let dl := if ignoreFixed then e.origDeadline else e.deadline
    if dl ≤ σ.now then (true, false) else (false, needsUpdate e σ.now)

/-- what `LookupDnsRespCache_(msg, key, false)` is expected to do, given whether a pre-packed response is
available (C08's subject): (evicted, queued). -/
def predictHot (σ : CState) (key : String) (packed : Bool) : Bool × Bool :=
  match alLookup key σ.cache with
  | none => (false, false)
  | some e =>
    if σ.now < e.deadline then (false, packed && needsUpdate e σ.now)
    else if σ.cfg.optEnabled && packed &&
        (σ.cfg.optTtl == 0 || decide (σ.now ≤ e.deadline + σ.cfg.optTtl * sec)) then (false, false)
    else (true, false)

/-! ## the executable specification (what the property says the table must hold) -/

/-- union of the bitmaps of the cache entries that list `ip`. -/
def specOr (cache : List (String × Entry)) (ip : Ip) : Bitmap :=
  orAll ((cache.filter fun p => (ansIps p.2.ans).contains ip).map (·.2.bitmap))

/-- the table equals the specification on every address that occurs anywhere, and stores no zero value. -/
def mirrorOk (cache : List (String × Entry)) (K : Kernel) : Bool :=
  let addrs := K.map (·.1) ++ cache.flatMap (fun p => ansIps p.2.ans)
  addrs.all (fun ip => kernelVal K ip == specOr cache ip) && K.all (fun p => kernelVal K p.1 != 0)

end DaeVerif.C10
