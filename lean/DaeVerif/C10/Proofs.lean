import DaeVerif.C10.Model
/-! Helper lemmas for C10 (association lists, OR of bitmaps, the tracker invariant). -/
namespace DaeVerif.C10

/-! ## association lists -/
section AL
variable {κ : Type} [DecidableEq κ] {ν : Type}

theorem alLookup_erase (k k' : κ) (l : List (κ × ν)) :
    alLookup k' (alErase k l) = if k' = k then none else alLookup k' l := by
  induction l with
  | nil => simp [alErase, alLookup]
  | cons p l ih =>
    obtain ⟨a, v⟩ := p
    unfold alErase at ih ⊢
    by_cases h : a = k
    · subst h
      simp only [List.filter_cons, ne_eq, not_true_eq_false, decide_false, Bool.false_eq_true, if_false, ih, alLookup]
      by_cases h2 : k' = a
      · simp [h2]
      · have : ¬ a = k' := fun e => h2 e.symm
        simp [h2, this]
    · simp only [List.filter_cons, ne_eq, h, not_false_eq_true, decide_true, if_true, alLookup, ih]
      by_cases h2 : a = k'
      · subst h2; simp [h]
      · simp [h2]

theorem alLookup_insert (k k' : κ) (v : ν) (l : List (κ × ν)) :
    alLookup k' (alInsert k v l) = if k' = k then some v else alLookup k' l := by
  unfold alInsert
  simp only [alLookup, alLookup_erase]
  by_cases h : k = k'
  · subst h; simp
  · have : ¬ k' = k := fun e => h e.symm
    simp [h, this]

theorem alErase_of_lookup_none (k : κ) (l : List (κ × ν)) (h : alLookup k l = none) : alErase k l = l := by
  induction l with
  | nil => rfl
  | cons p l ih =>
    obtain ⟨a, v⟩ := p
    simp only [alLookup] at h
    by_cases h2 : a = k
    · simp [h2] at h
    · simp only [h2, if_false] at h
      have := ih h
      unfold alErase at this ⊢
      rw [List.filter_cons]
      simp only [ne_eq, h2, not_false_eq_true, decide_true, if_true, this]

theorem alErase_idem (k : κ) (l : List (κ × ν)) : alErase k (alErase k l) = alErase k l :=
  alErase_of_lookup_none k _ (by simp [alLookup_erase])

theorem al_eq_nil_of_lookup_none (l : List (κ × ν)) (h : ∀ k, alLookup k l = none) : l = [] := by
  cases l with
  | nil => rfl
  | cons p l =>
    obtain ⟨a, v⟩ := p
    have := h a
    simp [alLookup] at this

theorem alLookup_nil (k : κ) : alLookup k ([] : List (κ × ν)) = none := rfl

/-- no key occurs twice -/
def NoDupKeys (l : List (κ × ν)) : Prop := (l.map (·.1)).Nodup

theorem mem_of_alLookup {k : κ} {v : ν} {l : List (κ × ν)} (h : alLookup k l = some v) : (k, v) ∈ l := by
  induction l with
  | nil => simp [alLookup] at h
  | cons p l ih =>
    obtain ⟨a, w⟩ := p
    simp only [alLookup] at h
    by_cases h2 : a = k
    · simp only [h2, if_true, Option.some.injEq] at h
      subst h2; subst h; simp
    · simp only [h2, if_false] at h
      exact List.mem_cons_of_mem _ (ih h)

theorem alLookup_of_mem {k : κ} {v : ν} {l : List (κ × ν)} (hn : NoDupKeys l) (h : (k, v) ∈ l) :
    alLookup k l = some v := by
  induction l with
  | nil => simp at h
  | cons p l ih =>
    obtain ⟨a, w⟩ := p
    unfold NoDupKeys at hn ih
    simp only [List.map_cons, List.nodup_cons] at hn
    simp only [alLookup]
    rcases List.mem_cons.mp h with h1 | h1
    · injection h1 with h1 h2; subst h1; subst h2; simp
    · have : a ≠ k := by
        intro e; subst e
        exact hn.1 (List.mem_map.mpr ⟨(a, v), h1, rfl⟩)
      simp only [this, if_false]
      exact ih hn.2 h1

theorem NoDupKeys_erase (k : κ) {l : List (κ × ν)} (h : NoDupKeys l) : NoDupKeys (alErase k l) := by
  unfold NoDupKeys alErase at *
  exact (List.filter_sublist.map _).nodup h

theorem NoDupKeys_insert (k : κ) (v : ν) {l : List (κ × ν)} (h : NoDupKeys l) : NoDupKeys (alInsert k v l) := by
  have h1 := NoDupKeys_erase k h
  unfold NoDupKeys alInsert at *
  simp only [List.map_cons, List.nodup_cons]
  refine ⟨?_, h1⟩
  intro hm
  obtain ⟨p, hp, he⟩ := List.mem_map.mp hm
  unfold alErase at hp
  have := (List.mem_filter.mp hp).2
  simp [he] at this

omit [DecidableEq κ] in
theorem NoDupKeys_nil : NoDupKeys ([] : List (κ × ν)) := by simp [NoDupKeys]

end AL

/-! ## dedup, orAll -/

theorem mem_dedup (a : Ip) (l : List Ip) : a ∈ dedup l ↔ a ∈ l := by
  induction l with
  | nil => simp [dedup]
  | cons b l ih =>
    unfold dedup
    by_cases h : l.contains b = true
    · simp only [h, if_true, ih, List.mem_cons]
      constructor
      · exact Or.inr
      · rintro (e | e)
        · subst e; simpa using h
        · exact e
    · simp only [h, Bool.false_eq_true, if_false, List.mem_cons, ih]

theorem testBit_orAll (l : List Bitmap) (i : Nat) : (orAll l).testBit i = l.any (·.testBit i) := by
  induction l with
  | nil => simp [orAll]
  | cons b l ih => simp [orAll, Nat.testBit_or, ih]

theorem orAll_eq_zero_of_nil : orAll [] = 0 := rfl

/-! ## pointwise behaviour of the two loops of `applyOwnerSnapshotLocked` -/

def norm (l : List (Owner × Bitmap)) : Option IpState :=
  if l.isEmpty then none else some ⟨l, orAll (l.map (·.2))⟩

def rmAt (o : Owner) : Option IpState → Option IpState
  | none => none
  | some st => norm (alErase o st.owners)

def addAt (o : Owner) (b : Bitmap) : Option IpState → Option IpState
  | some st => some ⟨alInsert o b st.owners, orAll ((alInsert o b st.owners).map (·.2))⟩
  | none => some ⟨alInsert o b [], orAll ((alInsert o b []).map (·.2))⟩

theorem lookup_removeOwnerAt (o : Owner) (ips : List (Ip × IpState)) (key k : Ip) :
    alLookup k (removeOwnerAt o ips key) = if k = key then rmAt o (alLookup key ips) else alLookup k ips := by
  unfold removeOwnerAt
  cases h : alLookup key ips with
  | none =>
    by_cases hk : k = key
    · subst hk; simp [h, rmAt]
    · simp [hk]
  | some st =>
    simp only [rmAt, norm]
    by_cases he : (alErase o st.owners).isEmpty = true
    · simp only [he, if_true, alLookup_erase]
    · simp only [he, Bool.false_eq_true, if_false, alLookup_insert]

theorem lookup_addOwnerAt (o : Owner) (b : Bitmap) (ips : List (Ip × IpState)) (key k : Ip) :
    alLookup k (addOwnerAt o b ips key) = if k = key then addAt o b (alLookup key ips) else alLookup k ips := by
  unfold addOwnerAt
  rw [alLookup_insert]
  cases h : alLookup key ips <;> simp [addAt]

theorem lookup_foldl_pointwise {ν : Type} (g : List (Ip × ν) → Ip → List (Ip × ν)) (f : Option ν → Option ν)
    (hg : ∀ m key k, alLookup k (g m key) = if k = key then f (alLookup key m) else alLookup k m)
    (hf : ∀ x, f (f x) = f x) (keys : List Ip) : ∀ (m : List (Ip × ν)) (k : Ip),
    alLookup k (keys.foldl g m) = if k ∈ keys then f (alLookup k m) else alLookup k m := by
  induction keys with
  | nil => intro m k; simp
  | cons a keys ih =>
    intro m k
    simp only [List.foldl_cons, ih, hg, List.mem_cons]
    by_cases hk : k = a
    · subst hk
      by_cases hm : k ∈ keys <;> simp [hm, hf]
    · by_cases hm : k ∈ keys <;> simp [hm, hk]

theorem rmAt_idem (o : Owner) (x : Option IpState) : rmAt o (rmAt o x) = rmAt o x := by
  cases x with
  | none => rfl
  | some st =>
    simp only [rmAt, norm]
    by_cases he : (alErase o st.owners).isEmpty = true
    · simp [he]
    · simp only [he, Bool.false_eq_true, if_false, alErase_idem]

theorem alInsert_idem {κ ν : Type} [DecidableEq κ] (k : κ) (v : ν) (l : List (κ × ν)) :
    alInsert k v (alInsert k v l) = alInsert k v l := by
  unfold alInsert
  congr 1
  have : alErase k ((k, v) :: alErase k l) = alErase k (alErase k l) := by
    unfold alErase; simp
  rw [this, alErase_idem]

theorem addAt_idem (o : Owner) (b : Bitmap) (x : Option IpState) : addAt o b (addAt o b x) = addAt o b x := by
  cases x <;> simp [addAt, alInsert_idem]

/-! ## the tracker invariant -/

/-- what owner `o` contributes to address `key` under the owner map `L`. -/
def ownBit (L : Owner → Option Snapshot) (key : Ip) (o : Owner) : Option Bitmap :=
  match L o with
  | some s => if s.ips.contains key then some s.bitmap else none
  | none => none

/-- `t` / `K` are the tracker and kernel table that denote the owner map `L`. -/
structure Inv (t : Tracker) (K : Kernel) (L : Owner → Option Snapshot) : Prop where
  owners : ∀ o, alLookup o t.owners = L o
  eff : ∀ o s, L o = some s → s.effective = true
  noEmpty : L "" = none
  st : ∀ key st, alLookup key t.ips = some st →
    NoDupKeys st.owners ∧ st.owners ≠ [] ∧ st.merged = orAll (st.owners.map (·.2)) ∧
      ∀ o, alLookup o st.owners = ownBit L key o
  none : ∀ key, alLookup key t.ips = none → ∀ o, ownBit L key o = none
  kern : ∀ key, alLookup key K = (alLookup key t.ips).map (·.merged)

/-- the post-state of one address, computed from the pre-state. -/
def target (t : Tracker) (key : Ip) (o : Owner) (s : Snapshot) : Option IpState :=
  if s.effective && s.ips.contains key then
    some ⟨alInsert o s.bitmap (othersOf t key o), orAll ((alInsert o s.bitmap (othersOf t key o)).map (·.2))⟩
  else norm (othersOf t key o)

theorem lookup_others {t : Tracker} {K : Kernel} {L : Owner → Option Snapshot} (hI : Inv t K L)
    (key : Ip) (o x : Owner) :
    alLookup x (othersOf t key o) = if x = o then none else ownBit L key x := by
  unfold othersOf
  cases h : alLookup key t.ips with
  | none =>
    simp only [alLookup_nil, hI.none key h]
    split <;> rfl
  | some st =>
    simp only [alLookup_erase, (hI.st key st h).2.2.2]

theorem nodup_others {t : Tracker} {K : Kernel} {L : Owner → Option Snapshot} (hI : Inv t K L)
    (key : Ip) (o : Owner) : NoDupKeys (othersOf t key o) := by
  unfold othersOf
  cases h : alLookup key t.ips with
  | none => exact NoDupKeys_nil
  | some st => exact NoDupKeys_erase o (hI.st key st h).1

/-- an address the owner did not list keeps its state: it already equals `norm others`. -/
theorem unchanged_eq_norm {t : Tracker} {K : Kernel} {L : Owner → Option Snapshot} (hI : Inv t K L)
    (key : Ip) (o : Owner) (h : ownBit L key o = none) :
    alLookup key t.ips = norm (othersOf t key o) := by
  unfold othersOf
  cases ha : alLookup key t.ips with
  | none => simp [norm]
  | some st =>
    obtain ⟨_, hne, hm, hl⟩ := hI.st key st ha
    have : alErase o st.owners = st.owners := alErase_of_lookup_none o _ (by rw [hl, h])
    simp only [this, norm]
    have : st.owners.isEmpty = false := by
      cases hs : st.owners with
      | nil => exact absurd hs hne
      | cons _ _ => rfl
    simp only [this, Bool.false_eq_true, if_false, ← hm]

theorem rmAt_eq_norm (t : Tracker) (key : Ip) (o : Owner) :
    rmAt o (alLookup key t.ips) = norm (othersOf t key o) := by
  unfold othersOf
  cases alLookup key t.ips with
  | none => simp [rmAt, norm]
  | some st => simp [rmAt]

theorem addAt_norm (o : Owner) (b : Bitmap) (l : List (Owner × Bitmap)) :
    addAt o b (norm l) = some ⟨alInsert o b l, orAll ((alInsert o b l).map (·.2))⟩ := by
  unfold norm
  cases l with
  | nil => simp [addAt]
  | cons p l => simp [addAt]

theorem lookup_applySnapshot_ips {t : Tracker} {K : Kernel} {L : Owner → Option Snapshot} (hI : Inv t K L)
    (o : Owner) (ho : o ≠ "") (s : Snapshot) (key : Ip) :
    alLookup key (applySnapshot t o s).ips = target t key o s := by
  -- state after the removal loop
  have h1 : alLookup key (removePhase t o).ips = norm (othersOf t key o) := by
    unfold removePhase
    cases hold : alLookup o t.owners with
    | none =>
      apply unchanged_eq_norm hI
      unfold ownBit; rw [← hI.owners, hold]
    | some old =>
      simp only
      rw [lookup_foldl_pointwise (removeOwnerAt o) (rmAt o) (lookup_removeOwnerAt o) (rmAt_idem o)]
      by_cases hm : key ∈ old.ips
      · simp only [hm, if_true, rmAt_eq_norm]
      · simp only [hm, if_false]
        apply unchanged_eq_norm hI
        unfold ownBit; rw [← hI.owners, hold]
        simp [hm]
  unfold applySnapshot target
  simp only [ho, if_false]
  by_cases he : s.effective = true
  · simp only [he, Bool.not_true, Bool.false_eq_true, if_false, Bool.true_and]
    rw [lookup_foldl_pointwise (addOwnerAt o s.bitmap) (addAt o s.bitmap) (lookup_addOwnerAt o s.bitmap)
      (addAt_idem o s.bitmap)]
    rw [h1]
    by_cases hm : key ∈ s.ips
    · simp [hm, addAt_norm]
    · simp [hm]
  · simp only [Bool.not_eq_true] at he
    simp only [he, Bool.not_false, if_true, Bool.false_and, Bool.false_eq_true, if_false]
    exact h1

theorem ownBit_setOwner (L : Owner → Option Snapshot) (o : Owner) (s : Snapshot) (key : Ip) (x : Owner) :
    ownBit (setOwner L o s) key x =
      if x = o then (if s.effective && s.ips.contains key then some s.bitmap else none) else ownBit L key x := by
  unfold ownBit setOwner
  by_cases hx : x = o
  · simp only [hx, if_true]
    by_cases he : s.effective = true
    · simp [he]
    · simp only [Bool.not_eq_true] at he
      simp [he]
  · simp [hx]

theorem isEmpty_false_of_ne_nil {α : Type} {l : List α} (h : l ≠ []) : l.isEmpty = false := by
  cases l with
  | nil => exact absurd rfl h
  | cons _ _ => rfl

/-- the post-state of every address denotes the new owner map. -/
theorem target_spec {t : Tracker} {K : Kernel} {L : Owner → Option Snapshot} (hI : Inv t K L)
    (o : Owner) (s : Snapshot) (key : Ip) :
    match target t key o s with
    | none => ∀ x, ownBit (setOwner L o s) key x = none
    | some st => NoDupKeys st.owners ∧ st.owners ≠ [] ∧ st.merged = orAll (st.owners.map (·.2)) ∧
        ∀ x, alLookup x st.owners = ownBit (setOwner L o s) key x := by
  unfold target
  by_cases hc : (s.effective && s.ips.contains key) = true
  · simp only [hc, if_true]
    refine ⟨NoDupKeys_insert _ _ (nodup_others hI key o), by simp [alInsert], trivial, ?_⟩
    intro x
    rw [alLookup_insert, lookup_others hI, ownBit_setOwner]
    simp only [hc, if_true]
    by_cases hx : x = o <;> simp [hx]
  · simp only [hc, Bool.false_eq_true, if_false, norm]
    by_cases he : (othersOf t key o).isEmpty = true
    · simp only [he, if_true]
      intro x
      rw [ownBit_setOwner]
      simp only [hc, Bool.false_eq_true, if_false]
      by_cases hx : x = o
      · simp [hx]
      · simp only [hx, if_false]
        have := lookup_others hI key o x
        simp only [hx, if_false] at this
        rw [← this, List.isEmpty_iff.mp he]
        rfl
    · simp only [he, Bool.false_eq_true, if_false]
      refine ⟨nodup_others hI key o, ?_, trivial, ?_⟩
      · intro h; rw [h] at he; simp at he
      · intro x
        rw [lookup_others hI, ownBit_setOwner]
        simp only [hc, Bool.false_eq_true, if_false]

/-! ## the batches -/

/-- the table entry of `key` after the batches of one `syncOwner`, if `key` is among the affected. -/
def kAfter (t : Tracker) (K : Kernel) (o : Owner) (s : Snapshot) (key : Ip) : Option Bitmap :=
  match classify t key o s with
  | .upd v => some v
  | .del => none
  | .keep => alLookup key K

theorem lookup_ups (t : Tracker) (o : Owner) (s : Snapshot) (aff : List Ip) (k : Ip) : ∀ K : Kernel,
    alLookup k ((aff.filterMap (updOf t o s)).foldl (fun K p => alInsert p.1 p.2 K) K) =
      if k ∈ aff then (match classify t k o s with
        | .upd v => some v
        | _ => alLookup k K) else alLookup k K := by
  induction aff with
  | nil => intro K; simp
  | cons a aff ih =>
    intro K
    rw [List.filterMap_cons]
    cases hc : classify t a o s with
    | upd v =>
      simp only [updOf, hc, List.foldl_cons, ih, alLookup_insert, List.mem_cons]
      by_cases hk : k = a
      · subst hk; simp [hc]
      · simp only [hk, if_false, false_or]
    | del =>
      simp only [updOf, hc, ih, List.mem_cons]
      by_cases hk : k = a
      · subst hk; simp [hc]
      · simp [hk]
    | keep =>
      simp only [updOf, hc, ih, List.mem_cons]
      by_cases hk : k = a
      · subst hk; simp [hc]
      · simp [hk]

theorem lookup_dels (p : Ip → Bool) (aff : List Ip) (k : Ip) : ∀ K : Kernel,
    alLookup k ((aff.filter p).foldl (fun K k => alErase k K) K) =
      if k ∈ aff ∧ p k = true then none else alLookup k K := by
  induction aff with
  | nil => intro K; simp
  | cons a aff ih =>
    intro K
    rw [List.filter_cons]
    by_cases hp : p a = true
    · simp only [hp, if_true, List.foldl_cons, ih, alLookup_erase, List.mem_cons]
      by_cases hk : k = a
      · subst hk; simp [hp]
      · simp [hk]
    · simp only [hp, Bool.false_eq_true, if_false, ih, List.mem_cons]
      by_cases hk : k = a
      · subst hk; simp [hp]
      · simp [hk]

theorem lookup_applyEmit (t : Tracker) (K : Kernel) (o : Owner) (s : Snapshot) (aff : List Ip) (key : Ip) :
    alLookup key (applyEmit K (emitFor t o s aff)) =
      if key ∈ aff then kAfter t K o s key else alLookup key K := by
  unfold applyEmit emitFor
  simp only [lookup_dels, lookup_ups, kAfter, isDel]
  by_cases hm : key ∈ aff
  · simp only [hm, true_and, if_true]
    cases classify t key o s <;> simp
  · simp [hm]

theorem mem_affected (t : Tracker) (o : Owner) (s : Snapshot) (key : Ip) :
    key ∈ affected t o s ↔ key ∈ (oldSnapshot t o).ips ∨ key ∈ s.ips := by
  simp [affected, mem_dedup]

theorem others_nil_of_none {t : Tracker} {key : Ip} (o : Owner) (h : alLookup key t.ips = none) :
    othersOf t key o = [] := by
  simp [othersOf, h]

theorem kAfter_eq_target {t : Tracker} {K : Kernel} {L : Owner → Option Snapshot} (hI : Inv t K L)
    (o : Owner) (s : Snapshot) (key : Ip) :
    kAfter t K o s key = (target t key o s).map (·.merged) := by
  have hk := hI.kern key
  have hlo : alErase o (othersOf t key o) = othersOf t key o :=
    alErase_of_lookup_none _ _ (by rw [lookup_others hI]; simp)
  unfold kAfter classify desired target
  by_cases hc : (s.effective && s.ips.contains key) = true
  · simp only [hc, if_true, Option.map_some]
    have hcomm : orAll (List.map (fun x => x.snd) (alInsert o s.bitmap (othersOf t key o))) =
        orAll (List.map (fun x => x.snd) (othersOf t key o)) ||| s.bitmap := by
      simp only [alInsert, hlo, List.map_cons, orAll, Nat.or_comm]
    rw [hcomm]
    cases ha : alLookup key t.ips with
    | none => simp
    | some cur =>
      simp only
      by_cases hne : cur.merged = orAll (List.map (fun x => x.snd) (othersOf t key o)) ||| s.bitmap
      · simp [hne, hk, ha]
      · simp [hne]
  · simp only [hc, Bool.false_eq_true, if_false, norm]
    cases ha : alLookup key t.ips with
    | none =>
      simp [others_nil_of_none o ha, hk, ha]
    | some cur =>
      by_cases he : (othersOf t key o).isEmpty = true
      · simp [he]
      · simp only [Bool.not_eq_true] at he
        simp only [he, Bool.not_false, Bool.false_eq_true, if_false, Option.map_some]
        by_cases hne : cur.merged = orAll (List.map (fun x => x.snd) (othersOf t key o))
        · simp [hne, hk, ha]
        · simp [hne]

theorem target_of_not_affected {t : Tracker} {K : Kernel} {L : Owner → Option Snapshot} (hI : Inv t K L)
    (o : Owner) (s : Snapshot) (key : Ip) (h : key ∉ affected t o s) :
    target t key o s = alLookup key t.ips := by
  rw [mem_affected] at h
  have h1 : key ∉ (oldSnapshot t o).ips := fun x => h (Or.inl x)
  have h2 : key ∉ s.ips := fun x => h (Or.inr x)
  unfold target
  have : s.ips.contains key = false := by simpa using h2
  simp only [this, Bool.and_false, Bool.false_eq_true, if_false]
  symm
  apply unchanged_eq_norm hI
  unfold ownBit
  rw [← hI.owners]
  unfold oldSnapshot at h1
  cases hold : alLookup o t.owners with
  | none => rfl
  | some old =>
    rw [hold] at h1
    simp [h1]

theorem lookup_removePhase_owners {t : Tracker} {K : Kernel} {L : Owner → Option Snapshot} (hI : Inv t K L)
    (o x : Owner) : alLookup x (removePhase t o).owners = if x = o then none else L x := by
  unfold removePhase
  cases hold : alLookup o t.owners with
  | none =>
    simp only
    by_cases hx : x = o
    · subst hx; simp [hold]
    · simp [hx, hI.owners]
  | some old => simp only [alLookup_erase, hI.owners]

/-- **One `syncOwner` preserves the invariant**, for the owner map updated at `o`. -/
theorem Inv_sync {t : Tracker} {K : Kernel} {L : Owner → Option Snapshot} (hI : Inv t K L)
    (o : Owner) (ho : o ≠ "") (s : Snapshot) :
    Inv (applySnapshot t o s) (applyEmit K (emitFor t o s (affected t o s))) (setOwner L o s) := by
  have hips := lookup_applySnapshot_ips hI o ho s
  refine ⟨?_, ?_, ?_, ?_, ?_, ?_⟩
  · -- owners
    intro x
    unfold applySnapshot setOwner
    simp only [ho, if_false]
    have hrem := lookup_removePhase_owners hI o
    by_cases he : s.effective = true
    · simp only [he, Bool.not_true, Bool.false_eq_true, if_false, if_true, alLookup_insert, hrem]
      by_cases hx : x = o <;> simp [hx]
    · simp only [Bool.not_eq_true] at he
      simp only [he, Bool.not_false, if_true, hrem, Bool.false_eq_true, if_false]
  · -- eff
    intro x sx h
    unfold setOwner at h
    by_cases hx : x = o
    · simp only [hx, if_true] at h
      by_cases he : s.effective = true
      · simp only [he, if_true, Option.some.injEq] at h; subst h; exact he
      · simp [he] at h
    · simp only [hx, if_false] at h
      exact hI.eff x sx h
  · -- noEmpty
    unfold setOwner
    have : ¬ ("" = o) := fun e => ho e.symm
    simp only [this, if_false]
    exact hI.noEmpty
  · -- st
    intro key st hst
    rw [hips] at hst
    have := target_spec hI o s key
    rw [hst] at this
    exact this
  · -- none
    intro key hnone
    rw [hips] at hnone
    have := target_spec hI o s key
    rw [hnone] at this
    exact this
  · -- kern
    intro key
    rw [lookup_applyEmit, hips]
    by_cases hm : key ∈ affected t o s
    · simp only [hm, if_true]
      exact kAfter_eq_target hI o s key
    · simp only [hm, if_false, target_of_not_affected hI o s key hm]
      exact hI.kern key

theorem Inv_empty : Inv Tracker.empty [] (fun _ => none) :=
  ⟨fun _ => rfl, fun _ _ h => by simp at h, rfl, fun _ _ h => by simp [Tracker.empty, alLookup] at h,
   fun _ _ _ => rfl, fun _ => rfl⟩

/-! ## consequences of the invariant -/

theorem Inv.kernel_bit {t : Tracker} {K : Kernel} {L : Owner → Option Snapshot} (hI : Inv t K L) (ip : Ip) (i : Nat) :
    (kernelVal K ip).testBit i = true ↔
      ∃ o s, L o = some s ∧ ip ∈ s.ips ∧ s.bitmap.testBit i = true := by
  unfold kernelVal
  rw [hI.kern ip]
  cases hst : alLookup ip t.ips with
  | none =>
    simp only [Option.map_none, Nat.zero_testBit, Bool.false_eq_true, false_iff]
    rintro ⟨o, s, hL, hm, _⟩
    have := hI.none ip hst o
    unfold ownBit at this
    rw [hL] at this
    simp [hm] at this
  | some st =>
    obtain ⟨hnd, _, hm, hl⟩ := hI.st ip st hst
    simp only [Option.map_some, hm, testBit_orAll, List.any_map, List.any_eq_true, Function.comp]
    constructor
    · rintro ⟨⟨o, b⟩, hmem, hb⟩
      have h1 := alLookup_of_mem hnd hmem
      rw [hl] at h1
      unfold ownBit at h1
      cases hL : L o with
      | none => simp [hL] at h1
      | some s =>
        simp [hL] at h1
        exact ⟨o, s, hL, h1.1, by rw [h1.2]; exact hb⟩
    · rintro ⟨o, s, hL, hmem, hb⟩
      have h1 : alLookup o st.owners = some s.bitmap := by
        rw [hl]; unfold ownBit; rw [hL]; simp [hmem]
      exact ⟨(o, s.bitmap), mem_of_alLookup h1, hb⟩

theorem ne_zero_of_testBit {b i : Nat} (h : b.testBit i = true) : b ≠ 0 := by
  intro e; subst e; simp at h

theorem Inv.no_orphan {t : Tracker} {K : Kernel} {L : Owner → Option Snapshot} (hI : Inv t K L) (ip : Ip) (v : Bitmap)
    (h : alLookup ip K = some v) :
    v ≠ 0 ∧ ∃ o s, L o = some s ∧ ip ∈ s.ips ∧ s.bitmap ≠ 0 := by
  rw [hI.kern ip] at h
  cases hst : alLookup ip t.ips with
  | none => simp [hst] at h
  | some st =>
    simp only [hst, Option.map_some, Option.some.injEq] at h
    obtain ⟨_, hne, hm, hl⟩ := hI.st ip st hst
    cases hown : st.owners with
    | nil => exact absurd hown hne
    | cons p rest =>
      obtain ⟨o, b⟩ := p
      have h1 : alLookup o st.owners = some b := by rw [hown]; simp [alLookup]
      rw [hl] at h1
      unfold ownBit at h1
      cases hL : L o with
      | none => simp [hL] at h1
      | some s =>
        simp [hL] at h1
        have heff := hI.eff o s hL
        have hb : s.bitmap ≠ 0 := by
          unfold Snapshot.effective at heff
          simp only [Bool.and_eq_true, bne_iff_ne, ne_eq] at heff
          exact heff.2
        refine ⟨?_, o, s, hL, h1.1, hb⟩
        obtain ⟨i, hi⟩ := Nat.exists_testBit_of_ne_zero hb
        apply ne_zero_of_testBit (i := i)
        rw [← h, hm, testBit_orAll, hown]
        simp [← h1.2, hi]

/-- invariant along any history of `syncOwner` calls. -/
theorem Inv_runSync (h : List (Owner × Snapshot)) : ∀ (s : TK) (L : Owner → Option Snapshot), Inv s.t s.K L →
    Inv (runSync s h).t (runSync s h).K (liveAfter L h) := by
  induction h with
  | nil => intro s L hI; exact hI
  | cons p h ih =>
    intro s L hI
    unfold runSync liveAfter
    simp only [List.foldl_cons]
    apply ih
    unfold TK.sync syncOwner
    by_cases ho : p.1 = ""
    · simp only [ho, if_true]; exact hI
    · simp only [ho, if_false]
      exact Inv_sync hI p.1 ho p.2

end DaeVerif.C10
