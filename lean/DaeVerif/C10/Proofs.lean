import DaeVerif.C10.Model
/-! Helper lemmas for C10 (association lists, OR of bitmaps, the tracker invariant). -/
namespace DaeVerif.C10

/-! ## association lists -/
section AL
variable {κ : Type} [DecidableEq κ] {ν : Type}

theorem alLookup_erase (k k' : κ) (l : List (κ × ν)) :
    alLookup k' (alErase k l) = if k' = k then none else alLookup k' l := by
  induction l with
  | nil => simp [alErase, alLookup]
  | cons p l ih =>
    obtain ⟨a, v⟩ := p
    unfold alErase at ih ⊢
    by_cases h : a = k
    · subst h
      simp only [List.filter_cons, ne_eq, not_true_eq_false, decide_false, Bool.false_eq_true, if_false, ih, alLookup]
      by_cases h2 : k' = a
      · simp [h2]
      · have : ¬ a = k' := fun e => h2 e.symm
        simp [h2, this]
    · simp only [List.filter_cons, ne_eq, h, not_false_eq_true, decide_true, if_true, alLookup, ih]
      by_cases h2 : a = k'
      · subst h2; simp [h]
      · simp [h2]

theorem alLookup_insert (k k' : κ) (v : ν) (l : List (κ × ν)) :
    alLookup k' (alInsert k v l) = if k' = k then some v else alLookup k' l := by
  unfold alInsert
  simp only [alLookup, alLookup_erase]
  by_cases h : k = k'
  · subst h; simp
  · have : ¬ k' = k := fun e => h e.symm
    simp [h, this]

theorem alErase_of_lookup_none (k : κ) (l : List (κ × ν)) (h : alLookup k l = none) : alErase k l = l := by
  induction l with
  | nil => rfl
  | cons p l ih =>
    obtain ⟨a, v⟩ := p
    simp only [alLookup] at h
    by_cases h2 : a = k
    · simp [h2] at h
    · simp only [h2, if_false] at h
      have := ih h
      unfold alErase at this ⊢
      rw [List.filter_cons]
      simp only [ne_eq, h2, not_false_eq_true, decide_true, if_true, this]

theorem alErase_idem (k : κ) (l : List (κ × ν)) : alErase k (alErase k l) = alErase k l :=
  alErase_of_lookup_none k _ (by simp [alLookup_erase])

theorem al_eq_nil_of_lookup_none (l : List (κ × ν)) (h : ∀ k, alLookup k l = none) : l = [] := by
  cases l with
  | nil => rfl
  | cons p l =>
    obtain ⟨a, v⟩ := p
    have := h a
    simp [alLookup] at this

theorem alLookup_nil (k : κ) : alLookup k ([] : List (κ × ν)) = none := rfl

/-- no key occurs twice -/
def NoDupKeys (l : List (κ × ν)) : Prop := (l.map (·.1)).Nodup

theorem mem_of_alLookup {k : κ} {v : ν} {l : List (κ × ν)} (h : alLookup k l = some v) : (k, v) ∈ l := by
  induction l with
  | nil => simp [alLookup] at h
  | cons p l ih =>
    obtain ⟨a, w⟩ := p
    simp only [alLookup] at h
    by_cases h2 : a = k
    · simp only [h2, if_true, Option.some.injEq] at h
      subst h2; subst h; simp
    · simp only [h2, if_false] at h
      exact List.mem_cons_of_mem _ (ih h)

theorem alLookup_of_mem {k : κ} {v : ν} {l : List (κ × ν)} (hn : NoDupKeys l) (h : (k, v) ∈ l) :
    alLookup k l = some v := by
  induction l with
  | nil => simp at h
  | cons p l ih =>
    obtain ⟨a, w⟩ := p
    unfold NoDupKeys at hn ih
    simp only [List.map_cons, List.nodup_cons] at hn
    simp only [alLookup]
    rcases List.mem_cons.mp h with h1 | h1
    · injection h1 with h1 h2; subst h1; subst h2; simp
    · have : a ≠ k := by
        intro e; subst e
        exact hn.1 (List.mem_map.mpr ⟨(a, v), h1, rfl⟩)
      simp only [this, if_false]
      exact ih hn.2 h1

theorem NoDupKeys_erase (k : κ) {l : List (κ × ν)} (h : NoDupKeys l) : NoDupKeys (alErase k l) := by
  unfold NoDupKeys alErase at *
  exact (List.filter_sublist.map _).nodup h

theorem NoDupKeys_insert (k : κ) (v : ν) {l : List (κ × ν)} (h : NoDupKeys l) : NoDupKeys (alInsert k v l) := by
  have h1 := NoDupKeys_erase k h
  unfold NoDupKeys alInsert at *
  simp only [List.map_cons, List.nodup_cons]
  refine ⟨?_, h1⟩
  intro hm
  obtain ⟨p, hp, he⟩ := List.mem_map.mp hm
  unfold alErase at hp
  have := (List.mem_filter.mp hp).2
  simp [he] at this

omit [DecidableEq κ] in
theorem NoDupKeys_nil : NoDupKeys ([] : List (κ × ν)) := by simp [NoDupKeys]

end AL

/-! ## dedup, orAll -/

theorem mem_dedup (a : Ip) (l : List Ip) : a ∈ dedup l ↔ a ∈ l := by
  induction l with
  | nil => simp [dedup]
  | cons b l ih =>
    unfold dedup
    by_cases h : l.contains b = true
    · simp only [h, if_true, ih, List.mem_cons]
      constructor
      · exact Or.inr
      · rintro (e | e)
        · subst e; simpa using h
        · exact e
    · simp only [h, Bool.false_eq_true, if_false, List.mem_cons, ih]

theorem testBit_orAll (l : List Bitmap) (i : Nat) : (orAll l).testBit i = l.any (·.testBit i) := by
  induction l with
  | nil => simp [orAll]
  | cons b l ih => simp [orAll, Nat.testBit_or, ih]

theorem orAll_eq_zero_of_nil : orAll [] = 0 := rfl

/-! ## pointwise behaviour of the two loops of `applyOwnerSnapshotLocked` -/

def norm (l : List (Owner × Bitmap)) : Option IpState :=
  if l.isEmpty then none else some ⟨l, orAll (l.map (·.2))⟩

def rmAt (o : Owner) : Option IpState → Option IpState
  | none => none
  | some st => norm (alErase o st.owners)

def addAt (o : Owner) (b : Bitmap) : Option IpState → Option IpState
  | some st => some ⟨alInsert o b st.owners, orAll ((alInsert o b st.owners).map (·.2))⟩
  | none => some ⟨alInsert o b [], orAll ((alInsert o b []).map (·.2))⟩

theorem lookup_removeOwnerAt (o : Owner) (ips : List (Ip × IpState)) (key k : Ip) :
    alLookup k (removeOwnerAt o ips key) = if k = key then rmAt o (alLookup key ips) else alLookup k ips := by
  unfold removeOwnerAt
  cases h : alLookup key ips with
  | none =>
    by_cases hk : k = key
    · subst hk; simp [h, rmAt]
    · simp [hk]
  | some st =>
    simp only [rmAt, norm]
    by_cases he : (alErase o st.owners).isEmpty = true
    · simp only [he, if_true, alLookup_erase]
    · simp only [he, Bool.false_eq_true, if_false, alLookup_insert]

theorem lookup_addOwnerAt (o : Owner) (b : Bitmap) (ips : List (Ip × IpState)) (key k : Ip) :
    alLookup k (addOwnerAt o b ips key) = if k = key then addAt o b (alLookup key ips) else alLookup k ips := by
  unfold addOwnerAt
  rw [alLookup_insert]
  cases h : alLookup key ips <;> simp [addAt]

theorem lookup_foldl_pointwise {ν : Type} (g : List (Ip × ν) → Ip → List (Ip × ν)) (f : Option ν → Option ν)
    (hg : ∀ m key k, alLookup k (g m key) = if k = key then f (alLookup key m) else alLookup k m)
    (hf : ∀ x, f (f x) = f x) (keys : List Ip) : ∀ (m : List (Ip × ν)) (k : Ip),
    alLookup k (keys.foldl g m) = if k ∈ keys then f (alLookup k m) else alLookup k m := by
  induction keys with
  | nil => intro m k; simp
  | cons a keys ih =>
    intro m k
    simp only [List.foldl_cons, ih, hg, List.mem_cons]
    by_cases hk : k = a
    · subst hk
      by_cases hm : k ∈ keys <;> simp [hm, hf]
    · by_cases hm : k ∈ keys <;> simp [hm, hk]

theorem rmAt_idem (o : Owner) (x : Option IpState) : rmAt o (rmAt o x) = rmAt o x := by
  cases x with
  | none => rfl
  | some st =>
    simp only [rmAt, norm]
    by_cases he : (alErase o st.owners).isEmpty = true
    · simp [he]
    · simp only [he, Bool.false_eq_true, if_false, alErase_idem]

theorem alInsert_idem {κ ν : Type} [DecidableEq κ] (k : κ) (v : ν) (l : List (κ × ν)) :
    alInsert k v (alInsert k v l) = alInsert k v l := by
  unfold alInsert
  congr 1
  have : alErase k ((k, v) :: alErase k l) = alErase k (alErase k l) := by
    unfold alErase; simp
  rw [this, alErase_idem]

theorem addAt_idem (o : Owner) (b : Bitmap) (x : Option IpState) : addAt o b (addAt o b x) = addAt o b x := by
  cases x <;> simp [addAt, alInsert_idem]

/-! ## the tracker invariant -/

/-- what owner `o` contributes to address `key` under the owner map `L`. -/
def ownBit (L : Owner → Option Snapshot) (key : Ip) (o : Owner) : Option Bitmap :=
  match L o with
  | some s => if s.ips.contains key then some s.bitmap else none
  | none => none

/-- `t` / `K` are the tracker and kernel table that denote the owner map `L`. -/
structure Inv (t : Tracker) (K : Kernel) (L : Owner → Option Snapshot) : Prop where
  owners : ∀ o, alLookup o t.owners = L o
  eff : ∀ o s, L o = some s → s.effective = true
  noEmpty : L "" = none
  st : ∀ key st, alLookup key t.ips = some st →
    NoDupKeys st.owners ∧ st.owners ≠ [] ∧ st.merged = orAll (st.owners.map (·.2)) ∧
      ∀ o, alLookup o st.owners = ownBit L key o
  none : ∀ key, alLookup key t.ips = none → ∀ o, ownBit L key o = none
  kern : ∀ key, alLookup key K = (alLookup key t.ips).map (·.merged)

/-- the post-state of one address, computed from the pre-state. -/
def target (t : Tracker) (key : Ip) (o : Owner) (s : Snapshot) : Option IpState :=
  if s.effective && s.ips.contains key then
    some ⟨alInsert o s.bitmap (othersOf t key o), orAll ((alInsert o s.bitmap (othersOf t key o)).map (·.2))⟩
  else norm (othersOf t key o)

theorem lookup_others {t : Tracker} {K : Kernel} {L : Owner → Option Snapshot} (hI : Inv t K L)
    (key : Ip) (o x : Owner) :
    alLookup x (othersOf t key o) = if x = o then none else ownBit L key x := by
  unfold othersOf
  cases h : alLookup key t.ips with
  | none =>
    simp only [alLookup_nil, hI.none key h]
    split <;> rfl
  | some st =>
    simp only [alLookup_erase, (hI.st key st h).2.2.2]

theorem nodup_others {t : Tracker} {K : Kernel} {L : Owner → Option Snapshot} (hI : Inv t K L)
    (key : Ip) (o : Owner) : NoDupKeys (othersOf t key o) := by
  unfold othersOf
  cases h : alLookup key t.ips with
  | none => exact NoDupKeys_nil
  | some st => exact NoDupKeys_erase o (hI.st key st h).1

/-- an address the owner did not list keeps its state: it already equals `norm others`. -/
theorem unchanged_eq_norm {t : Tracker} {K : Kernel} {L : Owner → Option Snapshot} (hI : Inv t K L)
    (key : Ip) (o : Owner) (h : ownBit L key o = none) :
    alLookup key t.ips = norm (othersOf t key o) := by
  unfold othersOf
  cases ha : alLookup key t.ips with
  | none => simp [norm]
  | some st =>
    obtain ⟨_, hne, hm, hl⟩ := hI.st key st ha
    have : alErase o st.owners = st.owners := alErase_of_lookup_none o _ (by rw [hl, h])
    simp only [this, norm]
    have : st.owners.isEmpty = false := by
      cases hs : st.owners with
      | nil => exact absurd hs hne
      | cons _ _ => rfl
    simp only [this, Bool.false_eq_true, if_false, ← hm]

theorem rmAt_eq_norm (t : Tracker) (key : Ip) (o : Owner) :
    rmAt o (alLookup key t.ips) = norm (othersOf t key o) := by
  unfold othersOf
  cases alLookup key t.ips with
  | none => simp [rmAt, norm]
  | some st => simp [rmAt]

theorem addAt_norm (o : Owner) (b : Bitmap) (l : List (Owner × Bitmap)) :
    addAt o b (norm l) = some ⟨alInsert o b l, orAll ((alInsert o b l).map (·.2))⟩ := by
  unfold norm
  cases l with
  | nil => simp [addAt]
  | cons p l => simp [addAt]

theorem lookup_applySnapshot_ips {t : Tracker} {K : Kernel} {L : Owner → Option Snapshot} (hI : Inv t K L)
    (o : Owner) (ho : o ≠ "") (s : Snapshot) (key : Ip) :
    alLookup key (applySnapshot t o s).ips = target t key o s := by
  -- state after the removal loop
  have h1 : alLookup key (removePhase t o).ips = norm (othersOf t key o) := by
    unfold removePhase
    cases hold : alLookup o t.owners with
    | none =>
      apply unchanged_eq_norm hI
      unfold ownBit; rw [← hI.owners, hold]
    | some old =>
      simp only
      rw [lookup_foldl_pointwise (removeOwnerAt o) (rmAt o) (lookup_removeOwnerAt o) (rmAt_idem o)]
      by_cases hm : key ∈ old.ips
      · simp only [hm, if_true, rmAt_eq_norm]
      · simp only [hm, if_false]
        apply unchanged_eq_norm hI
        unfold ownBit; rw [← hI.owners, hold]
        simp [hm]
  unfold applySnapshot target
  simp only [ho, if_false]
  by_cases he : s.effective = true
  · simp only [he, Bool.not_true, Bool.false_eq_true, if_false, Bool.true_and]
    rw [lookup_foldl_pointwise (addOwnerAt o s.bitmap) (addAt o s.bitmap) (lookup_addOwnerAt o s.bitmap)
      (addAt_idem o s.bitmap)]
    rw [h1]
    by_cases hm : key ∈ s.ips
    · simp [hm, addAt_norm]
    · simp [hm]
  · simp only [Bool.not_eq_true] at he
    simp only [he, Bool.not_false, if_true, Bool.false_and, Bool.false_eq_true, if_false]
    exact h1

theorem ownBit_setOwner (L : Owner → Option Snapshot) (o : Owner) (s : Snapshot) (key : Ip) (x : Owner) :
    ownBit (setOwner L o s) key x =
      if x = o then (if s.effective && s.ips.contains key then some s.bitmap else none) else ownBit L key x := by
  unfold ownBit setOwner
  by_cases hx : x = o
  · simp only [hx, if_true]
    by_cases he : s.effective = true
    · simp [he]
    · simp only [Bool.not_eq_true] at he
      simp [he]
  · simp [hx]

theorem isEmpty_false_of_ne_nil {α : Type} {l : List α} (h : l ≠ []) : l.isEmpty = false := by
  cases l with
  | nil => exact absurd rfl h
  | cons _ _ => rfl

/-- the post-state of every address denotes the new owner map. -/
theorem target_spec {t : Tracker} {K : Kernel} {L : Owner → Option Snapshot} (hI : Inv t K L)
    (o : Owner) (s : Snapshot) (key : Ip) :
    match target t key o s with
    | none => ∀ x, ownBit (setOwner L o s) key x = none
    | some st => NoDupKeys st.owners ∧ st.owners ≠ [] ∧ st.merged = orAll (st.owners.map (·.2)) ∧
        ∀ x, alLookup x st.owners = ownBit (setOwner L o s) key x := by
  unfold target
  by_cases hc : (s.effective && s.ips.contains key) = true
  · simp only [hc, if_true]
    refine ⟨NoDupKeys_insert _ _ (nodup_others hI key o), by simp [alInsert], trivial, ?_⟩
    intro x
    rw [alLookup_insert, lookup_others hI, ownBit_setOwner]
    simp only [hc, if_true]
    by_cases hx : x = o <;> simp [hx]
  · simp only [hc, Bool.false_eq_true, if_false, norm]
    by_cases he : (othersOf t key o).isEmpty = true
    · simp only [he, if_true]
      intro x
      rw [ownBit_setOwner]
      simp only [hc, Bool.false_eq_true, if_false]
      by_cases hx : x = o
      · simp [hx]
      · simp only [hx, if_false]
        have := lookup_others hI key o x
        simp only [hx, if_false] at this
        rw [← this, List.isEmpty_iff.mp he]
        rfl
    · simp only [he, Bool.false_eq_true, if_false]
      refine ⟨nodup_others hI key o, ?_, trivial, ?_⟩
      · intro h; rw [h] at he; simp at he
      · intro x
        rw [lookup_others hI, ownBit_setOwner]
        simp only [hc, Bool.false_eq_true, if_false]

/-! ## the batches -/

/-- the table entry of `key` after the batches of one `syncOwner`, if `key` is among the affected. -/
def kAfter (t : Tracker) (K : Kernel) (o : Owner) (s : Snapshot) (key : Ip) : Option Bitmap :=
  match classify t key o s with
  | .upd v => some v
  | .del => none
  | .keep => alLookup key K

theorem lookup_ups (t : Tracker) (o : Owner) (s : Snapshot) (aff : List Ip) (k : Ip) : ∀ K : Kernel,
    alLookup k ((aff.filterMap (updOf t o s)).foldl (fun K p => alInsert p.1 p.2 K) K) =
      if k ∈ aff then (match classify t k o s with
        | .upd v => some v
        | _ => alLookup k K) else alLookup k K := by
  induction aff with
  | nil => intro K; simp
  | cons a aff ih =>
    intro K
    rw [List.filterMap_cons]
    cases hc : classify t a o s with
    | upd v =>
      simp only [updOf, hc, List.foldl_cons, ih, alLookup_insert, List.mem_cons]
      by_cases hk : k = a
      · subst hk; simp [hc]
      · simp only [hk, if_false, false_or]
    | del =>
      simp only [updOf, hc, ih, List.mem_cons]
      by_cases hk : k = a
      · subst hk; simp [hc]
      · simp [hk]
    | keep =>
      simp only [updOf, hc, ih, List.mem_cons]
      by_cases hk : k = a
      · subst hk; simp [hc]
      · simp [hk]

theorem lookup_dels (p : Ip → Bool) (aff : List Ip) (k : Ip) : ∀ K : Kernel,
    alLookup k ((aff.filter p).foldl (fun K k => alErase k K) K) =
      if k ∈ aff ∧ p k = true then none else alLookup k K := by
  induction aff with
  | nil => intro K; simp
  | cons a aff ih =>
    intro K
    rw [List.filter_cons]
    by_cases hp : p a = true
    · simp only [hp, if_true, List.foldl_cons, ih, alLookup_erase, List.mem_cons]
      by_cases hk : k = a
      · subst hk; simp [hp]
      · simp [hk]
    · simp only [hp, Bool.false_eq_true, if_false, ih, List.mem_cons]
      by_cases hk : k = a
      · subst hk; simp [hp]
      · simp [hk]

theorem lookup_applyEmit (t : Tracker) (K : Kernel) (o : Owner) (s : Snapshot) (aff : List Ip) (key : Ip) :
    alLookup key (applyEmit K (emitFor t o s aff)) =
      if key ∈ aff then kAfter t K o s key else alLookup key K := by
  unfold applyEmit emitFor
  simp only [lookup_dels, lookup_ups, kAfter, isDel]
  by_cases hm : key ∈ aff
  · simp only [hm, true_and, if_true]
    cases classify t key o s <;> simp
  · simp [hm]

theorem mem_affected (t : Tracker) (o : Owner) (s : Snapshot) (key : Ip) :
    key ∈ affected t o s ↔ key ∈ (oldSnapshot t o).ips ∨ key ∈ s.ips := by
  simp [affected, mem_dedup]

theorem others_nil_of_none {t : Tracker} {key : Ip} (o : Owner) (h : alLookup key t.ips = none) :
    othersOf t key o = [] := by
  simp [othersOf, h]

theorem kAfter_eq_target {t : Tracker} {K : Kernel} {L : Owner → Option Snapshot} (hI : Inv t K L)
    (o : Owner) (s : Snapshot) (key : Ip) :
    kAfter t K o s key = (target t key o s).map (·.merged) := by
  have hk := hI.kern key
  have hlo : alErase o (othersOf t key o) = othersOf t key o :=
    alErase_of_lookup_none _ _ (by rw [lookup_others hI]; simp)
  unfold kAfter classify desired target
  by_cases hc : (s.effective && s.ips.contains key) = true
  · simp only [hc, if_true, Option.map_some]
    have hcomm : orAll (List.map (fun x => x.snd) (alInsert o s.bitmap (othersOf t key o))) =
        orAll (List.map (fun x => x.snd) (othersOf t key o)) ||| s.bitmap := by
      simp only [alInsert, hlo, List.map_cons, orAll, Nat.or_comm]
    rw [hcomm]
    cases ha : alLookup key t.ips with
    | none => simp
    | some cur =>
      simp only
      by_cases hne : cur.merged = orAll (List.map (fun x => x.snd) (othersOf t key o)) ||| s.bitmap
      · simp [hne, hk, ha]
      · simp [hne]
  · simp only [hc, Bool.false_eq_true, if_false, norm]
    cases ha : alLookup key t.ips with
    | none =>
      simp [others_nil_of_none o ha, hk, ha]
    | some cur =>
      by_cases he : (othersOf t key o).isEmpty = true
      · simp [he]
      · simp only [Bool.not_eq_true] at he
        simp only [he, Bool.not_false, Bool.false_eq_true, if_false, Option.map_some]
        by_cases hne : cur.merged = orAll (List.map (fun x => x.snd) (othersOf t key o))
        · simp [hne, hk, ha]
        · simp [hne]

theorem target_of_not_affected {t : Tracker} {K : Kernel} {L : Owner → Option Snapshot} (hI : Inv t K L)
    (o : Owner) (s : Snapshot) (key : Ip) (h : key ∉ affected t o s) :
    target t key o s = alLookup key t.ips := by
  rw [mem_affected] at h
  have h1 : key ∉ (oldSnapshot t o).ips := fun x => h (Or.inl x)
  have h2 : key ∉ s.ips := fun x => h (Or.inr x)
  unfold target
  have : s.ips.contains key = false := by simpa using h2
  simp only [this, Bool.and_false, Bool.false_eq_true, if_false]
  symm
  apply unchanged_eq_norm hI
  unfold ownBit
  rw [← hI.owners]
  unfold oldSnapshot at h1
  cases hold : alLookup o t.owners with
  | none => rfl
  | some old =>
    rw [hold] at h1
    simp [h1]

theorem lookup_removePhase_owners {t : Tracker} {K : Kernel} {L : Owner → Option Snapshot} (hI : Inv t K L)
    (o x : Owner) : alLookup x (removePhase t o).owners = if x = o then none else L x := by
  unfold removePhase
  cases hold : alLookup o t.owners with
  | none =>
    simp only
    by_cases hx : x = o
    · subst hx; simp [hold]
    · simp [hx, hI.owners]
  | some old => simp only [alLookup_erase, hI.owners]

/-- **One `syncOwner` preserves the invariant**, for the owner map updated at `o`. -/
theorem Inv_sync {t : Tracker} {K : Kernel} {L : Owner → Option Snapshot} (hI : Inv t K L)
    (o : Owner) (ho : o ≠ "") (s : Snapshot) :
    Inv (applySnapshot t o s) (applyEmit K (emitFor t o s (affected t o s))) (setOwner L o s) := by
  have hips := lookup_applySnapshot_ips hI o ho s
  refine ⟨?_, ?_, ?_, ?_, ?_, ?_⟩
  · -- owners
    intro x
    unfold applySnapshot setOwner
    simp only [ho, if_false]
    have hrem := lookup_removePhase_owners hI o
    by_cases he : s.effective = true
    · simp only [he, Bool.not_true, Bool.false_eq_true, if_false, if_true, alLookup_insert, hrem]
      by_cases hx : x = o <;> simp [hx]
    · simp only [Bool.not_eq_true] at he
      simp only [he, Bool.not_false, if_true, hrem, Bool.false_eq_true, if_false]
  · -- eff
    intro x sx h
    unfold setOwner at h
    by_cases hx : x = o
    · simp only [hx, if_true] at h
      by_cases he : s.effective = true
      · simp only [he, if_true, Option.some.injEq] at h; subst h; exact he
      · simp [he] at h
    · simp only [hx, if_false] at h
      exact hI.eff x sx h
  · -- noEmpty
    unfold setOwner
    have : ¬ ("" = o) := fun e => ho e.symm
    simp only [this, if_false]
    exact hI.noEmpty
  · -- st
    intro key st hst
    rw [hips] at hst
    have := target_spec hI o s key
    rw [hst] at this
    exact this
  · -- none
    intro key hnone
    rw [hips] at hnone
    have := target_spec hI o s key
    rw [hnone] at this
    exact this
  · -- kern
    intro key
    rw [lookup_applyEmit, hips]
    by_cases hm : key ∈ affected t o s
    · simp only [hm, if_true]
      exact kAfter_eq_target hI o s key
    · simp only [hm, if_false, target_of_not_affected hI o s key hm]
      exact hI.kern key

theorem Inv_empty : Inv Tracker.empty [] (fun _ => none) :=
  ⟨fun _ => rfl, fun _ _ h => by simp at h, rfl, fun _ _ h => by simp [Tracker.empty, alLookup] at h,
   fun _ _ _ => rfl, fun _ => rfl⟩

/-! ## consequences of the invariant -/

theorem Inv.kernel_bit {t : Tracker} {K : Kernel} {L : Owner → Option Snapshot} (hI : Inv t K L) (ip : Ip) (i : Nat) :
    (kernelVal K ip).testBit i = true ↔
      ∃ o s, L o = some s ∧ ip ∈ s.ips ∧ s.bitmap.testBit i = true := by
  unfold kernelVal
  rw [hI.kern ip]
  cases hst : alLookup ip t.ips with
  | none =>
    simp only [Option.map_none, Nat.zero_testBit, Bool.false_eq_true, false_iff]
    rintro ⟨o, s, hL, hm, _⟩
    have := hI.none ip hst o
    unfold ownBit at this
    rw [hL] at this
    simp [hm] at this
  | some st =>
    obtain ⟨hnd, _, hm, hl⟩ := hI.st ip st hst
    simp only [Option.map_some, hm, testBit_orAll, List.any_map, List.any_eq_true, Function.comp]
    constructor
    · rintro ⟨⟨o, b⟩, hmem, hb⟩
      have h1 := alLookup_of_mem hnd hmem
      rw [hl] at h1
      unfold ownBit at h1
      cases hL : L o with
      | none => simp [hL] at h1
      | some s =>
        simp [hL] at h1
        exact ⟨o, s, hL, h1.1, by rw [h1.2]; exact hb⟩
    · rintro ⟨o, s, hL, hmem, hb⟩
      have h1 : alLookup o st.owners = some s.bitmap := by
        rw [hl]; unfold ownBit; rw [hL]; simp [hmem]
      exact ⟨(o, s.bitmap), mem_of_alLookup h1, hb⟩

theorem ne_zero_of_testBit {b i : Nat} (h : b.testBit i = true) : b ≠ 0 := by
  intro e; subst e; simp at h

theorem Inv.no_orphan {t : Tracker} {K : Kernel} {L : Owner → Option Snapshot} (hI : Inv t K L) (ip : Ip) (v : Bitmap)
    (h : alLookup ip K = some v) :
    v ≠ 0 ∧ ∃ o s, L o = some s ∧ ip ∈ s.ips ∧ s.bitmap ≠ 0 := by
  rw [hI.kern ip] at h
  cases hst : alLookup ip t.ips with
  | none => simp [hst] at h
  | some st =>
    simp only [hst, Option.map_some, Option.some.injEq] at h
    obtain ⟨_, hne, hm, hl⟩ := hI.st ip st hst
    cases hown : st.owners with
    | nil => exact absurd hown hne
    | cons p rest =>
      obtain ⟨o, b⟩ := p
      have h1 : alLookup o st.owners = some b := by rw [hown]; simp [alLookup]
      rw [hl] at h1
      unfold ownBit at h1
      cases hL : L o with
      | none => simp [hL] at h1
      | some s =>
        simp [hL] at h1
        have heff := hI.eff o s hL
        have hb : s.bitmap ≠ 0 := by
          unfold Snapshot.effective at heff
          simp only [Bool.and_eq_true, bne_iff_ne, ne_eq] at heff
          exact heff.2
        refine ⟨?_, o, s, hL, h1.1, hb⟩
        obtain ⟨i, hi⟩ := Nat.exists_testBit_of_ne_zero hb
        apply ne_zero_of_testBit (i := i)
        rw [← h, hm, testBit_orAll, hown]
        simp [← h1.2, hi]

/-- invariant along any history of `syncOwner` calls. -/
theorem Inv_runSync (h : List (Owner × Snapshot)) : ∀ (s : TK) (L : Owner → Option Snapshot), Inv s.t s.K L →
    Inv (runSync s h).t (runSync s h).K (liveAfter L h) := by
  induction h with
  | nil => intro s L hI; exact hI
  | cons p h ih =>
    intro s L hI
    unfold runSync liveAfter
    simp only [List.foldl_cons]
    apply ih
    unfold TK.sync syncOwner
    by_cases ho : p.1 = ""
    · simp only [ho, if_true]; exact hI
    · simp only [ho, if_false]
      exact Inv_sync hI p.1 ho p.2

/-! ## failing batch syscalls -/

theorem Inv_of_lookup_eq {t : Tracker} {K K' : Kernel} {L : Owner → Option Snapshot} (hI : Inv t K L)
    (h : ∀ key, alLookup key K' = alLookup key K) : Inv t K' L :=
  ⟨hI.owners, hI.eff, hI.noEmpty, hI.st, hI.none, fun key => by rw [h key]; exact hI.kern key⟩

/-- one call with any behaviour of the update batch (the delete batch succeeds): the invariant is kept for
the owner map that changes exactly when the call completed. -/
theorem Inv_syncO {s : TK} {L : Owner → Option Snapshot} (hI : Inv s.t s.K L) (o : Owner) (snap : Snapshot)
    (oc : Outcome) (hoc : oc ≠ .delFail) :
    Inv (s.syncO o snap oc).1.t (s.syncO o snap oc).1.K
      (if (s.syncO o snap oc).2 = .done then setOwner L o snap else L) := by
  unfold TK.syncO syncOwner
  by_cases ho : o = ""
  · simp only [ho, if_true]; exact hI
  · simp only [ho, if_false]
    by_cases h1 : oc = .updFail ∧ (emitFor s.t o snap (affected s.t o snap)).ups ≠ []
    · rw [if_pos h1]
      simp only [reduceCtorEq, if_false]
      exact hI
    · rw [if_neg h1]
      have h2 : ¬ (oc = .delFail ∧ (emitFor s.t o snap (affected s.t o snap)).dels ≠ []) := fun h => hoc h.1
      rw [if_neg h2]
      simp only [if_true]
      exact Inv_sync hI o ho snap

theorem Inv_runSyncO (h : List (Owner × Snapshot × Outcome)) : ∀ (s : TK) (L : Owner → Option Snapshot),
    Inv s.t s.K L → (∀ p ∈ h, p.2.2 ≠ Outcome.delFail) →
    Inv (runSyncO s L h).1.t (runSyncO s L h).1.K (runSyncO s L h).2 := by
  induction h with
  | nil => intro s L hI _; exact hI
  | cons p h ih =>
    intro s L hI hall
    unfold runSyncO
    simp only [List.foldl_cons]
    apply ih
    · exact Inv_syncO hI p.1 p.2.1 p.2.2 (hall p (by simp))
    · intro q hq; exact hall q (List.mem_cons_of_mem _ hq)

/-- the update batch alone, applied to the table. -/
theorem lookup_ups_only (t : Tracker) (K : Kernel) (o : Owner) (s : Snapshot) (aff : List Ip) (key : Ip) :
    alLookup key (applyEmit K ⟨(emitFor t o s aff).ups, []⟩) =
      if key ∈ aff then (match classify t key o s with
        | .upd v => some v
        | _ => alLookup key K) else alLookup key K := by
  unfold applyEmit emitFor
  simp only [List.foldl_nil, lookup_ups]

/-- retrying the same call right after a failed delete batch repairs everything. -/
theorem Inv_retry_after_delFail {t : Tracker} {K : Kernel} {L : Owner → Option Snapshot} (hI : Inv t K L)
    (o : Owner) (ho : o ≠ "") (s : Snapshot) :
    Inv (applySnapshot t o s)
      (applyEmit (applyEmit K ⟨(emitFor t o s (affected t o s)).ups, []⟩) (emitFor t o s (affected t o s)))
      (setOwner L o s) := by
  apply Inv_of_lookup_eq (Inv_sync hI o ho s)
  intro key
  rw [lookup_applyEmit, lookup_applyEmit]
  by_cases hm : key ∈ affected t o s
  · simp only [hm, if_true, kAfter]
    cases hc : classify t key o s with
    | upd v => rfl
    | del => rfl
    | keep => simp only [lookup_ups_only, hm, if_true, hc]
  · simp only [hm, if_false, lookup_ups_only]

theorem syncO_ok (s : TK) (o : Owner) (ho : o ≠ "") (snap : Snapshot) :
    s.syncO o snap .ok = (⟨applySnapshot s.t o snap, applyEmit s.K (emitFor s.t o snap (affected s.t o snap)),
      s.log ++ [(o, emitFor s.t o snap (affected s.t o snap))]⟩, .done) := by
  unfold TK.syncO syncOwner
  simp [ho]

theorem syncO_delFail (s : TK) (o : Owner) (ho : o ≠ "") (snap : Snapshot) :
    s.syncO o snap .delFail =
      if (emitFor s.t o snap (affected s.t o snap)).dels ≠ [] then
        (⟨s.t, applyEmit s.K ⟨(emitFor s.t o snap (affected s.t o snap)).ups, []⟩,
          if (emitFor s.t o snap (affected s.t o snap)).ups.isEmpty then s.log
          else s.log ++ [(o, ⟨(emitFor s.t o snap (affected s.t o snap)).ups, []⟩)]⟩, .delFailed)
      else s.syncO o snap .ok := by
  rw [syncO_ok s o ho]
  unfold TK.syncO syncOwner
  simp [ho]

theorem syncO_empty_owner (s : TK) (snap : Snapshot) (oc : Outcome) : s.syncO "" snap oc = (s, .rejected) := by
  unfold TK.syncO syncOwner
  simp

theorem setOwner_idem (L : Owner → Option Snapshot) (o : Owner) (s : Snapshot) :
    setOwner (setOwner L o s) o s = setOwner L o s := by
  funext x; unfold setOwner; by_cases hx : x = o <;> simp [hx]

theorem Inv_delFail_then_retry {s : TK} {L : Owner → Option Snapshot} (hI : Inv s.t s.K L) (o : Owner)
    (snap : Snapshot) :
    Inv ((s.syncO o snap .delFail).1.syncO o snap .ok).1.t ((s.syncO o snap .delFail).1.syncO o snap .ok).1.K
      (if o = "" then L else setOwner L o snap) := by
  by_cases ho : o = ""
  · subst ho
    simp only [syncO_empty_owner, if_true]
    exact hI
  · simp only [ho, if_false]
    rw [syncO_delFail s o ho]
    by_cases hd : (emitFor s.t o snap (affected s.t o snap)).dels ≠ []
    · rw [if_pos hd, syncO_ok _ o ho]
      exact Inv_retry_after_delFail hI o ho snap
    · rw [if_neg hd, syncO_ok s o ho, syncO_ok _ o ho]
      have h2 := Inv_sync (Inv_sync hI o ho snap) o ho snap
      rw [setOwner_idem] at h2
      exact h2

/-! ## the cache layer -/

/-- the owner map the cache contents denote: every cached entry under its key, unless it lists no address
or carries a zero bitmap. -/
def liveOfCache (C : List (String × Entry)) : Owner → Option Snapshot :=
  fun o => if o = "" then none else
    match alLookup o C with
    | some e => if e.snap.effective then some e.snap else none
    | none => none

/-- what the tracker has published per owner. -/
def pubOf (σ : CState) : Owner → Option Snapshot := fun o => alLookup o σ.tk.t.owners

/-- invariant of the cache layer: tracker and table are consistent with each other (the table is the union
over the tracker's owner snapshots); for every key that is not dirty the tracker's snapshot is exactly the
cache entry; object identities (`id`) are fresh; a queued refresh that still points at the cached object
carries that object's payload. -/
structure CInv (σ : CState) : Prop where
  inv : Inv σ.tk.t σ.tk.K (pubOf σ)
  clean : ∀ o, o ∉ σ.dirty → pubOf σ o = liveOfCache σ.cache o
  noEmptyKey : alLookup "" σ.cache = none
  nodup : NoDupKeys σ.cache
  idsC : ∀ k e, alLookup k σ.cache = some e → e.id < σ.nextId
  idsP : ∀ t ∈ σ.pending, t.id < σ.nextId
  task : ∀ t ∈ σ.pending, ∀ e, alLookup t.key σ.cache = some e → e.id = t.id → e.snap = t.snap

theorem Inv_pub {t : Tracker} {K : Kernel} {L : Owner → Option Snapshot} (h : Inv t K L) :
    Inv t K (fun o => alLookup o t.owners) := by
  have : L = fun o => alLookup o t.owners := funext fun o => (h.owners o).symm
  rw [← this]; exact h

theorem Inv_TKsync {s : TK} {L : Owner → Option Snapshot} (hI : Inv s.t s.K L) (o : Owner) (snap : Snapshot) :
    Inv (s.sync o snap).t (s.sync o snap).K (if o = "" then L else setOwner L o snap) := by
  unfold TK.sync syncOwner
  by_cases ho : o = ""
  · simp only [ho, if_true]; exact hI
  · simp only [ho, if_false]; exact Inv_sync hI o ho snap

theorem liveOfCache_erase (C : List (String × Entry)) (key : String) :
    liveOfCache (alErase key C) = setOwner (liveOfCache C) key Snapshot.empty := by
  funext x
  unfold liveOfCache setOwner
  by_cases hx : x = key
  · subst hx
    simp [alLookup_erase, Snapshot.empty, Snapshot.effective]
  · simp [alLookup_erase, hx]

theorem liveOfCache_insert (C : List (String × Entry)) (key : String) (e : Entry) (hk : key ≠ "") :
    liveOfCache (alInsert key e C) = setOwner (liveOfCache C) key e.snap := by
  funext x
  unfold liveOfCache setOwner
  by_cases hx : x = key
  · subst hx
    simp [alLookup_insert, hk]
  · simp [alLookup_insert, hx]

theorem liveOfCache_insert_same (C : List (String × Entry)) (key : String) (e e' : Entry)
    (h : alLookup key C = some e) (hs : e'.snap = e.snap) :
    liveOfCache (alInsert key e' C) = liveOfCache C := by
  funext x
  unfold liveOfCache
  by_cases hx : x = key
  · subst hx
    simp [alLookup_insert, h, hs]
  · simp [alLookup_insert, hx]

theorem setOwner_self (L : Owner → Option Snapshot) (o : Owner) (s : Snapshot)
    (h : L o = if s.effective then some s else none) : setOwner L o s = L := by
  funext x
  unfold setOwner
  by_cases hx : x = o
  · subst hx; simp [h]
  · simp [hx]

/-- the outcome of a call with a non-empty owner key. -/
theorem syncO_res_cases (s : TK) (o : Owner) (ho : o ≠ "") (snap : Snapshot) (oc : Outcome) :
    (s.syncO o snap oc).2 = .done ∨ (s.syncO o snap oc).2 = .updFailed ∨ (s.syncO o snap oc).2 = .delFailed := by
  unfold TK.syncO syncOwner
  simp only [ho, if_false]
  split
  · exact Or.inr (Or.inl rfl)
  · split
    · exact Or.inr (Or.inr rfl)
    · exact Or.inl rfl

theorem syncO_ok_not_failed (s : TK) (o : Owner) (snap : Snapshot) : (s.syncO o snap .ok).2.failed = false := by
  unfold TK.syncO syncOwner
  by_cases ho : o = ""
  · simp [ho, SyncRes.failed]
  · simp [ho, SyncRes.failed]

theorem mem_filter_ne {o key : String} {D : List String} : o ∈ D.filter (· ≠ key) ↔ o ∈ D ∧ o ≠ key := by
  simp [List.mem_filter]

/-- **one tracker call inside a cache operation**: the tracker/table pair stays consistent whatever the
update batch does, and every key that is not dirty afterwards is published exactly as the new owner map says. -/
theorem sync_step {s : TK} {L : Owner → Option Snapshot} {D : List String}
    (hI : Inv s.t s.K (fun o => alLookup o s.t.owners))
    (hc : ∀ o, o ∉ D → alLookup o s.t.owners = L o)
    (key : String) (hk : key ≠ "") (snap : Snapshot) (oc : Outcome) (hoc : oc ≠ .delFail) :
    Inv (s.syncO key snap oc).1.t (s.syncO key snap oc).1.K (fun o => alLookup o (s.syncO key snap oc).1.t.owners) ∧
    ∀ o, o ∉ markDirty (s.syncO key snap oc).2 key D →
      alLookup o (s.syncO key snap oc).1.t.owners = setOwner L key snap o := by
  have h1 := Inv_syncO hI key snap oc hoc
  refine ⟨Inv_pub h1, ?_⟩
  intro o ho
  rw [h1.owners o]
  rcases syncO_res_cases s key hk snap oc with hd | hd | hd
  · -- completed
    simp only [hd, if_true]
    simp only [hd, markDirty, SyncRes.failed, Bool.false_eq_true, if_false] at ho
    unfold setOwner
    by_cases hx : o = key
    · simp [hx]
    · simp only [hx, if_false]
      apply hc
      intro hm; exact ho (mem_filter_ne.mpr ⟨hm, hx⟩)
  · simp only [hd, reduceCtorEq, if_false]
    simp only [hd, markDirty, SyncRes.failed, if_true, List.mem_cons, not_or] at ho
    unfold setOwner
    simp only [ho.1, if_false]
    apply hc
    intro hm; exact ho.2 (mem_filter_ne.mpr ⟨hm, ho.1⟩)
  · simp only [hd, reduceCtorEq, if_false]
    simp only [hd, markDirty, SyncRes.failed, if_true, List.mem_cons, not_or] at ho
    unfold setOwner
    simp only [ho.1, if_false]
    apply hc
    intro hm; exact ho.2 (mem_filter_ne.mpr ⟨hm, ho.1⟩)

theorem CInv_evictP {σ : CState} (h : CInv σ) (plan : Plan) (hp : ∀ o, plan o ≠ .delFail) (key : String) :
    CInv (σ.evictP plan key) := by
  unfold CState.evictP
  by_cases hk : key = ""
  · simp only [hk, if_true]; exact h
  · simp only [hk, if_false]
    cases hl : alLookup key σ.cache with
    | none => exact h
    | some e =>
      have hne : ¬ ("" = key) := fun e => hk e.symm
      obtain ⟨hI, hc⟩ := sync_step (L := liveOfCache σ.cache) h.inv h.clean key hk Snapshot.empty (plan key) (hp key)
      refine ⟨hI, ?_, ?_, NoDupKeys_erase key h.nodup, ?_, h.idsP, ?_⟩
      · intro o ho
        simp only [liveOfCache_erase]
        exact hc o ho
      · simp only [alLookup_erase, hne, if_false]; exact h.noEmptyKey
      · intro k e' hk'
        simp only [alLookup_erase] at hk'
        by_cases hkk : k = key
        · simp [hkk] at hk'
        · simp only [hkk, if_false] at hk'; exact h.idsC k e' hk'
      · intro t ht e' hl' hid
        simp only [alLookup_erase] at hl'
        by_cases hkk : t.key = key
        · simp [hkk] at hl'
        · simp only [hkk, if_false] at hl'; exact h.task t ht e' hl' hid

theorem CInv_foldl_evictP (plan : Plan) (hp : ∀ o, plan o ≠ .delFail) (f : String → Bool) (order : List String) :
    ∀ {σ : CState}, CInv σ → CInv (order.foldl (fun σ k => if f k then σ.evictP plan k else σ) σ) := by
  induction order with
  | nil => intro σ h; exact h
  | cons k order ih =>
    intro σ h
    simp only [List.foldl_cons]
    by_cases hf : f k = true
    · simp only [hf, if_true]; exact ih (CInv_evictP h plan hp k)
    · simp only [hf, Bool.false_eq_true, if_false]; exact ih h

/-- rewriting bookkeeping fields of the cached object under `key` (same identity, same payload), with a new
queue whose tasks are old ones or point at that object. -/
theorem CInv_update_fields {σ : CState} (h : CInv σ) (key : String) (e e' : Entry)
    (hl : alLookup key σ.cache = some e) (hs : e'.snap = e.snap) (hid : e'.id = e.id) (pending : List Task)
    (hp : ∀ t ∈ pending, t ∈ σ.pending ∨ (t.id = e.id ∧ t.key = key ∧ t.snap = e.snap)) :
    CInv { σ with cache := alInsert key e' σ.cache, pending := pending } := by
  have hk : key ≠ "" := by
    intro e0; subst e0; rw [h.noEmptyKey] at hl; cases hl
  have hne : ¬ ("" = key) := fun e => hk e.symm
  refine ⟨h.inv, ?_, ?_, NoDupKeys_insert _ _ h.nodup, ?_, ?_, ?_⟩
  · intro o ho
    simp only [liveOfCache_insert_same σ.cache key e e' hl hs]
    exact h.clean o ho
  · simp only [alLookup_insert, hne, if_false]; exact h.noEmptyKey
  · intro k x hx
    simp only [alLookup_insert] at hx
    by_cases hkk : k = key
    · simp only [hkk, if_true, Option.some.injEq] at hx
      subst hx; rw [hid]; exact h.idsC key e hl
    · simp only [hkk, if_false] at hx; exact h.idsC k x hx
  · intro t ht
    rcases hp t ht with h1 | ⟨h1, _, _⟩
    · exact h.idsP t h1
    · simp only; rw [h1]; exact h.idsC key e hl
  · intro t ht x hx hxid
    simp only [alLookup_insert] at hx
    rcases hp t ht with h1 | ⟨h1, h2, h3⟩
    · by_cases hkk : t.key = key
      · simp only [hkk, if_true, Option.some.injEq] at hx
        subst hx
        rw [hs]
        exact h.task t h1 e (by rw [hkk]; exact hl) (by rw [← hid]; exact hxid)
      · simp only [hkk, if_false] at hx; exact h.task t h1 x hx hxid
    · simp only [h2, if_true, Option.some.injEq] at hx
      subst hx
      rw [hs, h3]

theorem CInv_queueRefresh {σ : CState} (h : CInv σ) (key : String) : CInv (σ.queueRefresh key) := by
  unfold CState.queueRefresh
  cases hl : alLookup key σ.cache with
  | none => exact h
  | some e =>
    apply CInv_update_fields h key e { e with lastSync := σ.now } hl rfl rfl
    intro t ht
    rcases List.mem_append.mp ht with h1 | h1
    · exact Or.inl h1
    · simp only [List.mem_singleton] at h1
      subst h1
      exact Or.inr ⟨rfl, rfl, rfl⟩

/-- storing a fresh object under `key` and syncing its snapshot (insert, replace, restore), whatever the
update batch of that sync does. -/
theorem CInv_storeP {σ : CState} (h : CInv σ) (plan : Plan) (hp : ∀ o, plan o ≠ .delFail) (key : String)
    (hk : key ≠ "") (e : Entry) : CInv (σ.storeP plan key e) := by
  unfold CState.storeP
  have hne : ¬ ("" = key) := fun e => hk e.symm
  obtain ⟨hI, hc⟩ := sync_step (L := liveOfCache σ.cache) h.inv h.clean key hk e.snap (plan key) (hp key)
  refine ⟨hI, ?_, ?_, NoDupKeys_insert _ _ h.nodup, ?_, ?_, ?_⟩
  · intro o ho
    simp only [liveOfCache_insert _ _ _ hk]
    exact hc o ho
  · simp only [alLookup_insert, hne, if_false]; exact h.noEmptyKey
  · intro k x hx
    simp only [alLookup_insert] at hx
    by_cases hkk : k = key
    · simp only [hkk, if_true, Option.some.injEq] at hx
      subst hx; exact Nat.lt_succ_self _
    · simp only [hkk, if_false] at hx
      exact Nat.lt_succ_of_lt (h.idsC k x hx)
  · intro t ht; exact Nat.lt_succ_of_lt (h.idsP t ht)
  · intro t ht x hx hxid
    simp only [alLookup_insert] at hx
    by_cases hkk : t.key = key
    · simp only [hkk, if_true, Option.some.injEq] at hx
      subst hx
      have := h.idsP t ht
      simp only at hxid
      omega
    · simp only [hkk, if_false] at hx; exact h.task t ht x hx hxid

theorem CInv_pop {σ : CState} (h : CInv σ) (t : Task) (rest : List Task) (hp : σ.pending = t :: rest) :
    CInv { σ with pending := rest } :=
  ⟨h.inv, h.clean, h.noEmptyKey, h.nodup, h.idsC,
   fun x hx => h.idsP x (by rw [hp]; exact List.mem_cons_of_mem _ hx),
   fun x hx => h.task x (by rw [hp]; exact List.mem_cons_of_mem _ hx)⟩

/-- applying a task whose payload is known to be the cached object's payload (or dropping it). -/
theorem CInv_applyTaskP {σ : CState} (h : CInv σ) (plan : Plan) (hp : ∀ o, plan o ≠ .delFail) (t : Task)
    (ht : ∀ e, alLookup t.key σ.cache = some e → e.id = t.id → e.snap = t.snap) :
    CInv (σ.applyTaskP plan t) := by
  unfold CState.applyTaskP
  cases hl : alLookup t.key σ.cache with
  | none => exact h
  | some e =>
    simp only
    by_cases hid : e.id = t.id
    · rw [if_pos hid]
      have hsnap := ht e hl hid
      have hk : t.key ≠ "" := by
        intro e0; rw [e0, h.noEmptyKey] at hl; cases hl
      obtain ⟨hI, hc⟩ := sync_step (L := liveOfCache σ.cache) h.inv h.clean t.key hk t.snap (plan t.key) (hp t.key)
      -- the sync re-publishes the payload of the object that is cached: the owner map is unchanged
      have hself : setOwner (liveOfCache σ.cache) t.key t.snap = liveOfCache σ.cache := by
        apply setOwner_self
        unfold liveOfCache
        simp only [hk, if_false, hl, hsnap]
      rw [hself] at hc
      by_cases hd : (σ.tk.syncO t.key t.snap (plan t.key)).2 = .done
      · simp only [hd, if_true]
        have h1 := CInv_update_fields h t.key e { e with lastSync := t.now } hl rfl rfl σ.pending
          (fun x hx => Or.inl hx)
        refine ⟨hI, ?_, h1.noEmptyKey, h1.nodup, h1.idsC, h1.idsP, h1.task⟩
        intro o ho
        simp only [liveOfCache_insert_same σ.cache t.key e { e with lastSync := t.now } hl rfl]
        have := hc o (by simpa [hd] using ho)
        exact this
      · simp only [hd, if_false]
        exact ⟨hI, fun o ho => hc o ho, h.noEmptyKey, h.nodup, h.idsC, h.idsP, h.task⟩
    · rw [if_neg hid]
      exact h

theorem CInv_reset {σ : CState} (h : CInv σ) :
    CInv { σ with cache := [], tk := ⟨Tracker.empty, [], σ.tk.log⟩, dirty := [] } := by
  refine ⟨Inv_empty, ?_, rfl, NoDupKeys_nil, ?_, h.idsP, ?_⟩
  · intro o _; simp [pubOf, liveOfCache, Tracker.empty, alLookup]
  · intro k e hk; simp [alLookup] at hk
  · intro t _ e hl; simp [alLookup] at hl

theorem CInv_restore_fold (plan : Plan) (hp : ∀ o, plan o ≠ .delFail) (old : List (String × Entry))
    (order : List (String × Bitmap)) :
    ∀ {σ : CState}, CInv σ → CInv (order.foldl (fun σ p =>
      match alLookup p.1 old with
      | some e => if p.1 = "" then σ else σ.storeP plan p.1 { e with bitmap := p.2, lastSync := σ.now }
      | none => σ) σ) := by
  induction order with
  | nil => intro σ h; exact h
  | cons p order ih =>
    intro σ h
    simp only [List.foldl_cons]
    apply ih
    cases alLookup p.1 old with
    | none => exact h
    | some e =>
      simp only
      by_cases hk : p.1 = ""
      · simp only [hk, if_true]; exact h
      · simp only [hk, if_false]; exact CInv_storeP h plan hp p.1 hk _

theorem CInv_stepP {σ : CState} (h : CInv σ) (plan : Plan) (hp : ∀ o, plan o ≠ .delFail) (op : COp) :
    CInv (cstepP σ plan op) := by
  cases op with
  | put key fqdn qtype ttl fixedTtl bitmap ans =>
    simp only [cstepP]
    by_cases hk : effKey key fqdn qtype = ""
    · simp only [hk, if_true]; exact h
    · simp only [hk, if_false]; exact CInv_storeP h plan hp _ hk _
  | del key => simp only [cstepP]; exact CInv_evictP h plan hp key
  | fam base order =>
    simp only [cstepP]
    by_cases hb : base = ""
    · simp only [hb, if_true]; exact h
    · simp only [hb, if_false]
      have := CInv_foldl_evictP plan hp (fun k => decide (baseKey k = base)) order h
      simp only [decide_eq_true_eq] at this
      exact this
  | look key evicted queued =>
    simp only [cstepP]
    cases evicted with
    | true => simp only [if_true]; exact CInv_evictP h plan hp key
    | false =>
      cases queued with
      | true => simp only [Bool.false_eq_true, if_false, if_true]; exact CInv_queueRefresh h key
      | false => simp only [Bool.false_eq_true, if_false]; exact h
  | jan order =>
    simp only [cstepP]
    have := CInv_foldl_evictP plan hp (fun _ => true) order h
    simp only [if_true] at this
    exact this
  | sleep ns =>
    simp only [cstepP]
    exact ⟨h.inv, h.clean, h.noEmptyKey, h.nodup, h.idsC, h.idsP, h.task⟩
  | touch key =>
    simp only [cstepP]
    cases hl : alLookup key σ.cache with
    | none => exact h
    | some e =>
      exact CInv_update_fields h key e { e with lastAccess := σ.now } hl rfl rfl σ.pending (fun x hx => Or.inl hx)
  | hot key evicted queued =>
    simp only [cstepP]
    cases hl : alLookup key σ.cache with
    | none => exact h
    | some e =>
      simp only
      have h1 : CInv { σ with cache := alInsert key { e with lastAccess := σ.now } σ.cache } :=
        CInv_update_fields h key e { e with lastAccess := σ.now } hl rfl rfl σ.pending (fun x hx => Or.inl hx)
      cases evicted with
      | true => simp only [if_true]; exact CInv_evictP h1 plan hp key
      | false =>
        cases queued with
        | true => simp only [Bool.false_eq_true, if_false, if_true]; exact CInv_queueRefresh h1 key
        | false => simp only [Bool.false_eq_true, if_false]; exact h1
  | reload assign =>
    simp only [cstepP]
    exact CInv_restore_fold plan hp σ.cache _ (CInv_reset h)
  | work =>
    simp only [cstepP]
    cases hpd : σ.pending with
    | nil => exact h
    | cons t rest =>
      simp only
      apply CInv_applyTaskP (CInv_pop h t rest hpd) plan hp t
      intro e hl hid
      exact h.task t (by rw [hpd]; simp) e hl hid

theorem Plan.ok_not_delFail : ∀ o, Plan.ok o ≠ Outcome.delFail := by
  intro o; simp [Plan.ok]

theorem CInv_step {σ : CState} (h : CInv σ) (op : COp) : CInv (cstep σ op) :=
  CInv_stepP h Plan.ok Plan.ok_not_delFail op

theorem CInv_init (cfg : Cfg) : CInv (CState.init cfg) := by
  refine ⟨Inv_empty, ?_, rfl, NoDupKeys_nil, ?_, ?_, ?_⟩
  · intro o _; simp [pubOf, liveOfCache, CState.init, TK.empty, Tracker.empty, alLookup]
  · intro k e hk; simp [CState.init, alLookup] at hk
  · intro t ht; simp [CState.init] at ht
  · intro t ht; simp [CState.init] at ht

theorem CInv_runP (ops : List (Plan × COp)) : ∀ {σ : CState}, CInv σ →
    (∀ p ∈ ops, ∀ o, p.1 o ≠ Outcome.delFail) → CInv (crunP σ ops) := by
  induction ops with
  | nil => intro σ h _; exact h
  | cons op ops ih =>
    intro σ h hall
    unfold crunP
    simp only [List.foldl_cons]
    exact ih (CInv_stepP h op.1 (hall op (by simp)) op.2) (fun p hp => hall p (List.mem_cons_of_mem _ hp))

theorem CInv_run (ops : List COp) : ∀ {σ : CState}, CInv σ → CInv (crun σ ops) := by
  induction ops with
  | nil => intro σ h; exact h
  | cons op ops ih =>
    intro σ h
    unfold crun
    simp only [List.foldl_cons]
    exact ih (CInv_step h op)

/-! ### with working syscalls no key ever becomes dirty -/

theorem markDirty_ok_nil (s : TK) (o : Owner) (snap : Snapshot) : markDirty (s.syncO o snap .ok).2 o [] = [] := by
  simp [markDirty, syncO_ok_not_failed]

theorem evictP_ok_dirty {σ : CState} (hd : σ.dirty = []) (key : String) : (σ.evictP Plan.ok key).dirty = [] := by
  unfold CState.evictP
  by_cases hk : key = ""
  · simp only [hk, if_true]; exact hd
  · simp only [hk, if_false]
    cases alLookup key σ.cache with
    | none => exact hd
    | some e => simp only [hd, Plan.ok]; exact markDirty_ok_nil _ _ _

theorem storeP_ok_dirty {σ : CState} (hd : σ.dirty = []) (key : String) (e : Entry) :
    (σ.storeP Plan.ok key e).dirty = [] := by
  unfold CState.storeP
  simp only [hd, Plan.ok]; exact markDirty_ok_nil _ _ _

theorem foldl_evictP_ok_dirty (f : String → Bool) (order : List String) : ∀ {σ : CState}, σ.dirty = [] →
    (order.foldl (fun σ k => if f k then σ.evictP Plan.ok k else σ) σ).dirty = [] := by
  induction order with
  | nil => intro σ h; exact h
  | cons k order ih =>
    intro σ h
    simp only [List.foldl_cons]
    by_cases hf : f k = true
    · simp only [hf, if_true]; exact ih (evictP_ok_dirty h k)
    · simp only [hf, Bool.false_eq_true, if_false]; exact ih h

theorem restore_fold_ok_dirty (old : List (String × Entry)) (order : List (String × Bitmap)) :
    ∀ {σ : CState}, σ.dirty = [] → (order.foldl (fun σ p =>
      match alLookup p.1 old with
      | some e => if p.1 = "" then σ else σ.storeP Plan.ok p.1 { e with bitmap := p.2, lastSync := σ.now }
      | none => σ) σ).dirty = [] := by
  induction order with
  | nil => intro σ h; exact h
  | cons p order ih =>
    intro σ h
    simp only [List.foldl_cons]
    apply ih
    cases alLookup p.1 old with
    | none => exact h
    | some e =>
      simp only
      by_cases hk : p.1 = ""
      · simp only [hk, if_true]; exact h
      · simp only [hk, if_false]; exact storeP_ok_dirty h _ _

theorem cstep_dirty {σ : CState} (hd : σ.dirty = []) (op : COp) : (cstep σ op).dirty = [] := by
  unfold cstep
  cases op with
  | put key fqdn qtype ttl fixedTtl bitmap ans =>
    simp only [cstepP]
    by_cases hk : effKey key fqdn qtype = ""
    · simp only [hk, if_true]; exact hd
    · simp only [hk, if_false]; exact storeP_ok_dirty hd _ _
  | del key => simp only [cstepP]; exact evictP_ok_dirty hd key
  | fam base order =>
    simp only [cstepP]
    by_cases hb : base = ""
    · simp only [hb, if_true]; exact hd
    · simp only [hb, if_false]
      have := foldl_evictP_ok_dirty (fun k => decide (baseKey k = base)) order hd
      simp only [decide_eq_true_eq] at this
      exact this
  | look key evicted queued =>
    simp only [cstepP]
    cases evicted with
    | true => simp only [if_true]; exact evictP_ok_dirty hd key
    | false =>
      cases queued with
      | true =>
        simp only [Bool.false_eq_true, if_false, if_true]
        unfold CState.queueRefresh
        cases alLookup key σ.cache <;> exact hd
      | false => simp only [Bool.false_eq_true, if_false]; exact hd
  | jan order =>
    simp only [cstepP]
    have := foldl_evictP_ok_dirty (fun _ => true) order hd
    simp only [if_true] at this
    exact this
  | sleep ns => simp only [cstepP]; exact hd
  | touch key =>
    simp only [cstepP]
    cases alLookup key σ.cache <;> exact hd
  | hot key evicted queued =>
    simp only [cstepP]
    cases hl : alLookup key σ.cache with
    | none => exact hd
    | some e =>
      simp only
      cases evicted with
      | true => simp only [if_true]; apply evictP_ok_dirty; exact hd
      | false =>
        cases queued with
        | true =>
          simp only [Bool.false_eq_true, if_false, if_true]
          unfold CState.queueRefresh
          simp only
          split <;> exact hd
        | false => simp only [Bool.false_eq_true, if_false]; exact hd
  | reload assign =>
    simp only [cstepP]
    exact restore_fold_ok_dirty σ.cache _ rfl
  | work =>
    simp only [cstepP]
    cases σ.pending with
    | nil => exact hd
    | cons t rest =>
      simp only
      unfold CState.applyTaskP
      simp only
      cases alLookup t.key σ.cache with
      | none => exact hd
      | some e =>
        simp only
        by_cases hid : e.id = t.id
        · simp only [hid, if_true, hd, Plan.ok]; exact markDirty_ok_nil _ _ _
        · simp only [hid, if_false]; exact hd

theorem crun_dirty (ops : List COp) : ∀ {σ : CState}, σ.dirty = [] → (crun σ ops).dirty = [] := by
  induction ops with
  | nil => intro σ h; exact h
  | cons op ops ih =>
    intro σ h
    unfold crun
    simp only [List.foldl_cons]
    exact ih (cstep_dirty h op)

/-! ## consequences for the cache layer -/

theorem live_iff_cached {C : List (String × Entry)} (hne : alLookup "" C = none) (ip : Ip) (i : Nat) :
    (∃ o s, liveOfCache C o = some s ∧ ip ∈ s.ips ∧ s.bitmap.testBit i = true) ↔
      ∃ key e, alLookup key C = some e ∧ ip ∈ ansIps e.ans ∧ e.bitmap.testBit i = true := by
  constructor
  · rintro ⟨o, s, hL, hm, hb⟩
    unfold liveOfCache at hL
    by_cases ho : o = ""
    · simp [ho] at hL
    · simp only [ho, if_false] at hL
      cases hl : alLookup o C with
      | none => simp [hl] at hL
      | some e =>
        simp only [hl] at hL
        by_cases he : e.snap.effective = true
        · simp only [he, if_true, Option.some.injEq] at hL
          subst hL
          exact ⟨o, e, hl, hm, hb⟩
        · simp [he] at hL
  · rintro ⟨key, e, hl, hm, hb⟩
    refine ⟨key, e.snap, ?_, hm, hb⟩
    have hk : key ≠ "" := by
      intro e0; subst e0; rw [hne] at hl; cases hl
    unfold liveOfCache
    simp only [hk, if_false, hl]
    have : e.snap.effective = true := by
      unfold Snapshot.effective Entry.snap
      simp only [Bool.and_eq_true, Bool.not_eq_true', bne_iff_ne, ne_eq]
      refine ⟨?_, ne_zero_of_testBit hb⟩
      cases hips : ansIps e.ans with
      | nil => rw [hips] at hm; cases hm
      | cons _ _ => rfl
    simp [this]

/-- with no dirty key the tracker's owner map IS the cache. -/
theorem CInv.inv_live {σ : CState} (h : CInv σ) (hd : σ.dirty = []) :
    Inv σ.tk.t σ.tk.K (liveOfCache σ.cache) := by
  have : pubOf σ = liveOfCache σ.cache := funext fun o => h.clean o (by simp [hd])
  rw [← this]; exact h.inv

theorem CInv.cache_bit {σ : CState} (h : CInv σ) (hd : σ.dirty = []) (ip : Ip) (i : Nat) :
    (kernelVal σ.tk.K ip).testBit i = true ↔
      ∃ key e, alLookup key σ.cache = some e ∧ ip ∈ ansIps e.ans ∧ e.bitmap.testBit i = true := by
  rw [(h.inv_live hd).kernel_bit ip i]
  exact live_iff_cached h.noEmptyKey ip i

theorem CInv.cache_no_orphan {σ : CState} (h : CInv σ) (hd : σ.dirty = []) (ip : Ip) (v : Bitmap)
    (hv : alLookup ip σ.tk.K = some v) :
    v ≠ 0 ∧ ∃ key e, alLookup key σ.cache = some e ∧ ip ∈ ansIps e.ans ∧ e.bitmap ≠ 0 := by
  obtain ⟨hv0, o, s, hLo, hm, hb⟩ := (h.inv_live hd).no_orphan ip v hv
  refine ⟨hv0, ?_⟩
  unfold liveOfCache at hLo
  by_cases ho : o = ""
  · simp [ho] at hLo
  · simp only [ho, if_false] at hLo
    cases hl : alLookup o σ.cache with
    | none => simp [hl] at hLo
    | some e =>
      simp only [hl] at hLo
      by_cases he : e.snap.effective = true
      · simp only [he, if_true, Option.some.injEq] at hLo
        subst hLo
        exact ⟨o, e, hl, hm, hb⟩
      · simp [he] at hLo

/-- the table mirrors the tracker's own owner snapshots (also when keys are dirty). -/
theorem CInv.tracker_bit {σ : CState} (h : CInv σ) (ip : Ip) (i : Nat) :
    (kernelVal σ.tk.K ip).testBit i = true ↔
      ∃ o s, alLookup o σ.tk.t.owners = some s ∧ ip ∈ s.ips ∧ s.bitmap.testBit i = true :=
  h.inv.kernel_bit ip i

/-- **damage of failed calls is confined to the addresses of the dirty keys**: an address that no dirty key
lists - neither in what the tracker has published for it nor in what is cached under it - is mirrored. -/
theorem CInv.clean_address_bit {σ : CState} (h : CInv σ) (ip : Ip)
    (hpub : ∀ k ∈ σ.dirty, ∀ s, alLookup k σ.tk.t.owners = some s → ip ∉ s.ips)
    (hcache : ∀ k ∈ σ.dirty, ∀ e, alLookup k σ.cache = some e → ip ∉ ansIps e.ans) (i : Nat) :
    (kernelVal σ.tk.K ip).testBit i = true ↔
      ∃ key e, alLookup key σ.cache = some e ∧ ip ∈ ansIps e.ans ∧ e.bitmap.testBit i = true := by
  rw [h.tracker_bit ip i, ← live_iff_cached h.noEmptyKey ip i]
  constructor
  · rintro ⟨o, s, ho, hm, hb⟩
    by_cases hd : o ∈ σ.dirty
    · exact absurd hm (hpub o hd s ho)
    · exact ⟨o, s, by rw [← h.clean o hd]; exact ho, hm, hb⟩
  · rintro ⟨o, s, ho, hm, hb⟩
    by_cases hd : o ∈ σ.dirty
    · exfalso
      unfold liveOfCache at ho
      by_cases h0 : o = ""
      · simp [h0] at ho
      · simp only [h0, if_false] at ho
        cases hl : alLookup o σ.cache with
        | none => simp [hl] at ho
        | some e =>
          simp only [hl] at ho
          by_cases he : e.snap.effective = true
          · simp only [he, if_true, Option.some.injEq] at ho
            subst ho
            exact hcache o hd e hl hm
          · simp [he] at ho
    · exact ⟨o, s, by rw [show alLookup o σ.tk.t.owners = pubOf σ o from rfl, h.clean o hd]; exact ho, hm, hb⟩

theorem testBit_specOr {C : List (String × Entry)} (hnd : NoDupKeys C) (ip : Ip) (i : Nat) :
    (specOr C ip).testBit i = true ↔
      ∃ key e, alLookup key C = some e ∧ ip ∈ ansIps e.ans ∧ e.bitmap.testBit i = true := by
  unfold specOr
  simp only [testBit_orAll, List.any_map, List.any_eq_true, Function.comp, List.mem_filter]
  constructor
  · rintro ⟨⟨k, e⟩, ⟨hm, hc⟩, hb⟩
    exact ⟨k, e, alLookup_of_mem hnd hm, by simpa using hc, hb⟩
  · rintro ⟨k, e, hl, hm, hb⟩
    exact ⟨(k, e), ⟨mem_of_alLookup hl, by simpa using hm⟩, hb⟩

theorem CInv.kernel_eq_spec {σ : CState} (h : CInv σ) (hd : σ.dirty = []) (ip : Ip) :
    kernelVal σ.tk.K ip = specOr σ.cache ip := by
  apply Nat.eq_of_testBit_eq
  intro i
  rw [Bool.eq_iff_iff, h.cache_bit hd ip i, testBit_specOr h.nodup ip i]

/-! ## minimal batches, idempotent re-sync -/

theorem ups_minimal {t : Tracker} {K : Kernel} {L : Owner → Option Snapshot} (hI : Inv t K L)
    (o : Owner) (s : Snapshot) (aff : List Ip) (p : Ip × Bitmap) (hp : p ∈ (emitFor t o s aff).ups) :
    alLookup p.1 K ≠ some p.2 := by
  unfold emitFor at hp
  simp only [List.mem_filterMap] at hp
  obtain ⟨k, _, hk⟩ := hp
  unfold updOf at hk
  have hkern := hI.kern k
  cases hc : classify t k o s with
  | del => simp [hc] at hk
  | keep => simp [hc] at hk
  | upd v =>
    simp only [hc, Option.some.injEq] at hk
    subst hk
    simp only
    unfold classify at hc
    cases ha : alLookup k t.ips with
    | none =>
      rw [hkern, ha]; simp
    | some cur =>
      rw [ha] at hc
      rw [hkern, ha]
      simp only [Option.map_some, ne_eq, Option.some.injEq]
      cases hd : (desired t k o s).2 with
      | false => simp [hd] at hc
      | true =>
        simp only [hd] at hc
        by_cases hne : cur.merged ≠ (desired t k o s).1
        · rw [if_pos hne] at hc
          injection hc with hc
          rw [← hc]; exact hne
        · rw [if_neg hne] at hc
          cases hc

theorem dels_minimal {t : Tracker} {K : Kernel} {L : Owner → Option Snapshot} (hI : Inv t K L)
    (o : Owner) (s : Snapshot) (aff : List Ip) (k : Ip) (hk : k ∈ (emitFor t o s aff).dels) :
    alLookup k K ≠ none := by
  unfold emitFor at hk
  simp only [List.mem_filter] at hk
  obtain ⟨_, hd⟩ := hk
  unfold isDel at hd
  have hkern := hI.kern k
  cases hc : classify t k o s with
  | upd v => simp [hc] at hd
  | keep => simp [hc] at hd
  | del =>
    unfold classify at hc
    cases ha : alLookup k t.ips with
    | none =>
      rw [ha] at hc
      cases hd2 : (desired t k o s).2 <;> simp [hd2] at hc
    | some cur =>
      rw [hkern, ha]; simp

/-- re-syncing an owner with the snapshot the tracker already holds for it sends nothing to the kernel. -/
theorem resync_emits_nothing {t : Tracker} {K : Kernel} {L : Owner → Option Snapshot} (hI : Inv t K L)
    (o : Owner) (ho : o ≠ "") (s : Snapshot) (hs : L o = some s) :
    (emitFor t o s (affected t o s)).ups = [] ∧ (emitFor t o s (affected t o s)).dels = [] := by
  have hI' := Inv_sync hI o ho s
  have hLL : setOwner L o s = L := setOwner_self L o s (by rw [hs, hI.eff o s hs]; rfl)
  rw [hLL] at hI'
  -- both tables denote the same owner map, so they read the same everywhere
  have hval : ∀ k, kernelVal (applyEmit K (emitFor t o s (affected t o s))) k = kernelVal K k := by
    intro k
    apply Nat.eq_of_testBit_eq
    intro i
    rw [Bool.eq_iff_iff, hI'.kernel_bit k i, hI.kernel_bit k i]
  constructor
  · cases hu : (emitFor t o s (affected t o s)).ups with
    | nil => rfl
    | cons p rest =>
      exfalso
      have hp : p ∈ (emitFor t o s (affected t o s)).ups := by rw [hu]; simp
      have hmin := ups_minimal hI o s _ p hp
      -- after the batches the table holds p.2 at p.1
      have hp' := hp
      unfold emitFor at hp'
      simp only [List.mem_filterMap] at hp'
      obtain ⟨k, hk, hk2⟩ := hp'
      unfold updOf at hk2
      cases hc : classify t k o s with
      | del => simp [hc] at hk2
      | keep => simp [hc] at hk2
      | upd v =>
        simp only [hc, Option.some.injEq] at hk2
        subst hk2
        have hnew : alLookup k (applyEmit K (emitFor t o s (affected t o s))) = some v := by
          rw [lookup_applyEmit]; simp [hk, kAfter, hc]
        have h1 := hval k
        unfold kernelVal at h1
        rw [hnew] at h1
        simp only at hmin
        cases hold : alLookup k K with
        | some w => rw [hold] at h1 hmin; simp only at h1; exact hmin (by rw [h1])
        | none =>
          rw [hold] at h1
          simp only at h1
          exact (hI'.no_orphan k v hnew).1 h1
  · cases hd : (emitFor t o s (affected t o s)).dels with
    | nil => rfl
    | cons k rest =>
      exfalso
      have hk : k ∈ (emitFor t o s (affected t o s)).dels := by rw [hd]; simp
      have hmin := dels_minimal hI o s _ k hk
      have hk' := hk
      unfold emitFor at hk'
      simp only [List.mem_filter] at hk'
      obtain ⟨hka, hkd⟩ := hk'
      unfold isDel at hkd
      cases hc : classify t k o s with
      | upd v => simp [hc] at hkd
      | keep => simp [hc] at hkd
      | del =>
        have hnew : alLookup k (applyEmit K (emitFor t o s (affected t o s))) = none := by
          rw [lookup_applyEmit]; simp [hka, kAfter, hc]
        have h1 := hval k
        unfold kernelVal at h1
        rw [hnew] at h1
        cases hold : alLookup k K with
        | none => exact hmin hold
        | some w =>
          rw [hold] at h1
          simp only at h1
          exact (hI.no_orphan k w hold).1 h1.symm

theorem alLookup_some_of_mem_key {κ ν : Type} [DecidableEq κ] {k : κ} {v : ν} {l : List (κ × ν)} (h : (k, v) ∈ l) :
    ∃ w, alLookup k l = some w := by
  induction l with
  | nil => simp at h
  | cons p l ih =>
    obtain ⟨a, x⟩ := p
    simp only [alLookup]
    by_cases ha : a = k
    · exact ⟨x, by simp [ha]⟩
    · simp only [ha, if_false]
      rcases List.mem_cons.mp h with h1 | h1
      · injection h1 with h1 _; exact absurd h1.symm ha
      · exact ih h1

/-- the `m=` flag the driver prints is a theorem. -/
theorem CInv.mirrorOk_true {σ : CState} (h : CInv σ) (hd : σ.dirty = []) :
    mirrorOk σ.cache σ.tk.K = true := by
  unfold mirrorOk
  simp only [Bool.and_eq_true, List.all_eq_true, beq_iff_eq, bne_iff_ne, ne_eq]
  refine ⟨fun ip _ => h.kernel_eq_spec hd ip, ?_⟩
  intro p hp
  obtain ⟨ip, v⟩ := p
  obtain ⟨w, hw⟩ := alLookup_some_of_mem_key hp
  have := (h.cache_no_orphan hd ip w hw).1
  unfold kernelVal
  simp only [hw]
  exact this

/-! ## a failed put and its repair by the refresh worker -/

/-- put whose publish failed; the next lookup queues the refresh; the worker applies it: no key is dirty. -/
theorem failed_put_then_refresh_dirty (σ : CState) (hd : σ.dirty = []) (hp : σ.pending = [])
    (key fqdn : String) (qtype ttl : Nat) (fixedTtl : Option Nat) (bitmap : Bitmap) (ans : List Ans) :
    (crunP σ [(fun _ => .updFail, .put key fqdn qtype ttl fixedTtl bitmap ans),
      (Plan.ok, .look (effKey key fqdn qtype) false true), (Plan.ok, .work)]).dirty = [] := by
  simp only [crunP, List.foldl_cons, List.foldl_nil, cstepP]
  by_cases hk : effKey key fqdn qtype = ""
  · simp only [hk, if_true, Bool.false_eq_true, if_false, CState.queueRefresh]
    cases hl : alLookup "" σ.cache with
    | none => simp [hp, hd]
    | some e =>
      simp only [hp, List.nil_append, CState.applyTaskP, alLookup_insert, if_true, hd, Plan.ok]
      exact markDirty_ok_nil _ _ _
  · simp only [hk, if_false, Bool.false_eq_true, if_true, CState.storeP, CState.queueRefresh, alLookup_insert,
      hp, List.nil_append, CState.applyTaskP, if_true, hd, Plan.ok]
    simp only [markDirty, syncO_ok_not_failed, Bool.false_eq_true, if_false]
    split <;> simp

/-! ## partial application of a failing batch, capacity of the kernel map -/

theorem lookup_foldl_insert_not_mem (l : List (Ip × Bitmap)) (key : Ip) (h : ∀ p ∈ l, p.1 ≠ key) :
    ∀ K : Kernel, alLookup key (l.foldl (fun K p => alInsert p.1 p.2 K) K) = alLookup key K := by
  induction l with
  | nil => intro K; rfl
  | cons p l ih =>
    intro K
    simp only [List.foldl_cons]
    rw [ih (fun q hq => h q (List.mem_cons_of_mem _ hq)), alLookup_insert]
    have : ¬ key = p.1 := fun e => h p (by simp) e.symm
    simp [this]

theorem lookup_foldl_erase_not_mem (l : List Ip) (key : Ip) (h : key ∉ l) :
    ∀ K : Kernel, alLookup key (l.foldl (fun K k => alErase k K) K) = alLookup key K := by
  induction l with
  | nil => intro K; rfl
  | cons k l ih =>
    intro K
    simp only [List.foldl_cons]
    rw [ih (fun hm => h (List.mem_cons_of_mem _ hm)), alLookup_erase]
    have : ¬ key = k := fun e => h (by simp [e])
    simp [this]

theorem lookup_applySome_other (K : Kernel) (ups : List (Ip × Bitmap)) (dels : List Ip) (key : Ip)
    (hu : ∀ p ∈ ups, p.1 ≠ key) (hd : key ∉ dels) : alLookup key (applySome K ups dels) = alLookup key K := by
  unfold applySome
  rw [lookup_foldl_erase_not_mem dels key hd, lookup_foldl_insert_not_mem ups key hu]

theorem mem_ups_classify {t : Tracker} {o : Owner} {s : Snapshot} {aff : List Ip} {p : Ip × Bitmap}
    (hp : p ∈ (emitFor t o s aff).ups) : p.1 ∈ aff ∧ classify t p.1 o s = .upd p.2 := by
  unfold emitFor at hp
  simp only [List.mem_filterMap] at hp
  obtain ⟨k, hk, hk2⟩ := hp
  unfold updOf at hk2
  cases hc : classify t k o s with
  | del => simp [hc] at hk2
  | keep => simp [hc] at hk2
  | upd v =>
    simp only [hc, Option.some.injEq] at hk2
    subst hk2
    exact ⟨hk, hc⟩

theorem mem_dels_classify {t : Tracker} {o : Owner} {s : Snapshot} {aff : List Ip} {k : Ip}
    (hk : k ∈ (emitFor t o s aff).dels) : k ∈ aff ∧ classify t k o s = .del := by
  unfold emitFor at hk
  simp only [List.mem_filter] at hk
  obtain ⟨hka, hkd⟩ := hk
  unfold isDel at hkd
  cases hc : classify t k o s with
  | upd v => simp [hc] at hkd
  | keep => simp [hc] at hkd
  | del => exact ⟨hka, rfl⟩

/-- sending the complete batches over a table that holds ANY part of them gives the same table as sending
them over the table as it was. -/
theorem lookup_applyEmit_after_some (t : Tracker) (K : Kernel) (o : Owner) (s : Snapshot) (aff : List Ip)
    (ups : List (Ip × Bitmap)) (dels : List Ip)
    (hu : ∀ p ∈ ups, p ∈ (emitFor t o s aff).ups) (hd : ∀ k ∈ dels, k ∈ (emitFor t o s aff).dels) (key : Ip) :
    alLookup key (applyEmit (applySome K ups dels) (emitFor t o s aff)) =
      alLookup key (applyEmit K (emitFor t o s aff)) := by
  rw [lookup_applyEmit, lookup_applyEmit]
  have hother : (classify t key o s = .keep ∨ key ∉ aff) → alLookup key (applySome K ups dels) = alLookup key K := by
    intro hc
    apply lookup_applySome_other
    · intro p hp e
      obtain ⟨h1, h2⟩ := mem_ups_classify (hu p hp)
      rw [e] at h1 h2
      rcases hc with hc | hc
      · rw [hc] at h2; cases h2
      · exact hc h1
    · intro hm
      obtain ⟨h1, h2⟩ := mem_dels_classify (hd key hm)
      rcases hc with hc | hc
      · rw [hc] at h2; cases h2
      · exact hc h1
  by_cases hm : key ∈ aff
  · simp only [hm, if_true, kAfter]
    cases hc : classify t key o s with
    | upd v => rfl
    | del => rfl
    | keep => exact hother (Or.inl hc)
  · simp only [hm, if_false]
    exact hother (Or.inr hm)

/-- retrying the same call after a failed call that left ANY part of its two batches in the table repairs
everything. -/
theorem Inv_retry_after_partial {t : Tracker} {K : Kernel} {L : Owner → Option Snapshot} (hI : Inv t K L)
    (o : Owner) (ho : o ≠ "") (s : Snapshot) (ups : List (Ip × Bitmap)) (dels : List Ip)
    (hu : ∀ p ∈ ups, p ∈ (emitFor t o s (affected t o s)).ups)
    (hd : ∀ k ∈ dels, k ∈ (emitFor t o s (affected t o s)).dels) :
    Inv (applySnapshot t o s) (applyEmit (applySome K ups dels) (emitFor t o s (affected t o s))) (setOwner L o s) :=
  Inv_of_lookup_eq (Inv_sync hI o ho s) (lookup_applyEmit_after_some t K o s _ ups dels hu hd)

theorem length_alInsert_le (k : Ip) (v : Bitmap) (K : Kernel) : (alInsert k v K).length ≤ K.length + 1 := by
  unfold alInsert alErase
  simp only [List.length_cons]
  exact Nat.succ_le_succ (List.length_filter_le _ _)

/-- a batch that fits is applied completely, whatever its order. -/
theorem batchUpdCap_room (cap : Nat) (l : List (Ip × Bitmap)) : ∀ K : Kernel, K.length + l.length ≤ cap →
    batchUpdCap cap K l = (l.foldl (fun K p => alInsert p.1 p.2 K) K, true) := by
  induction l with
  | nil => intro K _; rfl
  | cons p l ih =>
    intro K h
    simp only [List.length_cons] at h
    have hlt : K.length < cap := by omega
    unfold batchUpdCap
    simp only [hlt, decide_true, Bool.or_true, if_true, List.foldl_cons]
    apply ih
    have := length_alInsert_le p.1 p.2 K
    omega

/-- a failing batch leaves a prefix of itself applied. -/
theorem batchUpdCap_prefix (cap : Nat) (l : List (Ip × Bitmap)) : ∀ K : Kernel,
    ∃ n, (batchUpdCap cap K l).1 = (l.take n).foldl (fun K p => alInsert p.1 p.2 K) K := by
  induction l with
  | nil => intro K; exact ⟨0, rfl⟩
  | cons p l ih =>
    intro K
    unfold batchUpdCap
    by_cases hc : ((alLookup p.1 K).isSome || decide (K.length < cap)) = true
    · simp only [hc, if_true]
      obtain ⟨n, hn⟩ := ih (alInsert p.1 p.2 K)
      exact ⟨n + 1, by simp only [List.take_succ_cons, List.foldl_cons]; exact hn⟩
    · simp only [hc, Bool.false_eq_true, if_false]
      exact ⟨0, rfl⟩

theorem mem_reorder {ups : List (Ip × Bitmap)} {order : List Ip} {p : Ip × Bitmap} (h : p ∈ reorder ups order) :
    p ∈ ups := by
  unfold reorder at h
  rcases List.mem_append.mp h with h1 | h1
  · simp only [List.mem_filterMap] at h1
    obtain ⟨k, _, hk⟩ := h1
    cases hl : alLookup k ups with
    | none => simp [hl] at hk
    | some v =>
      simp only [hl, Option.map_some, Option.some.injEq] at hk
      subst hk
      exact mem_of_alLookup hl
  · exact (List.mem_filter.mp h1).1

/-- the state a call refused for capacity leaves behind: tracker untouched, a prefix of the (reordered) update
batch in the table. -/
theorem syncCap_failed_state (s : TK) (cap : Nat) (order : List Ip) (o : Owner) (ho : o ≠ "") (snap : Snapshot)
    (hfail : (s.syncCap cap order o snap .ok).2 = .updFailed) :
    (s.syncCap cap order o snap .ok).1.t = s.t ∧
    ∃ n, (s.syncCap cap order o snap .ok).1.K =
      applySome s.K ((reorder (emitFor s.t o snap (affected s.t o snap)).ups order).take n) [] := by
  unfold TK.syncCap syncOwner at hfail ⊢
  simp only [ho, if_false, reduceCtorEq, false_and] at hfail ⊢
  by_cases hb : (batchUpdCap cap s.K (reorder (emitFor s.t o snap (affected s.t o snap)).ups order)).2 = true
  · simp [hb] at hfail
  · simp only [Bool.not_eq_true] at hb
    simp only [hb, Bool.not_false, if_true]
    refine ⟨trivial, ?_⟩
    obtain ⟨n, hn⟩ := batchUpdCap_prefix cap (reorder (emitFor s.t o snap (affected s.t o snap)).ups order) s.K
    exact ⟨n, by simp only [applySome, List.foldl_nil]; exact hn⟩

/-! ## `syncOwner` as a transition system -/

theorem liveAfter_append (L : Owner → Option Snapshot) (h : List (Owner × Snapshot)) (o : Owner) (s : Snapshot)
    (ho : o ≠ "") : liveAfter L (h ++ [(o, s)]) = setOwner (liveAfter L h) o s := by
  simp [liveAfter, List.foldl_append, ho]

/-- invariant of the transition system: when nobody holds the mutex the tracker/table pair denotes the calls
committed so far; while a call holds it, the table is that denotation with the part of the call's batches
that has been sent. -/
def SInv (σ : Sys) : Prop :=
  match σ.lock with
  | none => Inv σ.t σ.K (liveAfter (fun _ => none) σ.done)
  | some h => h.o ≠ "" ∧ ∃ K0, Inv σ.t K0 (liveAfter (fun _ => none) σ.done) ∧
      σ.K = (match h.stage with
        | .locked => K0
        | .updSent => (emitFor σ.t h.o h.s (affected σ.t h.o h.s)).ups.foldl (fun K p => alInsert p.1 p.2 K) K0
        | .delSent => applyEmit K0 (emitFor σ.t h.o h.s (affected σ.t h.o h.s)))

theorem SInv_init (progs : List (List (Owner × Snapshot))) : SInv (Sys.init progs) := by
  simp only [SInv, Sys.init]
  exact Inv_empty

theorem SInv_tstep {σ : Sys} (h : SInv σ) (i : Nat) : SInv (tstep σ i) := by
  unfold tstep
  cases hl : σ.lock with
  | none =>
    simp only [SInv, hl] at h
    simp only
    cases ht : σ.todo[i]? with
    | none => simp only [SInv, hl]; exact h
    | some prog =>
      cases prog with
      | nil => simp only [SInv, hl]; exact h
      | cons c rest =>
        obtain ⟨o, s⟩ := c
        simp only
        by_cases ho : o = ""
        · simp only [ho, if_true, SInv]; exact h
        · simp only [ho, if_false, SInv]
          exact ⟨ho, σ.K, h, rfl⟩
  | some hd =>
    simp only [SInv, hl] at h
    obtain ⟨ho, K0, hI, hK⟩ := h
    simp only
    by_cases hi : hd.tid ≠ i
    · rw [if_pos hi]
      simp only [SInv, hl]
      exact ⟨ho, K0, hI, hK⟩
    · rw [if_neg hi]
      cases hs : hd.stage with
      | locked =>
        simp only [hs] at hK
        simp only [SInv]
        exact ⟨ho, K0, hI, by rw [hK]⟩
      | updSent =>
        simp only [hs] at hK
        simp only [SInv]
        refine ⟨ho, K0, hI, ?_⟩
        rw [hK]; rfl
      | delSent =>
        simp only [hs] at hK
        simp only [SInv]
        rw [liveAfter_append _ _ _ _ ho, hK]
        exact Inv_sync hI hd.o ho hd.s

theorem SInv_srun (sched : List Nat) : ∀ {σ : Sys}, SInv σ → SInv (srun σ sched) := by
  induction sched with
  | nil => intro σ h; exact h
  | cons i sched ih =>
    intro σ h
    unfold srun
    simp only [List.foldl_cons]
    exact ih (SInv_tstep h i)

theorem mem_setNth {α} {l : List α} {n : Nat} {a x : α} (h : x ∈ setNth l n a) : x ∈ l ∨ x = a := by
  induction l generalizing n with
  | nil => simp [setNth] at h
  | cons b l ih =>
    cases n with
    | zero =>
      simp only [setNth, List.mem_cons] at h
      rcases h with h | h
      · exact Or.inr h
      · exact Or.inl (List.mem_cons_of_mem _ h)
    | succ n =>
      simp only [setNth, List.mem_cons] at h
      rcases h with h | h
      · exact Or.inl (by simp [h])
      · rcases ih h with h1 | h1
        · exact Or.inl (List.mem_cons_of_mem _ h1)
        · exact Or.inr h1

/-- every call that committed, is in flight or is still to do was issued by one of the programs. -/
def SFrom (progs : List (List (Owner × Snapshot))) (σ : Sys) : Prop :=
  (∀ c ∈ σ.done, ∃ prog ∈ progs, c ∈ prog) ∧
  (∀ l ∈ σ.todo, ∀ c ∈ l, ∃ prog ∈ progs, c ∈ prog) ∧
  (∀ h, σ.lock = some h → ∃ prog ∈ progs, (h.o, h.s) ∈ prog)

theorem SFrom_init (progs : List (List (Owner × Snapshot))) : SFrom progs (Sys.init progs) :=
  ⟨fun c hc => by simp [Sys.init] at hc, fun l hl c hc => ⟨l, hl, hc⟩, fun h hh => by simp [Sys.init] at hh⟩

theorem getElem?_mem' {α} {l : List α} {i : Nat} {a : α} (h : l[i]? = some a) : a ∈ l := by
  exact List.mem_of_getElem? h

theorem SFrom_tstep {progs : List (List (Owner × Snapshot))} {σ : Sys} (h : SFrom progs σ) (i : Nat) :
    SFrom progs (tstep σ i) := by
  obtain ⟨hd, ht, hl⟩ := h
  unfold tstep
  cases hlock : σ.lock with
  | none =>
    simp only
    cases hti : σ.todo[i]? with
    | none => exact ⟨hd, ht, by simp [hlock]⟩
    | some prog =>
      cases prog with
      | nil => exact ⟨hd, ht, by simp [hlock]⟩
      | cons c rest =>
        obtain ⟨o, s⟩ := c
        have hmem : ((o, s) :: rest) ∈ σ.todo := getElem?_mem' hti
        have hrest : ∀ l ∈ setNth σ.todo i rest, ∀ c ∈ l, ∃ prog ∈ progs, c ∈ prog := by
          intro l hl' c hc
          rcases mem_setNth hl' with h1 | h1
          · exact ht l h1 c hc
          · subst h1; exact ht _ hmem c (List.mem_cons_of_mem _ hc)
        simp only
        by_cases ho : o = ""
        · simp only [ho, if_true]
          exact ⟨hd, hrest, by simp⟩
        · simp only [ho, if_false]
          refine ⟨hd, hrest, ?_⟩
          intro h' hh'
          simp only [Option.some.injEq] at hh'
          subst hh'
          exact ht _ hmem (o, s) (by simp)
  | some hh =>
    simp only
    by_cases hi : hh.tid ≠ i
    · rw [if_pos hi]; exact ⟨hd, ht, by simpa [hlock] using hl⟩
    · rw [if_neg hi]
      have hfrom := hl hh hlock
      cases hh.stage with
      | locked =>
        refine ⟨hd, ht, ?_⟩
        intro h' hh'
        simp only [Option.some.injEq] at hh'
        subst hh'
        exact hfrom
      | updSent =>
        refine ⟨hd, ht, ?_⟩
        intro h' hh'
        simp only [Option.some.injEq] at hh'
        subst hh'
        exact hfrom
      | delSent =>
        refine ⟨?_, ht, by simp⟩
        intro c hc
        simp only at hc
        rcases List.mem_append.mp hc with h1 | h1
        · exact hd c h1
        · simp only [List.mem_singleton] at h1
          subst h1; exact hfrom

theorem SFrom_srun {progs : List (List (Owner × Snapshot))} (sched : List Nat) : ∀ {σ : Sys}, SFrom progs σ →
    SFrom progs (srun σ sched) := by
  induction sched with
  | nil => intro σ h; exact h
  | cons i sched ih =>
    intro σ h
    unfold srun
    simp only [List.foldl_cons]
    exact ih (SFrom_tstep h i)

end DaeVerif.C10
