import DaeVerif.C10.Model
/-! Helper lemmas for C10 (association lists, OR of bitmaps, the tracker invariant). -/
namespace DaeVerif.C10

/-! ## association lists -/
section AL
variable {κ : Type} [DecidableEq κ] {ν : Type}

theorem alLookup_erase (k k' : κ) (l : List (κ × ν)) :
    alLookup k' (alErase k l) = if k' = k then none else alLookup k' l := by
  induction l with
  | nil => simp [alErase, alLookup]
  | cons p l ih =>
    obtain ⟨a, v⟩ := p
    unfold alErase at ih ⊢
    by_cases h : a = k
    · subst h
      simp only [List.filter_cons, ne_eq, not_true_eq_false, decide_false, Bool.false_eq_true, if_false, ih, alLookup]
      by_cases h2 : k' = a
      · simp [h2]
      · have : ¬ a = k' := fun e => h2 e.symm
        simp [h2, this]
    · simp only [List.filter_cons, ne_eq, h, not_false_eq_true, decide_true, if_true, alLookup, ih]
      by_cases h2 : a = k'
      · subst h2; simp [h]
      · simp [h2]

theorem alLookup_insert (k k' : κ) (v : ν) (l : List (κ × ν)) :
    alLookup k' (alInsert k v l) = if k' = k then some v else alLookup k' l := by
  unfold alInsert
  simp only [alLookup, alLookup_erase]
  by_cases h : k = k'
  · subst h; simp
  · have : ¬ k' = k := fun e => h e.symm
    simp [h, this]

theorem alErase_of_lookup_none (k : κ) (l : List (κ × ν)) (h : alLookup k l = none) : alErase k l = l := by
  induction l with
  | nil => rfl
  | cons p l ih =>
    obtain ⟨a, v⟩ := p
    simp only [alLookup] at h
    by_cases h2 : a = k
    · simp [h2] at h
    · simp only [h2, if_false] at h
      have := ih h
      unfold alErase at this ⊢
      rw [List.filter_cons]
      simp only [ne_eq, h2, not_false_eq_true, decide_true, if_true, this]

theorem alErase_idem (k : κ) (l : List (κ × ν)) : alErase k (alErase k l) = alErase k l :=
  alErase_of_lookup_none k _ (by simp [alLookup_erase])

theorem al_eq_nil_of_lookup_none (l : List (κ × ν)) (h : ∀ k, alLookup k l = none) : l = [] := by
  cases l with
  | nil => rfl
  | cons p l =>
    obtain ⟨a, v⟩ := p
    have := h a
    simp [alLookup] at this

theorem alLookup_nil (k : κ) : alLookup k ([] : List (κ × ν)) = none := rfl

/-- no key occurs twice -/
def NoDupKeys (l : List (κ × ν)) : Prop := (l.map (·.1)).Nodup

theorem mem_of_alLookup {k : κ} {v : ν} {l : List (κ × ν)} (h : alLookup k l = some v) : (k, v) ∈ l := by
  induction l with
  | nil => simp [alLookup] at h
  | cons p l ih =>
    obtain ⟨a, w⟩ := p
    simp only [alLookup] at h
    by_cases h2 : a = k
    · simp only [h2, if_true, Option.some.injEq] at h
      subst h2; subst h; simp
    · simp only [h2, if_false] at h
      exact List.mem_cons_of_mem _ (ih h)

theorem alLookup_of_mem {k : κ} {v : ν} {l : List (κ × ν)} (hn : NoDupKeys l) (h : (k, v) ∈ l) :
    alLookup k l = some v := by
  induction l with
  | nil => simp at h
  | cons p l ih =>
    obtain ⟨a, w⟩ := p
    unfold NoDupKeys at hn ih
    simp only [List.map_cons, List.nodup_cons] at hn
    simp only [alLookup]
    rcases List.mem_cons.mp h with h1 | h1
    · injection h1 with h1 h2; subst h1; subst h2; simp
    · have : a ≠ k := by
        intro e; subst e
        exact hn.1 (List.mem_map.mpr ⟨(a, v), h1, rfl⟩)
      simp only [this, if_false]
      exact ih hn.2 h1

theorem NoDupKeys_erase (k : κ) {l : List (κ × ν)} (h : NoDupKeys l) : NoDupKeys (alErase k l) := by
  unfold NoDupKeys alErase at *
  exact (List.filter_sublist.map _).nodup h

theorem NoDupKeys_insert (k : κ) (v : ν) {l : List (κ × ν)} (h : NoDupKeys l) : NoDupKeys (alInsert k v l) := by
  have h1 := NoDupKeys_erase k h
  unfold NoDupKeys alInsert at *
  simp only [List.map_cons, List.nodup_cons]
  refine ⟨?_, h1⟩
  intro hm
  obtain ⟨p, hp, he⟩ := List.mem_map.mp hm
  unfold alErase at hp
  have := (List.mem_filter.mp hp).2
  simp [he] at this

omit [DecidableEq κ] in
theorem NoDupKeys_nil : NoDupKeys ([] : List (κ × ν)) := by simp [NoDupKeys]

end AL

/-! ## dedup, orAll -/

theorem mem_dedup (a : Ip) (l : List Ip) : a ∈ dedup l ↔ a ∈ l := by
  induction l with
  | nil => simp [dedup]
  | cons b l ih =>
    unfold dedup
    by_cases h : l.contains b = true
    · simp only [h, if_true, ih, List.mem_cons]
      constructor
      · exact Or.inr
      · rintro (e | e)
        · subst e; simpa using h
        · exact e
    · simp only [h, Bool.false_eq_true, if_false, List.mem_cons, ih]

theorem testBit_orAll (l : List Bitmap) (i : Nat) : (orAll l).testBit i = l.any (·.testBit i) := by
  induction l with
  | nil => simp [orAll]
  | cons b l ih => simp [orAll, Nat.testBit_or, ih]

theorem orAll_eq_zero_of_nil : orAll [] = 0 := rfl

/-! ## pointwise behaviour of the two loops of `applyOwnerSnapshotLocked` -/

def norm (l : List (Owner × Bitmap)) : Option IpState :=
  if l.isEmpty then none else some ⟨l, orAll (l.map (·.2))⟩

def rmAt (o : Owner) : Option IpState → Option IpState
  | none => none
  | some st => norm (alErase o st.owners)

def addAt (o : Owner) (b : Bitmap) : Option IpState → Option IpState
  | some st => some ⟨alInsert o b st.owners, orAll ((alInsert o b st.owners).map (·.2))⟩
  | none => some ⟨alInsert o b [], orAll ((alInsert o b []).map (·.2))⟩

theorem lookup_removeOwnerAt (o : Owner) (ips : List (Ip × IpState)) (key k : Ip) :
    alLookup k (removeOwnerAt o ips key) = if k = key then rmAt o (alLookup key ips) else alLookup k ips := by
  unfold removeOwnerAt
  cases h : alLookup key ips with
  | none =>
    by_cases hk : k = key
    · subst hk; simp [h, rmAt]
    · simp [hk]
  | some st =>
    simp only [rmAt, norm]
    by_cases he : (alErase o st.owners).isEmpty = true
    · simp only [he, if_true, alLookup_erase]
    · simp only [he, Bool.false_eq_true, if_false, alLookup_insert]

theorem lookup_addOwnerAt (o : Owner) (b : Bitmap) (ips : List (Ip × IpState)) (key k : Ip) :
    alLookup k (addOwnerAt o b ips key) = if k = key then addAt o b (alLookup key ips) else alLookup k ips := by
  unfold addOwnerAt
  rw [alLookup_insert]
  cases h : alLookup key ips <;> simp [addAt]

theorem lookup_foldl_pointwise {ν : Type} (g : List (Ip × ν) → Ip → List (Ip × ν)) (f : Option ν → Option ν)
    (hg : ∀ m key k, alLookup k (g m key) = if k = key then f (alLookup key m) else alLookup k m)
    (hf : ∀ x, f (f x) = f x) (keys : List Ip) : ∀ (m : List (Ip × ν)) (k : Ip),
    alLookup k (keys.foldl g m) = if k ∈ keys then f (alLookup k m) else alLookup k m := by
  induction keys with
  | nil => intro m k; simp
  | cons a keys ih =>
    intro m k
    simp only [List.foldl_cons, ih, hg, List.mem_cons]
    by_cases hk : k = a
    · subst hk
      by_cases hm : k ∈ keys <;> simp [hm, hf]
    · by_cases hm : k ∈ keys <;> simp [hm, hk]

theorem rmAt_idem (o : Owner) (x : Option IpState) : rmAt o (rmAt o x) = rmAt o x := by
  cases x with
  | none => rfl
  | some st =>
    simp only [rmAt, norm]
    by_cases he : (alErase o st.owners).isEmpty = true
    · simp [he]
    · simp only [he, Bool.false_eq_true, if_false, alErase_idem]

theorem alInsert_idem {κ ν : Type} [DecidableEq κ] (k : κ) (v : ν) (l : List (κ × ν)) :
    alInsert k v (alInsert k v l) = alInsert k v l := by
  unfold alInsert
  congr 1
  have : alErase k ((k, v) :: alErase k l) = alErase k (alErase k l) := by
    unfold alErase; simp
  rw [this, alErase_idem]

theorem addAt_idem (o : Owner) (b : Bitmap) (x : Option IpState) : addAt o b (addAt o b x) = addAt o b x := by
  cases x <;> simp [addAt, alInsert_idem]

/-! ## the tracker invariant -/

/-- what owner `o` contributes to address `key` under the owner map `L`. -/
def ownBit (L : Owner → Option Snapshot) (key : Ip) (o : Owner) : Option Bitmap :=
  match L o with
  | some s => if s.ips.contains key then some s.bitmap else none
  | none => none

/-- `t` / `K` are the tracker and kernel table that denote the owner map `L`. -/
structure Inv (t : Tracker) (K : Kernel) (L : Owner → Option Snapshot) : Prop where
  owners : ∀ o, alLookup o t.owners = L o
  eff : ∀ o s, L o = some s → s.effective = true
  noEmpty : L "" = none
  st : ∀ key st, alLookup key t.ips = some st →
    NoDupKeys st.owners ∧ st.owners ≠ [] ∧ st.merged = orAll (st.owners.map (·.2)) ∧
      ∀ o, alLookup o st.owners = ownBit L key o
  none : ∀ key, alLookup key t.ips = none → ∀ o, ownBit L key o = none
  kern : ∀ key, alLookup key K = (alLookup key t.ips).map (·.merged)

/-- the post-state of one address, computed from the pre-state. -/
def target (t : Tracker) (key : Ip) (o : Owner) (s : Snapshot) : Option IpState :=
  if s.effective && s.ips.contains key then
    some ⟨alInsert o s.bitmap (othersOf t key o), orAll ((alInsert o s.bitmap (othersOf t key o)).map (·.2))⟩
  else norm (othersOf t key o)

theorem lookup_others {t : Tracker} {K : Kernel} {L : Owner → Option Snapshot} (hI : Inv t K L)
    (key : Ip) (o x : Owner) :
    alLookup x (othersOf t key o) = if x = o then none else ownBit L key x := by
  unfold othersOf
  cases h : alLookup key t.ips with
  | none =>
    simp only [alLookup_nil, hI.none key h]
    split <;> rfl
  | some st =>
    simp only [alLookup_erase, (hI.st key st h).2.2.2]

theorem nodup_others {t : Tracker} {K : Kernel} {L : Owner → Option Snapshot} (hI : Inv t K L)
    (key : Ip) (o : Owner) : NoDupKeys (othersOf t key o) := by
  unfold othersOf
  cases h : alLookup key t.ips with
  | none => exact NoDupKeys_nil
  | some st => exact NoDupKeys_erase o (hI.st key st h).1

/-- an address the owner did not list keeps its state: it already equals `norm others`. -/
theorem unchanged_eq_norm {t : Tracker} {K : Kernel} {L : Owner → Option Snapshot} (hI : Inv t K L)
    (key : Ip) (o : Owner) (h : ownBit L key o = none) :
    alLookup key t.ips = norm (othersOf t key o) := by
  unfold othersOf
  cases ha : alLookup key t.ips with
  | none => simp [norm]
  | some st =>
    obtain ⟨_, hne, hm, hl⟩ := hI.st key st ha
    have : alErase o st.owners = st.owners := alErase_of_lookup_none o _ (by rw [hl, h])
    simp only [this, norm]
    have : st.owners.isEmpty = false := by
      cases hs : st.owners with
      | nil => exact absurd hs hne
      | cons _ _ => rfl
    simp only [this, Bool.false_eq_true, if_false, ← hm]

theorem rmAt_eq_norm (t : Tracker) (key : Ip) (o : Owner) :
    rmAt o (alLookup key t.ips) = norm (othersOf t key o) := by
  unfold othersOf
  cases alLookup key t.ips with
  | none => simp [rmAt, norm]
  | some st => simp [rmAt]

theorem addAt_norm (o : Owner) (b : Bitmap) (l : List (Owner × Bitmap)) :
    addAt o b (norm l) = some ⟨alInsert o b l, orAll ((alInsert o b l).map (·.2))⟩ := by
  unfold norm
  cases l with
  | nil => simp [addAt]
  | cons p l => simp [addAt]

theorem lookup_applySnapshot_ips {t : Tracker} {K : Kernel} {L : Owner → Option Snapshot} (hI : Inv t K L)
    (o : Owner) (ho : o ≠ "") (s : Snapshot) (key : Ip) :
    alLookup key (applySnapshot t o s).ips = target t key o s := by
  -- state after the removal loop
  have h1 : alLookup key (removePhase t o).ips = norm (othersOf t key o) := by
    unfold removePhase
    cases hold : alLookup o t.owners with
    | none =>
      apply unchanged_eq_norm hI
      unfold ownBit; rw [← hI.owners, hold]
    | some old =>
      simp only
      rw [lookup_foldl_pointwise (removeOwnerAt o) (rmAt o) (lookup_removeOwnerAt o) (rmAt_idem o)]
      by_cases hm : key ∈ old.ips
      · simp only [hm, if_true, rmAt_eq_norm]
      · simp only [hm, if_false]
        apply unchanged_eq_norm hI
        unfold ownBit; rw [← hI.owners, hold]
        simp [hm]
  unfold applySnapshot target
  simp only [ho, if_false]
  by_cases he : s.effective = true
  · simp only [he, Bool.not_true, Bool.false_eq_true, if_false, Bool.true_and]
    rw [lookup_foldl_pointwise (addOwnerAt o s.bitmap) (addAt o s.bitmap) (lookup_addOwnerAt o s.bitmap)
      (addAt_idem o s.bitmap)]
    rw [h1]
    by_cases hm : key ∈ s.ips
    · simp [hm, addAt_norm]
    · simp [hm]
  · simp only [Bool.not_eq_true] at he
    simp only [he, Bool.not_false, if_true, Bool.false_and, Bool.false_eq_true, if_false]
    exact h1

theorem ownBit_setOwner (L : Owner → Option Snapshot) (o : Owner) (s : Snapshot) (key : Ip) (x : Owner) :
    ownBit (setOwner L o s) key x =
      if x = o then (if s.effective && s.ips.contains key then some s.bitmap else none) else ownBit L key x := by
  unfold ownBit setOwner
  by_cases hx : x = o
  · simp only [hx, if_true]
    by_cases he : s.effective = true
    · simp [he]
    · simp only [Bool.not_eq_true] at he
      simp [he]
  · simp [hx]

theorem isEmpty_false_of_ne_nil {α : Type} {l : List α} (h : l ≠ []) : l.isEmpty = false := by
  cases l with
  | nil => exact absurd rfl h
  | cons _ _ => rfl

/-- the post-state of every address denotes the new owner map. -/
theorem target_spec {t : Tracker} {K : Kernel} {L : Owner → Option Snapshot} (hI : Inv t K L)
    (o : Owner) (s : Snapshot) (key : Ip) :
    match target t key o s with
    | none => ∀ x, ownBit (setOwner L o s) key x = none
    | some st => NoDupKeys st.owners ∧ st.owners ≠ [] ∧ st.merged = orAll (st.owners.map (·.2)) ∧
        ∀ x, alLookup x st.owners = ownBit (setOwner L o s) key x := by
  unfold target
  by_cases hc : (s.effective && s.ips.contains key) = true
  · simp only [hc, if_true]
    refine ⟨NoDupKeys_insert _ _ (nodup_others hI key o), by simp [alInsert], trivial, ?_⟩
    intro x
    rw [alLookup_insert, lookup_others hI, ownBit_setOwner]
    simp only [hc, if_true]
    by_cases hx : x = o <;> simp [hx]
  · simp only [hc, Bool.false_eq_true, if_false, norm]
    by_cases he : (othersOf t key o).isEmpty = true
    · simp only [he, if_true]
      intro x
      rw [ownBit_setOwner]
      simp only [hc, Bool.false_eq_true, if_false]
      by_cases hx : x = o
      · simp [hx]
      · simp only [hx, if_false]
        have := lookup_others hI key o x
        simp only [hx, if_false] at this
        rw [← this, List.isEmpty_iff.mp he]
        rfl
    · simp only [he, Bool.false_eq_true, if_false]
      refine ⟨nodup_others hI key o, ?_, trivial, ?_⟩
      · intro h; rw [h] at he; simp at he
      · intro x
        rw [lookup_others hI, ownBit_setOwner]
        simp only [hc, Bool.false_eq_true, if_false]

/-! ## the batches -/

/-- the table entry of `key` after the batches of one `syncOwner`, if `key` is among the affected. -/
def kAfter (t : Tracker) (K : Kernel) (o : Owner) (s : Snapshot) (key : Ip) : Option Bitmap :=
  match classify t key o s with
  | .upd v => some v
  | .del => none
  | .keep => alLookup key K

theorem lookup_ups (t : Tracker) (o : Owner) (s : Snapshot) (aff : List Ip) (k : Ip) : ∀ K : Kernel,
    alLookup k ((aff.filterMap (updOf t o s)).foldl (fun K p => alInsert p.1 p.2 K) K) =
      if k ∈ aff then (match classify t k o s with
        | .upd v => some v
        | _ => alLookup k K) else alLookup k K := by
  induction aff with
  | nil => intro K; simp
  | cons a aff ih =>
    intro K
    rw [List.filterMap_cons]
    cases hc : classify t a o s with
    | upd v =>
      simp only [updOf, hc, List.foldl_cons, ih, alLookup_insert, List.mem_cons]
      by_cases hk : k = a
      · subst hk; simp [hc]
      · simp only [hk, if_false, false_or]
    | del =>
      simp only [updOf, hc, ih, List.mem_cons]
      by_cases hk : k = a
      · subst hk; simp [hc]
      · simp [hk]
    | keep =>
      simp only [updOf, hc, ih, List.mem_cons]
      by_cases hk : k = a
      · subst hk; simp [hc]
      · simp [hk]

theorem lookup_dels (p : Ip → Bool) (aff : List Ip) (k : Ip) : ∀ K : Kernel,
    alLookup k ((aff.filter p).foldl (fun K k => alErase k K) K) =
      if k ∈ aff ∧ p k = true then none else alLookup k K := by
  induction aff with
  | nil => intro K; simp
  | cons a aff ih =>
    intro K
    rw [List.filter_cons]
    by_cases hp : p a = true
    · simp only [hp, if_true, List.foldl_cons, ih, alLookup_erase, List.mem_cons]
      by_cases hk : k = a
      · subst hk; simp [hp]
      · simp [hk]
    · simp only [hp, Bool.false_eq_true, if_false, ih, List.mem_cons]
      by_cases hk : k = a
      · subst hk; simp [hp]
      · simp [hk]

theorem lookup_applyEmit (t : Tracker) (K : Kernel) (o : Owner) (s : Snapshot) (aff : List Ip) (key : Ip) :
    alLookup key (applyEmit K (emitFor t o s aff)) =
      if key ∈ aff then kAfter t K o s key else alLookup key K := by
  unfold applyEmit emitFor
  simp only [lookup_dels, lookup_ups, kAfter, isDel]
  by_cases hm : key ∈ aff
  · simp only [hm, true_and, if_true]
    cases classify t key o s <;> simp
  · simp [hm]

theorem mem_affected (t : Tracker) (o : Owner) (s : Snapshot) (key : Ip) :
    key ∈ affected t o s ↔ key ∈ (oldSnapshot t o).ips ∨ key ∈ s.ips := by
  simp [affected, mem_dedup]

theorem others_nil_of_none {t : Tracker} {key : Ip} (o : Owner) (h : alLookup key t.ips = none) :
    othersOf t key o = [] := by
  simp [othersOf, h]

theorem kAfter_eq_target {t : Tracker} {K : Kernel} {L : Owner → Option Snapshot} (hI : Inv t K L)
    (o : Owner) (s : Snapshot) (key : Ip) :
    kAfter t K o s key = (target t key o s).map (·.merged) := by
  have hk := hI.kern key
  have hlo : alErase o (othersOf t key o) = othersOf t key o :=
    alErase_of_lookup_none _ _ (by rw [lookup_others hI]; simp)
  unfold kAfter classify desired target
  by_cases hc : (s.effective && s.ips.contains key) = true
  · simp only [hc, if_true, Option.map_some]
    have hcomm : orAll (List.map (fun x => x.snd) (alInsert o s.bitmap (othersOf t key o))) =
        orAll (List.map (fun x => x.snd) (othersOf t key o)) ||| s.bitmap := by
      simp only [alInsert, hlo, List.map_cons, orAll, Nat.or_comm]
    rw [hcomm]
    cases ha : alLookup key t.ips with
    | none => simp
    | some cur =>
      simp only
      by_cases hne : cur.merged = orAll (List.map (fun x => x.snd) (othersOf t key o)) ||| s.bitmap
      · simp [hne, hk, ha]
      · simp [hne]
  · simp only [hc, Bool.false_eq_true, if_false, norm]
    cases ha : alLookup key t.ips with
    | none =>
      simp [others_nil_of_none o ha, hk, ha]
    | some cur =>
      by_cases he : (othersOf t key o).isEmpty = true
      · simp [he]
      · simp only [Bool.not_eq_true] at he
        simp only [he, Bool.not_false, Bool.false_eq_true, if_false, Option.map_some]
        by_cases hne : cur.merged = orAll (List.map (fun x => x.snd) (othersOf t key o))
        · simp [hne, hk, ha]
        · simp [hne]

theorem target_of_not_affected {t : Tracker} {K : Kernel} {L : Owner → Option Snapshot} (hI : Inv t K L)
    (o : Owner) (s : Snapshot) (key : Ip) (h : key ∉ affected t o s) :
    target t key o s = alLookup key t.ips := by
  rw [mem_affected] at h
  have h1 : key ∉ (oldSnapshot t o).ips := fun x => h (Or.inl x)
  have h2 : key ∉ s.ips := fun x => h (Or.inr x)
  unfold target
  have : s.ips.contains key = false := by simpa using h2
  simp only [this, Bool.and_false, Bool.false_eq_true, if_false]
  symm
  apply unchanged_eq_norm hI
  unfold ownBit
  rw [← hI.owners]
  unfold oldSnapshot at h1
  cases hold : alLookup o t.owners with
  | none => rfl
  | some old =>
    rw [hold] at h1
    simp [h1]

theorem lookup_removePhase_owners {t : Tracker} {K : Kernel} {L : Owner → Option Snapshot} (hI : Inv t K L)
    (o x : Owner) : alLookup x (removePhase t o).owners = if x = o then none else L x := by
  unfold removePhase
  cases hold : alLookup o t.owners with
  | none =>
    simp only
    by_cases hx : x = o
    · subst hx; simp [hold]
    · simp [hx, hI.owners]
  | some old => simp only [alLookup_erase, hI.owners]

/-- **One `syncOwner` preserves the invariant**, for the owner map updated at `o`. -/
theorem Inv_sync {t : Tracker} {K : Kernel} {L : Owner → Option Snapshot} (hI : Inv t K L)
    (o : Owner) (ho : o ≠ "") (s : Snapshot) :
    Inv (applySnapshot t o s) (applyEmit K (emitFor t o s (affected t o s))) (setOwner L o s) := by
  have hips := lookup_applySnapshot_ips hI o ho s
  refine ⟨?_, ?_, ?_, ?_, ?_, ?_⟩
  · -- owners
    intro x
    unfold applySnapshot setOwner
    simp only [ho, if_false]
    have hrem := lookup_removePhase_owners hI o
    by_cases he : s.effective = true
    · simp only [he, Bool.not_true, Bool.false_eq_true, if_false, if_true, alLookup_insert, hrem]
      by_cases hx : x = o <;> simp [hx]
    · simp only [Bool.not_eq_true] at he
      simp only [he, Bool.not_false, if_true, hrem, Bool.false_eq_true, if_false]
  · -- eff
    intro x sx h
    unfold setOwner at h
    by_cases hx : x = o
    · simp only [hx, if_true] at h
      by_cases he : s.effective = true
      · simp only [he, if_true, Option.some.injEq] at h; subst h; exact he
      · simp [he] at h
    · simp only [hx, if_false] at h
      exact hI.eff x sx h
  · -- noEmpty
    unfold setOwner
    have : ¬ ("" = o) := fun e => ho e.symm
    simp only [this, if_false]
    exact hI.noEmpty
  · -- st
    intro key st hst
    rw [hips] at hst
    have := target_spec hI o s key
    rw [hst] at this
    exact this
  · -- none
    intro key hnone
    rw [hips] at hnone
    have := target_spec hI o s key
    rw [hnone] at this
    exact this
  · -- kern
    intro key
    rw [lookup_applyEmit, hips]
    by_cases hm : key ∈ affected t o s
    · simp only [hm, if_true]
      exact kAfter_eq_target hI o s key
    · simp only [hm, if_false, target_of_not_affected hI o s key hm]
      exact hI.kern key

theorem Inv_empty : Inv Tracker.empty [] (fun _ => none) :=
  ⟨fun _ => rfl, fun _ _ h => by simp at h, rfl, fun _ _ h => by simp [Tracker.empty, alLookup] at h,
   fun _ _ _ => rfl, fun _ => rfl⟩

/-! ## consequences of the invariant -/

theorem Inv.kernel_bit {t : Tracker} {K : Kernel} {L : Owner → Option Snapshot} (hI : Inv t K L) (ip : Ip) (i : Nat) :
    (kernelVal K ip).testBit i = true ↔
      ∃ o s, L o = some s ∧ ip ∈ s.ips ∧ s.bitmap.testBit i = true := by
  unfold kernelVal
  rw [hI.kern ip]
  cases hst : alLookup ip t.ips with
  | none =>
    simp only [Option.map_none, Nat.zero_testBit, Bool.false_eq_true, false_iff]
    rintro ⟨o, s, hL, hm, _⟩
    have := hI.none ip hst o
    unfold ownBit at this
    rw [hL] at this
    simp [hm] at this
  | some st =>
    obtain ⟨hnd, _, hm, hl⟩ := hI.st ip st hst
    simp only [Option.map_some, hm, testBit_orAll, List.any_map, List.any_eq_true, Function.comp]
    constructor
    · rintro ⟨⟨o, b⟩, hmem, hb⟩
      have h1 := alLookup_of_mem hnd hmem
      rw [hl] at h1
      unfold ownBit at h1
      cases hL : L o with
      | none => simp [hL] at h1
      | some s =>
        simp [hL] at h1
        exact ⟨o, s, hL, h1.1, by rw [h1.2]; exact hb⟩
    · rintro ⟨o, s, hL, hmem, hb⟩
      have h1 : alLookup o st.owners = some s.bitmap := by
        rw [hl]; unfold ownBit; rw [hL]; simp [hmem]
      exact ⟨(o, s.bitmap), mem_of_alLookup h1, hb⟩

theorem ne_zero_of_testBit {b i : Nat} (h : b.testBit i = true) : b ≠ 0 := by
  intro e; subst e; simp at h

theorem Inv.no_orphan {t : Tracker} {K : Kernel} {L : Owner → Option Snapshot} (hI : Inv t K L) (ip : Ip) (v : Bitmap)
    (h : alLookup ip K = some v) :
    v ≠ 0 ∧ ∃ o s, L o = some s ∧ ip ∈ s.ips ∧ s.bitmap ≠ 0 := by
  rw [hI.kern ip] at h
  cases hst : alLookup ip t.ips with
  | none => simp [hst] at h
  | some st =>
    simp only [hst, Option.map_some, Option.some.injEq] at h
    obtain ⟨_, hne, hm, hl⟩ := hI.st ip st hst
    cases hown : st.owners with
    | nil => exact absurd hown hne
    | cons p rest =>
      obtain ⟨o, b⟩ := p
      have h1 : alLookup o st.owners = some b := by rw [hown]; simp [alLookup]
      rw [hl] at h1
      unfold ownBit at h1
      cases hL : L o with
      | none => simp [hL] at h1
      | some s =>
        simp [hL] at h1
        have heff := hI.eff o s hL
        have hb : s.bitmap ≠ 0 := by
          unfold Snapshot.effective at heff
          simp only [Bool.and_eq_true, bne_iff_ne, ne_eq] at heff
          exact heff.2
        refine ⟨?_, o, s, hL, h1.1, hb⟩
        obtain ⟨i, hi⟩ := Nat.exists_testBit_of_ne_zero hb
        apply ne_zero_of_testBit (i := i)
        rw [← h, hm, testBit_orAll, hown]
        simp [← h1.2, hi]

/-- invariant along any history of `syncOwner` calls. -/
theorem Inv_runSync (h : List (Owner × Snapshot)) : ∀ (s : TK) (L : Owner → Option Snapshot), Inv s.t s.K L →
    Inv (runSync s h).t (runSync s h).K (liveAfter L h) := by
  induction h with
  | nil => intro s L hI; exact hI
  | cons p h ih =>
    intro s L hI
    unfold runSync liveAfter
    simp only [List.foldl_cons]
    apply ih
    unfold TK.sync syncOwner
    by_cases ho : p.1 = ""
    · simp only [ho, if_true]; exact hI
    · simp only [ho, if_false]
      exact Inv_sync hI p.1 ho p.2

/-! ## failing batch syscalls -/

theorem Inv_of_lookup_eq {t : Tracker} {K K' : Kernel} {L : Owner → Option Snapshot} (hI : Inv t K L)
    (h : ∀ key, alLookup key K' = alLookup key K) : Inv t K' L :=
  ⟨hI.owners, hI.eff, hI.noEmpty, hI.st, hI.none, fun key => by rw [h key]; exact hI.kern key⟩

/-- one call with any behaviour of the update batch (the delete batch succeeds): the invariant is kept for
the owner map that changes exactly when the call completed. -/
theorem Inv_syncO {s : TK} {L : Owner → Option Snapshot} (hI : Inv s.t s.K L) (o : Owner) (snap : Snapshot)
    (oc : Outcome) (hoc : oc ≠ .delFail) :
    Inv (s.syncO o snap oc).1.t (s.syncO o snap oc).1.K
      (if (s.syncO o snap oc).2 = .done then setOwner L o snap else L) := by
  unfold TK.syncO syncOwner
  by_cases ho : o = ""
  · simp only [ho, if_true]; exact hI
  · simp only [ho, if_false]
    by_cases h1 : oc = .updFail ∧ (emitFor s.t o snap (affected s.t o snap)).ups ≠ []
    · rw [if_pos h1]
      simp only [reduceCtorEq, if_false]
      exact hI
    · rw [if_neg h1]
      have h2 : ¬ (oc = .delFail ∧ (emitFor s.t o snap (affected s.t o snap)).dels ≠ []) := fun h => hoc h.1
      rw [if_neg h2]
      simp only [if_true]
      exact Inv_sync hI o ho snap

theorem Inv_runSyncO (h : List (Owner × Snapshot × Outcome)) : ∀ (s : TK) (L : Owner → Option Snapshot),
    Inv s.t s.K L → (∀ p ∈ h, p.2.2 ≠ Outcome.delFail) →
    Inv (runSyncO s L h).1.t (runSyncO s L h).1.K (runSyncO s L h).2 := by
  induction h with
  | nil => intro s L hI _; exact hI
  | cons p h ih =>
    intro s L hI hall
    unfold runSyncO
    simp only [List.foldl_cons]
    apply ih
    · exact Inv_syncO hI p.1 p.2.1 p.2.2 (hall p (by simp))
    · intro q hq; exact hall q (List.mem_cons_of_mem _ hq)

/-- the update batch alone, applied to the table. -/
theorem lookup_ups_only (t : Tracker) (K : Kernel) (o : Owner) (s : Snapshot) (aff : List Ip) (key : Ip) :
    alLookup key (applyEmit K ⟨(emitFor t o s aff).ups, []⟩) =
      if key ∈ aff then (match classify t key o s with
        | .upd v => some v
        | _ => alLookup key K) else alLookup key K := by
  unfold applyEmit emitFor
  simp only [List.foldl_nil, lookup_ups]

/-- retrying the same call right after a failed delete batch repairs everything. -/
theorem Inv_retry_after_delFail {t : Tracker} {K : Kernel} {L : Owner → Option Snapshot} (hI : Inv t K L)
    (o : Owner) (ho : o ≠ "") (s : Snapshot) :
    Inv (applySnapshot t o s)
      (applyEmit (applyEmit K ⟨(emitFor t o s (affected t o s)).ups, []⟩) (emitFor t o s (affected t o s)))
      (setOwner L o s) := by
  apply Inv_of_lookup_eq (Inv_sync hI o ho s)
  intro key
  rw [lookup_applyEmit, lookup_applyEmit]
  by_cases hm : key ∈ affected t o s
  · simp only [hm, if_true, kAfter]
    cases hc : classify t key o s with
    | upd v => rfl
    | del => rfl
    | keep => simp only [lookup_ups_only, hm, if_true, hc]
  · simp only [hm, if_false, lookup_ups_only]

theorem syncO_ok (s : TK) (o : Owner) (ho : o ≠ "") (snap : Snapshot) :
    s.syncO o snap .ok = (⟨applySnapshot s.t o snap, applyEmit s.K (emitFor s.t o snap (affected s.t o snap)),
      s.log ++ [(o, emitFor s.t o snap (affected s.t o snap))]⟩, .done) := by
  unfold TK.syncO syncOwner
  simp [ho]

theorem syncO_delFail (s : TK) (o : Owner) (ho : o ≠ "") (snap : Snapshot) :
    s.syncO o snap .delFail =
      if (emitFor s.t o snap (affected s.t o snap)).dels ≠ [] then
        (⟨s.t, applyEmit s.K ⟨(emitFor s.t o snap (affected s.t o snap)).ups, []⟩,
          if (emitFor s.t o snap (affected s.t o snap)).ups.isEmpty then s.log
          else s.log ++ [(o, ⟨(emitFor s.t o snap (affected s.t o snap)).ups, []⟩)]⟩, .delFailed)
      else s.syncO o snap .ok := by
  rw [syncO_ok s o ho]
  unfold TK.syncO syncOwner
  simp [ho]

theorem syncO_empty_owner (s : TK) (snap : Snapshot) (oc : Outcome) : s.syncO "" snap oc = (s, .rejected) := by
  unfold TK.syncO syncOwner
  simp

theorem setOwner_idem (L : Owner → Option Snapshot) (o : Owner) (s : Snapshot) :
    setOwner (setOwner L o s) o s = setOwner L o s := by
  funext x; unfold setOwner; by_cases hx : x = o <;> simp [hx]

theorem Inv_delFail_then_retry {s : TK} {L : Owner → Option Snapshot} (hI : Inv s.t s.K L) (o : Owner)
    (snap : Snapshot) :
    Inv ((s.syncO o snap .delFail).1.syncO o snap .ok).1.t ((s.syncO o snap .delFail).1.syncO o snap .ok).1.K
      (if o = "" then L else setOwner L o snap) := by
  by_cases ho : o = ""
  · subst ho
    simp only [syncO_empty_owner, if_true]
    exact hI
  · simp only [ho, if_false]
    rw [syncO_delFail s o ho]
    by_cases hd : (emitFor s.t o snap (affected s.t o snap)).dels ≠ []
    · rw [if_pos hd, syncO_ok _ o ho]
      exact Inv_retry_after_delFail hI o ho snap
    · rw [if_neg hd, syncO_ok s o ho, syncO_ok _ o ho]
      have h2 := Inv_sync (Inv_sync hI o ho snap) o ho snap
      rw [setOwner_idem] at h2
      exact h2

/-! ## the cache layer -/

/-- the owner map the cache contents denote: every cached entry under its key, unless it lists no address
or carries a zero bitmap. -/
def liveOfCache (C : List (String × Entry)) : Owner → Option Snapshot :=
  fun o => if o = "" then none else
    match alLookup o C with
    | some e => if e.snap.effective then some e.snap else none
    | none => none

/-- invariant of the cache layer: tracker and table denote exactly the cache contents; object identities
(`id`) are fresh; a queued refresh that still points at the cached object carries that object's payload. -/
structure CInv (σ : CState) : Prop where
  inv : Inv σ.tk.t σ.tk.K (liveOfCache σ.cache)
  noEmptyKey : alLookup "" σ.cache = none
  nodup : NoDupKeys σ.cache
  idsC : ∀ k e, alLookup k σ.cache = some e → e.id < σ.nextId
  idsP : ∀ t ∈ σ.pending, t.id < σ.nextId
  task : ∀ t ∈ σ.pending, ∀ e, alLookup t.key σ.cache = some e → e.id = t.id → e.snap = t.snap

theorem Inv_TKsync {s : TK} {L : Owner → Option Snapshot} (hI : Inv s.t s.K L) (o : Owner) (snap : Snapshot) :
    Inv (s.sync o snap).t (s.sync o snap).K (if o = "" then L else setOwner L o snap) := by
  unfold TK.sync syncOwner
  by_cases ho : o = ""
  · simp only [ho, if_true]; exact hI
  · simp only [ho, if_false]; exact Inv_sync hI o ho snap

theorem liveOfCache_erase (C : List (String × Entry)) (key : String) :
    liveOfCache (alErase key C) = setOwner (liveOfCache C) key Snapshot.empty := by
  funext x
  unfold liveOfCache setOwner
  by_cases hx : x = key
  · subst hx
    simp [alLookup_erase, Snapshot.empty, Snapshot.effective]
  · simp [alLookup_erase, hx]

theorem liveOfCache_insert (C : List (String × Entry)) (key : String) (e : Entry) (hk : key ≠ "") :
    liveOfCache (alInsert key e C) = setOwner (liveOfCache C) key e.snap := by
  funext x
  unfold liveOfCache setOwner
  by_cases hx : x = key
  · subst hx
    simp [alLookup_insert, hk]
  · simp [alLookup_insert, hx]

theorem liveOfCache_insert_same (C : List (String × Entry)) (key : String) (e e' : Entry)
    (h : alLookup key C = some e) (hs : e'.snap = e.snap) :
    liveOfCache (alInsert key e' C) = liveOfCache C := by
  funext x
  unfold liveOfCache
  by_cases hx : x = key
  · subst hx
    simp [alLookup_insert, h, hs]
  · simp [alLookup_insert, hx]

theorem setOwner_self (L : Owner → Option Snapshot) (o : Owner) (s : Snapshot)
    (h : L o = if s.effective then some s else none) : setOwner L o s = L := by
  funext x
  unfold setOwner
  by_cases hx : x = o
  · subst hx; simp [h]
  · simp [hx]

theorem CInv_evict {σ : CState} (h : CInv σ) (key : String) : CInv (σ.evict key) := by
  unfold CState.evict
  by_cases hk : key = ""
  · simp only [hk, if_true]; exact h
  · simp only [hk, if_false]
    cases hl : alLookup key σ.cache with
    | none => exact h
    | some e =>
      have hne : ¬ ("" = key) := fun e => hk e.symm
      refine ⟨?_, ?_, NoDupKeys_erase key h.nodup, ?_, h.idsP, ?_⟩
      · have := Inv_TKsync h.inv key Snapshot.empty
        simp only [hk, if_false] at this
        simp only [liveOfCache_erase]
        exact this
      · simp only [alLookup_erase, hne, if_false]; exact h.noEmptyKey
      · intro k e' hk'
        simp only [alLookup_erase] at hk'
        by_cases hkk : k = key
        · simp [hkk] at hk'
        · simp only [hkk, if_false] at hk'; exact h.idsC k e' hk'
      · intro t ht e' hl' hid
        simp only [alLookup_erase] at hl'
        by_cases hkk : t.key = key
        · simp [hkk] at hl'
        · simp only [hkk, if_false] at hl'; exact h.task t ht e' hl' hid

theorem CInv_foldl_evict (f : String → Bool) (order : List String) : ∀ {σ : CState}, CInv σ →
    CInv (order.foldl (fun σ k => if f k then σ.evict k else σ) σ) := by
  induction order with
  | nil => intro σ h; exact h
  | cons k order ih =>
    intro σ h
    simp only [List.foldl_cons]
    by_cases hf : f k = true
    · simp only [hf, if_true]; exact ih (CInv_evict h k)
    · simp only [hf, Bool.false_eq_true, if_false]; exact ih h

/-- rewriting bookkeeping fields of the cached object under `key` (same identity, same payload), with a new
queue whose tasks are old ones or point at that object. -/
theorem CInv_update_fields {σ : CState} (h : CInv σ) (key : String) (e e' : Entry)
    (hl : alLookup key σ.cache = some e) (hs : e'.snap = e.snap) (hid : e'.id = e.id) (pending : List Task)
    (hp : ∀ t ∈ pending, t ∈ σ.pending ∨ (t.id = e.id ∧ t.key = key ∧ t.snap = e.snap)) :
    CInv { σ with cache := alInsert key e' σ.cache, pending := pending } := by
  have hk : key ≠ "" := by
    intro e0; subst e0; rw [h.noEmptyKey] at hl; cases hl
  have hne : ¬ ("" = key) := fun e => hk e.symm
  refine ⟨?_, ?_, NoDupKeys_insert _ _ h.nodup, ?_, ?_, ?_⟩
  · simp only [liveOfCache_insert_same σ.cache key e e' hl hs]
    exact h.inv
  · simp only [alLookup_insert, hne, if_false]; exact h.noEmptyKey
  · intro k x hx
    simp only [alLookup_insert] at hx
    by_cases hkk : k = key
    · simp only [hkk, if_true, Option.some.injEq] at hx
      subst hx; rw [hid]; exact h.idsC key e hl
    · simp only [hkk, if_false] at hx; exact h.idsC k x hx
  · intro t ht
    rcases hp t ht with h1 | ⟨h1, _, _⟩
    · exact h.idsP t h1
    · simp only; rw [h1]; exact h.idsC key e hl
  · intro t ht x hx hxid
    simp only [alLookup_insert] at hx
    rcases hp t ht with h1 | ⟨h1, h2, h3⟩
    · by_cases hkk : t.key = key
      · simp only [hkk, if_true, Option.some.injEq] at hx
        subst hx
        rw [hs]
        exact h.task t h1 e (by rw [hkk]; exact hl) (by rw [← hid]; exact hxid)
      · simp only [hkk, if_false] at hx; exact h.task t h1 x hx hxid
    · simp only [h2, if_true, Option.some.injEq] at hx
      subst hx
      rw [hs, h3]

theorem CInv_queueRefresh {σ : CState} (h : CInv σ) (key : String) : CInv (σ.queueRefresh key) := by
  unfold CState.queueRefresh
  cases hl : alLookup key σ.cache with
  | none => exact h
  | some e =>
    apply CInv_update_fields h key e { e with lastSync := σ.now } hl rfl rfl
    intro t ht
    rcases List.mem_append.mp ht with h1 | h1
    · exact Or.inl h1
    · simp only [List.mem_singleton] at h1
      subst h1
      exact Or.inr ⟨rfl, rfl, rfl⟩

/-- storing a fresh object under `key` and syncing its snapshot (insert, replace, restore). -/
theorem CInv_store {σ : CState} (h : CInv σ) (key : String) (hk : key ≠ "") (e : Entry) :
    CInv (σ.store key e) := by
  unfold CState.store
  have hne : ¬ ("" = key) := fun e => hk e.symm
  refine ⟨?_, ?_, NoDupKeys_insert _ _ h.nodup, ?_, ?_, ?_⟩
  · have := Inv_TKsync h.inv key e.snap
    simp only [hk, if_false] at this
    simp only [liveOfCache_insert _ _ _ hk]
    exact this
  · simp only [alLookup_insert, hne, if_false]; exact h.noEmptyKey
  · intro k x hx
    simp only [alLookup_insert] at hx
    by_cases hkk : k = key
    · simp only [hkk, if_true, Option.some.injEq] at hx
      subst hx; exact Nat.lt_succ_self _
    · simp only [hkk, if_false] at hx
      exact Nat.lt_succ_of_lt (h.idsC k x hx)
  · intro t ht; exact Nat.lt_succ_of_lt (h.idsP t ht)
  · intro t ht x hx hxid
    simp only [alLookup_insert] at hx
    by_cases hkk : t.key = key
    · simp only [hkk, if_true, Option.some.injEq] at hx
      subst hx
      have := h.idsP t ht
      simp only at hxid
      omega
    · simp only [hkk, if_false] at hx; exact h.task t ht x hx hxid

theorem CInv_pop {σ : CState} (h : CInv σ) (t : Task) (rest : List Task) (hp : σ.pending = t :: rest) :
    CInv { σ with pending := rest } :=
  ⟨h.inv, h.noEmptyKey, h.nodup, h.idsC,
   fun x hx => h.idsP x (by rw [hp]; exact List.mem_cons_of_mem _ hx),
   fun x hx => h.task x (by rw [hp]; exact List.mem_cons_of_mem _ hx)⟩

/-- applying a task whose payload is known to be the cached object's payload (or dropping it). -/
theorem CInv_applyTask {σ : CState} (h : CInv σ) (t : Task)
    (ht : ∀ e, alLookup t.key σ.cache = some e → e.id = t.id → e.snap = t.snap) :
    CInv (σ.applyTask t) := by
  unfold CState.applyTask
  cases hl : alLookup t.key σ.cache with
  | none => exact h
  | some e =>
    simp only
    by_cases hid : e.id = t.id
    · rw [if_pos hid]
      have hsnap := ht e hl hid
      have hk : t.key ≠ "" := by
        intro e0; rw [e0, h.noEmptyKey] at hl; cases hl
      have h1 := CInv_update_fields h t.key e { e with lastSync := t.now } hl rfl rfl σ.pending
        (fun x hx => Or.inl hx)
      -- the sync re-applies the snapshot the tracker already holds for this owner
      have hI := Inv_TKsync h1.inv t.key t.snap
      simp only [hk, if_false] at hI
      rw [setOwner_self] at hI
      · exact ⟨hI, h1.noEmptyKey, h1.nodup, h1.idsC, h1.idsP, h1.task⟩
      · unfold liveOfCache
        simp only [hk, if_false, alLookup_insert, if_true]
        have : ({ e with lastSync := t.now } : Entry).snap = t.snap := hsnap
        rw [this]
    · rw [if_neg hid]
      exact h

theorem CInv_reset {σ : CState} (h : CInv σ) :
    CInv { σ with cache := [], tk := ⟨Tracker.empty, [], σ.tk.log⟩ } := by
  refine ⟨?_, rfl, NoDupKeys_nil, ?_, h.idsP, ?_⟩
  · have : liveOfCache ([] : List (String × Entry)) = fun _ => none := by
      funext x; simp [liveOfCache, alLookup]
    simp only [this]; exact Inv_empty
  · intro k e hk; simp [alLookup] at hk
  · intro t _ e hl; simp [alLookup] at hl

theorem CInv_restore_fold (old : List (String × Entry)) (order : List (String × Bitmap)) :
    ∀ {σ : CState}, CInv σ → CInv (order.foldl (fun σ p =>
      match alLookup p.1 old with
      | some e => if p.1 = "" then σ else σ.store p.1 { e with bitmap := p.2, lastSync := σ.now }
      | none => σ) σ) := by
  induction order with
  | nil => intro σ h; exact h
  | cons p order ih =>
    intro σ h
    simp only [List.foldl_cons]
    apply ih
    cases alLookup p.1 old with
    | none => exact h
    | some e =>
      simp only
      by_cases hk : p.1 = ""
      · simp only [hk, if_true]; exact h
      · simp only [hk, if_false]; exact CInv_store h p.1 hk _

theorem CInv_step {σ : CState} (h : CInv σ) (op : COp) : CInv (cstep σ op) := by
  cases op with
  | put key fqdn qtype ttl fixedTtl bitmap ans =>
    simp only [cstep]
    by_cases hk : effKey key fqdn qtype = ""
    · simp only [hk, if_true]; exact h
    · simp only [hk, if_false]; exact CInv_store h _ hk _
  | del key => simp only [cstep]; exact CInv_evict h key
  | fam base order =>
    simp only [cstep]
    by_cases hb : base = ""
    · simp only [hb, if_true]; exact h
    · simp only [hb, if_false]
      have := CInv_foldl_evict (fun k => decide (baseKey k = base)) order h
      simp only [decide_eq_true_eq] at this
      exact this
  | look key evicted queued =>
    simp only [cstep]
    cases evicted with
    | true => simp only [if_true]; exact CInv_evict h key
    | false =>
      cases queued with
      | true => simp only [Bool.false_eq_true, if_false, if_true]; exact CInv_queueRefresh h key
      | false => simp only [Bool.false_eq_true, if_false]; exact h
  | jan order =>
    simp only [cstep]
    have := CInv_foldl_evict (fun _ => true) order h
    simp only [if_true] at this
    exact this
  | sleep ns =>
    simp only [cstep]
    exact ⟨h.inv, h.noEmptyKey, h.nodup, h.idsC, h.idsP, h.task⟩
  | touch key =>
    simp only [cstep]
    cases hl : alLookup key σ.cache with
    | none => exact h
    | some e =>
      exact CInv_update_fields h key e { e with lastAccess := σ.now } hl rfl rfl σ.pending (fun x hx => Or.inl hx)
  | hot key evicted queued =>
    simp only [cstep]
    cases hl : alLookup key σ.cache with
    | none => exact h
    | some e =>
      simp only
      have h1 : CInv { σ with cache := alInsert key { e with lastAccess := σ.now } σ.cache } :=
        CInv_update_fields h key e { e with lastAccess := σ.now } hl rfl rfl σ.pending (fun x hx => Or.inl hx)
      cases evicted with
      | true => simp only [if_true]; exact CInv_evict h1 key
      | false =>
        cases queued with
        | true => simp only [Bool.false_eq_true, if_false, if_true]; exact CInv_queueRefresh h1 key
        | false => simp only [Bool.false_eq_true, if_false]; exact h1
  | reload assign =>
    simp only [cstep]
    exact CInv_restore_fold σ.cache _ (CInv_reset h)
  | work =>
    simp only [cstep]
    cases hp : σ.pending with
    | nil => exact h
    | cons t rest =>
      simp only
      apply CInv_applyTask (CInv_pop h t rest hp) t
      intro e hl hid
      exact h.task t (by rw [hp]; simp) e hl hid

theorem CInv_init (cfg : Cfg) : CInv (CState.init cfg) := by
  refine ⟨?_, rfl, NoDupKeys_nil, ?_, ?_, ?_⟩
  · have : liveOfCache (CState.init cfg).cache = fun _ => none := by
      funext x; simp [liveOfCache, CState.init, alLookup]
    rw [this]; exact Inv_empty
  · intro k e hk; simp [CState.init, alLookup] at hk
  · intro t ht; simp [CState.init] at ht
  · intro t ht; simp [CState.init] at ht

theorem CInv_run (ops : List COp) : ∀ {σ : CState}, CInv σ → CInv (crun σ ops) := by
  induction ops with
  | nil => intro σ h; exact h
  | cons op ops ih =>
    intro σ h
    unfold crun
    simp only [List.foldl_cons]
    exact ih (CInv_step h op)

/-! ## consequences for the cache layer -/

theorem live_iff_cached {C : List (String × Entry)} (hne : alLookup "" C = none) (ip : Ip) (i : Nat) :
    (∃ o s, liveOfCache C o = some s ∧ ip ∈ s.ips ∧ s.bitmap.testBit i = true) ↔
      ∃ key e, alLookup key C = some e ∧ ip ∈ ansIps e.ans ∧ e.bitmap.testBit i = true := by
  constructor
  · rintro ⟨o, s, hL, hm, hb⟩
    unfold liveOfCache at hL
    by_cases ho : o = ""
    · simp [ho] at hL
    · simp only [ho, if_false] at hL
      cases hl : alLookup o C with
      | none => simp [hl] at hL
      | some e =>
        simp only [hl] at hL
        by_cases he : e.snap.effective = true
        · simp only [he, if_true, Option.some.injEq] at hL
          subst hL
          exact ⟨o, e, hl, hm, hb⟩
        · simp [he] at hL
  · rintro ⟨key, e, hl, hm, hb⟩
    refine ⟨key, e.snap, ?_, hm, hb⟩
    have hk : key ≠ "" := by
      intro e0; subst e0; rw [hne] at hl; cases hl
    unfold liveOfCache
    simp only [hk, if_false, hl]
    have : e.snap.effective = true := by
      unfold Snapshot.effective Entry.snap
      simp only [Bool.and_eq_true, Bool.not_eq_true', bne_iff_ne, ne_eq]
      refine ⟨?_, ne_zero_of_testBit hb⟩
      cases hips : ansIps e.ans with
      | nil => rw [hips] at hm; cases hm
      | cons _ _ => rfl
    simp [this]

theorem CInv.cache_bit {σ : CState} (h : CInv σ) (ip : Ip) (i : Nat) :
    (kernelVal σ.tk.K ip).testBit i = true ↔
      ∃ key e, alLookup key σ.cache = some e ∧ ip ∈ ansIps e.ans ∧ e.bitmap.testBit i = true := by
  rw [h.inv.kernel_bit ip i]
  exact live_iff_cached h.noEmptyKey ip i

theorem CInv.cache_no_orphan {σ : CState} (h : CInv σ) (ip : Ip) (v : Bitmap)
    (hv : alLookup ip σ.tk.K = some v) :
    v ≠ 0 ∧ ∃ key e, alLookup key σ.cache = some e ∧ ip ∈ ansIps e.ans ∧ e.bitmap ≠ 0 := by
  obtain ⟨hv0, o, s, hLo, hm, hb⟩ := h.inv.no_orphan ip v hv
  refine ⟨hv0, ?_⟩
  unfold liveOfCache at hLo
  by_cases ho : o = ""
  · simp [ho] at hLo
  · simp only [ho, if_false] at hLo
    cases hl : alLookup o σ.cache with
    | none => simp [hl] at hLo
    | some e =>
      simp only [hl] at hLo
      by_cases he : e.snap.effective = true
      · simp only [he, if_true, Option.some.injEq] at hLo
        subst hLo
        exact ⟨o, e, hl, hm, hb⟩
      · simp [he] at hLo

/-- the table mirrors the tracker's own owner snapshots. -/
theorem CInv.tracker_bit {σ : CState} (h : CInv σ) (ip : Ip) (i : Nat) :
    (kernelVal σ.tk.K ip).testBit i = true ↔
      ∃ o s, alLookup o σ.tk.t.owners = some s ∧ ip ∈ s.ips ∧ s.bitmap.testBit i = true := by
  rw [h.inv.kernel_bit ip i]
  simp only [h.inv.owners]

theorem testBit_specOr {C : List (String × Entry)} (hnd : NoDupKeys C) (ip : Ip) (i : Nat) :
    (specOr C ip).testBit i = true ↔
      ∃ key e, alLookup key C = some e ∧ ip ∈ ansIps e.ans ∧ e.bitmap.testBit i = true := by
  unfold specOr
  simp only [testBit_orAll, List.any_map, List.any_eq_true, Function.comp, List.mem_filter]
  constructor
  · rintro ⟨⟨k, e⟩, ⟨hm, hc⟩, hb⟩
    exact ⟨k, e, alLookup_of_mem hnd hm, by simpa using hc, hb⟩
  · rintro ⟨k, e, hl, hm, hb⟩
    exact ⟨(k, e), ⟨mem_of_alLookup hl, by simpa using hm⟩, hb⟩

theorem CInv.kernel_eq_spec {σ : CState} (h : CInv σ) (ip : Ip) :
    kernelVal σ.tk.K ip = specOr σ.cache ip := by
  apply Nat.eq_of_testBit_eq
  intro i
  rw [Bool.eq_iff_iff, h.cache_bit ip i, testBit_specOr h.nodup ip i]

/-! ## minimal batches, idempotent re-sync -/

theorem ups_minimal {t : Tracker} {K : Kernel} {L : Owner → Option Snapshot} (hI : Inv t K L)
    (o : Owner) (s : Snapshot) (aff : List Ip) (p : Ip × Bitmap) (hp : p ∈ (emitFor t o s aff).ups) :
    alLookup p.1 K ≠ some p.2 := by
  unfold emitFor at hp
  simp only [List.mem_filterMap] at hp
  obtain ⟨k, _, hk⟩ := hp
  unfold updOf at hk
  have hkern := hI.kern k
  cases hc : classify t k o s with
  | del => simp [hc] at hk
  | keep => simp [hc] at hk
  | upd v =>
    simp only [hc, Option.some.injEq] at hk
    subst hk
    simp only
    unfold classify at hc
    cases ha : alLookup k t.ips with
    | none =>
      rw [hkern, ha]; simp
    | some cur =>
      rw [ha] at hc
      rw [hkern, ha]
      simp only [Option.map_some, ne_eq, Option.some.injEq]
      cases hd : (desired t k o s).2 with
      | false => simp [hd] at hc
      | true =>
        simp only [hd] at hc
        by_cases hne : cur.merged ≠ (desired t k o s).1
        · rw [if_pos hne] at hc
          injection hc with hc
          rw [← hc]; exact hne
        · rw [if_neg hne] at hc
          cases hc

theorem dels_minimal {t : Tracker} {K : Kernel} {L : Owner → Option Snapshot} (hI : Inv t K L)
    (o : Owner) (s : Snapshot) (aff : List Ip) (k : Ip) (hk : k ∈ (emitFor t o s aff).dels) :
    alLookup k K ≠ none := by
  unfold emitFor at hk
  simp only [List.mem_filter] at hk
  obtain ⟨_, hd⟩ := hk
  unfold isDel at hd
  have hkern := hI.kern k
  cases hc : classify t k o s with
  | upd v => simp [hc] at hd
  | keep => simp [hc] at hd
  | del =>
    unfold classify at hc
    cases ha : alLookup k t.ips with
    | none =>
      rw [ha] at hc
      cases hd2 : (desired t k o s).2 <;> simp [hd2] at hc
    | some cur =>
      rw [hkern, ha]; simp

/-- re-syncing an owner with the snapshot the tracker already holds for it sends nothing to the kernel. -/
theorem resync_emits_nothing {t : Tracker} {K : Kernel} {L : Owner → Option Snapshot} (hI : Inv t K L)
    (o : Owner) (ho : o ≠ "") (s : Snapshot) (hs : L o = some s) :
    (emitFor t o s (affected t o s)).ups = [] ∧ (emitFor t o s (affected t o s)).dels = [] := by
  have hI' := Inv_sync hI o ho s
  have hLL : setOwner L o s = L := setOwner_self L o s (by rw [hs, hI.eff o s hs]; rfl)
  rw [hLL] at hI'
  -- both tables denote the same owner map, so they read the same everywhere
  have hval : ∀ k, kernelVal (applyEmit K (emitFor t o s (affected t o s))) k = kernelVal K k := by
    intro k
    apply Nat.eq_of_testBit_eq
    intro i
    rw [Bool.eq_iff_iff, hI'.kernel_bit k i, hI.kernel_bit k i]
  constructor
  · cases hu : (emitFor t o s (affected t o s)).ups with
    | nil => rfl
    | cons p rest =>
      exfalso
      have hp : p ∈ (emitFor t o s (affected t o s)).ups := by rw [hu]; simp
      have hmin := ups_minimal hI o s _ p hp
      -- after the batches the table holds p.2 at p.1
      have hp' := hp
      unfold emitFor at hp'
      simp only [List.mem_filterMap] at hp'
      obtain ⟨k, hk, hk2⟩ := hp'
      unfold updOf at hk2
      cases hc : classify t k o s with
      | del => simp [hc] at hk2
      | keep => simp [hc] at hk2
      | upd v =>
        simp only [hc, Option.some.injEq] at hk2
        subst hk2
        have hnew : alLookup k (applyEmit K (emitFor t o s (affected t o s))) = some v := by
          rw [lookup_applyEmit]; simp [hk, kAfter, hc]
        have h1 := hval k
        unfold kernelVal at h1
        rw [hnew] at h1
        simp only at hmin
        cases hold : alLookup k K with
        | some w => rw [hold] at h1 hmin; simp only at h1; exact hmin (by rw [h1])
        | none =>
          rw [hold] at h1
          simp only at h1
          exact (hI'.no_orphan k v hnew).1 h1
  · cases hd : (emitFor t o s (affected t o s)).dels with
    | nil => rfl
    | cons k rest =>
      exfalso
      have hk : k ∈ (emitFor t o s (affected t o s)).dels := by rw [hd]; simp
      have hmin := dels_minimal hI o s _ k hk
      have hk' := hk
      unfold emitFor at hk'
      simp only [List.mem_filter] at hk'
      obtain ⟨hka, hkd⟩ := hk'
      unfold isDel at hkd
      cases hc : classify t k o s with
      | upd v => simp [hc] at hkd
      | keep => simp [hc] at hkd
      | del =>
        have hnew : alLookup k (applyEmit K (emitFor t o s (affected t o s))) = none := by
          rw [lookup_applyEmit]; simp [hka, kAfter, hc]
        have h1 := hval k
        unfold kernelVal at h1
        rw [hnew] at h1
        cases hold : alLookup k K with
        | none => exact hmin hold
        | some w =>
          rw [hold] at h1
          simp only at h1
          exact (hI.no_orphan k w hold).1 h1.symm

theorem alLookup_some_of_mem_key {κ ν : Type} [DecidableEq κ] {k : κ} {v : ν} {l : List (κ × ν)} (h : (k, v) ∈ l) :
    ∃ w, alLookup k l = some w := by
  induction l with
  | nil => simp at h
  | cons p l ih =>
    obtain ⟨a, x⟩ := p
    simp only [alLookup]
    by_cases ha : a = k
    · exact ⟨x, by simp [ha]⟩
    · simp only [ha, if_false]
      rcases List.mem_cons.mp h with h1 | h1
      · injection h1 with h1 _; exact absurd h1.symm ha
      · exact ih h1

/-- the `m=` flag the driver prints is a theorem. -/
theorem CInv.mirrorOk_true {σ : CState} (h : CInv σ) :
    mirrorOk σ.cache σ.tk.K = true := by
  unfold mirrorOk
  simp only [Bool.and_eq_true, List.all_eq_true, beq_iff_eq, bne_iff_ne, ne_eq]
  refine ⟨fun ip _ => h.kernel_eq_spec ip, ?_⟩
  intro p hp
  obtain ⟨ip, v⟩ := p
  obtain ⟨w, hw⟩ := alLookup_some_of_mem_key hp
  have := (h.cache_no_orphan ip w hw).1
  unfold kernelVal
  simp only [hw]
  exact this

/-! ## a failed put and its repair by the refresh worker -/

theorem alInsert_insert {κ ν : Type} [DecidableEq κ] (k : κ) (v v' : ν) (l : List (κ × ν)) :
    alInsert k v (alInsert k v' l) = alInsert k v l := by
  unfold alInsert
  congr 1
  have : alErase k ((k, v') :: alErase k l) = alErase k (alErase k l) := by
    unfold alErase; simp
  rw [this, alErase_idem]

/-- put whose publish failed; the next lookup queues the refresh (`lastRouteSyncNano == 0`); the worker applies
it: the state is the one a successful put would have produced (up to the sync stamp). -/
theorem failed_put_then_refresh_eq_store (σ : CState) (hp : σ.pending = []) (key : String) (e : Entry) :
    cstep (cstep (σ.storeUnsynced key e) (.look key false true)) .work =
      σ.store key { e with lastSync := σ.now } := by
  simp only [cstep, CState.storeUnsynced, CState.queueRefresh, CState.store, CState.applyTask, hp,
    alLookup_insert, if_true, List.nil_append, alInsert_insert, Bool.false_eq_true, if_false, Entry.snap]

end DaeVerif.C10
