import DaeVerif.C10.Proofs
/-!
# C10 — property theorems

Only statements a reader should audit live here (namespace `DaeVerif.C10.Props`); helper lemmas are in
`Proofs.lean`.  Every theorem is followed by a non-vacuity `example`.
-/
namespace DaeVerif.C10.Props
open DaeVerif.C10

/-! ## tracker level: every history of `syncOwner` calls -/

/-- **The table is the union.** After any history of `syncOwner` calls (owners added, replaced with other
addresses or another bitmap, removed; overlapping address sets; zero bitmaps; empty address sets; the
rejected empty owner key), bit `i` of what the kernel reads for address `ip` is set exactly when some owner
whose *latest* snapshot lists `ip` has bit `i` in its bitmap. (An absent table entry reads as the zero
bitmap.) -/
theorem kernel_mirrors_owners (h : List (Owner × Snapshot)) (ip : Ip) (i : Nat) :
    (kernelVal (runSync TK.empty h).K ip).testBit i = true ↔
      ∃ o s, liveAfter (fun _ => none) h o = some s ∧ ip ∈ s.ips ∧ s.bitmap.testBit i = true :=
  (Inv_runSync h TK.empty _ Inv_empty).kernel_bit ip i

/-- **No orphan, no zero entry.** Every entry the table holds is non-zero and its address is listed by the
latest snapshot of some owner with a non-zero bitmap. -/
theorem kernel_no_orphan (h : List (Owner × Snapshot)) (ip : Ip) (v : Bitmap)
    (hv : alLookup ip (runSync TK.empty h).K = some v) :
    v ≠ 0 ∧ ∃ o s, liveAfter (fun _ => none) h o = some s ∧ ip ∈ s.ips ∧ s.bitmap ≠ 0 :=
  (Inv_runSync h TK.empty _ Inv_empty).no_orphan ip v hv

-- non-vacuity: two owners sharing an address, then one is removed: the shared address keeps the other's bits
example :
    let h := [("a", (⟨0b101, [7, 8]⟩ : Snapshot)), ("b", ⟨0b010, [8]⟩), ("a", Snapshot.empty)]
    (runSync TK.empty h).K = [(8, 0b010)] ∧ liveAfter (fun _ => none) h "b" = some ⟨0b010, [8]⟩ ∧
      liveAfter (fun _ => none) h "a" = none := by decide

end DaeVerif.C10.Props
