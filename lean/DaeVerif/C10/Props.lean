import DaeVerif.C10.Proofs
/-!
# C10 — property theorems

Only statements a reader should audit live here (namespace `DaeVerif.C10.Props`); helper lemmas are in
`Proofs.lean`.  Every theorem is followed by a non-vacuity `example`.

Reading guide.  `kernelVal K ip` is what the datapath reads for address `ip` (an absent entry reads as the
zero bitmap); bitmaps are numbers, "bit `i` is set" is `Nat.testBit`, so
"`(kernelVal K ip).testBit i ↔ ∃ entry listing ip with bit i`" says *the stored bitmap is exactly the union*.

* Part 1 quantifies over **all histories of `syncOwner` calls** (the tracker on its own).
* Part 2 quantifies over **all histories of cache operations** (insert / replace / refresh, remove, family
  removal on reject, expiry on lookup, janitor + LRU eviction, time passing, deferred refresh worker) and
  relates the table to the *cache contents*, at full strength (code after the fix that drops a queued
  refresh whose entry is no longer the cached one).
-/
namespace DaeVerif.C10.Props
open DaeVerif.C10

/-! ## Part 1 — the tracker, every history of `syncOwner` calls -/

/-- **The table is the union.** After any history of `syncOwner` calls (owners added, replaced with other
addresses or another bitmap, removed; overlapping address sets; zero bitmaps; empty address sets; the
rejected empty owner key), bit `i` of what the kernel reads for address `ip` is set exactly when some owner
whose *latest* snapshot lists `ip` has bit `i` in its bitmap. -/
theorem kernel_mirrors_owners (h : List (Owner × Snapshot)) (ip : Ip) (i : Nat) :
    (kernelVal (runSync TK.empty h).K ip).testBit i = true ↔
      ∃ o s, liveAfter (fun _ => none) h o = some s ∧ ip ∈ s.ips ∧ s.bitmap.testBit i = true :=
  (Inv_runSync h TK.empty _ Inv_empty).kernel_bit ip i

/-- **No orphan, no zero entry.** Every entry the table holds is non-zero and its address is listed by the
latest snapshot of some owner with a non-zero bitmap. -/
theorem kernel_no_orphan (h : List (Owner × Snapshot)) (ip : Ip) (v : Bitmap)
    (hv : alLookup ip (runSync TK.empty h).K = some v) :
    v ≠ 0 ∧ ∃ o s, liveAfter (fun _ => none) h o = some s ∧ ip ∈ s.ips ∧ s.bitmap ≠ 0 :=
  (Inv_runSync h TK.empty _ Inv_empty).no_orphan ip v hv

-- non-vacuity: two owners sharing an address, then one is removed: the shared address keeps the other's bits
example :
    let h := [("a", (⟨0b101, [7, 8]⟩ : Snapshot)), ("b", ⟨0b010, [8]⟩), ("a", Snapshot.empty)]
    (runSync TK.empty h).K = [(8, 0b010)] ∧ liveAfter (fun _ => none) h "b" = some ⟨0b010, [8]⟩ ∧
      liveAfter (fun _ => none) h "a" = none := by decide

/-- **The tracker's two indexes agree.** After any history: the per-address state lists exactly the owners
whose snapshot contains the address, with their bitmaps; `merged` is the OR of those; and the table holds
`merged` for exactly the addresses that have a state. -/
theorem tracker_indexes_agree (h : List (Owner × Snapshot)) :
    let s := runSync TK.empty h
    (∀ key st, alLookup key s.t.ips = some st →
      st.owners ≠ [] ∧ st.merged = orAll (st.owners.map (·.2)) ∧
      ∀ o, alLookup o st.owners = (match alLookup o s.t.owners with
        | some sn => if sn.ips.contains key then some sn.bitmap else none
        | none => none)) ∧
    (∀ key, alLookup key s.t.ips = none → ∀ o sn, alLookup o s.t.owners = some sn → key ∉ sn.ips) ∧
    (∀ key, alLookup key s.K = (alLookup key s.t.ips).map (·.merged)) := by
  intro s
  have hI := Inv_runSync h TK.empty _ Inv_empty
  refine ⟨?_, ?_, hI.kern⟩
  · intro key st hst
    obtain ⟨_, hne, hm, hl⟩ := hI.st key st hst
    refine ⟨hne, hm, ?_⟩
    intro o
    rw [hl o]; unfold ownBit; rw [hI.owners o]
    generalize liveAfter (fun _ => none) h o = x
    cases x <;> rfl
  · intro key hk o sn ho
    have := hI.none key hk o
    unfold ownBit at this
    rw [← hI.owners o, ho] at this
    simpa using this

/-- **Batches are minimal.** After any history, the batches of the next `syncOwner` call never rewrite an
address with the value the table already holds and never delete an address the table does not hold.
(Both halves are an economy: since fix 3beb53a `BpfMapBatchDelete` continues past a missing key, so deleting
an absent key is harmless; the check reports it as bookkeeping drift only.) -/
theorem batches_minimal (h : List (Owner × Snapshot)) (o : Owner) (s : Snapshot) (t' : Tracker) (em : Emit)
    (hsync : syncOwner (runSync TK.empty h).t o s = some (t', em)) :
    (∀ p ∈ em.ups, alLookup p.1 (runSync TK.empty h).K ≠ some p.2) ∧
    (∀ k ∈ em.dels, alLookup k (runSync TK.empty h).K ≠ none) := by
  have hI := Inv_runSync h TK.empty _ Inv_empty
  unfold syncOwner at hsync
  by_cases ho : o = ""
  · simp [ho] at hsync
  · simp only [ho, if_false, Option.some.injEq, Prod.mk.injEq] at hsync
    obtain ⟨_, hem⟩ := hsync
    subst hem
    exact ⟨fun p hp => ups_minimal hI o s _ p hp, fun k hk => dels_minimal hI o s _ k hk⟩

example : ∃ t' em, syncOwner (runSync TK.empty [("a", ⟨1, [7]⟩)]).t "b" ⟨2, [7, 9]⟩ = some (t', em) ∧
    em.ups = [(7, 3), (9, 2)] ∧ em.dels = [] := ⟨_, _, rfl, by decide, by decide⟩

/-- **Re-syncing what is already there sends nothing.** After any history, syncing an owner again with the
snapshot the tracker already holds for it produces two empty batches.  (Consequence: a table that was
emptied behind the tracker's back is *not* repopulated by replaying the cache — see the design note,
finding "rollback".) -/
theorem resync_sends_nothing (h : List (Owner × Snapshot)) (o : Owner) (s : Snapshot)
    (hs : liveAfter (fun _ => none) h o = some s) (t' : Tracker) (em : Emit)
    (hsync : syncOwner (runSync TK.empty h).t o s = some (t', em)) :
    em.ups = [] ∧ em.dels = [] := by
  have hI := Inv_runSync h TK.empty _ Inv_empty
  unfold syncOwner at hsync
  by_cases ho : o = ""
  · simp [ho] at hsync
  · simp only [ho, if_false, Option.some.injEq, Prod.mk.injEq] at hsync
    obtain ⟨_, hem⟩ := hsync
    subst hem
    exact resync_emits_nothing hI o ho s hs

example : liveAfter (fun _ => none) [("a", ⟨1, [7]⟩)] "a" = some ⟨1, [7]⟩ := by decide

/-! ### failing batch syscalls (environment, not part of the property's histories) -/

/-- **A failed update batch changes nothing.** For every history of `syncOwner` calls in which the update
batch of any call may fail (the code then returns before the delete batch and before applying the
snapshot), the table is exactly the union over the owners' latest snapshots *whose call completed*. -/
theorem kernel_mirrors_completed_syncs (h : List (Owner × Snapshot × Outcome))
    (hnd : ∀ p ∈ h, p.2.2 ≠ Outcome.delFail) (ip : Ip) (i : Nat) :
    (kernelVal (runSyncO TK.empty (fun _ => none) h).1.K ip).testBit i = true ↔
      ∃ o s, (runSyncO TK.empty (fun _ => none) h).2 o = some s ∧ ip ∈ s.ips ∧ s.bitmap.testBit i = true :=
  (Inv_runSyncO h TK.empty _ Inv_empty hnd).kernel_bit ip i

-- non-vacuity: the second call's update batch fails, the third completes
example :
    let h : List (Owner × Snapshot × Outcome) :=
      [("a", ⟨1, [7]⟩, .ok), ("b", ⟨2, [7, 9]⟩, .updFail), ("c", ⟨4, [9]⟩, .ok)]
    (runSyncO TK.empty (fun _ => none) h).1.K = [(9, 4), (7, 1)] ∧
      (runSyncO TK.empty (fun _ => none) h).2 "b" = none := by decide

/-- **A failed delete batch leaves the table ahead of the tracker** (the update batch is in the table, the
snapshot is not applied): after `a ↦ {7,8}`, replacing it by `a ↦ {8}` with another bitmap while the delete
batch fails leaves address 8 with the new bits although the tracker (and `runSyncO`'s owner map) still hold
the old snapshot. This is the behaviour of the code as it is; it is repaired by the next theorem. -/
theorem failed_delete_batch_leaves_table_ahead :
    let r := runSyncO TK.empty (fun _ => none) [("a", ⟨1, [7, 8]⟩, .ok), ("a", ⟨2, [8]⟩, .delFail)]
    kernelVal r.1.K 8 = 2 ∧ r.2 "a" = some ⟨1, [7, 8]⟩ ∧ alLookup "a" r.1.t.owners = some ⟨1, [7, 8]⟩ := by
  decide

/-- **Retrying the failed call repairs it.** After any history of completed calls, if a call's delete batch
fails and the same call is retried successfully, the table again is exactly the union over the owners'
latest snapshots, the retried one included. -/
theorem retry_after_failed_delete_repairs (h : List (Owner × Snapshot)) (o : Owner) (s : Snapshot)
    (ip : Ip) (i : Nat) :
    let s0 := runSync TK.empty h
    let s1 := (s0.syncO o s .delFail).1
    let s2 := (s1.syncO o s .ok).1
    (kernelVal s2.K ip).testBit i = true ↔
      ∃ o' s', liveAfter (fun _ => none) (h ++ [(o, s)]) o' = some s' ∧ ip ∈ s'.ips ∧ s'.bitmap.testBit i = true := by
  intro s0 s1 s2
  have hI := Inv_runSync h TK.empty _ Inv_empty
  have hlive : liveAfter (fun _ => none) (h ++ [(o, s)]) =
      (if o = "" then liveAfter (fun _ => none) h else setOwner (liveAfter (fun _ => none) h) o s) := by
    simp [liveAfter, List.foldl_append]
  rw [hlive]
  have key : Inv s2.t s2.K (if o = "" then liveAfter (fun _ => none) h
      else setOwner (liveAfter (fun _ => none) h) o s) := Inv_delFail_then_retry hI o s
  exact key.kernel_bit ip i

/-! ## Part 2 — the cache layer, every history of cache operations -/

/-- What "a cached entry lists address `ip`" means in the statements below: some record of its answer
section is an A/AAAA record whose address is not unspecified and whose 16-byte (IPv4-mapped) form is `ip`. -/
theorem listed_iff (ans : List Ans) (ip : Ip) : ip ∈ ansIps ans ↔ ∃ a ∈ ans, a.key? = some ip := by
  unfold ansIps
  rw [mem_dedup, List.mem_filterMap]

/-- `0.0.0.0` and `::` answers, records with an unparsable address and non-address records list nothing;
an A record and an AAAA record spelling the same IPv4 address list the same key.
(Whether the 16-byte spelling `::ffff:0.0.0.0` counts as unspecified is not decided by the property; the
model follows `netip` (it does not), the generators never produce it and nothing is compared on it.) -/
theorem unspecified_lists_nothing :
    ansIps [.a4 0, .a6 0, .bad, .other] = [] ∧
    ansIps [.a4 0x01020304, .a4m 0x01020304, .a6 (mapped4 0x01020304)] = [mapped4 0x01020304] := by decide

/-- **Headline (full strength).** After ANY history of cache operations — answers cached, replaced or
refreshed with other addresses or another bitmap (keyed or with the derived key), removed, removed as a
family on a reject, expired on a lookup (cold or hot path, whatever the expiry policy decides), evicted by
the janitor or the LRU limit (whatever keys it picks), time passing, refresh tasks queued (whatever the
refresh policy decides) and the deferred refresh worker running at any later point, the whole cache
restored into a new generation on reload; several names, record types and upstream scopes listing the same
address; zero bitmaps, empty and unspecified answers — bit `i` of what the kernel reads for `ip` is set
exactly when some *currently cached* entry lists `ip` and has bit `i` in its domain bitmap. -/
theorem table_mirrors_cache (cfg : Cfg) (ops : List COp) (ip : Ip) (i : Nat) :
    (kernelVal (crun (CState.init cfg) ops).tk.K ip).testBit i = true ↔
      ∃ key e, alLookup key (crun (CState.init cfg) ops).cache = some e ∧ ip ∈ ansIps e.ans ∧
        e.bitmap.testBit i = true :=
  (CInv_run ops (CInv_init cfg)).cache_bit ip i

/-- **No stale or orphaned address (full strength).** Every entry of the table is non-zero and its address
is listed by a currently cached entry with a non-zero bitmap. -/
theorem table_no_orphan (cfg : Cfg) (ops : List COp) (ip : Ip) (v : Bitmap)
    (hv : alLookup ip (crun (CState.init cfg) ops).tk.K = some v) :
    v ≠ 0 ∧ ∃ key e, alLookup key (crun (CState.init cfg) ops).cache = some e ∧ ip ∈ ansIps e.ans ∧
      e.bitmap ≠ 0 :=
  (CInv_run ops (CInv_init cfg)).cache_no_orphan ip v hv

/-- the same as an equation with the executable specification (union of the bitmaps of the cached entries
listing the address). -/
theorem table_eq_spec (cfg : Cfg) (ops : List COp) (ip : Ip) :
    kernelVal (crun (CState.init cfg) ops).tk.K ip = specOr (crun (CState.init cfg) ops).cache ip :=
  (CInv_run ops (CInv_init cfg)).kernel_eq_spec ip

/-- the executable check the driver prints as `m=` (table = specification on every address that occurs, no
zero entry) is always true: a `m=0` line from the driver is impossible. -/
theorem driver_mirror_flag (cfg : Cfg) (ops : List COp) :
    mirrorOk (crun (CState.init cfg) ops).cache (crun (CState.init cfg) ops).tk.K = true :=
  (CInv_run ops (CInv_init cfg)).mirrorOk_true

-- non-vacuity: two scopes of one name plus another name share an address; one expires on lookup, one is
-- replaced with another address; a refresh queued for a since-replaced entry is dropped by the worker.
example :
    let ops : List COp := [.put "a.com.1" "a.com." 1 10 none 0b01 [.a4 1, .a4 2],
      .put "a.com.1|up" "a.com." 1 100 none 0b01 [.a4 1],
      .put "" "b.com." 1 100 none 0b10 [.a4m 1, .a6 0], .sleep (10 * sec), .look "a.com.1" true false,
      .sleep (60 * sec), .look "b.com.1" false true, .put "b.com.1" "b.com." 1 100 none 0b10 [.a4 3], .work]
    let σ := crun (CState.init ⟨false, 0, 0⟩) ops
    σ.tk.K = [(mapped4 3, 0b10), (mapped4 1, 0b01)] ∧ σ.cache.length = 2 ∧ σ.pending = [] := by decide

-- non-vacuity of the reload step: the restored generation gets other bitmaps, the table follows
example :
    let ops : List COp := [.put "a.com.1" "a.com." 1 100 none 0b01 [.a4 1, .a4 2],
      .put "b.com.1" "b.com." 1 100 none 0b10 [.a4 1], .reload [("b.com.1", 0b100), ("a.com.1", 0)]]
    let σ := crun (CState.init ⟨false, 0, 0⟩) ops
    σ.tk.K = [(mapped4 1, 0b100)] ∧ σ.cache.length = 2 := by decide

/-- the table also mirrors the tracker's own owner snapshots (so the tracker's owner index is the cache). -/
theorem table_mirrors_tracker (cfg : Cfg) (ops : List COp) (ip : Ip) (i : Nat) :
    (kernelVal (crun (CState.init cfg) ops).tk.K ip).testBit i = true ↔
      ∃ o s, alLookup o (crun (CState.init cfg) ops).tk.t.owners = some s ∧ ip ∈ s.ips ∧
        s.bitmap.testBit i = true :=
  (CInv_run ops (CInv_init cfg)).tracker_bit ip i

/-! ### a put whose synchronous publish fails (failing batch syscall: environment, not a cache history) -/

/-- **A failed publish breaks the mirror** (code as it is: the entry is stored before the callback runs and
stays cached when the callback fails): after `putFail k {1.2.3.4…}` the cache lists the address, the table
does not. The headline above therefore assumes that the batch syscalls of cache operations succeed. -/
theorem failed_put_sync_breaks_mirror :
    ¬ (∀ (cfg : Cfg) (ops : List FOp) (ip : Ip) (i : Nat),
        (kernelVal (crunF (CState.init cfg) ops).tk.K ip).testBit i = true ↔
          ∃ key e, alLookup key (crunF (CState.init cfg) ops).cache = some e ∧ ip ∈ ansIps e.ans ∧
            e.bitmap.testBit i = true) := by
  intro h
  have := h ⟨false, 0, 0⟩ [.putFail "k" "k." 1 100 none 1 [.a4 1]] (mapped4 1) 0
  have hk : (kernelVal (crunF (CState.init ⟨false, 0, 0⟩) [.putFail "k" "k." 1 100 none 1 [.a4 1]]).tk.K
      (mapped4 1)).testBit 0 = false := by decide
  have hc : ∃ key e, alLookup key (crunF (CState.init ⟨false, 0, 0⟩)
      [.putFail "k" "k." 1 100 none 1 [.a4 1]]).cache = some e ∧ mapped4 1 ∈ ansIps e.ans ∧
        e.bitmap.testBit 0 = true := ⟨"k", ⟨1, 1, [.a4 1], 100 * sec, 100 * sec, 0, 0⟩, by decide, by decide, by decide⟩
  rw [this.mpr hc] at hk
  cases hk

/-- **… and the refresh worker repairs it.** After any history of cache operations that leaves the refresh
queue empty, a put whose publish failed, the next lookup of that key (which queues a refresh because the
entry was never synced) and the worker's run restore the headline. -/
theorem refresh_after_failed_put_repairs (cfg : Cfg) (ops : List COp) (key fqdn : String) (qtype ttl : Nat)
    (fixedTtl : Option Nat) (bitmap : Bitmap) (ans : List Ans)
    (hq : (crun (CState.init cfg) ops).pending = []) (ip : Ip) (i : Nat) :
    let σ := cstep (cstep (cstepF (crun (CState.init cfg) ops)
      (.putFail key fqdn qtype ttl fixedTtl bitmap ans)) (.look (effKey key fqdn qtype) false true)) .work
    (kernelVal σ.tk.K ip).testBit i = true ↔
      ∃ k e, alLookup k σ.cache = some e ∧ ip ∈ ansIps e.ans ∧ e.bitmap.testBit i = true := by
  intro σ
  have h0 := CInv_run ops (CInv_init cfg)
  have hσ : CInv σ := by
    show CInv (cstep (cstep (cstepF _ _) _) .work)
    unfold cstepF
    by_cases hk : effKey key fqdn qtype = ""
    · simp only [hk, if_true]
      exact CInv_step (CInv_step h0 _) _
    · simp only [hk, if_false]
      rw [failed_put_then_refresh_eq_store _ hq]
      exact CInv_store h0 _ hk _
  exact hσ.cache_bit ip i

example : (crun (CState.init ⟨false, 0, 0⟩) [.put "a" "a." 1 100 none 1 [.a4 1]]).pending = [] := by decide

/-- **Revert witness.** With the worker as it was before the fix (`cstepUnguarded`: a queued refresh is
applied even when its entry was replaced or removed meanwhile) the headline is false: insert, wait 60 s,
look up (queues a refresh), remove, worker runs — the table keeps an address no cached entry lists.
The check's harness replays such histories against the real code on every run. -/
theorem unguarded_worker_breaks_mirror :
    ¬ (∀ (cfg : Cfg) (ops : List COp) (ip : Ip) (i : Nat),
        (kernelVal (crunUnguarded (CState.init cfg) ops).tk.K ip).testBit i = true ↔
          ∃ key e, alLookup key (crunUnguarded (CState.init cfg) ops).cache = some e ∧ ip ∈ ansIps e.ans ∧
            e.bitmap.testBit i = true) := by
  intro h
  have := h ⟨false, 0, 0⟩
    [.put "k" "k." 1 100 none 1 [.a4 1], .sleep (60 * sec), .look "k" false true, .del "k", .work] (mapped4 1) 0
  have hc : (crunUnguarded (CState.init ⟨false, 0, 0⟩)
    [.put "k" "k." 1 100 none 1 [.a4 1], .sleep (60 * sec), .look "k" false true, .del "k", .work]).cache = [] := by decide
  have hk : (kernelVal (crunUnguarded (CState.init ⟨false, 0, 0⟩)
    [.put "k" "k." 1 100 none 1 [.a4 1], .sleep (60 * sec), .look "k" false true, .del "k", .work]).tk.K (mapped4 1)).testBit 0
      = true := by decide
  obtain ⟨key, e, hl, _, _⟩ := this.mp hk
  rw [hc] at hl
  cases hl

-- the same history on the fixed machine: the task is dropped, the table is empty
example : (crun (CState.init ⟨false, 0, 0⟩)
    [.put "k" "k." 1 100 none 1 [.a4 1], .sleep (60 * sec), .look "k" false true, .del "k", .work]).tk.K = [] := by decide

end DaeVerif.C10.Props
