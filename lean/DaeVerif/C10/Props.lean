import DaeVerif.C10.Proofs
/-!
# C10 — property theorems

Only statements a reader should audit live here (namespace `DaeVerif.C10.Props`); helper lemmas are in
`Proofs.lean`.  Every theorem is followed by a non-vacuity `example`.

Reading guide.  `kernelVal K ip` is what the datapath reads for address `ip` (an absent entry reads as the
zero bitmap); bitmaps are numbers, "bit `i` is set" is `Nat.testBit`, so
"`(kernelVal K ip).testBit i ↔ ∃ entry listing ip with bit i`" says *the stored bitmap is exactly the union*.

* Part 1 quantifies over **all histories of `syncOwner` calls** (the tracker on its own).
* Part 2 quantifies over **all histories of cache operations** (insert / replace / refresh, remove, family
  removal on reject, expiry on lookup, janitor + LRU eviction, time passing, deferred refresh worker) and
  relates the table to the *cache contents*, at full strength (code after the fix that drops a queued
  refresh whose entry is no longer the cached one).
-/
namespace DaeVerif.C10.Props
open DaeVerif.C10

/-! ## Part 1 — the tracker, every history of `syncOwner` calls -/

/-- **The table is the union.** After any history of `syncOwner` calls (owners added, replaced with other
addresses or another bitmap, removed; overlapping address sets; zero bitmaps; empty address sets; the
rejected empty owner key), bit `i` of what the kernel reads for address `ip` is set exactly when some owner
whose *latest* snapshot lists `ip` has bit `i` in its bitmap. -/
theorem kernel_mirrors_owners (h : List (Owner × Snapshot)) (ip : Ip) (i : Nat) :
    (kernelVal (runSync TK.empty h).K ip).testBit i = true ↔
      ∃ o s, liveAfter (fun _ => none) h o = some s ∧ ip ∈ s.ips ∧ s.bitmap.testBit i = true :=
  (Inv_runSync h TK.empty _ Inv_empty).kernel_bit ip i

/-- **No orphan, no zero entry.** Every entry the table holds is non-zero and its address is listed by the
latest snapshot of some owner with a non-zero bitmap. -/
theorem kernel_no_orphan (h : List (Owner × Snapshot)) (ip : Ip) (v : Bitmap)
    (hv : alLookup ip (runSync TK.empty h).K = some v) :
    v ≠ 0 ∧ ∃ o s, liveAfter (fun _ => none) h o = some s ∧ ip ∈ s.ips ∧ s.bitmap ≠ 0 :=
  (Inv_runSync h TK.empty _ Inv_empty).no_orphan ip v hv

-- non-vacuity: two owners sharing an address, then one is removed: the shared address keeps the other's bits
example :
    let h := [("a", (⟨0b101, [7, 8]⟩ : Snapshot)), ("b", ⟨0b010, [8]⟩), ("a", Snapshot.empty)]
    (runSync TK.empty h).K = [(8, 0b010)] ∧ liveAfter (fun _ => none) h "b" = some ⟨0b010, [8]⟩ ∧
      liveAfter (fun _ => none) h "a" = none := by decide

/-- **The tracker's two indexes agree.** After any history: the per-address state lists exactly the owners
whose snapshot contains the address, with their bitmaps; `merged` is the OR of those; and the table holds
`merged` for exactly the addresses that have a state. -/
theorem tracker_indexes_agree (h : List (Owner × Snapshot)) :
    let s := runSync TK.empty h
    (∀ key st, alLookup key s.t.ips = some st →
      st.owners ≠ [] ∧ st.merged = orAll (st.owners.map (·.2)) ∧
      ∀ o, alLookup o st.owners = (match alLookup o s.t.owners with
        | some sn => if sn.ips.contains key then some sn.bitmap else none
        | none => none)) ∧
    (∀ key, alLookup key s.t.ips = none → ∀ o sn, alLookup o s.t.owners = some sn → key ∉ sn.ips) ∧
    (∀ key, alLookup key s.K = (alLookup key s.t.ips).map (·.merged)) := by
  intro s
  have hI := Inv_runSync h TK.empty _ Inv_empty
  refine ⟨?_, ?_, hI.kern⟩
  · intro key st hst
    obtain ⟨_, hne, hm, hl⟩ := hI.st key st hst
    refine ⟨hne, hm, ?_⟩
    intro o
    rw [hl o]; unfold ownBit; rw [hI.owners o]
    generalize liveAfter (fun _ => none) h o = x
    cases x <;> rfl
  · intro key hk o sn ho
    have := hI.none key hk o
    unfold ownBit at this
    rw [← hI.owners o, ho] at this
    simpa using this

/-- **Batches are minimal.** After any history, the batches of the next `syncOwner` call never rewrite an
address with the value the table already holds and never delete an address the table does not hold.
(Both halves are an economy: since fix 3beb53a `BpfMapBatchDelete` continues past a missing key, so deleting
an absent key is harmless; the check reports it as bookkeeping drift only.) -/
theorem batches_minimal (h : List (Owner × Snapshot)) (o : Owner) (s : Snapshot) (t' : Tracker) (em : Emit)
    (hsync : syncOwner (runSync TK.empty h).t o s = some (t', em)) :
    (∀ p ∈ em.ups, alLookup p.1 (runSync TK.empty h).K ≠ some p.2) ∧
    (∀ k ∈ em.dels, alLookup k (runSync TK.empty h).K ≠ none) := by
  have hI := Inv_runSync h TK.empty _ Inv_empty
  unfold syncOwner at hsync
  by_cases ho : o = ""
  · simp [ho] at hsync
  · simp only [ho, if_false, Option.some.injEq, Prod.mk.injEq] at hsync
    obtain ⟨_, hem⟩ := hsync
    subst hem
    exact ⟨fun p hp => ups_minimal hI o s _ p hp, fun k hk => dels_minimal hI o s _ k hk⟩

example : ∃ t' em, syncOwner (runSync TK.empty [("a", ⟨1, [7]⟩)]).t "b" ⟨2, [7, 9]⟩ = some (t', em) ∧
    em.ups = [(7, 3), (9, 2)] ∧ em.dels = [] := ⟨_, _, rfl, by decide, by decide⟩

/-- **Re-syncing what is already there sends nothing.** After any history, syncing an owner again with the
snapshot the tracker already holds for it produces two empty batches.  (Consequence: a table that was
emptied behind the tracker's back is *not* repopulated by replaying the cache — see the design note,
finding "rollback".) -/
theorem resync_sends_nothing (h : List (Owner × Snapshot)) (o : Owner) (s : Snapshot)
    (hs : liveAfter (fun _ => none) h o = some s) (t' : Tracker) (em : Emit)
    (hsync : syncOwner (runSync TK.empty h).t o s = some (t', em)) :
    em.ups = [] ∧ em.dels = [] := by
  have hI := Inv_runSync h TK.empty _ Inv_empty
  unfold syncOwner at hsync
  by_cases ho : o = ""
  · simp [ho] at hsync
  · simp only [ho, if_false, Option.some.injEq, Prod.mk.injEq] at hsync
    obtain ⟨_, hem⟩ := hsync
    subst hem
    exact resync_emits_nothing hI o ho s hs

example : liveAfter (fun _ => none) [("a", ⟨1, [7]⟩)] "a" = some ⟨1, [7]⟩ := by decide

/-! ### failing batch syscalls (environment, not part of the property's histories) -/

/-- **A failed update batch changes nothing.** For every history of `syncOwner` calls in which the update
batch of any call may fail (the code then returns before the delete batch and before applying the
snapshot), the table is exactly the union over the owners' latest snapshots *whose call completed*. -/
theorem kernel_mirrors_completed_syncs (h : List (Owner × Snapshot × Outcome))
    (hnd : ∀ p ∈ h, p.2.2 ≠ Outcome.delFail) (ip : Ip) (i : Nat) :
    (kernelVal (runSyncO TK.empty (fun _ => none) h).1.K ip).testBit i = true ↔
      ∃ o s, (runSyncO TK.empty (fun _ => none) h).2 o = some s ∧ ip ∈ s.ips ∧ s.bitmap.testBit i = true :=
  (Inv_runSyncO h TK.empty _ Inv_empty hnd).kernel_bit ip i

-- non-vacuity: the second call's update batch fails, the third completes
example :
    let h : List (Owner × Snapshot × Outcome) :=
      [("a", ⟨1, [7]⟩, .ok), ("b", ⟨2, [7, 9]⟩, .updFail), ("c", ⟨4, [9]⟩, .ok)]
    (runSyncO TK.empty (fun _ => none) h).1.K = [(9, 4), (7, 1)] ∧
      (runSyncO TK.empty (fun _ => none) h).2 "b" = none := by decide

/-- **A failed delete batch leaves the table ahead of the tracker** (the update batch is in the table, the
snapshot is not applied): after `a ↦ {7,8}`, replacing it by `a ↦ {8}` with another bitmap while the delete
batch fails leaves address 8 with the new bits although the tracker (and `runSyncO`'s owner map) still hold
the old snapshot. This is the behaviour of the code as it is; it is repaired by the next theorem. -/
theorem failed_delete_batch_leaves_table_ahead :
    let r := runSyncO TK.empty (fun _ => none) [("a", ⟨1, [7, 8]⟩, .ok), ("a", ⟨2, [8]⟩, .delFail)]
    kernelVal r.1.K 8 = 2 ∧ r.2 "a" = some ⟨1, [7, 8]⟩ ∧ alLookup "a" r.1.t.owners = some ⟨1, [7, 8]⟩ := by
  decide

/-- **Retrying the failed call repairs it.** After any history of completed calls, if a call's delete batch
fails and the same call is retried successfully, the table again is exactly the union over the owners'
latest snapshots, the retried one included. -/
theorem retry_after_failed_delete_repairs (h : List (Owner × Snapshot)) (o : Owner) (s : Snapshot)
    (ip : Ip) (i : Nat) :
    let s0 := runSync TK.empty h
    let s1 := (s0.syncO o s .delFail).1
    let s2 := (s1.syncO o s .ok).1
    (kernelVal s2.K ip).testBit i = true ↔
      ∃ o' s', liveAfter (fun _ => none) (h ++ [(o, s)]) o' = some s' ∧ ip ∈ s'.ips ∧ s'.bitmap.testBit i = true := by
  intro s0 s1 s2
  have hI := Inv_runSync h TK.empty _ Inv_empty
  have hlive : liveAfter (fun _ => none) (h ++ [(o, s)]) =
      (if o = "" then liveAfter (fun _ => none) h else setOwner (liveAfter (fun _ => none) h) o s) := by
    simp [liveAfter, List.foldl_append]
  rw [hlive]
  have key : Inv s2.t s2.K (if o = "" then liveAfter (fun _ => none) h
      else setOwner (liveAfter (fun _ => none) h) o s) := Inv_delFail_then_retry hI o s
  exact key.kernel_bit ip i

/-- **Retrying repairs ANY partial application.** A failing batch syscall may leave any part of the call's two
batches in the table (the kernel's batch update stops at the first failing pair and keeps the prefix; the
per-key fallback of `BpfMapBatchDelete` stops at the first hard error): after any history of completed calls,
whatever subset `ups ⊆ update batch`, `dels ⊆ delete batch` of a failed call reached the table, the same call
succeeding next restores "table = union over the latest snapshots". -/
theorem retry_after_partial_failure_repairs (h : List (Owner × Snapshot)) (o : Owner) (ho : o ≠ "") (s : Snapshot)
    (ups : List (Ip × Bitmap)) (dels : List Ip)
    (hu : ∀ p ∈ ups, p ∈ (emitFor (runSync TK.empty h).t o s (affected (runSync TK.empty h).t o s)).ups)
    (hd : ∀ k ∈ dels, k ∈ (emitFor (runSync TK.empty h).t o s (affected (runSync TK.empty h).t o s)).dels)
    (ip : Ip) (i : Nat) :
    let s0 := runSync TK.empty h
    let s1 : TK := { s0 with K := applySome s0.K ups dels }   -- the failed call: tracker untouched
    let s2 := (s1.syncO o s .ok).1
    (kernelVal s2.K ip).testBit i = true ↔
      ∃ o' s', liveAfter (fun _ => none) (h ++ [(o, s)]) o' = some s' ∧ ip ∈ s'.ips ∧ s'.bitmap.testBit i = true := by
  intro s0 s1 s2
  have hI := Inv_runSync h TK.empty _ Inv_empty
  rw [liveAfter_append _ _ _ _ ho]
  have key : Inv s2.t s2.K (setOwner (liveAfter (fun _ => none) h) o s) := by
    show Inv (s1.syncO o s .ok).1.t (s1.syncO o s .ok).1.K _
    rw [syncO_ok s1 o ho]
    exact Inv_retry_after_partial hI o ho s ups dels hu hd
  exact key.kernel_bit ip i

-- non-vacuity: of the batches {8 := 2, 9 := 2} / {7} only `9 := 2` reached the table
example :
    let s0 := runSync TK.empty [("a", ⟨1, [7, 8]⟩)]
    (emitFor s0.t "a" ⟨2, [8, 9]⟩ (affected s0.t "a" ⟨2, [8, 9]⟩)).ups = [(8, 2), (9, 2)] ∧
    (emitFor s0.t "a" ⟨2, [8, 9]⟩ (affected s0.t "a" ⟨2, [8, 9]⟩)).dels = [7] ∧
    applySome s0.K [(9, 2)] [] = [(9, 2), (8, 1), (7, 1)] ∧
    (({ s0 with K := applySome s0.K [(9, 2)] [] } : TK).syncO "a" ⟨2, [8, 9]⟩ .ok).1.K = [(9, 2), (8, 2)] := by decide

/-- **… but only an immediate retry does** (witness, code as it is): after a failed *delete* batch (update
batch written, snapshot not applied) another owner's call in between can make the retried call compute an
empty difference, so the table keeps the stale value: `a ↦ {x}` bits 11; `a ↦ {x}` bits 01 + `{y}` gone with a
failing delete batch (table: x := 01); `b ↦ {x}` bits 10 (tracker still believes a has 11: nothing to send);
retry of a's call: union 10|01 = 11 = what the tracker believes the table holds — nothing is sent and x stays
01 although a and b are live with 01 and 10. -/
theorem late_retry_after_failed_delete_does_not_repair :
    let r := runSyncO TK.empty (fun _ => none)
      [("a", ⟨0b11, [1, 2]⟩, .ok), ("a", ⟨0b01, [1]⟩, .delFail), ("b", ⟨0b10, [1]⟩, .ok), ("a", ⟨0b01, [1]⟩, .ok)]
    kernelVal r.1.K 1 = 0b01 ∧ r.2 "a" = some ⟨0b01, [1]⟩ ∧ r.2 "b" = some ⟨0b10, [1]⟩ := by decide

/-- **A batch that fits is never refused.** `domain_routing_map` holds at most `cap` (65 536) entries; the
kernel refuses only the insertion of a NEW key into a full map. If the table size plus the size of the update
batch does not exceed the capacity, the batch is applied completely whatever its order - the premise of every
theorem above that "the batch syscalls succeed" is met as far as capacity is concerned. -/
theorem capped_batch_within_room_is_complete (cap : Nat) (K : Kernel) (batch : List (Ip × Bitmap))
    (hroom : K.length + batch.length ≤ cap) :
    batchUpdCap cap K batch = (batch.foldl (fun K p => alInsert p.1 p.2 K) K, true) :=
  batchUpdCap_room cap batch K hroom

/-- **A refused batch leaves a prefix of itself applied** (and `syncCap` then returns before the delete batch,
tracker untouched) - which the retry theorem above repairs. -/
theorem capped_batch_applies_a_prefix (cap : Nat) (K : Kernel) (batch : List (Ip × Bitmap)) :
    ∃ n, (batchUpdCap cap K batch).1 = (batch.take n).foldl (fun K p => alInsert p.1 p.2 K) K :=
  batchUpdCap_prefix cap batch K

/-- a call refused for capacity followed by the same call with room: the mirror holds again. -/
theorem retry_after_capacity_failure_repairs (h : List (Owner × Snapshot)) (cap : Nat) (order : List Ip) (o : Owner)
    (ho : o ≠ "") (s : Snapshot)
    (hfail : ((runSync TK.empty h).syncCap cap order o s .ok).2 = .updFailed) (ip : Ip) (i : Nat) :
    let s1 := ((runSync TK.empty h).syncCap cap order o s .ok).1
    let s2 := (s1.syncO o s .ok).1
    (kernelVal s2.K ip).testBit i = true ↔
      ∃ o' s', liveAfter (fun _ => none) (h ++ [(o, s)]) o' = some s' ∧ ip ∈ s'.ips ∧ s'.bitmap.testBit i = true := by
  intro s1 s2
  have hI := Inv_runSync h TK.empty _ Inv_empty
  rw [liveAfter_append _ _ _ _ ho]
  have key : Inv s2.t s2.K (setOwner (liveAfter (fun _ => none) h) o s) := by
    show Inv (s1.syncO o s .ok).1.t (s1.syncO o s .ok).1.K _
    rw [syncO_ok s1 o ho]
    obtain ⟨ht, n, hK⟩ := syncCap_failed_state (runSync TK.empty h) cap order o ho s hfail
    show Inv (applySnapshot s1.t o s) (applyEmit s1.K (emitFor s1.t o s (affected s1.t o s))) _
    rw [show s1.t = (runSync TK.empty h).t from ht, show s1.K = _ from hK]
    have := Inv_retry_after_partial hI o ho s
      ((reorder (emitFor (runSync TK.empty h).t o s (affected (runSync TK.empty h).t o s)).ups order).take n) []
      (fun p hp => mem_reorder (List.mem_of_mem_take hp)) (fun k hk => by cases hk)
    exact this
  exact key.kernel_bit ip i

-- non-vacuity: capacity 2, table {7}, the batch {8, 9} is refused after its first pair
example :
    let s0 := runSync TK.empty [("a", ⟨1, [7]⟩)]
    (s0.syncCap 2 [9, 8] "b" ⟨2, [8, 9]⟩ .ok).2 = .updFailed ∧
    (s0.syncCap 2 [9, 8] "b" ⟨2, [8, 9]⟩ .ok).1.K = [(9, 2), (7, 1)] ∧
    (s0.syncCap 3 [9, 8] "b" ⟨2, [8, 9]⟩ .ok).2 = .done := by decide

/-! ## Part 2 — the cache layer, every history of cache operations -/

/-- What "a cached entry lists address `ip`" means in the statements below: some record of its answer
section is an A/AAAA record whose address is not unspecified and whose 16-byte (IPv4-mapped) form is `ip`. -/
theorem listed_iff (ans : List Ans) (ip : Ip) : ip ∈ ansIps ans ↔ ∃ a ∈ ans, a.key? = some ip := by
  unfold ansIps
  rw [mem_dedup, List.mem_filterMap]

/-- `0.0.0.0` and `::` answers, records with an unparsable address and non-address records list nothing;
an A record and an AAAA record spelling the same IPv4 address list the same key.
(Whether the 16-byte spelling `::ffff:0.0.0.0` counts as unspecified is not decided by the property; the
model follows `netip` (it does not), the generators never produce it and nothing is compared on it.) -/
theorem unspecified_lists_nothing :
    ansIps [.a4 0, .a6 0, .bad, .other] = [] ∧
    ansIps [.a4 0x01020304, .a4m 0x01020304, .a6 (mapped4 0x01020304)] = [mapped4 0x01020304] := by decide

/-- **Headline (full strength).** After ANY history of cache operations — answers cached, replaced or
refreshed with other addresses or another bitmap (keyed or with the derived key), removed, removed as a
family on a reject, expired on a lookup (cold or hot path, whatever the expiry policy decides), evicted by
the janitor or the LRU limit (whatever keys it picks), time passing, refresh tasks queued (whatever the
refresh policy decides) and the deferred refresh worker running at any later point, the whole cache
restored into a new generation on reload; several names, record types and upstream scopes listing the same
address; zero bitmaps, empty and unspecified answers — bit `i` of what the kernel reads for `ip` is set
exactly when some *currently cached* entry lists `ip` and has bit `i` in its domain bitmap. -/
theorem table_mirrors_cache (cfg : Cfg) (ops : List COp) (ip : Ip) (i : Nat) :
    (kernelVal (crun (CState.init cfg) ops).tk.K ip).testBit i = true ↔
      ∃ key e, alLookup key (crun (CState.init cfg) ops).cache = some e ∧ ip ∈ ansIps e.ans ∧
        e.bitmap.testBit i = true :=
  (CInv_run ops (CInv_init cfg)).cache_bit (crun_dirty ops rfl) ip i

/-- **No stale or orphaned address (full strength).** Every entry of the table is non-zero and its address
is listed by a currently cached entry with a non-zero bitmap. -/
theorem table_no_orphan (cfg : Cfg) (ops : List COp) (ip : Ip) (v : Bitmap)
    (hv : alLookup ip (crun (CState.init cfg) ops).tk.K = some v) :
    v ≠ 0 ∧ ∃ key e, alLookup key (crun (CState.init cfg) ops).cache = some e ∧ ip ∈ ansIps e.ans ∧
      e.bitmap ≠ 0 :=
  (CInv_run ops (CInv_init cfg)).cache_no_orphan (crun_dirty ops rfl) ip v hv

/-- the same as an equation with the executable specification (union of the bitmaps of the cached entries
listing the address). -/
theorem table_eq_spec (cfg : Cfg) (ops : List COp) (ip : Ip) :
    kernelVal (crun (CState.init cfg) ops).tk.K ip = specOr (crun (CState.init cfg) ops).cache ip :=
  (CInv_run ops (CInv_init cfg)).kernel_eq_spec (crun_dirty ops rfl) ip

/-- the executable check the driver prints as `m=` (table = specification on every address that occurs, no
zero entry) is always true: a `m=0` line from the driver is impossible. -/
theorem driver_mirror_flag (cfg : Cfg) (ops : List COp) :
    mirrorOk (crun (CState.init cfg) ops).cache (crun (CState.init cfg) ops).tk.K = true :=
  (CInv_run ops (CInv_init cfg)).mirrorOk_true (crun_dirty ops rfl)

-- non-vacuity: two scopes of one name plus another name share an address; one expires on lookup, one is
-- replaced with another address; a refresh queued for a since-replaced entry is dropped by the worker.
example :
    let ops : List COp := [.put "a.com.1" "a.com." 1 10 none 0b01 [.a4 1, .a4 2],
      .put "a.com.1|up" "a.com." 1 100 none 0b01 [.a4 1],
      .put "" "b.com." 1 100 none 0b10 [.a4m 1, .a6 0], .sleep (10 * sec), .look "a.com.1" true false,
      .sleep (60 * sec), .look "b.com.1" false true, .put "b.com.1" "b.com." 1 100 none 0b10 [.a4 3], .work]
    let σ := crun (CState.init ⟨false, 0, 0⟩) ops
    σ.tk.K = [(mapped4 3, 0b10), (mapped4 1, 0b01)] ∧ σ.cache.length = 2 ∧ σ.pending = [] := by decide

-- non-vacuity of the reload step: the restored generation gets other bitmaps, the table follows
example :
    let ops : List COp := [.put "a.com.1" "a.com." 1 100 none 0b01 [.a4 1, .a4 2],
      .put "b.com.1" "b.com." 1 100 none 0b10 [.a4 1], .reload [("b.com.1", 0b100), ("a.com.1", 0)]]
    let σ := crun (CState.init ⟨false, 0, 0⟩) ops
    σ.tk.K = [(mapped4 1, 0b100)] ∧ σ.cache.length = 2 := by decide

/-- the table also mirrors the tracker's own owner snapshots (so the tracker's owner index is the cache). -/
theorem table_mirrors_tracker (cfg : Cfg) (ops : List COp) (ip : Ip) (i : Nat) :
    (kernelVal (crun (CState.init cfg) ops).tk.K ip).testBit i = true ↔
      ∃ o s, alLookup o (crun (CState.init cfg) ops).tk.t.owners = some s ∧ ip ∈ s.ips ∧
        s.bitmap.testBit i = true :=
  (CInv_run ops (CInv_init cfg)).tracker_bit ip i

/-! ### failing batch syscalls inside cache operations (environment, not a cache history)

`crunP` runs a history in which every operation comes with a *plan*: what the batch syscalls of that
operation's tracker calls do, per cache key (`ok`, the update batch fails, the delete batch fails). The code
stores / removes the cache entry before the callback runs and only logs (or returns) the callback's error, so
after a failure cache and table disagree. `dirty` (ghost) is the set of keys whose latest tracker call failed. -/

/-- the headline machine is the plan machine with working syscalls. -/
theorem crun_is_crunP_ok (σ : CState) (ops : List COp) : crun σ ops = crunP σ (ops.map fun o => (Plan.ok, o)) := by
  unfold crun crunP
  rw [List.foldl_map]
  rfl

/-- **A failed publish breaks the mirror** (code as it is: the entry is stored before the callback runs and
stays cached when the callback fails): after a put whose update batch failed the cache lists the address, the
table does not. The headline above therefore assumes that the batch syscalls of cache operations succeed. -/
theorem failed_put_sync_breaks_mirror :
    ¬ (∀ (cfg : Cfg) (ops : List (Plan × COp)) (ip : Ip) (i : Nat),
        (kernelVal (crunP (CState.init cfg) ops).tk.K ip).testBit i = true ↔
          ∃ key e, alLookup key (crunP (CState.init cfg) ops).cache = some e ∧ ip ∈ ansIps e.ans ∧
            e.bitmap.testBit i = true) := by
  intro h
  have := h ⟨false, 0, 0⟩ [(fun _ => .updFail, .put "k" "k." 1 100 none 1 [.a4 1])] (mapped4 1) 0
  have hk : (kernelVal (crunP (CState.init ⟨false, 0, 0⟩)
      [(fun _ => .updFail, .put "k" "k." 1 100 none 1 [.a4 1])]).tk.K (mapped4 1)).testBit 0 = false := by decide
  have hc : ∃ key e, alLookup key (crunP (CState.init ⟨false, 0, 0⟩)
      [(fun _ => .updFail, .put "k" "k." 1 100 none 1 [.a4 1])]).cache = some e ∧ mapped4 1 ∈ ansIps e.ans ∧
        e.bitmap.testBit 0 = true := ⟨"k", ⟨1, 1, [.a4 1], 100 * sec, 100 * sec, 0, 0⟩, by decide, by decide, by decide⟩
  rw [this.mpr hc] at hk
  cases hk

/-- **Whatever fails, table and tracker stay consistent** (update batches may fail in any operation of any
history: puts, removals, janitor runs, the refresh worker, the restore of a reload; hypothesis: no *delete*
batch fails after its update batch was written): the table is exactly the union over the tracker's owner
snapshots. -/
theorem table_mirrors_tracker_under_failures (cfg : Cfg) (ops : List (Plan × COp))
    (hnd : ∀ p ∈ ops, ∀ o, p.1 o ≠ Outcome.delFail) (ip : Ip) (i : Nat) :
    (kernelVal (crunP (CState.init cfg) ops).tk.K ip).testBit i = true ↔
      ∃ o s, alLookup o (crunP (CState.init cfg) ops).tk.t.owners = some s ∧ ip ∈ s.ips ∧
        s.bitmap.testBit i = true :=
  (CInv_runP ops (CInv_init cfg) hnd).tracker_bit ip i

/-- **… and the tracker is the cache on every key whose latest call did not fail.** -/
theorem tracker_matches_cache_on_clean_keys (cfg : Cfg) (ops : List (Plan × COp))
    (hnd : ∀ p ∈ ops, ∀ o, p.1 o ≠ Outcome.delFail) (key : String)
    (hclean : key ∉ (crunP (CState.init cfg) ops).dirty) :
    alLookup key (crunP (CState.init cfg) ops).tk.t.owners =
      (if key = "" then none else
        match alLookup key (crunP (CState.init cfg) ops).cache with
        | some e => if e.snap.effective then some e.snap else none
        | none => none) :=
  (CInv_runP ops (CInv_init cfg) hnd).clean key hclean

/-- **The damage of failed calls is confined to the addresses of the failed keys.** After any history with
failing update batches anywhere, an address that no dirty key lists (neither in the snapshot the tracker
still holds for it nor in the entry cached under it) reads exactly the union over the cached entries that
list it. In particular (next theorem) the headline holds again as soon as no key is dirty. -/
theorem clean_addresses_mirror_cache (cfg : Cfg) (ops : List (Plan × COp))
    (hnd : ∀ p ∈ ops, ∀ o, p.1 o ≠ Outcome.delFail) (ip : Ip)
    (hpub : ∀ k ∈ (crunP (CState.init cfg) ops).dirty, ∀ s,
      alLookup k (crunP (CState.init cfg) ops).tk.t.owners = some s → ip ∉ s.ips)
    (hcache : ∀ k ∈ (crunP (CState.init cfg) ops).dirty, ∀ e,
      alLookup k (crunP (CState.init cfg) ops).cache = some e → ip ∉ ansIps e.ans) (i : Nat) :
    (kernelVal (crunP (CState.init cfg) ops).tk.K ip).testBit i = true ↔
      ∃ key e, alLookup key (crunP (CState.init cfg) ops).cache = some e ∧ ip ∈ ansIps e.ans ∧
        e.bitmap.testBit i = true :=
  (CInv_runP ops (CInv_init cfg) hnd).clean_address_bit ip hpub hcache i

/-- **Every failed key re-published ⇒ the headline holds again** (a later put, removal, refresh by the worker
or reload of that key whose syscalls work clears it from `dirty`). -/
theorem table_mirrors_cache_when_no_key_is_dirty (cfg : Cfg) (ops : List (Plan × COp))
    (hnd : ∀ p ∈ ops, ∀ o, p.1 o ≠ Outcome.delFail)
    (hclean : (crunP (CState.init cfg) ops).dirty = []) (ip : Ip) (i : Nat) :
    (kernelVal (crunP (CState.init cfg) ops).tk.K ip).testBit i = true ↔
      ∃ key e, alLookup key (crunP (CState.init cfg) ops).cache = some e ∧ ip ∈ ansIps e.ans ∧
        e.bitmap.testBit i = true :=
  (CInv_runP ops (CInv_init cfg) hnd).cache_bit hclean ip i

-- non-vacuity: a put and a janitor eviction whose update batches fail, another key untouched; then the refresh
-- worker re-publishes the failed put: no key is dirty any more
example :
    let ops : List (Plan × COp) := [(Plan.ok, .put "a" "a." 1 100 none 0b01 [.a4 1, .a4 2]),
      (Plan.ok, .put "b" "b." 1 100 none 0b10 [.a4 2]),
      (fun _ => .updFail, .put "c" "c." 1 100 none 0b100 [.a4 2, .a4 3]),
      (fun _ => .updFail, .jan ["a"])]
    let σ := crunP (CState.init ⟨false, 0, 0⟩) ops
    σ.dirty = ["a", "c"] ∧ σ.cache.length = 2 ∧ σ.tk.K = [(mapped4 2, 0b11), (mapped4 1, 0b01)] ∧
    (crunP σ [(Plan.ok, .look "c" false true), (Plan.ok, .work), (Plan.ok, .put "a" "a." 1 100 none 0 [])]).dirty = [] ∧
    (crunP σ [(Plan.ok, .look "c" false true), (Plan.ok, .work), (Plan.ok, .put "a" "a." 1 100 none 0 [])]).tk.K =
      [(mapped4 2, 0b110), (mapped4 3, 0b100)] := by decide

/-- **… in particular the refresh worker repairs a failed put.** After any history (with failing update
batches anywhere) that leaves no key dirty and the refresh queue empty, a put whose publish failed, the next
lookup of that key (which queues a refresh because the entry was never synced) and the worker's run restore
the headline. -/
theorem refresh_after_failed_put_repairs (cfg : Cfg) (ops : List (Plan × COp))
    (hnd : ∀ p ∈ ops, ∀ o, p.1 o ≠ Outcome.delFail) (key fqdn : String) (qtype ttl : Nat)
    (fixedTtl : Option Nat) (bitmap : Bitmap) (ans : List Ans)
    (hd : (crunP (CState.init cfg) ops).dirty = [])
    (hq : (crunP (CState.init cfg) ops).pending = []) (ip : Ip) (i : Nat) :
    let σ := crunP (crunP (CState.init cfg) ops) [(fun _ => .updFail, .put key fqdn qtype ttl fixedTtl bitmap ans),
      (Plan.ok, .look (effKey key fqdn qtype) false true), (Plan.ok, .work)]
    (kernelVal σ.tk.K ip).testBit i = true ↔
      ∃ k e, alLookup k σ.cache = some e ∧ ip ∈ ansIps e.ans ∧ e.bitmap.testBit i = true := by
  intro σ
  have h0 := CInv_runP ops (CInv_init cfg) hnd
  have hσ : CInv σ := CInv_runP _ h0 (by
    intro p hp o
    simp only [List.mem_cons, List.not_mem_nil, or_false] at hp
    rcases hp with hp | hp | hp <;> subst hp <;> simp [Plan.ok])
  exact hσ.cache_bit (failed_put_then_refresh_dirty _ hd hq key fqdn qtype ttl fixedTtl bitmap ans) ip i

example : (crunP (CState.init ⟨false, 0, 0⟩) [(Plan.ok, .put "a" "a." 1 100 none 1 [.a4 1])]).pending = [] ∧
    (crunP (CState.init ⟨false, 0, 0⟩) [(Plan.ok, .put "a" "a." 1 100 none 1 [.a4 1])]).dirty = [] := by decide

/-- **A failed removal leaves an orphan that only the same key can clear** (witness; code as it is: the entry
has left the cache before the delete callback runs, its error is only logged, and no later operation on
*other* keys re-syncs that owner): `put k {1.2.3.4…}; del k` with a failing batch leaves the address in the
table although nothing is cached; a later `put k …` + `del k` with working syscalls clears it. -/
theorem failed_removal_leaves_orphan :
    let σ := crunP (CState.init ⟨false, 0, 0⟩)
      [(Plan.ok, .put "k" "k." 1 100 none 1 [.a4 1]), (fun _ => .delFail, .del "k")]
    σ.cache = [] ∧ σ.tk.K = [(mapped4 1, 1)] ∧ σ.dirty = ["k"] ∧
    (crunP σ [(Plan.ok, .put "x" "x." 1 1 none 4 [.a4 1]), (Plan.ok, .sleep 5), (Plan.ok, .jan ["x"]), (Plan.ok, .del "k")]).tk.K
      = [(mapped4 1, 1)] ∧
    (crunP σ [(Plan.ok, .put "k" "k." 1 100 none 1 [.a4 7]), (Plan.ok, .del "k")]).tk.K = [] := by
  decide

/-- **Revert witness.** With the worker as it was before the fix (`cstepUnguarded`: a queued refresh is
applied even when its entry was replaced or removed meanwhile) the headline is false: insert, wait 60 s,
look up (queues a refresh), remove, worker runs — the table keeps an address no cached entry lists.
The check's harness replays such histories against the real code on every run. -/
theorem unguarded_worker_breaks_mirror :
    ¬ (∀ (cfg : Cfg) (ops : List COp) (ip : Ip) (i : Nat),
        (kernelVal (crunUnguarded (CState.init cfg) ops).tk.K ip).testBit i = true ↔
          ∃ key e, alLookup key (crunUnguarded (CState.init cfg) ops).cache = some e ∧ ip ∈ ansIps e.ans ∧
            e.bitmap.testBit i = true) := by
  intro h
  have := h ⟨false, 0, 0⟩
    [.put "k" "k." 1 100 none 1 [.a4 1], .sleep (60 * sec), .look "k" false true, .del "k", .work] (mapped4 1) 0
  have hc : (crunUnguarded (CState.init ⟨false, 0, 0⟩)
    [.put "k" "k." 1 100 none 1 [.a4 1], .sleep (60 * sec), .look "k" false true, .del "k", .work]).cache = [] := by decide
  have hk : (kernelVal (crunUnguarded (CState.init ⟨false, 0, 0⟩)
    [.put "k" "k." 1 100 none 1 [.a4 1], .sleep (60 * sec), .look "k" false true, .del "k", .work]).tk.K (mapped4 1)).testBit 0
      = true := by decide
  obtain ⟨key, e, hl, _, _⟩ := this.mp hk
  rw [hc] at hl
  cases hl

-- the same history on the fixed machine: the task is dropped, the table is empty
example : (crun (CState.init ⟨false, 0, 0⟩)
    [.put "k" "k." 1 100 none 1 [.a4 1], .sleep (60 * sec), .look "k" false true, .del "k", .work]).tk.K = [] := by decide

/-! ## Part 3 — `syncOwner` under concurrency: every interleaving of the mutex and the two batch syscalls

Any number of goroutines, each with any program of `syncOwner` calls; a schedule picks who moves next; a move
is one of: take `t.mu` (possible only when it is free) and compute the batches, send the update batch, send
the delete batch, apply the snapshot and release `t.mu`. -/

/-- **Whenever the mutex is free the table is the union** over the latest snapshots of the calls committed
so far (in commit order), for every set of programs and every schedule. -/
theorem mutex_serialises_syncs (progs : List (List (Owner × Snapshot))) (sched : List Nat)
    (hfree : (srun (Sys.init progs) sched).lock = none) (ip : Ip) (i : Nat) :
    (kernelVal (srun (Sys.init progs) sched).K ip).testBit i = true ↔
      ∃ o s, liveAfter (fun _ => none) (srun (Sys.init progs) sched).done o = some s ∧ ip ∈ s.ips ∧
        s.bitmap.testBit i = true := by
  have h := SInv_srun sched (SInv_init progs)
  simp only [SInv, hfree] at h
  exact h.kernel_bit ip i

/-- … no orphan either, and every committed call was issued by one of the goroutines. -/
theorem mutex_serialises_syncs_no_orphan (progs : List (List (Owner × Snapshot))) (sched : List Nat)
    (hfree : (srun (Sys.init progs) sched).lock = none) :
    (∀ ip v, alLookup ip (srun (Sys.init progs) sched).K = some v →
      v ≠ 0 ∧ ∃ o s, liveAfter (fun _ => none) (srun (Sys.init progs) sched).done o = some s ∧ ip ∈ s.ips ∧ s.bitmap ≠ 0) ∧
    (∀ c ∈ (srun (Sys.init progs) sched).done, ∃ prog ∈ progs, c ∈ prog) := by
  have h := SInv_srun sched (SInv_init progs)
  simp only [SInv, hfree] at h
  exact ⟨fun ip v hv => h.no_orphan ip v hv, (SFrom_srun sched (SFrom_init progs)).1⟩

/-- **While a call holds the mutex** the table is that union plus exactly the part of the holder's own batches
it has sent so far; nobody else has moved (`tstep` of any other goroutine is the identity). -/
theorem table_during_a_call (progs : List (List (Owner × Snapshot))) (sched : List Nat) (h : Hold)
    (hheld : (srun (Sys.init progs) sched).lock = some h) :
    let σ := srun (Sys.init progs) sched
    h.o ≠ "" ∧ (∀ j, j ≠ h.tid → tstep σ j = σ) ∧
    ∃ K0, (∀ ip i, (kernelVal K0 ip).testBit i = true ↔
        ∃ o s, liveAfter (fun _ => none) σ.done o = some s ∧ ip ∈ s.ips ∧ s.bitmap.testBit i = true) ∧
      σ.K = (match h.stage with
        | .locked => K0
        | .updSent => (emitFor σ.t h.o h.s (affected σ.t h.o h.s)).ups.foldl (fun K p => alInsert p.1 p.2 K) K0
        | .delSent => applyEmit K0 (emitFor σ.t h.o h.s (affected σ.t h.o h.s))) := by
  intro σ
  have hS := SInv_srun sched (SInv_init progs)
  simp only [SInv, hheld] at hS
  obtain ⟨ho, K0, hI, hK⟩ := hS
  refine ⟨ho, ?_, K0, fun ip i => hI.kernel_bit ip i, hK⟩
  intro j hj
  show tstep (srun (Sys.init progs) sched) j = _
  unfold tstep
  simp only [hheld]
  rw [if_pos (fun e => hj e.symm)]

-- non-vacuity: two goroutines sharing address 7; goroutine 1 tries to move while goroutine 0 holds the mutex
example :
    let progs := [[("a", (⟨0b01, [7, 8]⟩ : Snapshot)), ("a", ⟨0b01, [8]⟩)], [("b", ⟨0b10, [7]⟩)]]
    (srun (Sys.init progs) [0, 1, 0, 1]).lock.map (·.stage) = some .updSent ∧
    (srun (Sys.init progs) [0, 1, 0, 1]).K = [(8, 0b01), (7, 0b01)] ∧
    (srun (Sys.init progs) [0, 1, 0, 1, 0, 0, 1, 1, 1, 1, 0, 0, 0, 0]).finished = true ∧
    (srun (Sys.init progs) [0, 1, 0, 1, 0, 0, 1, 1, 1, 1, 0, 0, 0, 0]).K = [(7, 0b10), (8, 0b01)] ∧
    (srun (Sys.init progs) [0, 1, 0, 1, 0, 0, 1, 1, 1, 1, 0, 0, 0, 0]).done =
      [("a", ⟨0b01, [7, 8]⟩), ("b", ⟨0b10, [7]⟩), ("a", ⟨0b01, [8]⟩)] := by decide

/-- **Negative witness: releasing the mutex before the syscalls breaks it.** With the snapshot applied and
`t.mu` released before the batches are sent (`tstepE`), two goroutines syncing different owners of one address
can have their writes land in the opposite order of their diffs: a ↦ {7} bits 01 computes "7 := 01", b ↦ {7}
bits 10 computes "7 := 11" and writes it, then a's older write lands: the table reads 01 although b is live. -/
theorem early_unlock_breaks_mirror :
    let σ := srunE ⟨Tracker.empty, [], [], [[("a", ⟨0b01, [7]⟩)], [("b", ⟨0b10, [7]⟩)]]⟩ [0, 1, 1, 0]
    σ.inflight.isEmpty = true ∧ σ.todo.all (·.isEmpty) = true ∧ kernelVal σ.K 7 = 0b01 ∧
    alLookup "b" σ.t.owners = some ⟨0b10, [7]⟩ := by decide

end DaeVerif.C10.Props
