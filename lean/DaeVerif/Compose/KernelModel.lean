import DaeVerif.Compose.Model
import DaeVerif.C02.Model
import DaeVerif.C10.Model
/-! Executable definitions of the kernel-datapath composition C02 ∘ C10 ∘ C11 (see `KernelDomain.lean`
for the theorems). Core-only.

Three representations of "the domain bitmap" meet here:

* C11: `MatchDomainBitmap` returns `[]uint32` — a list of 32-bit words, bit `i % 32` of word `i / 32`;
* C10: `bpfDomainRouting.Bitmap` (`[32]uint32`) is ONE number whose bit `32*w + b` is bit `b` of word `w`;
* C02: `domain_routing_map` is address ↦ list of 32 words, read one word at a time (`KMaps.domainWord`).

`natOfWords` / `wordsOfNat` are the two conversions. -/
namespace DaeVerif.Compose
open DaeVerif.RuleScan DaeVerif.C12 DaeVerif.C01 DaeVerif.C11 DaeVerif.C02

/-- `copy(snapshot.bitmap.Bitmap[:], cache.DomainBitmap)` seen as C10's number: word `w` contributes its
32 bits at positions `32*w ..`. -/
def natOfWords : List Nat → Nat
  | [] => 0
  | w :: ws => w % 2 ^ 32 + 2 ^ 32 * natOfWords ws

/-- the `[32]uint32` value the batch update writes for C10's number `v` -/
def wordsOfNat (v : Nat) : List Nat := (List.range C10.bitmapWords).map fun w => (v >>> (32 * w)) % 2 ^ 32

/-- C10's table (`domain_routing_map` as the shadow of the emitted batches) in the form C02's kernel
program reads it. -/
def kdomain (K : C10.Kernel) : List (Nat × List Nat) := K.map fun p => (p.1, wordsOfNat p.2)

/-- The domain matcher of the generation: `NewAhocorasickSlimtrie(log, consts.MaxMatchSetLen)`, one
`AddSet` per registered domain set (`addCalls`), `Build`. -/
def builtFor (P : DProgram) : Except MErr Built := (Matcher.replay MaxMatchSetLen (addCalls P)).build

/-- What `NewCache` (and `RestoreReloadCache` on reload) stores in `DnsCache.DomainBitmap` for a name:
`domainMatcher.MatchDomainBitmap(fqdn)`, as C10's number. `none` = build error / panic in the matcher. -/
def entryBitmap (P : DProgram) (name : Str) (rxHits : List Nat) : Option Nat :=
  match builtFor P with
  | .ok b => (b.matchBitmap name rxHits).map natOfWords
  | .error _ => none

/-- the cached entries (key, entry) whose answer section lists address `a` -/
def learnt (cache : List (String × C10.Entry)) (a : Nat) : List (String × C10.Entry) :=
  cache.filter fun p => (C10.ansIps p.2.ans).contains a

/-- Truth of key group `g` for destination address `a`, as the kernel datapath can know it: SOME cached
entry lists `a` and its name matches a valid pattern of `g` by the documented kind. `nameOf` / `rxOf`
give the name a cache key was stored for and the regex oracle for that name. -/
def learntHolds (nameOf : String → Str) (rxOf : String → List Nat) (cache : List (String × C10.Entry))
    (a : Nat) (g : Kind × List Pat) : Bool :=
  (learnt cache a).any fun p => groupHolds (nameOf p.1) (rxOf p.1) g

/-- The packet as the specification sees it in the kernel datapath: C01's oracle bits instantiated by
what the DNS cache has learnt about the packet's destination address. -/
def withLearnt (P : DProgram) (nameOf : String → Str) (rxOf : String → List Nat)
    (cache : List (String × C10.Entry)) (pk : Pkt) : Pkt :=
  { pk with dom := P.groups.map (learntHolds nameOf rxOf cache pk.dst) }

/-- The kernel maps after the generation of `P` was installed (`buildRoutingKernspace` with trie sharing
at ring offset `start`, on top of ARBITRARY previous contents `m0`, then `InheritLpmIndices` for an
arbitrary set `old` of superseded slots), with `domain_routing_map` holding C10's table `K`. -/
def kernelMaps (hash : List Prefix → Nat) (P : DProgram) (start : Nat) (m0 : KMaps) (old : List Nat)
    (K : C10.Kernel) : KMaps :=
  { inheritSlots (installGen .little start (assignShare hash Builder.empty (compileProgram P.rules P.fb)).1
      (assignShare hash Builder.empty (compileProgram P.rules P.fb)).2.tries m0) old
      (genSlots start (assignShare hash Builder.empty (compileProgram P.rules P.fb)).2.tries.length)
    with domain := kdomain K }

/-- The name a cache key stands for in the real code: keys are `fqdn ++ qtype` (decimal), optionally
followed by `"|" ++ scope` (`cacheKey`, `dnsCacheBaseKey`); the name is the base key without its
trailing digits. (Only used to instantiate `nameOf` in the examples; the theorems hold for any `nameOf`.) -/
def fqdnOfKey (k : String) : Str :=
  (((k.toList.takeWhile (· != '|')).reverse.dropWhile Char.isDigit).reverse).map Char.toNat

end DaeVerif.Compose
