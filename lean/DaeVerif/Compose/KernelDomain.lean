import DaeVerif.C02.Props
import DaeVerif.C10.Props
import DaeVerif.C11.Props
import DaeVerif.Compose.Routing
import DaeVerif.Compose.KernelModel
/-!
# Composition: kernel routing decisions by DNS-learnt domains (C02 ∘ C10 ∘ C11, on top of C01 / C12)

In the kernel datapath a packet carries no name. `route()` learns "this destination address belongs
to domain set `i`" from `domain_routing_map` (address ↦ 1024-bit bitmap), which the control plane fills
from the DNS response cache.

* C02 proves: the byte-level kernel program over the installed images returns the packed decision of
  the first matching rule — ASSUMING (H2) the bitmap the kernel reads for the destination is some `ubm`
  and (`DomOK`) bit `i` of `ubm` is the truth of the key group whose match set sits at index `i`.
* C10 proves: after any history of cache operations the table holds, for every address, exactly the OR
  of the bitmaps of the live cache entries listing that address (nothing for other addresses).
* C11 proves: bit `i` of `MatchDomainBitmap(name)` is set iff some valid pattern registered under
  index `i` matches `name` by its documented kind.

Here H2 and `DomOK` are DISCHARGED from C10 and C11 (and the builder's `RuleIndex` = position
bookkeeping of `Compose/Routing.lean`): what stays is the link "the bitmap stored with a cache entry
is the matcher's bitmap for the entry's name" — which is what `NewCache` / `RestoreReloadCache` do in the
real code by calling `MatchDomainBitmap(fqdn)`.
-/
namespace DaeVerif.Compose
open DaeVerif.RuleScan DaeVerif.C12 DaeVerif.C01 DaeVerif.C11 DaeVerif.C02

/-! ## bitmaps: list of 32-bit words (C11, C02) ⇄ one number (C10) -/

theorem testBit_natOfWords : ∀ (ws : List Nat) (i : Nat),
    (natOfWords ws).testBit i = (ws.getD (i / 32) 0).testBit (i % 32)
  | [], i => by simp [natOfWords]
  | w :: ws, i => by
    have hw : w % 2 ^ 32 < 2 ^ 32 := Nat.mod_lt _ (by decide)
    rw [natOfWords, Nat.add_comm, Nat.testBit_two_pow_mul_add _ hw]
    by_cases hi : i < 32
    · have h0 : i / 32 = 0 := by omega
      have h1 : i % 32 = i := by omega
      rw [if_pos hi, h0, h1, List.getD_cons_zero, Nat.testBit_mod_two_pow]
      simp [hi]
    · have h0 : i / 32 = (i - 32) / 32 + 1 := by omega
      have h1 : i % 32 = (i - 32) % 32 := by omega
      rw [if_neg hi, testBit_natOfWords ws (i - 32), h0, h1]
      simp

theorem and_one_pos (x k : Nat) : decide ((x >>> k) &&& 1 > 0) = x.testBit k := by
  unfold Nat.testBit
  rw [Nat.and_comm]
  generalize 1 &&& (x >>> k) = y
  by_cases hy : y = 0
  · subst hy; rfl
  · have : y > 0 := Nat.pos_of_ne_zero hy
    simp [hy, this]

theorem wordsOfNat_length (v : Nat) : (wordsOfNat v).length = 32 := by
  simp [wordsOfNat, C10.bitmapWords]

theorem wordsOfNat_getD (v w : Nat) :
    (wordsOfNat v).getD w 0 = if w < 32 then (v >>> (32 * w)) % 2 ^ 32 else 0 := by
  unfold wordsOfNat C10.bitmapWords
  rw [List.getD_eq_getElem?_getD, List.getElem?_map]
  by_cases hw : w < 32
  · rw [List.getElem?_range hw, if_pos hw]; rfl
  · rw [List.getElem?_eq_none (by simpa using Nat.le_of_not_lt hw), if_neg hw]; rfl

theorem wordsOfNat_zero (w : Nat) : (wordsOfNat 0).getD w 0 = 0 := by
  rw [wordsOfNat_getD]; split <;> simp

/-- reading bit `i` the way both `Match` and the kernel do (`word[i/32] >> (i%32) & 1`) from the 32 words
stored for C10's number `v` gives bit `i` of `v`, for every index of the table. -/
theorem bitmapBit_wordsOfNat (v i : Nat) (hi : i < MaxMatchSetLen) :
    C02.bitmapBit (wordsOfNat v) i = v.testBit i := by
  unfold MaxMatchSetLen at hi
  unfold C02.bitmapBit
  have hw : i / 32 < 32 := by omega
  rw [wordsOfNat_length, wordsOfNat_getD, if_pos hw, decide_eq_true hw, Bool.true_and, and_one_pos,
    Nat.testBit_mod_two_pow, Nat.testBit_shiftRight, decide_eq_true (Nat.mod_lt _ (by decide)), Bool.true_and]
  congr 1; omega

/-! ## C10's table as C02's `domain_routing_map` -/

theorem lookup_kdomain (a : Nat) : ∀ K : C10.Kernel,
    List.lookup a (kdomain K) = (C10.alLookup a K).map wordsOfNat
  | [] => rfl
  | (k, v) :: K => by
    unfold kdomain
    rw [List.map_cons, List.lookup_cons, C10.alLookup]
    by_cases h : k = a
    · subst h; simp
    · have : (a == k) = false := by simpa using fun e => h e.symm
      rw [this, if_neg h]
      exact lookup_kdomain a K

/-- **H2 discharged (representation part).** What the kernel program reads word by word for an address
from the installed maps is the 32-word form of what C10's table holds for that address (zero when absent). -/
theorem domainWord_kernelMaps (hash : List Prefix → Nat) (P : DProgram) (start : Nat) (m0 : KMaps)
    (old : List Nat) (K : C10.Kernel) (a w : Nat) :
    (kernelMaps hash P start m0 old K).domainWord a w = (wordsOfNat (C10.kernelVal K a)).getD w 0 := by
  unfold KMaps.domainWord kernelMaps C10.kernelVal
  simp only [lookup_kdomain]
  cases C10.alLookup a K with
  | none => simp only [Option.map_none]; exact (wordsOfNat_zero w).symm
  | some v => rfl

/-! ## sizes of what the builder emits -/

theorem assignShare_length (hash : List Prefix → Nat) : ∀ (es : List (Entry MCond Out)) (b : Builder),
    (assignShare hash b es).1.length = es.length
  | [], _ => rfl
  | e :: es, b => by
    show (mkK e _ :: (assignShare hash _ es).1).length = _
    rw [List.length_cons, assignShare_length hash es, List.length_cons]

theorem addSet_tries_le (hash : List Prefix → Nat) (b : Builder) (ps : List Prefix) :
    (b.addSet hash ps).1.tries.length ≤ b.tries.length + 1 := by
  unfold Builder.addSet
  simp only
  split
  · split <;> simp
  · simp

theorem kcondShare_tries_le (hash : List Prefix → Nat) (b : Builder) (c : MCond) :
    (kcondShare hash b c).2.tries.length ≤ b.tries.length + 1 := by
  cases c <;> simp only [kcondShare] <;> first | exact addSet_tries_le hash b _ | simp

/-- every match set owns at most one LPM trie: a program that fits `routing_map` fits the LPM ring -/
theorem assignShare_tries_le (hash : List Prefix → Nat) : ∀ (es : List (Entry MCond Out)) (b : Builder),
    (assignShare hash b es).2.tries.length ≤ b.tries.length + es.length
  | [], _ => Nat.le_refl _
  | e :: es, b => by
    show (assignShare hash (kcondShare hash b e.cond).2 es).2.tries.length ≤ _
    have h1 := assignShare_tries_le hash es (kcondShare hash b e.cond).2
    have h2 := kcondShare_tries_le hash b e.cond
    rw [List.length_cons]; omega

/-! ## position bookkeeping -/

theorem domOK_of_pointwise (ubm : List Nat) (p : Pkt) : ∀ (es : List (Entry MCond Out)) (pos : Nat),
    (∀ j (hj : j < es.length) g, es[j].cond = .domainSet g → C02.bitmapBit ubm (pos + j) = p.dom.getD g false) →
    DomOK ubm p pos es
  | [], _, _ => rfl
  | e :: es, pos, h => by
    show ((match e.cond with
        | .domainSet j => C02.bitmapBit ubm pos == p.dom.getD j false
        | _ => true) && domOK ubm p (pos + 1) es) = true
    rw [Bool.and_eq_true]
    constructor
    · cases hc : e.cond <;> try rfl
      rename_i g
      have := h 0 (by simp) g (by simpa using hc)
      simpa using this
    · apply domOK_of_pointwise ubm p es (pos + 1)
      intro j hj g hg
      have := h (j + 1) (by simp; omega) g (by simpa using hg)
      rw [← this]; congr 1; omega

/-- every `AddSet` call of the builder addresses the position of a match set of the program -/
theorem addCalls_idx_lt (P : DProgram) (a : AddCall) (ha : a ∈ addCalls P) :
    a.idx < (compileProgram P.rules P.fb).length := by
  unfold addCalls at ha
  rw [List.mem_filterMap] at ha
  obtain ⟨r, hr, h⟩ := ha
  obtain ⟨j, hj, h1, _⟩ := (mem_regsOf _ 0 r).mp hr
  cases hg : P.groups[r.2]? with
  | none => simp [hg] at h
  | some g =>
    simp only [hg, Option.map_some, Option.some.injEq] at h
    subst h
    show r.1 < _
    omega

/-- which pattern lists `AddSet` accepts (C11's `callOk` without its index bound): every regex of the
group compiles, and there is no pattern of an unknown kind -/
def patsOk (g : Kind × List Pat) : Bool :=
  match g.1 with
  | .regex => g.2.all (·.rxOk)
  | .unknown => g.2.isEmpty
  | _ => true

/-- C11's `callOk` hypothesis follows from "the program fits `routing_map`" and `patsOk` of the groups. -/
theorem callsOk_of_groups (P : DProgram) (hfit : (compileProgram P.rules P.fb).length ≤ MaxMatchSetLen)
    (hg : ∀ g ∈ P.groups, patsOk g = true) : ∀ a ∈ addCalls P, callOk MaxMatchSetLen a = true := by
  intro a ha
  have hidx := addCalls_idx_lt P a ha
  unfold addCalls at ha
  rw [List.mem_filterMap] at ha
  obtain ⟨r, _, h⟩ := ha
  cases hgr : P.groups[r.2]? with
  | none => simp [hgr] at h
  | some g =>
    simp only [hgr, Option.map_some, Option.some.injEq] at h
    subst h
    have hok := hg g (List.mem_of_getElem? hgr)
    unfold callOk
    rw [Bool.and_eq_true]
    refine ⟨decide_eq_true (by show r.1 < _; exact Nat.lt_of_lt_of_le hidx hfit), ?_⟩
    exact hok

/-! ## C11: what the matcher built from THIS program stores with a cache entry -/

/-- **The entry bitmap, bit by bit.** For a program whose `AddSet` calls are acceptable and a name of
C11's alphabet, the matcher builds, `MatchDomainBitmap` answers, and bit `i` of the number C10 stores is
set exactly when `i` is an index of the table and some valid pattern registered under `i` matches. -/
theorem entryBitmap_spec (P : DProgram) (name : Str) (rxHits : List Nat)
    (hcalls : ∀ a ∈ addCalls P, callOk MaxMatchSetLen a = true) (hn : plainName name = true) :
    ∃ v, entryBitmap P name rxHits = some v ∧
      ∀ i, v.testBit i = (decide (i < MaxMatchSetLen) && docMatches (addCalls P) i name rxHits) := by
  obtain ⟨b, ws, hb, hws, _, _, hbit⟩ :=
    C11.Props.domain_matcher_bitmap_correct_any_case MaxMatchSetLen (addCalls P) name rxHits hcalls hn
  refine ⟨natOfWords ws, ?_, ?_⟩
  · unfold entryBitmap builtFor
    rw [hb]; simp only [hws, Option.map_some]
  · intro i
    rw [testBit_natOfWords, hbit]

/-- … hence, at the position `j` of a domain match set, the bit is the documented meaning of that set's
own key group for the name. -/
theorem entryBitmap_bit_at_position (P : DProgram) (hc : GroupsCover P) (name : Str) (rxHits : List Nat)
    (hcalls : ∀ a ∈ addCalls P, callOk MaxMatchSetLen a = true) (hn : plainName name = true)
    (hfit : (compileProgram P.rules P.fb).length ≤ MaxMatchSetLen) (v : Nat)
    (hv : entryBitmap P name rxHits = some v)
    (j : Nat) (hj : j < (compileProgram P.rules P.fb).length) (g : Nat)
    (hg : (compileProgram P.rules P.fb)[j].cond = .domainSet g) :
    v.testBit j = (P.groups.map (groupHolds name rxHits)).getD g false := by
  obtain ⟨v', hv', hbit⟩ := entryBitmap_spec P name rxHits hcalls hn
  rw [hv] at hv'; cases hv'
  rw [hbit, decide_eq_true (Nat.lt_of_lt_of_le hj hfit), Bool.true_and]
  exact docMatches_at_position P hc name rxHits j hj g hg

/-! ## C10: what the table holds for an address -/

/-- the link between a cache entry and the matcher: the entry stored under `key` carries the bitmap the
matcher built from `P` computes for the name the key stands for (what `NewCache` and
`RestoreReloadCache` do: `DomainBitmap: domainMatcher.MatchDomainBitmap(fqdn)`), and that name is in
C11's alphabet. -/
def EntryTagged (P : DProgram) (nameOf : String → Str) (rxOf : String → List Nat) (key : String)
    (bitmap : Nat) : Prop :=
  plainName (nameOf key) = true ∧ entryBitmap P (nameOf key) (rxOf key) = some bitmap

/-- `learntHolds` says what its docstring says: SOME live cache entry lists the address and its name
matches the key group. -/
theorem learntHolds_iff (nameOf : String → Str) (rxOf : String → List Nat) (cache : List (String × C10.Entry))
    (hnd : C10.NoDupKeys cache) (a : Nat) (g : Kind × List Pat) :
    learntHolds nameOf rxOf cache a g = true ↔
      ∃ key e, C10.alLookup key cache = some e ∧ a ∈ C10.ansIps e.ans ∧
        groupHolds (nameOf key) (rxOf key) g = true := by
  unfold learntHolds learnt
  rw [List.any_eq_true]
  constructor
  · rintro ⟨⟨k, e⟩, hm, hh⟩
    rw [List.mem_filter] at hm
    exact ⟨k, e, C10.alLookup_of_mem hnd hm.1, by simpa using hm.2, hh⟩
  · rintro ⟨k, e, hl, hm, hh⟩
    exact ⟨(k, e), List.mem_filter.mpr ⟨C10.mem_of_alLookup hl, by simpa using hm⟩, hh⟩

theorem any_congr_mem {α : Type} (f g : α → Bool) : ∀ l : List α, (∀ a ∈ l, f a = g a) → l.any f = l.any g
  | [], _ => rfl
  | a :: l, h => by
    rw [List.any_cons, List.any_cons, h a List.mem_cons_self,
      any_congr_mem f g l (fun x hx => h x (List.mem_cons_of_mem _ hx))]

/-- **`DomOK` discharged.** In a state of C10's machine (invariant `CInv`: reached by any history) whose
entries listing address `a` are tagged by the matcher of `P`, bit `j` of what the kernel reads for `a` —
`j` the position of a domain match set — is the truth of that set's key group as learnt from the cache. -/
theorem table_bit_at_position (P : DProgram) (hc : GroupsCover P)
    (hcalls : ∀ a ∈ addCalls P, callOk MaxMatchSetLen a = true)
    (hfit : (compileProgram P.rules P.fb).length ≤ MaxMatchSetLen)
    (nameOf : String → Str) (rxOf : String → List Nat) (σ : C10.CState) (hI : C10.CInv σ)
    (hclean : σ.dirty = []) (a : Nat)
    (tagged : ∀ key e, C10.alLookup key σ.cache = some e → a ∈ C10.ansIps e.ans →
      EntryTagged P nameOf rxOf key e.bitmap)
    (j : Nat) (hj : j < (compileProgram P.rules P.fb).length) (g : Nat)
    (hg : (compileProgram P.rules P.fb)[j].cond = .domainSet g) :
    (C10.kernelVal σ.tk.K a).testBit j = (P.groups.map (learntHolds nameOf rxOf σ.cache a)).getD g false := by
  have hmem : (j, g) ∈ regsOf 0 (compileProgram P.rules P.fb) :=
    (mem_regsOf _ 0 (j, g)).mpr ⟨j, hj, by simp, hg⟩
  have hlt : g < P.groups.length := hc _ hmem
  rw [hI.kernel_eq_spec hclean a, C10.specOr, C10.testBit_orAll, List.any_map]
  rw [List.getD_eq_getElem?_getD, List.getElem?_map, List.getElem?_eq_getElem hlt]
  simp only [Option.map_some, Option.getD_some]
  unfold learntHolds learnt
  apply any_congr_mem
  intro p hp
  rw [List.mem_filter] at hp
  have hl := C10.alLookup_of_mem hI.nodup (show (p.1, p.2) ∈ σ.cache from hp.1)
  obtain ⟨hn, hv⟩ := tagged p.1 p.2 hl (by simpa using hp.2)
  have := entryBitmap_bit_at_position P hc (nameOf p.1) (rxOf p.1) hcalls hn hfit p.2.bitmap hv j hj g hg
  rw [List.getD_eq_getElem?_getD, List.getElem?_map, List.getElem?_eq_getElem hlt] at this
  simpa using this

/-! ## the packet ranges C02 asks for -/

/-- C02's `PktOK` for a C01 packet: beyond C01's well-formedness only the 8-bit DSCP and H3 (the LAN hook
passes no process name) are needed. -/
theorem pktOK_toK (p : Pkt) (wan : Bool) (hp : p.WF) (hdscp : p.dscp < 256)
    (lanNoPname : wan = false → p.pname.headD 0 = 0) : PktOK (toK p wan) := by
  obtain ⟨h1, h2, h3, h4, h5⟩ := hp
  refine ⟨h1, h2, Nat.lt_trans h3 (by decide), ?_, ?_, hdscp, ?_⟩
  · show p.l4 < 256; omega
  · show p.ipver < 256; omega
  · intro hw
    apply lanNoPname
    cases wan
    · rfl
    · exact absurd (show (1 : Nat) % 256 = 0 from hw) (by decide)

/-! ## the composition -/

/-- **Kernel routing by DNS-learnt domains (C02 ∘ C10 ∘ C11).**
For every routing program with real domain patterns `P` (full / suffix / keyword / regex-as-oracle, any
number of key groups, invalid patterns included), installed in the kernel maps by the real builder
(trie sharing under any hash, any ring offset, on top of arbitrary earlier generations); for every
history `h` of DNS-cache operations of C10's alphabet (entries stored, replaced, refreshed, removed,
expired, evicted, restored on reload — in any order, from the initial state) such that every entry the
cache holds AFTER `h` for the packet's destination address is tagged by the matcher built from `P`
(`EntryTagged`: its bitmap is `MatchDomainBitmap(name of its key)` — what `NewCache` does); and for
every packet `p`:

the kernel `route()` run over the installed byte images, with `domain_routing_map` = the table C10's
model holds after `h`, returns the packed, DNS-adjusted decision of the FIRST rule, top to bottom,
whose conditions all hold — where a `domain(...)` condition holds iff SOME live cache entry lists the
packet's destination address and its name matches a valid pattern of one of the condition's key groups
by the documented kind (`withLearnt` / `learntHolds_iff`).

C02's hypotheses H2 (`domain`) and `DomOK` (`domainPositions`) are discharged here; `triesFit` follows
from `progFit`. What remains: C01's well-formedness, C02's ranges, "the program fits `routing_map`",
C11's `callOk` (every regex compiles, no unknown pattern kind — `callsOk_of_groups`), `GroupsCover`
(every referenced key group has its patterns), and the tag link. -/
theorem kernel_routes_by_dns_learnt_domains
    (hash : List Prefix → Nat) (P : DProgram) (start : Nat) (m0 : KMaps) (old : List Nat)
    (cfg : C10.Cfg) (h : List C10.COp) (nameOf : String → Str) (rxOf : String → List Nat)
    (p : Pkt) (wan : Bool)
    (hp : p.WF) (hdscp : p.dscp < 256) (lanNoPname : wan = false → p.pname.headD 0 = 0)
    (hr : ∀ r ∈ P.rules, r.WF) (ranges : ∀ r ∈ P.rules, ruleRanges r)
    (fallbackOK : P.fb.outbound < OB_MustRules ∧ P.fb.mark < 2 ^ 32)
    (progFit : (compileProgram P.rules P.fb).length ≤ MaxMatchSetLen)
    (hc : GroupsCover P)
    (hcalls : ∀ a ∈ addCalls P, callOk MaxMatchSetLen a = true)
    (tagged : ∀ key e, C10.alLookup key (C10.crun (C10.CState.init cfg) h).cache = some e →
      p.dst ∈ C10.ansIps e.ans → EntryTagged P nameOf rxOf key e.bitmap) :
    routeK .little (kernelMaps hash P start m0 old (C10.crun (C10.CState.init cfg) h).tk.K) (toK p wan) =
      expectedK (toK p wan)
        (some (firstMatchS (withLearnt P nameOf rxOf (C10.crun (C10.CState.init cfg) h).cache p)
          P.rules P.fb false)) := by
  have hI : C10.CInv (C10.crun (C10.CState.init cfg) h) := C10.CInv_run h (C10.CInv_init cfg)
  -- the history's batch syscalls all succeed (C10's `crun`): no cache key is dirty
  have hclean : (C10.crun (C10.CState.init cfg) h).dirty = [] := C10.crun_dirty h rfl
  generalize C10.crun (C10.CState.init cfg) h = σ at hI hclean tagged ⊢
  have hlen := assignShare_length hash (compileProgram P.rules P.fb) Builder.empty
  have htries := assignShare_tries_le hash (compileProgram P.rules P.fb) Builder.empty
  have hwf : (withLearnt P nameOf rxOf σ.cache p).WF := hp
  exact C02.Props.kernel_eq_first_match_spec hash P.rules P.fb (withLearnt P nameOf rxOf σ.cache p) wan
    (wordsOfNat (C10.kernelVal σ.tk.K p.dst)) m0 old (kdomain σ.tk.K) start hwf hr ranges fallbackOK
    (domOK_of_pointwise _ _ _ 0 (by
      intro j hj g hg
      rw [Nat.zero_add, bitmapBit_wordsOfNat _ j (Nat.lt_of_lt_of_le hj progFit)]
      exact table_bit_at_position P hc hcalls progFit nameOf rxOf σ hI hclean p.dst tagged j hj g hg))
    (by rw [hlen]; exact progFit)
    (by
      have : (Builder.empty).tries.length = 0 := rfl
      omega)
    (pktOK_toK p wan hp hdscp lanNoPname)
    (fun w => domainWord_kernelMaps hash P start m0 old σ.tk.K p.dst w)

/-! ## the tag link as a condition on the HISTORY (what the code does at each store) -/

/-- every cached entry's bitmap satisfies `Q` for its key -/
def CacheAll (Q : String → Nat → Prop) (cache : List (String × C10.Entry)) : Prop :=
  ∀ key e, C10.alLookup key cache = some e → Q key e.bitmap

/-- the two operations that create `DnsCache` objects do it with a bitmap satisfying `Q` for the key:
`put` (`__updateDnsCacheDeadline` → `NewCache`) and `reload` (`RestoreReloadCache`, the bitmaps the new
generation's matcher assigns). All other operations create nothing. -/
def OpAll (Q : String → Nat → Prop) : C10.COp → Prop
  | .put key fqdn qtype _ _ bitmap _ => Q (C10.effKey key fqdn qtype) bitmap
  | .reload assign => ∀ p ∈ assign, Q p.1 p.2
  | _ => True

theorem cacheAll_insert {Q : String → Nat → Prop} {c : List (String × C10.Entry)} (h : CacheAll Q c)
    (k : String) (e : C10.Entry) (hq : Q k e.bitmap) : CacheAll Q (C10.alInsert k e c) := by
  intro key e' hl
  rw [C10.alLookup_insert] at hl
  by_cases hk : key = k
  · rw [if_pos hk] at hl; cases hl; rw [hk]; exact hq
  · rw [if_neg hk] at hl; exact h key e' hl

theorem cacheAll_erase {Q : String → Nat → Prop} {c : List (String × C10.Entry)} (h : CacheAll Q c)
    (k : String) : CacheAll Q (C10.alErase k c) := by
  intro key e' hl
  rw [C10.alLookup_erase] at hl
  by_cases hk : key = k
  · rw [if_pos hk] at hl; cases hl
  · rw [if_neg hk] at hl; exact h key e' hl

theorem cacheAll_evict {Q : String → Nat → Prop} {σ : C10.CState} (h : CacheAll Q σ.cache) (k : String) :
    CacheAll Q (σ.evict k).cache := by
  unfold C10.CState.evict C10.CState.evictP
  split
  · exact h
  · split
    · exact h
    · exact cacheAll_erase h k

theorem cacheAll_foldl_evict {Q : String → Nat → Prop} (f : String → Bool) : ∀ (order : List String)
    {σ : C10.CState}, CacheAll Q σ.cache →
    CacheAll Q (order.foldl (fun σ k => if f k then σ.evict k else σ) σ).cache
  | [], _, h => h
  | k :: order, σ, h => by
    rw [List.foldl_cons]
    refine cacheAll_foldl_evict f order ?_
    split
    · exact cacheAll_evict h k
    · exact h

theorem cacheAll_store {Q : String → Nat → Prop} {σ : C10.CState} (h : CacheAll Q σ.cache) (k : String)
    (e : C10.Entry) (hq : Q k e.bitmap) : CacheAll Q (σ.store k e).cache := by
  unfold C10.CState.store C10.CState.storeP
  exact cacheAll_insert h k _ hq

theorem cacheAll_queueRefresh {Q : String → Nat → Prop} {σ : C10.CState} (h : CacheAll Q σ.cache) (k : String) :
    CacheAll Q (σ.queueRefresh k).cache := by
  unfold C10.CState.queueRefresh
  split
  · exact h
  · rename_i e he
    exact cacheAll_insert h k { e with lastSync := σ.now } (h k e he)

theorem cacheAll_applyTask {Q : String → Nat → Prop} {σ : C10.CState} (h : CacheAll Q σ.cache) (t : C10.Task) :
    CacheAll Q (σ.applyTask t).cache := by
  unfold C10.CState.applyTask C10.CState.applyTaskP
  split
  · rename_i e he
    split
    · simp only
      split
      · exact cacheAll_insert h t.key { e with lastSync := t.now } (h t.key e he)
      · exact h
    · exact h
  · exact h

theorem cacheAll_restore {Q : String → Nat → Prop} (old : List (String × C10.Entry)) :
    ∀ (order : List (String × Nat)) {σ : C10.CState}, (∀ p ∈ order, (C10.alLookup p.1 old).isSome → Q p.1 p.2) →
    CacheAll Q σ.cache →
    CacheAll Q (order.foldl (fun σ p =>
      match C10.alLookup p.1 old with
      | some e => if p.1 = "" then σ else σ.store p.1 { e with bitmap := p.2, lastSync := σ.now }
      | none => σ) σ).cache
  | [], _, _, h => h
  | p :: order, σ, hq, h => by
    rw [List.foldl_cons]
    refine cacheAll_restore old order (fun x hx => hq x (List.mem_cons_of_mem _ hx)) ?_
    cases hl : C10.alLookup p.1 old with
    | none => exact h
    | some e =>
      simp only
      split
      · exact h
      · exact cacheAll_store h p.1 _ (hq p List.mem_cons_self (by rw [hl]; rfl))

theorem cacheAll_step {Q : String → Nat → Prop} {σ : C10.CState} (hnd : C10.NoDupKeys σ.cache)
    (h : CacheAll Q σ.cache) (op : C10.COp) (hop : OpAll Q op) : CacheAll Q (C10.cstep σ op).cache := by
  cases op with
  | put key fqdn qtype ttl fixedTtl bitmap ans =>
    simp only [C10.cstep, C10.cstepP]
    split
    · exact h
    · exact cacheAll_store h _ _ hop
  | del key => exact cacheAll_evict h key
  | fam base order =>
    simp only [C10.cstep, C10.cstepP]
    split
    · exact h
    · have := cacheAll_foldl_evict (Q := Q) (fun k => decide (C10.baseKey k = base)) order h
      simp only [decide_eq_true_eq] at this
      exact this
  | look key evicted queued =>
    simp only [C10.cstep, C10.cstepP]
    split
    · exact cacheAll_evict h key
    · split
      · exact cacheAll_queueRefresh h key
      · exact h
  | jan order =>
    simp only [C10.cstep, C10.cstepP]
    have := cacheAll_foldl_evict (Q := Q) (fun _ => true) order h
    simp only [if_true] at this
    exact this
  | sleep ns => exact h
  | work =>
    simp only [C10.cstep, C10.cstepP]
    split
    · exact h
    · rename_i t rest _
      exact cacheAll_applyTask (σ := { σ with pending := rest }) h t
  | touch key =>
    simp only [C10.cstep, C10.cstepP]
    split
    · exact h
    · rename_i e he
      exact cacheAll_insert h key { e with lastAccess := σ.now } (h key e he)
  | hot key evicted queued =>
    simp only [C10.cstep, C10.cstepP]
    split
    · exact h
    · rename_i e he
      have h1 : CacheAll Q (C10.alInsert key { e with lastAccess := σ.now } σ.cache) :=
        cacheAll_insert h key { e with lastAccess := σ.now } (h key e he)
      split
      · exact cacheAll_evict (σ := { σ with cache := _ }) h1 key
      · split
        · exact cacheAll_queueRefresh (σ := { σ with cache := _ }) h1 key
        · exact h1
  | reload assign =>
    simp only [C10.cstep, C10.cstepP]
    refine cacheAll_restore σ.cache _ ?_ ?_
    · intro p hp hsome
      rw [List.mem_append] at hp
      rcases hp with hp | hp
      · exact hop p hp
      · rw [List.mem_map] at hp
        obtain ⟨q, hq, rfl⟩ := hp
        rw [List.mem_filter] at hq
        -- an entry the restore order does not mention keeps the bitmap it had
        exact h q.1 q.2 (C10.alLookup_of_mem hnd (show (q.1, q.2) ∈ σ.cache from hq.1))
    · intro key e hl; cases hl

/-- **The tag link follows from what each store does.** If every `put` and every `reload` of the history
stores bitmaps satisfying `Q` for their keys, every entry cached after the history satisfies `Q`. -/
theorem cacheAll_run {Q : String → Nat → Prop} : ∀ (ops : List C10.COp) {σ : C10.CState}, C10.CInv σ →
    CacheAll Q σ.cache → (∀ op ∈ ops, OpAll Q op) → CacheAll Q (C10.crun σ ops).cache
  | [], _, _, h, _ => h
  | op :: ops, σ, hI, h, hops => by
    unfold C10.crun
    rw [List.foldl_cons]
    exact cacheAll_run ops (C10.CInv_step hI op) (cacheAll_step hI.nodup h op (hops op List.mem_cons_self))
      (fun o ho => hops o (List.mem_cons_of_mem _ ho))

/-- **The same with the link stated on the history**: every `put` of `h` stores
`MatchDomainBitmap(name of the key)` computed by the matcher built from `P` (`NewCache`), every `reload`
re-assigns such bitmaps (`RestoreReloadCache`). -/
theorem kernel_routes_by_dns_learnt_domains_history
    (hash : List Prefix → Nat) (P : DProgram) (start : Nat) (m0 : KMaps) (old : List Nat)
    (cfg : C10.Cfg) (h : List C10.COp) (nameOf : String → Str) (rxOf : String → List Nat)
    (p : Pkt) (wan : Bool)
    (hp : p.WF) (hdscp : p.dscp < 256) (lanNoPname : wan = false → p.pname.headD 0 = 0)
    (hr : ∀ r ∈ P.rules, r.WF) (ranges : ∀ r ∈ P.rules, ruleRanges r)
    (fallbackOK : P.fb.outbound < OB_MustRules ∧ P.fb.mark < 2 ^ 32)
    (progFit : (compileProgram P.rules P.fb).length ≤ MaxMatchSetLen)
    (hc : GroupsCover P)
    (hcalls : ∀ a ∈ addCalls P, callOk MaxMatchSetLen a = true)
    (storesTagged : ∀ op ∈ h, OpAll (EntryTagged P nameOf rxOf) op) :
    routeK .little (kernelMaps hash P start m0 old (C10.crun (C10.CState.init cfg) h).tk.K) (toK p wan) =
      expectedK (toK p wan)
        (some (firstMatchS (withLearnt P nameOf rxOf (C10.crun (C10.CState.init cfg) h).cache p)
          P.rules P.fb false)) :=
  kernel_routes_by_dns_learnt_domains hash P start m0 old cfg h nameOf rxOf p wan hp hdscp lanNoPname hr ranges
    fallbackOK progFit hc hcalls
    (fun key e hl _ => cacheAll_run h (C10.CInv_init cfg) (fun _ _ hl => by cases hl) storesTagged key e hl)

/-- the stored number is determined by the documented meaning: any `v` with those bits IS the entry bitmap -/
theorem entryBitmap_eq (P : DProgram) (name : Str) (rxHits : List Nat)
    (hcalls : ∀ a ∈ addCalls P, callOk MaxMatchSetLen a = true) (hn : plainName name = true) (v : Nat)
    (hv : ∀ i, v.testBit i = (decide (i < MaxMatchSetLen) && docMatches (addCalls P) i name rxHits)) :
    entryBitmap P name rxHits = some v := by
  obtain ⟨v', hv', hbit⟩ := entryBitmap_spec P name rxHits hcalls hn
  rw [hv', Nat.eq_of_testBit_eq (fun i => (hbit i).trans (hv i).symm)]

/-! ## non-vacuity

`domain(suffix: b.c) && dport(443) -> 2 (mark 0x10)`, fallback `0`.  History: the answer for `a.b.c.`
(address 1.2.3.4, bitmap = bit 0: the matcher's bitmap for that name) is cached, then the answer for
`x.y.` (addresses 5.6.7.8 AND 1.2.3.4, bitmap 0: no domain set matches that name).  Whatever the hash,
the ring offset, the earlier map contents and the superseded slots:

* a TCP/443 packet to 1.2.3.4 (learnt for a matching name, besides a non-matching one) takes the rule;
* a packet to 5.6.7.8 (learnt, but only for a name no pattern matches) falls to the fallback;
* a packet to 9.9.9.9 (never learnt) falls to the fallback. -/
def exKD : DProgram :=
  { rules := [⟨⟨false, .domain ⟨0, []⟩⟩, [⟨false, .port true ⟨⟨(443, 443), []⟩, []⟩⟩], .final ⟨2, 16, false⟩⟩],
    fb := ⟨0, 0, false⟩,
    groups := [(.suffix, [⟨strOf "b.c", true, 0⟩])] }
def exKH : List C10.COp :=
  [.put "" "a.b.c." 1 100 none 1 [.a4 0x01020304], .put "" "x.y." 1 100 none 0 [.a4 0x05060708, .a4 0x01020304]]
def exKPk (dst : Nat) : Pkt := ⟨C10.mapped4 0xc0a80002, dst, 1000, 443, 1, 1, List.replicate 16 0, 0, 1, []⟩

-- cache keys are `fqdn ++ qtype`; `fqdnOfKey` recovers the name; the table holds bit 0 for 1.2.3.4 only
example : (C10.crun (C10.CState.init ⟨false, 0, 0⟩) exKH).cache.map (·.1) = ["x.y.1", "a.b.c.1"] ∧
    fqdnOfKey "a.b.c.1" = strOf "a.b.c." ∧ fqdnOfKey "x.y.1|asis@1.1.1.1:53" = strOf "x.y." ∧
    (C10.crun (C10.CState.init ⟨false, 0, 0⟩) exKH).tk.K = [(C10.mapped4 0x01020304, 1)] := by decide

theorem exKD_calls : ∀ a ∈ addCalls exKD, callOk MaxMatchSetLen a = true :=
  callsOk_of_groups exKD (by decide) (by decide)

theorem exKD_cover : GroupsCover exKD := by
  intro r hr
  have : regsOf 0 (compileProgram exKD.rules exKD.fb) = [(0, 0)] := by decide
  rw [this] at hr
  simp only [List.mem_cons, List.not_mem_nil, or_false] at hr
  subst hr; decide

/-- the history's stores are tagged by the matcher built from `exKD` (bit 0 for `a.b.c.`, nothing for `x.y.`) -/
theorem exKH_tagged : ∀ op ∈ exKH, OpAll (EntryTagged exKD fqdnOfKey (fun _ => [])) op := by
  have hlog : addCalls exKD = [⟨0, .suffix, [⟨strOf "b.c", true, 0⟩]⟩] := by rfl
  intro op hop
  simp only [exKH, List.mem_cons, List.not_mem_nil, or_false] at hop
  rcases hop with rfl | rfl
  · refine ⟨by decide, entryBitmap_eq exKD _ _ exKD_calls (by decide) 1 ?_⟩
    intro i
    rw [hlog]
    cases i with
    | zero => decide
    | succ n =>
      rw [Nat.testBit_succ]
      simp [docMatches, docMatchesCore, AddCall.lowered]
  · refine ⟨by decide, entryBitmap_eq exKD _ _ exKD_calls (by decide) 0 ?_⟩
    intro i
    rw [hlog, Nat.zero_testBit]
    have : docMatches [⟨0, .suffix, [⟨strOf "b.c", true, 0⟩]⟩] i (fqdnOfKey (C10.effKey "" "x.y." 1)) [] = false := by
      have h0 : docMatches [⟨0, .suffix, [⟨strOf "b.c", true, 0⟩]⟩] 0 (fqdnOfKey (C10.effKey "" "x.y." 1)) [] = false := by
        decide
      cases i with
      | zero => exact h0
      | succ n => simp [docMatches, docMatchesCore, AddCall.lowered]
    rw [this, Bool.and_false]

example (hash : List Prefix → Nat) (start : Nat) (m0 : KMaps) (old : List Nat) :
    let σ := C10.crun (C10.CState.init ⟨false, 0, 0⟩) exKH
    routeK .little (kernelMaps hash exKD start m0 old σ.tk.K) (toK (exKPk (C10.mapped4 0x01020304)) false) =
      C02.pack 2 16 false ∧
    routeK .little (kernelMaps hash exKD start m0 old σ.tk.K) (toK (exKPk (C10.mapped4 0x05060708)) false) =
      C02.pack 0 0 false ∧
    routeK .little (kernelMaps hash exKD start m0 old σ.tk.K) (toK (exKPk (C10.mapped4 0x09090909)) false) =
      C02.pack 0 0 false := by
  have key : ∀ dst, dst < 2 ^ 128 →
      routeK .little (kernelMaps hash exKD start m0 old (C10.crun (C10.CState.init ⟨false, 0, 0⟩) exKH).tk.K)
        (toK (exKPk dst) false) =
      expectedK (toK (exKPk dst) false) (some (firstMatchS (withLearnt exKD fqdnOfKey (fun _ => [])
        (C10.crun (C10.CState.init ⟨false, 0, 0⟩) exKH).cache (exKPk dst)) exKD.rules exKD.fb false)) := by
    intro dst hdst
    apply kernel_routes_by_dns_learnt_domains_history hash exKD start m0 old ⟨false, 0, 0⟩ exKH fqdnOfKey (fun _ => [])
      (exKPk dst) false
      ⟨show C10.mapped4 0xc0a80002 < 2 ^ 128 by decide, hdst, show (1 : Nat) < 2 ^ 48 by decide, Or.inl rfl, Or.inl rfl⟩
      (show (0 : Nat) < 256 by decide) (fun _ => rfl)
    · intro r hr
      simp only [exKD, List.mem_cons, List.not_mem_nil, or_false] at hr
      subst hr
      intro c hc
      simp only [List.mem_cons, List.not_mem_nil, or_false] at hc
      rcases hc with rfl | rfl <;> trivial
    · intro r hr
      simp only [exKD, List.mem_cons, List.not_mem_nil, or_false] at hr
      subst hr
      refine ⟨?_, show 2 < OB_MustRules ∧ 16 < 2 ^ 32 by decide⟩
      intro c hc
      simp only [List.mem_cons, List.not_mem_nil, or_false] at hc
      rcases hc with rfl | rfl
      · trivial
      · intro g hg r hr
        simp only [NE.toList, List.mem_cons, List.not_mem_nil, or_false] at hg
        subst hg
        simp only [NE.toList, List.mem_cons, List.not_mem_nil, or_false] at hr
        subst hr; decide
    · decide
    · decide
    · exact exKD_cover
    · exact exKD_calls
    · exact exKH_tagged
  intro σ
  refine ⟨?_, ?_, ?_⟩
  · rw [key _ (by decide)]; decide
  · rw [key _ (by decide)]; decide
  · rw [key _ (by decide)]; decide

end DaeVerif.Compose
