import DaeVerif.C01.Position
import DaeVerif.C11.Model
/-! Executable definitions of the composition C01 ∘ C11 (see `Routing.lean` for the theorem). Core-only. -/
namespace DaeVerif.Compose
open DaeVerif.RuleScan DaeVerif.C01 DaeVerif.C11

/-- A routing program whose domain key groups carry their real patterns: key group number `g` of the
rules (C01's oracle index) has kind and patterns `groups[g]`. -/
structure DProgram where
  rules : List SRule
  fb : Out
  groups : List (Kind × List Pat)

/-- Meaning of key group `g` for a name (documented kinds; patterns in any letter case mean their
lower-case form — `AddSet` lower-cases full / suffix / keyword patterns —; invalid patterns skipped). -/
def groupHolds (name : Str) (rxHits : List Nat) (g : Kind × List Pat) : Bool :=
  (lowerPats g.1 g.2).any fun p => patMatches g.1 p (normName name) rxHits && patValid g.1 p

/-- The packet as the specification sees it: C01's oracle bits instantiated by the documented meaning. -/
def withName (P : DProgram) (pk : Pkt) (name : Str) (rxHits : List Nat) : Pkt :=
  { pk with dom := P.groups.map (groupHolds name rxHits) }

/-- The `AddSet` calls of `BuildUserspace`: one per registered domain set, index = match-set position. -/
def addCalls (P : DProgram) : List AddCall :=
  (regsOf 0 (compileProgram P.rules P.fb)).filterMap fun r =>
    P.groups[r.2]?.map fun g => ⟨r.1, g.1, g.2⟩

/-- `Match` with the real domain matcher: build it from the `AddSet` calls, compute the bitmap for the
name, run the indexed loop testing bit `i` for the domain set at position `i`.
`none` = build error / matcher panic / "no match set hit". -/
def matchWithBuilt (b : Built) (P : DProgram) (pk : Pkt) (name : Str) (rxHits : List Nat) : Option Out :=
  match b.matchIndices name rxHits with
  | none => none
  | some idxs =>
    let ev : Nat → MCond → Bool := fun i c =>
      match c with
      | .domainSet _ => idxs.contains i
      | c => evalM pk c
    (scanIdx ev 0 (compileProgram P.rules P.fb) false false false).map
      fun (o, must) => { o with must := o.must || must }

/-- `RoutingMatcher.Match` as it treats the name: with an EMPTY domain the domain matcher is not asked
at all (`if domain != ""` in the code) and every domain bit is clear; otherwise the bitmap of the real
matcher is used. -/
def matchGuarded (b : Built) (P : DProgram) (pk : Pkt) (name : Str) (rxHits : List Nat) : Option Out :=
  if name.isEmpty then
    let ev : Nat → MCond → Bool := fun _ c =>
      match c with
      | .domainSet _ => false
      | c => evalM pk c
    (scanIdx ev 0 (compileProgram P.rules P.fb) false false false).map
      fun (o, must) => { o with must := o.must || must }
  else matchWithBuilt b P pk name rxHits

def matchReal (n : Nat) (P : DProgram) (pk : Pkt) (name : Str) (rxHits : List Nat) : Option Out :=
  match (Matcher.replay n (addCalls P)).build with
  | .error _ => none
  | .ok b => matchWithBuilt b P pk name rxHits

end DaeVerif.Compose
