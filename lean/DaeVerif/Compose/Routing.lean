import DaeVerif.C01.Props
import DaeVerif.C11.Props
import DaeVerif.Compose.Model
/-!
# Composition: routing decisions with the real domain matcher (C01 ∘ C11 ∘ C12)

C01 proves "the `Match` loop over the compiled program = first match over the rules as written",
with the truth of each `domain(...)` key group supplied as an oracle bit per packet.
C11 proves that the packed-trie / automaton matcher sets bit `i` of `MatchDomainBitmap` exactly when
some valid pattern registered under index `i` matches the name according to its kind.
C12 (used inside C01) proves the CIDR conditions.

Here the two are joined through what `BuildUserspace` does in between: it registers one `AddSet` call
per domain key group under `RuleIndex` = the position of the group's match set.  The result is an
end-to-end statement with no oracle left for full / suffix / keyword patterns: the decision for a packet
carrying a sniffed or learned *name* is that of the first rule that holds, where a domain condition
holds iff some valid pattern of one of its key groups matches the name by its documented kind.
-/
namespace DaeVerif.Compose
open DaeVerif.RuleScan DaeVerif.C01 DaeVerif.C11

/-! ## position lemmas -/

theorem mem_regsOf (es : List (Entry MCond Out)) : ∀ base r,
    r ∈ regsOf base es ↔ ∃ j, ∃ (hj : j < es.length), r.1 = base + j ∧ es[j].cond = .domainSet r.2 := by
  induction es with
  | nil => intro base r; simp [regsOf]
  | cons e es ih =>
    intro base r
    rcases dom_or_other e.cond with ⟨g, hg⟩ | ho
    · rw [regsOf_cons_dom _ g e es hg, List.mem_cons, ih]
      constructor
      · rintro (h | ⟨j, hj, h1, h2⟩)
        · subst h; exact ⟨0, by simp, by simp, by simpa using hg⟩
        · exact ⟨j + 1, by simp; omega, by omega, by simpa using h2⟩
      · rintro ⟨j, hj, h1, h2⟩
        cases j with
        | zero =>
          left
          simp only [List.getElem_cons_zero] at h2
          rw [hg] at h2; cases h2
          cases r; simp_all
        | succ k =>
          right
          exact ⟨k, by simpa using hj, by omega, by simpa using h2⟩
    · rw [regsOf_cons_other _ e es ho, ih]
      constructor
      · rintro ⟨j, hj, h1, h2⟩
        exact ⟨j + 1, by simp; omega, by omega, by simpa using h2⟩
      · rintro ⟨j, hj, h1, h2⟩
        cases j with
        | zero => simp only [List.getElem_cons_zero] at h2; exact absurd h2 (ho _)
        | succ k => exact ⟨k, by simpa using hj, by omega, by simpa using h2⟩

/-- every domain key group referenced by the rules has its patterns in `groups` -/
def GroupsCover (P : DProgram) : Prop :=
  ∀ r ∈ regsOf 0 (compileProgram P.rules P.fb), r.2 < P.groups.length

/-- `docMatches` at the position of a domain set is the meaning of that set's own key group. -/
theorem docMatches_at_position (P : DProgram) (hc : GroupsCover P) (name : Str) (rxHits : List Nat)
    (j : Nat) (hj : j < (compileProgram P.rules P.fb).length) (g : Nat)
    (hg : (compileProgram P.rules P.fb)[j].cond = .domainSet g) :
    docMatches (addCalls P) j name rxHits = (P.groups.map (groupHolds name rxHits)).getD g false := by
  have hmem : (j, g) ∈ regsOf 0 (compileProgram P.rules P.fb) :=
    (mem_regsOf _ 0 (j, g)).mpr ⟨j, hj, by simp, hg⟩
  have hlt : g < P.groups.length := hc _ hmem
  have hlow : (addCalls P).map AddCall.lowered =
      (regsOf 0 (compileProgram P.rules P.fb)).filterMap fun r =>
        P.groups[r.2]?.map fun g => (⟨r.1, g.1, lowerPats g.1 g.2⟩ : AddCall) := by
    unfold addCalls
    rw [List.map_filterMap]
    congr 1
    funext r
    cases P.groups[r.2]? <;> simp [AddCall.lowered]
  unfold docMatches docMatchesCore
  rw [hlow]
  simp only [List.any_filterMap]
  rw [List.getD_eq_getElem?_getD, List.getElem?_map, List.getElem?_eq_getElem hlt]
  simp only [Option.map_some, Option.getD_some]
  rw [Bool.eq_iff_iff, List.any_eq_true]
  constructor
  · rintro ⟨r, hr, h⟩
    obtain ⟨j', hj', h1, h2⟩ := (mem_regsOf _ 0 r).mp hr
    cases hgr : P.groups[r.2]? with
    | none => simp [hgr] at h
    | some gg =>
      simp only [hgr, Option.map_some, Bool.and_eq_true, beq_iff_eq] at h
      obtain ⟨hidx, hany⟩ := h
      have : j' = j := by omega
      subst this
      rw [hg] at h2; cases h2
      rw [List.getElem?_eq_getElem hlt] at hgr; cases hgr
      exact hany
  · intro h
    refine ⟨(j, g), hmem, ?_⟩
    simp only [List.getElem?_eq_getElem hlt, Option.map_some, beq_self_eq_true, Bool.true_and]
    exact h

/-- **End to end.** For every routing program with real domain patterns (full / suffix / keyword /
regex-as-oracle, any number of key groups, invalid patterns included), every packet and every name of
the property's alphabet (any letter case, optional trailing dot): building the real domain matcher
from the builder's `AddSet` calls and running the indexed `Match` loop over the compiled program
returns the decision of the first rule, top to bottom, whose conditions all hold — where a
`domain(...)` condition holds iff some valid pattern of one of its key groups matches the name by its
documented kind (and CIDR / port / MAC / … conditions have their C01 meaning). -/
theorem match_with_real_domain_matcher (n : Nat) (P : DProgram) (pk : Pkt) (name : Str)
    (rxHits : List Nat)
    (hp : pk.WF) (hr : ∀ r ∈ P.rules, r.WF) (hc : GroupsCover P)
    (hcalls : ∀ a ∈ addCalls P, callOk n a = true) (hlen : (compileProgram P.rules P.fb).length ≤ n)
    (hn : plainName name = true) :
    matchReal n P pk name rxHits =
      some (firstMatchS (withName P pk name rxHits) P.rules P.fb false) := by
  obtain ⟨b, hb, hidx⟩ := Props.domain_matcher_correct_any_case n (addCalls P) name rxHits hcalls hn
  unfold matchReal
  rw [hb]; simp only [matchWithBuilt, hidx]
  have hwf : (withName P pk name rxHits).WF := hp
  rw [← C01.Props.match_is_first_match P.rules P.fb (withName P pk name rxHits) hwf hr]
  unfold matchM
  congr 1
  apply scanIdx_eq_scanAux
  intro j hj
  simp only [Nat.zero_add]
  cases hcond : (compileProgram P.rules P.fb)[j].cond <;> simp only [evalM, withName] <;> try rfl
  rename_i g
  rw [← docMatches_at_position P hc name rxHits j hj g hcond]
  have hjn : j < n := Nat.lt_of_lt_of_le hj hlen
  rw [Bool.eq_iff_iff, List.contains_iff_mem, List.mem_filter, List.mem_range]
  simp [hjn]

/-- **Empty domain.** A packet for which no domain is known satisfies NO `domain(...)` condition,
whatever the patterns are (a regex such as `.*` matches the empty string, but `Match` does not ask the
domain matcher for an empty name): the decision is the first-match decision with every domain
condition false — negated domain conditions therefore hold. -/
theorem empty_name_satisfies_no_domain_condition (b : Built) (P : DProgram) (pk : Pkt) (rxHits : List Nat)
    (hp : pk.WF) (hr : ∀ r ∈ P.rules, r.WF) :
    matchGuarded b P pk [] rxHits = some (firstMatchS { pk with dom := [] } P.rules P.fb false) := by
  have hwf : ({ pk with dom := [] } : Pkt).WF := hp
  rw [← C01.Props.match_is_first_match P.rules P.fb { pk with dom := [] } hwf hr]
  unfold matchGuarded matchM
  simp only [List.isEmpty_nil, if_true]
  congr 1
  apply scanIdx_eq_scanAux
  intro j hj
  cases hcond : (compileProgram P.rules P.fb)[j].cond <;> simp [evalM]

/-- With a non-empty name `Match` is the real-matcher path of `match_with_real_domain_matcher`. -/
theorem nonempty_name_uses_matcher (b : Built) (P : DProgram) (pk : Pkt) (name : Str) (rxHits : List Nat)
    (hne : name ≠ []) : matchGuarded b P pk name rxHits = matchWithBuilt b P pk name rxHits := by
  unfold matchGuarded
  cases name with
  | nil => exact absurd rfl hne
  | cons c cs => simp

end DaeVerif.Compose

namespace DaeVerif.Compose
open DaeVerif.RuleScan DaeVerif.C01 DaeVerif.C11

/-! non-vacuity: `domain(suffix: b.c) && dport(443) -> 2 ; domain(keyword: ad) -> 1(must) ; fallback 0`,
a packet to port 443 carrying the name `A.b.C.` (upper case, trailing dot): hypotheses hold and the
real matcher path yields the first rule's outbound. -/
def exP : DProgram :=
  { rules := [⟨⟨false, .domain ⟨0, []⟩⟩, [⟨false, .port true ⟨⟨(443, 443), []⟩, []⟩⟩], .final ⟨2, 0, false⟩⟩,
              ⟨⟨false, .domain ⟨1, []⟩⟩, [], .final ⟨1, 0, true⟩⟩],
    fb := ⟨0, 0, false⟩,
    groups := [(.suffix, [⟨[98, 46, 99], true, 0⟩]), (.keyword, [⟨[97, 100], true, 0⟩])] }
def exPk : Pkt := ⟨1, 2, 1000, 443, 1, 1, List.replicate 16 0, 0, 0, []⟩

example : (addCalls exP).map (fun a => (a.idx, a.pats.map (·.s))) = [(0, [[98, 46, 99]]), (2, [[97, 100]])] := by decide
example : (∀ a ∈ addCalls exP, callOk 8 a = true) ∧ (compileProgram exP.rules exP.fb).length ≤ 8 ∧
    plainName [65, 46, 98, 46, 67, 46] = true ∧ GroupsCover exP := by
  refine ⟨by decide, by decide, by decide, ?_⟩
  intro r hr
  have : regsOf 0 (compileProgram exP.rules exP.fb) = [(0, 0), (2, 1)] := by decide
  rw [this] at hr
  simp only [List.mem_cons, List.not_mem_nil, or_false] at hr
  rcases hr with rfl | rfl <;> decide
example : firstMatchS (withName exP exPk [65, 46, 98, 46, 67, 46] []) exP.rules exP.fb false = ⟨2, 0, false⟩ := by
  decide
/-- the same packet without a name falls through both domain rules -/
example : firstMatchS { exPk with dom := [] } exP.rules exP.fb false = ⟨0, 0, false⟩ := by decide

end DaeVerif.Compose
