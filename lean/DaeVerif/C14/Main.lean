import DaeVerif.C14.Model
import DaeVerif.Common.Proto
/-!
Line-protocol driver for C14 (op grammar: see harness/overlay/component/outbound/c14_test.go).

```
fa  POOL LINES ANNOS RETAB DURTAB
grp POLICY POOL LINES ANNOS RETAB DURTAB
POOL   := P n (name tag){n}
LINES  := L n (nf FUNC{nf}){n}          FUNC := name neg np (key val){np}
ANNOS  := A n (np (key val){np}){n}
RETAB  := R n (pat ok nm (subject 0|1){nm}){n}
DURTAB := D n (val ok int){n}
POLICY := PS str | PF FUNC | PL n FUNC{n} | PO
grps POOL n (POLICY LINES ANNOS){n} RETAB DURTAB
cfg  POOL n (NAME POLICY LINES ANNOS){n} RETAB DURTAB
dur str
```
strings are `x<hex>`.
-/
open DaeVerif DaeVerif.C14 DaeVerif.Proto

abbrev P (α : Type) := List String → Option (α × List String)

def pStr : P Str
  | t :: ts =>
    match t.toList with
    | 'x' :: h => (hexToBytes? (String.ofList h)).map (·, ts)
    | _ => none
  | [] => none

def pNat : P Nat
  | t :: ts => t.toNat?.map (·, ts)
  | [] => none

def pInt : P Int
  | t :: ts => t.toInt?.map (·, ts)
  | [] => none

def pBool : P Bool
  | "0" :: ts => some (false, ts)
  | "1" :: ts => some (true, ts)
  | _ => none

def pTok (s : String) : P Unit
  | t :: ts => if t = s then some ((), ts) else none
  | [] => none

def rep {α : Type} (p : P α) : Nat → P (List α)
  | 0, ts => some ([], ts)
  | n + 1, ts => do
    let (a, ts) ← p ts
    let (as, ts) ← rep p n ts
    pure (a :: as, ts)

def counted {α : Type} (p : P α) : P (List α) := fun ts => do
  let (n, ts) ← pNat ts
  rep p n ts

def pParam : P Param := fun ts => do
  let (k, ts) ← pStr ts
  let (v, ts) ← pStr ts
  pure (⟨k, v⟩, ts)

def pFunc : P Func := fun ts => do
  let (nm, ts) ← pStr ts
  let (ng, ts) ← pBool ts
  let (ps, ts) ← counted pParam ts
  pure (⟨nm, ng, ps⟩, ts)

def pNode : P Node := fun ts => do
  let (a, ts) ← pStr ts
  let (b, ts) ← pStr ts
  pure (⟨a, b⟩, ts)

def pPool : P (List Node) := fun ts => do
  let (_, ts) ← pTok "P" ts
  counted pNode ts

def pLines : P (List Line) := fun ts => do
  let (_, ts) ← pTok "L" ts
  counted (counted pFunc) ts

def pAnnos : P (List (List Param)) := fun ts => do
  let (_, ts) ← pTok "A" ts
  counted (counted pParam) ts

structure ReEntry where
  pat : Str
  ok : Bool
  tbl : List (Str × Bool)

def pReEntry : P ReEntry := fun ts => do
  let (p, ts) ← pStr ts
  let (ok, ts) ← pBool ts
  let (tbl, ts) ← counted (fun ts => do
    let (s, ts) ← pStr ts
    let (b, ts) ← pBool ts
    pure ((s, b), ts)) ts
  pure (⟨p, ok, tbl⟩, ts)

structure DurEntry where
  val : Str
  ok : Bool
  ns : Int

def pDurEntry : P DurEntry := fun ts => do
  let (v, ts) ← pStr ts
  let (ok, ts) ← pBool ts
  let (n, ts) ← pInt ts
  pure (⟨v, ok, n⟩, ts)

def pOracle : P Oracle := fun ts => do
  let (_, ts) ← pTok "R" ts
  let (res, ts) ← counted pReEntry ts
  let (_, ts) ← pTok "D" ts
  let (ds, ts) ← counted pDurEntry ts
  let re : Str → Option (Str → Bool) := fun p =>
    match res.find? (·.pat = p) with
    | none => none
    | some e => if e.ok then some (fun s => ((e.tbl.find? (·.1 = s)).map (·.2)).getD false) else none
  let dur : Str → Option Int := fun v =>
    match ds.find? (·.val = v) with
    | none => none
    | some e => if e.ok then some e.ns else none
  pure (⟨re, dur⟩, ts)

def pPolicy : P PolicyVal
  | "PS" :: ts => do let (s, ts) ← pStr ts; pure (.str s, ts)
  | "PF" :: ts => do let (f, ts) ← pFunc ts; pure (.func f, ts)
  | "PL" :: ts => do let (fs, ts) ← counted pFunc ts; pure (.funcs fs, ts)
  | "PO" :: ts => some (.other, ts)
  | _ => none

def bytesOf (s : String) : Str := s.toUTF8.toList.map (·.toNat)

def hx (s : Str) : String := "x" ++ bytesToHex s

def membersStr (ms : List (Nat × Int)) : String :=
  if ms.isEmpty then "-" else ",".intercalate (ms.map fun m => s!"{m.1}:{m.2}")

def errStr : Err → String
  | .lenMismatch a b => s!"len {a} {b}"
  | .badInput nm => "input " ++ hx (bytesOf "unsupported filter input type: \"" ++ nm ++ bytesOf "\"")
  | .badKey k nm =>
    "key " ++ hx (bytesOf "unsupported filter key \"" ++ k ++ bytesOf "\" in \"filter: " ++ nm ++ bytesOf "()\"")
  | .badRegex _ => "regex"
  | .annoKey k => "annokey " ++ hx (bytesOf "apply filter annotation: unknown filter annotation: " ++ k)
  | .annoLatency _ => "annolat"

def perrStr : PErr → String
  | .valueType => "type"
  | .count n => s!"count {n}"
  | .notOp nm => "not " ++ hx (bytesOf "policy param does not support not operator: !" ++ nm ++ bytesOf "()")
  | .paramFormat nm => "format " ++ hx (bytesOf "invalid \"" ++ nm ++ bytesOf "\" param format")
  | .atoi _ => "atoi"
  | .unexpected nm => "unexpected " ++ hx (bytesOf "unexpected policy: " ++ nm)

def policyStr : Policy → String
  | .random => "random"
  | .fixed i => s!"fixed:{i}"
  | .minAvg10 => "min_avg10"
  | .minMovingAvg => "min_moving_avg"
  | .minLast => "min"

/-- the latency offsets every alive set of the group holds, member by member (`none` for `fixed`:
no alive sets; `?` = a member without an entry) -/
def offStr (g : Group) : String :=
  match groupOffsetTable g with
  | none => "none"
  | some t =>
    if g.members.isEmpty then "-"
    else ",".intercalate (g.members.map fun m =>
      match mapGet t m.1 with
      | some v => s!"{m.1}:{v}"
      | none => s!"{m.1}:?")

def handleFa (ts : List String) : Option String := do
  let (pool, ts) ← pPool ts
  let (lines, ts) ← pLines ts
  let (annos, ts) ← pAnnos ts
  let (O, ts) ← pOracle ts
  if !ts.isEmpty then none
  match filterAndAnnotate O lines annos pool with
  | .error e => pure ("err " ++ errStr e)
  | .ok ms =>
    -- the declarative meaning, evaluated next to the mirrored code (they are proved equal for
    -- valid definitions; printing both lets the check see the spec on the real inputs too)
    let spec := if lines.isEmpty then pool.zipIdx.map (fun ni => (ni.2, (0 : Int)))
                else specMembers O (lines.zip annos) pool
    pure s!"ok {membersStr ms} spec={membersStr spec}"

def handleGrp (ts : List String) : Option String := do
  let (pv, ts) ← pPolicy ts
  let (pool, ts) ← pPool ts
  let (lines, ts) ← pLines ts
  let (annos, ts) ← pAnnos ts
  let (O, ts) ← pOracle ts
  if !ts.isEmpty then none
  match buildGroup O pv lines annos pool with
  | .error (.policy e) => pure ("perr " ++ perrStr e)
  | .error (.filter e) => pure ("ferr " ++ errStr e)
  | .ok g =>
    let sel :=
      match g.policy with
      | .fixed i =>
        match selectFixed i g.members with
        | .ok m => toString m.1
        | .error .emptyGroup => "empty"
        | .error .outOfRange => "range"
      | _ => "-"
    pure s!"ok pol={policyStr g.policy} members={membersStr g.members} sel={sel} off={offStr g}"

def pGroupDef : P GroupDef := fun ts => do
  let (pv, ts) ← pPolicy ts
  let (lines, ts) ← pLines ts
  let (annos, ts) ← pAnnos ts
  pure (⟨pv, lines, annos⟩, ts)

def groupStr (g : Group) : String :=
  let sel :=
    match g.policy with
    | .fixed i =>
      match selectFixed i g.members with
      | .ok m => toString m.1
      | .error .emptyGroup => "empty"
      | .error .outOfRange => "range"
    | _ => "-"
  s!"pol={policyStr g.policy} members={membersStr g.members} sel={sel} off={offStr g}"

/-- `grps POOL n (POLICY LINES ANNOS){n} RETAB DURTAB`: the whole group loop over one pool. -/
def handleGrps (ts : List String) : Option String := do
  let (pool, ts) ← pPool ts
  let (defs, ts) ← counted pGroupDef ts
  let (O, ts) ← pOracle ts
  if !ts.isEmpty then none
  match buildGroups O pool defs with
  | .error (.policy e) => pure ("perr " ++ perrStr e)
  | .error (.filter e) => pure ("ferr " ++ errStr e)
  | .ok gs => pure ("ok " ++ " | ".intercalate (gs.map groupStr))

def pNamedDef : P NamedDef := fun ts => do
  let (nm, ts) ← pStr ts
  let (d, ts) ← pGroupDef ts
  pure (⟨nm, d⟩, ts)

/-- `cfg POOL n (NAME POLICY LINES ANNOS){n} RETAB DURTAB`: the group loop AND the outbound table
(count limit, duplicate names, name → id). -/
def handleCfg (ts : List String) : Option String := do
  let (pool, ts) ← pPool ts
  let (defs, ts) ← counted pNamedDef ts
  let (O, ts) ← pOracle ts
  if !ts.isEmpty then none
  match buildConfig O pool defs with
  | .error (.group (.policy e)) => pure ("perr " ++ perrStr e)
  | .error (.group (.filter e)) => pure ("ferr " ++ errStr e)
  | .error (.tooMany n) => pure s!"gerr toomany {n}"
  | .error (.dupName nm) => pure ("gerr dup " ++ hx nm)
  | .ok (gs, m) =>
    let ids := ",".intercalate (m.map fun e => s!"{hx e.1}:{e.2}")
    pure ("ok " ++ " | ".intercalate (gs.map groupStr ++ ["ids=" ++ ids]))

/-- `dur x<hex>`: the mirrored `time.ParseDuration`. -/
def handleDur (ts : List String) : Option String := do
  let (s, ts) ← pStr ts
  if !ts.isEmpty then none
  match parseDuration s with
  | some d => pure s!"ok {d}"
  | none => pure "err"

def handle (line : String) : String :=
  match words line with
  | "fa" :: ts => (handleFa ts).getD "bad-op"
  | "grp" :: ts => (handleGrp ts).getD "bad-op"
  | "grps" :: ts => (handleGrps ts).getD "bad-op"
  | "cfg" :: ts => (handleCfg ts).getD "bad-op"
  | "dur" :: ts => (handleDur ts).getD "bad-op"
  | _ => "bad-op"

def main : IO Unit := lineLoop handle
