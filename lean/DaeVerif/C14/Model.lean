/-!
# C14 — group filters and annotations: executable model

Mirrors, function by function,

* `component/outbound/filter.go`: `validateFilter` (added by the `fix:` commit that made validation
  eager), `filterHit`, `FilterAndAnnotate`;
* `component/outbound/dialer/annotation.go`: `NewAnnotation`;
* `component/outbound/dialer_selection_policy.go`: `NewDialerSelectionPolicyFromGroupParam`
  (with `config.ParseFunctionListOrString` and `strconv.Atoi`);
* the pool+group region of `control.NewControlPlane` in `control/control_plane.go` (extracted verbatim by the check) (policy first, then filter, then the group) and the
  `fixed(i)` branch of `DialerGroup._select`.

Strings are byte lists (`Str`), exactly Go's `string` (arbitrary bytes, compared bytewise).
Two library functions are oracles of the model (they are not dae code):
`re` = `regexp2.Compile(p, 0)` + `MatchString`, `dur` = `time.ParseDuration`.

Core-only (no Mathlib) so that the line-protocol driver links as a `lean_exe`.
-/
namespace DaeVerif.C14

/-- A Go `string`: a list of bytes. -/
abbrev Str := List Nat

def sName : Str := [110, 97, 109, 101]                                   -- "name"
def sSubtag : Str := [115, 117, 98, 116, 97, 103]                        -- "subtag"
def sRegex : Str := [114, 101, 103, 101, 120]                            -- "regex"
def sKeyword : Str := [107, 101, 121, 119, 111, 114, 100]                -- "keyword"
def sAddLatency : Str := [97, 100, 100, 95, 108, 97, 116, 101, 110, 99, 121] -- "add_latency"
def sRandom : Str := [114, 97, 110, 100, 111, 109]                       -- "random"
def sFixed : Str := [102, 105, 120, 101, 100]                            -- "fixed"
def sMinAvg10 : Str := [109, 105, 110, 95, 97, 118, 103, 49, 48]         -- "min_avg10"
def sMinMovingAvg : Str :=
  [109, 105, 110, 95, 109, 111, 118, 105, 110, 103, 95, 97, 118, 103]   -- "min_moving_avg"
def sMin : Str := [109, 105, 110]                                        -- "min"

/-- `config_parser.Param` (key may be empty). -/
structure Param where
  key : Str
  val : Str
deriving DecidableEq, Repr, Inhabited

/-- `config_parser.Function`: `!name(k: v, …)`. -/
structure Func where
  name : Str
  neg : Bool
  params : List Param
deriving DecidableEq, Repr, Inhabited

/-- One `filter:` line = an `&&` conjunction of functions. -/
abbrev Line := List Func

/-- A node of the pool: what the filter code reads of a dialer (`Property().Name`,
`nodeToTagMap[d]`). -/
structure Node where
  name : Str
  tag : Str
deriving DecidableEq, Repr, Inhabited

/-- The two library oracles. `re p = none` ⇔ `regexp2.Compile(p, 0)` fails; otherwise
`re p = some m` with `m s` = `MatchString(s)`. `dur v = none` ⇔ `time.ParseDuration(v)` fails;
otherwise the duration in nanoseconds. -/
structure Oracle where
  re : Str → Option (Str → Bool)
  dur : Str → Option Int

/-- The configuration errors of the filter code (one constructor per `fmt.Errorf` site). -/
inductive Err where
  | lenMismatch (filters annos : Nat)
  | badInput (name : Str)
  | badKey (key name : Str)
  | badRegex (pat : Str)
  | annoKey (key : Str)
  | annoLatency (val : Str)
deriving DecidableEq, Repr

/-- `strings.Contains(s, k)`. -/
def containsSub : Str → Str → Bool
  | [], k => k.isPrefixOf []
  | c :: s, k => k.isPrefixOf (c :: s) || containsSub s k

/-! ## validateFilter (eager validation, before any node is looked at) -/

/-- The `for _, param := range filter.Params` loop of `validateFilter`. `regexKey` is
`FilterKey_Name_Regex` resp. `FilterInput_SubscriptionTag_Regex` (both are `"regex"`). -/
def validateParams (O : Oracle) (fname regexKey : Str) : List Param → Option Err
  | [] => none
  | p :: ps =>
    if p.key = regexKey then
      match O.re p.val with
      | none => some (.badRegex p.val)
      | some _ => validateParams O fname regexKey ps
    else if p.key = [] then validateParams O fname regexKey ps
    else if p.key = sKeyword ∧ fname = sName then validateParams O fname regexKey ps
    else some (.badKey p.key fname)

/-- `validateFilter`: one filter line. -/
def validateLine (O : Oracle) : Line → Option Err
  | [] => none
  | f :: fs =>
    if f.name = sName ∨ f.name = sSubtag then
      match validateParams O f.name sRegex f.params with
      | some e => some e
      | none => validateLine O fs
    else some (.badInput f.name)

/-! ## NewAnnotation -/

/-- The loop of `NewAnnotation`; `acc` is `anno.AddLatency` so far ("only the first setting is
valid": a later value is taken only while the accumulated one is still 0). -/
def newAnnotationAux (O : Oracle) : List Param → Int → Except Err Int
  | [], acc => .ok acc
  | p :: ps, acc =>
    if p.key = sAddLatency then
      match O.dur p.val with
      | none => .error (.annoLatency p.val)
      | some d => newAnnotationAux O ps (if acc = 0 then d else acc)
    else .error (.annoKey p.key)

def newAnnotation (O : Oracle) (a : List Param) : Except Err Int := newAnnotationAux O a 0

/-- The validation loop at the head of `FilterAndAnnotate`: line j, then annotation j. -/
def validateDef (O : Oracle) : List (Line × List Param) → Option Err
  | [] => none
  | (l, a) :: rest =>
    match validateLine O l with
    | some e => some e
    | none =>
      match newAnnotation O a with
      | .error e => some e
      | .ok _ => validateDef O rest

/-! ## filterHit -/

/-- One parameter of a `name(...)` function (the `switch param.Key`). -/
def nameParam (O : Oracle) (n : Node) (fname : Str) (p : Param) : Except Err Bool :=
  if p.key = sRegex then
    match O.re p.val with
    | none => .error (.badRegex p.val)
    | some m => .ok (m n.name)
  else if p.key = sKeyword then .ok (containsSub n.name p.val)
  else if p.key = [] then .ok (n.name == p.val)
  else .error (.badKey p.key fname)

/-- One parameter of a `subtag(...)` function. -/
def tagParam (O : Oracle) (n : Node) (fname : Str) (p : Param) : Except Err Bool :=
  if p.key = sRegex then
    match O.re p.val with
    | none => .error (.badRegex p.val)
    | some m => .ok (m n.tag)
  else if p.key = [] then .ok (n.tag == p.val)
  else .error (.badKey p.key fname)

/-- The `loop:` over the parameters: OR, leaving at the first hit (or error). -/
def orParams (f : Param → Except Err Bool) : List Param → Except Err Bool
  | [] => .ok false
  | p :: ps =>
    match f p with
    | .error e => .error e
    | .ok true => .ok true
    | .ok false => orParams f ps

/-- `subFilterHit` of one function. -/
def funcHit (O : Oracle) (n : Node) (f : Func) : Except Err Bool :=
  if f.name = sName then orParams (nameParam O n f.name) f.params
  else if f.name = sSubtag then orParams (tagParam O n f.name) f.params
  else .error (.badInput f.name)

/-- `filterHit`: AND over the functions, leaving at the first `subFilterHit == filter.Not`. -/
def filterHit (O : Oracle) (n : Node) : Line → Except Err Bool
  | [] => .ok true
  | f :: fs =>
    match funcHit O n f with
    | .error e => .error e
    | .ok h => if h = f.neg then .ok false else filterHit O n fs

/-! ## FilterAndAnnotate -/

/-- The inner `for j, f := range filters` loop for one dialer: first hitting line wins and supplies
the annotation. -/
def firstHit (O : Oracle) (n : Node) : List (Line × List Param) → Except Err (Option Int)
  | [] => .ok none
  | (l, a) :: rest =>
    match filterHit O n l with
    | .error e => .error e
    | .ok true =>
      match newAnnotation O a with
      | .error e => .error e
      | .ok v => .ok (some v)
    | .ok false => firstHit O n rest

/-- The `nextDialerLoop`. The pool is enumerated: `(node, index in the pool)`. -/
def selectNodes (O : Oracle) (lines : List (Line × List Param)) :
    List (Node × Nat) → Except Err (List (Nat × Int))
  | [] => .ok []
  | (n, i) :: ns =>
    match firstHit O n lines with
    | .error e => .error e
    | .ok none => selectNodes O lines ns
    | .ok (some v) =>
      match selectNodes O lines ns with
      | .error e => .error e
      | .ok r => .ok ((i, v) :: r)

/-- `DialerSet.FilterAndAnnotate`. The result lists the members as (pool index, add-latency in
nanoseconds), in the order in which the code appends them. -/
def filterAndAnnotate (O : Oracle) (filters : List Line) (annos : List (List Param))
    (pool : List Node) : Except Err (List (Nat × Int)) :=
  if filters.length ≠ annos.length then .error (.lenMismatch filters.length annos.length)
  else
    match validateDef O (filters.zip annos) with
    | some e => .error e
    | none =>
      if filters.isEmpty then .ok (pool.zipIdx.map fun ni => (ni.2, 0))
      else selectNodes O (filters.zip annos) pool.zipIdx

/-! ## The meaning of a filter definition (the specification side) -/

/-- A single value against a node: exact / keyword / regex on the function's input. -/
def paramSat (O : Oracle) (n : Node) (fname : Str) (p : Param) : Bool :=
  let subject := if fname = sName then n.name else n.tag
  if p.key = sRegex then
    match O.re p.val with
    | some m => m subject
    | none => false
  else if p.key = sKeyword then containsSub subject p.val
  else subject == p.val

/-- A possibly negated condition: OR over its values, xor `Not`. -/
def funcHolds (O : Oracle) (n : Node) (f : Func) : Bool := (f.params.any (paramSat O n f.name)) != f.neg

/-- A line: AND over its conditions. -/
def lineHolds (O : Oracle) (n : Node) (l : Line) : Bool := l.all (funcHolds O n)

/-- The latency offset an annotation denotes: the first non-zero `add_latency`, else 0. -/
def annoValue (O : Oracle) (a : List Param) : Int :=
  ((a.filterMap fun p => O.dur p.val).find? (· ≠ 0)).getD 0

/-- The group a definition denotes: every node (in pool order) that satisfies some line, with the
annotation of the first line it satisfies. -/
def specMembers (O : Oracle) (lines : List (Line × List Param)) (pool : List Node) :
    List (Nat × Int) :=
  pool.zipIdx.filterMap fun ni =>
    (lines.find? fun la => lineHolds O ni.1 la.1).map fun la => (ni.2, annoValue O la.2)

/-! ## Validity of a definition (what the documentation allows) -/

/-- A value is well formed for input `fname`: plain (exact), `keyword:` (names only) or a
`regex:` that compiles. -/
def ParamValid (O : Oracle) (fname : Str) (p : Param) : Prop :=
  (p.key = sRegex ∧ (O.re p.val).isSome = true) ∨ p.key = [] ∨ (p.key = sKeyword ∧ fname = sName)

/-- A condition is well formed: input `name` or `subtag`, all values well formed. -/
def FuncValid (O : Oracle) (f : Func) : Prop :=
  (f.name = sName ∨ f.name = sSubtag) ∧ ∀ p ∈ f.params, ParamValid O f.name p

def LineValid (O : Oracle) (l : Line) : Prop := ∀ f ∈ l, FuncValid O f

/-- An annotation is well formed: only `add_latency`, each a parsable duration. -/
def AnnoValid (O : Oracle) (a : List Param) : Prop :=
  ∀ p ∈ a, p.key = sAddLatency ∧ (O.dur p.val).isSome = true

/-- The whole definition (lines paired with their annotations). -/
def DefValid (O : Oracle) (lines : List (Line × List Param)) : Prop :=
  ∀ la ∈ lines, LineValid O la.1 ∧ AnnoValid O la.2

/-- What an error value claims about the definition: the offending item really is in it. -/
def ErrWitness (O : Oracle) (filters : List Line) (annos : List (List Param)) : Err → Prop
  | .lenMismatch a b => a = filters.length ∧ b = annos.length ∧ a ≠ b
  | .badInput nm => ∃ l ∈ filters, ∃ f ∈ l, f.name = nm ∧ nm ≠ sName ∧ nm ≠ sSubtag
  | .badKey k nm => ∃ l ∈ filters, ∃ f ∈ l, ∃ p ∈ f.params, f.name = nm ∧ p.key = k ∧ ¬ ParamValid O nm p
  | .badRegex pat => ∃ l ∈ filters, ∃ f ∈ l, ∃ p ∈ f.params, p.key = sRegex ∧ p.val = pat ∧ O.re pat = none
  | .annoKey k => ∃ a ∈ annos, ∃ p ∈ a, p.key = k ∧ k ≠ sAddLatency
  | .annoLatency v => ∃ a ∈ annos, ∃ p ∈ a, p.key = sAddLatency ∧ p.val = v ∧ O.dur v = none

/-! ## Policy -/

/-- The dynamic type of `config.Group.Policy` (`FunctionListOrString = any`). -/
inductive PolicyVal where
  | str (s : Str)
  | func (f : Func)
  | funcs (fs : List Func)
  | other
deriving Repr

inductive Policy where
  | random
  | fixed (i : Int)
  | minAvg10
  | minMovingAvg
  | minLast
deriving DecidableEq, Repr

inductive PErr where
  | valueType
  | count (n : Nat)
  | notOp (name : Str)
  | paramFormat (name : Str)
  | atoi (name : Str)
  | unexpected (name : Str)
deriving DecidableEq, Repr

/-- `config.ParseFunctionListOrString`. -/
def toFuncList : PolicyVal → Option (List Func)
  | .str s => some [⟨s, false, []⟩]
  | .func f => some [f]
  | .funcs fs => some fs
  | .other => none

/-- Value of a non-empty all-digits byte string. -/
def digitsVal : List Nat → Nat → Option Nat
  | [], acc => some acc
  | c :: cs, acc => if 48 ≤ c ∧ c ≤ 57 then digitsVal cs (acc * 10 + (c - 48)) else none

/-- `strconv.Atoi` on a 64-bit platform: `[+-]?[0-9]+`, value within int64. -/
def atoi (s : Str) : Option Int :=
  let (neg, body) :=
    match s with
    | 45 :: r => (true, r)
    | 43 :: r => (false, r)
    | _ => (false, s)
  if body.isEmpty then none
  else
    match digitsVal body 0 with
    | none => none
    | some v =>
      if neg then (if v ≤ 2 ^ 63 then some (-(v : Int)) else none)
      else (if v < 2 ^ 63 then some (v : Int) else none)

/-- `NewDialerSelectionPolicyFromGroupParam`. -/
def parsePolicy (v : PolicyVal) : Except PErr Policy :=
  match toFuncList v with
  | none => .error .valueType
  | some [f] =>
    if f.name = sRandom then .ok .random
    else if f.name = sMinAvg10 then .ok .minAvg10
    else if f.name = sMin then .ok .minLast
    else if f.name = sMinMovingAvg then .ok .minMovingAvg
    else if f.name = sFixed then
      if f.neg then .error (.notOp f.name)
      else
        match f.params with
        | [p] =>
          if p.key = [] then
            match atoi p.val with
            | some i => .ok (.fixed i)
            | none => .error (.atoi f.name)
          else .error (.paramFormat f.name)
        | _ => .error (.paramFormat f.name)
    else .error (.unexpected f.name)
  | some fs => .error (.count fs.length)

/-! ## What the documentation allows as `policy:` (specification side) -/

/-- The four parameterless policies and what they denote. -/
def PlainPolicy (name : Str) (p : Policy) : Prop :=
  (name = sRandom ∧ p = .random) ∨ (name = sMinAvg10 ∧ p = .minAvg10) ∨
  (name = sMin ∧ p = .minLast) ∨ (name = sMinMovingAvg ∧ p = .minMovingAvg)

/-- A documented policy value: exactly one function, not negated; `random` / `min` / `min_avg10` /
`min_moving_avg` without arguments, or `fixed(<decimal int64>)` with exactly one key-less argument. -/
def PolicyValid (v : PolicyVal) (p : Policy) : Prop :=
  ∃ f, toFuncList v = some [f] ∧ f.neg = false ∧
    ((f.params = [] ∧ PlainPolicy f.name p) ∨
     (f.name = sFixed ∧ ∃ val i, f.params = [⟨[], val⟩] ∧ atoi val = some i ∧ p = .fixed i))

/-- The undocumented forms the code accepts as well: a parameterless policy written with `!`
and/or with arguments (`!min(7)`, `random(k: v)`): the decoration is ignored. -/
def LenientPolicy (v : PolicyVal) (p : Policy) : Prop :=
  ∃ f, toFuncList v = some [f] ∧ (f.neg = true ∨ f.params ≠ []) ∧ PlainPolicy f.name p

/-! ## Group construction (control_plane.go) and the fixed(i) selection -/

inductive GErr where
  | policy (e : PErr)
  | filter (e : Err)
deriving DecidableEq, Repr

structure Group where
  policy : Policy
  members : List (Nat × Int)
deriving DecidableEq, Repr

/-- The loop body of `NewControlPlane` over `groups`: the policy is parsed first, then the nodes
are filtered; the group receives the dialers and their annotations as returned. -/
def buildGroup (O : Oracle) (pv : PolicyVal) (filters : List Line) (annos : List (List Param))
    (pool : List Node) : Except GErr Group :=
  match parsePolicy pv with
  | .error e => .error (.policy e)
  | .ok p =>
    match filterAndAnnotate O filters annos pool with
    | .error e => .error (.filter e)
    | .ok ms => .ok ⟨p, ms⟩

/-- One group of the configuration. -/
structure GroupDef where
  pv : PolicyVal
  filters : List Line
  annos : List (List Param)

/-- The whole `for _, group := range groups` loop: groups are built in configuration order over the
SAME pool; the first failing group aborts. (The pool is a value here: that the real loop does not
modify the shared node pool between groups is enforced by the tie — stream `c14ctl`, op `grps`.) -/
def buildGroups (O : Oracle) (pool : List Node) : List GroupDef → Except GErr (List Group)
  | [] => .ok []
  | d :: ds =>
    match buildGroup O d.pv d.filters d.annos pool with
    | .error e => .error e
    | .ok g =>
      match buildGroups O pool ds with
      | .error e => .error e
      | .ok gs => .ok (g :: gs)

inductive SelErr where
  | emptyGroup
  | outOfRange
deriving DecidableEq, Repr

/-- `DialerGroup._select` for `fixed(i)`: the i-th member, counted from 0. -/
def selectFixed {α : Type} (i : Int) (members : List α) : Except SelErr α :=
  match members with
  | [] => .error .emptyGroup
  | _ =>
    if i < 0 ∨ i ≥ members.length then .error .outOfRange
    else
      match members[i.toNat]? with
      | some m => .ok m
      | none => .error .outOfRange

/-! ## `time.ParseDuration` (Go 1.26 `time/format.go`), mirrored

Used as the concrete duration oracle (`goDur`); the theorems above stay oracle-generic. The only part
that is not integer arithmetic is the fraction: Go computes `uint64(float64(f) * (float64(unit) /
scale))` in IEEE double arithmetic; the model uses Lean's `Float` (the same IEEE doubles, opaque to
the kernel), so theorems speak about fraction-free inputs and the tie carries the fractions. -/

def isDigit (c : Nat) : Bool := 48 ≤ c && c ≤ 57

/-- `leadingInt`: `none` = overflow error. -/
def leadingInt : Str → Nat → Option (Nat × Str)
  | [], x => some (x, [])
  | c :: cs, x =>
    if isDigit c then
      if x > 2 ^ 63 / 10 then none
      else
        let x' := x * 10 + (c - 48)
        if x' > 2 ^ 63 then none else leadingInt cs x'
    else some (x, c :: cs)

/-- `leadingFraction`: never fails, stops accumulating precision on overflow. -/
def leadingFraction : Str → Nat → Float → Bool → Nat × Float × Str
  | [], x, scale, _ => (x, scale, [])
  | c :: cs, x, scale, overflow =>
    if isDigit c then
      if overflow then leadingFraction cs x scale true
      else if x > (2 ^ 63 - 1) / 10 then leadingFraction cs x scale true
      else
        let y := x * 10 + (c - 48)
        if y > 2 ^ 63 then leadingFraction cs x scale true
        else leadingFraction cs y (scale * 10) false
    else (x, scale, c :: cs)

/-- the unit: everything up to the next `.` or digit -/
def spanUnit : Str → Str × Str
  | [] => ([], [])
  | c :: cs =>
    if c = 46 || isDigit c then ([], c :: cs)
    else let (u, r) := spanUnit cs; (c :: u, r)

/-- `unitMap` -/
def unitOf (u : Str) : Option Nat :=
  if u = [110, 115] then some 1                       -- ns
  else if u = [117, 115] then some 1000               -- us
  else if u = [194, 181, 115] then some 1000          -- µs (U+00B5)
  else if u = [206, 188, 115] then some 1000          -- μs (U+03BC)
  else if u = [109, 115] then some 1000000            -- ms
  else if u = [115] then some 1000000000              -- s
  else if u = [109] then some 60000000000             -- m
  else if u = [104] then some 3600000000000           -- h
  else none

/-- the fraction's contribution `uint64(float64(f) * (float64(unit) / scale))` -/
def fracPart (f unit : Nat) (scale : Float) : Nat :=
  ((UInt64.ofNat f).toFloat * ((UInt64.ofNat unit).toFloat / scale)).toUInt64.toNat

/-- the `for s != ""` loop; `d` = nanoseconds so far. `fuel` bounds the number of terms (each term
consumes at least its unit). -/
def durTerms : Nat → Str → Nat → Option Nat
  | 0, _, _ => none
  | _ + 1, [], d => some d
  | fuel + 1, c :: cs, d =>
    if !(c = 46 || isDigit c) then none
    else
      match leadingInt (c :: cs) 0 with
      | none => none
      | some (v, s1) =>
        let pre := s1.length != (c :: cs).length
        let (f, scale, s2, post) :=
          match s1 with
          | 46 :: r =>
            let (f, scale, s2) := leadingFraction r 0 1 false
            (f, scale, s2, s2.length != r.length)
          | _ => (0, (1 : Float), s1, false)
        if !pre && !post then none
        else
          let (u, s3) := spanUnit s2
          if u.isEmpty then none
          else
            match unitOf u with
            | none => none
            | some unit =>
              if v > 2 ^ 63 / unit then none
              else
                let v1 := v * unit
                let v2 := if f > 0 then v1 + fracPart f unit scale else v1
                if f > 0 && v2 > 2 ^ 63 then none
                else
                  let d' := d + v2
                  if d' > 2 ^ 63 then none else durTerms fuel s3 d'

/-- `time.ParseDuration`: nanoseconds, `none` = error. -/
def parseDuration (s : Str) : Option Int :=
  let (neg, body) :=
    match s with
    | 45 :: r => (true, r)
    | 43 :: r => (false, r)
    | _ => (false, s)
  if body = [48] then some 0
  else if body.isEmpty then none
  else
    match durTerms (body.length + 1) body 0 with
    | none => none
    | some d =>
      if neg then some (-(d : Int))
      else if d > 2 ^ 63 - 1 then none else some (d : Int)

/-- The concrete world of the Go build: any regex engine, the mirrored `time.ParseDuration`. -/
def goOracle (re : Str → Option (Str → Bool)) : Oracle := ⟨re, parseDuration⟩

/-! ## `strconv.Atoi`, declaratively -/

/-- value of a list of decimal digits (most significant first) -/
def decVal (ds : List Nat) : Nat := ds.foldl (fun a d => a * 10 + d) 0

/-- `s` is the decimal notation of the int64 `i`: optional sign, at least one digit `0..9`,
nothing else, value within int64. -/
def DecimalInt64 (s : Str) (i : Int) : Prop :=
  ∃ (sign : Str) (ds : List Nat), (sign = [] ∨ sign = [43] ∨ sign = [45]) ∧ ds ≠ [] ∧
    (∀ d ∈ ds, d < 10) ∧ s = sign ++ ds.map (· + 48) ∧
    i = (if sign = [45] then -(decVal ds : Int) else (decVal ds : Int)) ∧
    -(2 ^ 63 : Int) ≤ i ∧ i < 2 ^ 63

/-! ## The effective latency offsets (dialer_group.go `buildSelectionState` → `NewAliveDialerSet`)

`NewDialerGroup` hands `Dialers` and `dialersAnnotations` to one `AliveDialerSet` per standard
network type — unless the policy is `fixed`, which keeps no alive state. Each set copies the
annotations into its own Go map `dialerToLatencyOffset` (`m[dialers[i]] = annotations[i].AddLatency`,
in member order); that map, not the annotation slice, is what the latency policies add to a
measured latency. A Go map is modelled as an association list with at most one entry per key. -/

/-- `m[k] = v` -/
def mapSet (m : List (Nat × Int)) (k : Nat) (v : Int) : List (Nat × Int) :=
  (k, v) :: m.filter (fun e => e.1 != k)

/-- `m[k]` (`none` = absent) -/
def mapGet (m : List (Nat × Int)) (k : Nat) : Option Int := (m.find? (fun e => e.1 == k)).map (·.2)

/-- the loop `for i := range dialers { dialerToLatencyOffset[dialers[i]] = dialersAnnotations[i].AddLatency }`
of `NewAliveDialerSet`; a member is identified by its pool index (one `*Dialer` per pool entry). -/
def offsetTable (members : List (Nat × Int)) : List (Nat × Int) :=
  members.foldl (fun m e => mapSet m e.1 e.2) []

/-- `policyNeedsAliveState` -/
def needsAliveState : Policy → Bool
  | .fixed _ => false
  | _ => true

/-- What every `AliveDialerSet` of the group holds as latency offsets; `none` for `fixed` (no alive
sets are built). -/
def groupOffsetTable (g : Group) : Option (List (Nat × Int)) :=
  if needsAliveState g.policy then some (offsetTable g.members) else none

/-! ## Group names → outbound ids (control_plane.go, after the group loop)

`outbounds` = `direct`, `block`, then the groups in configuration order; more than
`OutboundUserDefinedMax` outbounds or a name seen twice is a configuration error; otherwise
`outboundName2Id[name] = uint8(i)` is what routing rules resolve a group name with. -/

def sDirect : Str := [100, 105, 114, 101, 99, 116]   -- "direct"
def sBlock : Str := [98, 108, 111, 99, 107]          -- "block"

/-- `consts.OutboundUserDefinedMax` = `OutboundMustRules - 1` = 0xFB -/
def outboundUserDefinedMax : Nat := 251

/-- a group of the configuration with its name -/
structure NamedDef where
  name : Str
  d : GroupDef

inductive CErr where
  | group (e : GErr)
  | tooMany (n : Nat)
  | dupName (name : Str)
deriving DecidableEq, Repr

/-- `for i, o := range outbounds { if _, exist := m[o.Name]; exist { error }; m[o.Name] = uint8(i) }` -/
def nameIds : List Str → Nat → List (Str × Nat) → Except CErr (List (Str × Nat))
  | [], _, m => .ok m
  | nm :: rest, i, m =>
    if m.any (fun e => e.1 = nm) then .error (.dupName nm)
    else nameIds rest (i + 1) (m ++ [(nm, i % 256)])

/-- `outboundName2Id[name]` -/
def idOf (m : List (Str × Nat)) (name : Str) : Option Nat := (m.find? (fun e => e.1 = name)).map (·.2)

/-- The group loop followed by the outbound table: the groups (as `buildGroups`), then the count
limit, then the name → id map. -/
def buildConfig (O : Oracle) (pool : List Node) (nds : List NamedDef) :
    Except CErr (List Group × List (Str × Nat)) :=
  match buildGroups O pool (nds.map (·.d)) with
  | .error e => .error (.group e)
  | .ok gs =>
    if 2 + gs.length > outboundUserDefinedMax then .error (.tooMany (2 + gs.length))
    else
      match nameIds (sDirect :: sBlock :: nds.map (·.name)) 0 [] with
      | .error e => .error e
      | .ok m => .ok (gs, m)

end DaeVerif.C14
