import DaeVerif.C14.Proofs
/-!
# C14 — property theorems

"A group contains exactly the nodes its filters select, each with its annotation."

Everything is stated about the functions the driver `c14drv` executes (`filterAndAnnotate`,
`parsePolicy`, `buildGroup`, `selectFixed` of `Model.lean`), for every oracle `O` (= every
behaviour of regexp2 and `time.ParseDuration`), every pool and every definition.
Helper lemmas are in `Proofs.lean`; every theorem is followed by a non-vacuity `example`.
-/
namespace DaeVerif.C14.Props
open DaeVerif.C14

/-! ## Membership -/

/-- **Headline.** For a valid definition with at least one filter line the code returns exactly
`specMembers`: the nodes, in pool order, that satisfy some line, each with the annotation of the
first line it satisfies. -/
theorem members_exact (O : Oracle) (filters : List Line) (annos : List (List Param))
    (pool : List Node) (hlen : filters.length = annos.length) (hne : filters ≠ [])
    (hv : DefValid O (filters.zip annos)) :
    filterAndAnnotate O filters annos pool = .ok (specMembers O (filters.zip annos) pool) := by
  unfold filterAndAnnotate
  rw [if_neg (by simpa using hlen), (validateDef_none_iff O _).mpr hv]
  have : filters.isEmpty = false := by cases filters <;> simp_all
  simp only [this, Bool.false_eq_true, if_false]
  rw [selectNodes_of_valid O _ hv, specMembers_eq]

-- the hypotheses are satisfiable and the result is a proper, annotated subset (node 0 "hk-1" has
-- tag "sub" and is excluded by `!subtag(sub)`, node 3 "hk-1" without tag gets 5 ms, nodes 1, 2
-- fall to the second line)
example : Demo.filters.length = Demo.annos.length ∧ Demo.filters ≠ [] ∧
    DefValid Demo.O (Demo.filters.zip Demo.annos) ∧
    filterAndAnnotate Demo.O Demo.filters Demo.annos Demo.pool = .ok [(1, 0), (2, 0), (3, 5000000)] :=
  ⟨by decide, by decide, (validateDef_none_iff _ _).mp (by decide), by decide⟩

/-- Whatever the definition: if the code accepts it, the definition is valid and the result is its
meaning (all nodes when there is no filter line). -/
theorem accepted_result_is_meaning (O : Oracle) (filters : List Line) (annos : List (List Param))
    (pool : List Node) (r : List (Nat × Int)) (h : filterAndAnnotate O filters annos pool = .ok r) :
    filters.length = annos.length ∧ DefValid O (filters.zip annos) ∧
      r = (if filters = [] then pool.zipIdx.map (fun ni => (ni.2, 0))
           else specMembers O (filters.zip annos) pool) := by
  unfold filterAndAnnotate at h
  by_cases hlen : filters.length = annos.length
  · rw [if_neg (by simpa using hlen)] at h
    cases hvd : validateDef O (filters.zip annos) with
    | some e => rw [hvd] at h; cases h
    | none =>
      have hv := (validateDef_none_iff O _).mp hvd
      rw [hvd] at h
      simp only at h
      refine ⟨hlen, hv, ?_⟩
      by_cases hf : filters = []
      · subst hf
        simp only [List.isEmpty_nil, if_true, Except.ok.injEq] at h
        simp [← h]
      · have : filters.isEmpty = false := by cases filters <;> simp_all
        rw [this] at h
        simp only [Bool.false_eq_true, if_false] at h
        rw [selectNodes_of_valid O _ hv, ← specMembers_eq] at h
        simp only [Except.ok.injEq] at h
        rw [if_neg hf, h]
  · rw [if_pos (by simpa using hlen)] at h; cases h

/-- A node is a member iff it satisfies at least one filter line. -/
theorem member_iff (O : Oracle) (filters : List Line) (annos : List (List Param))
    (pool : List Node) (r : List (Nat × Int)) (hne : filters ≠ [])
    (h : filterAndAnnotate O filters annos pool = .ok r) (i : Nat) :
    (∃ v, (i, v) ∈ r) ↔ ∃ n, pool[i]? = some n ∧ ∃ l ∈ filters, lineHolds O n l = true := by
  obtain ⟨hlen, _, hr⟩ := accepted_result_is_meaning O filters annos pool r h
  rw [if_neg hne] at hr
  subst hr
  rw [specMembers_eq]
  constructor
  · rintro ⟨v, hm⟩
    obtain ⟨⟨n, i'⟩, hni, hs⟩ := List.mem_filterMap.mp hm
    unfold specOne at hs
    cases hf : (filters.zip annos).find? (fun la => lineHolds O n la.1) with
    | none => rw [hf] at hs; cases hs
    | some la =>
      rw [hf] at hs
      simp only [Option.map_some, Option.some.injEq, Prod.mk.injEq] at hs
      obtain ⟨rfl, _⟩ := hs
      refine ⟨n, List.mem_zipIdx_iff_getElem?.mp hni, la.1, ?_, ?_⟩
      · exact (List.of_mem_zip (List.mem_of_find?_eq_some hf : (la.1, la.2) ∈ _)).1
      · exact List.find?_some (p := fun (la : Line × List Param) => lineHolds O n la.1) hf
  · rintro ⟨n, hn, l, hl, hh⟩
    obtain ⟨a, ha⟩ := exists_zip_of_mem_left filters annos hlen l hl
    have hsome : ((filters.zip annos).find? (fun la => lineHolds O n la.1)).isSome = true :=
      List.find?_isSome.mpr ⟨(l, a), ha, hh⟩
    obtain ⟨la, hla⟩ := Option.isSome_iff_exists.mp hsome
    refine ⟨annoValue O la.2, List.mem_filterMap.mpr ⟨(n, i), ?_, ?_⟩⟩
    · exact List.mem_zipIdx_iff_getElem?.mpr hn
    · unfold specOne; rw [hla]; rfl

example : ∃ r, filterAndAnnotate Demo.O Demo.filters Demo.annos Demo.pool = .ok r ∧
    (∃ v, (3, v) ∈ r) ∧ ¬ (∃ v, (0, v) ∈ r) :=
  ⟨[(1, 0), (2, 0), (3, 5000000)], by decide, ⟨5000000, by decide⟩, fun ⟨v, hv⟩ => by
    simp only [List.mem_cons, Prod.mk.injEq, List.not_mem_nil, or_false] at hv
    omega⟩

/-- Each member appears once, in pool order: the member indices are a sublist of
`0, 1, …, |pool|-1` (hence strictly increasing). Holds for every accepted definition. -/
theorem members_once_in_pool_order (O : Oracle) (filters : List Line) (annos : List (List Param))
    (pool : List Node) (r : List (Nat × Int))
    (h : filterAndAnnotate O filters annos pool = .ok r) :
    (r.map Prod.fst).Sublist (List.range pool.length) ∧
      (r.map Prod.fst).Pairwise (· < ·) := by
  have key : (r.map Prod.fst).Sublist (List.range pool.length) := by
    obtain ⟨_, _, hr⟩ := accepted_result_is_meaning O filters annos pool r h
    have hz : pool.zipIdx.map Prod.snd = List.range pool.length := by
      rw [List.zipIdx_map_snd, List.range_eq_range']
    by_cases hf : filters = []
    · rw [if_pos hf] at hr
      subst hr
      rw [List.map_map, ← hz]
      exact List.Sublist.refl _
    · rw [if_neg hf] at hr
      subst hr
      rw [specMembers_eq, ← hz]
      have e : specOne O (filters.zip annos) = fun ni : Node × Nat =>
          (((filters.zip annos).find? fun la => lineHolds O ni.1 la.1).map
            fun la => annoValue O la.2).map fun y => (ni.2, y) := by
        funext ni; unfold specOne; rw [Option.map_map]; rfl
      rw [e]
      exact filterMap_fst_sublist Prod.snd _ _
  exact ⟨key, List.Pairwise.sublist key List.pairwise_lt_range⟩

-- a pool with a duplicated node: both copies are members, each once
example : filterAndAnnotate Demo.O [[⟨sName, false, [⟨[], Demo.hk1⟩]⟩]] [[]] Demo.pool
    = .ok [(0, 0), (3, 0)] := by decide

/-- A member carries the annotation of the FIRST line it satisfies. -/
theorem member_annotation_of_first_line (O : Oracle) (filters : List Line)
    (annos : List (List Param)) (pool : List Node) (r : List (Nat × Int)) (hne : filters ≠ [])
    (h : filterAndAnnotate O filters annos pool = .ok r) (i : Nat) (v : Int) (n : Node)
    (hm : (i, v) ∈ r) (hn : pool[i]? = some n) :
    ∃ pre la post, filters.zip annos = pre ++ la :: post ∧
      (∀ x ∈ pre, lineHolds O n x.1 = false) ∧ lineHolds O n la.1 = true ∧
      v = annoValue O la.2 := by
  obtain ⟨_, _, hr⟩ := accepted_result_is_meaning O filters annos pool r h
  rw [if_neg hne] at hr
  subst hr
  rw [specMembers_eq] at hm
  obtain ⟨⟨n', i'⟩, hni, hs⟩ := List.mem_filterMap.mp hm
  unfold specOne at hs
  cases hf : (filters.zip annos).find? (fun la => lineHolds O n' la.1) with
  | none => rw [hf] at hs; cases hs
  | some la =>
    rw [hf] at hs
    simp only [Option.map_some, Option.some.injEq, Prod.mk.injEq] at hs
    obtain ⟨rfl, rfl⟩ := hs
    have hn' := List.mem_zipIdx_iff_getElem?.mp hni
    simp only at hn'
    rw [hn] at hn'
    obtain rfl := Option.some.inj hn'
    obtain ⟨hh, pre, post, hsplit, hpre⟩ := List.find?_eq_some_iff_append.mp hf
    exact ⟨pre, la, post, hsplit, fun x hx => by simpa using hpre x hx, hh, rfl⟩

-- node 3 satisfies both lines of the demo definition and gets the first line's 5 ms, not 0
example : lineHolds Demo.O ⟨Demo.hk1, []⟩ [⟨sName, false, [⟨sRegex, [49]⟩]⟩] = true ∧
    filterAndAnnotate Demo.O (Demo.filters ++ [[⟨sName, false, [⟨sRegex, [49]⟩]⟩]])
      (Demo.annos ++ [[]]) Demo.pool = .ok [(0, 0), (1, 0), (2, 0), (3, 5000000)] := by decide

/-- **Locality.** Whether a node is a member, and with which annotation, depends on that node only
(its name and tag) — not on the other nodes of the pool, not on its position, not on the pool size:
the same node in two pools gets the same verdict and the same annotation. -/
theorem selection_local (O : Oracle) (filters : List Line) (annos : List (List Param))
    (p p' : List Node) (r r' : List (Nat × Int))
    (h : filterAndAnnotate O filters annos p = .ok r)
    (h' : filterAndAnnotate O filters annos p' = .ok r')
    (i i' : Nat) (n : Node) (hn : p[i]? = some n) (hn' : p'[i']? = some n) (v : Int) :
    (i, v) ∈ r ↔ (i', v) ∈ r' := by
  obtain ⟨_, _, hr⟩ := accepted_result_is_meaning O filters annos p r h
  obtain ⟨_, _, hr'⟩ := accepted_result_is_meaning O filters annos p' r' h'
  by_cases hf : filters = []
  · rw [if_pos hf] at hr hr'
    subst hr hr'
    rw [mem_allMembers_iff, mem_allMembers_iff]
    constructor
    · rintro ⟨_, hv⟩; exact ⟨⟨n, hn'⟩, hv⟩
    · rintro ⟨_, hv⟩; exact ⟨⟨n, hn⟩, hv⟩
  · rw [if_neg hf] at hr hr'
    subst hr hr'
    rw [mem_specMembers_iff, mem_specMembers_iff]
    constructor
    · rintro ⟨m, hm, hv⟩
      rw [hn] at hm; obtain rfl := Option.some.inj hm
      exact ⟨_, hn', hv⟩
    · rintro ⟨m, hm, hv⟩
      rw [hn'] at hm; obtain rfl := Option.some.inj hm
      exact ⟨_, hn, hv⟩

-- the two "hk-1"/no-tag nodes of different pools get the same 5 ms
example : filterAndAnnotate Demo.O Demo.filters Demo.annos [⟨Demo.hk1, []⟩] = .ok [(0, 5000000)] ∧
    filterAndAnnotate Demo.O Demo.filters Demo.annos Demo.pool = .ok [(1, 0), (2, 0), (3, 5000000)] := by
  decide

/-- A group without filters contains every node (annotation 0). -/
theorem no_filter_all (O : Oracle) (pool : List Node) :
    ∃ r, filterAndAnnotate O [] [] pool = .ok r ∧ r.map Prod.fst = List.range pool.length ∧
      ∀ m ∈ r, m.2 = 0 := by
  refine ⟨pool.zipIdx.map (fun ni => (ni.2, 0)), rfl, ?_, ?_⟩
  · rw [List.map_map, List.range_eq_range', ← List.zipIdx_map_snd 0 pool]; rfl
  · intro m hm
    obtain ⟨_, _, rfl⟩ := List.mem_map.mp hm
    rfl

example : filterAndAnnotate Demo.O [] [] Demo.pool = .ok [(0, 0), (1, 0), (2, 0), (3, 0)] := by decide

/-! ## What a line means -/

/-- A line is an AND of conditions; a condition is an OR over its values, xor `!`. -/
theorem line_semantics (O : Oracle) (n : Node) (l : Line) :
    lineHolds O n l = true ↔
      ∀ f ∈ l, ((∃ p ∈ f.params, paramSat O n f.name p = true) ↔ f.neg = false) := by
  unfold lineHolds funcHolds
  rw [List.all_eq_true]
  constructor
  · intro h f hf
    have := h f hf
    rw [← List.any_eq_true]
    cases h1 : f.params.any (paramSat O n f.name) <;> cases h2 : f.neg <;> simp_all
  · intro h f hf
    have := h f hf
    rw [← List.any_eq_true] at this
    cases h1 : f.params.any (paramSat O n f.name) <;> cases h2 : f.neg <;> simp_all

/-- … and on a valid line the real evaluation (`filterHit`, with its early exits) computes
exactly that. -/
theorem filterHit_computes_line (O : Oracle) (n : Node) (l : Line) (hv : LineValid O l) :
    filterHit O n l = .ok (lineHolds O n l) := filterHit_of_valid O n l hv

example : LineValid Demo.O (Demo.filters.headD []) ∧
    filterHit Demo.O ⟨Demo.hk1, []⟩ (Demo.filters.headD []) = .ok true ∧
    filterHit Demo.O ⟨Demo.hk1, Demo.sub⟩ (Demo.filters.headD []) = .ok false :=
  ⟨(validateLine_none_iff _ _).mp (by decide), by decide, by decide⟩

/-- The three kinds of value: exact = equality, `keyword:` = substring, `regex:` = the regex
oracle; `name(...)` looks at the node name, `subtag(...)` at its subscription tag.
(A statement about the SPECIFICATION function `paramSat`. Its totalisations — an input other than
`name` reads the tag, an unknown key is treated as exact, a non-compiling regex never matches —
are never used by a code-facing theorem: those are all gated by `DefValid` / acceptance.) -/
theorem value_semantics (O : Oracle) (n : Node) (fname : Str) (p : Param) :
    let subject := if fname = sName then n.name else n.tag
    (p.key = [] → (paramSat O n fname p = true ↔ subject = p.val)) ∧
    (p.key = sKeyword → (paramSat O n fname p = true ↔ p.val <:+: subject)) ∧
    (p.key = sRegex → ∀ m, O.re p.val = some m → paramSat O n fname p = m subject) := by
  intro subject
  refine ⟨?_, ?_, ?_⟩
  · intro hk
    unfold paramSat
    have h1 : p.key ≠ sRegex := by rw [hk]; exact fun e => sRegex_ne_nil e.symm
    have h2 : p.key ≠ sKeyword := by rw [hk]; exact fun e => sKeyword_ne_nil e.symm
    simp only [if_neg h1, if_neg h2, beq_iff_eq]
    exact Iff.rfl
  · intro hk
    unfold paramSat
    have h1 : p.key ≠ sRegex := by rw [hk]; exact sKeyword_ne_regex
    simp only [if_neg h1, if_pos hk]
    exact containsSub_iff _ _
  · intro hk m hm
    unfold paramSat
    simp only [if_pos hk, hm]
    rfl

/-- `strings.Contains` as modelled is the substring relation. -/
theorem keyword_is_substring (s k : Str) : containsSub s k = true ↔ ∃ a b, a ++ k ++ b = s :=
  containsSub_iff s k

example : containsSub Demo.hk1 [107, 45] = true ∧ containsSub Demo.hk1 [] = true ∧
    containsSub Demo.hk1 [107, 49] = false := by decide

/-! ## Annotations -/

/-- A valid annotation yields the first non-zero `add_latency` of the list (0 if there is none) —
"only the first setting is valid", as the code has it: a leading `0s` does not count. -/
theorem annotation_first_nonzero (O : Oracle) (a : List Param) (hv : AnnoValid O a) :
    newAnnotation O a = .ok (((a.filterMap fun p => O.dur p.val).find? (· ≠ 0)).getD 0) :=
  newAnnotation_of_valid O a hv

example : newAnnotation Demo.O [⟨sAddLatency, Demo.s0⟩, ⟨sAddLatency, Demo.ms5⟩, ⟨sAddLatency, Demo.s0⟩]
    = .ok 5000000 := by decide

/-! ## Invalid definitions are configuration errors -/

/-- **Eager validation.** An invalid filter line (unknown input, unknown key, regex that does not
compile) or annotation (unknown key, malformed duration) anywhere in the definition is reported,
for EVERY pool — including the empty one and pools on which evaluation would never reach the
invalid item. (This is the theorem that was false before the `fix:` commit 367c759.) -/
theorem invalid_always_reported (O : Oracle) (filters : List Line) (annos : List (List Param))
    (pool : List Node) (hinv : ¬ DefValid O (filters.zip annos)) :
    ∃ e, filterAndAnnotate O filters annos pool = .error e := by
  unfold filterAndAnnotate
  by_cases hlen : filters.length = annos.length
  · rw [if_neg (by simpa using hlen)]
    cases hvd : validateDef O (filters.zip annos) with
    | some e => exact ⟨e, rfl⟩
    | none => exact absurd ((validateDef_none_iff O _).mp hvd) hinv
  · rw [if_pos (by simpa using hlen)]; exact ⟨_, rfl⟩

-- the reproduced defect: `name(keyword: z) && b()` over a pool where nothing contains "z", and
-- over the empty pool
example : ¬ DefValid Demo.O (Demo.badFilters.zip [[]]) ∧
    filterAndAnnotate Demo.O Demo.badFilters [[]] Demo.pool = .error (.badInput [98]) ∧
    filterAndAnnotate Demo.O Demo.badFilters [[]] [] = .error (.badInput [98]) :=
  ⟨fun h => by
      have := (validateDef_none_iff _ _).mpr h
      revert this; decide, by decide, by decide⟩

/-- Exactly the invalid definitions are rejected (given the parser's invariant that every line has
its annotation slot). -/
theorem error_iff_invalid (O : Oracle) (filters : List Line) (annos : List (List Param))
    (pool : List Node) (hlen : filters.length = annos.length) :
    (∃ e, filterAndAnnotate O filters annos pool = .error e) ↔ ¬ DefValid O (filters.zip annos) := by
  constructor
  · rintro ⟨e, he⟩ hv
    unfold filterAndAnnotate at he
    rw [if_neg (by simpa using hlen), (validateDef_none_iff O _).mpr hv] at he
    simp only at he
    split at he
    · cases he
    · rw [selectNodes_of_valid O _ hv] at he; cases he
  · exact invalid_always_reported O filters annos pool

/-- The reported error points at an item that really is in the definition and really is invalid
(or at the length mismatch). -/
theorem error_names_invalid_item (O : Oracle) (filters : List Line) (annos : List (List Param))
    (pool : List Node) (e : Err) (h : filterAndAnnotate O filters annos pool = .error e) :
    ErrWitness O filters annos e := by
  unfold filterAndAnnotate at h
  by_cases hlen : filters.length = annos.length
  · rw [if_neg (by simpa using hlen)] at h
    cases hvd : validateDef O (filters.zip annos) with
    | some e' =>
      rw [hvd] at h
      simp only [Except.error.injEq] at h
      subst h
      have := validateDef_some O _ e' hvd
      rwa [List.map_fst_zip (Nat.le_of_eq hlen), List.map_snd_zip (Nat.le_of_eq hlen.symm)] at this
    | none =>
      have hv := (validateDef_none_iff O _).mp hvd
      rw [hvd] at h
      simp only at h
      split at h
      · cases h
      · rw [selectNodes_of_valid O _ hv] at h; cases h
  · rw [if_pos (by simpa using hlen)] at h
    simp only [Except.error.injEq] at h
    subst h
    exact ⟨rfl, rfl, hlen⟩

example : filterAndAnnotate Demo.O [[⟨sSubtag, false, [⟨sKeyword, [115]⟩]⟩]] [[]] Demo.pool
      = .error (.badKey sKeyword sSubtag) ∧
    filterAndAnnotate Demo.O [[⟨sName, false, [⟨sRegex, [40]⟩]⟩]] [[]] [] = .error (.badRegex [40]) ∧
    filterAndAnnotate Demo.O Demo.filters [[⟨[120], Demo.s0⟩], []] [] = .error (.annoKey [120]) ∧
    filterAndAnnotate Demo.O Demo.filters [[⟨sAddLatency, [53]⟩], []] [] = .error (.annoLatency [53]) ∧
    filterAndAnnotate Demo.O Demo.filters [[]] [] = .error (.lenMismatch 2 1) := by decide

/-! ## Policy -/

/-- The code restated: exactly which `policy:` values `NewDialerSelectionPolicyFromGroupParam`
accepts, and what they denote. This is a characterisation of the CODE (five policy names exist in
this code base); the SPECIFICATION is `PolicyValid`, related to it by the three theorems below. -/
theorem parsePolicy_characterised (v : PolicyVal) (p : Policy) :
    parsePolicy v = .ok p ↔
      ∃ f, toFuncList v = some [f] ∧
        ((f.name = sRandom ∧ p = .random) ∨ (f.name = sMinAvg10 ∧ p = .minAvg10) ∨
         (f.name = sMin ∧ p = .minLast) ∨ (f.name = sMinMovingAvg ∧ p = .minMovingAvg) ∨
         (f.name = sFixed ∧ f.neg = false ∧
            ∃ val i, f.params = [⟨[], val⟩] ∧ atoi val = some i ∧ p = .fixed i)) := by
  have d1 : sMinAvg10 ≠ sRandom := by decide
  have d2 : sMin ≠ sRandom := by decide
  have d3 : sMin ≠ sMinAvg10 := by decide
  have d4 : sMinMovingAvg ≠ sRandom := by decide
  have d5 : sMinMovingAvg ≠ sMinAvg10 := by decide
  have d6 : sMinMovingAvg ≠ sMin := by decide
  have d7 : sFixed ≠ sRandom := by decide
  have d8 : sFixed ≠ sMinAvg10 := by decide
  have d9 : sFixed ≠ sMin := by decide
  have d10 : sFixed ≠ sMinMovingAvg := by decide
  unfold parsePolicy
  cases hfl : toFuncList v with
  | none => simp
  | some fs =>
    match fs with
    | [] => simp
    | _ :: _ :: _ => simp
    | [f] =>
      simp only [Option.some.injEq, List.cons.injEq, and_true, exists_eq_left']
      by_cases h1 : f.name = sRandom
      · simp only [h1, d1.symm, d2.symm, d4.symm, d7.symm, if_true, true_and, false_and, or_false,
          Except.ok.injEq]
        exact eq_comm
      · by_cases h2 : f.name = sMinAvg10
        · simp only [h2, d1, d3.symm, d5.symm, d8.symm, if_true, if_false, true_and, false_and,
            or_false, false_or, Except.ok.injEq]
          exact eq_comm
        · by_cases h3 : f.name = sMin
          · simp only [h3, d2, d3, d6.symm, d9.symm, if_true, if_false, true_and, false_and,
              or_false, false_or, Except.ok.injEq]
            exact eq_comm
          · by_cases h4 : f.name = sMinMovingAvg
            · simp only [h4, d4, d5, d6, d10.symm, if_true, if_false, true_and, false_and,
                or_false, false_or, Except.ok.injEq]
              exact eq_comm
            · by_cases h5 : f.name = sFixed
              · simp only [h5, d7, d8, d9, d10, if_false, if_true, false_and, false_or, true_and]
                cases hneg : f.neg with
                | true => simp
                | false =>
                  simp only [Bool.false_eq_true, if_false, true_and]
                  match hps : f.params with
                  | [] => simp
                  | _ :: _ :: _ => simp
                  | [q] =>
                    obtain ⟨k, val⟩ := q
                    by_cases hk : k = []
                    · subst hk
                      cases ha : atoi val with
                      | none => simp [ha]
                      | some i =>
                        simp only [if_true, Except.ok.injEq, List.cons.injEq, Param.mk.injEq,
                          true_and, and_true, exists_and_left, exists_eq_left', ha, Option.some.injEq]
                        exact eq_comm
                    · simp [hk]
              · simp only [h1, h2, h3, h4, h5, if_false, false_and, or_false, reduceCtorEq]

example : parsePolicy (.str sMin) = .ok .minLast ∧
    parsePolicy (.funcs [⟨sFixed, false, [⟨[], [50]⟩]⟩]) = .ok (.fixed 2) ∧
    parsePolicy (.funcs [⟨sFixed, false, [⟨[], [45, 49]⟩]⟩]) = .ok (.fixed (-1)) ∧
    parsePolicy (.funcs [⟨sFixed, true, [⟨[], [50]⟩]⟩]) = .error (.notOp sFixed) ∧
    parsePolicy (.funcs [⟨sFixed, false, [⟨[], [97]⟩]⟩]) = .error (.atoi sFixed) ∧
    parsePolicy (.str [102]) = .error (.unexpected [102]) ∧
    parsePolicy (.funcs []) = .error (.count 0) ∧ parsePolicy .other = .error .valueType := by decide

/-- Every documented policy value is accepted, with the documented meaning. -/
theorem documented_policy_accepted (v : PolicyVal) (p : Policy) (h : PolicyValid v p) :
    parsePolicy v = .ok p := by
  obtain ⟨f, hfl, hneg, hcases⟩ := h
  apply (parsePolicy_characterised v p).mpr
  refine ⟨f, hfl, ?_⟩
  rcases hcases with ⟨_, hp⟩ | ⟨hn, val, i, hps, ha, hp⟩
  · rcases hp with h | h | h | h
    · exact Or.inl h
    · exact Or.inr (Or.inl h)
    · exact Or.inr (Or.inr (Or.inl h))
    · exact Or.inr (Or.inr (Or.inr (Or.inl h)))
  · exact Or.inr (Or.inr (Or.inr (Or.inr ⟨hn, hneg, val, i, hps, ha, hp⟩)))

/-- **The property clause "an invalid policy is a configuration error", as far as the code goes.**
Whatever the code accepts is either a documented policy value or one of the explicitly listed
lenient forms (`LenientPolicy`: a parameterless policy decorated with `!` and/or arguments).
`parsePolicy v = ok p ↔ PolicyValid v p` is FALSE for this code (witness below): `!min(7)` is
accepted. -/
theorem accepted_policy_documented_or_lenient (v : PolicyVal) (p : Policy)
    (h : parsePolicy v = .ok p) : PolicyValid v p ∨ LenientPolicy v p := by
  obtain ⟨f, hfl, hc⟩ := (parsePolicy_characterised v p).mp h
  have plain : PlainPolicy f.name p → PolicyValid v p ∨ LenientPolicy v p := by
    intro hp
    by_cases hd : f.neg = true ∨ f.params ≠ []
    · exact Or.inr ⟨f, hfl, hd, hp⟩
    · have h1 : f.neg = false := by
        cases hn : f.neg
        · rfl
        · exact absurd (Or.inl hn) hd
      have h2 : f.params = [] := by
        cases hps : f.params
        · rfl
        · exact absurd (Or.inr (by rw [hps]; simp)) hd
      exact Or.inl ⟨f, hfl, h1, Or.inl ⟨h2, hp⟩⟩
  rcases hc with h | h | h | h | ⟨hn, hneg, val, i, hps, ha, hp⟩
  · exact plain (Or.inl h)
  · exact plain (Or.inr (Or.inl h))
  · exact plain (Or.inr (Or.inr (Or.inl h)))
  · exact plain (Or.inr (Or.inr (Or.inr h)))
  · exact Or.inl ⟨f, hfl, hneg, Or.inr ⟨hn, val, i, hps, ha, hp⟩⟩

-- the leniency is real: `!min(7)` is not a documented value, and is accepted (as `min`)
example : parsePolicy (.funcs [⟨sMin, true, [⟨[], [55]⟩]⟩]) = .ok .minLast ∧
    ¬ PolicyValid (.funcs [⟨sMin, true, [⟨[], [55]⟩]⟩]) .minLast ∧
    LenientPolicy (.funcs [⟨sMin, true, [⟨[], [55]⟩]⟩]) .minLast := by
  refine ⟨by decide, ?_, ⟨_, rfl, Or.inl rfl, Or.inr (Or.inr (Or.inl ⟨rfl, rfl⟩))⟩⟩
  rintro ⟨f, hfl, hneg, _⟩
  simp only [toFuncList, Option.some.injEq, List.cons.injEq, and_true] at hfl
  subst hfl
  cases hneg

/-- The lenient forms do not change what is selected: the decoration is ignored, the value means
what the bare policy name means. -/
theorem lenient_policy_means_plain (v : PolicyVal) (p : Policy) (h : LenientPolicy v p) :
    parsePolicy v = .ok p ∧ ∃ f, toFuncList v = some [f] ∧ parsePolicy (.str f.name) = .ok p := by
  obtain ⟨f, hfl, _, hp⟩ := h
  have key : ∀ w g, toFuncList w = some [g] → g.name = f.name → parsePolicy w = .ok p := by
    intro w g hw hg
    apply (parsePolicy_characterised w p).mpr
    refine ⟨g, hw, ?_⟩
    rw [hg]
    rcases hp with h | h | h | h
    · exact Or.inl h
    · exact Or.inr (Or.inl h)
    · exact Or.inr (Or.inr (Or.inl h))
    · exact Or.inr (Or.inr (Or.inr (Or.inl h)))
  exact ⟨key v f hfl rfl, f, hfl, key (.str f.name) ⟨f.name, false, []⟩ rfl rfl⟩

/-- `strconv.Atoi` as modelled only yields int64 values. -/
theorem atoi_range (s : Str) (i : Int) (h : atoi s = some i) : -(2 ^ 63 : Int) ≤ i ∧ i < 2 ^ 63 := by
  unfold atoi at h
  split at h
  rename_i neg body _
  split at h
  · cases h
  · split at h
    · cases h
    · rename_i v _
      cases neg with
      | true =>
        simp only [if_true] at h
        split at h
        · simp only [Option.some.injEq] at h; omega
        · cases h
      | false =>
        simp only [Bool.false_eq_true, if_false] at h
        split at h
        · simp only [Option.some.injEq] at h; omega
        · cases h

example : atoi [45, 57, 50, 50, 51, 51, 55, 50, 48, 51, 54, 56, 53, 52, 55, 55, 53, 56, 48, 56]
      = some (-(2 ^ 63)) ∧
    atoi [57, 50, 50, 51, 51, 55, 50, 48, 51, 54, 56, 53, 52, 55, 55, 53, 56, 48, 56] = none ∧
    atoi [] = none ∧ atoi [43] = none ∧ atoi [49, 95, 48] = none := by decide

/-- **`strconv.Atoi` against a declarative grammar**: the modelled `Atoi` accepts exactly the decimal
notations of int64 values — optional `+`/`-`, at least one digit `0`-`9`, nothing else (no spaces,
no `_`, no `0x`, no non-ASCII digits), value in range — and returns that value. -/
theorem atoi_iff_decimal (s : Str) (i : Int) : atoi s = some i ↔ DecimalInt64 s i := by
  have digit_head : ∀ (ds : List Nat) (r : Str) (k : Nat), (∀ d ∈ ds, d < 10) → k < 48 →
      ds.map (· + 48) ≠ k :: r := by
    intro ds r k hd hk h
    cases ds with
    | nil => cases h
    | cons d ds => simp only [List.map_cons, List.cons.injEq] at h; omega
  -- the three shapes of `s`
  have body_case : ∀ (neg : Bool) (sign body : Str), s = sign ++ body →
      (sign = if neg then [45] else []) ∨ (neg = false ∧ sign = [43]) →
      (atoiBody neg body = some i ↔
        ∃ ds : List Nat, ds ≠ [] ∧ (∀ d ∈ ds, d < 10) ∧ body = ds.map (· + 48) ∧
          i = (if neg then -(decVal ds : Int) else (decVal ds : Int)) ∧
          -(2 ^ 63 : Int) ≤ i ∧ i < 2 ^ 63) := by
    intro neg sign body _ _
    rw [atoi_body]
    constructor
    · rintro ⟨hne, hall, hi, hr⟩
      refine ⟨body.map (· - 48), ?_, ?_, (map_sub_add_48 body hall).symm, hi, hr⟩
      · intro h; exact hne (List.map_eq_nil_iff.mp h)
      · intro d hd
        obtain ⟨c, hc, rfl⟩ := List.mem_map.mp hd
        have := hall c hc; omega
    · rintro ⟨ds, hne, hd, rfl, hi, hr⟩
      refine ⟨?_, ?_, ?_, hr⟩
      · intro h; exact hne (List.map_eq_nil_iff.mp h)
      · intro c hc
        obtain ⟨d, hdm, rfl⟩ := List.mem_map.mp hc
        have := hd d hdm; omega
      · rw [map_add_sub_48]; exact hi
  unfold DecimalInt64
  by_cases hm : ∃ r, s = 45 :: r
  · obtain ⟨r, rfl⟩ := hm
    rw [atoi_minus, body_case true [45] r rfl (Or.inl rfl)]
    constructor
    · rintro ⟨ds, hne, hd, hb, hi, hr⟩
      exact ⟨[45], ds, Or.inr (Or.inr rfl), hne, hd, by rw [hb]; rfl, by simpa using hi, hr⟩
    · rintro ⟨sign, ds, hs, hne, hd, hb, hi, hr⟩
      rcases hs with rfl | rfl | rfl
      · exact absurd hb.symm (digit_head ds r 45 hd (by omega))
      · simp only [List.cons_append, List.nil_append, List.cons.injEq] at hb; omega
      · simp only [List.cons_append, List.nil_append, List.cons.injEq, true_and] at hb
        exact ⟨ds, hne, hd, hb, by simpa using hi, hr⟩
  · by_cases hp : ∃ r, s = 43 :: r
    · obtain ⟨r, rfl⟩ := hp
      rw [atoi_plus, body_case false [43] r rfl (Or.inr ⟨rfl, rfl⟩)]
      constructor
      · rintro ⟨ds, hne, hd, hb, hi, hr⟩
        exact ⟨[43], ds, Or.inr (Or.inl rfl), hne, hd, by rw [hb]; rfl, by simpa using hi, hr⟩
      · rintro ⟨sign, ds, hs, hne, hd, hb, hi, hr⟩
        rcases hs with rfl | rfl | rfl
        · exact absurd hb.symm (digit_head ds r 43 hd (by omega))
        · simp only [List.cons_append, List.nil_append, List.cons.injEq, true_and] at hb
          exact ⟨ds, hne, hd, hb, by simpa using hi, hr⟩
        · simp only [List.cons_append, List.nil_append, List.cons.injEq] at hb; omega
    · rw [atoi_nosign s (fun r h => hm ⟨r, h⟩) (fun r h => hp ⟨r, h⟩),
        body_case false [] s rfl (Or.inl rfl)]
      constructor
      · rintro ⟨ds, hne, hd, hb, hi, hr⟩
        exact ⟨[], ds, Or.inl rfl, hne, hd, by simpa using hb, by simpa using hi, hr⟩
      · rintro ⟨sign, ds, hs, hne, hd, hb, hi, hr⟩
        rcases hs with rfl | rfl | rfl
        · exact ⟨ds, hne, hd, by simpa using hb, by simpa using hi, hr⟩
        · exact absurd ⟨_, hb⟩ hp
        · exact absurd ⟨_, hb⟩ hm

example : DecimalInt64 [45, 49, 50] (-12) ∧ atoi [45, 49, 50] = some (-12) ∧
    ¬ DecimalInt64 [49, 95, 48] 10 := by
  refine ⟨(atoi_iff_decimal _ _).mp (by decide), by decide, fun h => ?_⟩
  have := (atoi_iff_decimal _ _).mpr h
  revert this; decide

/-! ## The group -/

/-- The group is built iff the policy AND the filter definition are acceptable; it then holds the
parsed policy and exactly the members `filterAndAnnotate` returned (same order, same annotations).
(An unfolding of the model's `buildGroup`; that the REAL control-plane loop behaves like
`buildGroup` — incl. the override-clone loop keeping members and annotations aligned — is the
tie's job: stream `c14ctl` runs the verbatim region of `NewControlPlane`.) -/
theorem group_built_iff (O : Oracle) (pv : PolicyVal) (filters : List Line)
    (annos : List (List Param)) (pool : List Node) :
    (∀ g, buildGroup O pv filters annos pool = .ok g ↔
        parsePolicy pv = .ok g.policy ∧ filterAndAnnotate O filters annos pool = .ok g.members) ∧
    ((∃ e, buildGroup O pv filters annos pool = .error e) ↔
        (∃ e, parsePolicy pv = .error e) ∨ (∃ e, filterAndAnnotate O filters annos pool = .error e)) := by
  unfold buildGroup
  cases hp : parsePolicy pv with
  | error e => simp
  | ok p =>
    cases hf : filterAndAnnotate O filters annos pool with
    | error e => simp
    | ok ms =>
      simp only [Except.ok.injEq, reduceCtorEq, exists_false, or_self, and_true]
      intro g
      constructor
      · rintro rfl; exact ⟨rfl, rfl⟩
      · rintro ⟨rfl, rfl⟩; rfl

/-- `fixed(i)` selects the i-th member (from 0) of a non-empty group and is an error when `i` is
out of range — an out-of-range index is NOT a configuration error in this code base, it is
rejected at each selection. -/
theorem fixed_selects_ith_member {α : Type} (i : Int) (ms : List α) :
    (∀ m, selectFixed i ms = .ok m ↔ 0 ≤ i ∧ ms[i.toNat]? = some m) ∧
    (selectFixed i ms = .error .outOfRange ↔ ms ≠ [] ∧ (i < 0 ∨ (ms.length : Int) ≤ i)) ∧
    (selectFixed i ms = .error .emptyGroup ↔ ms = []) := by
  unfold selectFixed
  match ms with
  | [] => simp
  | x :: xs =>
    simp only [ne_eq, reduceCtorEq, not_false_eq_true, true_and, iff_false]
    by_cases hr : i < 0 ∨ i ≥ ((x :: xs).length : Int)
    · rw [if_pos hr]
      refine ⟨?_, ?_, by simp⟩
      · intro m
        simp only [reduceCtorEq, false_iff, not_and]
        intro h0 hm
        rcases hr with hr | hr
        · omega
        · have := (List.getElem?_eq_some_iff.mp hm).1
          omega
      · simp only [true_iff]; exact hr
    · rw [if_neg hr]
      have hlt : i.toNat < (x :: xs).length := by omega
      rw [List.getElem?_eq_getElem hlt]
      refine ⟨?_, ?_, by simp⟩
      · intro m
        simp only [Except.ok.injEq, Option.some.injEq]
        constructor
        · intro h; exact ⟨by omega, h⟩
        · intro h; exact h.2
      · simp only [reduceCtorEq, false_iff]
        exact hr

example : selectFixed 1 [10, 20, 30] = .ok 20 ∧ selectFixed 3 [10, 20, 30] = .error .outOfRange ∧
    selectFixed (-1) [10, 20, 30] = .error .outOfRange ∧
    selectFixed 0 ([] : List Nat) = .error .emptyGroup := by decide

/-- **The group's members are what the definition means**: if the group is built, the definition is
valid and the group holds exactly `specMembers` (all nodes when there is no filter line). -/
theorem group_members_are_meaning (O : Oracle) (pv : PolicyVal) (filters : List Line)
    (annos : List (List Param)) (pool : List Node) (g : Group)
    (h : buildGroup O pv filters annos pool = .ok g) :
    DefValid O (filters.zip annos) ∧
      g.members = (if filters = [] then pool.zipIdx.map (fun ni => (ni.2, 0))
                   else specMembers O (filters.zip annos) pool) := by
  have hf := ((group_built_iff O pv filters annos pool).1 g).mp h
  obtain ⟨_, hv, hr⟩ := accepted_result_is_meaning O filters annos pool g.members hf.2
  exact ⟨hv, hr⟩

example : ∃ g, buildGroup Demo.O (.str sMin) Demo.filters Demo.annos Demo.pool = .ok g ∧
    g.members = [(1, 0), (2, 0), (3, 5000000)] :=
  ⟨⟨.minLast, [(1, 0), (2, 0), (3, 5000000)]⟩, by decide, rfl⟩

/-- **The reading chosen for `fixed(i)` out of range, made visible**: it is NOT a configuration
error in this code. The group is built whatever the index; every selection then fails
(`outOfRange`, or `emptyGroup` when the filters select nothing). Nothing is selected silently. -/
theorem fixed_out_of_range_builds (O : Oracle) (pv : PolicyVal) (filters : List Line)
    (annos : List (List Param)) (pool : List Node) (i : Int) (r : List (Nat × Int))
    (hp : parsePolicy pv = .ok (.fixed i)) (hf : filterAndAnnotate O filters annos pool = .ok r)
    (hout : i < 0 ∨ (r.length : Int) ≤ i) :
    buildGroup O pv filters annos pool = .ok ⟨.fixed i, r⟩ ∧
      ∃ e, selectFixed i r = .error e := by
  refine ⟨((group_built_iff O pv filters annos pool).1 ⟨.fixed i, r⟩).mpr ⟨hp, hf⟩, ?_⟩
  by_cases hr : r = []
  · exact ⟨.emptyGroup, ((fixed_selects_ith_member i r).2.2).mpr hr⟩
  · exact ⟨.outOfRange, ((fixed_selects_ith_member i r).2.1).mpr ⟨hr, hout⟩⟩

example : buildGroup Demo.O (.funcs [⟨sFixed, false, [⟨[], [55]⟩]⟩]) Demo.filters Demo.annos Demo.pool
      = .ok ⟨.fixed 7, [(1, 0), (2, 0), (3, 5000000)]⟩ ∧
    selectFixed 7 [(1, (0 : Int)), (2, 0), (3, 5000000)] = .error .outOfRange := by decide

/-! ## Several groups over one pool -/

/-- The group loop builds every group over the same pool, each exactly as if it were alone; the list
is built iff every group is. -/
theorem groups_built_iff (O : Oracle) (pool : List Node) : ∀ (ds : List GroupDef) (gs : List Group),
    buildGroups O pool ds = .ok gs ↔
      gs.length = ds.length ∧
        ∀ dg ∈ ds.zip gs, buildGroup O dg.1.pv dg.1.filters dg.1.annos pool = .ok dg.2 := by
  intro ds
  induction ds with
  | nil =>
    intro gs
    cases gs <;> simp [buildGroups]
  | cons d ds ih =>
    intro gs
    rw [buildGroups]
    cases hb : buildGroup O d.pv d.filters d.annos pool with
    | error e =>
      simp only [reduceCtorEq, false_iff, not_and]
      intro hlen hall
      cases gs with
      | nil => simp at hlen
      | cons g gs' =>
        have := hall (d, g) (by simp)
        rw [hb] at this; cases this
    | ok g =>
      cases hr : buildGroups O pool ds with
      | error e =>
        simp only [reduceCtorEq, false_iff, not_and]
        intro hlen hall
        cases gs with
        | nil => simp at hlen
        | cons g' gs' =>
          have := (ih gs').mpr ⟨by simpa using hlen, fun dg hdg => hall dg (by simp [hdg])⟩
          rw [hr] at this; cases this
      | ok gs0 =>
        simp only [Except.ok.injEq]
        have ih0 := (ih gs0).mp hr
        constructor
        · rintro rfl
          refine ⟨by simp [ih0.1], ?_⟩
          intro dg hdg
          simp only [List.zip_cons_cons, List.mem_cons] at hdg
          rcases hdg with rfl | hdg
          · exact hb
          · exact ih0.2 dg hdg
        · rintro ⟨hlen, hall⟩
          cases gs with
          | nil => simp at hlen
          | cons g' gs' =>
            have h1 := hall (d, g') (by simp)
            rw [hb] at h1
            obtain rfl := Except.ok.inj h1
            have h2 := (ih gs').mpr ⟨by simpa using hlen, fun dg hdg => hall dg (by simp [hdg])⟩
            rw [hr] at h2
            rw [Except.ok.inj h2]

/-- **A group's members do not depend on the other groups**: in a built configuration every group
holds exactly what its own definition means over the (one, unchanged) node pool — whatever the
groups before it were (filtered or not, with check overrides or not). -/
theorem group_in_sequence_is_meaning (O : Oracle) (pool : List Node) (ds : List GroupDef)
    (gs : List Group) (h : buildGroups O pool ds = .ok gs) :
    ∀ dg ∈ ds.zip gs, DefValid O (dg.1.filters.zip dg.1.annos) ∧
      dg.2.members = (if dg.1.filters = [] then pool.zipIdx.map (fun ni => (ni.2, 0))
                      else specMembers O (dg.1.filters.zip dg.1.annos) pool) := by
  intro dg hdg
  exact group_members_are_meaning O dg.1.pv dg.1.filters dg.1.annos pool dg.2
    (((groups_built_iff O pool ds gs).mp h).2 dg hdg)

/-- The configuration is rejected iff some group on its own is. -/
theorem groups_error_iff (O : Oracle) (pool : List Node) (ds : List GroupDef) :
    (∃ e, buildGroups O pool ds = .error e) ↔
      ∃ d ∈ ds, ∃ e, buildGroup O d.pv d.filters d.annos pool = .error e := by
  induction ds with
  | nil => simp [buildGroups]
  | cons d ds ih =>
    rw [buildGroups]
    cases hb : buildGroup O d.pv d.filters d.annos pool with
    | error e => simp [hb]
    | ok g =>
      cases hr : buildGroups O pool ds with
      | error e =>
        have := ih.mp (by rw [hr]; exact ⟨e, rfl⟩)
        obtain ⟨d', hd', e', he'⟩ := this
        simp only [Except.error.injEq, exists_eq', List.mem_cons, true_iff]
        exact ⟨d', Or.inr hd', e', he'⟩
      | ok gs0 =>
        simp only [reduceCtorEq, exists_false, List.mem_cons, false_iff, not_exists, not_and]
        intro d' hd' e' he'
        rcases hd' with rfl | hd'
        · rw [hb] at he'; cases he'
        · have := ih.mpr ⟨d', hd', e', he'⟩
          rw [hr] at this
          obtain ⟨_, h⟩ := this; cases h

-- an unfiltered group first, then a subtag-filtered one: the second still sees the tags
example : (buildGroups Demo.O Demo.pool
      [⟨.str sMin, [], []⟩, ⟨.str sRandom, [[⟨sSubtag, false, [⟨[], Demo.sub⟩]⟩]], [[]]⟩]).map
        (·.map (·.members))
    = .ok [[(0, 0), (1, 0), (2, 0), (3, 0)], [(0, 0), (1, 0)]] := by decide

/-! ## `time.ParseDuration` as mirrored (`parseDuration`) -/

/-- A bare number is not a duration ("missing unit"), with or without sign — except the literal
`0`. For every digit string. -/
theorem dur_bare_number_rejected (ds : Str) (hne : ds ≠ []) (hd : ∀ c ∈ ds, isDigit c = true)
    (h0 : ds ≠ [48]) :
    parseDuration ds = none ∧ parseDuration (45 :: ds) = none ∧ parseDuration (43 :: ds) = none := by
  have key : durTerms (ds.length + 1) ds 0 = none := by
    cases ds with
    | nil => exact absurd rfl hne
    | cons c cs =>
      have hc := hd c List.mem_cons_self
      rw [durTerms]
      simp only [hc, Bool.or_true, Bool.not_true, Bool.false_eq_true, if_false]
      rcases leadingInt_all_digits (c :: cs) 0 hd with h | ⟨y, h⟩
      · rw [h]
      · rw [h]
        simp [spanUnit]
  have body : ∀ neg : Bool, (if ds = [48] then some (0 : Int)
      else if ds.isEmpty then none
      else match durTerms (ds.length + 1) ds 0 with
        | none => none
        | some d => if neg then some (-(d : Int)) else if d > 2 ^ 63 - 1 then none else some (d : Int))
      = none := by
    intro neg
    rw [if_neg h0, key]
    cases ds <;> simp_all
  have hhead : ∀ r, ds ≠ 45 :: r ∧ ds ≠ 43 :: r := by
    intro r
    constructor <;> intro h <;> have := hd _ (by rw [h]; exact List.mem_cons_self) <;>
      simp [isDigit] at this
  refine ⟨?_, body true, body false⟩
  unfold parseDuration
  split
  rename_i neg b heq
  split at heq
  · exact absurd rfl (hhead _).1
  · exact absurd rfl (hhead _).2
  · simp only [Prod.mk.injEq] at heq
    obtain ⟨rfl, rfl⟩ := heq
    exact body false

example : parseDuration [53] = none ∧ parseDuration [48] = some 0 ∧
    parseDuration [53, 109, 115] = some 5000000 ∧ parseDuration [45, 51, 109, 115] = some (-3000000) ∧
    parseDuration [49, 104, 50, 109] = some 3720000000000 ∧ parseDuration [49, 100] = none ∧
    parseDuration [] = none ∧ parseDuration [109, 115] = none ∧ parseDuration [53, 32, 109, 115] = none := by
  decide

/-- The clause "a malformed annotation is a configuration error", with the duration grammar inside
the model: `[add_latency: 5]` (a number without unit) anywhere in a definition rejects the whole
group, for every pool and every regex engine. -/
theorem unitless_latency_is_config_error (re : Str → Option (Str → Bool)) (filters : List Line)
    (annos : List (List Param)) (pool : List Node) (a : List Param) (p : Param)
    (ha : a ∈ annos) (hp : p ∈ a)
    (hne : p.val ≠ []) (hd : ∀ c ∈ p.val, isDigit c = true) (h0 : p.val ≠ [48]) :
    ∃ e, filterAndAnnotate (goOracle re) filters annos pool = .error e := by
  by_cases hlen : filters.length = annos.length
  · apply invalid_always_reported
    intro hv
    obtain ⟨l, hl⟩ := exists_zip_of_mem_right filters annos hlen a ha
    have := ((hv (l, a) hl).2 p hp).2
    have hnone : (goOracle re).dur p.val = none := (dur_bare_number_rejected p.val hne hd h0).1
    rw [hnone] at this
    cases this
  · unfold filterAndAnnotate
    rw [if_pos (by simpa using hlen)]
    exact ⟨_, rfl⟩

example : filterAndAnnotate (goOracle fun _ => none) [[⟨sName, false, [⟨[], [104]⟩]⟩]]
    [[⟨sAddLatency, [53]⟩]] [] = .error (.annoLatency [53]) := by decide

/-! ## The effective latency offset (what the latency policies add to a measurement) -/

/-- **"Carries the annotation", down to the map the latency policies read.** In a built group with
a latency/random policy every alive set's offset map answers, for EVERY node of the pool: the
annotation of the first filter line the node satisfies (0 when the group has no filter) if it is a
member, and nothing if it is not — one entry per member, never a later line's value, never an entry
for a node outside the pool. Under `fixed` no alive set (hence no offset) exists. -/
theorem effective_offset_is_first_line_annotation (O : Oracle) (pv : PolicyVal) (filters : List Line)
    (annos : List (List Param)) (pool : List Node) (g : Group)
    (h : buildGroup O pv filters annos pool = .ok g) :
    (groupOffsetTable g = none ↔ ∃ i, g.policy = .fixed i) ∧
    ∀ t, groupOffsetTable g = some t →
      (∀ i n, pool[i]? = some n →
        mapGet t i = (if filters = [] then some 0
                      else ((filters.zip annos).find? fun la => lineHolds O n la.1).map
                        fun la => annoValue O la.2)) ∧
      (∀ i, pool[i]? = none → mapGet t i = none) := by
  have hf := (((group_built_iff O pv filters annos pool).1 g).mp h).2
  have hp := (members_once_in_pool_order O filters annos pool g.members hf).2
  obtain ⟨_, _, hr⟩ := accepted_result_is_meaning O filters annos pool g.members hf
  constructor
  · unfold groupOffsetTable
    cases hpol : g.policy <;> simp [needsAliveState]
  · intro t ht
    have htt : t = offsetTable g.members := by
      unfold groupOffsetTable at ht
      split at ht
      · exact (Option.some.inj ht).symm
      · cases ht
    subst htt
    constructor
    · intro i n hn
      by_cases hfe : filters = []
      · rw [if_pos hfe]
        rw [if_pos hfe] at hr
        exact (mapGet_offsetTable g.members hp i).1 0
          (hr ▸ (mem_allMembers_iff pool i 0).mpr ⟨⟨n, hn⟩, rfl⟩)
      · rw [if_neg hfe]
        rw [if_neg hfe] at hr
        cases hfind : ((filters.zip annos).find? fun la => lineHolds O n la.1) with
        | some la =>
          simp only [Option.map_some]
          apply (mapGet_offsetTable g.members hp i).1
          rw [hr]
          exact (mem_specMembers_iff O _ pool i _).mpr ⟨n, hn, by rw [hfind]; rfl⟩
        | none =>
          simp only [Option.map_none]
          apply (mapGet_offsetTable g.members hp i).2
          intro v hv
          rw [hr] at hv
          obtain ⟨n', hn', hm⟩ := (mem_specMembers_iff O _ pool i v).mp hv
          rw [hn] at hn'
          obtain rfl := Option.some.inj hn'
          rw [hfind] at hm
          cases hm
    · intro i hi
      apply (mapGet_offsetTable g.members hp i).2
      intro v hv
      by_cases hfe : filters = []
      · rw [if_pos hfe] at hr
        rw [hr] at hv
        obtain ⟨⟨n, hn⟩, _⟩ := (mem_allMembers_iff pool i v).mp hv
        rw [hi] at hn; cases hn
      · rw [if_neg hfe] at hr
        rw [hr] at hv
        obtain ⟨n, hn, _⟩ := (mem_specMembers_iff O _ pool i v).mp hv
        rw [hi] at hn; cases hn

-- the demo group under `min`: node 3 gets the 5 ms of the first line although it also satisfies the
-- second (0) one; node 0 is no member and has no entry; under `fixed` there is no table at all
example : ∃ g, buildGroup Demo.O (.str sMin) Demo.filters Demo.annos Demo.pool = .ok g ∧
    ∃ t, groupOffsetTable g = some t ∧ mapGet t 3 = some 5000000 ∧ mapGet t 1 = some 0 ∧
      mapGet t 0 = none ∧ mapGet t 9 = none :=
  ⟨⟨.minLast, [(1, 0), (2, 0), (3, 5000000)]⟩, by decide, _, rfl, by decide, by decide, by decide, by decide⟩
example : groupOffsetTable ⟨.fixed 0, [(1, 0), (2, 0), (3, 5000000)]⟩ = none := by decide
-- why "listed once" matters: with a member listed twice the later annotation would win
example : mapGet (offsetTable [(3, 5000000), (3, 7)]) 3 = some 7 := by decide

/-! ## Group names → outbound ids -/

/-- The outbound table is built iff the groups are, there are at most `OutboundUserDefinedMax`
outbounds (`direct` and `block` included) and all names — `direct`, `block`, the groups — are
pairwise distinct. -/
theorem config_built_iff (O : Oracle) (pool : List Node) (nds : List NamedDef) :
    (∃ r, buildConfig O pool nds = .ok r) ↔
      (∃ gs, buildGroups O pool (nds.map (·.d)) = .ok gs) ∧ nds.length + 2 ≤ outboundUserDefinedMax ∧
        (sDirect :: sBlock :: nds.map (·.name)).Nodup := by
  unfold buildConfig
  cases hb : buildGroups O pool (nds.map (·.d)) with
  | error e => simp
  | ok gs =>
    have hlen : gs.length = nds.length := by
      have := ((groups_built_iff O pool _ gs).mp hb).1
      simpa using this
    simp only [Except.ok.injEq, exists_eq', true_and]
    by_cases hmany : 2 + gs.length > outboundUserDefinedMax
    · rw [if_pos hmany]
      simp only [reduceCtorEq, exists_false, false_iff, not_and]
      intro hle; omega
    · rw [if_neg hmany]
      have hle : nds.length + 2 ≤ outboundUserDefinedMax := by omega
      cases hn : nameIds (sDirect :: sBlock :: nds.map (·.name)) 0 [] with
      | error e =>
        simp only [reduceCtorEq, exists_false, false_iff, not_and]
        intro _ hnd
        have := (nameIds_ok_iff _ 0 [] _).mpr ⟨⟨hnd, by simp⟩, rfl⟩
        rw [hn] at this; cases this
      | ok m =>
        have := ((nameIds_ok_iff _ 0 [] m).mp hn).1.1
        exact ⟨fun _ => ⟨hle, this⟩, fun _ => ⟨_, rfl⟩⟩

example : (buildConfig Demo.O Demo.pool Demo.twoGroups).toOption.isSome = true := by decide

/-- **A group name resolves to that group, and that group holds what its own definition means.**
In a built configuration `direct` is id 0, `block` id 1, the k-th group id 2+k (all below 256, so
`uint8` does not wrap), two groups never share an id, and the group stored at position k has
exactly the members its definition denotes over the pool. -/
theorem group_name_resolves_to_own_members (O : Oracle) (pool : List Node) (nds : List NamedDef)
    (gs : List Group) (m : List (Str × Nat)) (h : buildConfig O pool nds = .ok (gs, m)) :
    idOf m sDirect = some 0 ∧ idOf m sBlock = some 1 ∧
    ∀ k (hk : k < nds.length), idOf m nds[k].name = some (2 + k) ∧ 2 + k < 256 ∧
      ∃ g, gs[k]? = some g ∧ DefValid O (nds[k].d.filters.zip nds[k].d.annos) ∧
        g.members = (if nds[k].d.filters = [] then pool.zipIdx.map (fun ni => (ni.2, 0))
                     else specMembers O (nds[k].d.filters.zip nds[k].d.annos) pool) := by
  have hbuilt := (config_built_iff O pool nds).mp ⟨_, h⟩
  obtain ⟨_, hle, hnd⟩ := hbuilt
  unfold buildConfig at h
  cases hb : buildGroups O pool (nds.map (·.d)) with
  | error e => rw [hb] at h; cases h
  | ok gs' =>
    rw [hb] at h
    simp only at h
    split at h
    · cases h
    · cases hn : nameIds (sDirect :: sBlock :: nds.map (·.name)) 0 [] with
      | error e => rw [hn] at h; cases h
      | ok m' =>
        rw [hn] at h
        simp only [Except.ok.injEq, Prod.mk.injEq] at h
        obtain ⟨rfl, rfl⟩ := h
        have hm := ((nameIds_ok_iff _ 0 [] m').mp hn).2
        rw [List.nil_append] at hm
        subst hm
        have hid := idOf_zipIdx (sDirect :: sBlock :: nds.map (·.name)) 0
        refine ⟨?_, ?_, ?_⟩
        · simpa using hid 0 (by simp) hnd
        · simpa using hid 1 (by simp) hnd
        · intro k hk
          have hlen := ((groups_built_iff O pool _ gs').mp hb).1
          have hall := group_in_sequence_is_meaning O pool _ gs' hb
          have hk2 : k + 2 < (sDirect :: sBlock :: nds.map (·.name)).length := by simp; omega
          have h1 := hid (k + 2) hk2 hnd
          simp only [List.getElem_cons_succ, List.getElem_map, Nat.zero_add] at h1
          have hlt : 2 + k < 256 := by unfold outboundUserDefinedMax at hle; omega
          refine ⟨by rw [h1, Nat.add_comm k 2, Nat.mod_eq_of_lt hlt], hlt, ?_⟩
          have hkg : k < gs'.length := by rw [hlen]; simpa using hk
          refine ⟨gs'[k], List.getElem?_eq_getElem hkg, ?_⟩
          have hmem : ((nds.map (·.d))[k]'(by simpa using hk), gs'[k]) ∈ (nds.map (·.d)).zip gs' := by
            rw [List.mem_iff_getElem]
            exact ⟨k, by simp only [List.length_zip, List.length_map]; exact Nat.lt_min.mpr ⟨hk, hkg⟩, by simp⟩
          have := hall _ hmem
          simpa using this

-- two groups: `g1` resolves to id 3 and holds the filtered members, not those of `g0`
example : ((buildConfig Demo.O Demo.pool Demo.twoGroups).toOption.map fun r => idOf r.2 [103, 49]) = some (some 3) ∧
    ((buildConfig Demo.O Demo.pool Demo.twoGroups).toOption.map fun r => idOf r.2 [103, 48]) = some (some 2) ∧
    ((buildConfig Demo.O Demo.pool Demo.twoGroups).toOption.map fun r => idOf r.2 sDirect) = some (some 0) ∧
    ((buildConfig Demo.O Demo.pool Demo.twoGroups).toOption.map fun r => r.1.map (·.members))
      = some [[(0, 0), (1, 0), (2, 0), (3, 0)], [(1, 0), (2, 0), (3, 5000000)]] := by decide

/-- A group name used twice, or a group called `direct` / `block`, is a configuration error —
whatever the definitions are (no group silently shadows another). -/
theorem duplicate_or_reserved_group_name_rejected (O : Oracle) (pool : List Node) (nds : List NamedDef)
    (hdup : ¬ (sDirect :: sBlock :: nds.map (·.name)).Nodup) :
    ∃ e, buildConfig O pool nds = .error e := by
  cases hb : buildConfig O pool nds with
  | error e => exact ⟨e, rfl⟩
  | ok r => exact absurd ((config_built_iff O pool nds).mp ⟨r, hb⟩).2.2 hdup

example : buildConfig Demo.O Demo.pool
      [⟨[103, 48], ⟨.str sMin, [], []⟩⟩, ⟨sBlock, ⟨.str sRandom, [], []⟩⟩] = .error (.dupName sBlock) ∧
    buildConfig Demo.O Demo.pool
      [⟨[103, 48], ⟨.str sMin, [], []⟩⟩, ⟨[103, 48], ⟨.str sRandom, [], []⟩⟩] = .error (.dupName [103, 48]) := by
  decide

/-- More groups than outbound ids (`OutboundUserDefinedMax` = 251 outbounds, i.e. 249 groups) is a
configuration error; exactly 249 buildable, distinctly named groups are accepted (`config_built_iff`). -/
theorem too_many_groups_rejected (O : Oracle) (pool : List Node) (nds : List NamedDef)
    (hmany : nds.length + 2 > outboundUserDefinedMax) :
    ∃ e, buildConfig O pool nds = .error e := by
  cases hb : buildConfig O pool nds with
  | error e => exact ⟨e, rfl⟩
  | ok r => exact absurd ((config_built_iff O pool nds).mp ⟨r, hb⟩).2.1 (by omega)

-- 250 groups are too many (the hypothesis is satisfiable); three groups are not
example : ((List.range 250).map fun k => (⟨[103, k], ⟨.str sMin, [], []⟩⟩ : NamedDef)).length + 2
    > outboundUserDefinedMax := by simp [outboundUserDefinedMax]

end DaeVerif.C14.Props
