import DaeVerif.C14.Proofs
namespace DaeVerif.C14.Props
open DaeVerif.C14
theorem placeholder : containsSub [1,2,3] [2,3] = true := by decide
end DaeVerif.C14.Props
