import DaeVerif.C14.Model
/-! Helper lemmas for C14 (the property theorems are in `Props.lean`). -/
namespace DaeVerif.C14

/-! ### constants are distinct -/
theorem sRegex_ne_nil : sRegex ≠ [] := by decide
theorem sRegex_ne_keyword : sRegex ≠ sKeyword := by decide
theorem sKeyword_ne_nil : sKeyword ≠ [] := by decide
theorem sKeyword_ne_regex : sKeyword ≠ sRegex := by decide
theorem sSubtag_ne_name : sSubtag ≠ sName := by decide

/-! ### strings.Contains -/
theorem containsSub_iff (s k : Str) : containsSub s k = true ↔ k <:+: s := by
  induction s with
  | nil =>
    simp only [containsSub, List.isPrefixOf_iff_prefix, List.prefix_nil, List.infix_nil]
  | cons c s ih =>
    simp only [containsSub, Bool.or_eq_true, List.isPrefixOf_iff_prefix, ih, List.infix_cons_iff]

/-! ### validateFilter -/
theorem validateParams_none_iff (O : Oracle) (fname : Str) (ps : List Param) :
    validateParams O fname sRegex ps = none ↔ ∀ p ∈ ps, ParamValid O fname p := by
  induction ps with
  | nil => simp [validateParams]
  | cons p ps ih =>
    rw [List.forall_mem_cons, ← ih]
    rw [validateParams]
    by_cases h1 : p.key = sRegex
    · rw [if_pos h1]
      cases hre : O.re p.val with
      | none =>
        simp only [reduceCtorEq, false_iff, not_and]
        intro hv
        rcases hv with ⟨_, h⟩ | h | ⟨h, _⟩
        · rw [hre] at h; cases h
        · rw [h1] at h; exact absurd h sRegex_ne_nil
        · rw [h1] at h; exact absurd h sRegex_ne_keyword
      | some m =>
        simp only
        constructor
        · intro h; exact ⟨Or.inl ⟨h1, by rw [hre]; rfl⟩, h⟩
        · intro h; exact h.2
    · rw [if_neg h1]
      by_cases h2 : p.key = []
      · rw [if_pos h2]
        constructor
        · intro h; exact ⟨Or.inr (Or.inl h2), h⟩
        · intro h; exact h.2
      · rw [if_neg h2]
        by_cases h3 : p.key = sKeyword ∧ fname = sName
        · rw [if_pos h3]
          constructor
          · intro h; exact ⟨Or.inr (Or.inr h3), h⟩
          · intro h; exact h.2
        · rw [if_neg h3]
          simp only [reduceCtorEq, false_iff, not_and]
          intro hv
          rcases hv with ⟨h, _⟩ | h | h
          · exact absurd h h1
          · exact absurd h h2
          · exact absurd h h3

theorem validateLine_none_iff (O : Oracle) (l : Line) : validateLine O l = none ↔ LineValid O l := by
  induction l with
  | nil => simp [validateLine, LineValid]
  | cons f fs ih =>
    unfold LineValid at ih ⊢
    rw [List.forall_mem_cons, ← ih]
    rw [validateLine]; unfold FuncValid
    by_cases hn : f.name = sName ∨ f.name = sSubtag
    · rw [if_pos hn]
      cases hp : validateParams O f.name sRegex f.params with
      | none =>
        simp only
        have := (validateParams_none_iff O f.name f.params).mp hp
        constructor
        · intro h; exact ⟨⟨hn, this⟩, h⟩
        · intro h; exact h.2
      | some e =>
        simp only [reduceCtorEq, false_iff, not_and]
        intro ⟨_, hv⟩
        have := (validateParams_none_iff O f.name f.params).mpr hv
        rw [hp] at this; cases this
    · rw [if_neg hn]
      simp only [reduceCtorEq, false_iff, not_and]
      intro ⟨h, _⟩; exact absurd h hn

/-! ### NewAnnotation -/
theorem annoValue_cons_some (O : Oracle) (p : Param) (ps : List Param) (d : Int)
    (h : O.dur p.val = some d) : annoValue O (p :: ps) = if d ≠ 0 then d else annoValue O ps := by
  unfold annoValue
  rw [List.filterMap_cons, h]
  simp only [List.find?_cons]
  by_cases hd : d = 0
  · simp [hd]
  · simp [hd]

theorem newAnnotationAux_ok (O : Oracle) (a : List Param) :
    ∀ (acc v : Int), newAnnotationAux O a acc = .ok v →
      AnnoValid O a ∧ v = (if acc ≠ 0 then acc else annoValue O a) := by
  induction a with
  | nil =>
    intro acc v h
    simp only [newAnnotationAux, Except.ok.injEq] at h
    refine ⟨(by intro p hp; cases hp), ?_⟩
    subst h
    by_cases hacc : acc = 0
    · simp [hacc, annoValue]
    · simp [hacc]
  | cons p ps ih =>
    intro acc v h
    rw [newAnnotationAux] at h
    by_cases hk : p.key = sAddLatency
    · rw [if_pos hk] at h
      cases hd : O.dur p.val with
      | none => rw [hd] at h; cases h
      | some d =>
        rw [hd] at h
        simp only at h
        obtain ⟨hv, hval⟩ := ih _ _ h
        refine ⟨?_, ?_⟩
        · intro q hq
          rcases List.mem_cons.mp hq with rfl | hq
          · exact ⟨hk, by rw [hd]; rfl⟩
          · exact hv q hq
        · rw [hval, annoValue_cons_some O p ps d hd]
          by_cases hacc : acc = 0
          · simp [hacc]
          · simp [hacc]
    · rw [if_neg hk] at h; cases h

theorem newAnnotationAux_of_valid (O : Oracle) (a : List Param) :
    ∀ (acc : Int), AnnoValid O a → ∃ v, newAnnotationAux O a acc = .ok v := by
  induction a with
  | nil => intro acc _; exact ⟨acc, rfl⟩
  | cons p ps ih =>
    intro acc hv
    have hp := hv p (List.mem_cons_self)
    rw [newAnnotationAux, if_pos hp.1]
    cases hd : O.dur p.val with
    | none => rw [hd] at hp; cases hp.2
    | some d =>
      simp only
      exact ih _ (fun q hq => hv q (List.mem_cons_of_mem _ hq))

theorem newAnnotation_of_valid (O : Oracle) (a : List Param) (hv : AnnoValid O a) :
    newAnnotation O a = .ok (annoValue O a) := by
  obtain ⟨v, h⟩ := newAnnotationAux_of_valid O a 0 hv
  have := (newAnnotationAux_ok O a 0 v h).2
  simp only [ne_eq, not_true_eq_false, if_false] at this
  unfold newAnnotation
  rw [h, this]

theorem newAnnotation_ok_valid (O : Oracle) (a : List Param) (v : Int)
    (h : newAnnotation O a = .ok v) : AnnoValid O a := (newAnnotationAux_ok O a 0 v h).1

/-! ### the validation loop -/
theorem validateDef_none_iff (O : Oracle) (lines : List (Line × List Param)) :
    validateDef O lines = none ↔ DefValid O lines := by
  induction lines with
  | nil => simp [validateDef, DefValid]
  | cons la rest ih =>
    obtain ⟨l, a⟩ := la
    unfold DefValid at ih ⊢
    rw [List.forall_mem_cons, ← ih, validateDef]
    cases hl : validateLine O l with
    | some e =>
      simp only [reduceCtorEq, false_iff, not_and]
      intro ⟨h, _⟩
      have := (validateLine_none_iff O l).mpr h
      rw [hl] at this; cases this
    | none =>
      have hlv := (validateLine_none_iff O l).mp hl
      simp only
      cases ha : newAnnotation O a with
      | error e =>
        simp only [reduceCtorEq, false_iff, not_and]
        intro ⟨_, h⟩
        rw [newAnnotation_of_valid O a h] at ha; cases ha
      | ok v =>
        simp only
        constructor
        · intro h; exact ⟨⟨hlv, newAnnotation_ok_valid O a v ha⟩, h⟩
        · intro h; exact h.2

/-! ### filterHit on a valid line computes the meaning of the line -/
theorem nameParam_of_valid (O : Oracle) (n : Node) (p : Param) (hv : ParamValid O sName p) :
    nameParam O n sName p = .ok (paramSat O n sName p) := by
  unfold nameParam paramSat
  simp only [if_true]
  by_cases h1 : p.key = sRegex
  · rw [if_pos h1, if_pos h1]
    cases hre : O.re p.val with
    | none =>
      rcases hv with ⟨_, h⟩ | h | ⟨h, _⟩
      · rw [hre] at h; cases h
      · rw [h1] at h; exact absurd h sRegex_ne_nil
      · rw [h1] at h; exact absurd h sRegex_ne_keyword
    | some m => rfl
  · rw [if_neg h1, if_neg h1]
    by_cases h2 : p.key = sKeyword
    · rw [if_pos h2, if_pos h2]
    · rw [if_neg h2, if_neg h2]
      rcases hv with ⟨h, _⟩ | h | ⟨h, _⟩
      · exact absurd h h1
      · rw [if_pos h]
      · exact absurd h h2

theorem tagParam_of_valid (O : Oracle) (n : Node) (p : Param) (hv : ParamValid O sSubtag p) :
    tagParam O n sSubtag p = .ok (paramSat O n sSubtag p) := by
  unfold tagParam paramSat
  simp only [sSubtag_ne_name, if_false]
  by_cases h1 : p.key = sRegex
  · rw [if_pos h1, if_pos h1]
    cases hre : O.re p.val with
    | none =>
      rcases hv with ⟨_, h⟩ | h | ⟨h, _⟩
      · rw [hre] at h; cases h
      · rw [h1] at h; exact absurd h sRegex_ne_nil
      · rw [h1] at h; exact absurd h sRegex_ne_keyword
    | some m => rfl
  · rw [if_neg h1, if_neg h1]
    rcases hv with ⟨h, _⟩ | h | ⟨_, h⟩
    · exact absurd h h1
    · rw [if_pos h]
      have : p.key ≠ sKeyword := by rw [h]; exact fun e => sKeyword_ne_nil e.symm
      rw [if_neg this]
    · exact absurd h sSubtag_ne_name

theorem orParams_of_ok (f : Param → Except Err Bool) (g : Param → Bool) (ps : List Param)
    (h : ∀ p ∈ ps, f p = .ok (g p)) : orParams f ps = .ok (ps.any g) := by
  induction ps with
  | nil => rfl
  | cons p ps ih =>
    rw [orParams, h p List.mem_cons_self, List.any_cons]
    cases hg : g p with
    | true => rfl
    | false =>
      simp only [Bool.false_or]
      exact ih (fun q hq => h q (List.mem_cons_of_mem _ hq))

theorem funcHit_of_valid (O : Oracle) (n : Node) (f : Func) (hv : FuncValid O f) :
    funcHit O n f = .ok (f.params.any (paramSat O n f.name)) := by
  unfold funcHit
  rcases hv with ⟨hn | hn, hp⟩
  · rw [if_pos hn, hn]
    apply orParams_of_ok
    intro p hpm
    exact nameParam_of_valid O n p (hn ▸ hp p hpm)
  · have : f.name ≠ sName := by rw [hn]; exact sSubtag_ne_name
    rw [if_neg this, if_pos hn, hn]
    apply orParams_of_ok
    intro p hpm
    exact tagParam_of_valid O n p (hn ▸ hp p hpm)

theorem filterHit_of_valid (O : Oracle) (n : Node) (l : Line) (hv : LineValid O l) :
    filterHit O n l = .ok (lineHolds O n l) := by
  induction l with
  | nil => rfl
  | cons f fs ih =>
    have hf := hv f List.mem_cons_self
    have hfs : LineValid O fs := fun g hg => hv g (List.mem_cons_of_mem _ hg)
    rw [filterHit, funcHit_of_valid O n f hf]
    simp only
    unfold lineHolds at ih ⊢
    rw [List.all_cons]
    unfold funcHolds
    by_cases h : (f.params.any (paramSat O n f.name)) = f.neg
    · rw [if_pos h, h]
      simp
    · rw [if_neg h, ih hfs]
      have : ((f.params.any (paramSat O n f.name)) != f.neg) = true := by
        cases h1 : f.params.any (paramSat O n f.name) <;> cases h2 : f.neg <;> simp_all
      rw [this, Bool.true_and]
      rfl

/-! ### the selection loops on a valid definition -/
theorem firstHit_of_valid (O : Oracle) (n : Node) (lines : List (Line × List Param))
    (hv : DefValid O lines) :
    firstHit O n lines =
      .ok ((lines.find? fun la => lineHolds O n la.1).map fun la => annoValue O la.2) := by
  induction lines with
  | nil => rfl
  | cons la rest ih =>
    obtain ⟨l, a⟩ := la
    have hla := hv (l, a) List.mem_cons_self
    have hrest : DefValid O rest := fun x hx => hv x (List.mem_cons_of_mem _ hx)
    rw [firstHit, filterHit_of_valid O n l hla.1, List.find?_cons]
    cases hh : lineHolds O n l with
    | true =>
      simp only
      rw [newAnnotation_of_valid O a hla.2]
      rfl
    | false =>
      simp only
      exact ih hrest

/-- The per-node outcome the specification assigns. -/
def specOne (O : Oracle) (lines : List (Line × List Param)) (ni : Node × Nat) : Option (Nat × Int) :=
  (lines.find? fun la => lineHolds O ni.1 la.1).map fun la => (ni.2, annoValue O la.2)

theorem specMembers_eq (O : Oracle) (lines : List (Line × List Param)) (pool : List Node) :
    specMembers O lines pool = pool.zipIdx.filterMap (specOne O lines) := rfl

theorem selectNodes_of_valid (O : Oracle) (lines : List (Line × List Param))
    (hv : DefValid O lines) (ns : List (Node × Nat)) :
    selectNodes O lines ns = .ok (ns.filterMap (specOne O lines)) := by
  induction ns with
  | nil => rfl
  | cons ni ns ih =>
    obtain ⟨n, i⟩ := ni
    rw [selectNodes, firstHit_of_valid O n lines hv, List.filterMap_cons, ih]
    unfold specOne
    cases hf : lines.find? (fun la => lineHolds O n la.1) with
    | none => rfl
    | some la => rfl

/-! ### lists -/
theorem exists_zip_of_mem_left {α β : Type} :
    ∀ (l₁ : List α) (l₂ : List β), l₁.length = l₂.length → ∀ a ∈ l₁, ∃ b, (a, b) ∈ l₁.zip l₂
  | [], _, _, a, h => by cases h
  | x :: xs, [], hl, _, _ => by simp at hl
  | x :: xs, y :: ys, hl, a, h => by
    rcases List.mem_cons.mp h with rfl | h
    · exact ⟨y, by simp⟩
    · obtain ⟨b, hb⟩ := exists_zip_of_mem_left xs ys (by simpa using hl) a h
      exact ⟨b, by simp [hb]⟩

theorem exists_zip_of_mem_right {α β : Type} :
    ∀ (l₁ : List α) (l₂ : List β), l₁.length = l₂.length → ∀ b ∈ l₂, ∃ a, (a, b) ∈ l₁.zip l₂
  | _, [], _, b, h => by cases h
  | [], y :: ys, hl, _, _ => by simp at hl
  | x :: xs, y :: ys, hl, b, h => by
    rcases List.mem_cons.mp h with rfl | h
    · exact ⟨x, by simp⟩
    · obtain ⟨a, ha⟩ := exists_zip_of_mem_right xs ys (by simpa using hl) b h
      exact ⟨a, by simp [ha]⟩

theorem filterMap_fst_sublist {α β : Type} (k : α → Nat) (g : α → Option β) (l : List α) :
    ((l.filterMap fun x => (g x).map fun y => (k x, y)).map Prod.fst).Sublist (l.map k) := by
  induction l with
  | nil => exact List.Sublist.slnil
  | cons x xs ih =>
    rw [List.filterMap_cons, List.map_cons]
    cases hg : g x with
    | none => simp only [Option.map_none]; exact List.Sublist.cons _ ih
    | some y => simp only [Option.map_some, List.map_cons]; exact List.Sublist.cons_cons _ ih

/-! ### every reported error points at a real invalid item -/
theorem validateParams_some (O : Oracle) (fname : Str) (ps : List Param) (e : Err)
    (h : validateParams O fname sRegex ps = some e) :
    (∃ p ∈ ps, e = .badKey p.key fname ∧ ¬ ParamValid O fname p) ∨
    (∃ p ∈ ps, e = .badRegex p.val ∧ p.key = sRegex ∧ O.re p.val = none) := by
  induction ps with
  | nil => simp [validateParams] at h
  | cons p ps ih =>
    have lift : ((∃ q ∈ ps, e = .badKey q.key fname ∧ ¬ ParamValid O fname q) ∨
        (∃ q ∈ ps, e = .badRegex q.val ∧ q.key = sRegex ∧ O.re q.val = none)) →
        ((∃ q ∈ p :: ps, e = .badKey q.key fname ∧ ¬ ParamValid O fname q) ∨
        (∃ q ∈ p :: ps, e = .badRegex q.val ∧ q.key = sRegex ∧ O.re q.val = none)) := by
      rintro (⟨q, hq, h'⟩ | ⟨q, hq, h'⟩)
      · exact Or.inl ⟨q, List.mem_cons_of_mem _ hq, h'⟩
      · exact Or.inr ⟨q, List.mem_cons_of_mem _ hq, h'⟩
    rw [validateParams] at h
    by_cases h1 : p.key = sRegex
    · rw [if_pos h1] at h
      cases hre : O.re p.val with
      | none =>
        rw [hre] at h
        simp only [Option.some.injEq] at h
        exact Or.inr ⟨p, List.mem_cons_self, h.symm, h1, hre⟩
      | some m => rw [hre] at h; exact lift (ih h)
    · rw [if_neg h1] at h
      by_cases h2 : p.key = []
      · rw [if_pos h2] at h; exact lift (ih h)
      · rw [if_neg h2] at h
        by_cases h3 : p.key = sKeyword ∧ fname = sName
        · rw [if_pos h3] at h; exact lift (ih h)
        · rw [if_neg h3] at h
          simp only [Option.some.injEq] at h
          refine Or.inl ⟨p, List.mem_cons_self, h.symm, ?_⟩
          rintro (⟨hh, _⟩ | hh | hh)
          · exact h1 hh
          · exact h2 hh
          · exact h3 hh

theorem validateLine_some (O : Oracle) (l : Line) (e : Err) (h : validateLine O l = some e) :
    ErrWitness O [l] [] e ∧ (∀ a, e ≠ .annoKey a) ∧ (∀ a, e ≠ .annoLatency a) ∧
      (∀ a b, e ≠ .lenMismatch a b) := by
  induction l with
  | nil => simp [validateLine] at h
  | cons f fs ih =>
    rw [validateLine] at h
    by_cases hn : f.name = sName ∨ f.name = sSubtag
    · rw [if_pos hn] at h
      cases hp : validateParams O f.name sRegex f.params with
      | none =>
        rw [hp] at h
        obtain ⟨hw, r⟩ := ih h
        refine ⟨?_, r⟩
        cases e with
        | lenMismatch a b => exact absurd rfl (r.2.2 a b)
        | badInput nm =>
          obtain ⟨l', hl', g, hg, hh⟩ := hw
          rw [List.mem_singleton] at hl'; subst hl'
          exact ⟨_, List.mem_singleton.mpr rfl, g, List.mem_cons_of_mem _ hg, hh⟩
        | badKey k nm =>
          obtain ⟨l', hl', g, hg, hh⟩ := hw
          rw [List.mem_singleton] at hl'; subst hl'
          exact ⟨_, List.mem_singleton.mpr rfl, g, List.mem_cons_of_mem _ hg, hh⟩
        | badRegex pat =>
          obtain ⟨l', hl', g, hg, hh⟩ := hw
          rw [List.mem_singleton] at hl'; subst hl'
          exact ⟨_, List.mem_singleton.mpr rfl, g, List.mem_cons_of_mem _ hg, hh⟩
        | annoKey k => exact absurd rfl (r.1 k)
        | annoLatency v => exact absurd rfl (r.2.1 v)
      | some e' =>
        rw [hp] at h
        simp only [Option.some.injEq] at h
        subst h
        rcases validateParams_some O f.name f.params e' hp with ⟨p, hpm, he, hnv⟩ | ⟨p, hpm, he, hk, hre⟩
        · subst he
          exact ⟨⟨_, List.mem_singleton.mpr rfl, f, List.mem_cons_self, p, hpm, rfl, rfl, hnv⟩,
            by intros; simp, by intros; simp, by intros; simp⟩
        · subst he
          exact ⟨⟨_, List.mem_singleton.mpr rfl, f, List.mem_cons_self, p, hpm, hk, rfl, hre⟩,
            by intros; simp, by intros; simp, by intros; simp⟩
    · rw [if_neg hn] at h
      simp only [Option.some.injEq] at h
      subst h
      refine ⟨⟨_, List.mem_singleton.mpr rfl, f, List.mem_cons_self, rfl, ?_, ?_⟩,
        by intros; simp, by intros; simp, by intros; simp⟩
      · exact fun hh => hn (Or.inl hh)
      · exact fun hh => hn (Or.inr hh)

theorem newAnnotationAux_error (O : Oracle) (a : List Param) :
    ∀ (acc : Int) (e : Err), newAnnotationAux O a acc = .error e →
      (∃ p ∈ a, e = .annoKey p.key ∧ p.key ≠ sAddLatency) ∨
      (∃ p ∈ a, e = .annoLatency p.val ∧ p.key = sAddLatency ∧ O.dur p.val = none) := by
  induction a with
  | nil => intro acc e h; simp [newAnnotationAux] at h
  | cons p ps ih =>
    intro acc e h
    rw [newAnnotationAux] at h
    by_cases hk : p.key = sAddLatency
    · rw [if_pos hk] at h
      cases hd : O.dur p.val with
      | none =>
        rw [hd] at h
        simp only [Except.error.injEq] at h
        exact Or.inr ⟨p, List.mem_cons_self, h.symm, hk, hd⟩
      | some d =>
        rw [hd] at h
        rcases ih _ e h with ⟨q, hq, h'⟩ | ⟨q, hq, h'⟩
        · exact Or.inl ⟨q, List.mem_cons_of_mem _ hq, h'⟩
        · exact Or.inr ⟨q, List.mem_cons_of_mem _ hq, h'⟩
    · rw [if_neg hk] at h
      simp only [Except.error.injEq] at h
      exact Or.inl ⟨p, List.mem_cons_self, h.symm, hk⟩

theorem validateDef_some (O : Oracle) (lines : List (Line × List Param)) (e : Err)
    (h : validateDef O lines = some e) :
    ErrWitness O (lines.map Prod.fst) (lines.map Prod.snd) e := by
  induction lines with
  | nil => simp [validateDef] at h
  | cons la rest ih =>
    obtain ⟨l, a⟩ := la
    rw [validateDef] at h
    cases hl : validateLine O l with
    | some e' =>
      rw [hl] at h
      simp only [Option.some.injEq] at h
      subst h
      obtain ⟨hw, h1, h2, h3⟩ := validateLine_some O l e' hl
      cases e' with
      | lenMismatch a b => exact absurd rfl (h3 a b)
      | badInput nm =>
        obtain ⟨l', hl', r⟩ := hw
        rw [List.mem_singleton] at hl'; subst hl'
        exact ⟨_, by simp, r⟩
      | badKey k nm =>
        obtain ⟨l', hl', r⟩ := hw
        rw [List.mem_singleton] at hl'; subst hl'
        exact ⟨_, by simp, r⟩
      | badRegex pat =>
        obtain ⟨l', hl', r⟩ := hw
        rw [List.mem_singleton] at hl'; subst hl'
        exact ⟨_, by simp, r⟩
      | annoKey k => exact absurd rfl (h1 k)
      | annoLatency v => exact absurd rfl (h2 v)
    | none =>
      rw [hl] at h
      simp only at h
      cases ha : newAnnotation O a with
      | error e' =>
        rw [ha] at h
        simp only [Option.some.injEq] at h
        subst h
        rcases newAnnotationAux_error O a 0 e' ha with ⟨p, hp, he, hk⟩ | ⟨p, hp, he, hk, hd⟩
        · subst he; exact ⟨a, by simp, p, hp, rfl, hk⟩
        · subst he; exact ⟨a, by simp, p, hp, hk, rfl, hd⟩
      | ok v =>
        rw [ha] at h
        simp only at h
        have hw := ih h
        · cases e with
          | lenMismatch a b => exact absurd (by rw [hw.1, hw.2.1]; simp) hw.2.2
          | badInput nm =>
            obtain ⟨l', hl', r⟩ := hw
            exact ⟨l', by simp only [List.map_cons]; exact List.mem_cons_of_mem _ hl', r⟩
          | badKey k nm =>
            obtain ⟨l', hl', r⟩ := hw
            exact ⟨l', by simp only [List.map_cons]; exact List.mem_cons_of_mem _ hl', r⟩
          | badRegex pat =>
            obtain ⟨l', hl', r⟩ := hw
            exact ⟨l', by simp only [List.map_cons]; exact List.mem_cons_of_mem _ hl', r⟩
          | annoKey k =>
            obtain ⟨l', hl', r⟩ := hw
            exact ⟨l', by simp only [List.map_cons]; exact List.mem_cons_of_mem _ hl', r⟩
          | annoLatency v =>
            obtain ⟨l', hl', r⟩ := hw
            exact ⟨l', by simp only [List.map_cons]; exact List.mem_cons_of_mem _ hl', r⟩

/-! ### strconv.Atoi -/
theorem digitsVal_iff (cs : List Nat) : ∀ (acc v : Nat),
    digitsVal cs acc = some v ↔
      (∀ c ∈ cs, 48 ≤ c ∧ c ≤ 57) ∧ v = (cs.map (· - 48)).foldl (fun a d => a * 10 + d) acc := by
  induction cs with
  | nil => intro acc v; simp [digitsVal, eq_comm]
  | cons c cs ih =>
    intro acc v
    rw [digitsVal]
    by_cases hc : 48 ≤ c ∧ c ≤ 57
    · rw [if_pos hc, ih]
      simp only [List.forall_mem_cons, List.map_cons, List.foldl_cons]
      constructor
      · rintro ⟨h1, h2⟩; exact ⟨⟨hc, h1⟩, h2⟩
      · rintro ⟨⟨_, h1⟩, h2⟩; exact ⟨h1, h2⟩
    · rw [if_neg hc]
      simp only [reduceCtorEq, List.forall_mem_cons, false_iff, not_and]
      intro ⟨h, _⟩; exact absurd h hc

theorem map_sub_add_48 (cs : List Nat) (h : ∀ c ∈ cs, 48 ≤ c ∧ c ≤ 57) :
    (cs.map (· - 48)).map (· + 48) = cs := by
  induction cs with
  | nil => rfl
  | cons c cs ih =>
    simp only [List.map_cons, List.cons.injEq]
    have := h c List.mem_cons_self
    exact ⟨by omega, ih (fun x hx => h x (List.mem_cons_of_mem _ hx))⟩

theorem map_add_sub_48 (ds : List Nat) : (ds.map (· + 48)).map (· - 48) = ds := by
  induction ds with
  | nil => rfl
  | cons d ds ih => simp only [List.map_cons, List.cons.injEq]; exact ⟨by omega, ih⟩

/-- the body after the sign, as `atoi` computes it -/
def atoiBody (neg : Bool) (body : Str) : Option Int :=
  if body.isEmpty then none
  else match digitsVal body 0 with
    | none => none
    | some v =>
      if neg then (if v ≤ 2 ^ 63 then some (-(v : Int)) else none)
      else (if v < 2 ^ 63 then some (v : Int) else none)

theorem atoi_minus (r : Str) : atoi (45 :: r) = atoiBody true r := rfl
theorem atoi_plus (r : Str) : atoi (43 :: r) = atoiBody false r := rfl
theorem atoi_nosign (s : Str) (h1 : ∀ r, s ≠ 45 :: r) (h2 : ∀ r, s ≠ 43 :: r) :
    atoi s = atoiBody false s := by
  unfold atoi
  split
  rename_i neg body heq
  split at heq
  · exact absurd rfl (h1 _)
  · exact absurd rfl (h2 _)
  · simp only [Prod.mk.injEq] at heq
    obtain ⟨rfl, rfl⟩ := heq
    rfl

theorem atoi_body (neg : Bool) (body : Str) (i : Int) :
    atoiBody neg body = some i ↔
    body ≠ [] ∧ (∀ c ∈ body, 48 ≤ c ∧ c ≤ 57) ∧
      i = (if neg then -(decVal (body.map (· - 48)) : Int) else (decVal (body.map (· - 48)) : Int)) ∧
      -(2 ^ 63 : Int) ≤ i ∧ i < 2 ^ 63 := by
  unfold atoiBody
  cases body with
  | nil => simp
  | cons c cs =>
    simp only [List.isEmpty_cons, Bool.false_eq_true, if_false, ne_eq, reduceCtorEq, not_false_eq_true,
      true_and]
    cases hd : digitsVal (c :: cs) 0 with
    | none =>
      simp only [reduceCtorEq, false_iff, not_and]
      intro hall
      have := (digitsVal_iff (c :: cs) 0 _).mpr ⟨hall, rfl⟩
      rw [hd] at this; cases this
    | some v =>
      obtain ⟨hall, hv⟩ := (digitsVal_iff (c :: cs) 0 v).mp hd
      have hv' : v = decVal ((c :: cs).map (· - 48)) := hv
      simp only
      cases neg with
      | true =>
        simp only [if_true]
        by_cases hr : v ≤ 2 ^ 63
        · rw [if_pos hr]
          simp only [Option.some.injEq]
          constructor
          · rintro rfl; exact ⟨hall, by rw [hv'], by omega, by omega⟩
          · rintro ⟨_, hi, _, _⟩; rw [hi, hv']
        · rw [if_neg hr]
          simp only [reduceCtorEq, false_iff, not_and]
          intro _ hi hlo _
          rw [← hv'] at hi; omega
      | false =>
        simp only [Bool.false_eq_true, if_false]
        by_cases hr : v < 2 ^ 63
        · rw [if_pos hr]
          simp only [Option.some.injEq]
          constructor
          · rintro rfl; exact ⟨hall, by rw [hv'], by omega, by omega⟩
          · rintro ⟨_, hi, _, _⟩; rw [hi, hv']
        · rw [if_neg hr]
          simp only [reduceCtorEq, false_iff, not_and]
          intro _ hi _ hhi
          rw [← hv'] at hi; omega

/-! ### time.ParseDuration -/
theorem leadingInt_all_digits (l : Str) : ∀ x, (∀ c ∈ l, isDigit c = true) →
    leadingInt l x = none ∨ ∃ y, leadingInt l x = some (y, []) := by
  induction l with
  | nil => intro x _; exact Or.inr ⟨x, rfl⟩
  | cons c cs ih =>
    intro x h
    rw [leadingInt, if_pos (h c List.mem_cons_self)]
    split
    · exact Or.inl rfl
    · simp only
      split
      · exact Or.inl rfl
      · exact ih _ (fun d hd => h d (List.mem_cons_of_mem _ hd))

/-! ### membership in the result, node by node -/
theorem mem_specMembers_iff (O : Oracle) (lines : List (Line × List Param)) (pool : List Node)
    (i : Nat) (v : Int) :
    (i, v) ∈ specMembers O lines pool ↔
      ∃ n, pool[i]? = some n ∧
        ((lines.find? fun la => lineHolds O n la.1).map fun la => annoValue O la.2) = some v := by
  rw [specMembers_eq, List.mem_filterMap]
  constructor
  · rintro ⟨⟨n, i'⟩, hni, hs⟩
    unfold specOne at hs
    cases hf : lines.find? (fun la => lineHolds O n la.1) with
    | none => rw [hf] at hs; cases hs
    | some la =>
      rw [hf] at hs
      simp only [Option.map_some, Option.some.injEq, Prod.mk.injEq] at hs
      obtain ⟨rfl, rfl⟩ := hs
      exact ⟨n, List.mem_zipIdx_iff_getElem?.mp hni, by rw [hf]; rfl⟩
  · rintro ⟨n, hn, hm⟩
    refine ⟨(n, i), List.mem_zipIdx_iff_getElem?.mpr hn, ?_⟩
    unfold specOne
    cases hf : lines.find? (fun la => lineHolds O n la.1) with
    | none => rw [hf] at hm; cases hm
    | some la =>
      rw [hf] at hm
      simp only [Option.map_some, Option.some.injEq] at hm
      subst hm
      rfl

theorem mem_allMembers_iff (pool : List Node) (i : Nat) (v : Int) :
    (i, v) ∈ pool.zipIdx.map (fun ni => (ni.2, (0 : Int))) ↔ (∃ n, pool[i]? = some n) ∧ v = 0 := by
  rw [List.mem_map]
  constructor
  · rintro ⟨⟨n, i'⟩, hni, he⟩
    simp only [Prod.mk.injEq] at he
    obtain ⟨rfl, rfl⟩ := he
    exact ⟨⟨n, List.mem_zipIdx_iff_getElem?.mp hni⟩, rfl⟩
  · rintro ⟨⟨n, hn⟩, rfl⟩
    exact ⟨(n, i), List.mem_zipIdx_iff_getElem?.mpr hn, rfl⟩

/-! ### the offset map of an alive set (a Go map filled in member order) -/

theorem mapGet_mapSet (m : List (Nat × Int)) (k : Nat) (v : Int) (i : Nat) :
    mapGet (mapSet m k v) i = if k = i then some v else mapGet m i := by
  unfold mapGet mapSet
  by_cases hk : k = i
  · subst hk; simp
  · rw [if_neg hk, List.find?_cons_of_neg (by simpa using hk)]
    congr 1
    rw [List.find?_filter]
    congr 1
    funext a
    by_cases h : a.1 = i
    · have hne : a.1 ≠ k := fun h' => hk (h' ▸ h)
      have h1 : (a.1 != k) = true := by simpa using hne
      have h3 : (a.1 == i) = true := by simpa using h
      simp [h1, h3]
    · have h2 : (a.1 == i) = false := by simpa using h
      simp [h2]

/-- later writes win -/
theorem mapGet_foldl_mapSet (ms : List (Nat × Int)) : ∀ (m : List (Nat × Int)) (i : Nat),
    mapGet (ms.foldl (fun m e => mapSet m e.1 e.2) m) i =
      match ms.reverse.find? (fun e => e.1 == i) with
      | some e => some e.2
      | none => mapGet m i := by
  induction ms with
  | nil => intro m i; rfl
  | cons e rest ih =>
    intro m i
    rw [List.foldl_cons, ih, List.reverse_cons, List.find?_append]
    cases hr : rest.reverse.find? (fun e => e.1 == i) with
    | some e' => rfl
    | none =>
      simp only [Option.none_or]
      rw [mapGet_mapSet]
      by_cases he : e.1 = i
      · rw [if_pos he, List.find?_cons_of_pos (by simp [he])]
      · rw [if_neg he, List.find?_cons_of_neg (by simp [he])]
        rfl

theorem eq_of_fst_eq_of_pairwise {l : List (Nat × Int)} (hp : l.Pairwise (fun a b => a.1 < b.1))
    {a b : Nat × Int} (ha : a ∈ l) (hb : b ∈ l) (hab : a.1 = b.1) : a = b := by
  induction l with
  | nil => cases ha
  | cons x xs ih =>
    obtain ⟨hx, hxs⟩ := List.pairwise_cons.mp hp
    rcases List.mem_cons.mp ha with rfl | ha' <;> rcases List.mem_cons.mp hb with rfl | hb'
    · rfl
    · have := hx b hb'; omega
    · have := hx a ha'; omega
    · exact ih hxs ha' hb'

/-- With one entry per member (members are listed once), the map answers each member's own
annotation and nothing else. -/
theorem mapGet_offsetTable (ms : List (Nat × Int)) (hp : (ms.map Prod.fst).Pairwise (· < ·)) (i : Nat) :
    (∀ v, (i, v) ∈ ms → mapGet (offsetTable ms) i = some v) ∧
    ((∀ v, (i, v) ∉ ms) → mapGet (offsetTable ms) i = none) := by
  have hp' : ms.Pairwise (fun a b => a.1 < b.1) := List.pairwise_map.mp hp
  unfold offsetTable
  rw [mapGet_foldl_mapSet]
  constructor
  · intro v hv
    cases hr : ms.reverse.find? (fun e => e.1 == i) with
    | some e =>
      have hmem : e ∈ ms := List.mem_reverse.mp (List.mem_of_find?_eq_some hr)
      have hk : e.1 = i := by simpa using List.find?_some hr
      have := eq_of_fst_eq_of_pairwise hp' hmem hv hk
      subst this
      rfl
    | none =>
      have := List.find?_eq_none.mp hr (i, v) (List.mem_reverse.mpr hv)
      simp at this
  · intro hn
    cases hr : ms.reverse.find? (fun e => e.1 == i) with
    | some e =>
      have hmem : e ∈ ms := List.mem_reverse.mp (List.mem_of_find?_eq_some hr)
      have hk : e.1 = i := by simpa using List.find?_some hr
      exact absurd (by rw [← hk]; exact hmem) (hn e.2)
    | none => rfl

/-! ### the outbound name table -/

theorem nameIds_ok_iff (names : List Str) : ∀ (i : Nat) (m r : List (Str × Nat)),
    nameIds names i m = .ok r ↔
      (names.Nodup ∧ ∀ nm ∈ names, ∀ e ∈ m, e.1 ≠ nm) ∧
        r = m ++ (names.zipIdx i).map (fun p => (p.1, p.2 % 256)) := by
  induction names with
  | nil =>
    intro i m r
    simp [nameIds, eq_comm]
  | cons nm rest ih =>
    intro i m r
    rw [nameIds]
    by_cases hany : m.any (fun e => e.1 = nm) = true
    · rw [if_pos hany]
      obtain ⟨e, he, hen⟩ := List.any_eq_true.mp hany
      simp only [reduceCtorEq, false_iff, not_and]
      intro ⟨_, hall⟩
      exact absurd (by simpa using hen) (hall nm (by simp) e he)
    · rw [if_neg hany, ih]
      have hnone : ∀ e ∈ m, e.1 ≠ nm := by
        intro e he hen
        exact hany (List.any_eq_true.mpr ⟨e, he, by simpa using hen⟩)
      rw [List.zipIdx_cons, List.map_cons, List.nodup_cons]
      constructor
      · rintro ⟨⟨hnd, hall⟩, rfl⟩
        refine ⟨⟨⟨?_, hnd⟩, ?_⟩, by simp⟩
        · intro hmem
          exact hall nm hmem (nm, i % 256) (by simp) rfl
        · intro nm' hnm' e he
          rcases List.mem_cons.mp hnm' with rfl | hr
          · exact hnone e he
          · exact hall nm' hr e (by simp [he])
      · rintro ⟨⟨⟨hnot, hnd⟩, hall⟩, rfl⟩
        refine ⟨⟨hnd, ?_⟩, by simp⟩
        intro nm' hnm' e he
        rcases List.mem_append.mp he with he | he
        · exact hall nm' (by simp [hnm']) e he
        · simp only [List.mem_singleton] at he
          subst he
          intro heq
          have hq : nm = nm' := heq
          exact hnot (hq ▸ hnm')

theorem nameIds_error (names : List Str) : ∀ (i : Nat) (m : List (Str × Nat)) (e : CErr),
    nameIds names i m = .error e → ∃ nm ∈ names, e = .dupName nm := by
  induction names with
  | nil => intro i m e h; simp [nameIds] at h
  | cons nm rest ih =>
    intro i m e h
    rw [nameIds] at h
    by_cases hany : m.any (fun e => e.1 = nm) = true
    · rw [if_pos hany] at h
      exact ⟨nm, by simp, (Except.error.inj h).symm⟩
    · rw [if_neg hany] at h
      obtain ⟨nm', hm, he⟩ := ih _ _ _ h
      exact ⟨nm', by simp [hm], he⟩

theorem idOf_zipIdx (names : List Str) : ∀ (i k : Nat) (hk : k < names.length), names.Nodup →
    idOf ((names.zipIdx i).map (fun p => (p.1, p.2 % 256))) names[k] = some ((i + k) % 256) := by
  induction names with
  | nil => intro i k hk; simp at hk
  | cons nm rest ih =>
    intro i k hk hnd
    obtain ⟨hnot, hnd'⟩ := List.nodup_cons.mp hnd
    unfold idOf
    rw [List.zipIdx_cons, List.map_cons]
    cases k with
    | zero => simp
    | succ k =>
      have hk' : k < rest.length := by simpa using hk
      have hne : nm ≠ rest[k] := fun h => hnot (h ▸ List.getElem_mem hk')
      rw [List.getElem_cons_succ, List.find?_cons_of_neg (by simpa using hne)]
      have := ih (i + 1) k hk' hnd'
      unfold idOf at this
      rw [this]
      congr 2
      omega

deriving instance DecidableEq for Except

/-! ### a concrete world for the non-vacuity examples -/
namespace Demo
def hk1 : Str := [104, 107, 45, 49]   -- "hk-1"
def sg2 : Str := [115, 103, 45, 50]   -- "sg-2"
def us3 : Str := [117, 115, 45, 51]   -- "us-3"
def sub : Str := [115, 117, 98]       -- "sub"
def ms5 : Str := [53, 109, 115]       -- "5ms"
def s0 : Str := [48, 115]             -- "0s"
/-- regex oracle: `(` does not compile; every other pattern matches the strings containing it.
duration oracle: "5ms", "0s". -/
def O : Oracle where
  re p := if p = [40] then none else some fun s => containsSub s p
  dur v := if v = ms5 then some 5000000 else if v = s0 then some 0 else none
def pool : List Node := [⟨hk1, sub⟩, ⟨sg2, sub⟩, ⟨us3, []⟩, ⟨hk1, []⟩]
/-- `filter: name(keyword: hk) && !subtag(sub) [add_latency: 0s, add_latency: 5ms]`,
`filter: name(regex: s)` -/
def filters : List Line :=
  [[⟨sName, false, [⟨sKeyword, [104, 107]⟩]⟩, ⟨sSubtag, true, [⟨[], sub⟩]⟩], [⟨sName, false, [⟨sRegex, [115]⟩]⟩]]
def annos : List (List Param) := [[⟨sAddLatency, s0⟩, ⟨sAddLatency, ms5⟩], []]
/-- `g0 { policy: min }`, `g1 { policy: random; <the demo filters> }` -/
def twoGroups : List NamedDef :=
  [⟨[103, 48], ⟨.str sMin, [], []⟩⟩, ⟨[103, 49], ⟨.str sRandom, filters, annos⟩⟩]
def badFilters : List Line := [[⟨sName, false, [⟨sKeyword, [122]⟩]⟩, ⟨[98], false, []⟩]]
end Demo

end DaeVerif.C14
