import DaeVerif.C20.Model
namespace DaeVerif.C20
end DaeVerif.C20
