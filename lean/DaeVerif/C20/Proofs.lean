import DaeVerif.C20.Model
/-!
# C20 — invariants and their preservation

The pending flag is treated as a *token*: it is created by the successful CAS in
`tryQueueReloadRequest` and travels queue → worker → (reloading flag →) main loop → (release
goroutine), until someone stores `pending=false`.  `tokens s` counts where tokens currently are;
the main invariant is `tokens s = [pending]`, hence at most one.  `owed s` counts the
`endReloadProxyFailureSuppression` calls that are still due; `suppress = owed`.
-/
namespace DaeVerif.C20

/-! ## weights of sections -/

def wsum (f : Micro → Nat) : List Micro → Nat
  | [] => 0
  | x :: xs => f x + wsum f xs

@[simp] theorem wsum_nil (f : Micro → Nat) : wsum f [] = 0 := rfl
@[simp] theorem wsum_cons (f : Micro → Nat) (x : Micro) (xs : List Micro) :
    wsum f (x :: xs) = f x + wsum f xs := rfl
@[simp] theorem wsum_append (f : Micro → Nat) (a b : List Micro) :
    wsum f (a ++ b) = wsum f a + wsum f b := by
  induction a with
  | nil => simp
  | cons x xs ih => simp [ih, Nat.add_assoc]

/-- sections of the worker that give the token away (release it, hand it to the main loop, or
take the process down). -/
def Micro.tokW : Micro → Nat
  | .storePF | .beginHandoff | .fatal => 1
  | _ => 0

/-- the main loop's signal path holds a freshly created token while `beginSend` is ahead. -/
def Micro.sigTok : Micro → Nat
  | .beginSend _ => 1
  | _ => 0

/-- sections of the run-state handler that give the token away. -/
def Micro.isRelM : Micro → Bool
  | .storePF | .finishFailHead | .finishSucc | .exitHold => true
  | _ => false

def Micro.relM (x : Micro) : Nat := if x.isRelM then 1 else 0

/-- sections that stand for one outstanding `endReloadProxyFailureSuppression`. -/
def Micro.sup : Micro → Nat
  | .endSupp | .beginHandoff | .fatal | .finishSucc | .exitHold => 1
  | _ => 0

def anyRelM (l : List Micro) : Bool := l.any Micro.isRelM

@[simp] theorem anyRelM_nil : anyRelM [] = false := rfl
@[simp] theorem anyRelM_cons (x : Micro) (xs : List Micro) :
    anyRelM (x :: xs) = (x.isRelM || anyRelM xs) := by simp [anyRelM]
@[simp] theorem anyRelM_append (a b : List Micro) : anyRelM (a ++ b) = (anyRelM a || anyRelM b) := by
  simp [anyRelM]

theorem anyRelM_false_of_relM_zero (l : List Micro) (h : wsum Micro.relM l = 0) : anyRelM l = false := by
  induction l with
  | nil => rfl
  | cons x xs ih =>
    simp only [wsum_cons, Micro.relM] at h
    cases hx : x.isRelM <;> simp [hx] at h ⊢
    exact ih h

/-- where the tokens are. -/
def tokens (s : St) : Nat :=
  s.queue.length + wsum Micro.tokW s.w + (s.reloading || anyRelM s.m).toNat +
    wsum Micro.sigTok s.m + s.gBlocked + s.gStore

/-- outstanding `endReloadProxyFailureSuppression` calls. -/
def owed (s : St) : Nat :=
  s.queue.length + wsum Micro.sup s.w + wsum Micro.sup s.m + (s.reloading && !anyRelM s.m).toNat +
    s.gBlocked + s.gStore + s.gEnd

/-! ## syntactic well-formedness of programs -/

def Micro.wAllowed : Micro → Bool
  | .setActive _ | .coalesce | .setErr _ | .nop | .storePF | .endSupp | .readProg
  | .writeClr | .setStaged _ | .clearRet | .beginHandoff | .startRet | .notifyM | .fatal => true
  | .setProg p => !p.isBusy
  | _ => false

def Micro.mAllowed : Micro → Bool
  | .setProg p => !p.isBusy
  | .casQ _ | .beginSend _ | .endSupp | .writeBusy _ | .storePF | .readProg | .writeClr
  | .setActive false | .setErr _ | .nop | .setStaged _ | .startRet
  | .storeReloading false | .waitReady | .setResult | .finishFailHead | .finishSucc
  | .exitHold | .exitIdle => true
  | _ => false

def Micro.isReader : Micro → Bool
  | .readProg | .writeClr | .writeBusy _ => true
  | _ => false

def Micro.clrW : Micro → Bool
  | .setActive false | .beginHandoff | .fatal => true
  | _ => false

def Micro.clrM : Micro → Bool
  | .setActive false | .finishFailHead | .finishSucc | .exitHold => true
  | _ => false

def anyRd (l : List Micro) : Bool := l.any Micro.isReader
def anyClrW (l : List Micro) : Bool := l.any Micro.clrW
def anyClrM (l : List Micro) : Bool := l.any Micro.clrM

@[simp] theorem anyRd_nil : anyRd [] = false := rfl
@[simp] theorem anyRd_cons (x : Micro) (xs : List Micro) : anyRd (x :: xs) = (x.isReader || anyRd xs) := by
  simp [anyRd]
@[simp] theorem anyRd_append (a b : List Micro) : anyRd (a ++ b) = (anyRd a || anyRd b) := by simp [anyRd]
@[simp] theorem anyClrW_nil : anyClrW [] = false := rfl
@[simp] theorem anyClrW_cons (x : Micro) (xs : List Micro) : anyClrW (x :: xs) = (x.clrW || anyClrW xs) := by
  simp [anyClrW]
@[simp] theorem anyClrW_append (a b : List Micro) : anyClrW (a ++ b) = (anyClrW a || anyClrW b) := by
  simp [anyClrW]
@[simp] theorem anyClrM_nil : anyClrM [] = false := rfl
@[simp] theorem anyClrM_cons (x : Micro) (xs : List Micro) : anyClrM (x :: xs) = (x.clrM || anyClrM xs) := by
  simp [anyClrM]
@[simp] theorem anyClrM_append (a b : List Micro) : anyClrM (a ++ b) = (anyClrM a || anyClrM b) := by
  simp [anyClrM]

/-- worker programs: only worker sections; a `coalesce` is run while holding a token; every
release is followed by the busy-report cleanup; `active` is cleared (or handed over) later. -/
def wfW : List Micro → Bool
  | [] => true
  | x :: rest =>
    x.wAllowed && wfW rest &&
    (match x with
     | .coalesce => decide (1 ≤ wsum Micro.tokW rest)
     | .storePF => anyRd rest
     | .setActive true => anyClrW rest
     | _ => true)

/-- main-loop programs. -/
def wfM : List Micro → Bool
  | [] => true
  | x :: rest =>
    x.mAllowed && wfM rest &&
    (match x with
     | .storeReloading _ => anyRelM rest && anyClrM rest
     | .storePF => anyRd rest
     | .finishFailHead => anyRd rest
     | _ => true)

/-- the first token-releasing section of the handler is a bare `pending.Store(false)` (the
re-listen failure branch): it must run with `reloading` already cleared. -/
def firstRelIsStore : List Micro → Bool
  | [] => false
  | .storePF :: _ => true
  | .storeReloading _ :: _ => false
  | .finishFailHead :: _ => false
  | .finishSucc :: _ => false
  | .exitHold :: _ => false
  | _ :: rest => firstRelIsStore rest

theorem anyRelM_of_firstRelIsStore (l : List Micro) (h : firstRelIsStore l = true) : anyRelM l = true := by
  induction l with
  | nil => simp [firstRelIsStore] at h
  | cons x xs ih =>
    cases x <;> simp_all [firstRelIsStore, Micro.isRelM]

/-! ## the invariant -/

structure Inv (s : St) : Prop where
  tok : tokens s = s.pending.toNat
  sup : s.suppress = owed s
  wfw : wfW s.w = true
  wfm : wfM s.m = true
  rel1 : wsum Micro.relM s.m ≤ 1
  store : firstRelIsStore s.m = true → s.reloading = false
  note : s.reloading = true → anyRelM s.m = false → s.notify = true
  busy : s.progress.isBusy = true → s.pending = true ∨ anyRd s.m = true ∨
          anyRd s.w = true ∨ 0 < s.gStore + s.gEnd + s.gRead + s.gWrite
  act : s.active = true → anyClrW s.w = true ∨ anyClrM s.m = true ∨ s.reloading = true

def Good (s : St) : Prop := s.exited = true ∨ Inv s

/-! ## facts about the tables (finite checks) -/

def wPathOk (p : List Eff) : Bool :=
  let w := expand p
  wfW w && wsum Micro.tokW w == 1 && wsum Micro.sup w == 1

def hPathOk (p : HPath) : Bool :=
  let m := expand p.effs
  wfM m && decide (wsum Micro.relM m ≤ 1) && wsum Micro.sigTok m == 0 &&
  (if p.reloading then anyRelM m && wsum Micro.sup m == 1 && !firstRelIsStore m
   else !anyRelM m && wsum Micro.sup m == 0)

theorem workerPaths_ok : workerPaths.all wPathOk = true := by decide

theorem handlerPaths_ok : handlerPaths.all hPathOk = true := by decide

end DaeVerif.C20
